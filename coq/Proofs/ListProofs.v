(* C19 — proofs about Model/ListModel.v: the chain/tail/len model refines a plain sequence. *)
From Coq Require Import List NArith Arith Lia Bool.
From Wbxml Require Import Model.ListModel.
Import ListNotations.

Definition last_ix (c : list N) : option nat :=
  match c with [] => None | _ => Some (length c - 1) end.

(* no walk ran off the chain, len counts the reachable items, tail designates the last one *)
Definition LInv (l : wlist) : Prop :=
  lfault l = false /\ llen l = length (chain l) /\ ltail l = last_ix (chain l).

Lemma LInv_create : LInv lcreate.
Proof. repeat split. Qed.

Lemma last_ix_snoc c x : last_ix (c ++ [x]) = Some (length c).
Proof.
  unfold last_ix. destruct (c ++ [x]) eqn:E.
  - destruct c; discriminate.
  - rewrite <- E, app_length. cbn. f_equal. lia.
Qed.

Lemma link_after_tail_ok l x : LInv l -> chain l <> [] ->
  link_after_tail l x = mklist (chain l ++ [x]) (Some (length (chain l))) (llen l) false.
Proof.
  intros (Hf & Hl & Ht) Hne. unfold link_after_tail. rewrite Ht. unfold last_ix.
  destruct (chain l) as [|a c] eqn:E; [congruence|].
  assert (Hlt : (length (a :: c) - 1 <? length (a :: c)) = true) by (apply Nat.ltb_lt; cbn; lia).
  rewrite Hlt, Hf. f_equal.
  - replace (S (length (a :: c) - 1)) with (length (a :: c)) by (cbn; lia). now rewrite firstn_all.
  - f_equal. cbn. lia.
Qed.

Lemma LInv_snoc c x n : n = length c -> LInv (bump_len (mklist (c ++ [x]) (Some (length c)) n false)).
Proof.
  intros ->. unfold LInv, bump_len. cbn. repeat split.
  - rewrite app_length. cbn. lia.
  - now rewrite last_ix_snoc.
Qed.

Theorem lstep_refines l o : LInv l ->
  chain (fst (lstep l o)) = fst (lspec_step (chain l) o) /\
  snd (lstep l o) = snd (lspec_step (chain l) o) /\
  LInv (fst (lstep l o)).
Proof.
  intros HI. pose proof HI as (Hf & Hl & Ht).
  destruct o as [x | x pos | i | | ]; cbn [lstep lspec_step].
  - (* append *)
    unfold lappend. destruct (x =? 0)%N; [cbn; auto|].
    destruct (chain l) as [|a c] eqn:E.
    + cbn in *. repeat split; cbn; auto; lia.
    + rewrite link_after_tail_ok by (auto; congruence). cbn [fst snd]. rewrite E.
      repeat split; try apply LInv_snoc; try (cbn; congruence); auto.
  - (* insert *)
    unfold linsert. destruct (x =? 0)%N; [cbn; auto|].
    destruct (llen l =? 0) eqn:E0.
    { apply Nat.eqb_eq in E0. rewrite E0 in Hl. symmetry in Hl. apply length_zero_iff_nil in Hl.
      rewrite Hl. cbn. replace (0 <=? pos)%N with true by (symmetry; apply N.leb_le; lia).
      unfold LInv; cbn. rewrite E0, Hf. auto. }
    apply Nat.eqb_neq in E0.
    assert (Hne : chain l <> []) by (intros C; rewrite C in Hl; cbn in Hl; lia).
    rewrite <- Hl.
    destruct (pos =? 0)%N eqn:Ep.
    { apply N.eqb_eq in Ep. subst pos.
      replace (N.of_nat (llen l) <=? 0)%N with false by (symmetry; apply N.leb_gt; lia).
      cbn. split; [reflexivity|split; [reflexivity|]].
      unfold LInv, bump_len; cbn. split; [assumption|split; [lia|]].
      rewrite Ht. unfold last_ix. destruct (chain l) eqn:E; [congruence|]. cbn. f_equal. lia. }
    destruct (N.of_nat (llen l) <=? pos)%N eqn:Eg.
    { rewrite link_after_tail_ok by auto. cbn [fst snd]. split; [reflexivity|split; [reflexivity|]].
      apply LInv_snoc. auto. }
    apply N.leb_gt in Eg. apply N.eqb_neq in Ep.
    replace (llen l <? N.to_nat pos) with false by (symmetry; apply Nat.ltb_ge; lia).
    cbn [fst snd]. split; [reflexivity|split; [reflexivity|]].
    unfold LInv, bump_len; cbn [chain ltail llen lfault]. split; [assumption|split].
    + rewrite app_length, firstn_length. cbn. rewrite skipn_length. lia.
    + rewrite Ht. unfold last_ix.
      destruct (chain l) as [|a c] eqn:E; [congruence|].
      destruct (firstn (N.to_nat pos) (a :: c) ++ x :: skipn (N.to_nat pos) (a :: c)) eqn:E2.
      { destruct (firstn (N.to_nat pos) (a :: c)); discriminate. }
      rewrite <- E2. cbn [option_map].
      replace (N.to_nat pos <=? length (a :: c) - 1) with true by (symmetry; apply Nat.leb_le; cbn in *; lia).
      f_equal. rewrite app_length, firstn_length. cbn [length] in *. rewrite skipn_length. cbn [length]. lia.
  - (* get *)
    unfold lget. rewrite Hl. cbn. auto.
  - (* extract_first *)
    unfold lextract_first. destruct (llen l =? 0) eqn:E0.
    { apply Nat.eqb_eq in E0. rewrite E0 in Hl. symmetry in Hl. apply length_zero_iff_nil in Hl.
      rewrite Hl. cbn. auto. }
    apply Nat.eqb_neq in E0.
    destruct (chain l) as [|a c] eqn:E; [cbn in Hl; lia|].
    cbn [fst snd]. repeat split; cbn; auto.
    + cbn in Hl. lia.
    + destruct c; [reflexivity|]. rewrite Ht. cbn. f_equal. lia.
  - cbn. unfold llength. rewrite Hl. auto.
Qed.

(* lifted to every operation sequence: items and results equal those of the plain sequence,
   and after every operation len = number of items *)
Theorem lrun_refines ops : forall l, LInv l ->
  map (fun x => (chain (fst x), snd x)) (lrun l ops) = lspec_run (chain l) ops /\
  Forall (fun x => LInv (fst x)) (lrun l ops).
Proof.
  induction ops as [|o r IH]; intros l HI; cbn [lrun lspec_run map]; [split; constructor|].
  destruct (lstep_refines l o HI) as (Hc & Hr & HI').
  destruct (IH _ HI') as (IH1 & IH2).
  split.
  - rewrite IH1, Hc. f_equal. rewrite Hr. now destruct (lspec_step (chain l) o).
  - constructor; auto.
Qed.

Corollary lrun_len ops : Forall (fun x => llen (fst x) = length (chain (fst x))) (lrun lcreate ops).
Proof.
  destruct (lrun_refines ops lcreate LInv_create) as (_ & H).
  eapply Forall_impl; [|exact H]. intros x (_ & Hl & _). exact Hl.
Qed.
