(* C02 (front end) — wbxml_tree_node_get_syncml_data_type does not look at the children of the <Data> node itself: the
   decision is the same whatever text / CDATA node the node already holds.  (Used for: text split into several events,
   and the canonical form of the image.) *)
From Coq Require Import List NArith Bool.
From Wbxml Require Import Model.TablesDefs Model.Tables Model.Codec Model.LangSelect Model.EncWbxml Model.XmlFront Proofs.EncWbxmlProofs.
Import ListNotations.
Local Open Scope N_scope.

Definition matches (name : bytes) (n : node) : bool :=
  match n with NElt tag _ _ => beq (tag_xml_name tag) name | _ => false end.

Lemma find_elt_snoc name l n :
  find_elt name (l ++ [n]) = match find_elt name l with Some x => Some x | None => if matches name n then Some n else None end.
Proof.
  unfold find_elt. fold (matches name). induction l as [|x r IH]; cbn [app find].
  - destruct (matches name n); reflexivity.
  - destruct (matches name x); [reflexivity|exact IH].
Qed.

Definition data_named (n : node) : Prop := match n with NElt tag _ _ => beq (tag_xml_name tag) s_Data = true | _ => False end.

Lemma data_not_meta n : data_named n -> matches s_Meta n = false.
Proof.
  destruct n as [tag a k| | | |]; cbn; try contradiction. intros H. apply beq_eq in H. rewrite H. reflexivity.
Qed.
Lemma data_not_type n : data_named n -> matches s_Type n = false.
Proof.
  destruct n as [tag a k| | | |]; cbn; try contradiction. intros H. apply beq_eq in H. rewrite H. reflexivity.
Qed.

Lemma meta_type_snoc_data l n : data_named n -> meta_type (l ++ [n]) = meta_type l.
Proof. intros D. unfold meta_type. rewrite find_elt_snoc, (data_not_meta n D). destruct (find_elt s_Meta l); reflexivity. Qed.

Lemma meta_type_open fP lG n1 n2 : data_named n1 -> data_named n2 ->
  meta_type (lG ++ [open_node fP [n1]]) = meta_type (lG ++ [open_node fP [n2]]).
Proof.
  intros D1 D2. unfold meta_type. rewrite !find_elt_snoc. destruct (find_elt s_Meta lG); [reflexivity|].
  unfold open_node. destruct (f_kind fP) as [tag attrs ct|]; cbn [matches]; [|reflexivity].
  destruct (beq (tag_xml_name tag) s_Meta); [|reflexivity]. cbn [node_kids].
  rewrite !find_elt_snoc, (data_not_type n1 D1), (data_not_type n2 D2). reflexivity.
Qed.

Definition frame_tag (f : frame) : option tagname := match f_kind f with FElt tag _ _ => Some tag | FCData => None end.

(* the decision for an element node: only its tag and its ancestors count *)
Lemma dt_elt_core fN up inner1 inner2 f2 :
  frame_tag fN = frame_tag f2 -> frame_tag fN <> None ->
  (match f_kind fN with
   | FElt tag _ _ =>
     if beq (tag_xml_name tag) s_Data then
       let nodeN := open_node fN inner1 in
       let first := match up with fP :: _ => meta_type (kids_of fP ++ [nodeN]) | [] => None end in
       let found := match first with Some t => Some t | None => match up with fP :: fG :: _ => meta_type (kids_of fG ++ [open_node fP [nodeN]]) | _ => None end end in
       let by_type := match found with Some t => match node_kids t with NText c :: _ => type_of_content c | _ => None end | None => None end in
       match by_type with
       | Some d => Some d
       | None => match up with
                 | _ :: fG :: _ => match frame_name fG with Some n => if beq n s_Add || beq n s_Replace then Some DT_VOBJECT else Some DT_NORMAL | None => Some DT_NORMAL end
                 | _ => Some DT_NORMAL
                 end
       end
     else Some DT_NORMAL
   | FCData => Some DT_NORMAL
   end) =
  (match f_kind f2 with
   | FElt tag _ _ =>
     if beq (tag_xml_name tag) s_Data then
       let nodeN := open_node f2 inner2 in
       let first := match up with fP :: _ => meta_type (kids_of fP ++ [nodeN]) | [] => None end in
       let found := match first with Some t => Some t | None => match up with fP :: fG :: _ => meta_type (kids_of fG ++ [open_node fP [nodeN]]) | _ => None end end in
       let by_type := match found with Some t => match node_kids t with NText c :: _ => type_of_content c | _ => None end | None => None end in
       match by_type with
       | Some d => Some d
       | None => match up with
                 | _ :: fG :: _ => match frame_name fG with Some n => if beq n s_Add || beq n s_Replace then Some DT_VOBJECT else Some DT_NORMAL | None => Some DT_NORMAL end
                 | _ => Some DT_NORMAL
                 end
       end
     else Some DT_NORMAL
   | FCData => Some DT_NORMAL
   end).
Proof.
  unfold frame_tag. intros T NN. destruct (f_kind fN) as [tag a1 c1|] eqn:K1; [|now elim NN].
  destruct (f_kind f2) as [tag2 a2 c2|] eqn:K2; [|discriminate]. injection T as <-.
  destruct (beq (tag_xml_name tag) s_Data) eqn:BD; [|reflexivity]. cbv zeta.
  assert (D1 : data_named (open_node fN inner1)) by (unfold open_node; rewrite K1; exact BD).
  assert (D2 : data_named (open_node f2 inner2)) by (unfold open_node; rewrite K2; exact BD).
  destruct up as [|fP up']; [reflexivity|].
  rewrite !(meta_type_snoc_data _ _ D1), !(meta_type_snoc_data _ _ D2).
  destruct (meta_type (kids_of fP)); [reflexivity|].
  destruct up' as [|fG up'']; [reflexivity|]. now rewrite (meta_type_open fP (kids_of fG) _ _ D1 D2).
Qed.

Theorem dt_same_tag f1 f2 up :
  frame_tag f1 = frame_tag f2 -> frame_tag f1 <> None -> syncml_data_type (f1 :: up) = syncml_data_type (f2 :: up).
Proof.
  intros T NN. unfold syncml_data_type.
  assert (C1 : is_cdata_frame f1 = false) by (unfold is_cdata_frame, frame_tag in *; destruct (f_kind f1); [reflexivity|now elim NN]).
  assert (C2 : is_cdata_frame f2 = false).
  { unfold is_cdata_frame, frame_tag in *. destruct (f_kind f2); [reflexivity|]. destruct (f_kind f1); [discriminate|now elim NN]. }
  rewrite C1, C2. cbv beta iota. exact (dt_elt_core f1 up [] [] f2 T NN).
Qed.

(* a CDATA node below the element is transparent *)
Theorem dt_through_cdata C f f2 up :
  is_cdata_frame C = true -> frame_tag f = frame_tag f2 -> frame_tag f <> None ->
  syncml_data_type (C :: f :: up) = syncml_data_type (f2 :: up).
Proof.
  intros CC T NN. unfold syncml_data_type. rewrite CC.
  assert (C2 : is_cdata_frame f2 = false).
  { unfold is_cdata_frame, frame_tag in *. destruct (f_kind f2); [reflexivity|]. destruct (f_kind f); [discriminate|now elim NN]. }
  rewrite C2. cbv beta iota. exact (dt_elt_core f up [reify C] [] f2 T NN).
Qed.
