(* C06 (typed values) — more normal forms: canon_wv_int (Wireless-Village integers) and canon_b64 (DRMREL key values, the OTA
   icon) are idempotent.  The arithmetic is c12's (Proofs/TypedProofs.v, Proofs/CodecProofs.v) and the parser agent's
   (Proofs/ParserProofsWv.v), read only; here they are transported to the encoder model and Spec. *)
From Coq Require Import List NArith ZArith Lia Bool ZifyBool ZifyN PeanoNat.
From Wbxml Require Import Base.Bits Model.Codec Model.EncWbxml Proofs.EncWbxmlProofs Proofs.EncWbxmlAbs Proofs.EncWbxmlAbs5
     Proofs.EncWbxmlDenote2 Proofs.EncWbxmlTblOk Proofs.EncWbxmlDenoteWv Proofs.EncWbxmlClasses.
From Wbxml Require Model.Typed Model.Parser Model.Spec Proofs.CodecProofs Proofs.TypedProofs Proofs.ModelConsistencyTyped Proofs.ParserProofsWv.
Import ListNotations.
Local Open Scope N_scope.

Module T := Wbxml.Model.Typed.
Module TP := Wbxml.Proofs.TypedProofs.

(* ---- base64 -------------------------------------------------------------------------------------------------------------------------- *)
Lemma bytes_okb_Forall d : S.bytes_okb d = true -> Forall (fun b => b < 256) d.
Proof. unfold S.bytes_okb, S.is_byte. intros H. apply Forall_forall. intros x Hx. rewrite forallb_forall in H. specialize (H x Hx). lia. Qed.

Lemma b64_raw_rfc d : S.bytes_okb d = true -> b64_raw (rfc4648 d) = d.
Proof.
  intros Hb. destruct d as [|x r]; [reflexivity|].
  rewrite Proofs.ModelConsistencyTyped.encwbxml_b64_raw_is_codec.
  replace (rfc4648 (x :: r)) with (b64_enc_body (x :: r)) by (apply Proofs.CodecProofs.b64_enc_is_rfc4648; exact (bytes_okb_Forall _ Hb)).
  rewrite (Proofs.CodecProofs.b64_roundtrip (x :: r)); [reflexivity|discriminate|exact (bytes_okb_Forall _ Hb)].
Qed.

Theorem canon_b64_idem v : canon_b64 (canon_b64 v) = canon_b64 v.
Proof. unfold canon_b64. f_equal. apply b64_raw_rfc. apply b64_raw_bytes. Qed.

(* ---- Wireless-Village integers ------------------------------------------------------------------------------------------------------ *)
Lemma dec_fuel_spec f : forall n, T.dec_fuel f n = S.dec_spec f n.
Proof. induction f as [|f IH]; intros n; [reflexivity|]. cbn [T.dec_fuel S.dec_spec]. now rewrite IH. Qed.

Lemma decimal_sprintf n : n < 4294967296 -> S.decimal n = T.sprintf_u n.
Proof.
  intros H. unfold S.decimal, T.sprintf_u. rewrite (dec_fuel_spec 20 n).
  apply (Proofs.ParserProofsWv.dec_spec_fuel 20 40 n); [change (10 ^ N.of_nat 20) with 100000000000000000000; lia|lia|lia].
Qed.

Lemma be_value_fold d : forall acc, S.be_value d acc = fold_left (fun a b => a * 256 + b) d acc.
Proof. induction d as [|b r IH]; intros acc; [reflexivity|]. cbn [S.be_value fold_left]. apply IH. Qed.

Lemma wv_payload_decimal n : n < 4294967296 -> wv_int_payload (T.sprintf_u n) = T.wv_int_octets 4 n [].
Proof.
  intros Hn.
  pose proof (TP.enc_wv_int_decimal n Hn) as E1.
  rewrite Proofs.ModelConsistencyTyped.enc_wv_int_eq in E1. apply (f_equal T.payload_of) in E1. cbn [T.payload_of] in E1.
  change (enc_wv_integer (T.sprintf_u n)) with (enc_opaque (wv_int_payload (T.sprintf_u n))) in E1.
  destruct (TP.octets_value n Hn) as (_ & _ & Hl & _).
  assert (P1 : T.opaque_payload (enc_opaque (wv_int_payload (T.sprintf_u n))) = Some (wv_int_payload (T.sprintf_u n))).
  { change (enc_opaque (wv_int_payload (T.sprintf_u n))) with (T.enc_opaque (wv_int_payload (T.sprintf_u n))).
    apply TP.opaque_payload_enc. destruct (wv_int_payload_ok (T.sprintf_u n)) as [_ B]. unfold S.u32_okb, Parser.blen in B. lia. }
  rewrite E1 in P1. rewrite TP.opaque_payload_short in P1 by lia. congruence.
Qed.

Theorem canon_wv_int_idem v o : canon_wv_int v = Some o -> canon_wv_int o = Some o.
Proof.
  unfold canon_wv_int, S.spec_wv_integer. destruct (S.be_value (wv_int_payload v) 0 <? 4294967296) eqn:B; [|discriminate].
  intros E; injection E as <-. set (n := S.be_value (wv_int_payload v) 0) in *. assert (Hn : n < 4294967296) by lia.
  rewrite (decimal_sprintf n Hn), (wv_payload_decimal n Hn).
  destruct (TP.octets_value n Hn) as (_ & Hv & _ & _). unfold T.be_value in Hv. rewrite be_value_fold, Hv.
  replace (n <? 4294967296) with true by lia. now rewrite (decimal_sprintf n Hn).
Qed.
