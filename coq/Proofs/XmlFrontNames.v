(* C02 (front end) — every tag and attribute name of a tree the front end builds is a non-empty C string, provided the
   names Expat reports are (it never reports an empty name) and the table names are (checked on the regenerated tables).
   This discharges the hypothesis `all_names_ok` of the size theorem of the WBXML encoder (Proofs/EncWbxmlSize2.v). *)
From Coq Require Import List NArith Lia Bool.
From Wbxml Require Import Model.TablesDefs Model.Tables Model.Codec Model.LangSelect Model.EncWbxml Model.XmlFront.
From Wbxml Require Import Proofs.LangSelectProofs Proofs.XmlFrontProofs Proofs.XmlFrontTree Proofs.EncWbxmlSize Proofs.EncWbxmlSize2.
Import ListNotations.
Local Open Scope N_scope.

(* ------------------------------------------------------------------ lists *)

Lemma all_names_Forall l : all_names_ok l <-> Forall names_ok l.
Proof.
  induction l as [|x r IH]; cbn [all_names_ok]; [split; auto|]. rewrite IH. split.
  - intros [A B]. constructor; assumption.
  - intros H. inversion H; subst. auto.
Qed.

Lemma names_ok_elt tag attrs kids :
  names_ok (NElt tag attrs kids) <-> name_ok (tag_xml_name tag) /\ Forall attr_ok attrs /\ Forall names_ok kids.
Proof. cbn [names_ok]. now rewrite all_all_names_ok, all_names_Forall. Qed.
Lemma names_ok_cdata kids : names_ok (NCData kids) <-> Forall names_ok kids.
Proof. cbn [names_ok]. now rewrite all_all_names_ok, all_names_Forall. Qed.
Lemma names_ok_tree l roots : names_ok (NTree l roots) <-> Forall names_ok roots.
Proof. cbn [names_ok]. now rewrite all_all_names_ok, all_names_Forall. Qed.

(* ------------------------------------------------------------------ tables *)

Definition lang_names_ok (l : lang) : Prop :=
  Forall (fun r => name_ok (bs (t_name r))) (opt_list (l_tags l)) /\
  Forall (fun r => name_ok (bs (a_name r))) (opt_list (l_attrs l)).

Lemma tag_pass1_in rows : forall c name fc e, tag_pass1 rows c name fc = Some e -> In e rows.
Proof.
  induction rows as [|x r IH]; intros c name fc e; cbn [tag_pass1]; [discriminate|].
  destruct (t_page x =? c).
  - destruct (streq (t_name x) name); [intros H; injection H as <-; now left|]. intros H. right. eapply IH; eassumption.
  - destruct fc; [discriminate|]. intros H. right. eapply IH; eassumption.
Qed.

Lemma tag_from_xml_in l cur name e : tag_from_xml l cur name = Some e -> In e (opt_list (l_tags l)).
Proof.
  unfold tag_from_xml. destruct (l_tags l) as [rows|]; [|discriminate]. cbn [opt_list].
  destruct (match cur with Some c => tag_pass1 rows c name false | None => None end) as [e1|] eqn:P1.
  - intros H; injection H as <-. destruct cur; [eapply tag_pass1_in; eassumption|discriminate].
  - unfold tag_pass2. intros H. apply find_some in H. tauto.
Qed.

Lemma attr_loop_in rows : forall name value found comp r,
  fst (Tables.attr_loop rows name value found comp) = Some r -> In r rows \/ found = Some r.
Proof.
  induction rows as [|x rest IH]; intros name value found comp r; cbn [Tables.attr_loop].
  - destruct found; cbn; intros H; [right; exact H|discriminate].
  - destruct (streq (a_name x) name).
    + destruct (a_value x) as [ev|].
      * destruct value as [v|].
        -- destruct (streq ev v); [cbn; intros H; injection H as <-; left; now left|].
           destruct (_ && _ && _).
           ++ intros H. destruct (IH _ _ _ _ _ H) as [X|X]; [left; now right|injection X as <-; left; now left].
           ++ intros H. destruct (IH _ _ _ _ _ H) as [X|X]; [left; now right|now right].
        -- intros H. destruct (IH _ _ _ _ _ H) as [X|X]; [left; now right|now right].
      * destruct value as [v|].
        -- intros H. destruct (IH _ _ _ _ _ H) as [X|X]; [left; now right|].
           destruct found; [now right|injection X as <-; left; now left].
        -- cbn. intros H; injection H as <-. left; now left.
    + intros H. destruct (IH _ _ _ _ _ H) as [X|X]; [left; now right|now right].
Qed.

Lemma attr_from_xml_in l name value r : fst (attr_from_xml l name value) = Some r -> In r (opt_list (l_attrs l)).
Proof.
  unfold attr_from_xml. destruct (l_attrs l) as [rows|]; [|discriminate]. cbn [opt_list].
  intros H. destruct (attr_loop_in _ _ _ _ _ _ H) as [X|X]; [exact X|discriminate].
Qed.

(* the local part of an element name as Expat delivers it ("namespace|local" or "local") *)
Definition local_of (name : bytes) : bytes := match split_last SEP name with Some (_, b) => b | None => name end.

Definition ev_names_ok (e : event) : Prop :=
  match e with
  | EvStartElement name attrs _ => name_ok (local_of name) /\ Forall (fun nv => name_ok (fst nv)) attrs
  | _ => True
  end.

Lemma resolve_tag_name_ok l name : lang_names_ok l -> name_ok (local_of name) -> name_ok (tag_xml_name (fst (resolve_tag l name))).
Proof.
  intros [LT _] NO. unfold resolve_tag, local_of in *.
  destruct (split_last SEP name) as [[a b]|].
  - destruct (tag_from_xml l _ (str b)) as [row|] eqn:T; cbn; [|exact NO].
    exact (proj1 (Forall_forall _ _) LT row (tag_from_xml_in _ _ _ _ T)).
  - destruct (tag_from_xml l _ (str name)) as [row|] eqn:T; cbn; [|exact NO].
    exact (proj1 (Forall_forall _ _) LT row (tag_from_xml_in _ _ _ _ T)).
Qed.

Lemma resolve_attr_name_ok l nv : lang_names_ok l -> name_ok (fst nv) -> attr_ok (resolve_attr l nv).
Proof.
  intros [_ LA] NO. destruct nv as [name value]. unfold resolve_attr, attr_ok, attr_xml_name.
  destruct (fst (attr_from_xml l (str name) (Some (str value)))) as [row|] eqn:A; cbn; [|exact NO].
  exact (proj1 (Forall_forall _ _) LA row (attr_from_xml_in _ _ _ _ A)).
Qed.

Lemma search_table_in main p s r l : search_table main p s r = Some l -> In l main.
Proof.
  unfold search_table.
  destruct (match p with Some p0 => fst (scan_idx (has_pub_text_ci p0) main 0) | None => None end) as [l1|] eqn:E1.
  { intros H; injection H as <-. destruct p; [|discriminate]. exact (proj1 (scan_idx_some _ _ _ _ E1)). }
  destruct (match s with Some s0 => fst (scan_idx (has_dtd s0) main 0) | None => None end) as [l2|] eqn:E2.
  { intros H; injection H as <-. destruct s; [|discriminate]. exact (proj1 (scan_idx_some _ _ _ _ E2)). }
  destruct r as [r0|]; [|discriminate].
  destruct (if str_has NAMESPACE_SEPARATOR r0 then scan_idx (ns0_prefixes r0) main 0 else (None, 0%nat)) as [found i] eqn:E3.
  destruct found as [l3|].
  - intros H; injection H as <-. destruct (str_has NAMESPACE_SEPARATOR r0); [|discriminate].
    assert (X : fst (scan_idx (ns0_prefixes r0) main 0) = Some l3) by now rewrite E3.
    exact (proj1 (scan_idx_some _ _ _ _ X)).
  - intros H. exact (proj1 (scan_idx_some _ _ _ _ H)).
Qed.

(* ------------------------------------------------------------------ the invariant *)

Definition frame_nm (f : frame) : Prop :=
  match f_kind f with
  | FElt tag attrs _ => name_ok (tag_xml_name tag) /\ Forall attr_ok attrs
  | FCData => True
  end /\ Forall names_ok (f_rkids f).

Lemma reify_nm f : frame_nm f -> names_ok (reify f).
Proof.
  intros [K R]. unfold reify. destruct (f_kind f) as [tag attrs content|].
  - apply names_ok_elt. destruct K as [A B]. repeat split; auto. rewrite kids_of_rev. now apply Forall_rev.
  - apply names_ok_cdata. rewrite kids_of_rev. now apply Forall_rev.
Qed.

Lemma add_kid_nm f n : frame_nm f -> names_ok n -> frame_nm (add_kid f n).
Proof. intros [K R] N. split; [exact K|]. constructor; assumption. Qed.

Lemma add_text_kid_nm f t : frame_nm f -> frame_nm (add_text_kid f t).
Proof.
  intros [K R]. unfold add_text_kid. destruct (f_rkids f) as [|x r] eqn:E.
  - apply add_kid_nm; [split; [exact K|rewrite E; constructor]|exact I].
  - destruct x; try (apply add_kid_nm; [split; [exact K|rewrite E; exact R]|exact I]).
    split; [exact K|]. cbn. inversion R; subst. constructor; [exact I|assumption].
Qed.

Section Nm.
  Variable main : list lang.
  Variable sub : bytes -> xtree + N.
  Variable input : bytes.
  Hypothesis main_ok : Forall lang_names_ok main.
  Hypothesis sub_nm : forall d t, sub d = inl t -> Forall names_ok (xt_roots t).

  Notation step := (step main sub input).
  Notation run := (run main sub input).

  Definition ctx_nm (c : ctx) : Prop :=
    Forall frame_nm (c_spine c) /\ match c_root c with Some r => names_ok r | None => True end /\
    (forall l, c_lang c = Some l -> In l main).

  Lemma go_up_nm c : ctx_nm c -> ctx_nm (go_up c).
  Proof.
    unfold ctx_nm, go_up. intros (S & R & LN). destruct (c_spine c) as [|f [|p r]] eqn:E; cbn; rewrite ?E; auto.
    - inversion S; subst. repeat split; auto. now apply reify_nm.
    - inversion S as [|? ? Ff S']; subst. inversion S' as [|? ? Fp Sr]; subst. repeat split; auto.
      constructor; [|exact Sr]. apply add_kid_nm; [exact Fp|now apply reify_nm].
  Qed.

  Lemma push_frame_nm c f err : ctx_nm c -> frame_nm f -> ctx_nm (push_frame c f err).
  Proof.
    unfold ctx_nm, push_frame. intros (S & R & LN) F.
    destruct (c_spine c) as [|g up] eqn:E; [destruct (c_root c) eqn:E2|]; cbn; rewrite ?E, ?E2; repeat split; auto.
  Qed.

  Lemma add_text_nm c t : ctx_nm c -> ctx_nm (add_text c t).
  Proof.
    unfold ctx_nm, add_text. intros (S & R & LN).
    destruct (c_spine c) as [|f up] eqn:E; [destruct (c_root c) eqn:E2|]; cbn; rewrite ?E, ?E2; repeat split; auto.
    inversion S; subst. constructor; [now apply add_text_kid_nm|assumption].
  Qed.

  Lemma set_head_nm c f f' up : ctx_nm c -> c_spine c = f :: up -> frame_nm f' -> ctx_nm (set_spine c (f' :: up)).
  Proof.
    unfold ctx_nm. intros (S & R & LN) E F. rewrite E in S. inversion S; subst. cbn. repeat split; auto.
  Qed.

  Lemma flush_nm c : ctx_nm c -> ctx_nm (flush_binary c).
  Proof.
    intros H. unfold flush_binary. destruct (c_spine c) as [|f up] eqn:E; [exact H|].
    destruct (f_kind f) as [[p t o nm|nm] attrs [content|]|] eqn:K; try exact H.
    destruct (negb (N.land o WBXML_TAG_OPTION_BINARY =? 0)); [|exact H].
    assert (Ff : frame_nm f) by (destruct H as (S & _); rewrite E in S; now inversion S).
    assert (F0 : frame_nm (mk_frame (FElt (TagTok p t o nm) attrs None) (f_rkids f))).
    { destruct Ff as [A B]. rewrite K in A. split; [exact A|exact B]. }
    destruct (buffer_b64_dec content).
    - apply (set_head_nm c f _ up H E). now apply add_text_kid_nm.
    - pose proof (set_head_nm c f _ up H E F0) as X. destruct X as (X1 & X2 & X3). repeat split; auto.
  Qed.

  Lemma leave_current_nm c : ctx_nm c -> ctx_nm (leave_current c).
  Proof.
    intros H. unfold leave_current. destruct (c_spine c) as [|f [|p r]]; [exact H|exact H|].
    destruct (is_cdata_frame f); repeat apply go_up_nm; exact H.
  Qed.

  Lemma set_error_nm c e : ctx_nm c -> ctx_nm (set_error c e).
  Proof. intros H. exact H. Qed.

  Theorem ctx_nm_step c e : ev_names_ok e -> ctx_nm c -> ctx_nm (step c e).
  Proof.
    intros EV H. destruct e as [version encoding|dname sysid pubid| |name attrs byte_index|name byte_index|ch| | |target data]; cbn [XmlFront.step]; auto.
    - unfold on_xml_decl. destruct version, encoding; auto. destruct (charset_get_mib b0); auto.
    - unfold on_start_doctype. destruct (search_table main _ _ None) as [l|] eqn:ST; auto.
      destruct H as (S & R & LN). repeat split; auto. cbn. intros l0 X; injection X as <-. exact (search_table_in _ _ _ _ _ ST).
    - (* start element *)
      destruct EV as [EN EA]. unfold on_start_element.
      destruct (negb (c_error c =? WBXML_OK)); auto.
      destruct (0 <? c_skip_lvl c); auto.
      match goal with |- context [if negb (c_error ?x =? WBXML_OK) then _ else _] => set (c1 := x) end.
      assert (H1 : ctx_nm c1).
      { subst c1. destruct (c_spine c); [|exact H]. destruct (c_lang c); [exact H|].
        destruct (search_table main None None (Some (str name))) as [l|] eqn:ST; [|exact H].
        destruct H as (S & R & LN). repeat split; auto. cbn. intros l0 X; injection X as <-. exact (search_table_in _ _ _ _ _ ST). }
      clearbody c1.
      destruct (negb (c_error c1 =? WBXML_OK)); auto.
      destruct (is_embedded_name name && _); auto.
      apply flush_nm in H1. set (cf := flush_binary c1) in *. clearbody cf. unfold start_child.
      destruct (negb (c_error cf =? WBXML_OK)); auto.
      destruct (WBXML_MAX_NESTING_DEPTH <=? N.of_nat (List.length (c_spine cf))); auto.
      destruct (c_lang cf) as [l|] eqn:L; auto.
      assert (LO : lang_names_ok l).
      { destruct H1 as (_ & _ & LN). exact (proj1 (Forall_forall _ _) main_ok l (LN l L)). }
      pose proof (resolve_tag_name_ok l name LO EN) as TN.
      destruct (resolve_tag l name) as [tag page]. cbn [fst] in TN.
      apply push_frame_nm; [exact H1|]. split; [|constructor]. cbn. split; [exact TN|].
      apply Forall_forall. intros a IA. apply in_map_iff in IA. destruct IA as (nv & <- & INV).
      apply resolve_attr_name_ok; [exact LO|]. exact (proj1 (Forall_forall _ _) EA nv INV).
    - (* end element *)
      unfold on_end_element. apply flush_nm in H. set (cf := flush_binary c) in *. clearbody cf.
      pose proof (leave_current_nm cf H) as LV.
      destruct (negb (c_error cf =? WBXML_OK)); auto.
      destruct (0 <? c_skip_lvl cf); auto.
      destruct (c_skip_lvl cf =? 1); auto.
      destruct (is_embedded_name name); auto.
      destruct (c_lang cf) as [tl|]; auto.
      destruct (beq name n_MgmtTree && negb (l_id tl =? LANG_SYNCML12)); auto.
      match goal with |- context [match ?t with Some _ => _ | None => _ end] => destruct t as [id|] end; auto.
      destruct (get_table main id) as [el|]; auto.
      destruct (embedded_doc _ _ _ _ _) as [doc|]; auto.
      destruct (sub doc) as [t|e] eqn:SB; auto.
      destruct (c_spine cf) as [|f up] eqn:S; [destruct (c_root cf); auto|].
      assert (X : ctx_nm (set_spine cf (add_kid f (NTree (xt_lang t) (xt_roots t)) :: up))).
      { apply (set_head_nm cf f _ up H S). apply add_kid_nm.
        - destruct H as (SS & _). rewrite S in SS. now inversion SS.
        - apply names_ok_tree. exact (sub_nm doc t SB). }
      exact X.
    - (* characters *)
      unfold on_characters.
      destruct (negb (c_error c =? WBXML_OK)); auto.
      destruct (0 <? c_skip_lvl c); auto.
      destruct (syncml_data_type (c_spine c)) as [dt|]; auto.
      match goal with |- ctx_nm (let '(ch1, want_cdata) := ?p in _) => destruct p as [ch1 want] end.
      match goal with |- context [match c_spine ?x with _ => _ end] => set (c1 := x) end.
      assert (H1 : ctx_nm c1).
      { subst c1. destruct (c_spine c); auto. destruct (want && _ && _); auto.
        apply push_frame_nm; [exact H|]. split; [exact I|constructor]. }
      clearbody c1.
      destruct (c_spine c1) as [|f up] eqn:S; [now apply add_text_nm|].
      destruct (is_binary_frame f); [|now apply add_text_nm].
      destruct (f_kind f) as [tag at0 content|] eqn:K; auto.
      apply (set_head_nm c1 f _ up H1 S).
      destruct H1 as (SS & _). rewrite S in SS. inversion SS as [|? ? Ff _]; subst. destruct Ff as [A B]. rewrite K in A.
      split; [exact A|exact B].
    - unfold on_start_cdata. destruct (negb (c_error c =? WBXML_OK)); auto. destruct (0 <? c_skip_lvl c); auto.
      apply push_frame_nm; [exact H|]. split; [exact I|constructor].
    - unfold on_end_cdata. destruct (negb (c_error c =? WBXML_OK)); auto. destruct (0 <? c_skip_lvl c); auto.
      destruct (c_spine c) as [|f [|p r]] eqn:S; auto. now apply go_up_nm.
  Qed.

  Theorem ctx_nm_run evs : Forall ev_names_ok evs -> forall c, ctx_nm c -> ctx_nm (run c evs).
  Proof.
    induction 1 as [|e r He Hr IH]; intros c H; [exact H|]. change (ctx_nm (run (step c e) r)). apply IH. now apply ctx_nm_step.
  Qed.

  Lemma close_spine_nm sp : Forall frame_nm sp -> forall child,
    match child with Some n => names_ok n | None => True end ->
    match close_spine child sp with Some r => names_ok r | None => True end.
  Proof.
    induction 1 as [|f up Ff Su IH]; intros child C; [exact C|].
    cbn [close_spine]. apply IH. apply reify_nm. destruct child; [now apply add_kid_nm|exact Ff].
  Qed.

  Theorem tree_from_xml_names evs ok t :
    Forall ev_names_ok evs -> tree_from_xml main sub input evs ok = inl t -> all_names_ok (xt_roots t).
  Proof.
    intros EV. unfold tree_from_xml. destruct input eqn:EI; [discriminate|]. rewrite <- EI. destruct ok; cbn; [|discriminate].
    destruct (negb (c_error (run init_ctx evs) =? WBXML_OK)); [discriminate|].
    intros E. injection E as <-. unfold tree_of_ctx. cbn.
    assert (H : ctx_nm (run init_ctx evs)).
    { apply ctx_nm_run; [exact EV|]. split; [constructor|]. split; [exact I|]. intros l X; discriminate. }
    destruct H as (S & R & _). unfold root_of.
    destruct (c_spine (run init_ctx evs)) as [|f up] eqn:E.
    - destruct (c_root (run init_ctx evs)); cbn; auto.
    - pose proof (close_spine_nm (f :: up) S None I) as X. destruct (close_spine None (f :: up)); cbn; auto.
  Qed.
End Nm.

(* the whole function: Expat never reports an empty element or attribute name *)
Theorem tree_from_xml_fuel_names main expat :
  Forall lang_names_ok main -> (forall doc, Forall ev_names_ok (fst (expat doc))) ->
  forall fuel doc t, tree_from_xml_fuel main expat fuel doc = inl t -> all_names_ok (xt_roots t).
Proof.
  intros MO EX. induction fuel as [|k IH]; intros doc t; cbn [tree_from_xml_fuel]; apply tree_from_xml_names; auto.
  - intros d t0 H. discriminate.
  - intros d t0 H. apply all_names_Forall. exact (IH d t0 H).
Qed.
