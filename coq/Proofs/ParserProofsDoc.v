(* C04 — the whole document: header, string table, language selection, body. *)
From Coq Require Import String Ascii.
From Coq Require Import List NArith ZArith Lia Bool ZifyBool ZifyN.
From Wbxml Require Import Base.Bits Model.Codec Model.TablesDefs Model.Parser Model.Spec
     Proofs.CodecProofs Proofs.ParserProofsBase Proofs.ParserProofsStr Proofs.ParserProofsAttr Proofs.ParserProofsElt.
Import ListNotations.
Local Open Scope N_scope.

Lemma mb_write_head_nz v : v <> 0 -> v < 4294967296 -> exists b r, mb_write v = b :: r /\ (b =? 0) = false.
Proof.
  intros Hn Hv. rewrite (mb_write_spec v Hv).
  destruct (v <? 128); [eexists; eexists; split; [reflexivity|lia]|].
  destruct (v <? 16384); [eexists; eexists; split; [reflexivity|lia]|].
  destruct (v <? 2097152); [eexists; eexists; split; [reflexivity|lia]|].
  destruct (v <? 268435456); eexists; eexists; (split; [reflexivity|lia]).
Qed.

Lemma find_lang_pub_find tbl n k :
  fst (find_lang_pub tbl n k) = find (fun l => l_pub_num l =? n) tbl.
Proof.
  revert k. induction tbl as [|l t IH]; intros k; cbn [find_lang_pub find]; [reflexivity|].
  destruct (l_pub_num l =? n); [reflexivity|apply IH].
Qed.

Lemma find_lang_id_find tbl id k :
  fst (find_lang_id tbl id k) = find (fun l => l_id l =? id) tbl.
Proof.
  revert k. induction tbl as [|l t IH]; intros k; cbn [find_lang_id find]; [reflexivity|].
  destruct (l_id l =? id); [reflexivity|apply IH].
Qed.

Lemma strcaseeq_ci a b : strcaseeq a b = ci_eqb a b.
Proof.
  unfold strcaseeq. revert b. induction a as [|x a IH]; intros [|y b]; cbn [map bytes_eqb ci_eqb]; try reflexivity.
  rewrite IH. reflexivity.
Qed.

Lemma find_lang_text_find tbl s :
  find_lang_text tbl s = find (fun l => match l_pub_text l with Some t => ci_eqb (B t) s | None => false end) tbl.
Proof.
  induction tbl as [|l t IH]; cbn [find_lang_text find]; [reflexivity|].
  destruct (l_pub_text l) as [p|]; [|exact IH].
  rewrite strcaseeq_ci. destruct (ci_eqb (B p) s); [reflexivity|exact IH].
Qed.

(* the string table as the header parser leaves it *)
Lemma parse_strtbl_ok tb r : bytes_okb tb = true -> u32_okb (blen tb) = true ->
  parse_strtbl (mb_write (blen tb) ++ tb ++ r) =
  POk (match tb with [] => None | _ => Some (padded tb) end, blen tb, r).
Proof.
  intros Hb Hu. unfold parse_strtbl. rewrite parse_mb_ok by (apply u32_okb_lt; exact Hu).
  destruct tb as [|b0 tb0] eqn:E.
  - reflexivity.
  - rewrite <- E in *. replace (0 <? blen tb) with true by (subst tb; unfold blen; cbn [length]; lia).
    rewrite blen_app_le, take_app, drop_app. unfold padded. subst tb. reflexivity.
Qed.

Section Doc.
Variable tbl : list lang.
Hypothesis Hwv : forall l, In l tbl -> wv_premise l.
Hypothesis Hdt : typed_datetime_agree.

Lemma pis_loop_ok l tb ver cs (Hcs : cs_ok cs) pis : forall dst evs dst' fuel r,
  den_pis (mk_denv l tb) pis dst = Some (evs, dst') -> is_token r 67 = false ->
  (length (flat_map ser_pi pis) < fuel)%nat ->
  body_pi_loop fuel (penv_of l tb ver cs) (pst dst (flat_map ser_pi pis ++ r)) = POk (evs, pst dst' r).
Proof.
  induction pis as [|p ps IH]; intros dst evs dst' fuel r H Hr Hf.
  - cbn [den_pis] in H. injection H as <- <-. destruct fuel as [|f]; [cbn in Hf; lia|].
    cbn [flat_map app body_pi_loop pst s_rest]. rewrite Hr. reflexivity.
  - cbn [den_pis] in H. destruct (den_pi (mk_denv l tb) p dst) as [[e st1]|] eqn:Ep; [|discriminate].
    destruct (den_pis (mk_denv l tb) ps st1) as [[e' st2]|] eqn:Eps; [|discriminate]. injection H as <- <-.
    destruct fuel as [|f]; [cbn in Hf; lia|].
    cbn [flat_map] in *. rewrite <- app_assoc. rewrite app_length in Hf.
    assert (Hl1 : length (ser_pi p) = S (S (length (ser_attr p)))).
    { unfold ser_pi. cbn [length]. rewrite app_length. cbn [length]. lia. }
    pose proof (pi_ok l tb ver cs Hcs p dst e st1 f (flat_map ser_pi ps ++ r) Ep) as Hpi.
    cbn [body_pi_loop pst s_rest]. change (ser_pi p) with (67 :: ser_attr p ++ [1]) in *.
    cbn [app is_token N.eqb Pos.eqb] in *. rewrite Hpi by lia.
    rewrite (IH st1 e' st2 f r Eps Hr) by lia. reflexivity.
Qed.

(* the charset the header announces is one whose strings this build converts *)
Lemma charset_of_ok d cs : charset_of d = Some cs -> cs_ok cs.
Proof.
  unfold charset_of, cs_ok. destruct (wd_ver d); destruct (wd_charset d) as [c|]; try discriminate.
  - intros H. injection H as <-. right. reflexivity.
  - destruct (c =? 0); [intros H; injection H as <-; right; reflexivity|].
    destruct ((c =? 3) || (c =? 106)) eqn:E; [|discriminate]. intros H. injection H as <-. lia.
Qed.

Lemma charset_of_cases d cs : charset_of d = Some cs ->
  (wd_ver d = 0 /\ wd_charset d = None /\ cs = 106) \/
  (wd_ver d <> 0 /\ exists c, wd_charset d = Some c /\ ((c = 0 /\ cs = 106) \/ (c = cs /\ (cs = 3 \/ cs = 106)))).
Proof.
  unfold charset_of. destruct (wd_ver d) as [|pv]; destruct (wd_charset d) as [c|]; try discriminate.
  - intros H. injection H as <-. left. repeat split.
  - intros H. right. split; [discriminate|]. exists c. split; [reflexivity|].
    destruct (c =? 0) eqn:E0; [injection H as <-; left; split; [lia|reflexivity]|].
    destruct ((c =? 3) || (c =? 106)) eqn:E; [|discriminate]. injection H as <-. right. split; [reflexivity|lia].
Qed.

Lemma lang_of_pub_In tb p l : lang_of_pub tbl tb p = Some l -> In l tbl.
Proof.
  unfold lang_of_pub. destruct p as [n|i].
  - destruct ((n =? 1) || negb (u32_okb n) || (n =? 0)); [discriminate|]. intros H. apply find_some in H. tauto.
  - destruct (u32_okb i && negb (i =? 4294967295)); [|discriminate].
    destruct (str_at tb i); [|discriminate]. intros H. apply find_some in H. tauto.
Qed.

(* the caller may force the language (wbxml_parser_set_language): forced = its id, found in the table *)
Definition forced_ok (forced : N) (flang : option lang) : Prop :=
  match flang with
  | None => forced = 0
  | Some L => forced = l_id L /\ forced <> 0 /\ find (fun x => l_id x =? forced) tbl = Some L
  end.

Theorem parse_denote_with (forced : N) (flang : option lang) (d : wdoc) (evs : list event) :
  forced_ok forced flang ->
  denote_with tbl flang d = Some evs ->
  parse_with tbl forced 0 (S (length (serialize d))) (serialize d) = POk evs.
Proof.
  unfold denote_with. intros Hforced H.
  destruct ((wd_ver d <? 4) && bytes_okb (wd_strtbl d) && u32_okb (blen (wd_strtbl d))
            && match wd_pub d with PubNum n => u32_okb n && negb (n =? 0) | PubIdx i => u32_okb i end) eqn:E0; [|discriminate].
  rewrite !andb_true_iff in E0. destruct E0 as [[[Hver Hb] Hu] Hpub].
  destruct (charset_of d) as [cs|] eqn:Ecs; [|discriminate].
  pose proof (charset_of_ok d cs Ecs) as Hcs.
  destruct (match flang with Some l => Some l | None => lang_of_pub tbl (wd_strtbl d) (wd_pub d) end) as [l|] eqn:El; [|discriminate].
  assert (Hin : In l tbl).
  { destruct flang as [L|]; [|exact (lang_of_pub_In _ _ _ El)].
    injection El as <-. destruct Hforced as (_ & _ & Hf). apply find_some in Hf. tauto. }
  pose proof (Hwv l Hin) as Hwvl.
  destruct (wd_root d) as [sw tag attrs hasc items|s|p] eqn:Eroot; try discriminate.
  set (denv := mk_denv l (wd_strtbl d)) in *.
  destruct (den_pis denv (wd_pis_before d) (mk_dstate 0 0 None)) as [[e1 st1]|] eqn:E1; [|discriminate].
  destruct (den_item denv 0 None (WItemElt sw tag attrs hasc items) st1) as [[e2 st2]|] eqn:E2; [|discriminate].
  destruct (den_pis denv (wd_pis_after d) st2) as [[e3 st3]|] eqn:E3; [|discriminate].
  injection H as <-.
  (* the body *)
  set (body := flat_map ser_pi (wd_pis_before d) ++ ser_item (wd_root d) ++ flat_map ser_pi (wd_pis_after d)).
  set (fuel := S (length (serialize d))).
  assert (Hbl : (length body < fuel)%nat).
  { subst fuel body. unfold serialize. rewrite !app_length. lia. }
  assert (Hbody : parse_body fuel (penv_of l (wd_strtbl d) (wd_ver d) cs) (mk_pstate body 0 0 None)
                  = POk (e1 ++ e2 ++ e3, pst st3 [])).
  { unfold parse_body. subst body. rewrite Eroot in *. rewrite !app_length in Hbl.
    change (mk_pstate ?x 0 0 None) with (pst (mk_dstate 0 0 None) x).
    assert (Hroot67 : forall y, is_token (ser_item (WItemElt sw tag attrs hasc items) ++ y) 67 = false).
    { intros y. rewrite den_item_elt in E2.
      destruct (sw_okb sw && (0 <=? 1000)); [|discriminate].
      destruct (den_named denv tag (apply_sw TagSpace sw st1)) as [x|] eqn:En; [|discriminate].
      rewrite ser_item_elt, tag_bits_of. rewrite <- !app_assoc.
      destruct sw as [pg|]; cbn [ser_sw app]; [reflexivity|].
      destruct (ser_tag_head l (wd_strtbl d) tag (match attrs with [] => false | _ => true end) hasc _ x
                  ((match attrs with [] => [] | _ :: _ => flat_map ser_attr attrs ++ [1] end)
                   ++ (if hasc then flat_map ser_item items ++ [1] else []) ++ y) En)
        as (b & r' & Eb & _ & _ & B67 & _).
      rewrite Eb. cbn [is_token]. exact B67. }
    rewrite (pis_loop_ok l (wd_strtbl d) (wd_ver d) cs Hcs (wd_pis_before d) _ e1 st1 fuel _ E1 (Hroot67 _)) by lia.
    unfold parse_element.
    rewrite (element_ok l (wd_strtbl d) (wd_ver d) cs Hcs Hwvl Hdt sw tag attrs hasc items 0 None st1 e2 st2 fuel _ E2) by lia.
    rewrite <- (app_nil_r (flat_map ser_pi (wd_pis_after d))).
    rewrite (pis_loop_ok l (wd_strtbl d) (wd_ver d) cs Hcs (wd_pis_after d) st2 e3 st3 fuel [] E3 eq_refl) by lia.
    reflexivity. }
  (* the header *)
  unfold parse_with. fold fuel.
  assert (Eser : serialize d = wd_ver d :: ser_pub (wd_pub d)
                   ++ (match wd_charset d with Some c => mb_write c | None => [] end)
                   ++ mb_write (blen (wd_strtbl d)) ++ wd_strtbl d ++ body).
  { unfold serialize, ser_header, body. cbn [app]. rewrite <- !app_assoc. reflexivity. }
  rewrite Eser. cbn [parse_uint8].
  set (rest1 := (match wd_charset d with Some c => mb_write c | None => [] end)
                ++ mb_write (blen (wd_strtbl d)) ++ wd_strtbl d ++ body) in *.
  assert (Hpid : exists pubid pubidx,
             parse_publicid (ser_pub (wd_pub d) ++ rest1) = POk (pubid, pubidx, rest1)
             /\ check_public_id tbl forced (if forced =? 0 then pubid else get_wbxml_publicid tbl forced) pubidx
                  (match wd_strtbl d with [] => None | _ => Some (padded (wd_strtbl d)) end)
                  (blen (wd_strtbl d)) cs = Some l).
  { destruct flang as [L|].
    - (* forced language: the public identifier is read and not consulted *)
      injection El as <-. destruct Hforced as (Hid & Hnz & Hfind).
      assert (Hchk : forall pubid pubidx, check_public_id tbl forced pubid pubidx
                  (match wd_strtbl d with [] => None | _ => Some (padded (wd_strtbl d)) end)
                  (blen (wd_strtbl d)) cs = Some L).
      { intros pubid pubidx. unfold check_public_id. replace (forced =? 0) with false by lia. cbn [andb].
        pose proof (find_lang_id_find tbl forced 0%nat) as Hf. rewrite Hfind in Hf.
        destruct (find_lang_id tbl forced 0) as [r1 i1]. cbn [fst] in Hf. subst r1. reflexivity. }
      destruct (wd_pub d) as [n|i]; cbn [ser_pub].
      + apply andb_prop in Hpub. destruct Hpub as [Hn Hn0].
        destruct (mb_write_head_nz n) as (b & r0 & Emb & Hb0); [lia|apply u32_okb_lt; exact Hn|].
        exists n, NO_INDEX. split; [|apply Hchk].
        unfold parse_publicid. rewrite Emb. cbn [app]. rewrite Hb0.
        change (b :: r0 ++ rest1) with ((b :: r0) ++ rest1). rewrite <- Emb.
        rewrite parse_mb_ok by (apply u32_okb_lt; exact Hn). reflexivity.
      + exists PUBLIC_ID_UNKNOWN, i. split; [|apply Hchk].
        unfold parse_publicid. cbn [app N.eqb]. rewrite parse_mb_ok by (apply u32_okb_lt; exact Hpub). reflexivity.
    - unfold forced_ok in Hforced. subst forced. cbn [N.eqb].
    unfold lang_of_pub in El. destruct (wd_pub d) as [n|i]; cbn [ser_pub].
    + apply andb_prop in Hpub. destruct Hpub as [Hn Hn0].
      destruct ((n =? 1) || negb (u32_okb n) || (n =? 0)) eqn:En; [discriminate|].
      destruct (mb_write_head_nz n) as (b & r0 & Emb & Hb0); [lia|apply u32_okb_lt; exact Hn|].
      exists n, NO_INDEX. split.
      * unfold parse_publicid. rewrite Emb. cbn [app]. rewrite Hb0.
        change (b :: r0 ++ rest1) with ((b :: r0) ++ rest1). rewrite <- Emb.
        rewrite parse_mb_ok by (apply u32_okb_lt; exact Hn). reflexivity.
      * unfold check_public_id. cbn [N.eqb andb].
        replace (n =? PUBLIC_ID_UNKNOWN) with false by (unfold PUBLIC_ID_UNKNOWN; lia).
        cbn [andb skipn].
        pose proof (find_lang_pub_find tbl n 0%nat) as Hf. rewrite El in Hf.
        destruct (find_lang_pub tbl n 0) as [r2 i2]. cbn [fst] in Hf. subst r2. reflexivity.
    + destruct (u32_okb i && negb (i =? 4294967295)) eqn:Ei; [|discriminate]. apply andb_prop in Ei. destruct Ei as [Hi Hi1].
      destruct (str_at (wd_strtbl d) i) as [s|] eqn:Es; [|discriminate].
      exists PUBLIC_ID_UNKNOWN, i. split.
      * unfold parse_publicid. cbn [app N.eqb]. rewrite parse_mb_ok by (apply u32_okb_lt; exact Hi). reflexivity.
      * unfold check_public_id. cbn [N.eqb andb].
        replace (i =? NO_INDEX) with false by (unfold NO_INDEX; lia). cbn [andb skipn].
        change (PUBLIC_ID_UNKNOWN =? PUBLIC_ID_UNKNOWN) with true. cbn [andb].
        pose proof (strtbl_ref_ok (mk_lang 0 0 None None None None None None None None) (wd_strtbl d) 0 cs i s Hcs Es) as Hr.
        unfold penv_of in Hr. rewrite Hr. rewrite find_lang_text_find. exact El. }
  destruct Hpid as (pubid & pubidx & Hpp & Hcp).
  rewrite Hpp. cbv zeta.
  (* charset field, string table, language, body *)
  destruct (charset_of_cases d cs Ecs) as [(Ev & Ec & ->) | (Ev & c & Ec & Hc)].
  - subst rest1. rewrite Ec, Ev. cbn [app N.eqb].
    rewrite (parse_strtbl_ok (wd_strtbl d) body Hb Hu). rewrite Hcp.
    rewrite Ev in Hbody. unfold penv_of in Hbody. rewrite Hbody. reflexivity.
  - subst rest1. rewrite Ec. replace (wd_ver d =? 0) with false by lia.
    unfold parse_charset.
    destruct Hc as [(-> & ->) | (-> & Hc)].
    + rewrite parse_mb_ok by lia. cbn [N.eqb]. change (charset_known 106) with true. cbn [N.eqb Pos.eqb].
      rewrite (parse_strtbl_ok (wd_strtbl d) body Hb Hu). rewrite Hcp.
      unfold penv_of in Hbody. rewrite Hbody. reflexivity.
    + rewrite parse_mb_ok by lia.
      assert (Ecs0 : (cs =? 0) = false) by lia. rewrite Ecs0.
      assert (Hk : charset_known cs = true) by (destruct Hc as [-> | ->]; reflexivity).
      rewrite Hk, Ecs0.
      rewrite (parse_strtbl_ok (wd_strtbl d) body Hb Hu). rewrite Hcp.
      unfold penv_of in Hbody. rewrite Hbody. reflexivity.
Qed.

Theorem parse_denote (d : wdoc) (evs : list event) :
  denote tbl d = Some evs ->
  parse tbl (S (length (serialize d))) (serialize d) = POk evs.
Proof. intros H. exact (parse_denote_with 0 None d evs eq_refl H). Qed.

End Doc.
