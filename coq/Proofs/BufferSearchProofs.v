(* C19 — refinement of wbxml_buffer_search / search_cstr (the memchr-accelerated loop) to the
   first-occurrence specification search_spec. *)
From Coq Require Import List NArith Arith Lia Bool.
From Wbxml Require Import Model.Codec Model.BufferModel Model.BufferSpec Proofs.BufferProofs.
Import ListNotations.

Lemma is_prefix_short needle : forall l, length l < length needle -> is_prefix needle l = false.
Proof.
  induction needle as [|x nt IH]; intros l H; [cbn in H; lia|]. destruct l as [|y r]; [reflexivity|].
  cbn in *. rewrite IH by lia. apply andb_false_r.
Qed.

Lemma find_sub_short needle l : forall idx, length l < length needle -> find_sub needle l idx = None.
Proof.
  induction l as [|y r IH]; intros idx H; [reflexivity|]. cbn [find_sub].
  rewrite is_prefix_short by exact H. apply IH. cbn in H. lia.
Qed.

Lemma memcmp_eq a : forall b, length a = length b -> (memcmp a b = Eq <-> a = b).
Proof.
  induction a as [|x a IH]; intros [|y b] H; cbn in *; try lia; [tauto|].
  destruct (x ?= y)%N eqn:E.
  - apply N.compare_eq_iff in E. subst y. rewrite IH by lia. split; [intros ->; reflexivity | intros H1; now inversion H1].
  - split; [discriminate|]. intros H1. inversion H1. subst. rewrite N.compare_refl in E. discriminate.
  - split; [discriminate|]. intros H1. inversion H1. subst. rewrite N.compare_refl in E. discriminate.
Qed.

Lemma is_prefix_firstn needle : forall l, length needle <= length l ->
  (is_prefix needle l = true <-> firstn (length needle) l = needle).
Proof.
  induction needle as [|x nt IH]; intros l H; [cbn; tauto|]. destruct l as [|y r]; [cbn in H; lia|].
  cbn in *. rewrite andb_true_iff, IH by lia. rewrite N.eqb_eq. split.
  - intros (-> & ->). reflexivity.
  - intros H1. injection H1 as -> H2. rewrite H2. auto.
Qed.

Lemma find_sub_single x l : forall idx, find_sub [x] l idx = find_char x l idx.
Proof.
  induction l as [|y r IH]; intros idx; [reflexivity|]. cbn. rewrite andb_true_r, (N.eqb_sym x y).
  destruct (y =? x)%N; [reflexivity | apply IH].
Qed.

Lemma find_char_none c nt l : forall idx, find_char c l idx = None -> find_sub (c :: nt) l idx = None.
Proof.
  induction l as [|y r IH]; intros idx H; [reflexivity|]. cbn in *.
  rewrite (N.eqb_sym c y). destruct (y =? c)%N; [discriminate|]. cbn. now apply IH.
Qed.

Lemma find_char_some c nt l : forall idx p, find_char c l idx = Some p ->
  (idx <= p)%N /\ N.to_nat (p - idx) < length l /\
  find_sub (c :: nt) l idx = find_sub (c :: nt) (skipn (N.to_nat (p - idx)) l) p.
Proof.
  induction l as [|y r IH]; intros idx p H; [discriminate|]. cbn [find_char] in H.
  destruct (y =? c)%N eqn:E.
  - inversion H. subst p. rewrite N.sub_diag. cbn. repeat split; try lia.
  - destruct (IH _ _ H) as (H1 & H2 & H3). split; [lia|]. split; [cbn; lia|].
    cbn [find_sub is_prefix]. rewrite (N.eqb_sym c y), E. cbn [andb]. rewrite H3.
    replace (N.to_nat (p - idx)) with (S (N.to_nat (p - (idx + 1)))) by lia. reflexivity.
Qed.

Lemma search_loop_ok b c nt : Wf b -> 1 <= length nt ->
  forall fuel pos, blen b - N.to_nat pos < fuel ->
  search_loop fuel b (c :: nt) (length (c :: nt)) c pos =
  Some (if (N.of_nat (length (contents b)) <=? pos)%N then None
        else find_sub (c :: nt) (skipn (N.to_nat pos) (contents b)) pos).
Proof.
  intros Hw Hn. pose proof (contents_length b Hw) as Hl.
  induction fuel as [|f IH]; intros pos Hf; [lia|]. cbn [search_loop].
  rewrite (search_char_spec_ok b c pos Hw). unfold search_char_spec.
  destruct (N.of_nat (length (contents b)) <=? pos)%N eqn:E; [reflexivity|]. apply N.leb_gt in E.
  destruct (find_char c (skipn (N.to_nat pos) (contents b)) pos) as [p|] eqn:Ef.
  2:{ now rewrite (find_char_none c nt _ _ Ef). }
  destruct (find_char_some c nt _ _ _ Ef) as (H1 & H2 & H3). rewrite H3, skipn_skipn.
  rewrite skipn_length in H2.
  replace (N.to_nat pos + N.to_nat (p - pos)) with (N.to_nat p) by lia.
  set (n := length (c :: nt)) in *.
  destruct (N.of_nat n <=? N.of_nat (blen b) - p)%N eqn:En.
  - apply N.leb_le in En.
    assert (Hcells : firstn n (skipn (N.to_nat p) (cells b)) = firstn n (skipn (N.to_nat p) (contents b))).
    { unfold contents. rewrite skipn_firstn_comm, firstn_firstn. f_equal. lia. }
    rewrite Hcells. replace (firstn n (c :: nt)) with (c :: nt) by (unfold n; now rewrite firstn_all).
    assert (Hlen : length (firstn n (skipn (N.to_nat p) (contents b))) = length (c :: nt)).
    { rewrite firstn_length, skipn_length. fold n. lia. }
    destruct (skipn (N.to_nat p) (contents b)) as [|x r] eqn:Es.
    { apply (f_equal (@length N)) in Es. rewrite skipn_length in Es. cbn in Es. lia. }
    assert (Hr : r = skipn (N.to_nat (p + 1)) (contents b)).
    { replace (N.to_nat (p + 1)) with (N.to_nat p + 1) by lia. now rewrite <- skipn_skipn, Es. }
    assert (Hle : length (c :: nt) <= length (x :: r)).
    { rewrite <- Es, skipn_length. fold n. lia. }
    cbn [find_sub].
    destruct (memcmp (firstn n (x :: r)) (c :: nt)) eqn:Em.
    + apply (memcmp_eq _ _ Hlen) in Em. apply (is_prefix_firstn _ _ Hle) in Em. now rewrite Em.
    + assert (Hp : is_prefix (c :: nt) (x :: r) = false).
      { destruct (is_prefix (c :: nt) (x :: r)) eqn:Ep; [|reflexivity].
        apply (is_prefix_firstn _ _ Hle) in Ep. apply (memcmp_eq _ _ Hlen) in Ep. fold n in Ep. congruence. }
      rewrite Hp, IH by lia. rewrite Hr.
      destruct (N.of_nat (length (contents b)) <=? p + 1)%N eqn:E2; [|reflexivity].
      apply N.leb_le in E2. rewrite skipn_all2 by lia. reflexivity.
    + assert (Hp : is_prefix (c :: nt) (x :: r) = false).
      { destruct (is_prefix (c :: nt) (x :: r)) eqn:Ep; [|reflexivity].
        apply (is_prefix_firstn _ _ Hle) in Ep. apply (memcmp_eq _ _ Hlen) in Ep. fold n in Ep. congruence. }
      rewrite Hp, IH by lia. rewrite Hr.
      destruct (N.of_nat (length (contents b)) <=? p + 1)%N eqn:E2; [|reflexivity].
      apply N.leb_le in E2. rewrite skipn_all2 by lia. reflexivity.
  - apply N.leb_gt in En. rewrite find_sub_short; [reflexivity|]. rewrite skipn_length. fold n. lia.
Qed.

Lemma search_data_ok b needle pos : Wf b -> search_data b needle pos = Some (search_spec (contents b) needle pos).
Proof.
  intros Hw. pose proof (contents_length b Hw) as Hl. unfold search_data, search_spec.
  destruct needle as [|c nt]; [reflexivity|]. cbn [length Nat.eqb].
  destruct (blen b <? S (length nt)) eqn:E1.
  { apply Nat.ltb_lt in E1. destruct (_ <=? _)%N; [reflexivity|].
    rewrite find_sub_short; [reflexivity|]. rewrite skipn_length. cbn [length]. lia. }
  destruct nt as [|c2 nt'].
  { cbn [length Nat.eqb nth]. rewrite (search_char_spec_ok b c pos Hw). unfold search_char_spec.
    destruct (_ <=? _)%N; [reflexivity|]. now rewrite find_sub_single. }
  cbn [length Nat.eqb nth].
  rewrite (search_loop_ok b c (c2 :: nt') Hw) by (cbn; lia). reflexivity.
Qed.

Lemma refines_search b needle pos : Inv b -> op_ok (abs b) (OSearch needle pos) = true -> refines_step b (OSearch needle pos).
Proof.
  intros HI Hok. cbn [op_ok] in Hok. destruct (create_other needle Hok) as (Hc & _ & _).
  eapply refines_readonly; [exact HI | | reflexivity].
  cbn [step spec_step abs fst]. unfold search. rewrite Hc, (search_data_ok b needle pos (Inv_Wf b HI)). reflexivity.
Qed.

Lemma refines_search_cstr b str pos : Inv b -> refines_step b (OSearchCstr str pos).
Proof.
  intros HI. eapply refines_readonly; [exact HI | | reflexivity].
  cbn [step spec_step abs fst]. unfold search_cstr. rewrite (search_data_ok b (cstr str) pos (Inv_Wf b HI)). reflexivity.
Qed.

(* ---------------------------------------------------------------------------------------- *)
(* all operations except split_words                                                         *)

Definition proved_op_s (o : op) : bool := match o with OSplitWords => false | _ => true end.

Theorem step_refines_s b o : Inv b -> op_ok (abs b) o = true -> proved_op_s o = true -> refines_step b o.
Proof.
  intros HI Hok Hp. destruct o; try discriminate Hp; try (apply step_refines; auto; fail).
  - now apply refines_search.
  - now apply refines_search_cstr.
Qed.

Theorem run_refines_s ops : forall b, Inv b -> ops_ok (abs b) ops = true -> forallb proved_op_s ops = true ->
  map (fun x => (abs (fst x), snd x)) (run b ops) = spec_run (abs b) ops /\
  Forall (fun x => Inv (fst x)) (run b ops).
Proof.
  induction ops as [|o r IH]; intros b HI Hok Hp; cbn [run spec_run map]; [split; constructor|].
  cbn [ops_ok forallb] in Hok, Hp. apply andb_true_iff in Hok. destruct Hok as (Hok1 & Hok2).
  apply andb_true_iff in Hp. destruct Hp as (Hp1 & Hp2).
  destruct (step_refines_s b o HI Hok1 Hp1) as (Ha & Hr & HI').
  rewrite <- Ha in Hok2. destruct (IH _ HI' Hok2 Hp2) as (IH1 & IH2).
  split; [|constructor; auto].
  rewrite IH1, Ha. f_equal. rewrite Hr. now destruct (spec_step (abs b) o).
Qed.

(* split_words never changes the buffer (whatever it returns) *)
Lemma split_words_readonly b : fst (step b OSplitWords) = b.
Proof. cbn [step]. now destruct (split_words b). Qed.
