(* C01 (boundedness, XML generation side) — the size of the generated XML is linear in the size of the tree:
     length out <= header_len l o + size_t t * (K + 33 + 510 * w)
   K = longest namespace name of the languages involved, w = indent width; and the generator is total
   (structural recursion, no fuel). *)
From Coq Require Import List NArith Arith Lia Bool.
From Wbxml Require Import Model.Codec Model.EncXml Model.XmlRead Proofs.EncXmlProofs Proofs.EncXmlCdata Proofs.EncXmlIndent.
Import ListNotations.
Local Open Scope nat_scope.

(* ------------------------------------------------------------------ *)
(* size of a tree: bytes of names, attribute names / values and text, plus the number of nodes and attributes *)

Definition alen (a : attr) : nat := 1 + length (aname_bytes (at_name a)) + length (attr_value_bytes a).
Definition sum_with {A} (f : A -> nat) (l : list A) : nat := fold_right (fun x r => f x + r) 0 l.

Fixpoint size_n (n : node) : nat :=
  match n with
  | Elt nm attrs ch => 1 + length (tname_bytes nm) + sum_with alen attrs + fold_right (fun x r => size_n x + r) 0 ch
  | Text t => 1 + length t
  | CData ch => 1 + fold_right (fun x r => size_n x + r) 0 ch
  | Pi => 1
  | SubTree _ roots => 1 + fold_right (fun x r => size_n x + r) 0 roots
  end.
Definition size_t (ns : list node) : nat := fold_right (fun x r => size_n x + r) 0 ns.

(* longest namespace name of a language; the languages of embedded documents *)
Definition ns_len (l : xlang) : nat :=
  match xl_ns l with Some t => fold_right (fun r m => Nat.max (length (nr_name r)) m) 0 t | None => 0 end.
Fixpoint sub_ns (K : nat) (n : node) : bool :=
  match n with
  | Elt _ _ ch => forallb (sub_ns K) ch
  | CData ch => forallb (sub_ns K) ch
  | SubTree (Some l') roots => (ns_len l' <=? K) && forallb (sub_ns K) roots
  | _ => true
  end.

(* ------------------------------------------------------------------ *)
(* pieces                                                              *)

Lemma spaces_len n : length (spaces n) = N.to_nat n.
Proof. unfold spaces. apply repeat_length. Qed.

Lemma esc_char_len m c : length (esc_char m c) <= 6.
Proof.
  destruct (esc_char_cases m c) as [[_ ->]|[[_ ->]|[[_ ->]|[[_ ->]|[[_ ->]|[[_ [_ ->]]|[[_ [_ ->]]|[[_ [_ ->]]|H]]]]]]]]; cbn; try lia.
  destruct H as (_ & _ & _ & _ & _ & _ & ->). cbn. lia.
Qed.

Lemma escape_len m s : length (escape m s) <= 6 * length s.
Proof.
  induction s as [|c s IH]; [cbn; lia|]. cbn [escape flat_map length]. rewrite app_length. fold (escape m s).
  pose proof (esc_char_len m c). lia.
Qed.

Lemma b64_body_len : forall s, length (b64_enc_body s) <= 2 * length s + 4.
Proof.
  fix IH 1. intros s. destruct s as [|a [|b [|c r]]]; cbn [b64_enc_body length]; try lia.
  specialize (IH r). lia.
Qed.

Lemma b64_len s e : b64_enc s = Some e -> length e <= 2 * length s + 4.
Proof.
  destruct s as [|x r]; [discriminate|]. intros E.
  assert (He : e = b64_enc_body (x :: r)) by (change (b64_enc (x :: r)) with (Some (b64_enc_body (x :: r))) in E; congruence).
  subst e. apply b64_body_len.
Qed.

Lemma rewrite_len l cur s : length (syncml_type_rewrite l cur s) <= length s.
Proof.
  unfold syncml_type_rewrite.
  destruct (is_syncml l && tag_is_type cur && bytes_eqb s s_devinf_wbxml) eqn:E1.
  - apply andb_true_iff in E1 as [_ E1]. apply bytes_eqb_eq in E1. subst s.
    match goal with |- context [if ?c then _ else _] => destruct c end; cbn; lia.
  - destruct ((xl_id l =? 2201)%N && tag_is_type cur && bytes_eqb s s_dmtnds_wbxml) eqn:E2; [|lia].
    apply andb_true_iff in E2 as [_ E2]. apply bytes_eqb_eq in E2. subst s. cbn. lia.
Qed.

Lemma drop_ws_len s : length (drop_ws s) <= length s.
Proof. induction s as [|c s IH]; [cbn; lia|]. cbn [drop_ws]. destruct (c_isspace c); cbn [length]; lia. Qed.

Lemma strip_len s : length (strip_blanks s) <= length s.
Proof.
  unfold strip_blanks. rewrite rev_length.
  pose proof (drop_ws_len (rev (drop_ws s))). rewrite rev_length in H. pose proof (drop_ws_len s). lia.
Qed.

Lemma policy_len o p st s c : text_policy o p st s = Some c -> length c <= length s.
Proof.
  unfold text_policy. destruct (negb (e_in_cdata st) && negb (tag_is_binary (text_tag st p)) && negb (is_canonical o)).
  - destruct (o_ignore_empty o && only_ws s); [discriminate|]. intros E. injection E as <-.
    destruct (o_remove_blanks o); [apply strip_len|lia].
  - intros E. injection E as <-. lia.
Qed.

Lemma split_len t : length (split_cdata_end t) <= 5 * length t.
Proof.
  assert (G : forall n u, length u <= n -> length (split_cdata_end u) <= 5 * length u).
  { induction n as [|n IH]; intros u Hl; [destruct u; [cbn; lia|cbn in Hl; lia]|].
    destruct u as [|a [|b [|c r]]]; try (cbn; lia).
    rewrite split_3. cbn [length] in Hl. destruct (is_end a b c).
    - rewrite app_length. specialize (IH r ltac:(lia)). cbn [length]. change (length s_cdata_split) with 15. lia.
    - specialize (IH (b :: c :: r) ltac:(cbn [length]; lia)). cbn [length] in *. lia. }
  exact (G (length t) t (le_n _)).
Qed.

Lemma cstr_len b : length (cstr b) <= length b.
Proof. induction b as [|c b IH]; [cbn; lia|]. cbn [cstr]. destruct (c =? 0)%N; cbn [length]; lia. Qed.

Lemma get_xmlns_len t p ns : get_xmlns t p = Some ns ->
  length ns <= fold_right (fun r m => Nat.max (length (nr_name r)) m) 0 t.
Proof.
  induction t as [|r t IH]; [discriminate|]. cbn [get_xmlns fold_right]. destruct (nr_page r =? p)%N.
  - intros E. injection E as <-. lia.
  - intros E. specialize (IH E). lia.
Qed.

Lemma xmlns_part_len l parent nm : length (xmlns_part l parent nm) <= 9 + ns_len l.
Proof.
  unfold xmlns_part, ns_len. destruct (xl_ns l) as [t|]; [|cbn; lia]. destruct nm as [r|s]; [|cbn; lia].
  destruct (ns_wanted parent (TTok r)); [|cbn; lia].
  destruct (get_xmlns t (tr_page r)) as [ns|] eqn:E; [|cbn; lia].
  rewrite !app_length. pose proof (get_xmlns_len _ _ _ E). change (length s_xmlns) with 8. cbn [length]. lia.
Qed.

Lemma attr_len o a : length (xml_encode_attr o a) <= 6 * alen a.
Proof.
  unfold xml_encode_attr, alen. rewrite !app_length. change (length s_eq_quote) with 2. cbn [length].
  pose proof (escape_len (is_canonical o) (attr_value_bytes a)). lia.
Qed.

Lemma attrs_len l o attrs : length (parse_attributes l o attrs) <= 6 * sum_with alen attrs.
Proof.
  unfold parse_attributes. destruct (xl_has_attrs l); [|cbn; lia].
  induction attrs as [|a r IH]; [cbn; lia|]. cbn [flat_map]. rewrite app_length.
  change (sum_with alen (a :: r)) with (alen a + sum_with alen r).
  pose proof (attr_len o a). lia.
Qed.

Lemma elt_open_len l o parent nm attrs :
  length (elt_open l o parent nm attrs) <= 10 + length (tname_bytes nm) + ns_len l + 6 * sum_with alen attrs.
Proof.
  unfold elt_open. cbn [length]. rewrite !app_length.
  pose proof (xmlns_part_len l parent nm). pose proof (attrs_len l o attrs). lia.
Qed.

(* indentation: the depth counter is an unsigned char *)
Definition dw (o : opts) : nat := N.to_nat (o_delta o).

Lemma indent_len o s : (e_indent s < 256)%N -> length (indent_bytes o s) <= 255 * dw o.
Proof.
  intros H. unfold indent_bytes, dw. rewrite spaces_len, N2Nat.inj_mul.
  assert (N.to_nat (e_indent s) <= 255) by lia. nia.
Qed.

Lemma w0_len o s : (e_indent s < 256)%N -> length (w0 o s) <= 255 * dw o.
Proof. intros H. unfold w0. destruct (is_indent o); [now apply indent_len|cbn; lia]. Qed.
Lemma w1_len o ch : length (w1 o ch) <= 1.
Proof. unfold w1. destruct (hc o ch); cbn; lia. Qed.
Lemma nl_if_len o : length (nl_if o) <= 1.
Proof. unfold nl_if. destruct (is_indent o); cbn; lia. Qed.
Lemma u8_lt x : (u8 x < 256)%N.
Proof. unfold u8. apply N.mod_lt. discriminate. Qed.
Lemma w2_len o ch s4 : length (w2 o ch s4) <= 1 + 255 * dw o.
Proof.
  unfold w2, ind_after. destruct (hc o ch); [|cbn; lia]. rewrite app_length, spaces_len, N2Nat.inj_mul.
  pose proof (u8_lt (e_indent s4 + 255)). assert (N.to_nat (u8 (e_indent s4 + 255)) <= 255) by lia.
  unfold dw. pose proof (Nat.mul_le_mono_r _ _ (N.to_nat (o_delta o)) H0).
  destruct (e_in_content s4); unfold nl; cbn [length]; lia.
Qed.

(* ------------------------------------------------------------------ *)
(* the bound                                                           *)

Definition CK (K : nat) (o : opts) : nat := K + 33 + 510 * dw o.

Lemma CK_ge K o n : n * 33 <= n * CK K o.
Proof. unfold CK. apply Nat.mul_le_mono_l. lia. Qed.

Definition size_stmt (n : node) : Prop :=
  forall l o parent s b s' K,
    ns_len l <= K -> sub_ns K n = true -> (e_indent s < 256)%N ->
    enc_node l o parent s n = XOk (b, s') ->
    length b <= size_n n * CK K o /\ (e_indent s' < 256)%N.

Lemma size_list ch : Forall size_stmt ch ->
  forall l o parent s b s' K,
    ns_len l <= K -> forallb (sub_ns K) ch = true -> (e_indent s < 256)%N ->
    seq_nodes (enc_node l o parent) ch s = XOk (b, s') ->
    length b <= size_t ch * CK K o /\ (e_indent s' < 256)%N.
Proof.
  induction 1 as [|n ch Hn _ IH]; intros l o parent s b s' K HK HS Hi Henc.
  - cbn in Henc. injection Henc as <- <-. cbn. split; [lia|exact Hi].
  - cbn [seq_nodes] in Henc. destruct (enc_node l o parent s n) as [[b1 s1]|] eqn:E1; [|discriminate].
    cbn [forallb] in HS. apply andb_true_iff in HS as [HS1 HS2].
    destruct (Hn l o parent s b1 s1 K HK HS1 Hi E1) as [L1 I1].
    match type of Henc with context [?g ch (reset_cur s1)] =>
      destruct (g ch (reset_cur s1)) as [[b2 s2]|] eqn:E2; [|discriminate] end.
    injection Henc as <- <-.
    destruct (IH l o parent (reset_cur s1) b2 s2 K HK HS2 I1 E2) as [L2 I2].
    split; [|exact I2]. rewrite app_length. unfold size_t in *. cbn [fold_right]. lia.
Qed.

Lemma size_node : forall n, size_stmt n.
Proof.
  induction n as [nm attrs ch IHch|t|ch IHc| |sl roots IHr] using node_ind2; intros l o parent s b s' K HK HS Hi Henc.
  - (* element *)
    rewrite (enc_elt_gen l o parent s nm attrs ch) in Henc. cbn [sub_ns] in HS.
    pose proof (w0_len o s Hi) as L0. pose proof (elt_open_len l o parent nm attrs) as LO. pose proof (nl_if_len o) as LN.
    destruct ch as [|c0 ch0].
    + assert (Hb : b = w0 o s ++ elt_open l o parent nm attrs ++ 47%N :: 62%N :: nl_if o) by congruence.
      assert (Hs' : s' = set_cur (cur_of nm) s) by congruence. subst b s'. split; [|exact Hi].
      rewrite !app_length. cbn [length size_n fold_right]. unfold CK. nia.
    + destruct (seq_nodes (enc_node l o (pinfo_below parent nm)) (c0 :: ch0) (s_in o (c0 :: ch0) nm s)) as [[b4 s4]|] eqn:E4; [|discriminate].
      assert (Hb : b = w0 o s ++ elt_open l o parent nm attrs ++ 62%N :: w1 o (c0 :: ch0) ++ b4 ++ w2 o (c0 :: ch0) s4 ++
                         60%N :: 47%N :: tname_bytes nm ++ 62%N :: nl_if o) by congruence.
      assert (Hs' : s' = s_out o (c0 :: ch0) s4) by congruence. subst b s'.
      assert (Hin : (e_indent (s_in o (c0 :: ch0) nm s) < 256)%N).
      { unfold s_in. destruct (hc o (c0 :: ch0)); cbn [e_indent set_cur]; [apply u8_lt|exact Hi]. }
      destruct (size_list (c0 :: ch0) IHch l o (pinfo_below parent nm) _ b4 s4 K HK HS Hin E4) as [L4 I4].
      split.
      * rewrite !app_length. cbn [length]. rewrite !app_length. cbn [length].
        pose proof (w1_len o (c0 :: ch0)) as L1. pose proof (w2_len o (c0 :: ch0) s4) as L2.
        change (size_n (Elt nm attrs (c0 :: ch0))) with (1 + length (tname_bytes nm) + sum_with alen attrs + size_t (c0 :: ch0)).
        unfold CK in *. set (C := K + 33 + 510 * dw o) in *.
        assert (A1 : 2 * length (tname_bytes nm) <= length (tname_bytes nm) * C) by (unfold C; nia).
        assert (A2 : 6 * sum_with alen attrs <= sum_with alen attrs * C) by (unfold C; nia).
        rewrite !Nat.mul_add_distr_r, !app_length. cbn [length]. unfold C at 1. lia.
      * unfold s_out, ind_after. cbn [e_indent]. destruct (hc o (c0 :: ch0)); [apply u8_lt|exact I4].
  - (* text *)
    cbn [enc_node] in Henc. unfold parse_text in Henc.
    destruct (text_policy o parent s t) as [c|] eqn:EP.
    + pose proof (policy_len _ _ _ _ _ EP) as LP. unfold xml_encode_text in Henc.
      pose proof (rewrite_len l (e_cur_tag s) c) as LR.
      destruct (e_in_cdata s).
      * injection Henc as <- <-. split; [|exact Hi]. pose proof (split_len c). pose proof (CK_ge K o (size_n (Text t))). cbn [size_n] in *. lia.
      * destruct (tag_is_binary (text_tag s parent)).
        -- destruct (b64_enc (syncml_type_rewrite l (e_cur_tag s) c)) as [e|] eqn:E64; [|discriminate]. injection Henc as <- <-.
           split; [|exact Hi].
           pose proof (b64_len _ _ E64) as LB.
           pose proof (escape_len (is_canonical o) e). pose proof (CK_ge K o (size_n (Text t))). cbn [size_n] in *. lia.
        -- injection Henc as <- <-. split; [|exact Hi].
           pose proof (escape_len (is_canonical o) (syncml_type_rewrite l (e_cur_tag s) c)). pose proof (CK_ge K o (size_n (Text t))). cbn [size_n] in *. lia.
    + injection Henc as <- <-. split; [cbn; lia|exact Hi].
  - (* CDATA node *)
    cbn [enc_node] in Henc. cbn [sub_ns] in HS.
    destruct (seq_nodes (enc_node l o (pinfo_cdata parent)) ch (set_cdata true s)) as [[b0 s0]|] eqn:E0; [|discriminate].
    assert (Hb : b = s_cdata_open ++ b0 ++ s_cdata_close) by congruence.
    assert (Hs' : s' = set_cdata false s0) by congruence. subst b s'.
    destruct (size_list ch IHc l o (pinfo_cdata parent) (set_cdata true s) b0 s0 K HK HS Hi E0) as [L0 I0].
    split; [|exact I0]. rewrite !app_length. change (length s_cdata_open) with 9. change (length s_cdata_close) with 3.
    change (size_n (CData ch)) with (1 + size_t ch). pose proof (CK_ge K o 1). rewrite Nat.mul_add_distr_r. lia.
  - discriminate.
  - (* embedded document *)
    cbn [enc_node] in Henc. destruct sl as [l'|]; [|discriminate]. cbn [sub_ns] in HS. apply andb_true_iff in HS as [HK' HS].
    apply Nat.leb_le in HK'.
    destruct (seq_nodes (enc_node l' o proot) roots (est0 (e_indent s))) as [[b0 s0]|] eqn:E0; [|discriminate].
    injection Henc as <- <-.
    destruct (size_list roots IHr l' o proot (est0 (e_indent s)) b0 s0 K HK' HS Hi E0) as [L0 _].
    split; [|exact Hi]. pose proof (cstr_len b0). change (size_n (SubTree (Some l') roots)) with (1 + size_t roots). rewrite Nat.mul_add_distr_r. lia.
Qed.

(* ------------------------------------------------------------------ *)
(* whole documents                                                      *)

Definition header_bound (l : xlang) : nat :=
  47 + length (xl_root l) + length (xl_dtd l) + match xl_pub l with Some p => length p | None => 0 end.

Lemma header_len l o : length (xml_header l o) <= header_bound l.
Proof.
  unfold xml_header, header_bound. rewrite !app_length.
  change (length s_xmldecl) with 21. change (length s_doctype) with 10. change (length s_dtd_open) with 2. change (length s_dtd_close) with 2.
  pose proof (nl_if_len o). destruct (xl_pub l) as [p|].
  - rewrite !app_length. change (length s_public) with 9. cbn [length]. lia.
  - change (length s_system) with 7. lia.
Qed.

(* the indent width as the encoder uses it: an unsigned char, and only in indented generation *)
Definition width_of (g : gen_type) (w : N) : nat := match g with Indent => N.to_nat (w mod 256) | _ => 1 end.

Lemma width_le g w : width_of g w <= 255.
Proof. unfold width_of. destruct g; lia. Qed.

(* SIZE: the XML text is linear in the size of the tree, with explicit constants *)
Theorem enc_xml_size l g w keep_ws roots out K :
  ns_len l <= K -> forallb (sub_ns K) roots = true ->
  enc_xml l g w keep_ws roots = XOk out ->
  length out <= header_bound l + size_t roots * (K + 33 + 510 * width_of g w).
Proof.
  intros HK HS Henc. unfold enc_xml, enc_xml_opts, enc_nodes in Henc.
  destruct (seq_nodes (enc_node l (opts_of_params g w keep_ws) proot) roots (est0 0)) as [[b s1]|] eqn:E; [|discriminate].
  assert (Hout : out = xml_header l (opts_of_params g w keep_ws) ++ b) by congruence. subst out.
  assert (Hall : Forall size_stmt roots) by (apply Forall_forall; intros; apply size_node).
  destruct (size_list roots Hall l _ proot (est0 0) b s1 K HK HS ltac:(reflexivity) E) as [L _].
  rewrite app_length. pose proof (header_len l (opts_of_params g w keep_ws)).
  replace (K + 33 + 510 * width_of g w) with (CK K (opts_of_params g w keep_ws)); [lia|].
  unfold CK, dw, width_of, opts_of_params, u8. destruct g; reflexivity.
Qed.

(* ------------------------------------------------------------------ *)
(* totality: the generator is a structural recursion over the tree (no fuel, no depth limit of its own); it
   refuses exactly three things                                           *)

Fixpoint no_fail (n : node) : bool :=
  match n with
  | Elt nm _ ch => negb (tag_is_binary (cur_of nm)) && forallb no_fail ch
  | Text _ => true
  | CData ch => forallb no_fail ch
  | Pi => false
  | SubTree (Some _) roots => forallb no_fail roots
  | SubTree None _ => false
  end.

Definition nb_state (s : est) (p : pinfo) : Prop :=
  tag_is_binary (e_cur_tag s) = false /\ tag_is_binary (p_tag p) = false.

Definition total_stmt (n : node) : Prop :=
  forall l o parent s, no_fail n = true -> nb_state s parent ->
    exists b s', enc_node l o parent s n = XOk (b, s') /\ tag_is_binary (e_cur_tag s') = false.

Lemma total_list ch : Forall total_stmt ch ->
  forall l o parent s, forallb no_fail ch = true -> nb_state s parent ->
    exists b s', seq_nodes (enc_node l o parent) ch s = XOk (b, s') /\ tag_is_binary (e_cur_tag s') = false.
Proof.
  induction 1 as [|n ch Hn _ IH]; intros l o parent s HN [H1 H2].
  - exists [], s. split; [reflexivity|exact H1].
  - cbn [forallb] in HN. apply andb_true_iff in HN as [N1 N2].
    destruct (Hn l o parent s N1 (conj H1 H2)) as (b1 & s1 & E1 & _).
    destruct (IH l o parent (reset_cur s1) N2 (conj eq_refl H2)) as (b2 & s2 & E2 & T2).
    exists (b1 ++ b2), s2. cbn [seq_nodes]. rewrite E1. fold (seq_nodes (enc_node l o parent)). rewrite E2. auto.
Qed.

Lemma total_node : forall n, total_stmt n.
Proof.
  induction n as [nm attrs ch IHch|t|ch IHc| |sl roots IHr] using node_ind2; intros l o parent s HN [H1 H2]; try discriminate.
  - cbn [no_fail] in HN. apply andb_true_iff in HN as [N1 N2]. apply negb_true_iff in N1.
    rewrite (enc_elt_gen l o parent s nm attrs ch). destruct ch as [|c0 ch0].
    + eexists _, _. split; [reflexivity|exact N1].
    + assert (HS : nb_state (s_in o (c0 :: ch0) nm s) (pinfo_below parent nm)).
      { split; [unfold s_in; destruct (hc o (c0 :: ch0)); exact N1|]. unfold pinfo_below. destruct nm; [exact N1|reflexivity]. }
      destruct (total_list (c0 :: ch0) IHch l o (pinfo_below parent nm) _ N2 HS) as (b4 & s4 & E4 & T4).
      rewrite E4. eexists _, _. split; [reflexivity|exact T4].
  - cbn [enc_node]. unfold parse_text. destruct (text_policy o parent s t) as [c|]; [|exists [], s; auto].
    unfold xml_encode_text. assert (HB : tag_is_binary (text_tag s parent) = false).
    { unfold text_tag. destruct (e_cur_tag s); [exact H1|exact H2]. }
    rewrite HB. destruct (e_in_cdata s); eexists _, _; (split; [reflexivity|exact H1]).
  - cbn [no_fail] in HN. cbn [enc_node].
    destruct (total_list ch IHc l o (pinfo_cdata parent) (set_cdata true s) HN (conj H1 eq_refl)) as (b0 & s0 & E0 & T0).
    rewrite E0. eexists _, _. split; [reflexivity|exact T0].
  - cbn [no_fail] in HN. destruct sl as [l'|]; [|discriminate]. cbn [enc_node].
    destruct (total_list roots IHr l' o proot (est0 (e_indent s)) HN (conj eq_refl eq_refl)) as (b0 & s0 & E0 & _).
    rewrite E0. eexists _, _. split; [reflexivity|exact H1].
Qed.

(* TOTALITY: on every tree without processing instructions, language-less embedded trees and binary-flagged
   elements (the three things the generator can refuse: NOT_IMPLEMENTED, BAD_PARAMETER, B64_ENC on empty content)
   the conversion succeeds — for any depth and width: the recursion is structural *)
Theorem enc_xml_total l g w keep_ws roots :
  forallb no_fail roots = true -> exists out, enc_xml l g w keep_ws roots = XOk out.
Proof.
  intros HN. unfold enc_xml, enc_xml_opts, enc_nodes.
  assert (Hall : Forall total_stmt roots) by (apply Forall_forall; intros; apply total_node).
  destruct (total_list roots Hall l (opts_of_params g w keep_ws) proot (est0 0) HN (conj eq_refl eq_refl)) as (b & s' & E & _).
  rewrite E. eauto.
Qed.

(* ------------------------------------------------------------------ *)
(* exact totality: the conversion fails iff the tree contains a processing instruction, an embedded tree without
   language, or EMPTY content of a binary-flagged element outside a CDATA node.  The predicate depends on the
   tree alone (not on the language, the options or the encoder state), apart from one bit: whether we are inside
   a CDATA node, which the generator itself threads (in_cdata is cleared after every CDATA node).               *)

Definition is_nil (t : bytes) : bool := match t with [] => true | _ => false end.

(* [sf ptag cd n] = (does n make the conversion fail, in_cdata after n); ptag = the tag entry of the parent element *)
Fixpoint sf (ptag : option trow) (cd : bool) (n : node) {struct n} : bool * bool :=
  match n with
  | Elt nm _ ch =>
    (fix go (cd : bool) (ns : list node) : bool * bool :=
       match ns with
       | [] => (false, cd)
       | x :: r => let '(f1, cd1) := sf (cur_of nm) cd x in if f1 then (true, cd1) else go cd1 r
       end) cd ch
  | Text t => (negb cd && tag_is_binary ptag && is_nil t, cd)
  | CData ch =>
    (fst ((fix go (cd : bool) (ns : list node) : bool * bool :=
             match ns with
             | [] => (false, cd)
             | x :: r => let '(f1, cd1) := sf None cd x in if f1 then (true, cd1) else go cd1 r
             end) true ch), false)
  | Pi => (true, cd)
  | SubTree None _ => (true, cd)
  | SubTree (Some _) roots =>
    (fst ((fix go (cd : bool) (ns : list node) : bool * bool :=
             match ns with
             | [] => (false, cd)
             | x :: r => let '(f1, cd1) := sf None cd x in if f1 then (true, cd1) else go cd1 r
             end) false roots), cd)
  end.

Definition sfl (ptag : option trow) : bool -> list node -> bool * bool :=
  fix go (cd : bool) (ns : list node) : bool * bool :=
    match ns with
    | [] => (false, cd)
    | x :: r => let '(f1, cd1) := sf ptag cd x in if f1 then (true, cd1) else go cd1 r
    end.

(* the encoder state on entry to a node: current_tag is the parent's tag (first child), or NULL (later children) *)
Definition entry_ok (s : est) (p : pinfo) : Prop :=
  e_in_cdata s = true \/ e_cur_tag s = None \/ e_cur_tag s = p_tag p.

Lemma text_tag_entry s p : entry_ok s p -> e_in_cdata s = false -> text_tag s p = p_tag p.
Proof.
  intros [H|[H|H]] Hc; [congruence| |]; unfold text_tag; rewrite H; [reflexivity|]. destruct (p_tag p); reflexivity.
Qed.

Lemma rewrite_nil l cur t : is_nil (syncml_type_rewrite l cur t) = is_nil t.
Proof.
  unfold syncml_type_rewrite.
  destruct (is_syncml l && tag_is_type cur && bytes_eqb t s_devinf_wbxml) eqn:E1.
  - apply andb_true_iff in E1 as [_ E1]. apply bytes_eqb_eq in E1. subst t.
    match goal with |- context [if ?c then _ else _] => destruct c end; reflexivity.
  - destruct ((xl_id l =? 2201)%N && tag_is_type cur && bytes_eqb t s_dmtnds_wbxml) eqn:E2; [|reflexivity].
    apply andb_true_iff in E2 as [_ E2]. apply bytes_eqb_eq in E2. subst t. reflexivity.
Qed.

Definition exact_res (r : xres (bytes * est)) (x : bool * bool) : Prop :=
  match r with
  | XOk (_, s') => x = (false, e_in_cdata s')
  | XErr _ => fst x = true
  end.

Definition exact_stmt (n : node) : Prop :=
  forall l o parent s, entry_ok s parent -> exact_res (enc_node l o parent s n) (sf (p_tag parent) (e_in_cdata s) n).

Lemma exact_list ch : Forall exact_stmt ch ->
  forall l o parent s, entry_ok s parent ->
    exact_res (seq_nodes (enc_node l o parent) ch s) (sfl (p_tag parent) (e_in_cdata s) ch).
Proof.
  induction 1 as [|n ch Hn _ IH]; intros l o parent s HE.
  - reflexivity.
  - cbn [seq_nodes sfl]. specialize (Hn l o parent s HE). unfold exact_res in Hn.
    destruct (enc_node l o parent s n) as [[b1 s1]|e].
    + rewrite Hn. fold (seq_nodes (enc_node l o parent)). fold (sfl (p_tag parent)).
      assert (HE1 : entry_ok (reset_cur s1) parent) by (right; left; reflexivity).
      specialize (IH l o parent (reset_cur s1) HE1). cbn [reset_cur e_in_cdata] in IH.
      destruct (seq_nodes (enc_node l o parent) ch (reset_cur s1)) as [[b2 s2]|e2]; exact IH.
    + cbn. destruct (sf (p_tag parent) (e_in_cdata s) n) as [f1 cd1]. cbn [fst] in Hn. subst f1. reflexivity.
Qed.

Lemma p_tag_below parent nm : p_tag (pinfo_below parent nm) = cur_of nm.
Proof. destruct nm; reflexivity. Qed.

Lemma exact_node : forall n, exact_stmt n.
Proof.
  induction n as [nm attrs ch IHch|t|ch IHc| |sl roots IHr] using node_ind2; intros l o parent s HE.
  - rewrite (enc_elt_gen l o parent s nm attrs ch). cbn [sf].
    change ((fix go (cd : bool) (ns : list node) {struct ns} : bool * bool :=
               match ns with
               | [] => (false, cd)
               | x :: r => let '(f1, cd1) := sf (cur_of nm) cd x in if f1 then (true, cd1) else go cd1 r
               end) (e_in_cdata s) ch) with (sfl (cur_of nm) (e_in_cdata s) ch).
    destruct ch as [|c0 ch0]; [reflexivity|].
    assert (HE' : entry_ok (s_in o (c0 :: ch0) nm s) (pinfo_below parent nm)).
    { right; right. rewrite p_tag_below. unfold s_in. destruct (hc o (c0 :: ch0)); reflexivity. }
    pose proof (exact_list (c0 :: ch0) IHch l o (pinfo_below parent nm) _ HE') as HL.
    rewrite p_tag_below in HL.
    assert (Ecd : e_in_cdata (s_in o (c0 :: ch0) nm s) = e_in_cdata s) by (unfold s_in; destruct (hc o (c0 :: ch0)); reflexivity).
    rewrite Ecd in HL. unfold exact_res in *.
    destruct (seq_nodes (enc_node l o (pinfo_below parent nm)) (c0 :: ch0) (s_in o (c0 :: ch0) nm s)) as [[b4 s4]|e]; exact HL.
  - cbn [enc_node sf]. unfold parse_text, exact_res.
    destruct (e_in_cdata s) eqn:Hc.
    + (* inside a CDATA node: copied *)
      unfold text_policy, xml_encode_text. rewrite Hc. cbn [negb andb]. reflexivity.
    + rewrite <- (text_tag_entry s parent HE Hc). cbn [negb andb].
      destruct (tag_is_binary (text_tag s parent)) eqn:EB.
      * assert (EP : text_policy o parent s t = Some t) by (unfold text_policy; rewrite Hc, EB; reflexivity).
        rewrite EP. unfold xml_encode_text. rewrite Hc, EB.
        pose proof (rewrite_nil l (e_cur_tag s) t) as HN.
        unfold b64_enc. destruct (syncml_type_rewrite l (e_cur_tag s) t) as [|x r]; cbn [is_nil] in HN; rewrite <- HN; [reflexivity|].
        cbn [e_in_cdata]. try rewrite Hc. reflexivity.
      * cbn [andb]. destruct (text_policy o parent s t) as [c|]; [|try rewrite Hc; reflexivity].
        unfold xml_encode_text. rewrite Hc, EB. cbn [e_in_cdata]. try rewrite Hc. reflexivity.
  - cbn [enc_node sf].
    change ((fix go (cd : bool) (ns : list node) {struct ns} : bool * bool :=
               match ns with
               | [] => (false, cd)
               | x :: r => let '(f1, cd1) := sf None cd x in if f1 then (true, cd1) else go cd1 r
               end) true ch) with (sfl None true ch).
    assert (HE' : entry_ok (set_cdata true s) (pinfo_cdata parent)) by (left; reflexivity).
    pose proof (exact_list ch IHc l o (pinfo_cdata parent) _ HE') as HL. cbn [pinfo_cdata p_tag set_cdata e_in_cdata] in HL.
    unfold exact_res in *.
    destruct (seq_nodes (enc_node l o (pinfo_cdata parent)) ch (set_cdata true s)) as [[b0 s0]|e].
    + rewrite HL. reflexivity.
    + exact HL.
  - reflexivity.
  - cbn [enc_node sf]. destruct sl as [l'|]; [|reflexivity].
    change ((fix go (cd : bool) (ns : list node) {struct ns} : bool * bool :=
               match ns with
               | [] => (false, cd)
               | x :: r => let '(f1, cd1) := sf None cd x in if f1 then (true, cd1) else go cd1 r
               end) false roots) with (sfl None false roots).
    assert (HE' : entry_ok (est0 (e_indent s)) proot) by (right; left; reflexivity).
    pose proof (exact_list roots IHr l' o proot _ HE') as HL. cbn [proot p_tag est0 e_in_cdata] in HL.
    unfold exact_res in *.
    destruct (seq_nodes (enc_node l' o proot) roots (est0 (e_indent s))) as [[b0 s0]|e].
    + rewrite HL. reflexivity.
    + exact HL.
Qed.

(* EXACT TOTALITY *)
Theorem enc_xml_fails_iff l g w keep_ws roots :
  (exists e, enc_xml l g w keep_ws roots = XErr e) <-> fst (sfl None false roots) = true.
Proof.
  unfold enc_xml, enc_xml_opts, enc_nodes.
  assert (Hall : Forall exact_stmt roots) by (apply Forall_forall; intros; apply exact_node).
  pose proof (exact_list roots Hall l (opts_of_params g w keep_ws) proot (est0 0) (or_intror (or_introl eq_refl))) as HL.
  cbn [proot p_tag est0 e_in_cdata] in HL. unfold exact_res in HL.
  destruct (seq_nodes (enc_node l (opts_of_params g w keep_ws) proot) roots (est0 0)) as [[b s']|e].
  - rewrite HL. cbn [fst]. split; [intros [e H]; discriminate|discriminate].
  - split; [intros _; exact HL|intros _; eauto].
Qed.
