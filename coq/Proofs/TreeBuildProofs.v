(* C03 (tree builder) — proofs about Model/TreeBuild.v:
   (A) no two adjacent text nodes anywhere in a built tree (also inside CDATA sections and embedded documents). *)
From Coq Require Import String Ascii.
From Coq Require Import List NArith ZArith Lia Bool.
From Wbxml Require Import Model.Codec Model.TablesDefs Model.Parser Model.TreeBuild.
Import ListNotations.
Local Open Scope N_scope.

Definition is_text (n : tnode) : bool := match n with TText _ => true | _ => false end.

Fixpoint no_adj (l : list tnode) : bool :=
  match l with
  | [] => true
  | x :: r => negb (is_text x && match r with y :: _ => is_text y | [] => false end) && no_adj r
  end.

Fixpoint norm_node (n : tnode) : bool :=
  match n with
  | TElt _ _ ch => no_adj ch && forallb norm_node ch
  | TCData ch => no_adj ch && forallb norm_node ch
  | TText _ => true
  | TSub _ _ root => match root with Some r => norm_node r | None => true end
  end.

Definition norm_list (l : list tnode) : bool := no_adj l && forallb norm_node l.

Lemma add_node_norm l n : norm_list l = true -> norm_node n = true -> norm_list (add_node l n) = true.
Proof.
  unfold norm_list. induction l as [|x r IH]; intros Hl Hn.
  - cbn. rewrite Hn. destruct n; reflexivity.
  - destruct r as [|y r'].
    + assert (Hx : norm_node x = true) by (cbn [no_adj forallb] in Hl; rewrite !andb_true_iff in Hl; tauto).
      destruct x, n; cbn [add_node no_adj forallb is_text andb negb]; rewrite ?Hx, ?Hn; reflexivity.
    + change (add_node (x :: y :: r') n) with (x :: add_node (y :: r') n).
      change (no_adj (x :: y :: r')) with (negb (is_text x && is_text y) && no_adj (y :: r')) in Hl.
      change (forallb norm_node (x :: y :: r')) with (norm_node x && forallb norm_node (y :: r')) in Hl.
      rewrite !andb_true_iff in Hl. destruct Hl as [[Hxy Hr] [Hx Hf]].
      assert (IHr : no_adj (add_node (y :: r') n) && forallb norm_node (add_node (y :: r') n) = true).
      { apply IH; [|exact Hn]. rewrite Hr. exact Hf. }
      apply andb_prop in IHr. destruct IHr as [I1 I2].
      change (no_adj (x :: add_node (y :: r') n)) with
        (negb (is_text x && match add_node (y :: r') n with z :: _ => is_text z | [] => false end) && no_adj (add_node (y :: r') n)).
      change (forallb norm_node (x :: add_node (y :: r') n)) with (norm_node x && forallb norm_node (add_node (y :: r') n)).
      rewrite I1, I2, Hx, !andb_true_r.
      (* the head of add_node (y :: r') n is y or (when r' = [] and both are text) a text: text-ness of the head is that of y *)
      assert (Hh : match add_node (y :: r') n with z :: _ => is_text z | [] => false end = is_text y).
      { destruct r' as [|z r'']; [cbn [add_node]; destruct y, n; reflexivity|reflexivity]. }
      rewrite Hh. exact Hxy.
Qed.

Lemma norm_list_snoc l n : norm_list l = true -> norm_node n = true -> is_text n = false -> norm_list (l ++ [n]) = true.
Proof.
  unfold norm_list. induction l as [|x r IH]; intros Hl Hn Ht.
  - cbn. rewrite Hn. destruct n; reflexivity.
  - cbn [app no_adj forallb] in *. rewrite !andb_true_iff in Hl. destruct Hl as [[Hxy Hr] [Hx Hf]].
    assert (I : no_adj (r ++ [n]) && forallb norm_node (r ++ [n]) = true) by (apply IH; [rewrite Hr, Hf; reflexivity|exact Hn|exact Ht]).
    apply andb_prop in I. destruct I as [I1 I2]. rewrite I1, I2, Hx, !andb_true_r.
    destruct r as [|y r']; cbn [app]; [rewrite Ht, andb_false_r; reflexivity|exact Hxy].
Qed.

(* the state invariant *)
Definition frame_norm (f : frame) : bool :=
  norm_list (f_done f) && match f_cdata f with Some c => norm_list c | None => true end.
Definition state_norm (st : bstate) : bool :=
  forallb frame_norm (b_stack st) && match b_root st with Some r => norm_node r | None => true end.

Lemma frame_children_norm f inner : frame_norm f = true ->
  (inner = [] \/ exists t a ch, inner = [TElt t a ch] /\ norm_node (TElt t a ch) = true) ->
  norm_list (frame_children f inner) = true.
Proof.
  unfold frame_norm, frame_children, cdata_nodes. intros Hf Hi. apply andb_prop in Hf. destruct Hf as [Hd Hc].
  assert (H1 : norm_list (f_done f ++ match f_cdata f with Some c => [TCData c] | None => [] end) = true).
  { destruct (f_cdata f) as [c|]; [|rewrite app_nil_r; exact Hd].
    apply norm_list_snoc; [exact Hd| |reflexivity]. cbn [norm_node]. exact Hc. }
  destruct Hi as [->|(t & a & ch & -> & Hn)]; [rewrite app_nil_r; exact H1|].
  rewrite app_assoc. apply norm_list_snoc; [exact H1|exact Hn|reflexivity].
Qed.

Lemma frame_node_norm f inner : frame_norm f = true ->
  (inner = [] \/ exists t a ch, inner = [TElt t a ch] /\ norm_node (TElt t a ch) = true) ->
  norm_node (frame_node f inner) = true.
Proof. intros Hf Hi. unfold frame_node. cbn [norm_node]. exact (frame_children_norm f inner Hf Hi). Qed.

Lemma leave_cdata_norm f : frame_norm f = true -> frame_norm (leave_cdata f) = true.
Proof.
  unfold leave_cdata. destruct (f_cdata f) as [c|] eqn:Ec; [|exact (fun H => H)].
  unfold frame_norm. rewrite Ec.
  intros H. apply andb_prop in H. destruct H as [Hd Hc]. cbn [f_done f_cdata]. rewrite andb_true_r.
  apply norm_list_snoc; [exact Hd|cbn [norm_node]; exact Hc|reflexivity].
Qed.

Lemma add_to_current_norm st n st' : state_norm st = true -> norm_node n = true ->
  add_to_current st n = BOk st' -> state_norm st' = true.
Proof.
  unfold add_to_current, state_norm. intros Hs Hn. destruct (b_stack st) as [|f up] eqn:Es.
  - destruct (b_root st); [discriminate|]. intros H. injection H as <-. cbn. exact Hn.
  - intros H. injection H as <-. cbn [b_stack b_root forallb] in *. apply andb_prop in Hs. destruct Hs as [Hf Hr].
    apply andb_prop in Hf. destruct Hf as [Hf Hup]. rewrite Hup, Hr, !andb_true_r.
    unfold frame_norm in *. apply andb_prop in Hf. destruct Hf as [Hd Hc].
    destruct (f_cdata f) as [c|]; cbn [f_done f_cdata].
    + rewrite Hd. cbn [andb]. apply add_node_norm; assumption.
    + rewrite andb_true_r. apply add_node_norm; assumption.
Qed.

Lemma open_cdata_norm st : state_norm st = true -> state_norm (open_cdata st) = true.
Proof.
  unfold open_cdata, state_norm. destruct (b_stack st) as [|f up] eqn:Es; [rewrite Es; exact (fun H => H)|].
  destruct (f_cdata f) as [c|] eqn:Ec; [rewrite Es; exact (fun H => H)|].
  cbn [b_stack b_root forallb]. unfold frame_norm. rewrite Ec. cbn [f_done f_cdata]. intros H. exact H.
Qed.

Lemma start_element_norm t a st st' : state_norm st = true -> cb_start_element t a st = BOk st' -> state_norm st' = true.
Proof.
  unfold cb_start_element, state_norm. intros Hs. destruct (b_stack st) as [|f up] eqn:Es.
  - destruct (b_root st); [discriminate|]. intros H. injection H as <-. reflexivity.
  - intros H. injection H as <-. cbn [b_stack b_root forallb] in *. apply andb_prop in Hs. destruct Hs as [Hf Hr].
    apply andb_prop in Hf. destruct Hf as [Hf Hup]. rewrite (leave_cdata_norm f Hf), Hup, Hr. reflexivity.
Qed.

Lemma end_element_norm st st' : state_norm st = true -> cb_end_element st = BOk st' -> state_norm st' = true.
Proof.
  unfold cb_end_element, state_norm. intros Hs. destruct (b_stack st) as [|f [|p up]] eqn:Es; [discriminate| |].
  - destruct (f_cdata f) eqn:Ec.
    + intros H. injection H as <-. cbn [b_stack b_root forallb] in *. rewrite andb_true_r in Hs. apply andb_prop in Hs. destruct Hs as [Hf _].
      apply frame_node_norm; [exact Hf|left; reflexivity].
    + intros H. injection H as <-. rewrite Es. exact Hs.
  - intros H. injection H as <-. cbn [b_stack b_root forallb] in *. apply andb_prop in Hs. destruct Hs as [Hf Hr].
    apply andb_prop in Hf. destruct Hf as [Hf Hp]. apply andb_prop in Hp. destruct Hp as [Hp Hup]. rewrite Hup, Hr, !andb_true_r.
    unfold frame_norm at 1. cbn [f_done f_cdata]. rewrite andb_true_r.
    change (f_done p ++ cdata_nodes p ++ [frame_node f []]) with (frame_children p [frame_node f []]).
    apply frame_children_norm; [exact Hp|right]. unfold frame_node. eexists. eexists. eexists. split; [reflexivity|].
    apply (frame_node_norm f [] Hf). left. reflexivity.
Qed.

Lemma view_norm st : forall inner, forallb frame_norm st = true ->
  (inner = [] \/ exists t a ch, inner = [TElt t a ch] /\ norm_node (TElt t a ch) = true) ->
  forallb norm_node (view st inner) = true.
Proof.
  induction st as [|f up IH]; intros inner Hs Hi; cbn [view].
  - destruct Hi as [->|(t & a & ch & -> & Hn)]; [reflexivity|]. cbn [forallb]. rewrite Hn. reflexivity.
  - cbn [forallb] in Hs. apply andb_prop in Hs. destruct Hs as [Hf Hup]. apply IH; [exact Hup|right].
    unfold frame_node. eexists. eexists. eexists. split; [reflexivity|]. apply (frame_node_norm f inner Hf Hi).
Qed.

Definition tree_norm (t : wtree) : bool := match wt_root t with Some r => norm_node r | None => true end.

Lemma tree_of_state_norm st : state_norm st = true -> tree_norm (tree_of_state st) = true.
Proof.
  unfold state_norm, tree_of_state, tree_norm. intros H. apply andb_prop in H. destruct H as [Hs Hr]. cbn [wt_root].
  destruct (b_stack st) as [|f up] eqn:Es; [exact Hr|].
  pose proof (view_norm (f :: up) [] Hs (or_introl eq_refl)) as Hv.
  destruct (view (f :: up) []) as [|x r]; [reflexivity|]. cbn [hd_error]. cbn [forallb] in Hv. apply andb_prop in Hv. tauto.
Qed.

(* the unfolding equation of the fold (build_from is structural in the number of embedding levels) *)
Definition bnext (x : bres bstate) (k : bstate -> bres bstate) : bres bstate :=
  match x with BOk st' => k st' | BErr er => BErr er | BFuel => BFuel end.

Lemma build_from_eq tbl lv evs st :
  build_from tbl lv evs st =
  match evs with
  | [] => BOk st
  | e :: r =>
    match e with
    | EvStartDoc cs lid => build_from tbl lv r (mk_bstate lid cs (b_stack st) (b_root st))
    | EvEndDoc => build_from tbl lv r st
    | EvPi _ _ => build_from tbl lv r st
    | EvStartElt t attrs => bnext (cb_start_element t attrs st) (build_from tbl lv r)
    | EvEndElt _ => bnext (cb_end_element st) (build_from tbl lv r)
    | EvChars ch =>
      match syncml_data_type (b_stack st) with
      | D_WBXML =>
        match lv with
        | O => bnext (add_to_current st (TText ch)) (build_from tbl lv r)
        | S lv' =>
          match parse_with tbl 0 (b_charset st) (S (length ch)) ch with
          | POk evs' =>
            match build_from tbl lv' evs' st_init with
            | BOk st' =>
              let t := tree_of_state st' in
              bnext (add_to_current st (TSub (wt_lang t) (wt_charset t) (wt_root t))) (build_from tbl lv r)
            | BErr _ => bnext (add_to_current st (TText ch)) (build_from tbl lv r)
            | BFuel => BFuel
            end
          | PErr _ => bnext (add_to_current st (TText ch)) (build_from tbl lv r)
          | PFuel => BFuel
          end
        end
      | D_CDATA => bnext (add_to_current (open_cdata st) (TText ch)) (build_from tbl lv r)
      | D_NORMAL => bnext (add_to_current st (TText ch)) (build_from tbl lv r)
      end
    end
  end.
Proof. destruct lv; destruct evs; reflexivity. Qed.

(* the fold preserves the invariant, whatever the events are *)
Lemma build_from_norm tbl ef : forall evs st st', state_norm st = true ->
  build_from tbl ef evs st = BOk st' -> state_norm st' = true.
Proof.
  induction ef as [|ef IHef]; intros evs st st' Hs.
  - revert st Hs. induction evs as [|e r IH]; intros st Hs; rewrite build_from_eq; [intros H; injection H as <-; exact Hs|].
    assert (Htext : forall s0 c, state_norm s0 = true -> bnext (add_to_current s0 (TText c)) (build_from tbl 0 r) = BOk st' -> state_norm st' = true).
    { intros s0 c H0. unfold bnext. destruct (add_to_current s0 (TText c)) as [st1|er|] eqn:E; try discriminate.
      apply IH. apply (add_to_current_norm s0 (TText c) st1 H0 eq_refl E). }
    destruct e as [cs lid|t attrs|ch|tg dt|t|].
    + apply IH. exact Hs.
    + unfold bnext. destruct (cb_start_element t attrs st) as [st1|er|] eqn:E; try discriminate. apply IH. apply (start_element_norm t attrs st st1 Hs E).
    + destruct (syncml_data_type (b_stack st)); [apply Htext; exact Hs|apply Htext; exact Hs|apply Htext; apply open_cdata_norm; exact Hs].
    + apply IH. exact Hs.
    + unfold bnext. destruct (cb_end_element st) as [st1|er|] eqn:E; try discriminate. apply IH. apply (end_element_norm st st1 Hs E).
    + apply IH. exact Hs.
  - revert st Hs. induction evs as [|e r IH]; intros st Hs; rewrite build_from_eq; [intros H; injection H as <-; exact Hs|].
    assert (Htext : forall s0 c, state_norm s0 = true -> bnext (add_to_current s0 (TText c)) (build_from tbl (S ef) r) = BOk st' -> state_norm st' = true).
    { intros s0 c H0. unfold bnext. destruct (add_to_current s0 (TText c)) as [st1|er|] eqn:E; try discriminate.
      apply IH. apply (add_to_current_norm s0 (TText c) st1 H0 eq_refl E). }
    destruct e as [cs lid|t attrs|ch|tg dt|t|].
    + apply IH. exact Hs.
    + unfold bnext. destruct (cb_start_element t attrs st) as [st1|er|] eqn:E; try discriminate. apply IH. apply (start_element_norm t attrs st st1 Hs E).
    + destruct (syncml_data_type (b_stack st)); [apply Htext; exact Hs| |apply Htext; apply open_cdata_norm; exact Hs].
      destruct (parse_with tbl 0 (b_charset st) (S (length ch)) ch) as [evs'|er|]; [|apply Htext; exact Hs|discriminate].
      destruct (build_from tbl ef evs' st_init) as [st2|er|] eqn:E2; [|apply Htext; exact Hs|discriminate].
      assert (Hn : norm_node (TSub (wt_lang (tree_of_state st2)) (wt_charset (tree_of_state st2)) (wt_root (tree_of_state st2))) = true).
      { cbn [norm_node]. apply (tree_of_state_norm st2). apply (IHef evs' st_init st2 eq_refl E2). }
      cbv zeta. unfold bnext. destruct (add_to_current st _) as [st1|er|] eqn:E; try discriminate.
      apply IH. apply (add_to_current_norm st _ st1 Hs Hn E).
    + apply IH. exact Hs.
    + unfold bnext. destruct (cb_end_element st) as [st1|er|] eqn:E; try discriminate. apply IH. apply (end_element_norm st st1 Hs E).
    + apply IH. exact Hs.
Qed.

(* (A) a built tree never has two adjacent text nodes *)
Theorem build_no_adjacent_text tbl ef evs t : build tbl ef evs = BOk t -> tree_norm t = true.
Proof.
  unfold build. destruct (build_from tbl ef evs st_init) as [st|e|] eqn:E; try discriminate.
  intros H. injection H as <-. apply tree_of_state_norm. apply (build_from_norm tbl ef evs st_init st eq_refl E).
Qed.
