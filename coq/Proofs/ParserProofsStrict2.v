(* strict decoder, part 2: elements, the document, decode = denote on strict documents *)
From Coq Require Import String Ascii.
From Coq Require Import List NArith ZArith Lia Bool ZifyBool ZifyN.
From Wbxml Require Import Base.Bits Model.Codec Model.TablesDefs Model.Parser Model.Spec
     Proofs.CodecProofs Proofs.ParserProofsBase Proofs.ParserProofsStr Proofs.ParserProofsAttr Proofs.ParserProofsElt
     Proofs.ParserProofsDoc Proofs.ParserProofsStrict.
Import ListNotations.
Local Open Scope N_scope.

Fixpoint rd_items (f g : nat) (r : bytes) : option (list witem * bytes) :=
  match g with
  | O => None
  | S g' =>
    match r with
    | [] => None
    | b :: r' =>
      if b =? 1 then Some ([], r')
      else
        match rd_item f r with
        | Some (x, r1) =>
          match rd_items f g' r1 with Some (l, r'') => Some (x :: l, r'') | None => None end
        | None => None
        end
    end
  end.

(* rd_item on an element start (no string-like item, no PI at r) *)
Definition rd_elt (f : nat) (r : bytes) : option (witem * bytes) :=
  let '(sw, r1) := rd_sw r in
  match r1 with
  | [] => None
  | t :: r2 =>
    let low := N.land t 63 in
    let stag :=
      if low =? 4 then match rd_mb r2 with Some (i, r3) => Some (WTagLit i, r3) | None => None end
      else if (5 <=? low) && (t <? 256) then Some (WTagTok low, r2) else None in
    match stag with
    | None => None
    | Some (tag, r3) =>
      let attrs := if N.land t 128 =? 128 then rd_attrs f r3 else Some ([], r3) in
      match attrs with
      | None => None
      | Some (al, r4) =>
        if N.land t 64 =? 64 then
          match rd_items f (S f) r4 with
          | Some (items, r5) => Some (WItemElt sw tag al true items, r5)
          | None => None
          end
        else Some (WItemElt sw tag al false [], r4)
      end
    end
  end.

Lemma rd_item_elt f t0 r0 : rd_str (t0 :: r0) = None -> (t0 =? 67) = false ->
  rd_item (S f) (t0 :: r0) = rd_elt f (t0 :: r0).
Proof.
  intros Hs H67. cbn [rd_item]. rewrite Hs, H67. unfold rd_elt.
  destruct (rd_sw (t0 :: r0)) as [sw r1]. destruct r1 as [|t r2]; [reflexivity|]. cbn zeta.
  destruct (if N.land t 63 =? 4 then _ else _) as [[tag r3]|]; [|reflexivity].
  destruct (if N.land t 128 =? 128 then rd_attrs f r3 else Some ([], r3)) as [[al r4]|]; [|reflexivity].
  destruct (N.land t 64 =? 64); [|reflexivity].
  cbn [rd_items]. destruct r4 as [|b r']; [reflexivity|]. destruct (b =? 1); [reflexivity|].
  destruct (rd_item f (b :: r')) as [[x r1]|]; [|reflexivity].
  match goal with |- context [?F f r1] => is_fix F; assert (E : forall g r, F g r = rd_items f g r) end.
  { induction g as [|g IH]; intros r; [reflexivity|]. cbn [rd_items]. destruct r as [|b0 r0']; [reflexivity|].
    destruct (b0 =? 1); [reflexivity|]. destruct (rd_item f (b0 :: r0')) as [[x0 r10]|]; [|reflexivity]. rewrite IH. reflexivity. }
  rewrite E. reflexivity.
Qed.

Section Strict2.
Variables (l : lang) (tb : bytes).
Let denv := mk_denv l tb.

Definition relt_stmt (i : witem) : Prop :=
  forall depth parent dst evs dst' f r,
    den_item denv depth parent i dst = Some (evs, dst') -> (length (ser_item i) <= f)%nat ->
    rd_item (S f) (ser_item i ++ r) = Some (i, r).

Definition ritems_stmt (items : list witem) : Prop :=
  forall depth me dst evs dst' f g r,
    den_items denv depth me items dst = Some (evs, dst') ->
    (length (flat_map ser_item items) < f)%nat -> (length items < g)%nat ->
    rd_items f g (flat_map ser_item items ++ 1 :: r) = Some (items, r).

Lemma rd_str_none_tag t r : is_ext_token t = false -> (t =? 3) = false -> (t =? 131) = false -> (t =? 2) = false ->
  (t =? 195) = false -> (t =? 0) = false -> rd_str (t :: r) = None.
Proof.
  intros Hx H3 H131 H2 H195 H0. unfold rd_str. rewrite H3, H131, H2, H195. rewrite (rd_sw_none t r H0). rewrite (rd_ext_none t r Hx). reflexivity.
Qed.

Lemma relt_of_items items : ritems_stmt items -> forall sw tag attrs hasc, relt_stmt (WItemElt sw tag attrs hasc items).
Proof.
  unfold relt_stmt, ritems_stmt. intros Hitems sw tag attrs hasc depth parent dst evs dst' f r H Hf.
  rewrite den_item_elt in H.
  destruct (sw_okb sw && (depth <=? 1000)) eqn:E; [|discriminate]. apply andb_prop in E. destruct E as [Hsw Hd].
  destruct (den_named denv tag (apply_sw TagSpace sw dst)) as [[[name me] st1]|] eqn:En; [|discriminate].
  destruct (den_attrs denv attrs st1) as [[al st2]|] eqn:Ea; [|discriminate].
  rewrite ser_item_elt, tag_bits_of in *. set (ha := match attrs with [] => false | _ => true end) in *.
  rewrite !app_length in Hf. pose proof (ser_tag_len tag (bits_of ha hasc)) as Htl.
  rewrite <- !app_assoc.
  set (A := match attrs with [] => [] | _ :: _ => flat_map ser_attr attrs ++ [1] end) in *.
  set (C := if hasc then flat_map ser_item items ++ [1] else []) in *.
  destruct (ser_tag_head l tb tag ha hasc _ _ (A ++ C ++ r) En) as (b & r' & Eb & B0 & B1 & B67 & B2 & B3 & B131 & B195 & Bx).
  (* the element reader is reached *)
  assert (Hreach : rd_item (S f) (ser_sw sw ++ ser_tag tag (bits_of ha hasc) ++ A ++ C ++ r)
                   = rd_elt f (ser_sw sw ++ ser_tag tag (bits_of ha hasc) ++ A ++ C ++ r)).
  { destruct sw as [p|]; cbn [ser_sw app].
    - apply rd_item_elt; [|reflexivity]. unfold rd_str. cbn [N.eqb Pos.eqb]. rewrite rd_sw_some. rewrite Eb. rewrite (rd_ext_none b r' Bx). reflexivity.
    - rewrite Eb. apply rd_item_elt; [apply rd_str_none_tag; assumption|exact B67]. }
  rewrite Hreach. unfold rd_elt.
  assert (Hsw' : rd_sw (ser_sw sw ++ ser_tag tag (bits_of ha hasc) ++ A ++ C ++ r) = (sw, ser_tag tag (bits_of ha hasc) ++ A ++ C ++ r)).
  { destruct sw as [p|]; cbn [ser_sw app]; [apply rd_sw_some|]. rewrite Eb. apply rd_sw_none. exact B0. }
  rewrite Hsw'.
  (* the tag *)
  assert (Htag : exists t, ser_tag tag (bits_of ha hasc) ++ A ++ C ++ r = t :: (match tag with WTagTok _ => [] | WTagLit i => mb_write i end) ++ A ++ C ++ r
                 /\ (N.land t 128 =? 128) = ha /\ (N.land t 64 =? 64) = hasc
                 /\ (if N.land t 63 =? 4 then match rd_mb ((match tag with WTagTok _ => [] | WTagLit i => mb_write i end) ++ A ++ C ++ r) with Some (i, r3) => Some (WTagLit i, r3) | None => None end
                     else if (5 <=? N.land t 63) && (t <? 256) then Some (WTagTok (N.land t 63), (match tag with WTagTok _ => [] | WTagLit i => mb_write i end) ++ A ++ C ++ r) else None)
                    = Some (tag, A ++ C ++ r)).
  { destruct tag as [t|idx]; cbn [den_named] in En.
    - destruct (tag_tok_okb t) eqn:Ht; [|discriminate].
      destruct (tagbyte_props t ha hasc Ht) as (_ & _ & _ & _ & _ & _ & _ & _ & _ & T63 & T128 & T64). cbn zeta in *.
      exists (t + bits_of ha hasc). cbn [ser_tag app]. repeat split; try assumption.
      rewrite T63. unfold tag_tok_okb in Ht.
      replace (t =? 4) with false by lia. replace ((5 <=? t) && (t + bits_of ha hasc <? 256)) with true by (destruct ha, hasc; cbn [bits_of]; lia).
      reflexivity.
    - destruct (u32_okb idx) eqn:Ei; [|discriminate].
      exists (4 + bits_of ha hasc). cbn [ser_tag app].
      destruct ha, hasc; cbn [bits_of];
        [change (4 + 192) with 196|change (4 + 128) with 132|change (4 + 64) with 68|change (4 + 0) with 4];
        (repeat split; try reflexivity); change (N.land _ 63 =? 4) with true; cbn iota;
        rewrite rd_mb_ok by (apply u32_okb_lt; exact Ei); reflexivity. }
  destruct Htag as (t & Et & T128 & T64 & Hst). rewrite Et. cbn zeta. rewrite Hst. rewrite T128, T64.
  (* attributes *)
  assert (Hattrs : match (if ha then rd_attrs f (A ++ C ++ r) else Some ([], A ++ C ++ r)) with
                   | Some (al0, r4) =>
                     if hasc then match rd_items f (S f) r4 with
                                  | Some (items0, r5) => Some (WItemElt sw tag al0 true items0, r5)
                                  | None => None
                                  end
                     else Some (WItemElt sw tag al0 false [], r4)
                   | None => None
                   end
                   = if hasc then match rd_items f (S f) (C ++ r) with
                                  | Some (items0, r5) => Some (WItemElt sw tag attrs true items0, r5)
                                  | None => None
                                  end
                     else Some (WItemElt sw tag attrs false [], C ++ r)).
  { subst ha A. destruct attrs as [|a0 al0]; [reflexivity|]. rewrite <- app_assoc. cbn [app].
    rewrite (rd_attrs_ok l tb (a0 :: al0) st1 al st2 f (C ++ r) Ea); [reflexivity|discriminate|]. rewrite app_length in Hf. lia. }
  etransitivity; [exact Hattrs|]. subst C. destruct hasc.
  - destruct (den_items denv (depth + 1) me items st2) as [[evs0 st3]|] eqn:Ei; [|discriminate].
    rewrite <- app_assoc. cbn [app].
    rewrite (Hitems (depth + 1) me st2 evs0 st3 f (S f) r Ei).
    + reflexivity.
    + rewrite app_length in Hf. cbn [length] in Hf. lia.
    + assert (Hn : (length items <= length (flat_map ser_item items))%nat).
      { clear. induction items as [|x xs IH]; [cbn; lia|]. cbn [flat_map length]. rewrite app_length.
        assert (1 <= length (ser_item x))%nat.
        { destruct x as [sw tag attrs hasc its|s|p]; [rewrite ser_item_elt, !app_length; pose proof (ser_tag_len tag (tag_bits attrs hasc)); lia
                                                     |destruct (ser_str_head s []) as [_ Hl]; exact Hl|cbn [ser_item]; unfold ser_pi; cbn [length]; lia]. }
        lia. }
      rewrite app_length in Hf. cbn [length] in Hf. lia.
  - destruct items; [|discriminate]. rewrite app_nil_l. reflexivity.
Qed.

Definition RG (i : witem) : Prop := match i with WItemElt _ _ _ _ its => ritems_stmt its | _ => True end.

Lemma ritems_from_RG items : Forall RG items -> ritems_stmt items.
Proof.
  unfold ritems_stmt. induction items as [|x xs IH]; intros HF depth me dst evs dst' f g r H Hf Hg.
  - cbn [flat_map app]. destruct g as [|g]; [cbn in Hg; lia|]. cbn [rd_items N.eqb Pos.eqb]. reflexivity.
  - inversion HF as [|x0 xs0 Hx Hxs]; subst x0 xs0.
    cbn [den_items] in H. destruct (den_item denv depth me x dst) as [[e st1]|] eqn:Ex; [|discriminate].
    destruct (den_items denv depth me xs st1) as [[e' st2]|] eqn:Exs; [|discriminate].
    cbn [flat_map length] in *. rewrite app_length in Hf. rewrite <- app_assoc.
    destruct g as [|g]; [lia|]. destruct f as [|f']; [lia|].
    (* the item x is read back *)
    assert (Hx1 : (1 <= length (ser_item x))%nat).
    { destruct x as [sw tag attrs hasc its|s|p]; [rewrite ser_item_elt, !app_length; pose proof (ser_tag_len tag (tag_bits attrs hasc)); lia
                                                 |destruct (ser_str_head s []) as [_ Hl]; exact Hl|cbn [ser_item]; unfold ser_pi; cbn [length]; lia]. }
    assert (Hrd : rd_item (S f') (ser_item x ++ flat_map ser_item xs ++ 1 :: r) = Some (x, flat_map ser_item xs ++ 1 :: r)
                  /\ exists b y, ser_item x ++ flat_map ser_item xs ++ 1 :: r = b :: y /\ (b =? 1) = false).
    { destruct x as [sw tag attrs hasc its|s|p].
      - cbn [RG] in Hx. split; [apply (relt_of_items its Hx sw tag attrs hasc depth me dst e st1 f' _ Ex); lia|].
        pose proof Ex as Ex'. rewrite den_item_elt in Ex'. destruct (sw_okb sw && (depth <=? 1000)); [|discriminate].
        destruct (den_named denv tag (apply_sw TagSpace sw dst)) as [xn|] eqn:En; [|discriminate].
        rewrite ser_item_elt, tag_bits_of. rewrite <- !app_assoc.
        destruct sw as [p|]; cbn [ser_sw app]; [eexists; eexists; split; reflexivity|].
        destruct (ser_tag_head l tb tag (match attrs with [] => false | _ => true end) hasc _ xn
                    ((match attrs with [] => [] | _ :: _ => flat_map ser_attr attrs ++ [1] end)
                     ++ (if hasc then flat_map ser_item its ++ [1] else []) ++ flat_map ser_item xs ++ 1 :: r) En)
          as (b & r' & Eb & _ & B1 & _).
        rewrite Eb. exists b, r'. split; [reflexivity|exact B1].
      - cbn [den_item] in Ex. destruct (den_str denv TagSpace me s dst) as [[o st1']|] eqn:Es; [|discriminate].
        cbn [ser_item]. split.
        + cbn [rd_item]. rewrite (rd_str_ok l tb TagSpace me s dst o st1' _ Es). reflexivity.
        + destruct (ser_str_head s (flat_map ser_item xs ++ 1 :: r)) as [H1 _].
          destruct (ser_str s ++ flat_map ser_item xs ++ 1 :: r) as [|b y] eqn:Eb.
          * destruct (ser_str_head s []) as [_ Hl]. apply (f_equal (@length N)) in Eb. rewrite app_length in Eb. cbn [length] in Eb. lia.
          * exists b, y. split; [reflexivity|exact H1].
      - cbn [den_item] in Ex. cbn [ser_item]. unfold ser_pi. cbn [app]. rewrite <- app_assoc. cbn [app]. split.
        + cbn [rd_item]. unfold rd_str. cbn [N.eqb Pos.eqb]. rewrite rd_sw_none by reflexivity. rewrite rd_ext_none by reflexivity.
          rewrite (rd_pi_ok l tb p dst e st1 f' _ Ex); [reflexivity|].
          cbn [ser_item] in Hf. unfold ser_pi in Hf. cbn [length] in Hf. rewrite app_length in Hf. lia.
        + eexists. eexists. split; reflexivity. }
    destruct Hrd as [Hrd (b & y & Eb & Hb)].
    cbn [rd_items]. rewrite Eb, Hb. rewrite <- Eb. rewrite Hrd.
    rewrite (IH Hxs depth me st1 e' st2 (S f') g r Exs) by lia. reflexivity.
Qed.

Lemma all_RG : forall i, RG i.
Proof.
  fix IH 1. intros i. destruct i as [sw tag attrs hasc items|s|p]; cbn [RG]; [|exact I|exact I].
  apply ritems_from_RG. induction items as [|x xs IHxs]; constructor; [apply IH|exact IHxs].
Qed.

Theorem rd_element_ok sw tag attrs hasc items : relt_stmt (WItemElt sw tag attrs hasc items).
Proof. apply relt_of_items. exact (all_RG (WItemElt sw tag attrs hasc items)). Qed.

Lemma rd_pis_ok pis : forall dst e dst' fuel r, den_pis denv pis dst = Some (e, dst') ->
  (match r with b :: _ => (b =? 67) = false | [] => True end) ->
  (length (flat_map ser_pi pis) <= fuel)%nat -> rd_pis fuel (flat_map ser_pi pis ++ r) = (pis, r).
Proof.
  induction pis as [|p ps IH]; intros dst e dst' fuel r H Hr Hf.
  - cbn [flat_map app]. destruct fuel; cbn [rd_pis]; [reflexivity|]. destruct r as [|b r']; [reflexivity|]. rewrite Hr. reflexivity.
  - cbn [den_pis] in H. destruct (den_pi denv p dst) as [[e1 st1]|] eqn:Ep; [|discriminate].
    destruct (den_pis denv ps st1) as [[e2 st2]|] eqn:Eps; [|discriminate].
    cbn [flat_map] in *. rewrite app_length in Hf. unfold ser_pi at 1 in Hf. cbn [length] in Hf. rewrite app_length in Hf. cbn [length] in Hf.
    destruct fuel as [|f]; [lia|]. unfold ser_pi at 1. cbn [app]. rewrite <- !app_assoc. cbn [app rd_pis N.eqb Pos.eqb].
    rewrite (rd_pi_ok l tb p dst e1 st1 f _ Ep) by lia.
    rewrite (IH st1 e2 st2 f r Eps Hr) by lia. reflexivity.
Qed.

End Strict2.
