(* C06 — the classes of languages that instantiate the generic document theorem (Proofs/EncWbxmlClass6.v):
     SyncML 1.0 / 1.1 / 1.2  : the MIME rewrite in MetInf <Type> (canon: mime_of, idempotent), CDATA with the LF -> CR LF rule;
     DRMREL 1.0              : <ds:KeyValue> base64 text written as OPAQUE, printed as canonical base64;
     OTA settings            : the VALUE of an ICON characteristic, likewise;
   next to the classes of Denote5 (plain + SI + EMN) and DenoteWv (Wireless Village). *)
From Coq Require Import List NArith Lia Bool.
From Wbxml Require Import Base.Bits Model.Codec Model.TablesDefs Model.EncWbxml Model.TreeNorm Model.EncWbxmlEvents
     Proofs.EncWbxmlProofs Proofs.TreeNormProofs Proofs.EncWbxmlAbs Proofs.EncWbxmlStrict2 Proofs.EncWbxmlDenote2
     Proofs.EncWbxmlMerge Proofs.EncWbxmlTblOk Proofs.EncWbxmlDenote3 Proofs.EncWbxmlAbs4 Proofs.EncWbxmlDenote4 Proofs.EncWbxmlAbs5
     Proofs.EncWbxmlDenote5 Proofs.EncWbxmlDenoteWv Proofs.EncWbxmlDenote6 Proofs.EncWbxmlClass6.
From Wbxml Require Model.Parser Model.Spec Proofs.EncWbxmlDenote.
Import ListNotations.
Local Open Scope N_scope.

(* ---- base64 decoding yields octets ---------------------------------------------------------------------------------------------- *)
Lemma b64_body_bytes : forall cs, forallb S.is_byte (b64_dec_body cs) = true.
Proof.
  fix IH 1. intros cs. destruct cs as [|p [|q [|r [|s rest]]]]; try reflexivity.
  - cbn [b64_dec_body forallb]. unfold db1. now rewrite is_byte_u8.
  - cbn [b64_dec_body forallb]. unfold db1, db2. now rewrite !is_byte_u8.
  - pose proof (IH rest) as HR. cbn [b64_dec_body]. destruct rest as [|x rest'].
    + cbn [forallb]. unfold db1, db2, db3. now rewrite !is_byte_u8.
    + cbn [forallb]. unfold db1, db2, db3. rewrite !is_byte_u8. cbn [andb]. exact HR.
Qed.

Lemma b64_raw_bytes cs : S.bytes_okb (b64_raw cs) = true.
Proof.
  unfold b64_raw, S.bytes_okb. cbv zeta. apply forallb_forall. intros x Hx.
  pose proof (b64_body_bytes (take_b64 cs)) as H. rewrite forallb_forall in H. apply H.
  rewrite <- (firstn_skipn (N.to_nat (b64_dec_count (N.of_nat (List.length (take_b64 cs))))) (b64_dec_body (take_b64 cs))).
  apply in_or_app. now left.
Qed.

(* ---- ordinary content: the pieces of a value spell it ----------------------------------------------------------------------------- *)
Section PlainValue.
  Variable L : lang.
  Variable e : env.
  Hypothesis HE : e_lang e = to_blang L.
  Hypothesis HV : vals_ok L = true.
  Hypothesis HX : l_exts L = None.
  Variable TF : list ste.
  Variable tb : bytes.
  Hypothesis HRES : forall x, In x TF -> okb (s_str x) = true -> S.str_at tb (s_off x) = Some (s_str x).
  Hypothesis HU32 : forall x, In x TF -> S.u32_okb (s_off x) = true.
  Hypothesis HREF : forall x, In x TF -> ref_str TF (s_off x) = s_str x.

  Lemma plain_value_den st buf w st' d me (dst : S.dstate) :
    sub TF st' -> okb buf = true -> abs_value e st false buf = Some (w, st') ->
    exists evs, D1.den_items (S.mk_denv L tb) d me (items_of w) dst = Some (evs, dst) /\ merge_chars evs = chars buf /\ st' = st.
  Proof.
    intros Hsub Hb. unfold abs_value. destruct buf as [|x s]; [intros E; injection E as <- <-; exists []; auto|].
    destruct (split_value e st false (x :: s)) as [l|] eqn:SV; [|discriminate]. intros E.
    pose proof (split_value_content_notattr e st _ l SV) as Hn.
    pose proof (notattr_state l st Hn) as Hst.
    assert (Hs0 : sub TF st).
    { destruct (abs_velts st l) as [w0 st0]. injection E as _ <-. cbn [snd] in Hst. now subst st0. }
    pose proof (split_value_ok3 e st TF false _ l Hs0 (exts_none L e HE HX) Hb SV) as Hav. rewrite HE in Hav.
    pose proof (split_value_spells L e HE HV HX TF HREF st false _ l Hs0 SV) as Hden.
    pose proof (items_den L TF tb HRES HU32 HREF l d me dst st Hav Hn) as DI.
    destruct (abs_velts st l) as [w0 st0]. cbn [fst snd] in *. injection E as <- <-.
    eexists. split; [exact DI|]. split; [|exact Hst]. now rewrite merge_pieces_f, Hden.
  Qed.
End PlainValue.

(* ================================================================================================================================ *)
(* SyncML                                                                                                                              *)

(* the MIME rewrite, as a function of the text (the encoder's the_buffer_of outside CDATA) *)
Definition mime_of (e : env) (par : option tagname) (buf : bytes) : bytes := the_buffer_of e (init_est [] 0) false par buf.

Lemma the_buffer_mime e st par buf : in_cdata st = false -> the_buffer_of e st false par buf = mime_of e par buf.
Proof. intros H. unfold mime_of, the_buffer_of. cbv zeta. rewrite H. reflexivity. Qed.

(* the rewrite is a normal form: its results are not rewritten again *)
Theorem mime_of_idem e par buf : mime_of e par (mime_of e par buf) = mime_of e par buf.
Proof.
  unfold mime_of, the_buffer_of. cbv zeta. cbn [in_cdata init_est negb andb].
  destruct (is_syncml (e_lang e) && match par with Some (TagTok 1 19 _ _) => true | _ => false end); [|reflexivity].
  match goal with |- context [if ?c1 && strcaseeq buf ?X1 then ?Y1 else if strcaseeq buf ?X2 then ?Y2 else buf] =>
    set (a := c1); set (x1 := X1); set (y1 := Y1); set (x2 := X2); set (y2 := Y2) end.
  assert (F11 : strcaseeq y1 x1 = false) by (vm_compute; reflexivity).
  assert (F12 : strcaseeq y1 x2 = false) by (vm_compute; reflexivity).
  assert (F21 : strcaseeq y2 x1 = false) by (vm_compute; reflexivity).
  assert (F22 : strcaseeq y2 x2 = false) by (vm_compute; reflexivity).
  destruct (a && strcaseeq buf x1) eqn:C1.
  - now rewrite F11, F12, andb_false_r.
  - destruct (strcaseeq buf x2) eqn:C2.
    + now rewrite F21, F22, andb_false_r.
    + now rewrite C1, C2.
Qed.

Lemma mime_of_okb e par buf : okb buf = true -> okb (mime_of e par buf) = true.
Proof.
  intros Hb. unfold mime_of, the_buffer_of. cbv zeta.
  destruct (_ && _ && _); [|exact Hb]. destruct (_ && strcaseeq buf _); [vm_compute; reflexivity|].
  destruct (strcaseeq buf _); [vm_compute; reflexivity|exact Hb].
Qed.

Lemma mime_of_nonempty e par x s : mime_of e par (x :: s) <> [].
Proof.
  unfold mime_of, the_buffer_of. cbv zeta.
  destruct (_ && _ && _); [|discriminate]. destruct (_ && strcaseeq (x :: s) _); [discriminate|].
  destruct (strcaseeq (x :: s) _); discriminate.
Qed.

Definition tok_sy (first : bool) (par : option tagname) (c : bytes) : bool := negb (tag_bin par) && okb c.
Definition tev_sy (e : env) (keep first : bool) (par : option tagname) (c : bytes) : list P.event :=
  match wv_norm keep c with [] => [] | b0 :: br => chars (mime_of e par (b0 :: br)) end.

Section Sy.
  Variable L : lang.
  Variable e : env.
  Hypothesis HE : e_lang e = to_blang L.
  Hypothesis HS : is_syncml (e_lang e) = true.
  Hypothesis HV : vals_ok L = true.
  Hypothesis HX : l_exts L = None.
  Hypothesis Hopts : e_ignore_empty e = e_remove_blanks e.
  Variable TF : list ste.
  Variable tb : bytes.
  Hypothesis HRES : forall x, In x TF -> okb (s_str x) = true -> S.str_at tb (s_off x) = Some (s_str x).
  Hypothesis HU32 : forall x, In x TF -> S.u32_okb (s_off x) = true.
  Hypothesis HREF : forall x, In x TF -> ref_str TF (s_off x) = s_str x.

  Lemma sy_not_others : is_wv (e_lang e) = false /\ (bl_id (e_lang e) =? LANG_DRMREL10) = false /\ (bl_id (e_lang e) =? LANG_OTA_SETTINGS) = false.
  Proof.
    pose proof HS as H. unfold is_syncml, is_wv, LANG_SYNCML10, LANG_SYNCML11, LANG_SYNCML12, LANG_WV_CSP11, LANG_WV_CSP12, LANG_DRMREL10, LANG_OTA_SETTINGS in *.
    apply orb_true_iff in H as [H|H]; [apply orb_true_iff in H as [H|H]|]; apply N.eqb_eq in H; rewrite H; repeat split; reflexivity.
  Qed.

  Lemma abs_value5_sy st par buf : in_cdata st = false ->
    abs_value5 e st false None [] par buf = match buf with [] => Some ([], st) | _ => abs_value e st false (mime_of e par buf) end.
  Proof.
    intros Hic. destruct sy_not_others as (Hw & Hd & _). unfold abs_value5. destruct buf as [|c0 buf]; [reflexivity|].
    unfold abs_special_attr, abs_special_content. cbv zeta. rewrite Hic, Hw, Hd. cbn [negb andb].
    rewrite (the_buffer_mime e st par _ Hic). unfold abs_value.
    destruct (mime_of e par (c0 :: buf)) eqn:M; [exfalso; exact (mime_of_nonempty e par c0 buf M)|reflexivity].
  Qed.

  Lemma text_den_sy (first : bool) st par c items st' d me (dst : S.dstate) :
    sub TF st' -> in_cdata st = false -> cur_tag st = (if first then ctag_of par else None) -> dcur_ok first par dst me ->
    tok_sy first par c = true -> abs_text5 e st par c = Some (items, st') ->
    exists evs, D1.den_items (S.mk_denv L tb) d me items dst = Some (evs, dst) /\
                merge_chars evs = merge_chars (tev_sy e (negb (e_remove_blanks e)) first par c) /\
                tagcp st' = tagcp st /\ attrcp st' = attrcp st /\ in_cdata st' = false.
  Proof.
    intros Hsub Hic Hc _ Hok A. unfold tok_sy in Hok. apply andb_true_iff in Hok as [Hnb Hokb]. apply negb_true_iff in Hnb.
    unfold abs_text5 in A. rewrite (binary_is st par (cur_first_ok first st par Hc)), Hnb, Hic in A. cbn [negb andb] in A. rewrite Hopts in A.
    assert (VAL : forall buf, okb buf = true ->
              match abs_value5 e st false None [] par buf with Some (w, st'0) => Some (items_of w, st'0) | None => None end = Some (items, st') ->
              exists evs, D1.den_items (S.mk_denv L tb) d me items dst = Some (evs, dst) /\
                merge_chars evs = merge_chars (match buf with [] => [] | b0 :: br => chars (mime_of e par (b0 :: br)) end) /\ st' = st).
    { intros buf Hb. rewrite (abs_value5_sy st par buf Hic). destruct buf as [|x s]; [intros E; injection E as <- <-; exists []; auto|].
      destruct (abs_value e st false (mime_of e par (x :: s))) as [[w st0]|] eqn:AV; [|discriminate]. intros E; injection E as <- <-.
      destruct (plain_value_den L e HE HV HX TF tb HRES HU32 HREF st _ w st0 d me dst Hsub (mime_of_okb e par _ Hb) AV) as (evs & Dn & M & ->).
      exists evs. split; [exact Dn|]. split; [|reflexivity]. rewrite M. now rewrite merge_chars_chars. }
    unfold tev_sy, wv_norm.
    destruct (e_remove_blanks e) eqn:R; cbn [negb andb] in *.
    - destruct (only_ws c) eqn:W.
      + injection A as <- <-. exists []. auto.
      + rewrite (okb_cstr _ (okb_strip c Hokb)) in A.
        destruct (VAL (strip_blanks c) (okb_strip c Hokb) A) as (evs & Dn & M & ->). exists evs. auto 6.
    - rewrite (okb_cstr _ Hokb) in A.
      destruct (VAL c Hokb A) as (evs & Dn & M & ->). exists evs. auto 6.
  Qed.
End Sy.

(* ================================================================================================================================ *)
(* DRMREL: <ds:KeyValue> (page 0, token 0x0C)                                                                                         *)
Definition is_keyvalue (par : option tagname) : bool :=
  match par with Some (TagTok 0 12 _ _) => true | _ => false end.

(* the canonical base64 text of a base64 text *)
Definition canon_b64 (buf : bytes) : bytes := rfc4648 (b64_raw buf).

Definition tok_drm (keep first : bool) (par : option tagname) (c : bytes) : bool :=
  negb (tag_bin par) && okb c &&
  match wv_norm keep c with
  | [] => true
  | b0 :: br => if is_keyvalue par then first && (0 <? len (b64_raw (b0 :: br))) && (len (b64_raw (b0 :: br)) <? 4294967296) else true
  end.
Definition tev_drm (keep first : bool) (par : option tagname) (c : bytes) : list P.event :=
  match wv_norm keep c with
  | [] => []
  | b0 :: br => if is_keyvalue par then chars (canon_b64 (b0 :: br)) else chars (b0 :: br)
  end.

Section Drm.
  Variable L : lang.
  Variable e : env.
  Hypothesis HE : e_lang e = to_blang L.
  Hypothesis HD : (bl_id (e_lang e) =? LANG_DRMREL10) = true.
  Hypothesis HV : vals_ok L = true.
  Hypothesis HX : l_exts L = None.
  Hypothesis Hopts : e_ignore_empty e = e_remove_blanks e.
  Variable TF : list ste.
  Variable tb : bytes.
  Hypothesis HRES : forall x, In x TF -> okb (s_str x) = true -> S.str_at tb (s_off x) = Some (s_str x).
  Hypothesis HU32 : forall x, In x TF -> S.u32_okb (s_off x) = true.
  Hypothesis HREF : forall x, In x TF -> ref_str TF (s_off x) = s_str x.

  Lemma drm_id : l_id L = 1801.
  Proof. rewrite HE in HD. cbn [to_blang bl_id] in HD. unfold LANG_DRMREL10 in HD. now apply N.eqb_eq in HD. Qed.

  Lemma drm_not_others : is_wv (e_lang e) = false /\ is_syncml (e_lang e) = false /\ (bl_id (e_lang e) =? LANG_OTA_SETTINGS) = false.
  Proof.
    pose proof drm_id as H. rewrite HE. unfold is_wv, is_syncml, LANG_SYNCML10, LANG_SYNCML11, LANG_SYNCML12, LANG_WV_CSP11, LANG_WV_CSP12, LANG_OTA_SETTINGS.
    cbn [to_blang bl_id]. rewrite H. repeat split; reflexivity.
  Qed.

  Lemma abs_value5_drm st par buf : in_cdata st = false ->
    abs_value5 e st false None [] par buf =
    match buf with
    | [] => Some ([], st)
    | _ => if is_keyvalue par then Some (wopq (b64_raw buf), st) else abs_value e st false buf
    end.
  Proof.
    intros Hic. destruct drm_not_others as (Hw & Hs & _). unfold abs_value5. destruct buf as [|c0 buf]; [reflexivity|].
    unfold abs_special_attr, abs_special_content, the_buffer_of, is_keyvalue. cbv zeta. rewrite Hic, Hw, HD, Hs. cbn [negb andb].
    destruct par as [[p t o nm|nm]|]; try reflexivity. destruct p; [|reflexivity]. destruct t as [|t]; [reflexivity|].
    repeat (destruct t as [t|t|]; try reflexivity).
  Qed.

  Lemma text_den_drm (first : bool) st par c items st' d me (dst : S.dstate) :
    sub TF st' -> in_cdata st = false -> cur_tag st = (if first then ctag_of par else None) -> dcur_ok first par dst me ->
    tok_drm (negb (e_remove_blanks e)) first par c = true -> abs_text5 e st par c = Some (items, st') ->
    exists evs, D1.den_items (S.mk_denv L tb) d me items dst = Some (evs, dst) /\
                merge_chars evs = merge_chars (tev_drm (negb (e_remove_blanks e)) first par c) /\
                tagcp st' = tagcp st /\ attrcp st' = attrcp st /\ in_cdata st' = false.
  Proof.
    intros Hsub Hic Hc Hdc Hok A. unfold tok_drm in Hok. apply andb_true_iff in Hok as [Hok Hm]. apply andb_true_iff in Hok as [Hnb Hokb].
    apply negb_true_iff in Hnb.
    unfold abs_text5 in A. rewrite (binary_is st par (cur_first_ok first st par Hc)), Hnb, Hic in A. cbn [negb andb] in A. rewrite Hopts in A.
    assert (VAL : forall buf, okb buf = true ->
              match buf with [] => true | b0 :: br => if is_keyvalue par then first && (0 <? len (b64_raw (b0 :: br))) && (len (b64_raw (b0 :: br)) <? 4294967296) else true end = true ->
              match abs_value5 e st false None [] par buf with Some (w, st'0) => Some (items_of w, st'0) | None => None end = Some (items, st') ->
              exists evs, D1.den_items (S.mk_denv L tb) d me items dst = Some (evs, dst) /\
                merge_chars evs = merge_chars (match buf with [] => [] | b0 :: br => if is_keyvalue par then chars (canon_b64 (b0 :: br)) else chars (b0 :: br) end) /\ st' = st).
    { intros buf Hb Hmb. rewrite (abs_value5_drm st par buf Hic). destruct buf as [|x s]; [intros E; injection E as <- <-; exists []; auto|].
      destruct (is_keyvalue par) eqn:KV.
      - intros E; injection E as <- <-. apply andb_true_iff in Hmb as [Hmb Hlt]. apply andb_true_iff in Hmb as [Hf Hne]. subst first.
        unfold is_keyvalue in KV. destruct par as [[p t o nm|nm]|]; try discriminate. destruct p; [|discriminate].
        assert (t = 12) by (destruct t as [|t]; [discriminate|]; repeat (destruct t as [t|t|]; try discriminate); reflexivity). subst t.
        destruct (Hdc eq_refl 0 12 o nm eq_refl) as [Hcur ->].
        exists (chars (canon_b64 (x :: s))). split; [|auto].
        cbn [items_of wopq flat_map app D1.den_items S.den_item S.den_str S.de_lang].
        rewrite (b64_raw_bytes (x :: s)), Hcur.
        assert (Hl : S.u32_okb (Parser.blen (b64_raw (x :: s))) = true) by exact Hlt.
        rewrite Hl. cbn [andb]. rewrite drm_id. cbn [S.opaque_kind N.eqb Pos.eqb orb S.pair_in existsb fst snd andb S.okind_eqb S.spec_opaque].
        unfold S.spec_base64, canon_b64. destruct (b64_raw (x :: s)) eqn:BR; [unfold len in Hne; cbn in Hne; discriminate|].
        now rewrite app_nil_r.
      - destruct (abs_value e st false (x :: s)) as [[w st0]|] eqn:AV; [|discriminate]. intros E; injection E as <- <-.
        destruct (plain_value_den L e HE HV HX TF tb HRES HU32 HREF st _ w st0 d me dst Hsub Hb AV) as (evs & Dn & M & ->).
        exists evs. split; [exact Dn|]. split; [|reflexivity]. rewrite M. now rewrite merge_chars_chars. }
    unfold tev_drm, wv_norm in *.
    destruct (e_remove_blanks e) eqn:R; cbn [negb andb] in *.
    - destruct (only_ws c) eqn:W.
      + injection A as <- <-. exists []. auto.
      + rewrite (okb_cstr _ (okb_strip c Hokb)) in A.
        destruct (VAL (strip_blanks c) (okb_strip c Hokb) Hm A) as (evs & Dn & M & ->). exists evs. auto 6.
    - rewrite (okb_cstr _ Hokb) in A.
      destruct (VAL c Hokb Hm A) as (evs & Dn & M & ->). exists evs. auto 6.
  Qed.
End Drm.

(* the current attribute after the start of an attribute of the fragment, and current_tag is untouched *)
Lemma start_ca L e : e_lang e = to_blang L -> forall st a start vl st1, attr_ok3 L a = true ->
  abs_attr_start e st a = Some (start, vl, st1) ->
  start_cur_attr start st1 = match at_name a with AttrTok p t _ _ => Some (p, t) | AttrLit _ => None end /\ cur_tag st1 = cur_tag st.
Proof.
  intros HE st a start vl st1 Ha AS. unfold abs_attr_start in AS. cbv zeta in AS.
  unfold attr_ok3 in Ha. apply andb_true_iff in Ha as [Hval Ha]. pose proof (okb_cstr _ Hval) as Hc.
  assert (LT : forall nm vl0, (if e_use_strtbl e then
                let '(idx, tbl', tlen') := strtbl_add (strtbl st) (strtbl_len st) (cstr nm) in
                Some (S.AStartLit idx, vl0, set_strtbl st tbl' tlen') else None) = Some (start, vl, st1) ->
              start_cur_attr start st1 = None /\ cur_tag st1 = cur_tag st).
  { intros nm vl0. destruct (e_use_strtbl e); [|discriminate]. destruct (strtbl_add _ _ _) as [[idx t'] l'].
    intros E; injection E as <- _ <-. split; reflexivity. }
  destruct (at_name a) as [page tk nm oval|nm].
  - assert (TK : forall lft, Some (S.AStartTok (if attrcp st =? page then None else Some page) tk, lft, snd (enc_attr_token st tk page)) = Some (start, vl, st1) ->
                 start_cur_attr start st1 = Some (page, tk) /\ cur_tag st1 = cur_tag st).
    { intros lft E; injection E as <- _ <-. cbn [start_cur_attr]. rewrite attr_token_cp. split; [reflexivity|].
      unfold enc_attr_token. destruct (attrcp st =? page); reflexivity. }
    destruct oval as [xv|].
    + destruct (is_prefix xv (cstr (at_value a))) eqn:PX; [exact (TK _ AS)|].
      exfalso. rewrite Hc in PX.
      apply andb_true_iff in Ha as [_ Ha]. destruct (S.lookup_attr L page tk) as [r|]; [|discriminate].
      apply andb_true_iff in Ha as [_ Ha]. destruct (a_value r); [|discriminate].
      apply andb_true_iff in Ha as [_ Ha]. congruence.
    + exact (TK _ AS).
  - apply andb_true_iff in Ha as [_ Hun]. rewrite HE, Hc in AS.
    destruct (get_attr_from_xml (to_blang L) nm (at_value a)); [discriminate|]. exact (LT _ _ AS).
Qed.

(* ================================================================================================================================ *)
(* OTA settings: the VALUE (page 0, token 0x11) of an element that also has NAME="ICON"                                                *)
Definition is_icon_attr (a : attr) : bool := match at_name a with AttrTok 0 17 _ _ => true | _ => false end.
Definition icon_ctx (tag : tagname) (na : list attr) : bool :=
  match tag with TagTok _ _ _ _ => true | TagLit _ => false end &&
  existsb (fun a => beq [78; 65; 77; 69] (attr_xml_name a) && beq [73; 67; 79; 78] (cstr (at_value a))) na.

Definition aok_ota (L : lang) (tag : tagname) (na : list attr) (a : attr) : bool :=
  attr_ok3 L a &&
  (if is_icon_attr a && icon_ctx tag na then
     match at_name a with AttrTok _ _ _ None => true | _ => false end &&
     (0 <? len (b64_raw (at_value a))) && (len (b64_raw (at_value a)) <? 4294967296)
   else true).
Definition acan_ota (tag : tagname) (na : list attr) (a : attr) : bytes :=
  if is_icon_attr a && icon_ctx tag na then canon_b64 (at_value a) else at_value a.

Section Ota.
  Variable L : lang.
  Variable e : env.
  Hypothesis HE : e_lang e = to_blang L.
  Hypothesis HO : (bl_id (e_lang e) =? LANG_OTA_SETTINGS) = true.
  Hypothesis HV : vals_ok L = true.
  Hypothesis HX : l_exts L = None.
  Variable TF : list ste.
  Variable tb : bytes.
  Hypothesis HRES : forall x, In x TF -> okb (s_str x) = true -> S.str_at tb (s_off x) = Some (s_str x).
  Hypothesis HU32 : forall x, In x TF -> S.u32_okb (s_off x) = true.
  Hypothesis HREF : forall x, In x TF -> ref_str TF (s_off x) = s_str x.

  Lemma ota_id : l_id L = 1901.
  Proof. rewrite HE in HO. cbn [to_blang bl_id] in HO. unfold LANG_OTA_SETTINGS in HO. now apply N.eqb_eq in HO. Qed.

  Lemma ota_icon_eq tag st na buf : cur_tag st = ctag_of (Some tag) ->
    enc_ota_icon st na buf = if icon_ctx tag na then Some (enc_opaque (b64_raw buf)) else None.
  Proof.
    intros Hc. unfold enc_ota_icon, icon_ctx. rewrite Hc. destruct tag as [p t o nm|nm]; cbn [ctag_of andb]; [|reflexivity].
    destruct (existsb _ na); reflexivity.
  Qed.

  Lemma special_attr_ota tag st ca na buf : cur_tag st = ctag_of (Some tag) ->
    abs_special_attr e st true ca na buf =
    match ca with
    | None => Some None
    | Some (p, t) => if (p =? 0) && (t =? 17) && icon_ctx tag na then Some (Some (wopq (b64_raw buf))) else None
    end.
  Proof.
    intros Hc. unfold abs_special_attr. cbv zeta. pose proof ota_id as Hid.
    assert (Hb : bl_id (e_lang e) = 1901) by (rewrite HE; cbn [to_blang bl_id]; exact Hid). rewrite Hb.
    unfold LANG_SI10, LANG_EMN10, LANG_OTA_SETTINGS. cbn [N.eqb Pos.eqb].
    destruct ca as [[p t]|]; [|reflexivity]. rewrite (ota_icon_eq tag st na buf Hc).
    destruct p; [|reflexivity]. cbn [N.eqb andb]. destruct t as [|t]; [reflexivity|].
    repeat (destruct t as [t|t|]; try reflexivity). cbn [N.eqb Pos.eqb]. destruct (icon_ctx tag na); reflexivity.
  Qed.

  Lemma den_one_attr_ota tag st na a w st' (dst : S.dstate) :
    sub TF st' -> aok_ota L tag na a = true -> cur_tag st = ctag_of (Some tag) -> in_cdata st = false -> S.ds_attrcp dst = attrcp st ->
    abs_attr5 e st na a = Some (w, st') ->
    exists dst', S.den_attr (S.mk_denv L tb) w dst = Some (attr_event5 (acan_ota tag na) a, dst') /\ S.ds_attrcp dst' = attrcp st' /\
                 S.ds_tagcp dst' = S.ds_tagcp dst /\ S.ds_cur dst' = S.ds_cur dst /\
                 tagcp st' = tagcp st /\ cur_tag st' = cur_tag st /\ in_cdata st' = false.
  Proof.
    intros Hsub Hok Hc Hic Hcp. unfold aok_ota in Hok. apply andb_true_iff in Hok as [Ha Hi].
    unfold attr_event5, acan_ota. destruct (is_icon_attr a && icon_ctx tag na) eqn:IC.
    - (* the icon: token start without prefix, OPAQUE *)
      apply andb_true_iff in Hi as [Hi Hlt]. apply andb_true_iff in Hi as [Hnone Hne].
      apply andb_true_iff in IC as [IA ICX]. unfold is_icon_attr in IA.
      unfold abs_attr5, abs_attr_start, attr_event. cbv zeta.
      unfold attr_ok3 in Ha. apply andb_true_iff in Ha as [Hval Ha]. rewrite (okb_cstr _ Hval).
      destruct (at_name a) as [p t nm oval|nm]; [|discriminate]. destruct oval as [xv|]; [discriminate|]. cbn [fst].
      destruct p; [|discriminate].
      assert (t = 17) by (destruct t as [|t]; [discriminate|]; repeat (destruct t as [t|t|]; try discriminate); reflexivity). subst t.
      apply andb_true_iff in Ha as [Ha Hlk]. apply andb_true_iff in Ha as [Htok Hpage].
      destruct (S.lookup_attr L 0 17) as [r|] eqn:LK; [|discriminate].
      apply andb_true_iff in Hlk as [Hlk Hvv]. apply andb_true_iff in Hlk as [Hlk Hn]. apply andb_true_iff in Hlk as [Hrp Hrt].
      apply N.eqb_eq in Hrp, Hrt. apply beq_eq in Hn. destruct (a_value r) eqn:RV; [discriminate|].
      set (sw := if attrcp st =? 0 then None else Some 0).
      set (st1 := snd (enc_attr_token st 17 0)).
      assert (Hst1 : attrcp st1 = 0 /\ tagcp st1 = tagcp st /\ cur_tag st1 = cur_tag st /\ in_cdata st1 = in_cdata st).
      { subst st1. unfold enc_attr_token. destruct (attrcp st =? 0) eqn:Eq; cbn; [apply N.eqb_eq in Eq|]; auto. }
      destruct Hst1 as (Q1 & Q2 & Q3 & Q4).
      assert (START : exists dst1, S.den_astart (S.mk_denv L tb) (S.AStartTok sw 17) dst = Some (P.AttrTok 0 17 nm, [], dst1) /\
                       S.ds_attrcp dst1 = 0 /\ S.ds_tagcp dst1 = S.ds_tagcp dst /\ S.ds_cur dst1 = S.ds_cur dst).
      { subst sw. rewrite <- Hcp. cbn [S.den_astart]. destruct (S.ds_attrcp dst =? 0) eqn:Eq.
        - apply N.eqb_eq in Eq. exists dst. cbn [S.sw_okb S.apply_sw andb]. rewrite Htok. cbn [S.de_lang].
          rewrite Eq, LK, Hrp, Hrt, Hn, RV. auto.
        - eexists. cbn [S.sw_okb S.apply_sw S.ds_attrcp]. unfold S.is_byte. rewrite Hpage, Htok. cbn [andb].
          cbn [S.de_lang]. rewrite LK, Hrp, Hrt, Hn, RV. split; [reflexivity|]. cbn. auto. }
      destruct START as (dst1 & DS & A1 & B1 & C1).
      unfold abs_value5. cbn [start_cur_attr]. fold st1. rewrite Q1.
      destruct (at_value a) as [|x s] eqn:EV; [vm_compute in Hne; discriminate|].
      rewrite (special_attr_ota tag st1 (Some (0, 17)) na (x :: s) (eq_trans Q3 Hc)). cbn [N.eqb Pos.eqb andb]. rewrite ICX.
      intros E; injection E as <- <-. exists dst1. split; [|rewrite Q1, Q2, Q3, Q4; auto 8].
      unfold S.den_attr, S.den_attr_raw. cbn [S.wa_start S.wa_vals wopq S.den_vals S.den_val S.den_str S.de_lang]. rewrite DS.
      rewrite (b64_raw_bytes (x :: s)).
      replace (S.u32_okb (Parser.blen (b64_raw (x :: s)))) with true by (symmetry; exact Hlt). cbn [andb].
      rewrite ota_id. cbn [N.eqb Pos.eqb]. unfold S.spec_base64, canon_b64.
      destruct (b64_raw (x :: s)) eqn:BR; [unfold len in Hne; cbn in Hne; discriminate|].
      cbn [app]. rewrite app_nil_r. unfold S.is_datetime_attr. destruct (rfc4648 (n :: b)); reflexivity.
    - (* any other attribute: the generic path *)
      intros A5.
      assert (A : abs_attr e st a = Some (w, st')).
      { revert A5. unfold abs_attr5, abs_attr. destruct (abs_attr_start e st a) as [[[start vl] s1]|] eqn:AS; [|auto].
        destruct vl as [v|]; [|auto].
        destruct (start_ca L e HE st a start (Some v) s1 Ha AS) as [Hca Hc1].
        unfold abs_value5, abs_value. destruct v as [|c0 v]; [auto|].
        rewrite (special_attr_ota tag s1 _ na (c0 :: v) (eq_trans Hc1 Hc)), Hca.
        destruct (at_name a) as [p t nm oval|nm] eqn:AN; [|discriminate].
        assert (Z : ((p =? 0) && (t =? 17) && icon_ctx tag na) = false).
        { destruct ((p =? 0) && (t =? 17)) eqn:PT; [|reflexivity]. apply andb_true_iff in PT as [P1 P2]. apply N.eqb_eq in P1, P2. subst p t.
          unfold is_icon_attr in IC. rewrite AN in IC. exact IC. }
        rewrite Z. unfold abs_special_content, the_buffer_of. cbv zeta. cbn [negb andb]. auto. }
      assert (Hnd : match at_name a with AttrTok p t _ _ => S.is_datetime_attr (l_id L) p t = false | AttrLit _ => True end)
        by (destruct (at_name a); [unfold S.is_datetime_attr; rewrite ota_id; reflexivity|exact I]).
      destruct (den_one_attr3 L e HE HV HX TF tb HRES HU32 HREF st a w st' dst Hsub Ha Hcp Hnd A) as (dst' & D & A1 & B1 & C1).
      exists dst'. split; [exact D|]. destruct (abs_attr_inv _ _ _ _ _ A) as [I1 I2].
      rewrite (abs_attr_tagcp _ _ _ _ _ A). repeat split; congruence.
  Qed.

  Lemma den_all_attrs_ota tag l : forall st na ws st' (dst : S.dstate),
    sub TF st' -> forallb (aok_ota L tag na) l = true -> cur_tag st = ctag_of (Some tag) -> in_cdata st = false -> S.ds_attrcp dst = attrcp st ->
    abs_attrs5 e st na l = Some (ws, st') ->
    exists dst', S.den_attrs (S.mk_denv L tb) ws dst = Some (map (attr_event5 (acan_ota tag na)) l, dst') /\
                 S.ds_attrcp dst' = attrcp st' /\ S.ds_tagcp dst' = S.ds_tagcp dst /\ S.ds_cur dst' = S.ds_cur dst /\
                 tagcp st' = tagcp st /\ cur_tag st' = cur_tag st /\ in_cdata st' = false.
  Proof.
    induction l as [|a r IH]; intros st na ws st' dst Hs Hok Hc Hic Hcp; cbn [abs_attrs5 map].
    - intros E; injection E as <- <-. exists dst. cbn. auto 8.
    - cbn [forallb] in Hok. apply andb_true_iff in Hok as [Ha Hr].
      destruct (abs_attr5 e st na a) as [[w st1]|] eqn:A; [|discriminate].
      destruct (abs_attrs5 e st1 na r) as [[ws' st2]|] eqn:R; [|discriminate]. intros E; injection E as <- <-.
      assert (Hs1 : sub TF st1) by (apply (sub_ext _ _ _ (proj1 (abs_attrs5_facts _ _ _ _ _ _ R))); exact Hs).
      destruct (den_one_attr_ota tag st na a w st1 dst Hs1 Ha Hc Hic Hcp A) as (dst1 & D1' & A1 & B1 & C1 & T1 & K1 & I1).
      destruct (IH st1 na ws' st2 dst1 Hs Hr (eq_trans K1 Hc) I1 A1 R) as (dst2 & D2' & A2 & B2 & C2 & T2 & K2 & I2).
      exists dst2. cbn [S.den_attrs]. rewrite D1', D2'. unfold attr_event5 at 1. cbn [fst snd].
      repeat split; congruence.
  Qed.
End Ota.

(* ================================================================================================================================ *)
(* attributes in a language WITH extension tokens (Wireless Village): extension tokens are never looked for in attribute
   values, so the attribute lemmas of the language without its extension table apply, and transfer                               *)
Definition noext_L (L : lang) : lang :=
  mk_lang (l_id L) (l_pub_num L) (l_pub_text L) (l_root L) (l_dtd L) (l_tags L) (l_ns L) (l_attrs L) (l_vals L) None.
Definition noext_lang (l : blang) : blang :=
  mk_blang (bl_id l) (bl_pub_num l) (bl_pub_text l) (bl_tags l) (bl_attrs l) (bl_vals l) None.
Definition noext_env (e : env) : env :=
  mk_env (noext_lang (e_lang e)) (e_use_strtbl e) (e_ignore_empty e) (e_remove_blanks e) (e_version e) (e_anonymous e).

Lemma to_blang_noext L : to_blang (noext_L L) = noext_lang (to_blang L).
Proof. reflexivity. Qed.

Lemma split_value_true_noext e st buf : split_value e st true buf = split_value (noext_env e) st true buf.
Proof. reflexivity. Qed.

Lemma abs_attr5_noext e st na a : abs_attr5 e st na a = abs_attr5 (noext_env e) st na a.
Proof.
  unfold abs_attr5. assert (AS : abs_attr_start e st a = abs_attr_start (noext_env e) st a) by reflexivity. rewrite <- AS.
  destruct (abs_attr_start e st a) as [[[start vl] s1]|]; [|reflexivity]. destruct vl as [v|]; [|reflexivity].
  assert (AV : abs_value5 e s1 true (start_cur_attr start s1) na None v = abs_value5 (noext_env e) s1 true (start_cur_attr start s1) na None v).
  { unfold abs_value5. destruct v as [|c0 v]; [reflexivity|].
    assert (SA : abs_special_attr e s1 true (start_cur_attr start s1) na (c0 :: v) = abs_special_attr (noext_env e) s1 true (start_cur_attr start s1) na (c0 :: v)) by reflexivity.
    rewrite <- SA. destruct (abs_special_attr e s1 true _ na (c0 :: v)) as [[w0|]|]; try reflexivity. }
  now rewrite AV.
Qed.

Lemma abs_attrs5_noext e na l : forall st, abs_attrs5 e st na l = abs_attrs5 (noext_env e) st na l.
Proof.
  induction l as [|a r IH]; intros st; cbn [abs_attrs5]; [reflexivity|]. rewrite <- abs_attr5_noext.
  destruct (abs_attr5 e st na a) as [[w s1]|]; [|reflexivity]. now rewrite IH.
Qed.

(* values without extension items denote the same in both languages *)
Definition noextv (v : S.wval) : bool :=
  match v with S.WValStr (S.WExt _ _) => false | _ => true end.
Definition noexta (a : S.wattr) : bool := forallb noextv (S.wa_vals a).

Lemma den_val_noext L tb v dst : noextv v = true -> S.den_val (S.mk_denv (noext_L L) tb) v dst = S.den_val (S.mk_denv L tb) v dst.
Proof. destruct v as [sw t|s]; [reflexivity|]. destruct s; try reflexivity. discriminate. Qed.

Lemma den_vals_noext L tb vs : forall dst, forallb noextv vs = true -> S.den_vals (S.mk_denv (noext_L L) tb) vs dst = S.den_vals (S.mk_denv L tb) vs dst.
Proof.
  induction vs as [|v r IH]; intros dst H; [reflexivity|]. cbn [forallb] in H. apply andb_true_iff in H as [Hv Hr].
  cbn [S.den_vals]. rewrite (den_val_noext L tb v dst Hv). destruct (S.den_val (S.mk_denv L tb) v dst) as [[b s1]|]; [|reflexivity]. now rewrite IH.
Qed.

Lemma den_attrs_noext L tb ws : forall dst, forallb noexta ws = true -> S.den_attrs (S.mk_denv (noext_L L) tb) ws dst = S.den_attrs (S.mk_denv L tb) ws dst.
Proof.
  induction ws as [|w r IH]; intros dst H; [reflexivity|]. cbn [forallb] in H. apply andb_true_iff in H as [Hw Hr].
  cbn [S.den_attrs]. unfold S.den_attr, S.den_attr_raw.
  assert (DA : S.den_astart (S.mk_denv (noext_L L) tb) (S.wa_start w) dst = S.den_astart (S.mk_denv L tb) (S.wa_start w) dst) by (destruct (S.wa_start w); reflexivity).
  rewrite DA. destruct (S.den_astart (S.mk_denv L tb) (S.wa_start w) dst) as [[[nm pf] s1]|]; [|reflexivity].
  rewrite (den_vals_noext L tb _ s1 Hw). cbn [S.de_lang noext_L l_id].
  destruct (S.den_vals (S.mk_denv L tb) (S.wa_vals w) s1) as [[v s2]|]; [|reflexivity].
  match goal with |- match ?X with _ => _ end = match ?Y with _ => _ end => replace X with Y by reflexivity end.
  destruct (match nm with P.AttrTok p t _ => _ | _ => _ end) as [[[n1 v1] s3]|]; [|reflexivity]. now rewrite IH.
Qed.

(* the attribute values the abstraction produces hold no extension item *)
Lemma abs_velts_noext l : forall st, forallb (fun v => match v with VExt _ => false | _ => true end) l = true ->
  forallb noextv (fst (abs_velts st l)) = true.
Proof.
  induction l as [|v r IH]; intros st H; cbn [abs_velts]; [reflexivity|].
  cbn [forallb] in H. apply andb_true_iff in H as [Hv Hr].
  destruct v as [s|t|p t|off]; try discriminate.
  - specialize (IH st Hr). destruct (abs_velts st r) as [w' st2]. cbn [fst] in *. rewrite forallb_app, IH. destruct (0 <? len s); reflexivity.
  - specialize (IH (snd (enc_attr_token st t p)) Hr). destruct (abs_velts _ r) as [w' st2]. cbn [fst] in *. now rewrite forallb_app, IH.
  - specialize (IH st Hr). destruct (abs_velts st r) as [w' st2]. cbn [fst] in *. now rewrite forallb_app, IH.
Qed.

Definition notext (v : velt) : bool := match v with VExt _ => false | _ => true end.

Lemma split_sweep_notext find mk : notext mk = true ->
  forall fuel l l', split_sweep fuel find mk l = Some l' -> forallb notext l = true -> forallb notext l' = true.
Proof.
  intros Hm. induction fuel as [|f IH]; intros l l'; cbn [split_sweep]; [discriminate|].
  destruct l as [|v r]; [intros H; now injection H as <-|].
  destruct v as [s|t|p t|off]; cbn [forallb notext andb].
  - destruct (find s) as [[idx mlen]|].
    + destruct (split_sweep f find mk _) as [r'|] eqn:Sx; [|discriminate]. intros H Hl; injection H as <-.
      cbn [forallb notext andb]. rewrite Hm. cbn [andb]. apply (IH _ _ Sx).
      destruct (idx + mlen <? len s); cbn [forallb notext andb]; exact Hl.
    + destruct (split_sweep f find mk r) as [r'|] eqn:Sx; [|discriminate]. intros H Hl; injection H as <-.
      cbn [forallb notext andb]. now apply (IH _ _ Sx).
  - intros _ H. discriminate.
  - destruct (split_sweep f find mk r) as [r'|] eqn:Sx; [|discriminate]. intros H Hl; injection H as <-.
    cbn [forallb notext andb]. now apply (IH _ _ Sx).
  - destruct (split_sweep f find mk r) as [r'|] eqn:Sx; [|discriminate]. intros H Hl; injection H as <-.
    cbn [forallb notext andb]. now apply (IH _ _ Sx).
Qed.

Lemma split_value_true_notext e st buf l : split_value e st true buf = Some l -> forallb notext l = true.
Proof.
  unfold split_value. cbv zeta. cbn [negb andb].
  assert (PV : forall rows l0 l1, pass_vals rows l0 = Some l1 -> forallb notext l0 = true -> forallb notext l1 = true).
  { induction rows as [|r rest IH]; intros l0 l1; cbn [pass_vals]; [intros H; now injection H as <-|].
    unfold sweep. destruct (split_sweep _ _ _ l0) as [l2|] eqn:Sx; [|discriminate]. intros H Hl.
    apply (IH _ _ H). eapply split_sweep_notext; [|exact Sx|exact Hl]. reflexivity. }
  assert (PS : forall tbl l0 l1, pass_strtbl tbl l0 = Some l1 -> forallb notext l0 = true -> forallb notext l1 = true).
  { induction tbl as [|x rest IH]; intros l0 l1; cbn [pass_strtbl]; [intros H; now injection H as <-|].
    unfold sweep. destruct (split_sweep _ _ _ l0) as [l2|] eqn:Sx; [|discriminate]. intros H Hl.
    apply (IH _ _ H). eapply split_sweep_notext; [|exact Sx|exact Hl]. reflexivity. }
  destruct (match bl_vals (e_lang e) with Some rows => pass_vals rows [VStr buf] | None => Some [VStr buf] end) as [l1|] eqn:E1; [|discriminate].
  assert (H1 : forallb notext l1 = true).
  { destruct (bl_vals (e_lang e)) as [rows|]; [exact (PV rows _ _ E1 eq_refl)|injection E1 as <-; reflexivity]. }
  destruct (e_use_strtbl e && negb (in_cdata st && false)).
  - intros H. exact (PS _ _ _ H H1).
  - intros H; injection H as <-. exact H1.
Qed.

Lemma special_attr_noext e st ia ca na buf w1 : abs_special_attr e st ia ca na buf = Some (Some w1) -> forallb noextv w1 = true.
Proof.
  unfold abs_special_attr. cbv zeta. destruct ia; [|discriminate].
  destruct (bl_id (e_lang e) =? LANG_SI10).
  - destruct ca as [[p t]|]; [|discriminate]. destruct p; [|discriminate]. destruct ((t =? 10) || (t =? 16)); [|discriminate].
    destruct (dt_payload _); cbn [option_map]; intros E; [injection E as <-; reflexivity|discriminate].
  - destruct (bl_id (e_lang e) =? LANG_EMN10).
    + destruct ca as [[p t]|]; [|discriminate]. destruct p; [|discriminate]. destruct t as [|t]; [discriminate|].
      repeat (destruct t as [t|t|]; try discriminate).
      destruct (dt_payload _); cbn [option_map]; intros E; [injection E as <-; reflexivity|discriminate].
    + destruct (bl_id (e_lang e) =? LANG_OTA_SETTINGS); [|discriminate].
      destruct ca as [[p t]|]; [|discriminate]. destruct p; [|discriminate]. destruct t as [|t]; [discriminate|].
      repeat (destruct t as [t|t|]; try discriminate).
      destruct (enc_ota_icon st na _); [intros E; injection E as <-; reflexivity|discriminate].
Qed.

Lemma abs_attrs5_noexta e na l : forall st ws st', abs_attrs5 e st na l = Some (ws, st') -> forallb noexta ws = true.
Proof.
  induction l as [|a r IH]; intros st ws st'; cbn [abs_attrs5]; [intros E; now injection E as <- _|].
  destruct (abs_attr5 e st na a) as [[w s1]|] eqn:A; [|discriminate].
  destruct (abs_attrs5 e s1 na r) as [[ws' s2]|] eqn:R; [|discriminate]. intros E; injection E as <- _.
  cbn [forallb]. rewrite (IH _ _ _ R), andb_true_r.
  unfold abs_attr5 in A. destruct (abs_attr_start e st a) as [[[start vl] s0]|]; [|discriminate].
  destruct vl as [v|]; [|injection A as <- _; reflexivity].
  destruct (abs_value5 e s0 true _ na None v) as [[w0 s3]|] eqn:AV; [|discriminate]. injection A as <- _.
  unfold noexta. cbn [S.wa_vals]. unfold abs_value5 in AV. destruct v as [|c0 v]; [injection AV as <- _; reflexivity|].
  destruct (abs_special_attr e s0 true _ na (c0 :: v)) as [[w1|]|] eqn:SA; try discriminate.
  - injection AV as <- _. exact (special_attr_noext _ _ _ _ _ _ _ SA).
  - unfold abs_special_content in AV. cbv zeta in AV. cbn [negb andb] in AV.
    destruct (split_value e s0 true _) as [l0|] eqn:SV; [|discriminate].
    unfold the_buffer_of in SV. cbv zeta in SV. cbn [negb andb] in SV.
    pose proof (abs_velts_noext l0 s0 (split_value_true_notext e s0 _ l0 SV)) as H.
    destruct (abs_velts s0 l0) as [w2 s4]. injection AV as <- _. exact H.
Qed.
