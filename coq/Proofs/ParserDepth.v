(* C01 (parser core) — nesting: the events of a successful parse are balanced and never nest deeper than
   WBXML_MAX_NESTING_DEPTH + 1 = 1001 elements (the root plus 1000 levels); an element start met at nesting 1000 is
   refused with NESTING_TOO_DEEP. *)
From Coq Require Import String Ascii.
From Coq Require Import List NArith ZArith Lia Bool ZifyBool ZifyN.
From Wbxml Require Import Base.Bits Model.Codec Model.TablesDefs Model.Parser Proofs.ParserTotal.
Import ListNotations.
Local Open Scope N_scope.

Definition flat (e : event) : Prop :=
  match e with EvStartElt _ _ | EvEndElt _ => False | _ => True end.

(* bal d evs: start/end element events are properly nested, at most d levels deep *)
Inductive bal : nat -> list event -> Prop :=
| bal_nil d : bal d []
| bal_flat d e r : flat e -> bal d r -> bal d (e :: r)
| bal_elt d t a inner r : bal d inner -> bal (S d) r -> bal (S d) (EvStartElt t a :: inner ++ EvEndElt t :: r).

Lemma bal_mono d evs : bal d evs -> forall d', (d <= d')%nat -> bal d' evs.
Proof.
  induction 1 as [d|d e r Hf Hr IH|d t a inner r Hi IHi Hr IHr]; intros d' Hd.
  - constructor.
  - constructor; [exact Hf|apply IH; exact Hd].
  - destruct d' as [|d']; [lia|]. constructor; [apply IHi; lia|apply IHr; lia].
Qed.

Lemma bal_app d a : bal d a -> forall b, bal d b -> bal d (a ++ b).
Proof.
  induction 1 as [d|d e r Hf Hr IH|d t x inner r Hi IHi Hr IHr]; intros b Hb; cbn [app].
  - exact Hb.
  - constructor; [exact Hf|apply IH; exact Hb].
  - rewrite <- app_assoc. cbn [app]. constructor; [exact Hi|apply IHr; exact Hb].
Qed.

(* the running depth while walking the events, and the maximum reached *)
Fixpoint depth_walk (evs : list event) (cur maxd : nat) : nat * nat :=
  match evs with
  | [] => (cur, maxd)
  | EvStartElt _ _ :: r => depth_walk r (S cur) (Nat.max maxd (S cur))
  | EvEndElt _ :: r => depth_walk r (pred cur) maxd
  | _ :: r => depth_walk r cur maxd
  end.
Definition max_depth (evs : list event) : nat := snd (depth_walk evs 0 0).

Lemma depth_walk_app a b cur m :
  depth_walk (a ++ b) cur m = let '(c, m') := depth_walk a cur m in depth_walk b c m'.
Proof.
  revert cur m. induction a as [|e a IH]; intros cur m; cbn [app depth_walk]; [reflexivity|].
  destruct e; apply IH.
Qed.

Lemma bal_depth d evs : bal d evs -> forall cur m,
  fst (depth_walk evs cur m) = cur /\ (snd (depth_walk evs cur m) <= Nat.max m (cur + d))%nat.
Proof.
  induction 1 as [d|d e r Hf Hr IH|d t a inner r Hi IHi Hr IHr]; intros cur m.
  - cbn. split; [reflexivity|lia].
  - destruct e; cbn [flat] in Hf; try contradiction; cbn [depth_walk]; apply IH.
  - cbn [depth_walk]. rewrite depth_walk_app.
    destruct (IHi (S cur) (Nat.max m (S cur))) as [E1 L1].
    destruct (depth_walk inner (S cur) (Nat.max m (S cur))) as [c m'] eqn:Ew. cbn [fst snd] in E1, L1. subst c.
    cbn [depth_walk pred]. destruct (IHr cur m') as [E2 L2]. split; [exact E2|lia].
Qed.

Lemma bal_max_depth d evs : bal d evs -> (max_depth evs <= d)%nat.
Proof. intros H. unfold max_depth. destruct (bal_depth d evs H 0%nat 0%nat) as [_ L]. lia. Qed.

(* ---- the events of each parser function ---- *)

Lemma chars_event_bal d o : bal d (chars_event o).
Proof. destruct o as [[|b r]|]; cbn; repeat constructor. Qed.

Ltac cb := first [apply chars_event_bal
                 | match goal with |- bal _ (match ?x with _ => _ end) => destruct x; repeat constructor end].

Lemma parse_pi_bal d fuel env st evs st' : parse_pi fuel env st = POk (evs, st') -> bal d evs.
Proof.
  unfold parse_pi. destruct (parse_attr_start env _) as [[[n s] st1]|e|]; try discriminate.
  destruct (pi_values_loop fuel env st1 _) as [[v st2]|e|]; try discriminate.
  intros H. injection H as <- _. repeat constructor.
Qed.

Definition dN (n : N) : nat := N.to_nat (1000 - n).

Lemma content_bal fuel env n pelt st evs st' :
  (forall e s, pelt st = POk (e, s) -> n < 1000 -> bal (dN n) e) ->
  parse_content fuel env n pelt st = POk (evs, st') -> bal (dN n) evs.
Proof.
  intros Hp. unfold parse_content. cbn zeta. destruct (s_rest st) as [|b0 r0]; [discriminate|].
  destruct (is_extension _).
  { destruct (parse_extension env TagSpace st) as [[v s1]|e|]; try discriminate. intros H. injection H as <- _. cb. }
  destruct (is_token _ 2).
  { destruct (parse_entity _) as [[s r1]|e|]; try discriminate. intros H. injection H as <- _. cb. }
  destruct (is_string _).
  { destruct (parse_string env _) as [[s r1]|e|]; try discriminate. intros H. injection H as <- _. cb. }
  destruct (is_token _ 195).
  { destruct (parse_opaque _) as [[dd r1]|e|]; try discriminate.
    destruct (decode_opaque_content env _ dd) as [d'|e|]; try discriminate. intros H. injection H as <- _. cb. }
  destruct (is_token _ 67); [apply parse_pi_bal|].
  destruct (is_token _ 0).
  { destruct (parse_switch_page TagSpace st) as [s1|e|]; try discriminate. intros H. injection H as <- _. constructor. }
  destruct (MAX_NESTING_DEPTH <=? n) eqn:E; [discriminate|]. intros H. apply (Hp _ _ H). unfold MAX_NESTING_DEPTH in E. lia.
Qed.

Lemma element_with_bal d fuel env cloop st evs st' :
  (forall s e s', cloop s = POk (e, s') -> bal d e) ->
  parse_element_with fuel env cloop st = POk (evs, st') -> bal (S d) evs.
Proof.
  intros Hc. unfold parse_element_with.
  destruct (opt_switch_page TagSpace st) as [st0|e|]; try discriminate.
  destruct (parse_stag env st0) as [[[tag elt] r]|e|]; try discriminate. cbn zeta.
  destruct (if N.land tag 128 =? 128 then _ else _) as [[attrs st2]|e|]; try discriminate.
  destruct (N.land tag 64 =? 64).
  - destruct (cloop st2) as [[e s3]|e|] eqn:Ec; try discriminate. intros H. injection H as <- _.
    change (EvStartElt elt attrs :: e ++ [EvEndElt elt]) with (EvStartElt elt attrs :: e ++ EvEndElt elt :: []).
    constructor; [apply (Hc _ _ _ Ec)|constructor].
  - intros H. injection H as <- _.
    change [EvStartElt elt attrs; EvEndElt elt] with (EvStartElt elt attrs :: [] ++ EvEndElt elt :: []).
    constructor; constructor.
Qed.

Lemma content_loop_bal fuel : forall env n st evs st', n <= 1000 ->
  content_loop fuel env n st = POk (evs, st') -> bal (dN n) evs.
Proof.
  induction fuel as [|f IH]; intros env n st evs st' Hn; cbn [content_loop]; [discriminate|].
  destruct (is_token (s_rest st) 1); [intros H; injection H as <- _; constructor|].
  destruct (parse_content f env n _ st) as [[e1 st1]|e|] eqn:E1; try discriminate.
  destruct (content_loop f env n st1) as [[e2 st2]|e|] eqn:E2; try discriminate.
  intros H. injection H as <- _. apply bal_app.
  - apply (content_bal f env n (parse_element_with f env (content_loop f env (n + 1))) st e1 st1); [|exact E1].
    intros e s He Hlt.
    replace (dN n) with (S (dN (n + 1))) by (unfold dN; lia).
    apply (element_with_bal _ f env (content_loop f env (n + 1)) st e s); [|exact He].
    intros s0 e0 s0' Hc. apply (IH env (n + 1) s0 e0 s0'); [lia|exact Hc].
  - apply (IH env n st1 e2 st2 Hn E2).
Qed.

Lemma body_pi_loop_bal d fuel : forall env st evs st', body_pi_loop fuel env st = POk (evs, st') -> bal d evs.
Proof.
  induction fuel as [|f IH]; intros env st evs st'; cbn [body_pi_loop]; [discriminate|].
  destruct (is_token (s_rest st) 67); [|intros H; injection H as <- _; constructor].
  destruct (parse_pi f env st) as [[e1 st1]|e|] eqn:E1; try discriminate.
  destruct (body_pi_loop f env st1) as [[e2 st2]|e|] eqn:E2; try discriminate.
  intros H. injection H as <- _. apply bal_app; [apply (parse_pi_bal d f env st e1 st1 E1)|apply (IH env st1 e2 st2 E2)].
Qed.

(* (c) a successful parse nests at most 1001 elements deep *)
Theorem parse_depth tbl forced meta fuel bs evs :
  parse_with tbl forced meta fuel bs = POk evs -> bal 1001 evs /\ (max_depth evs <= 1001)%nat.
Proof.
  intros H. assert (Hb : bal 1001 evs); [|split; [exact Hb|apply bal_max_depth; exact Hb]].
  revert H. unfold parse_with. destruct bs as [|b0 bs0]; [discriminate|].
  destruct (parse_uint8 _) as [[version r0]|e|]; try discriminate.
  destruct (parse_publicid r0) as [[[pubid pubidx] r1]|e|]; try discriminate.
  destruct (if version =? 0 then _ else _) as [[charset r2]|e|]; try discriminate.
  destruct (parse_strtbl r2) as [[[strtbl strtbl_len] r3]|e|]; try discriminate.
  destruct (check_public_id _ _ _ _ _ _ _) as [l|]; try discriminate.
  destruct (parse_body _ _ _) as [[body st']|e|] eqn:Eb; try discriminate.
  intros H. injection H as <-.
  constructor; [exact I|]. apply bal_app; [|repeat constructor].
  revert Eb. unfold parse_body.
  destruct (body_pi_loop _ _ _) as [[e1 st1]|e|] eqn:E1; try discriminate.
  destruct (parse_element _ _ st1) as [[e2 st2]|e|] eqn:E2; try discriminate.
  destruct (body_pi_loop _ _ st2) as [[e3 st3]|e|] eqn:E3; try discriminate.
  intros H. injection H as <- _.
  apply bal_app; [apply (body_pi_loop_bal _ _ _ _ _ _ E1)|].
  apply bal_app; [|apply (body_pi_loop_bal _ _ _ _ _ _ E3)].
  unfold parse_element in E2.
  apply (element_with_bal 1000 _ _ _ _ _ _) in E2; [exact E2|].
  intros s e s' Hc. apply (content_loop_bal _ _ 0 s e s') in Hc; [exact Hc|lia].
Qed.

(* an element start met when 1000 elements are already open below the root is refused *)
Theorem nesting_refused fuel env n pelt st : MAX_NESTING_DEPTH <= n ->
  s_rest st <> [] -> is_extension (s_rest st) = false -> is_token (s_rest st) 2 = false ->
  is_string (s_rest st) = false -> is_token (s_rest st) 195 = false -> is_token (s_rest st) 67 = false ->
  is_token (s_rest st) 0 = false ->
  parse_content fuel env n pelt st = PErr PE_NESTING_TOO_DEEP.
Proof.
  intros Hn Hne H1 H2 H3 H4 H5 H6. unfold parse_content. cbn zeta.
  destruct (s_rest st) as [|b r] eqn:E; [congruence|]. rewrite H1, H2, H3, H4, H5, H6.
  replace (MAX_NESTING_DEPTH <=? n) with true by lia. reflexivity.
Qed.
