(* C05 / C07 (XML half) — lemmas about Model/EncXml.v (the generator) and Model/XmlRead.v (the reader). *)
From Coq Require Import List NArith Arith Lia Bool.
From Wbxml Require Import Model.Codec Model.EncXml Model.XmlRead.
Import ListNotations.
Local Open Scope N_scope.

Arguments N.add : simpl never.
Arguments N.mul : simpl never.
Arguments N.sub : simpl never.

(* ------------------------------------------------------------------ *)
(* 1. escaping                                                         *)

Lemma esc_char_cases m c :
  (c = 60 /\ esc_char m c = s_lt) \/ (c = 62 /\ esc_char m c = s_gt) \/ (c = 38 /\ esc_char m c = s_amp) \/
  (c = 34 /\ esc_char m c = s_quot) \/ (c = 39 /\ esc_char m c = s_apos) \/
  (m = true /\ c = 13 /\ esc_char m c = s_cr) \/ (m = true /\ c = 10 /\ esc_char m c = s_lf) \/
  (m = true /\ c = 9 /\ esc_char m c = s_tab) \/
  (c <> 60 /\ c <> 62 /\ c <> 38 /\ c <> 34 /\ c <> 39 /\ (m = true -> c <> 13 /\ c <> 10 /\ c <> 9) /\ esc_char m c = [c]).
Proof.
  unfold esc_char.
  destruct (c =? 60) eqn:E1; [apply N.eqb_eq in E1; auto|].
  destruct (c =? 62) eqn:E2; [apply N.eqb_eq in E2; auto 6|].
  destruct (c =? 38) eqn:E3; [apply N.eqb_eq in E3; auto 6|].
  destruct (c =? 34) eqn:E4; [apply N.eqb_eq in E4; auto 6|].
  destruct (c =? 39) eqn:E5; [apply N.eqb_eq in E5; auto 8|].
  apply N.eqb_neq in E1, E2, E3, E4, E5.
  destruct (c =? 13) eqn:E6; [apply N.eqb_eq in E6; destruct m; [auto 10|]|].
  { do 8 right. repeat split; auto; try discriminate. }
  destruct (c =? 10) eqn:E7; [apply N.eqb_eq in E7; destruct m; [auto 12|]|].
  { do 8 right. repeat split; auto; try discriminate. }
  destruct (c =? 9) eqn:E8; [apply N.eqb_eq in E8; destruct m; [auto 14|]|].
  { do 8 right. repeat split; auto; try discriminate. }
  apply N.eqb_neq in E6, E7, E8.
  do 8 right. repeat split; auto.
Qed.

Lemma unesc_plain_other c r :
  c <> 38 -> c <> 60 -> unesc (c :: r) UPlain = option_map (cons c) (unesc r UPlain).
Proof.
  intros A B. cbn [unesc].
  replace (c =? 38) with false by (symmetry; apply N.eqb_neq; auto).
  replace (c =? 60) with false by (symmetry; apply N.eqb_neq; auto). reflexivity.
Qed.

(* one escaped character is read back as that character *)
Lemma unesc_esc_char m c r :
  unesc (esc_char m c ++ r) UPlain = option_map (cons c) (unesc r UPlain).
Proof.
  destruct (esc_char_cases m c) as [[-> ->]|[[-> ->]|[[-> ->]|[[-> ->]|[[-> ->]|[[_ [-> ->]]|[[_ [-> ->]]|[[_ [-> ->]]|H]]]]]]]];
    try reflexivity.
  destruct H as (A & B & C & D & E & F & ->). cbn [app]. apply unesc_plain_other; auto.
Qed.

(* unescape (escape m s) = s, for every byte string and both modes *)
Lemma unescape_escape_app m s r :
  unesc (escape m s ++ r) UPlain = option_map (app s) (unesc r UPlain).
Proof.
  induction s as [|c s IH]; cbn [escape flat_map app].
  - destruct (unesc r UPlain); reflexivity.
  - rewrite <- app_assoc. rewrite unesc_esc_char. unfold escape in IH. rewrite IH.
    destruct (unesc r UPlain); reflexivity.
Qed.

Lemma unescape_escape m s : unescape (escape m s) = Some s.
Proof.
  unfold unescape. rewrite <- (app_nil_r (escape m s)). rewrite unescape_escape_app. cbn. now rewrite app_nil_r.
Qed.

(* the escaped text contains no raw less-than, greater-than, double quote or apostrophe *)
Definition no_byte (b : N) (s : bytes) : bool := forallb (fun c => negb (c =? b)) s.

Lemma no_byte_app b x y : no_byte b (x ++ y) = no_byte b x && no_byte b y.
Proof. apply forallb_app. Qed.

Lemma escape_no_raw m s :
  no_byte 60 (escape m s) = true /\ no_byte 62 (escape m s) = true /\ no_byte 34 (escape m s) = true /\
  no_byte 39 (escape m s) = true.
Proof.
  induction s as [|c s IH]; [repeat split; reflexivity|].
  cbn [escape flat_map]. rewrite !no_byte_app. fold (escape m s).
  destruct IH as (I1 & I2 & I3 & I4). rewrite I1, I2, I3, I4, !andb_true_r.
  destruct (esc_char_cases m c) as [[-> ->]|[[-> ->]|[[-> ->]|[[-> ->]|[[-> ->]|[[_ [-> ->]]|[[_ [-> ->]]|[[_ [-> ->]]|H]]]]]]]];
    try (repeat split; reflexivity).
  destruct H as (A & B & C & D & E & F & ->). unfold no_byte. cbn [forallb]. rewrite !andb_true_r.
  repeat split; apply negb_true_iff, N.eqb_neq; auto.
Qed.

(* every ampersand of the escaped text starts one of the eight references the generator writes *)
Fixpoint amp_ok (s : bytes) : bool :=
  match s with
  | [] => true
  | c :: r =>
    (if c =? 38 then
       match r with
       | 108 :: 116 :: 59 :: _ => true
       | 103 :: 116 :: 59 :: _ => true
       | 97 :: 109 :: 112 :: 59 :: _ => true
       | 113 :: 117 :: 111 :: 116 :: 59 :: _ => true
       | 97 :: 112 :: 111 :: 115 :: 59 :: _ => true
       | 35 :: 49 :: 51 :: 59 :: _ => true
       | 35 :: 49 :: 48 :: 59 :: _ => true
       | 35 :: 57 :: 59 :: _ => true
       | _ => false
       end
     else true) && amp_ok r
  end.

Lemma escape_amp_ok m s : amp_ok (escape m s) = true.
Proof.
  induction s as [|c s IH]; [reflexivity|].
  cbn [escape flat_map]. fold (escape m s).
  destruct (esc_char_cases m c) as [[-> ->]|[[-> ->]|[[-> ->]|[[-> ->]|[[-> ->]|[[_ [-> ->]]|[[_ [-> ->]]|[[_ [-> ->]]|H]]]]]]]];
    try (cbn; exact IH).
  destruct H as (A & B & C & D & E & F & ->). cbn [app amp_ok].
  replace (c =? 38) with false by (symmetry; apply N.eqb_neq; auto). exact IH.
Qed.

(* canonical generation: no raw CR, LF or TAB is written; they come back exactly through the references *)
Lemma escape_canonical_no_raw_ws s :
  no_byte 13 (escape true s) = true /\ no_byte 10 (escape true s) = true /\ no_byte 9 (escape true s) = true.
Proof.
  induction s as [|c s IH]; [repeat split; reflexivity|].
  cbn [escape flat_map]. rewrite !no_byte_app. fold (escape true s).
  destruct IH as (I1 & I2 & I3). rewrite I1, I2, I3, !andb_true_r.
  destruct (esc_char_cases true c) as [[-> ->]|[[-> ->]|[[-> ->]|[[-> ->]|[[-> ->]|[[_ [-> ->]]|[[_ [-> ->]]|[[_ [-> ->]]|H]]]]]]]];
    try (repeat split; reflexivity).
  destruct H as (A & B & C & D & E & F & ->). destruct (F eq_refl) as (F1 & F2 & F3).
  unfold no_byte. cbn [forallb]. rewrite !andb_true_r.
  repeat split; apply negb_true_iff, N.eqb_neq; auto.
Qed.

(* ------------------------------------------------------------------ *)
(* 2. specification: the infoset a tree denotes                        *)

Definition s_xmlns_name : bytes := [120; 109; 108; 110; 115].   (* "xmlns" *)

Definition push_item (acc : list xitem) (it : xitem) : list xitem :=
  match it with XT t => push_text t acc | e => e :: acc end.

(* adjacent character data is one text; empty text is nothing *)
Definition merge_items (l : list xitem) : list xitem := rev (fold_left push_item l []).

(* attribute value as an XML reader delivers it: exact in canonical generation (TAB, LF, CR are written as
   references), otherwise subject to attribute-value normalisation (literal TAB / LF become a space) *)
Definition spec_attr_value (o : opts) (a : attr) : bytes :=
  if is_canonical o then attr_value_bytes a else attr_ws (attr_value_bytes a).

(* the namespace declaration of an element: the entry of the element's code page, when the page differs from
   the parent's (or there is no parent) *)
Definition spec_ns (l : xlang) (parent : pinfo) (nm : tname) : list (bytes * bytes) :=
  match xl_ns l, nm with
  | Some nst, TTok r => if ns_wanted parent nm then
                  match get_xmlns nst (tr_page r) with Some ns => [(s_xmlns_name, ns)] | None => [] end
                else []
  | _, _ => []
  end.

Definition spec_attrs (l : xlang) (o : opts) (parent : pinfo) (nm : tname) (attrs : list attr) : list (bytes * bytes) :=
  spec_ns l parent nm ++
  (if xl_has_attrs l then map (fun a => (aname_bytes (at_name a), spec_attr_value o a)) attrs else []).

Definition cur_of (nm : tname) : option trow := match nm with TTok r => Some r | TLit _ => None end.

(* character data of a text node outside CDATA: the white-space policy of the options, the documented SyncML
   <Type> rewrite, base64 for binary-flagged elements.  None = the conversion fails (base64 of nothing). *)
Definition spec_text (l : xlang) (o : opts) (parent : pinfo) (cur : option trow) (s : bytes) : option bytes :=
  match text_policy o parent (mk_est 0 false false cur) s with
  | None => Some []
  | Some c =>
    let tmp := syncml_type_rewrite l cur c in
    if tag_is_binary (text_tag (mk_est 0 false false cur) parent) then b64_enc tmp else Some tmp
  end.

Definition info_list (f : option trow -> node -> option (list xitem)) : option trow -> list node -> option (list xitem) :=
  fix go (cur : option trow) (ns : list node) : option (list xitem) :=
    match ns with
    | [] => Some []
    | n :: r =>
      match f cur n, go None r with
      | Some a, Some b => Some (a ++ b)
      | _, _ => None
      end
    end.

(* elements and text only (the first layer); CDATA / embedded documents: see the later sections *)
Fixpoint info_node (l : xlang) (o : opts) (parent : pinfo) (cur : option trow) (n : node) {struct n} : option (list xitem) :=
  match n with
  | Elt nm attrs ch =>
    match info_list (info_node l o (pinfo_below parent nm)) (cur_of nm) ch with
    | Some items => Some [XE (tname_bytes nm) (spec_attrs l o parent nm attrs) (merge_items items)]
    | None => None
    end
  | Text s => option_map (fun t => [XT t]) (spec_text l o parent cur s)
  | _ => None
  end.

(* ------------------------------------------------------------------ *)
(* hypotheses of the property as boolean predicates                    *)

Fixpoint nodup_bytes (l : list bytes) : bool :=
  match l with
  | [] => true
  | x :: r => negb (existsb (bytes_eqb x) r) && nodup_bytes r
  end.

(* character data: XML characters (byte level), and no raw CR unless generation is canonical (a literal CR is
   subject to the reader's end-of-line handling) *)
Definition chars_ok (o : opts) (s : bytes) : bool :=
  forallb is_xml_byte s && (is_canonical o || no_byte 13 s).

Definition attr_ok (o : opts) (a : attr) : bool :=
  is_xml_name (aname_bytes (at_name a)) && chars_ok o (attr_value_bytes a).

(* strings of the language entry that are written without escaping *)
Definition raw_ok (s : bytes) : bool :=
  forallb is_xml_byte s && no_byte 34 s && no_byte 38 s && no_byte 60 s && no_byte 13 s && no_byte 10 s && no_byte 9 s.

Definition lang_ok (l : xlang) : bool :=
  is_xml_name (xl_root l) && raw_ok (xl_dtd l) &&
  (match xl_pub l with Some p => raw_ok p | None => true end) &&
  (match xl_ns l with Some t => forallb (fun r => raw_ok (nr_name r)) t | None => true end).

Fixpoint node_ok (l : xlang) (o : opts) (parent : pinfo) (cur : option trow) (n : node) {struct n} : bool :=
  match n with
  | Elt nm attrs ch =>
    is_xml_name (tname_bytes nm) &&
    forallb (attr_ok o) attrs &&
    nodup_bytes (map fst (spec_attrs l o parent nm attrs)) &&
    (fix go (cur : option trow) (ns : list node) : bool :=
       match ns with
       | [] => true
       | x :: r => node_ok l o (pinfo_below parent nm) cur x && go None r
       end) (cur_of nm) ch
  | Text s => chars_ok o s && negb (tag_is_binary (text_tag (mk_est 0 false false cur) parent))
  | _ => false
  end.

Definition nodes_ok (l : xlang) (o : opts) (parent : pinfo) : option trow -> list node -> bool :=
  fix go (cur : option trow) (ns : list node) : bool :=
    match ns with
    | [] => true
    | x :: r => node_ok l o parent cur x && go None r
    end.

(* ------------------------------------------------------------------ *)
(* 3. leaf parsers on generated text                                   *)

Lemma span_app f x c r :
  forallb f x = true -> f c = false -> span f (x ++ c :: r) = (x, c :: r).
Proof.
  intros H Hc. induction x as [|a x IH]; cbn [span app].
  - now rewrite Hc.
  - cbn [forallb] in H. apply andb_true_iff in H as [Ha Hx]. rewrite Ha, (IH Hx). reflexivity.
Qed.

Lemma span_all f x : forallb f x = true -> span f x = (x, []).
Proof.
  intros H. induction x as [|a x IH]; cbn [span]; [reflexivity|].
  cbn [forallb] in H. apply andb_true_iff in H as [Ha Hx]. now rewrite Ha, (IH Hx).
Qed.

Lemma expect_app p s : expect p (p ++ s) = Some s.
Proof. induction p as [|a p IH]; cbn [expect app]; [reflexivity|]. now rewrite N.eqb_refl. Qed.

Lemma p_name_app n c r :
  is_xml_name n = true -> is_name_char c = false -> p_name (n ++ c :: r) = Some (n, c :: r).
Proof.
  intros H Hc. destruct n as [|a n]; [discriminate|]. cbn [is_xml_name] in H.
  apply andb_true_iff in H as [Ha Hn]. cbn [p_name app]. rewrite Ha.
  now rewrite (span_app is_name_char n c r Hn Hc).
Qed.

Lemma bytes_eqb_refl a : bytes_eqb a a = true.
Proof. induction a as [|x a IH]; cbn; [reflexivity|]. now rewrite N.eqb_refl. Qed.

Lemma bytes_eqb_eq a b : bytes_eqb a b = true -> a = b.
Proof.
  revert b. induction a as [|x a IH]; destruct b as [|y b]; cbn; try discriminate; auto.
  intros H. apply andb_true_iff in H as [H1 H2]. apply N.eqb_eq in H1. f_equal; auto.
Qed.

(* a piece of raw character data and the text it denotes *)
Record run_ok (run t : bytes) : Prop := mk_run_ok {
  ro_bytes : forallb is_xml_byte run = true;
  ro_lt : no_byte 60 run = true;
  ro_gt : no_byte 62 run = true;
  ro_cr : no_byte 13 run = true;
  ro_unesc : forall r, unesc (run ++ r) UPlain = option_map (app t) (unesc r UPlain)
}.

Lemma run_ok_nil : run_ok [] [].
Proof. constructor; try reflexivity. intros r. cbn. destruct (unesc r UPlain); reflexivity. Qed.

Lemma run_ok_app a ta b tb : run_ok a ta -> run_ok b tb -> run_ok (a ++ b) (ta ++ tb).
Proof.
  intros [A1 A2 A3 A4 A5] [B1 B2 B3 B4 B5]. constructor.
  - rewrite forallb_app, A1, B1. reflexivity.
  - rewrite no_byte_app, A2, B2. reflexivity.
  - rewrite no_byte_app, A3, B3. reflexivity.
  - rewrite no_byte_app, A4, B4. reflexivity.
  - intros r. rewrite <- app_assoc, A5, B5. destruct (unesc r UPlain); cbn; [now rewrite app_assoc|reflexivity].
Qed.

Lemma norm_eol_id s : no_byte 13 s = true -> norm_eol s = s.
Proof.
  induction s as [|c s IH]; [reflexivity|]. unfold no_byte. cbn [forallb norm_eol]. intros H.
  apply andb_true_iff in H as [H1 H2]. apply negb_true_iff in H1. rewrite H1. f_equal. apply IH. exact H2.
Qed.

Lemma has_cdata_end_no_gt s : no_byte 62 s = true -> has_cdata_end s = false.
Proof.
  induction s as [|a s IH]; [reflexivity|]. unfold no_byte. cbn [forallb has_cdata_end]. intros H.
  apply andb_true_iff in H as [H1 H2]. rewrite (IH H2), orb_false_r.
  destruct s as [|b [|c s']]; try reflexivity.
  unfold no_byte in H2. cbn [forallb] in H2. apply andb_true_iff in H2 as [_ H3].
  apply andb_true_iff in H3 as [H3 _]. apply negb_true_iff in H3. rewrite H3, andb_false_r. reflexivity.
Qed.

Lemma no_byte_forallb_neg b s : no_byte b s = true -> forallb (fun c => negb (c =? b)) s = true.
Proof. auto. Qed.

Lemma p_chardata_run run t r :
  run_ok run t -> p_chardata (run ++ 60 :: r) = Some (t, 60 :: r).
Proof.
  intros [A1 A2 A3 A4 A5]. unfold p_chardata.
  rewrite (span_app (fun c => negb (c =? 60)) run 60 r A2 eq_refl).
  rewrite A1, (has_cdata_end_no_gt _ A3). cbn [andb negb].
  rewrite (norm_eol_id _ A4). unfold unescape.
  rewrite <- (app_nil_r run), A5. cbn. now rewrite app_nil_r.
Qed.

(* escaped text is such a run *)
Lemma esc_char_xml_byte m c : is_xml_byte c = true -> forallb is_xml_byte (esc_char m c) = true.
Proof.
  intros H.
  destruct (esc_char_cases m c) as [[-> ->]|[[-> ->]|[[-> ->]|[[-> ->]|[[-> ->]|[[_ [-> ->]]|[[_ [-> ->]]|[[_ [-> ->]]|H']]]]]]]];
    try reflexivity.
  destruct H' as (_ & _ & _ & _ & _ & _ & ->). cbn. now rewrite H.
Qed.

Lemma escape_xml_bytes m s : forallb is_xml_byte s = true -> forallb is_xml_byte (escape m s) = true.
Proof.
  induction s as [|c s IH]; [reflexivity|]. cbn [forallb escape flat_map]. intros H.
  apply andb_true_iff in H as [H1 H2]. rewrite forallb_app, (esc_char_xml_byte m c H1). apply IH, H2.
Qed.

Lemma escape_false_no_cr s : no_byte 13 s = true -> no_byte 13 (escape false s) = true.
Proof.
  induction s as [|c s IH]; [reflexivity|]. unfold no_byte at 1. cbn [forallb escape flat_map]. intros H.
  apply andb_true_iff in H as [H1 H2]. rewrite no_byte_app. fold (escape false s). rewrite (IH H2), andb_true_r.
  destruct (esc_char_cases false c) as [[-> ->]|[[-> ->]|[[-> ->]|[[-> ->]|[[-> ->]|[[? _]|[[? _]|[[? _]|H']]]]]]]];
    try reflexivity; try discriminate.
  destruct H' as (_ & _ & _ & _ & _ & _ & ->). unfold no_byte. cbn. now rewrite H1.
Qed.

Lemma escape_run_ok o s : chars_ok o s = true -> run_ok (escape (is_canonical o) s) s.
Proof.
  unfold chars_ok. intros H. apply andb_true_iff in H as [H1 H2].
  destruct (escape_no_raw (is_canonical o) s) as (N1 & N2 & _ & _).
  constructor; auto.
  - now apply escape_xml_bytes.
  - destruct (is_canonical o) eqn:C.
    + apply (escape_canonical_no_raw_ws s).
    + cbn in H2. now apply escape_false_no_cr.
  - intros r. apply unescape_escape_app.
Qed.

(* attribute values *)
Record aval_ok (raw v : bytes) : Prop := mk_aval_ok {
  av_bytes : forallb is_xml_byte raw = true;
  av_quote : no_byte 34 raw = true;
  av_cr : no_byte 13 raw = true;
  av_unesc : unescape (attr_ws raw) = Some v
}.

Lemma p_attvalue_ok raw v r : aval_ok raw v -> p_attvalue (raw ++ 34 :: r) = Some (v, r).
Proof.
  intros [A1 A2 A3 A4]. unfold p_attvalue.
  rewrite (span_app (fun c => negb (c =? 34)) raw 34 r A2 eq_refl).
  rewrite A1, (norm_eol_id _ A3), A4. reflexivity.
Qed.

Lemma attr_ws_id s : no_byte 13 s = true -> no_byte 10 s = true -> no_byte 9 s = true -> attr_ws s = s.
Proof.
  unfold no_byte, attr_ws. induction s as [|c s IH]; [reflexivity|]. cbn [forallb map]. intros H1 H2 H3.
  apply andb_true_iff in H1 as [A1 B1]. apply andb_true_iff in H2 as [A2 B2]. apply andb_true_iff in H3 as [A3 B3].
  rewrite (IH B1 B2 B3). f_equal. unfold is_ws.
  apply negb_true_iff in A1, A2, A3. rewrite A1, A2, A3, !orb_false_r.
  destruct (c =? 32) eqn:E; [apply N.eqb_eq in E; now subst|reflexivity].
Qed.

Lemma attr_ws_app a b : attr_ws (a ++ b) = attr_ws a ++ attr_ws b.
Proof. apply map_app. Qed.

Lemma attr_ws_esc_char_false c :
  c <> 13 -> attr_ws (esc_char false c) = esc_char false (if is_ws c then 32 else c).
Proof.
  intros H13.
  destruct (esc_char_cases false c) as [[-> ->]|[[-> ->]|[[-> ->]|[[-> ->]|[[-> ->]|[[? _]|[[? _]|[[? _]|H']]]]]]]];
    try reflexivity; try discriminate.
  destruct H' as (A & B & C & D & E & _ & ->). cbn [attr_ws map].
  destruct (is_ws c) eqn:W; [reflexivity|].
  unfold esc_char.
  replace (c =? 60) with false by (symmetry; now apply N.eqb_neq).
  replace (c =? 62) with false by (symmetry; now apply N.eqb_neq).
  replace (c =? 38) with false by (symmetry; now apply N.eqb_neq).
  replace (c =? 34) with false by (symmetry; now apply N.eqb_neq).
  replace (c =? 39) with false by (symmetry; now apply N.eqb_neq).
  destruct (c =? 13), (c =? 10), (c =? 9); reflexivity.
Qed.

Lemma attr_ws_escape_false s :
  no_byte 13 s = true -> attr_ws (escape false s) = escape false (attr_ws s).
Proof.
  induction s as [|c s IH]; [reflexivity|]. unfold no_byte. cbn [forallb escape flat_map attr_ws map]. intros H.
  apply andb_true_iff in H as [H1 H2]. rewrite attr_ws_app. fold (escape false s). fold (attr_ws s). fold (escape false (attr_ws s)).
  rewrite (IH H2). f_equal. apply attr_ws_esc_char_false. apply negb_true_iff, N.eqb_neq in H1. exact H1.
Qed.

Lemma attr_value_aval_ok o a :
  chars_ok o (attr_value_bytes a) = true ->
  aval_ok (escape (is_canonical o) (attr_value_bytes a)) (spec_attr_value o a).
Proof.
  intros H. pose proof (escape_run_ok o _ H) as [R1 R2 R3 R4 R5].
  destruct (escape_no_raw (is_canonical o) (attr_value_bytes a)) as (_ & _ & Q & _).
  constructor; auto. unfold spec_attr_value.
  destruct (is_canonical o) eqn:C.
  - destruct (escape_canonical_no_raw_ws (attr_value_bytes a)) as (W1 & W2 & W3).
    rewrite (attr_ws_id _ W1 W2 W3). apply unescape_escape.
  - unfold chars_ok in H. rewrite C in H. apply andb_true_iff in H as [_ H]. cbn in H.
    rewrite (attr_ws_escape_false _ H). apply unescape_escape.
Qed.

Lemma unesc_plain_id s : no_byte 38 s = true -> no_byte 60 s = true -> forall r, unesc (s ++ r) UPlain = option_map (app s) (unesc r UPlain).
Proof.
  unfold no_byte. induction s as [|c s IH]; intros H1 H2 r.
  - cbn. destruct (unesc r UPlain); reflexivity.
  - cbn [forallb] in H1, H2. apply andb_true_iff in H1 as [A1 B1]. apply andb_true_iff in H2 as [A2 B2].
    apply negb_true_iff, N.eqb_neq in A1. apply negb_true_iff, N.eqb_neq in A2.
    cbn [app]. rewrite unesc_plain_other by auto. rewrite (IH B1 B2). destruct (unesc r UPlain); reflexivity.
Qed.

Lemma raw_aval_ok s : raw_ok s = true -> aval_ok s s.
Proof.
  unfold raw_ok. intros H. repeat (apply andb_true_iff in H as [H ?]).
  constructor; auto. rewrite attr_ws_id by auto. unfold unescape.
  rewrite <- (app_nil_r s) at 1. rewrite unesc_plain_id by auto. cbn. now rewrite app_nil_r.
Qed.

(* one attribute as it is written: space, name, equals sign, quoted raw value *)
Definition emit_attr (kv : bytes * bytes * bytes) : bytes :=
  let '(k, raw, _) := kv in 32 :: k ++ [61; 34] ++ raw ++ [34].

Lemma bytes_eqb_sym a b : bytes_eqb a b = bytes_eqb b a.
Proof.
  revert b. induction a as [|x a IH]; destruct b as [|y b]; cbn; try reflexivity.
  now rewrite N.eqb_sym, IH.
Qed.

Lemma name_not_special k : is_xml_name k = true ->
  exists c r, k = c :: r /\ is_name_start c = true.
Proof. destruct k as [|c r]; [discriminate|]. cbn. intros H. apply andb_true_iff in H as [H _]. eauto. Qed.

Lemma p_attrs_ok kvs : forall n acc (tail : bytes) flag r,
  Forall (fun kv => let '(k, raw, v) := kv in is_xml_name k = true /\ aval_ok raw v) kvs ->
  nodup_bytes (map (fun kv => fst (fst kv)) kvs) = true ->
  (forall kv, In kv kvs -> bytes_in (fst (fst kv)) acc = false) ->
  (length kvs < n)%nat ->
  (tail = 62 :: r /\ flag = false) \/ (tail = 47 :: 62 :: r /\ flag = true) ->
  p_attrs n (flat_map emit_attr kvs ++ tail) acc = Some (rev acc ++ map (fun kv => (fst (fst kv), snd kv)) kvs, flag, r).
Proof.
  induction kvs as [|[[k raw] v] kvs IH]; intros n acc tail flag r HF HN HA Hn HT.
  - destruct n as [|n]; [cbn in Hn; lia|]. cbn [flat_map app map]. rewrite app_nil_r.
    destruct HT as [[-> ->]|[-> ->]]; reflexivity.
  - destruct n as [|n]; [cbn in Hn; lia|].
    inversion HF as [|? ? Hh HF']; subst. cbn in Hh. destruct Hh as [Hk Hv].
    cbn [flat_map emit_attr app]. cbn [p_attrs].
    change (32 =? 62) with false. change (32 =? 47) with false. change (32 =? 32) with true. cbn [andb orb].
    rewrite <- !app_assoc. cbn [app].
    rewrite (p_name_app k 61 _ Hk eq_refl).
    cbn [expect]. change (61 =? 61) with true. change (34 =? 34) with true. cbn [andb].
    rewrite <- app_assoc. cbn [app].
    rewrite (p_attvalue_ok raw v _ Hv).
    pose proof (HA (k, raw, v) (or_introl eq_refl)) as HAk. cbn [fst] in HAk. rewrite HAk.
    cbn [map fst snd nodup_bytes] in HN. apply andb_true_iff in HN as [HN1 HN2].
    rewrite (IH n ((k, v) :: acc) tail flag r HF' HN2).
    + cbn [rev map fst snd]. rewrite <- app_assoc. reflexivity.
    + intros kv Hin. cbn [bytes_in]. rewrite (HA kv (or_intror Hin)), orb_false_r.
      apply negb_true_iff in HN1. rewrite bytes_eqb_sym.
      destruct (bytes_eqb k (fst (fst kv))) eqn:E; [|reflexivity].
      exfalso. assert (existsb (bytes_eqb k) (map (fun kv0 => fst (fst kv0)) kvs) = true); [|congruence].
      apply existsb_exists. exists (fst (fst kv)). split; [|exact E]. exact (in_map (fun kv0 : bytes * bytes * bytes => fst (fst kv0)) kvs kv Hin).
    + cbn [length] in Hn. lia.
    + exact HT.
Qed.

(* ------------------------------------------------------------------ *)
(* 4. fuel: more fuel never changes a successful reading               *)

Lemma p_content_mono : forall f s acc x,
  p_content f s acc = ROk x -> forall f', (f <= f')%nat -> p_content f' s acc = ROk x.
Proof.
  induction f as [|f IH]; intros s acc x H f' Hle; [discriminate|].
  destruct f' as [|f']; [lia|]. assert (Hle' : (f <= f')%nat) by lia.
  cbn [p_content] in *.
  destruct s as [|c0 r0]; [discriminate|].
  destruct (c0 =? 60).
  - destruct r0 as [|c1 r]; [discriminate|].
    destruct (c1 =? 47); [exact H|].
    destruct (c1 =? 33).
    + destruct (expect s_cdata_tail r) as [r1|]; [|discriminate].
      destruct (span_cdata r1) as [[t r2]|]; [|discriminate].
      destruct (forallb is_xml_byte t); [|discriminate]. eapply IH; eauto.
    + destruct (p_name (c1 :: r)) as [[nm r1]|]; [|discriminate].
      destruct (p_attrs (S (List.length r1)) r1 []) as [[[attrs [|]] r2]|]; [| |discriminate].
      * eapply IH; eauto.
      * destruct (p_content f r2 []) as [[ch r3]| |] eqn:E; try discriminate.
        rewrite (IH _ _ _ E f' Hle').
        destruct (p_name r3) as [[nm' r4]|]; [|discriminate].
        destruct (bytes_eqb nm nm'); [|discriminate].
        destruct (skip_ws r4) as [|c5 r5]; [discriminate|].
        destruct (c5 =? 62); [|discriminate]. eapply IH; eauto.
  - destruct (p_chardata (c0 :: r0)) as [[t r]|]; [|discriminate]. eapply IH; eauto.
Qed.

Lemma run_ok_nil_inv t : run_ok [] t -> t = [].
Proof.
  intros [_ _ _ _ H]. specialize (H []). cbn in H. injection H as H. now rewrite app_nil_r in H.
Qed.

(* pending character data is delivered when markup starts *)
Lemma flush_run pre tpre f r acc x :
  run_ok pre tpre ->
  p_content f (60 :: r) (push_text tpre acc) = ROk x ->
  p_content (S f) (pre ++ 60 :: r) acc = ROk x.
Proof.
  intros Hrun H. destruct pre as [|c pre'].
  - apply run_ok_nil_inv in Hrun. subst. cbn [push_text app] in *. eapply p_content_mono; eauto.
  - pose proof (p_chardata_run _ _ r Hrun) as Hc.
    destruct Hrun as [_ A2 _ _ _]. unfold no_byte in A2. cbn [forallb] in A2.
    apply andb_true_iff in A2 as [A2 _]. apply negb_true_iff in A2.
    cbn [p_content app]. rewrite A2. cbn [app] in Hc. rewrite Hc. exact H.
Qed.

(* ------------------------------------------------------------------ *)
(* 5. the generator without indentation, unfolded                      *)

Section node_ind2.
  Variable P : node -> Prop.
  Hypothesis HE : forall nm attrs ch, Forall P ch -> P (Elt nm attrs ch).
  Hypothesis HT : forall s, P (Text s).
  Hypothesis HC : forall ch, Forall P ch -> P (CData ch).
  Hypothesis HP : P Pi.
  Hypothesis HS : forall l roots, Forall P roots -> P (SubTree l roots).
  Fixpoint node_ind2 (n : node) : P n :=
    match n with
    | Elt nm attrs ch =>
      HE nm attrs ch ((fix go (l : list node) : Forall P l :=
                         match l with [] => Forall_nil P | x :: r => Forall_cons x (node_ind2 x) (go r) end) ch)
    | Text s => HT s
    | CData ch =>
      HC ch ((fix go (l : list node) : Forall P l :=
                match l with [] => Forall_nil P | x :: r => Forall_cons x (node_ind2 x) (go r) end) ch)
    | Pi => HP
    | SubTree l roots =>
      HS l roots ((fix go (l : list node) : Forall P l :=
                     match l with [] => Forall_nil P | x :: r => Forall_cons x (node_ind2 x) (go r) end) roots)
    end.
End node_ind2.

Definition set_cur (c : option trow) (s : est) : est := mk_est (e_indent s) (e_in_content s) (e_in_cdata s) c.

Lemma enc_node_elt l o parent s nm attrs ch :
  enc_node l o parent s (Elt nm attrs ch) =
  (let '(b1, s1) := xml_encode_tag l o parent nm s in
   let b2 := parse_attributes l o attrs in
   let '(b3, s3) := xml_encode_end_attrs o ch s1 in
   match ch with
   | [] => XOk (b1 ++ b2 ++ b3, s3)
   | _ =>
     match seq_nodes (enc_node l o (pinfo_below parent nm)) ch s3 with
     | XOk (b4, s4) => let '(b5, s5) := xml_encode_end_tag o nm ch s4 in XOk (b1 ++ b2 ++ b3 ++ b4 ++ b5, s5)
     | XErr e => XErr e
     end
   end).
Proof. reflexivity. Qed.

Definition elt_open (l : xlang) (o : opts) (parent : pinfo) (nm : tname) (attrs : list attr) : bytes :=
  60 :: tname_bytes nm ++ xmlns_part l parent nm ++ parse_attributes l o attrs.

Lemma enc_elt_noindent l o parent s nm attrs ch :
  is_indent o = false ->
  enc_node l o parent s (Elt nm attrs ch) =
  match ch with
  | [] => XOk (elt_open l o parent nm attrs ++ [47; 62], set_cur (cur_of nm) s)
  | _ =>
    match seq_nodes (enc_node l o (pinfo_below parent nm)) ch (set_cur (cur_of nm) s) with
    | XOk (b4, s4) =>
      XOk (elt_open l o parent nm attrs ++ 62 :: b4 ++ 60 :: 47 :: tname_bytes nm ++ [62],
           mk_est (e_indent s4) false (e_in_cdata s4) (e_cur_tag s4))
    | XErr e => XErr e
    end
  end.
Proof.
  intros Hi. rewrite enc_node_elt.
  unfold xml_encode_tag, xml_encode_end_attrs, xml_encode_end_tag, nl_if, elt_open. rewrite Hi. cbn [andb].
  destruct ch as [|c ch'].
  - cbn [app]. unfold set_cur, cur_of. rewrite <- !app_assoc. reflexivity.
  - change (match nm with TTok r => Some r | TLit _ => None end) with (cur_of nm).
    change (mk_est (e_indent s) (e_in_content s) (e_in_cdata s) (cur_of nm)) with (set_cur (cur_of nm) s).
    destruct (seq_nodes (enc_node l o (pinfo_below parent nm)) (c :: ch') (set_cur (cur_of nm) s)) as [[b4 s4]|e]; [|reflexivity].
    cbn [app]. rewrite <- !app_assoc. reflexivity.
Qed.

(* the attributes of a start tag as (name, raw value text, value) triples *)
Definition attr_triples (l : xlang) (o : opts) (parent : pinfo) (nm : tname) (attrs : list attr) : list (bytes * bytes * bytes) :=
  map (fun kv => (fst kv, snd kv, snd kv)) (spec_ns l parent nm) ++
  (if xl_has_attrs l
   then map (fun a => (aname_bytes (at_name a), escape (is_canonical o) (attr_value_bytes a), spec_attr_value o a)) attrs
   else []).

Lemma emit_triples l o parent nm attrs :
  xmlns_part l parent nm ++ parse_attributes l o attrs = flat_map emit_attr (attr_triples l o parent nm attrs).
Proof.
  unfold attr_triples, xmlns_part, spec_ns, parse_attributes. rewrite flat_map_app. f_equal.
  - destruct (xl_ns l) as [nst|]; [|reflexivity]. destruct nm as [r|lit]; [|reflexivity].
    destruct (ns_wanted parent (TTok r)); [|reflexivity].
    destruct (get_xmlns nst (tr_page r)) as [ns|]; [|reflexivity].
    cbn [map flat_map emit_attr fst snd app]. rewrite app_nil_r. reflexivity.
  - destruct (xl_has_attrs l); [|reflexivity].
    induction attrs as [|a attrs IH]; [reflexivity|]. cbn [map flat_map]. rewrite IH. f_equal.
Qed.

Lemma proj_triples l o parent nm attrs :
  map (fun kv : bytes * bytes * bytes => (fst (fst kv), snd kv)) (attr_triples l o parent nm attrs) = spec_attrs l o parent nm attrs.
Proof.
  unfold attr_triples, spec_attrs. rewrite map_app, !map_map. f_equal.
  - cbn [fst snd]. induction (spec_ns l parent nm) as [|[k v] r IH]; [reflexivity|]. cbn. now rewrite IH.
  - destruct (xl_has_attrs l); [|reflexivity]. now rewrite map_map.
Qed.

Lemma keys_triples l o parent nm attrs :
  map (fun kv : bytes * bytes * bytes => fst (fst kv)) (attr_triples l o parent nm attrs) = map fst (spec_attrs l o parent nm attrs).
Proof. rewrite <- proj_triples, map_map. reflexivity. Qed.

Lemma get_xmlns_in t p ns : get_xmlns t p = Some ns -> exists r, In r t /\ nr_name r = ns.
Proof.
  induction t as [|r t IH]; [discriminate|]. cbn [get_xmlns]. destruct (nr_page r =? p).
  - intros H. injection H as <-. exists r. split; [now left|reflexivity].
  - intros H. destruct (IH H) as (r' & A & B). exists r'. split; [now right|exact B].
Qed.

Lemma ok_triples l o parent nm attrs :
  lang_ok l = true -> forallb (attr_ok o) attrs = true ->
  Forall (fun kv : bytes * bytes * bytes => let '(k, raw, v) := kv in is_xml_name k = true /\ aval_ok raw v)
         (attr_triples l o parent nm attrs).
Proof.
  intros HL HA. unfold attr_triples. apply Forall_app. split.
  - unfold spec_ns. destruct (xl_ns l) as [nst|] eqn:EN; [|constructor].
    destruct nm as [rw|lit]; [|constructor].
    destruct (ns_wanted parent (TTok rw)); [|constructor].
    destruct (get_xmlns nst (tr_page rw)) as [ns|] eqn:EG; [|constructor].
    constructor; [|constructor]. cbn [fst snd]. split; [reflexivity|].
    apply raw_aval_ok. unfold lang_ok in HL. rewrite EN in HL. apply andb_true_iff in HL as [_ HL].
    destruct (get_xmlns_in _ _ _ EG) as (r & Hin & <-). rewrite forallb_forall in HL. now apply HL.
  - destruct (xl_has_attrs l); [|constructor]. rewrite forallb_forall in HA.
    apply Forall_forall. intros kv Hin. apply in_map_iff in Hin as (a & <- & Hin).
    specialize (HA a Hin). unfold attr_ok in HA. apply andb_true_iff in HA as [H1 H2]. split; [exact H1|].
    now apply attr_value_aval_ok.
Qed.

(* ------------------------------------------------------------------ *)
(* 6. reading back elements, attributes and text (no indentation)      *)

Fixpoint node_fuel (n : node) : nat :=
  match n with
  | Elt _ _ ch => 4 + fold_right (fun x a => node_fuel x + a)%nat 0%nat ch
  | CData ch => 2 + fold_right (fun x a => (match x with Text t => length t | _ => 0 end) + a)%nat 0%nat ch
  | SubTree _ roots => fold_right (fun x a => node_fuel x + a)%nat 0%nat roots
  | _ => 0
  end.
Definition list_fuel (ch : list node) : nat := 2 + fold_right (fun x a => node_fuel x + a)%nat 0%nat ch.

Lemma push_text_app a b acc : push_text (a ++ b) acc = push_text b (push_text a acc).
Proof.
  destruct a as [|x a]; [reflexivity|]. destruct b as [|y b]; [now rewrite app_nil_r|].
  cbn [push_text app]. destruct acc as [|[| u] acc']; cbn [push_text]; try reflexivity.
  now rewrite <- app_assoc.
Qed.

(* what reading a node's text does to the reader state: pending run [pre] (denoting [tpre]) and item list *)
Definition reads_node (n : node) (b : bytes) (its : list xitem) : Prop :=
  forall pre tpre acc tail f x,
    run_ok pre tpre ->
    (forall pre2 tpre2 acc2,
        run_ok pre2 tpre2 ->
        push_text tpre2 acc2 = fold_left push_item its (push_text tpre acc) ->
        p_content f (pre2 ++ tail) acc2 = ROk x) ->
    p_content (node_fuel n + f) (pre ++ b ++ tail) acc = ROk x.

Definition reads_list (ch : list node) (b : bytes) (its : list xitem) : Prop :=
  forall pre tpre acc rest f,
    run_ok pre tpre ->
    p_content (list_fuel ch + f) (pre ++ b ++ 60 :: 47 :: rest) acc =
    ROk (rev (fold_left push_item its (push_text tpre acc)), rest).

Definition node_main_stmt (n : node) : Prop :=
  forall l o parent cur s b s',
    is_indent o = false -> lang_ok l = true -> e_in_cdata s = false -> e_cur_tag s = cur ->
    node_ok l o parent cur n = true ->
    enc_node l o parent s n = XOk (b, s') ->
    e_in_cdata s' = false /\ exists its, info_node l o parent cur n = Some its /\ reads_node n b its.

Lemma list_main ch :
  Forall node_main_stmt ch ->
  forall l o parent cur s b s',
    is_indent o = false -> lang_ok l = true -> e_in_cdata s = false -> e_cur_tag s = cur ->
    nodes_ok l o parent cur ch = true ->
    seq_nodes (enc_node l o parent) ch s = XOk (b, s') ->
    e_in_cdata s' = false /\ exists its, info_list (info_node l o parent) cur ch = Some its /\ reads_list ch b its.
Proof.
  induction 1 as [|n ch Hn Hch IH]; intros l o parent cur s b s' Hi HL Hc Hcur Hok Henc.
  - cbn in Henc. injection Henc as <- <-. split; [exact Hc|]. exists []. split; [reflexivity|].
    intros pre tpre acc rest f Hrun. cbn [app fold_left list_fuel fold_right Nat.add].
    apply (flush_run pre tpre (S f) _ acc _ Hrun). reflexivity.
  - cbn [seq_nodes] in Henc. change (seq_nodes (enc_node l o parent)) with (seq_nodes (enc_node l o parent)) in Henc.
    destruct (enc_node l o parent s n) as [[b1 s1]|e] eqn:E1; [|discriminate].
    cbn [nodes_ok] in Hok. apply andb_true_iff in Hok as [Hok1 Hok2].
    destruct (Hn l o parent cur s b1 s1 Hi HL Hc Hcur Hok1 E1) as (Hc1 & its1 & Hi1 & Hr1).
    match type of Henc with context [?g ch (reset_cur s1)] =>
      destruct (g ch (reset_cur s1)) as [[b2 s2]|e] eqn:E2; [|discriminate] end.
    injection Henc as <- <-.
    destruct (IH l o parent None (reset_cur s1) b2 s2 Hi HL Hc1 eq_refl Hok2 E2) as (Hc2 & its2 & Hi2 & Hr2).
    split; [exact Hc2|]. exists (its1 ++ its2). split.
    + cbn [info_list]. rewrite Hi1. change (info_list (info_node l o parent) None ch) with (info_list (info_node l o parent) None ch).
      cbn [info_list] in Hi2. rewrite Hi2. reflexivity.
    + intros pre tpre acc rest f Hrun.
      replace (list_fuel (n :: ch) + f)%nat with (node_fuel n + (list_fuel ch + f))%nat by (unfold list_fuel; cbn [fold_right]; lia).
      rewrite <- app_assoc.
      apply (Hr1 pre tpre acc (b2 ++ 60 :: 47 :: rest) (list_fuel ch + f)%nat _ Hrun).
      intros pre2 tpre2 acc2 Hrun2 Heq.
      rewrite (Hr2 pre2 tpre2 acc2 rest f Hrun2). rewrite Heq, fold_left_app. reflexivity.
Qed.

Lemma forallb_rev' {A} (f : A -> bool) l : forallb f l = true -> forallb f (rev l) = true.
Proof. rewrite !forallb_forall. intros H x Hx. apply H. now apply in_rev. Qed.

Lemma forallb_drop_ws f s : forallb f s = true -> forallb f (drop_ws s) = true.
Proof.
  induction s as [|c s IH]; [reflexivity|]. cbn [drop_ws]. intros H. destruct (c_isspace c); [|exact H].
  cbn [forallb] in H. apply andb_true_iff in H as [_ H]. now apply IH.
Qed.

Lemma forallb_strip f s : forallb f s = true -> forallb f (strip_blanks s) = true.
Proof. intros H. unfold strip_blanks. now apply forallb_rev', forallb_drop_ws, forallb_rev', forallb_drop_ws. Qed.

Lemma chars_ok_strip o s : chars_ok o s = true -> chars_ok o (strip_blanks s) = true.
Proof.
  unfold chars_ok. intros H. apply andb_true_iff in H as [H1 H2]. rewrite (forallb_strip _ _ H1). cbn [andb].
  destruct (is_canonical o); [reflexivity|]. cbn [orb] in *. now apply forallb_strip.
Qed.

Lemma chars_ok_rewrite l o cur s : chars_ok o s = true -> chars_ok o (syncml_type_rewrite l cur s) = true.
Proof.
  intros H. unfold syncml_type_rewrite.
  assert (A : chars_ok o s_devinf_xml = true) by (unfold chars_ok; destruct (is_canonical o); reflexivity).
  assert (B : chars_ok o s_dmtnds_xml = true) by (unfold chars_ok; destruct (is_canonical o); reflexivity).
  destruct (is_syncml l && tag_is_type cur && bytes_eqb s s_devinf_wbxml);
    match goal with |- context [if ?c then _ else _] => destruct c end; auto.
Qed.

Lemma text_tag_ext s1 s2 p : e_cur_tag s1 = e_cur_tag s2 -> text_tag s1 p = text_tag s2 p.
Proof. intros H. unfold text_tag. now rewrite H. Qed.

Lemma text_policy_ext o p s1 s2 c :
  e_in_cdata s1 = e_in_cdata s2 -> e_cur_tag s1 = e_cur_tag s2 -> text_policy o p s1 c = text_policy o p s2 c.
Proof. intros H1 H2. unfold text_policy. now rewrite H1, (text_tag_ext s1 s2 p H2). Qed.

Lemma text_policy_chars o p st s c : chars_ok o s = true -> text_policy o p st s = Some c -> chars_ok o c = true.
Proof.
  intros H. unfold text_policy.
  destruct (negb (e_in_cdata st) && negb (tag_is_binary (text_tag st p)) && negb (is_canonical o)).
  - destruct (o_ignore_empty o && only_ws s); [discriminate|]. intros E. injection E as <-.
    destruct (o_remove_blanks o); [now apply chars_ok_strip|exact H].
  - intros E. injection E as <-. exact H.
Qed.

Lemma length_flat_emit kvs : (length kvs <= length (flat_map emit_attr kvs))%nat.
Proof.
  induction kvs as [|[[k raw] v] kvs IHk]; [cbn; lia|].
  cbn [flat_map emit_attr app length]. rewrite !app_length. lia.
Qed.

Lemma node_main : forall n, node_main_stmt n.
Proof.
  induction n as [nm attrs ch IHch|t|ch _| |sl roots _] using node_ind2;
    intros l o parent cur s b s' Hi HL Hc Hcur Hok Henc; try discriminate.
  - (* element *)
    rewrite (enc_elt_noindent l o parent s nm attrs ch Hi) in Henc.
    cbn [node_ok] in Hok.
    change ((fix go (cur0 : option trow) (ns : list node) {struct ns} : bool :=
               match ns with [] => true | x :: r => node_ok l o (pinfo_below parent nm) cur0 x && go None r end) (cur_of nm) ch)
      with (nodes_ok l o (pinfo_below parent nm) (cur_of nm) ch) in Hok.
    apply andb_true_iff in Hok as [Hok Hok4]. apply andb_true_iff in Hok as [Hok Hok3].
    apply andb_true_iff in Hok as [Hok1 Hok2].
    pose proof (ok_triples l o parent nm attrs HL Hok2) as HF.
    pose proof (keys_triples l o parent nm attrs) as HK.
    assert (Hopen : forall tailc tailr flag r0,
               (tailc :: tailr = 62 :: r0 /\ flag = false) \/ (tailc :: tailr = 47 :: 62 :: r0 /\ flag = true) ->
               is_name_char tailc = false \/ True ->
               forall f acc0 x,
                 (forall attrs', attrs' = spec_attrs l o parent nm attrs ->
                    (if flag then p_content f r0 (XE (tname_bytes nm) attrs' [] :: acc0)
                     else match p_content f r0 [] with
                          | ROk (ch', r3) =>
                            match p_name r3 with
                            | Some (nm', r4) =>
                              if bytes_eqb (tname_bytes nm) nm' then
                                match skip_ws r4 with
                                | c5 :: r5 => if c5 =? 62 then p_content f r5 (XE (tname_bytes nm) attrs' ch' :: acc0) else RErr
                                | [] => RErr
                                end
                              else RErr
                            | None => RErr
                            end
                          | RErr => RErr
                          | RFuel => RFuel
                          end) = ROk x) ->
                 p_content (S f) (elt_open l o parent nm attrs ++ tailc :: tailr) acc0 = ROk x).
    { intros tailc tailr flag r0 HT _ f acc0 x Hk.
      unfold elt_open. rewrite <- app_comm_cons. cbn [p_content]. change (60 =? 60) with true. cbn match.
      destruct (name_not_special _ Hok1) as (c1 & rn & En & Hs1).
      rewrite En. cbn [app].
      assert (c1 =? 47 = false) as ->.
      { apply N.eqb_neq. intros ->. discriminate. }
      assert (c1 =? 33 = false) as ->.
      { apply N.eqb_neq. intros ->. discriminate. }
      rewrite <- !app_assoc. rewrite app_comm_cons, <- En.
      rewrite (app_assoc (xmlns_part l parent nm)), emit_triples.
      assert (Hfirst : exists c2 r2, flat_map emit_attr (attr_triples l o parent nm attrs) ++ tailc :: tailr = c2 :: r2 /\ is_name_char c2 = false).
      { destruct (attr_triples l o parent nm attrs) as [|[[k raw] v] kvs].
        - cbn [flat_map app]. exists tailc, tailr. split; [reflexivity|].
          destruct HT as [[E _]|[E _]]; injection E as -> _; reflexivity.
        - cbn [flat_map emit_attr app]. eexists _, _. split; [reflexivity|reflexivity]. }
      destruct Hfirst as (c2 & r2 & E2 & Hc2). rewrite E2.
      rewrite (p_name_app _ c2 r2 Hok1 Hc2). rewrite <- E2.
      rewrite (p_attrs_ok (attr_triples l o parent nm attrs) _ [] (tailc :: tailr) flag r0 HF).
      - cbn [rev app]. rewrite proj_triples. specialize (Hk _ eq_refl). destruct flag; exact Hk.
      - rewrite HK. exact Hok3.
      - intros; reflexivity.
      - rewrite app_length. cbn [length].
        pose proof (length_flat_emit (attr_triples l o parent nm attrs)). lia.
      - exact HT. }
    destruct ch as [|c0 ch0].
    + (* empty element *)
      assert (Hb : b = elt_open l o parent nm attrs ++ [47; 62]) by congruence.
      assert (Hs' : s' = set_cur (cur_of nm) s) by congruence. subst b s'. clear Henc.
      split; [exact Hc|].
      eexists. split; [reflexivity|].
      intros pre tpre acc tail f x Hrun Hk.
      cbn [node_fuel fold_right].
      replace (pre ++ (elt_open l o parent nm attrs ++ [47; 62]) ++ tail)
        with (pre ++ 60 :: (tname_bytes nm ++ xmlns_part l parent nm ++ parse_attributes l o attrs) ++ 47 :: 62 :: tail)
        by (unfold elt_open; repeat (rewrite <- app_assoc || rewrite <- app_comm_cons); reflexivity).
      replace (4 + 0 + f)%nat with (S (S (2 + f))) by lia.
      apply (flush_run pre tpre _ _ acc x Hrun).
      change (60 :: (tname_bytes nm ++ xmlns_part l parent nm ++ parse_attributes l o attrs) ++ 47 :: 62 :: tail)
        with (elt_open l o parent nm attrs ++ 47 :: 62 :: tail).
      apply (Hopen 47 (62 :: tail) true tail); [right; auto|right; exact I|].
      intros attrs' ->. cbn [merge_items fold_left rev].
      eapply p_content_mono; [apply (Hk [] [] _ run_ok_nil); reflexivity|lia].
    + (* element with content *)
      destruct (seq_nodes (enc_node l o (pinfo_below parent nm)) (c0 :: ch0) (set_cur (cur_of nm) s)) as [[b4 s4]|e] eqn:E4; [|discriminate].
      assert (Hb : b = elt_open l o parent nm attrs ++ 62 :: b4 ++ 60 :: 47 :: tname_bytes nm ++ [62]) by congruence.
      assert (Hs' : e_in_cdata s' = e_in_cdata s4) by (injection Henc as _ <-; reflexivity). subst b. clear Henc.
      destruct (list_main (c0 :: ch0) IHch l o (pinfo_below parent nm) (cur_of nm) (set_cur (cur_of nm) s) b4 s4 Hi HL Hc eq_refl Hok4 E4)
        as (Hc4 & its & Hinfo & Hread).
      split; [now rewrite Hs'|].
      exists [XE (tname_bytes nm) (spec_attrs l o parent nm attrs) (merge_items its)]. split.
      { cbn [info_node]. rewrite Hinfo. reflexivity. }
      intros pre tpre acc tail f x Hrun Hk.
      replace (pre ++ (elt_open l o parent nm attrs ++ 62 :: b4 ++ 60 :: 47 :: tname_bytes nm ++ [62]) ++ tail)
        with (pre ++ 60 :: (tname_bytes nm ++ xmlns_part l parent nm ++ parse_attributes l o attrs) ++
                  62 :: b4 ++ 60 :: 47 :: tname_bytes nm ++ 62 :: tail)
        by (unfold elt_open; repeat (rewrite <- app_assoc || rewrite <- app_comm_cons); reflexivity).
      assert (Hnf : (node_fuel (Elt nm attrs (c0 :: ch0)) + f = S (S (list_fuel (c0 :: ch0) + f)))%nat)
        by (unfold list_fuel; cbn [node_fuel]; lia).
      rewrite Hnf.
      apply (flush_run pre tpre _ _ acc x Hrun).
      change (60 :: (tname_bytes nm ++ xmlns_part l parent nm ++ parse_attributes l o attrs) ++
                 62 :: b4 ++ 60 :: 47 :: tname_bytes nm ++ 62 :: tail)
        with (elt_open l o parent nm attrs ++ 62 :: b4 ++ 60 :: 47 :: tname_bytes nm ++ 62 :: tail).
      apply (Hopen 62 (b4 ++ 60 :: 47 :: tname_bytes nm ++ 62 :: tail) false (b4 ++ 60 :: 47 :: tname_bytes nm ++ 62 :: tail)); [left; auto|right; exact I|].
      intros attrs' ->.
      pose proof (Hread [] [] [] (tname_bytes nm ++ 62 :: tail) f run_ok_nil) as HR.
      cbn [app push_text] in HR.
      rewrite HR.
      rewrite (p_name_app _ 62 tail Hok1 eq_refl), bytes_eqb_refl. cbn [skip_ws is_ws].
      change (62 =? 32) with false. change (62 =? 9) with false. change (62 =? 10) with false. change (62 =? 13) with false.
      cbn [orb]. change (62 =? 62) with true. cbn match.
      eapply p_content_mono; [apply (Hk [] [] _ run_ok_nil); reflexivity|lia].
  - (* text *)
    cbn [node_ok] in Hok. apply andb_true_iff in Hok as [Hok1 Hok2]. apply negb_true_iff in Hok2.
    cbn [enc_node] in Henc. unfold parse_text in Henc. cbn [info_node]. unfold spec_text.
    rewrite (text_tag_ext (mk_est 0 false false cur) s parent) in * by (cbn; auto).
    rewrite (text_policy_ext o parent (mk_est 0 false false cur) s t) by (cbn; auto).
    destruct (text_policy o parent s t) as [c|] eqn:EP.
    + unfold xml_encode_text in Henc. rewrite Hc, Hok2 in Henc. rewrite Hcur in Henc. injection Henc as <- <-.
      split; [reflexivity|]. rewrite Hok2. eexists. split; [reflexivity|].
      intros pre tpre acc tail f x Hrun Hk. cbn [node_fuel Nat.add].
      pose proof (text_policy_chars o parent s t c Hok1 EP) as Hch.
      pose proof (chars_ok_rewrite l o cur c Hch) as Hch2.
      pose proof (escape_run_ok o _ Hch2) as Hrun2.
      rewrite app_assoc. apply (Hk _ _ acc (run_ok_app _ _ _ _ Hrun Hrun2)).
      cbn [fold_left push_item]. apply push_text_app.
    + injection Henc as <- <-. split; [exact Hc|]. eexists. split; [reflexivity|].
      intros pre tpre acc tail f x Hrun Hk. cbn [node_fuel Nat.add app].
      apply (Hk pre tpre acc Hrun). reflexivity.
Qed.

(* ------------------------------------------------------------------ *)
(* 7. whole documents, compact and canonical generation                *)

Definition doc_of (l : xlang) (items : list xitem) : xdoc := mk_xdoc (xl_root l) (xl_pub l) (xl_dtd l) items.

Lemma raw_ok_quote s : raw_ok s = true -> forallb not_quote s = true.
Proof. unfold raw_ok. intros H. repeat (apply andb_true_iff in H as [H ?]). assumption. Qed.

Lemma header_read l o fuel body :
  is_indent o = false -> lang_ok l = true ->
  read_xml fuel (xml_header l o ++ body) =
  match p_root fuel (skip_ws body) with
  | ROk items => ROk (doc_of l items)
  | RErr => RErr
  | RFuel => RFuel
  end.
Proof.
  intros Hi HL. unfold lang_ok in HL.
  apply andb_true_iff in HL as [HL Hns]. apply andb_true_iff in HL as [HL Hpub]. apply andb_true_iff in HL as [Hroot Hdtd].
  apply raw_ok_quote in Hdtd.
  unfold read_xml, xml_header, nl_if. rewrite Hi. cbn [app].
  rewrite <- !app_assoc. rewrite expect_app.
  assert (Hsk : forall x, skip_ws (s_doctype ++ x) = s_doctype ++ x) by reflexivity. rewrite Hsk.
  rewrite expect_app.
  assert (Hd : forall x, s_dtd_close ++ x = 34 :: 62 :: x) by reflexivity.
  destruct (xl_pub l) as [p|] eqn:EP.
  - apply raw_ok_quote in Hpub.
    rewrite <- !app_assoc.
    assert (Hp : forall x, s_public ++ x = 32 :: (80 :: 85 :: 66 :: 76 :: 73 :: 67 :: 32 :: 34 :: x)) by reflexivity.
    rewrite Hp. rewrite (p_name_app _ 32 _ Hroot eq_refl). rewrite <- Hp.
    change s_pub_kw with s_public. rewrite expect_app.
    cbn [app]. rewrite (span_app not_quote p 34 _ Hpub eq_refl).
    rewrite expect_app, Hd. rewrite (span_app not_quote (xl_dtd l) 34 _ Hdtd eq_refl).
    rewrite <- Hd, expect_app. unfold doc_of. rewrite EP. reflexivity.
  - assert (Hs : forall x, s_system ++ x = 32 :: (83 :: 89 :: 83 :: 84 :: 69 :: 77 :: x)) by reflexivity.
    cbn [app]. rewrite Hs. rewrite (p_name_app _ 32 _ Hroot eq_refl).
    assert (He1 : forall x, expect s_pub_kw (32 :: 83 :: 89 :: 83 :: 84 :: 69 :: 77 :: x) = None) by reflexivity.
    rewrite He1. rewrite <- Hs. change s_sys_kw with s_system. rewrite expect_app.
    rewrite expect_app, Hd. rewrite (span_app not_quote (xl_dtd l) 34 _ Hdtd eq_refl).
    rewrite <- Hd, expect_app. unfold doc_of. rewrite EP. reflexivity.
Qed.

(* the document is one root element *)
Theorem read_enc_noindent l o nm attrs ch out :
  is_indent o = false -> lang_ok l = true ->
  node_ok l o proot None (Elt nm attrs ch) = true ->
  enc_xml_opts l o [Elt nm attrs ch] = XOk out ->
  exists items,
    info_node l o proot None (Elt nm attrs ch) = Some items /\
    forall fuel, (node_fuel (Elt nm attrs ch) + 2 <= fuel)%nat -> read_xml fuel out = ROk (doc_of l items).
Proof.
  intros Hi HL Hok Henc. unfold enc_xml_opts, enc_nodes in Henc. cbn [seq_nodes] in Henc.
  destruct (enc_node l o proot (est0 0) (Elt nm attrs ch)) as [[b s1]|e] eqn:E; [|discriminate].
  assert (Hout : out = xml_header l o ++ b ++ []) by congruence. subst out. clear Henc.
  destruct (node_main (Elt nm attrs ch) l o proot None (est0 0) b s1 Hi HL eq_refl eq_refl Hok E) as (_ & its & Hinfo & Hread).
  exists its. split; [exact Hinfo|]. intros fuel Hfuel.
  rewrite app_nil_r. rewrite (header_read l o fuel b Hi HL).
  (* shape of the items and of the text *)
  pose proof Hinfo as Hinfo'. cbn [info_node] in Hinfo'.
  destruct (info_list (info_node l o (pinfo_below proot nm)) (cur_of nm) ch) as [cits|]; [|discriminate].
  injection Hinfo' as <-.
  assert (Hb : exists c1 rb, b = 60 :: c1 :: rb /\ is_name_start c1 = true).
  { rewrite (enc_elt_noindent l o proot (est0 0) nm attrs ch Hi) in E.
    cbn [node_ok] in Hok. apply andb_true_iff in Hok as [Hok _]. apply andb_true_iff in Hok as [Hok _].
    apply andb_true_iff in Hok as [Hok _]. destruct (name_not_special _ Hok) as (c1 & rn & En & Hs).
    destruct ch as [|c0 ch0].
    - injection E as <- _. unfold elt_open. rewrite En. cbn [app]. eauto.
    - destruct (seq_nodes (enc_node l o (pinfo_below proot nm)) (c0 :: ch0) (set_cur (cur_of nm) (est0 0))) as [[b4 s4]|]; [|discriminate].
      injection E as <- _. unfold elt_open. rewrite En. cbn [app]. eauto. }
  destruct Hb as (c1 & rb & Eb & Hs1).
  assert (Hskip : skip_ws b = b) by (rewrite Eb; reflexivity). rewrite Hskip.
  unfold p_root. rewrite Eb, Hs1. rewrite <- Eb.
  replace fuel with (node_fuel (Elt nm attrs ch) + (fuel - node_fuel (Elt nm attrs ch)))%nat by lia.
  pose proof (Hread [] [] [] [60; 47] (fuel - node_fuel (Elt nm attrs ch))%nat
                    ([XE (tname_bytes nm) (spec_attrs l o proot nm attrs) (merge_items cits)], []) run_ok_nil) as HR.
  cbn [app] in HR. rewrite HR; [reflexivity|].
  intros pre2 tpre2 acc2 Hrun2 Heq. cbn [fold_left push_item push_text] in Heq.
  destruct (fuel - node_fuel (Elt nm attrs ch))%nat as [|[|f2]] eqn:Ef; [lia|lia|].
  apply (flush_run pre2 tpre2 (S f2) [47] acc2 _ Hrun2). cbn [p_content]. cbn. now rewrite Heq.
Qed.

(* the same, stated with the public options (wbxml_tree_to_xml's parameters) *)
Corollary read_enc_compact_canonical l g indent keep_ws nm attrs ch out :
  g <> Indent -> lang_ok l = true ->
  node_ok l (opts_of_params g indent keep_ws) proot None (Elt nm attrs ch) = true ->
  enc_xml l g indent keep_ws [Elt nm attrs ch] = XOk out ->
  exists items,
    info_node l (opts_of_params g indent keep_ws) proot None (Elt nm attrs ch) = Some items /\
    forall fuel, (node_fuel (Elt nm attrs ch) + 2 <= fuel)%nat -> read_xml fuel out = ROk (doc_of l items).
Proof.
  intros Hg. apply read_enc_noindent. destruct g; [reflexivity|contradiction|reflexivity].
Qed.

(* DOCTYPE = the language's, whatever the tree (non-indented generation) *)
Lemma doctype_is_languages l o body fuel d :
  is_indent o = false -> lang_ok l = true ->
  read_xml fuel (xml_header l o ++ body) = ROk d ->
  d_root_name d = xl_root l /\ d_public d = xl_pub l /\ d_system d = xl_dtd l.
Proof.
  intros Hi HL H. rewrite (header_read l o fuel body Hi HL) in H.
  destruct (p_root fuel (skip_ws body)); try discriminate. injection H as <-. auto.
Qed.

(* ------------------------------------------------------------------ *)
(* 8. C07, XML half: compact and canonical generation denote the same tree.
      The infosets differ only where the property says they may: character data is exact in canonical
      generation and subject to the white-space options / XML's own normalisation otherwise.  For trees whose
      text needs neither (no CR, TAB or LF in attribute values; white space kept) the two readings are EQUAL. *)

Definition same_reading (o1 o2 : opts) : Prop :=
  o_ignore_empty o1 = false /\ o_remove_blanks o1 = false /\ o_ignore_empty o2 = false /\ o_remove_blanks o2 = false.

Lemma c07_xml_info_attrs_indep l o1 o2 parent nm attrs :
  forallb (fun a => no_byte 9 (attr_value_bytes a) && no_byte 10 (attr_value_bytes a) && no_byte 13 (attr_value_bytes a)) attrs = true ->
  spec_attrs l o1 parent nm attrs = spec_attrs l o2 parent nm attrs.
Proof.
  intros H. unfold spec_attrs. f_equal. destruct (xl_has_attrs l); [|reflexivity].
  apply map_ext_in. intros a Hin. f_equal. rewrite forallb_forall in H. specialize (H a Hin).
  apply andb_true_iff in H as [H H13]. apply andb_true_iff in H as [H9 H10].
  unfold spec_attr_value. rewrite (attr_ws_id _ H13 H10 H9). destruct (is_canonical o1), (is_canonical o2); reflexivity.
Qed.

Fixpoint plain_attrs (n : node) : bool :=
  match n with
  | Elt _ attrs ch =>
    forallb (fun a => no_byte 9 (attr_value_bytes a) && no_byte 10 (attr_value_bytes a) && no_byte 13 (attr_value_bytes a)) attrs
    && forallb plain_attrs ch
  | _ => true
  end.

Lemma spec_text_keep l o1 o2 parent cur s :
  o_ignore_empty o1 = false -> o_remove_blanks o1 = false -> o_ignore_empty o2 = false -> o_remove_blanks o2 = false ->
  spec_text l o1 parent cur s = spec_text l o2 parent cur s.
Proof.
  intros A B C D. unfold spec_text, text_policy. rewrite A, B, C, D. cbn [andb e_in_cdata negb].
  destruct (negb (tag_is_binary (text_tag (mk_est 0 false false cur) parent)) && negb (is_canonical o1)),
           (negb (tag_is_binary (text_tag (mk_est 0 false false cur) parent)) && negb (is_canonical o2)); reflexivity.
Qed.

Lemma c07_xml_info_indep : forall n l o1 o2 parent cur,
  same_reading o1 o2 -> plain_attrs n = true -> info_node l o1 parent cur n = info_node l o2 parent cur n.
Proof.
  induction n as [nm attrs ch IHch|t|ch _| |sl roots _] using node_ind2; intros l o1 o2 parent cur HS HP; try reflexivity.
  - cbn [plain_attrs] in HP. apply andb_true_iff in HP as [HA HC]. cbn [info_node].
    rewrite (c07_xml_info_attrs_indep l o1 o2 parent nm attrs HA).
    assert (E : forall c, info_list (info_node l o1 (pinfo_below parent nm)) c ch = info_list (info_node l o2 (pinfo_below parent nm)) c ch).
    { clear HA. induction IHch as [|x r Hx Hr IH]; intros c; [reflexivity|].
      cbn [forallb] in HC. apply andb_true_iff in HC as [HC1 HC2]. cbn [info_list].
      rewrite (Hx l o1 o2 (pinfo_below parent nm) c HS HC1). fold (info_list (info_node l o1 (pinfo_below parent nm))). fold (info_list (info_node l o2 (pinfo_below parent nm))).
      now rewrite (IH HC2 None). }
    now rewrite E.
  - destruct HS as (A & B & C & D). cbn [info_node]. now rewrite (spec_text_keep l o1 o2 parent cur t A B C D).
Qed.

(* compact and canonical generation of one tree are read back as the same document *)
Theorem c07_xml_compact_canonical l i1 i2 nm attrs ch out1 out2 :
  lang_ok l = true -> plain_attrs (Elt nm attrs ch) = true ->
  node_ok l (opts_of_params Compact i1 true) proot None (Elt nm attrs ch) = true ->
  node_ok l (opts_of_params Canonical i2 true) proot None (Elt nm attrs ch) = true ->
  enc_xml l Compact i1 true [Elt nm attrs ch] = XOk out1 ->
  enc_xml l Canonical i2 true [Elt nm attrs ch] = XOk out2 ->
  forall fuel, (node_fuel (Elt nm attrs ch) + 2 <= fuel)%nat ->
    exists d, read_xml fuel out1 = ROk d /\ read_xml fuel out2 = ROk d.
Proof.
  intros HL HP H1 H2 E1 E2 fuel Hf.
  destruct (read_enc_compact_canonical l Compact i1 true nm attrs ch out1 ltac:(discriminate) HL H1 E1) as (it1 & I1 & R1).
  destruct (read_enc_compact_canonical l Canonical i2 true nm attrs ch out2 ltac:(discriminate) HL H2 E2) as (it2 & I2 & R2).
  rewrite (c07_xml_info_indep _ l _ (opts_of_params Canonical i2 true) proot None) in I1; [|repeat split|exact HP].
  assert (it1 = it2) by congruence. subst it2.
  exists (doc_of l it1). split; [apply R1|apply R2]; exact Hf.
Qed.

(* ------------------------------------------------------------------ *)
(* 9. indentation is never added inside an element that has only text  *)

Definition all_text (ch : list node) : bool := forallb (fun n => match n with Text _ => true | _ => false end) ch.

Lemma all_text_no_child_elt ch : all_text ch = true -> have_child_elt ch = false.
Proof.
  induction ch as [|n ch IH]; [reflexivity|]. cbn [all_text forallb have_child_elt existsb]. intros H.
  apply andb_true_iff in H as [H1 H2]. destruct n; try discriminate. cbn [orb]. now apply IH.
Qed.

(* the options a text node looks at *)
Definition text_opts_eq (o1 o2 : opts) : Prop :=
  is_canonical o1 = is_canonical o2 /\ o_ignore_empty o1 = o_ignore_empty o2 /\ o_remove_blanks o1 = o_remove_blanks o2.

Lemma parse_text_opts l o1 o2 p s c : text_opts_eq o1 o2 -> parse_text l o1 p s c = parse_text l o2 p s c.
Proof.
  intros (A & B & C). unfold parse_text, text_policy, xml_encode_text. now rewrite A, B, C.
Qed.

Lemma seq_text_opts l o1 o2 p1 ch : all_text ch = true -> text_opts_eq o1 o2 ->
  forall s, seq_nodes (enc_node l o1 p1) ch s = seq_nodes (enc_node l o2 p1) ch s.
Proof.
  intros HA HO. induction ch as [|n ch IH]; intros s; [reflexivity|].
  cbn [all_text forallb] in HA. apply andb_true_iff in HA as [H1 H2]. destruct n; try discriminate.
  cbn [seq_nodes enc_node]. rewrite (parse_text_opts l o1 o2 p1 s s0 HO).
  destruct (parse_text l o2 p1 s s0) as [[b1 s1]|]; [|reflexivity].
  fold (seq_nodes (enc_node l o1 p1)). fold (seq_nodes (enc_node l o2 p1)). now rewrite (IH H2).
Qed.

Lemma parse_text_indent l o p st c b s1 : parse_text l o p st c = XOk (b, s1) -> e_indent s1 = e_indent st.
Proof.
  unfold parse_text. destruct (text_policy o p st c); [|intros E; now injection E as _ <-].
  unfold xml_encode_text. destruct (e_in_cdata st); [intros E; now injection E as _ <-|].
  destruct (tag_is_binary (text_tag st p)); [destruct (b64_enc _); [|discriminate]|]; intros E; now injection E as _ <-.
Qed.

Lemma seq_text_indent l o p ch : all_text ch = true ->
  forall st b s', seq_nodes (enc_node l o p) ch st = XOk (b, s') -> e_indent s' = e_indent st.
Proof.
  induction ch as [|n r IH]; intros HA st b s' E.
  - cbn in E. now injection E as _ <-.
  - cbn [all_text forallb] in HA. apply andb_true_iff in HA as [H1 H2]. destruct n; try discriminate.
    cbn [seq_nodes enc_node] in E.
    destruct (parse_text l o p st s) as [[b1 s1]|] eqn:EP; [|discriminate].
    fold (seq_nodes (enc_node l o p)) in E.
    destruct (seq_nodes (enc_node l o p) r (reset_cur s1)) as [[b2 s2]|] eqn:E2; [|discriminate].
    injection E as _ <-. rewrite (IH H2 _ _ _ E2). cbn [reset_cur e_indent]. exact (parse_text_indent _ _ _ _ _ _ _ EP).
Qed.

(* an element whose children are all text: indented generation writes the compact text of the element, preceded
   by the indentation of its line and followed by a line break — nothing is added inside *)
Theorem indent_text_only_exact l delta ig rb parent s nm attrs ch bc sc :
  all_text ch = true -> ch <> [] ->
  enc_node l (mk_opts Compact 1 ig rb) parent s (Elt nm attrs ch) = XOk (bc, sc) ->
  exists si,
    enc_node l (mk_opts Indent delta ig rb) parent s (Elt nm attrs ch) =
      XOk (spaces (e_indent s * delta) ++ bc ++ [10], si) /\ e_indent si = e_indent s.
Proof.
  intros HA Hne Hc. rewrite enc_node_elt in *.
  unfold xml_encode_tag, xml_encode_end_attrs, xml_encode_end_tag, nl_if, indent_bytes in *.
  rewrite (all_text_no_child_elt ch HA) in *. cbn [is_indent o_gen o_delta andb] in *.
  destruct ch as [|c0 ch0]; [contradiction|].
  rewrite (seq_text_opts l (mk_opts Indent delta ig rb) (mk_opts Compact 1 ig rb) (pinfo_below parent nm) (c0 :: ch0) HA) by (repeat split).
  match type of Hc with context [seq_nodes ?f ?c ?st] => destruct (seq_nodes f c st) as [[b4 s4]|] eqn:E4; [|discriminate] end.
  assert (Hbc : bc = ([] ++ [60] ++ tname_bytes nm ++ xmlns_part l parent nm) ++
                     parse_attributes l (mk_opts Compact 1 ig rb) attrs ++ [62] ++ b4 ++
                     [] ++ s_end_open ++ tname_bytes nm ++ [62] ++ []) by congruence.
  subst bc. clear Hc.
  assert (Hind : e_indent s4 = e_indent s) by (rewrite (seq_text_indent _ _ _ _ HA _ _ _ E4); reflexivity).
  eexists. split.
  - f_equal. apply f_equal2; [|reflexivity].
    assert (HPA : parse_attributes l (mk_opts Indent delta ig rb) attrs = parse_attributes l (mk_opts Compact 1 ig rb) attrs) by reflexivity.
    rewrite HPA. unfold nl.
    repeat (rewrite <- app_assoc || rewrite <- app_comm_cons || rewrite app_nil_r || rewrite app_nil_l). reflexivity.
  - exact Hind.
Qed.
