(* C08 — hard-wired typed elements: the probe results (Gen/HardWired.v) against the tables and the pinned names. *)
From Coq Require Import List NArith String Bool.
From Wbxml Require Import Model.TablesDefs Model.Tables Model.HardWiredDefs Gen.TablesData Gen.HardWired.
Import ListNotations.
Local Open Scope N_scope.

Lemma kind_eqb_eq : forall a b, kind_eqb a b = true -> a = b.
Proof. intros [] [] H; cbn in H; congruence. Qed.
Lemma where_eqb_eq : forall a b, where_eqb a b = true -> a = b.
Proof. intros [] [] H; cbn in H; congruence. Qed.

Lemma existsb_N_in : forall x l, existsb (N.eqb x) l = true -> In x l.
Proof. intros x l H. apply existsb_exists in H. destruct H as [y [Hin Hy]]. apply N.eqb_eq in Hy. now subst. Qed.
Lemma existsb_str_in : forall x l, existsb (String.eqb x) l = true -> In x l.
Proof. intros x l H. apply existsb_exists in H. destruct H as [y [Hin Hy]]. apply String.eqb_eq in Hy. now subst. Qed.

(* the (language, place, page, token, type) singled out by the code has a row, and the row's name is one of the
   names pinned for that language, place and type (language-wide handling: the language is pinned) *)
Definition intended_P (main : list lang) (pins : list intended) (h : hw) : Prop :=
  exists n i, hw_row_name main h = Some n /\ In i pins /\ In (hw_lang h) (i_langs i) /\
              hw_place h = i_place i /\ hw_type h = i_type i /\
              (hw_place h = HAttrAny \/ hw_place h = HContentAny \/ In n (i_names i)).

Lemma hw_intended_sound : forall main pins h, hw_intended main pins h = true -> intended_P main pins h.
Proof.
  unfold hw_intended, intended_P. intros main pins h H.
  destruct (hw_row_name main h) as [n|]; [|discriminate].
  apply existsb_exists in H. destruct H as [i [Hin Hi]].
  repeat (apply andb_true_iff in Hi; destruct Hi as [Hi ?]).
  exists n, i. split; [reflexivity|]. split; [assumption|].
  split; [now apply existsb_N_in|]. split; [now apply where_eqb_eq|]. split; [now apply kind_eqb_eq|].
  destruct (hw_place h); [right; right; now apply existsb_str_in | now left | right; right; now apply existsb_str_in
                         | right; right; now apply existsb_str_in | right; now left].
Qed.

Lemma hw_eqb_eq : forall a b, hw_eqb a b = true -> a = b.
Proof.
  intros [l1 w1 p1 t1 k1] [l2 w2 p2 t2 k2] H. unfold hw_eqb in H. cbn in H.
  repeat (apply andb_true_iff in H; destruct H as [H ?]).
  apply N.eqb_eq in H. repeat match goal with X : (_ =? _) = true |- _ => apply N.eqb_eq in X end.
  match goal with X : where_eqb _ _ = true |- _ => apply where_eqb_eq in X end.
  match goal with X : kind_eqb _ _ = true |- _ => apply kind_eqb_eq in X end.
  congruence.
Qed.

(* e's place is handled with e's type in the other direction (parser / XML generator), or e is a pinned one-sided entry *)
Definition decoded_same_P (dec exc : list hw) (e : hw) : Prop :=
  In e exc \/ In e dec \/
  (hw_place e <> HContent /\ hw_place e <> HContentAny /\
   exists d, In d dec /\ hw_lang d = hw_lang e /\ hw_place d = HAttrAny /\ hw_type d = hw_type e).

Lemma enc_matched_sound : forall dec exc e, enc_matched dec exc e = true -> decoded_same_P dec exc e.
Proof.
  unfold enc_matched, decoded_same_P. intros dec exc e H.
  apply orb_true_iff in H. destruct H as [H|H].
  - apply orb_true_iff in H. destruct H as [H|H].
    + left. apply existsb_exists in H. destruct H as [d [Hin Hd]]. apply hw_eqb_eq in Hd. now subst.
    + right. left. apply existsb_exists in H. destruct H as [d [Hin Hd]]. apply hw_eqb_eq in Hd. now subst.
  - right. right.
    assert (Hex : existsb (fun d => (hw_lang d =? hw_lang e) && where_eqb (hw_place d) HAttrAny && kind_eqb (hw_type d) (hw_type e)) dec = true
                  /\ hw_place e <> HContent /\ hw_place e <> HContentAny).
    { destruct (hw_place e); try discriminate; (split; [assumption | split; discriminate]). }
    destruct Hex as [Hex [H1 H2]]. split; [assumption|]. split; [assumption|].
    apply existsb_exists in Hex. destruct Hex as [d [Hin Hd]].
    repeat (apply andb_true_iff in Hd; destruct Hd as [Hd ?]). apply N.eqb_eq in Hd.
    exists d. repeat split; auto using where_eqb_eq, kind_eqb_eq.
Qed.

Lemma hardwired_ok_main : hardwired_ok main_table pinned_typed pinned_enc_only dec_hardwired enc_hardwired = true.
Proof. vm_compute. reflexivity. Qed.

Ltac split_ok H :=
  unfold hardwired_ok in H;
  apply andb_true_iff in H; destruct H as [H H4]; apply andb_true_iff in H; destruct H as [H H3];
  apply andb_true_iff in H; destruct H as [H H2]; apply andb_true_iff in H; destruct H as [H H1].

Lemma hardwired_intended : forall h, In h (dec_hardwired ++ enc_hardwired) -> intended_P main_table pinned_typed h.
Proof.
  intros h Hin. pose proof hardwired_ok_main as H. split_ok H.
  apply hw_intended_sound. apply in_app_or in Hin. destruct Hin as [Hin|Hin].
  - exact (proj1 (forallb_forall _ _) H h Hin).
  - exact (proj1 (forallb_forall _ _) H1 h Hin).
Qed.

Lemma encoder_forms_decoded : forall e, In e enc_hardwired -> decoded_same_P dec_hardwired pinned_enc_only e.
Proof.
  intros e Hin. pose proof hardwired_ok_main as H. split_ok H.
  apply enc_matched_sound. exact (proj1 (forallb_forall _ _) H2 e Hin).
Qed.

Lemma pins_realised : forallb (pin_realised main_table (dec_hardwired ++ enc_hardwired)) pinned_typed = true.
Proof. pose proof hardwired_ok_main as H. split_ok H. exact H3. Qed.

(* the pinned one-sided entries are really one-sided: written by the encoder, not handled in the other direction *)
Lemma enc_only_realised :
  forallb (fun x => existsb (hw_eqb x) enc_hardwired && negb (existsb (hw_eqb x) dec_hardwired)) pinned_enc_only = true.
Proof. pose proof hardwired_ok_main as H. split_ok H. exact H4. Qed.

(* table option BINARY: exactly the flagged rows are written as OPAQUE by the WBXML encoder and rendered in base64 by the
   XML generator (probe over every real tag row) *)
Lemma binary_rows_main : binary_rows_ok main_table enc_binary_rows xml_binary_rows = true.
Proof. vm_compute. reflexivity. Qed.
