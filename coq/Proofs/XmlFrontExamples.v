(* C02 (front end) — concrete runs of Model/XmlFront.v on the regenerated tables: witnesses (the strict reading of
   "sticky error" is refuted by the end-element callback) and non-vacuity examples for the theorems. *)
From Coq Require Import List NArith String Lia Bool.
From Wbxml Require Import Model.TablesDefs Model.Tables Model.Codec Model.LangSelect Model.EncWbxml Model.XmlFront.
From Wbxml Require Import Gen.TablesData Proofs.XmlFrontProofs Proofs.XmlFrontTree Proofs.XmlFrontBalance.
Import ListNotations.
Local Open Scope N_scope.

Definition no_sub : bytes -> xtree + N := fun _ => inr E_XML_PARSING_FAILED.

(* ------------------------------------------------------------------ cached base64 text and the error field *)

(* <Sync xmlns="AirSync:"> <Add> x 998 <ConversationId xmlns="Email2:"> TEXT <x> ...
   ConversationId is binary-flagged and has 999 ancestors, so <x> would be refused (NESTING_TOO_DEEP).  Since /repo
   c0648d3 the start-element callback first decodes the text cached on `current` (flush_binary_content): bad base64
   is reported there (19), before the depth check (55); good base64 becomes a text node in front of the refused child.
   (Before that commit the cache survived the error and the end-element callback, which decodes BEFORE it looks at the
   error field, replaced the recorded code or added a node after the error: those two witnesses are gone.) *)
Definition deep_binary (text : string) : list event :=
  EvStartElement (bs "AirSync:|Sync") [] 0 ::
  repeat (EvStartElement (bs "AirSync:|Add") [] 0) 998 ++
  [EvStartElement (bs "Email2:|ConversationId") [] 0; EvCharacters (bs text); EvStartElement (bs "x") [] 0].

Definition top_kids (c : ctx) : nat := match c_spine c with f :: _ => List.length (f_rkids f) | [] => O end.

Lemma flush_precedes_depth_check :
  c_error (run main_table no_sub [] init_ctx (deep_binary "!!!!")) = E_B64_DEC /\
  (let c := run main_table no_sub [] init_ctx (deep_binary "YWJj") in
   c_error c = E_NESTING_TOO_DEEP /\ top_kids c = 1%nat /\
   step main_table no_sub [] c (EvEndElement (bs "x") 0) = c).
Proof. vm_compute. repeat split; reflexivity. Qed.

(* <Sync><ConversationId>Zg==<x/>b28=</ConversationId>: each run of base64 text is decoded on its own and stays where it
   was: text "f", element x, text "oo" *)
Lemma binary_mixed_content_in_order :
  let c := run main_table no_sub [] init_ctx
             [EvStartElement (bs "AirSync:|Sync") [] 0; EvStartElement (bs "Email2:|ConversationId") [] 0;
              EvCharacters (bs "Zg=="); EvStartElement (bs "AirSync:|Add") [] 0; EvEndElement (bs "AirSync:|Add") 0;
              EvCharacters (bs "b28="); EvEndElement (bs "Email2:|ConversationId") 0] in
  c_error c = WBXML_OK /\
  match c_spine c with
  | [f] => match kids_of f with
           | [NElt _ _ [NText a; NElt _ _ []; NText b]] => a = bs "f" /\ b = bs "oo"
           | _ => False
           end
  | _ => False
  end.
Proof. vm_compute. repeat split; reflexivity. Qed.

(* ------------------------------------------------------------------ examples *)

(* <!DOCTYPE wml PUBLIC "-//WAPFORUM//DTD WML 1.3//EN" ...><wml><card id="c"><p>a&amp;b</p><zz/></card></wml> *)
Definition ex_wml : list event :=
  [EvXmlDecl (Some (bs "1.0")) (Some (bs "ISO-8859-1"));
   EvStartDoctype (bs "wml") (Some (bs "http://www.wapforum.org/DTD/wml13.dtd")) (Some (bs "-//WAPFORUM//DTD WML 1.3//EN"));
   EvStartElement (bs "wml") [] 100;
   EvStartElement (bs "card") [(bs "id", bs "c")] 105;
   EvStartElement (bs "p") [] 119; EvCharacters (bs "a"); EvCharacters (bs "&"); EvCharacters (bs "b"); EvEndElement (bs "p") 130;
   EvStartElement (bs "zz") [] 134; EvEndElement (bs "zz") 134;
   EvEndElement (bs "card") 139; EvEndElement (bs "wml") 146].

Example ex_wml_tree :
  tree_from_xml main_table no_sub [60] ex_wml true =
  inl (mk_xtree 1104 4
         [NElt (TagTok 0 63 0 (bs "wml")) []
            [NElt (TagTok 0 39 0 (bs "card")) [mk_at (AttrTok 0 85 (bs "id") None) (bs "c")]
               [NElt (TagTok 0 32 0 (bs "p")) [] [NText (bs "a&b")]; NElt (TagLit (bs "zz")) [] []]]]).
Proof. vm_compute. reflexivity. Qed.

Example ex_wml_balanced :
  balanced [EvStartElement (bs "card") [(bs "id", bs "c")] 105;
            EvStartElement (bs "p") [] 119; EvCharacters (bs "a"); EvCharacters (bs "&"); EvCharacters (bs "b"); EvEndElement (bs "p") 130;
            EvStartElement (bs "zz") [] 134; EvEndElement (bs "zz") 134;
            EvEndElement (bs "card") 139].
Proof.
  apply (B_elt _ _ _ _ [_; _; _; _; _; _; _] []); [|constructor].
  apply (B_elt _ _ _ _ [_; _; _] [_; _]).
  - repeat constructor.
  - apply (B_elt _ _ _ _ [] []); constructor.
Qed.

(* SyncML 1.2 <Results><Item><Data><DevInf xmlns="syncml:devinf"><Man/></DevInf></Data></Item></Results> with the bytes
   of the document abstracted: the nested parse is asked for exactly the DOCTYPE + range + "</DevInf>" text *)
Definition ex_input : bytes := bs "0123456789<DevInf xmlns='syncml:devinf'><Man/></DevInf>".
Definition ex_nested : xtree := mk_xtree 2202 0 [NElt (TagTok 0 10 0 (bs "DevInf")) [] [NElt (TagTok 0 17 0 (bs "Man")) [] []]].
Definition ex_sub (doc : bytes) : xtree + N :=
  if beq doc (bs "<!DOCTYPE DevInf PUBLIC ""-//SYNCML//DTD DevInf 1.2//EN"" ""http://www.openmobilealliance.org/tech/DTD/OMA-SyncML-Device_Information-DTD-1.2.dtd"">" ++ [10]
              ++ bs "<DevInf xmlns='syncml:devinf'><Man/></DevInf>")
  then inl ex_nested else inr E_XML_PARSING_FAILED.

Definition ex_syncml : list event :=
  [EvStartDoctype (bs "SyncML") None (Some (bs "-//SYNCML//DTD SyncML 1.2//EN"));
   EvStartElement (bs "SYNCML:SYNCML1.2|SyncML") [] 0;
   EvStartElement (bs "SYNCML:SYNCML1.2|Data") [] 4;
   EvStartElement (bs "syncml:devinf|DevInf") [] 10; EvStartElement (bs "syncml:devinf|Man") [] 40; EvEndElement (bs "syncml:devinf|Man") 40;
   EvEndElement (bs "syncml:devinf|DevInf") 46;
   EvEndElement (bs "SYNCML:SYNCML1.2|Data") 54; EvEndElement (bs "SYNCML:SYNCML1.2|SyncML") 60].

Example ex_syncml_tree :
  tree_from_xml main_table ex_sub ex_input ex_syncml true =
  inl (mk_xtree 2201 0
         [NElt (TagTok 0 45 0 (bs "SyncML")) []
            [NElt (TagTok 0 15 0 (bs "Data")) [] [NTree 2202 (xt_roots ex_nested)]]]).
Proof. vm_compute. reflexivity. Qed.

Example ex_syncml_final_state :
  let c := run main_table ex_sub ex_input init_ctx ex_syncml in
  c_error c = WBXML_OK /\ c_skip_lvl c = 0 /\ List.length (c_spine c) = 1%nat.
Proof. vm_compute. auto. Qed.

(* no language: no DOCTYPE and a root element that no table knows *)
Example ex_unknown_root :
  tree_from_xml main_table no_sub [60] [EvStartElement (bs "nobody") [] 0; EvEndElement (bs "nobody") 0] true = inr E_UNKNOWN_XML_LANGUAGE.
Proof. vm_compute. reflexivity. Qed.

Example ex_unknown_root_premise : search_table main_table None None (Some (str (bs "nobody"))) = None.
Proof. vm_compute. reflexivity. Qed.

(* SyncML vCard: the missing CDATA section is added below <Data>, a lone LF becomes CR LF *)
Example ex_vcard :
  tree_from_xml main_table no_sub [60]
    [EvStartDoctype (bs "SyncML") None (Some (bs "-//SYNCML//DTD SyncML 1.1//EN"));
     EvStartElement (bs "SyncML") [] 0; EvStartElement (bs "Add") [] 0; EvStartElement (bs "Item") [] 0; EvStartElement (bs "Data") [] 0;
     EvCharacters (bs "BEGIN:VCARD"); EvCharacters [10]; EvCharacters (bs "END:VCARD");
     EvEndElement (bs "Data") 0; EvEndElement (bs "Item") 0; EvEndElement (bs "Add") 0; EvEndElement (bs "SyncML") 0] true =
  inl (mk_xtree 2101 0
         [NElt (TagTok 0 45 0 (bs "SyncML")) []
            [NElt (TagTok 0 5 0 (bs "Add")) []
               [NElt (TagTok 0 20 0 (bs "Item")) []
                  [NElt (TagTok 0 15 0 (bs "Data")) [] [NCData [NText (bs "BEGIN:VCARD" ++ [13; 10] ++ bs "END:VCARD")]]]]]]).
Proof. vm_compute. reflexivity. Qed.

(* the hypotheses of the tree-shape theorem are satisfiable: the example trees satisfy the predicate *)
Example ex_nested_ok : tree_ok ex_nested.
Proof. unfold tree_ok, ex_nested. cbn. repeat split; repeat constructor; cbn; auto; lia. Qed.
