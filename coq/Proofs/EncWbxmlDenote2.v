(* C06 — denotation of the encoder's output for trees WITH ATTRIBUTES (no string table): the abstract document written
   (Proofs/EncWbxmlAbs.v) denotes, for the decoder's table L with the encoder's tables being L's converted to bytes
   (to_blang L), exactly the events of the normalised source tree — element names, attributes in order with their full
   values (start-token prefix ++ value tokens ++ inline remainders), character data. *)
From Coq Require Import List NArith Lia Bool.
From Wbxml Require Import Base.Bits Model.Codec Model.TablesDefs Model.EncWbxml Model.TreeNorm
     Proofs.EncWbxmlProofs Proofs.TreeNormProofs Proofs.EncWbxmlAbs.
From Wbxml Require Model.Parser Model.Spec.
Import ListNotations.
Local Open Scope N_scope.

Module P := Wbxml.Model.Parser.

(* ---- the encoder's tables are the decoder's (same conversion as Model/EncWbxmlTables.v: blang_of_lang) ---------------- *)
Definition obos (o : option String.string) : option bytes := match o with Some s => Some (P.B s) | None => None end.
Definition omap {A B} (f : A -> B) (o : option (list A)) : option (list B) :=
  match o with Some l => Some (map f l) | None => None end.
Definition cv_tag (r : tag_row) : btag := mk_btag (P.B (t_name r)) (t_page r) (t_tok r) (t_opts r).
Definition cv_attr (r : attr_row) : battr := mk_battr (P.B (a_name r)) (obos (a_value r)) (a_page r) (a_tok r).
Definition cv_val (r : val_row) : bval := mk_bval (P.B (v_name r)) (v_page r) (v_tok r).
Definition cv_ext (r : ext_row) : bext := mk_bext (P.B (e_name r)) (e_tok r).
Definition to_blang (L : lang) : blang :=
  mk_blang (l_id L) (l_pub_num L) (obos (l_pub_text L))
           (omap cv_tag (l_tags L)) (omap cv_attr (l_attrs L)) (omap cv_val (l_vals L)) (omap cv_ext (l_exts L)).

(* ---- events of a tree with attributes ----------------------------------------------------------------------------------- *)
Definition attr_event (a : attr) : P.attrname * bytes :=
  (match at_name a with AttrTok p t nm _ => P.AttrTok p t nm | AttrLit nm => P.AttrLit nm end, at_value a).

Fixpoint events2 (with_attrs : bool) (n : node) : list P.event :=
  match n with
  | NElt (TagTok p t _ nm) attrs ch =>
    P.EvStartElt (P.TagTok p t nm) (if with_attrs then map attr_event attrs else [])
      :: flat_map (events2 with_attrs) ch ++ [P.EvEndElt (P.TagTok p t nm)]
  | NText c => match cstr c with [] => [] | s => [P.EvChars s] end
  | _ => []
  end.

(* ---- hypotheses on tables and tree ------------------------------------------------------------------------------------------ *)
Definition okb (b : bytes) : bool := S.str_okb b.       (* octets < 256, no NUL *)

(* every attribute value row is found again under its own (page, token) with its own name, and is a legal value token *)
Definition val_row_ok (L : lang) (r : val_row) : bool :=
  S.aval_tok_okb (v_tok r) && (v_page r <? 256) &&
  match S.lookup_val L (v_page r) (v_tok r) with Some r' => beq (P.B (v_name r')) (P.B (v_name r)) | None => false end.
Definition vals_ok (L : lang) : bool := forallb (val_row_ok L) (opt_list (l_vals L)).

Definition attr_ok2 (L : lang) (a : attr) : bool :=
  okb (at_value a) &&
  match at_name a with
  | AttrTok p t nm oval =>
    S.astart_tok_okb t && (p <? 256) &&
    match S.lookup_attr L p t with
    | Some r => (a_page r =? p) && (a_tok r =? t) && beq (P.B (a_name r)) nm &&
                match a_value r, oval with
                | Some v, Some xv => beq (P.B v) xv && is_prefix xv (at_value a)
                | None, None => true
                | _, _ => false
                end
    | None => false
    end
  | AttrLit _ => false
  end.

Fixpoint tree_ok2 (L : lang) (depth : N) (n : node) : bool :=
  match n with
  | NElt (TagTok p t o nm) attrs ch =>
    (5 <=? t) && (t <? 64) && (N.land o 1 =? 0) && (p <? 256) && (depth <=? 1000) &&
    match S.lookup_tag L p t with
    | Some r => (t_page r =? p) && (t_tok r =? t) && beq (P.B (t_name r)) nm
    | None => false
    end && forallb (attr_ok2 L) attrs && forallb (tree_ok2 L (depth + 1)) ch
  | NText c => forallb (fun x => x <? 256) c
  | _ => false
  end.

(* ---- small facts ------------------------------------------------------------------------------------------------------------- *)
Lemma okb_cstr b : okb b = true -> cstr b = b.
Proof.
  unfold okb, S.str_okb, S.nul_free. intros H. apply andb_true_iff in H as [_ H].
  induction b as [|c r IH]; cbn [cstr forallb] in *; [reflexivity|]. apply andb_true_iff in H as [Hc Hr].
  apply negb_true_iff in Hc. change (N.eqb c 0) with (c =? 0). rewrite Hc. now rewrite IH.
Qed.

Lemma okb_app a b : okb (a ++ b) = okb a && okb b.
Proof.
  unfold okb, S.str_okb, S.bytes_okb, S.nul_free. rewrite !forallb_app.
  destruct (forallb S.is_byte a), (forallb S.is_byte b), (forallb _ a), (forallb _ b); reflexivity.
Qed.

Lemma okb_firstn n b : okb b = true -> okb (firstn n b) = true.
Proof. intros H. rewrite <- (firstn_skipn n b) in H. rewrite okb_app in H. now apply andb_true_iff in H as [H _]. Qed.
Lemma okb_skipn n b : okb b = true -> okb (skipn n b) = true.
Proof. intros H. rewrite <- (firstn_skipn n b) in H. rewrite okb_app in H. now apply andb_true_iff in H as [_ H]. Qed.

Lemma is_prefix_split p : forall s, is_prefix p s = true -> s = p ++ skipn (List.length p) s.
Proof.
  induction p as [|x p IH]; intros s H; [reflexivity|]. destruct s as [|y s]; [discriminate|].
  cbn [is_prefix] in H. apply andb_true_iff in H as [H1 H2]. apply N.eqb_eq in H1. subst y.
  cbn [List.length skipn app]. f_equal. now apply IH.
Qed.

Lemma find_map {A B} (f : A -> B) (g : B -> bool) l : find g (map f l) = option_map f (find (fun a => g (f a)) l).
Proof. induction l as [|a r IH]; cbn [map find option_map]; [reflexivity|]. destruct (g (f a)); [reflexivity|exact IH]. Qed.

(* ---- value elements of an attribute value ------------------------------------------------------------------------------------- *)
Definition vden (rows : list bval) (v : velt) : bytes :=
  match v with
  | VStr s => s
  | VAttrTok p t => match find (fun r => (bv_page r =? p) && (bv_tok r =? t)) rows with Some r => bv_name r | None => [] end
  | _ => []
  end.

Definition av_ok (rows : list bval) (v : velt) : bool :=
  match v with
  | VStr s => okb s
  | VAttrTok p t => existsb (fun r => (bv_page r =? p) && (bv_tok r =? t)) rows
  | _ => false
  end.

Lemma split_sweep_av rows find mk : av_ok rows mk = true ->
  forall fuel l l', split_sweep fuel find mk l = Some l' -> forallb (av_ok rows) l = true -> forallb (av_ok rows) l' = true.
Proof.
  intros Hm. induction fuel as [|f IH]; intros l l'; cbn [split_sweep]; [discriminate|].
  destruct l as [|v r]; [intros H; now injection H as <-|].
  destruct v as [s|t|p t|off]; cbn [forallb].
  - destruct (find s) as [[idx mlen]|].
    + destruct (split_sweep f find mk _) as [r'|] eqn:Sx; [|discriminate]. intros H Hl; injection H as <-.
      apply andb_true_iff in Hl as [Hs Hr]. cbn [av_ok] in Hs.
      cbn [forallb av_ok]. rewrite (okb_firstn _ _ Hs), Hm. cbn [andb]. apply (IH _ _ Sx).
      destruct (idx + mlen <? len s); cbn [forallb av_ok]; [rewrite (okb_skipn _ _ Hs)|]; exact Hr.
    + destruct (split_sweep f find mk r) as [r'|] eqn:Sx; [|discriminate]. intros H Hl; injection H as <-.
      apply andb_true_iff in Hl as [Hs Hr]. cbn [forallb]. rewrite Hs. now apply (IH _ _ Sx).
  - intros _ H. discriminate.
  - destruct (split_sweep f find mk r) as [r'|] eqn:Sx; [|discriminate]. intros H Hl; injection H as <-.
    apply andb_true_iff in Hl as [Hs Hr]. cbn [forallb]. rewrite Hs. now apply (IH _ _ Sx).
  - intros _ H. discriminate.
Qed.

Lemma pass_vals_av rows sub : (forall r, In r sub -> In r rows) ->
  forall l l', pass_vals sub l = Some l' -> forallb (av_ok rows) l = true -> forallb (av_ok rows) l' = true.
Proof.
  induction sub as [|r rest IH]; intros Hin l l'; cbn [pass_vals]; [intros H; now injection H as <-|].
  unfold sweep. destruct (split_sweep _ _ _ l) as [l1|] eqn:Sx; [|discriminate]. intros H Hl.
  apply (IH (fun y Hy => Hin y (or_intror Hy)) _ _ H). eapply split_sweep_av; [|exact Sx|exact Hl].
  cbn [av_ok]. apply existsb_exists. exists r. split; [apply Hin; now left|now rewrite !N.eqb_refl].
Qed.

(* the value elements of an attribute value, without string table *)
Lemma split_value_attr_nostr e st buf l : e_use_strtbl e = false -> okb buf = true ->
  split_value e st true buf = Some l ->
  forallb (av_ok (match bl_vals (e_lang e) with Some rows => rows | None => [] end)) l = true.
Proof.
  intros HU Hb. unfold split_value. cbv zeta. cbn [negb andb]. rewrite HU. cbn [andb].
  destruct (bl_vals (e_lang e)) as [rows|].
  - destruct (pass_vals rows [VStr buf]) as [l1|] eqn:PV; [|discriminate]. intros E; injection E as <-.
    apply (pass_vals_av rows rows (fun r H => H) _ _ PV). cbn. now rewrite Hb.
  - intros E; injection E as <-. cbn. now rewrite Hb.
Qed.

Section Vals.
  Variable L : lang.
  Hypothesis HV : vals_ok L = true.
  Variable tb : bytes.
  Let env := S.mk_denv L tb.
  Let rows := match bl_vals (to_blang L) with Some r => r | None => [] end.

  Lemma rows_eq : rows = map cv_val (opt_list (l_vals L)).
  Proof. unfold rows, to_blang. cbn [bl_vals]. destruct (l_vals L); reflexivity. Qed.

  (* a token of the table, under its own page, denotes the name the encoder replaced *)
  Lemma den_tok p t (dst : S.dstate) :
    existsb (fun r => (bv_page r =? p) && (bv_tok r =? t)) rows = true ->
    S.den_val env (S.WValTok (if S.ds_attrcp dst =? p then None else Some p) t) dst
    = Some (vden rows (VAttrTok p t), S.mk_dstate (S.ds_tagcp dst) p (S.ds_cur dst)) \/
    (S.ds_attrcp dst = p /\ S.den_val env (S.WValTok None t) dst = Some (vden rows (VAttrTok p t), dst)).
  Proof.
    intros Hex. rewrite rows_eq in *. apply existsb_exists in Hex as (br & Hin & Hpt).
    apply in_map_iff in Hin as (r & <- & Hin). cbn [cv_val bv_page bv_tok] in Hpt.
    apply andb_true_iff in Hpt as [Hp Ht]. apply N.eqb_eq in Hp, Ht. subst p t.
    unfold vals_ok in HV. rewrite forallb_forall in HV. specialize (HV r Hin). unfold val_row_ok in HV.
    apply andb_true_iff in HV as [HV1 Hlk]. apply andb_true_iff in HV1 as [Htok Hpage].
    destruct (S.lookup_val L (v_page r) (v_tok r)) as [r'|] eqn:LK; [|discriminate]. apply beq_eq in Hlk.
    assert (Hden : vden (map cv_val (opt_list (l_vals L))) (VAttrTok (v_page r) (v_tok r)) = P.B (v_name r')).
    { cbn [vden]. rewrite find_map. cbn [cv_val bv_page bv_tok]. unfold S.lookup_val in LK. rewrite LK. reflexivity. }
    rewrite Hden.
    destruct (S.ds_attrcp dst =? v_page r) eqn:E.
    - right. apply N.eqb_eq in E. split; [exact E|].
      cbn [S.den_val S.sw_okb S.apply_sw andb]. rewrite Htok. unfold env. cbn [S.de_lang]. rewrite E, LK. reflexivity.
    - left. cbn [S.den_val S.sw_okb S.apply_sw S.ds_attrcp]. unfold S.is_byte. rewrite Hpage, Htok. cbn [andb].
      unfold env. cbn [S.de_lang]. rewrite LK. reflexivity.
  Qed.

  Lemma den_velts l : forall (st : est) (dst : S.dstate),
    forallb (av_ok rows) l = true -> S.ds_attrcp dst = attrcp st ->
    exists dst', S.den_vals env (fst (abs_velts st l)) dst = Some (flat_map (vden rows) l, dst') /\
                 S.ds_attrcp dst' = attrcp (snd (abs_velts st l)) /\ S.ds_tagcp dst' = S.ds_tagcp dst /\ S.ds_cur dst' = S.ds_cur dst.
  Proof.
    induction l as [|v r IH]; intros st dst Hl Hcp; cbn [abs_velts flat_map].
    - exists dst. cbn. auto.
    - cbn [forallb] in Hl. apply andb_true_iff in Hl as [Hv Hr].
      destruct v as [s|t|p t|off]; try discriminate.
      + destruct (IH st dst Hr Hcp) as (dst' & E & A & B & C).
        destruct (abs_velts st r) as [w' st2]. cbn [fst snd] in *.
        exists dst'. split; [|auto]. cbn [av_ok] in Hv.
        destruct (0 <? len s) eqn:Z.
        * cbn [app S.den_vals S.den_val S.den_str vden]. unfold okb in Hv. rewrite Hv, E. reflexivity.
        * assert (s = []) by (destruct s; [reflexivity|unfold len in Z; cbn in Z; discriminate]). subst s.
          cbn [app vden]. exact E.
      + cbn [av_ok] in Hv.
        assert (Hst : attrcp (snd (enc_attr_token st t p)) = p) by (unfold enc_attr_token; destruct (attrcp st =? p) eqn:E; cbn; [now apply N.eqb_eq in E|reflexivity]).
        rewrite <- Hcp.
        destruct (den_tok p t dst Hv) as [D|[Heq D]].
        * destruct (IH (snd (enc_attr_token st t p)) (S.mk_dstate (S.ds_tagcp dst) p (S.ds_cur dst)) Hr) as (dst' & E & A & B & C);
            [cbn; now rewrite Hst|].
          destruct (abs_velts (snd (enc_attr_token st t p)) r) as [w' st2]. cbn [fst snd] in *.
          exists dst'. split; [|auto]. cbn [app S.den_vals]. rewrite D, E. reflexivity.
        * destruct (IH (snd (enc_attr_token st t p)) dst Hr) as (dst' & E & A & B & C); [now rewrite Hst|].
          destruct (abs_velts (snd (enc_attr_token st t p)) r) as [w' st2]. cbn [fst snd] in *.
          exists dst'. split; [|auto]. rewrite Heq, N.eqb_refl. cbn [app S.den_vals]. rewrite D, E. reflexivity.
  Qed.
End Vals.

(* ---- one attribute ----------------------------------------------------------------------------------------------------------------- *)
Section Attr.
  Variable L : lang.
  Variable e : env.
  Hypothesis HE : e_lang e = to_blang L.
  Hypothesis HU : e_use_strtbl e = false.
  Hypothesis HP : plain_env e = true.
  Hypothesis HV : vals_ok L = true.
  Hypothesis HX : l_exts L = None.
  Variable tb : bytes.
  Let env := S.mk_denv L tb.
  Let rows := match bl_vals (to_blang L) with Some r => r | None => [] end.

  Lemma vden_row r : In r rows -> vden rows (VAttrTok (bv_page r) (bv_tok r)) = bv_name r.
  Proof.
    intros Hin. unfold rows in *. rewrite (rows_eq L) in *. apply in_map_iff in Hin as (r0 & <- & Hin).
    unfold vals_ok in HV. rewrite forallb_forall in HV. specialize (HV r0 Hin). unfold val_row_ok in HV.
    apply andb_true_iff in HV as [_ Hlk]. destruct (S.lookup_val L (v_page r0) (v_tok r0)) as [r'|] eqn:LK; [|discriminate].
    apply beq_eq in Hlk. cbn [vden cv_val bv_page bv_tok bv_name]. rewrite find_map. cbn [cv_val bv_page bv_tok].
    unfold S.lookup_val in LK. rewrite LK. cbn [option_map cv_val bv_name]. exact Hlk.
  Qed.

  Lemma not_datetime p t : S.is_datetime_attr (l_id L) p t = false.
  Proof.
    destruct (plain_env_split e HP) as (_ & _ & _ & Hsi & Hem & _). rewrite HE in Hsi, Hem. cbn [to_blang bl_id] in Hsi, Hem.
    unfold S.is_datetime_attr. unfold LANG_SI10, LANG_EMN10 in *. now rewrite Hsi, Hem.
  Qed.

  (* the value part *)
  Lemma den_value st buf w st' (dst : S.dstate) :
    strtbl st = [] -> okb buf = true -> S.ds_attrcp dst = attrcp st ->
    abs_value e st true buf = Some (w, st') ->
    exists dst', S.den_vals env w dst = Some (buf, dst') /\ S.ds_attrcp dst' = attrcp st' /\
                 S.ds_tagcp dst' = S.ds_tagcp dst /\ S.ds_cur dst' = S.ds_cur dst.
  Proof.
    intros Ht Hb Hcp. unfold abs_value. destruct buf as [|x s].
    - intros E; injection E as <- <-. exists dst. cbn. auto.
    - destruct (split_value e st true (x :: s)) as [l|] eqn:SV; [|discriminate]. intros E.
      pose proof (split_value_attr_nostr e st _ l HU Hb SV) as Hav. rewrite HE in Hav. fold rows in Hav.
      assert (Hden : flat_map (vden rows) l = x :: s).
      { apply (split_value_den (vden rows) (fun s0 => eq_refl) e st true (x :: s) l); [| | |exact SV].
        - rewrite HE. fold rows. intros r Hr. now apply vden_row.
        - rewrite HE. cbn [to_blang bl_exts]. rewrite HX. intros r [].
        - rewrite Ht. intros y []. }
      destruct (den_velts L HV tb l st dst Hav Hcp) as (dst' & D & A & B & C). fold rows in D.
      destruct (abs_velts st l) as [w0 st0]. injection E as <- <-. cbn [fst snd] in *.
      exists dst'. unfold env. rewrite D, Hden. auto.
  Qed.

  Lemma den_one_attr st a w st' (dst : S.dstate) :
    strtbl st = [] -> attr_ok2 L a = true -> S.ds_attrcp dst = attrcp st ->
    abs_attr e st a = Some (w, st') ->
    exists dst', S.den_attr env w dst = Some (fst (attr_event a), at_value a, dst') /\ S.ds_attrcp dst' = attrcp st' /\
                 S.ds_tagcp dst' = S.ds_tagcp dst /\ S.ds_cur dst' = S.ds_cur dst /\ strtbl st' = [].
  Proof.
    intros Ht Hok Hcp. unfold attr_ok2 in Hok. apply andb_true_iff in Hok as [Hval Hok].
    unfold abs_attr, abs_attr_start, attr_event. cbv zeta. rewrite (okb_cstr _ Hval).
    destruct (at_name a) as [p t nm oval|nm]; [|discriminate]. cbn [fst].
    apply andb_true_iff in Hok as [Hok Hlk]. apply andb_true_iff in Hok as [Htok Hpage].
    destruct (S.lookup_attr L p t) as [r|] eqn:LK; [|discriminate].
    apply andb_true_iff in Hlk as [Hlk Hvv]. apply andb_true_iff in Hlk as [Hlk Hn]. apply andb_true_iff in Hlk as [Hrp Hrt].
    apply N.eqb_eq in Hrp, Hrt. apply beq_eq in Hn.
    (* the start token, whatever the remaining value *)
    set (sw := if attrcp st =? p then None else Some p).
    set (st1 := snd (enc_attr_token st t p)).
    assert (Hst1 : attrcp st1 = p /\ strtbl st1 = []).
    { subst st1. unfold enc_attr_token. destruct (attrcp st =? p) eqn:E; cbn; [apply N.eqb_eq in E|]; auto. }
    assert (START : exists dst1, S.den_astart env (S.AStartTok sw t) dst
                     = Some (P.AttrTok p t nm, match a_value r with Some v => P.B v | None => [] end, dst1) /\
                     S.ds_attrcp dst1 = p /\ S.ds_tagcp dst1 = S.ds_tagcp dst /\ S.ds_cur dst1 = S.ds_cur dst).
    { subst sw. rewrite <- Hcp. cbn [S.den_astart]. destruct (S.ds_attrcp dst =? p) eqn:E.
      - apply N.eqb_eq in E. exists dst. cbn [S.sw_okb S.apply_sw andb]. rewrite Htok. unfold env. cbn [S.de_lang].
        rewrite E, LK, Hrp, Hrt, Hn. auto.
      - eexists. cbn [S.sw_okb S.apply_sw S.ds_attrcp]. unfold S.is_byte. rewrite Hpage, Htok. cbn [andb].
        unfold env. cbn [S.de_lang]. rewrite LK, Hrp, Hrt, Hn. split; [reflexivity|]. cbn. auto. }
    destruct START as (dst1 & DS & A1 & B1 & C1).
    (* finishing: den_attr from den_attr_raw, no date-time attribute in this language *)
    assert (FIN : forall v dst2, S.den_attr_raw env w dst = Some (P.AttrTok p t nm, v, dst2) ->
                  S.den_attr env w dst = Some (P.AttrTok p t nm, v, dst2)).
    { intros v dst2 R. unfold S.den_attr. rewrite R. destruct v; [reflexivity|]. unfold env. cbn [S.de_lang]. now rewrite not_datetime. }
    destruct (a_value r) as [rv|] eqn:RV; destruct oval as [xv|]; try discriminate.
    - apply andb_true_iff in Hvv as [Hxv Hpre]. apply beq_eq in Hxv. rewrite Hpre.
      pose proof (is_prefix_split xv _ Hpre) as Hsplit.
      destruct (len xv <? len (at_value a)) eqn:Hlen.
      + rewrite (okb_cstr _ (okb_skipn _ _ Hval)).
        destruct (abs_value e st1 true (skipn (List.length xv) (at_value a))) as [[w0 st2]|] eqn:AV; [|discriminate].
        intros E; injection E as <- <-.
        destruct (den_value st1 _ w0 st2 dst1 (proj2 Hst1) (okb_skipn _ _ Hval) (eq_trans A1 (eq_sym (proj1 Hst1))) AV) as (dst2 & DV & A2 & B2 & C2).
        exists dst2. split; [|repeat split; try congruence].
        * apply FIN. unfold S.den_attr_raw. cbn [S.wa_start S.wa_vals]. rewrite DS, DV, Hxv, <- Hsplit. reflexivity.
        * destruct (abs_value_same _ _ _ _ _ _ AV) as [S1 _]. rewrite S1. exact (proj2 Hst1).
      + intros E; injection E as <- <-. exists dst1. split; [|split; [rewrite A1; symmetry; exact (proj1 Hst1)|split; [exact B1|split; [exact C1|exact (proj2 Hst1)]]]].
        apply FIN. unfold S.den_attr_raw. cbn [S.wa_start S.wa_vals S.den_vals]. rewrite DS, Hxv, app_nil_r.
        assert (Hsk : skipn (List.length xv) (at_value a) = []).
        { apply N.ltb_ge in Hlen. unfold len in Hlen. apply skipn_all2. lia. }
        rewrite Hsk, app_nil_r in Hsplit. now rewrite <- Hsplit.
    - destruct (abs_value e st1 true (at_value a)) as [[w0 st2]|] eqn:AV; [|discriminate].
      intros E; injection E as <- <-.
      destruct (den_value st1 _ w0 st2 dst1 (proj2 Hst1) Hval (eq_trans A1 (eq_sym (proj1 Hst1))) AV) as (dst2 & DV & A2 & B2 & C2).
      exists dst2. split; [|repeat split; try congruence].
      + apply FIN. unfold S.den_attr_raw. cbn [S.wa_start S.wa_vals]. rewrite DS, DV. reflexivity.
      + destruct (abs_value_same _ _ _ _ _ _ AV) as [S1 _]. rewrite S1. exact (proj2 Hst1).
  Qed.

  Lemma den_all_attrs l : forall st ws st' (dst : S.dstate),
    strtbl st = [] -> forallb (attr_ok2 L) l = true -> S.ds_attrcp dst = attrcp st ->
    abs_attrs e st l = Some (ws, st') ->
    exists dst', S.den_attrs env ws dst = Some (map attr_event l, dst') /\ S.ds_attrcp dst' = attrcp st' /\
                 S.ds_tagcp dst' = S.ds_tagcp dst /\ S.ds_cur dst' = S.ds_cur dst /\ strtbl st' = [].
  Proof.
    induction l as [|a r IH]; intros st ws st' dst Ht Hok Hcp; cbn [abs_attrs map].
    - intros E; injection E as <- <-. exists dst. cbn. auto.
    - cbn [forallb] in Hok. apply andb_true_iff in Hok as [Ha Hr].
      destruct (abs_attr e st a) as [[w st1]|] eqn:A; [|discriminate].
      destruct (abs_attrs e st1 r) as [[ws' st2]|] eqn:R; [|discriminate]. intros E; injection E as <- <-.
      destruct (den_one_attr st a w st1 dst Ht Ha Hcp A) as (dst1 & D1 & A1 & B1 & C1 & T1).
      destruct (IH st1 ws' st2 dst1 T1 Hr A1 R) as (dst2 & D2 & A2 & B2 & C2 & T2).
      exists dst2. cbn [S.den_attrs]. rewrite D1, D2. unfold attr_event at 1. cbn [fst].
      repeat split; try congruence.
  Qed.
End Attr.

(* ---- the tree ------------------------------------------------------------------------------------------------------------------------ *)
From Wbxml Require Proofs.EncWbxmlSerialize Proofs.EncWbxmlDenote.
Module D1 := Wbxml.Proofs.EncWbxmlDenote.

Lemma abs_velts_tagcp l : forall st, tagcp (snd (abs_velts st l)) = tagcp st.
Proof.
  induction l as [|v r IH]; intros st; cbn [abs_velts]; [reflexivity|].
  destruct v as [s|t|p t|off]; try (specialize (IH st); destruct (abs_velts st r); exact IH).
  specialize (IH (snd (enc_attr_token st t p))). destruct (abs_velts _ r). cbn [snd] in *.
  rewrite IH. unfold enc_attr_token. destruct (_ =? _); reflexivity.
Qed.

Lemma abs_attr_tagcp e st a w st' : abs_attr e st a = Some (w, st') -> tagcp st' = tagcp st.
Proof.
  unfold abs_attr. destruct (abs_attr_start e st a) as [[[start vl] s1]|] eqn:AS; [|discriminate].
  assert (H1 : tagcp s1 = tagcp st).
  { unfold abs_attr_start in AS. cbv zeta in AS.
    assert (TK : forall t p, tagcp (snd (enc_attr_token st t p)) = tagcp st) by (intros; unfold enc_attr_token; destruct (_ =? _); reflexivity).
    assert (LT : forall nm vl0, (if e_use_strtbl e then
                  let '(idx, tbl', tlen') := strtbl_add (strtbl st) (strtbl_len st) (cstr nm) in
                  Some (S.AStartLit idx, vl0, set_strtbl st tbl' tlen') else None) = Some (start, vl, s1) -> tagcp s1 = tagcp st).
    { intros nm vl0. destruct (e_use_strtbl e); [|discriminate]. destruct (strtbl_add _ _ _) as [[? ?] ?]. intros E; injection E as _ _ <-. reflexivity. }
    destruct (at_name a) as [page tk nm oval|nm].
    - destruct oval as [xv|].
      + destruct (is_prefix xv _); [injection AS as _ _ <-; apply TK|exact (LT _ _ AS)].
      + injection AS as _ _ <-; apply TK.
    - destruct (get_attr_from_xml _ _ _) as [[r lft]|]; [injection AS as _ _ <-; apply TK|exact (LT _ _ AS)]. }
  destruct vl as [v|]; [|intros E; injection E as _ <-; exact H1].
  destruct (abs_value e s1 true v) as [[w0 s2]|] eqn:AV; [|discriminate]. intros E; injection E as _ <-.
  unfold abs_value in AV. destruct v; [injection AV as _ <-; exact H1|].
  destruct (split_value e s1 true _) as [l|]; [|discriminate].
  pose proof (abs_velts_tagcp l s1) as H. destruct (abs_velts s1 l). injection AV as _ <-. cbn [snd] in H. congruence.
Qed.

Lemma abs_attrs_tagcp e l : forall st ws st', abs_attrs e st l = Some (ws, st') -> tagcp st' = tagcp st.
Proof.
  induction l as [|a r IH]; intros st ws st'; cbn [abs_attrs]; [intros E; injection E as _ <-; reflexivity|].
  destruct (abs_attr e st a) as [[w s1]|] eqn:A; [|discriminate].
  destruct (abs_attrs e s1 r) as [[ws' s2]|] eqn:B; [|discriminate]. intros E; injection E as _ <-.
  rewrite (IH _ _ _ B). exact (abs_attr_tagcp _ _ _ _ _ A).
Qed.

Section Tree2.
  Variable L : lang.
  Variable e : env.
  Hypothesis HE : e_lang e = to_blang L.
  Hypothesis HU : e_use_strtbl e = false.
  Hypothesis HP : plain_env e = true.
  Hypothesis HV : vals_ok L = true.
  Hypothesis HX : l_exts L = None.
  Hypothesis Hopts : e_ignore_empty e = e_remove_blanks e.
  Variable tb : bytes.
  Let env := S.mk_denv L tb.
  Let keep := negb (e_remove_blanks e).

  Lemma text_den st par c items st' d me (dst : S.dstate) :
    strtbl st = [] -> forallb (fun x => x <? 256) c = true ->
    abs_text e st par c = Some (items, st') ->
    D1.den_items env d me items dst = Some (flat_map (events2 (has_attr_table e)) (norm_text keep false c), dst) /\ same_tbl st st' /\
    tagcp st' = tagcp st /\ attrcp st' = attrcp st.
  Proof.
    intros Ht Hc A. pose proof (abs_text_same _ _ _ _ _ _ A) as Hs.
    unfold abs_text in A. destruct (is_binary_tag st par); [discriminate|].
    unfold norm_text, keep. rewrite Hopts in A.
    assert (VAL : forall buf, D1.bytes_lt256 buf = true ->
              match abs_value e st false (cstr buf) with Some (w, st'0) => Some (items_of w, st'0) | None => None end = Some (items, st') ->
              D1.den_items env d me items dst = Some (match cstr buf with [] => [] | s => [P.EvChars s] end, dst) /\ tagcp st' = tagcp st /\ attrcp st' = attrcp st).
    { intros buf Hb. pose proof (D1.cstr_str_ok buf Hb) as Hok. unfold abs_value.
      destruct (cstr buf) as [|x s] eqn:Ec.
      - intros E; injection E as <- <-. auto.
      - unfold split_value. cbv zeta. cbn [negb andb]. rewrite HE. cbn [to_blang bl_exts]. rewrite HX. cbn [omap]. rewrite HU. cbn [andb].
        destruct (negb (in_cdata st)); cbn [abs_velts]; (replace (0 <? len (x :: s)) with true by (symmetry; apply N.ltb_lt; unfold len; cbn [List.length]; lia));
          intros E; injection E as <- <-; cbn [items_of flat_map app D1.den_items S.den_item S.den_str]; rewrite Hok; auto. }
    destruct (e_remove_blanks e) eqn:R; cbn [negb orb andb] in *.
    - destruct (in_cdata st) eqn:IC; cbn [negb andb] in A.
      + discriminate.
      + destruct (only_ws c) eqn:W.
        * injection A as <- <-. cbn. auto using same_tbl_refl.
        * destruct (VAL (strip_blanks c) (D1.strip_lt c Hc) A) as (Dn & T1 & T2). cbn [flat_map events2]. rewrite app_nil_r. auto.
    - destruct (in_cdata st) eqn:IC; cbn [negb andb] in A; [discriminate|].
      destruct (VAL c Hc A) as (Dn & T1 & T2). cbn [flat_map events2]. rewrite app_nil_r. auto.
  Qed.

  Definition node_den2 (n : node) : Prop :=
    forall par d me st items st' (dst : S.dstate),
      tree_ok2 L d n = true -> strtbl st = [] -> S.ds_tagcp dst = tagcp st -> S.ds_attrcp dst = attrcp st ->
      abs_node e par n st = Some (items, st') ->
      exists dst', D1.den_items env d me items dst = Some (flat_map (events2 (has_attr_table e)) (norm_node keep false n), dst') /\
                   S.ds_tagcp dst' = tagcp st' /\ S.ds_attrcp dst' = attrcp st' /\ strtbl st' = [].

  Lemma seq_den2 ns : Forall node_den2 ns ->
    forall par d me st items st' (dst : S.dstate),
      forallb (tree_ok2 L d) ns = true -> strtbl st = [] -> S.ds_tagcp dst = tagcp st -> S.ds_attrcp dst = attrcp st ->
      abs_seq (abs_node e) par ns st = Some (items, st') ->
      exists dst', D1.den_items env d me items dst = Some (flat_map (events2 (has_attr_table e)) (flat_map (norm_node keep false) ns), dst') /\
                   S.ds_tagcp dst' = tagcp st' /\ S.ds_attrcp dst' = attrcp st' /\ strtbl st' = [].
  Proof.
    induction 1 as [|x r Hx _ IH]; intros par d me st items st' dst HT Ht H1 H2; cbn [abs_seq flat_map].
    - intros E; injection E as <- <-. exists dst. cbn. auto.
    - cbn [forallb] in HT. apply andb_true_iff in HT as [HT1 HT2].
      destruct (abs_node e par x st) as [[a sa]|] eqn:A; [|discriminate].
      destruct (abs_seq (abs_node e) par r sa) as [[b sb]|] eqn:B; [|discriminate]. intros E; injection E as <- <-.
      destruct (Hx par d me st a sa dst HT1 Ht H1 H2 A) as (dst1 & D1' & P1 & P2 & T1).
      destruct (IH par d me sa b sb dst1 HT2 T1 P1 P2 B) as (dst2 & D2' & Q1 & Q2 & T2).
      exists dst2. split; [|auto]. rewrite flat_map_app. eapply D1.den_items_app; eassumption.
  Qed.

  Lemma all_node_den2 n : node_den2 n.
  Proof.
    induction n as [tag attrs ch IH|c|ch IH| |lid roots IH] using node_ind';
      intros par d me st items st' dst HT Ht H1 H2; cbn [tree_ok2] in HT; try discriminate.
    - destruct tag as [p t o nm|nm]; [|discriminate].
      repeat (apply andb_true_iff in HT; destruct HT as [HT ?]).
      match goal with X : forallb (tree_ok2 L (d + 1)) ch = true |- _ => rename X into HTch end.
      match goal with X : forallb (attr_ok2 L) attrs = true |- _ => rename X into HTa end.
      match goal with X : match S.lookup_tag L p t with Some _ => _ | None => _ end = true |- _ => rename X into Hlk end.
      match goal with X : (d <=? 1000) = true |- _ => rename X into Hd end.
      match goal with X : (p <? 256) = true |- _ => rename X into Hp end.
      match goal with X : (t <? 64) = true |- _ => rename X into H64 end.
      rename HT into H5.
      destruct (S.lookup_tag L p t) as [r|] eqn:LK; [|discriminate].
      apply andb_true_iff in Hlk as [Hlk Hn]. apply andb_true_iff in Hlk as [Hrp Hrt].
      apply N.eqb_eq in Hrp, Hrt. apply beq_eq in Hn.
      cbn [abs_node norm_node]. unfold abs_tag. cbn [tag_triple].
      assert (Hz : (t =? 0) = false) by (apply N.eqb_neq; apply N.leb_le in H5; lia).
      rewrite Hz, H5, H64. cbn [andb]. cbv zeta.
      set (st1 := set_pages (set_cur_tag st (Some (p, t, o))) p (attrcp (set_cur_tag st (Some (p, t, o))))).
      assert (Hst1 : tagcp st1 = p /\ attrcp st1 = attrcp st /\ strtbl st1 = []) by (subst st1; cbn; auto).
      destruct Hst1 as (Q1 & Q2 & Q3).
      set (sw := if tagcp (set_cur_tag st (Some (p, t, o))) =? p then None else Some p).
      set (dst0 := S.set_dcur (S.apply_sw P.TagSpace sw dst) (Some (p, t))).
      assert (Hd0 : S.ds_tagcp dst0 = p /\ S.ds_attrcp dst0 = S.ds_attrcp dst).
      { subst dst0 sw. cbn [tagcp set_cur_tag]. rewrite <- H1. destruct (S.ds_tagcp dst =? p) eqn:E; cbn; [apply N.eqb_eq in E|]; auto. }
      destruct Hd0 as [R1 R2].
      destruct (if has_attr_table e then abs_attrs e st1 attrs else Some ([], st1)) as [[ws st2]|] eqn:AA; [|discriminate].
      assert (ATT : exists dst2, S.den_attrs env ws dst0 = Some (if (has_attr_table e) then map attr_event attrs else [], dst2) /\
                     S.ds_attrcp dst2 = attrcp st2 /\ S.ds_tagcp dst2 = p /\ tagcp st2 = p /\ strtbl st2 = []).
      { destruct (has_attr_table e).
        - destruct (den_all_attrs L e HE HU HP HV HX tb attrs st1 ws st2 dst0 Q3 HTa (eq_trans R2 (eq_trans H2 (eq_sym Q2))) AA) as (dst2 & DA & A2 & B2 & C2 & T2).
          exists dst2. split; [exact DA|]. split; [exact A2|]. split; [congruence|]. split; [|exact T2].
          rewrite (abs_attrs_tagcp e attrs st1 ws st2 AA). exact Q1.
        - injection AA as <- <-. exists dst0. split; [reflexivity|]. split; [congruence|]. split; [exact R1|]. split; [exact Q1|exact Q3]. }
      destruct ATT as (dst2 & DA & A2 & B2 & C2 & T2).
      destruct (abs_seq (abs_node e) (Some (TagTok p t o nm)) ch st2) as [[its st3]|] eqn:AS; [|discriminate].
      intros E; injection E as <- <-.
      destruct (seq_den2 ch IH (Some (TagTok p t o nm)) (d + 1) (Some (p, t)) st2 its st3 dst2 HTch T2 (eq_trans B2 (eq_sym C2)) A2 AS) as (dst3 & D3 & P1 & P2 & T3).
      exists (S.set_dcur dst3 None). split; [|cbn; auto].
      cbn [D1.den_items S.den_item].
      assert (Hsw : S.sw_okb sw = true) by (subst sw; cbn [tagcp set_cur_tag]; destruct (tagcp st =? p); [reflexivity|exact Hp]).
      rewrite Hsw, Hd. cbn [andb].
      assert (Htok : S.tag_tok_okb t = true) by (unfold S.tag_tok_okb; now rewrite H5, H64).
      rewrite Htok.
      assert (Hcp0 : S.ds_tagcp (S.apply_sw P.TagSpace sw dst) = p) by (subst dst0; cbn in R1; exact R1).
      rewrite Hcp0. unfold env. cbn [S.de_lang]. rewrite LK, Hrp, Hrt, Hn.
      fold dst0. fold env. rewrite DA.
      cbn [flat_map events2 app]. rewrite app_nil_r.
      destruct ch as [|c0 ch0]; cbn [nonempty].
      + cbn [abs_seq] in AS. injection AS as <- <-. cbn [D1.den_items] in D3. injection D3 as <-. cbn [flat_map app]. reflexivity.
      + unfold D1.den_items in D3. rewrite D3. now rewrite app_nil_r.
    - cbn [abs_node norm_node].
      destruct (abs_text e st par c) as [[its st1]|] eqn:AT; [|discriminate]. intros E; injection E as <- <-.
      destruct (text_den st par c its st1 d me dst Ht HT AT) as (Dn & [S1 S2] & T1 & T2).
      exists dst. split; [exact Dn|]. cbn. rewrite T1, T2, S1. auto.
  Qed.
End Tree2.

(* ---- the document --------------------------------------------------------------------------------------------------------------------- *)
From Wbxml Require Proofs.EncWbxmlStrict2 Proofs.ParserProofsStrict3.

Definition doc_events (L : lang) (e : env) (keep : bool) (root : node) : list P.event :=
  P.EvStartDoc 106 (l_id L) :: flat_map (events2 (has_attr_table e)) (norm keep [root]) ++ [P.EvEndDoc].

Theorem abs_doc2_denotes TBL L o tag attrs ch st' root :
  let e := enc_env (to_blang L) o in
  o_use_strtbl o = false -> plain_env e = true -> vals_ok L = true -> l_exts L = None ->
  tree_ok2 L 0 (NElt tag attrs ch) = true ->
  abs_node e None (NElt tag attrs ch) (start_state e [NElt tag attrs ch]) = Some ([root], st') ->
  o_version o < 4 -> header_public_id e < 4294967296 -> header_public_id e <> 0 ->
  S.bytes_okb (doc_strtbl e st') = true -> Parser.blen (doc_strtbl e st') < 4294967296 ->
  S.denote_with TBL (Some L) (abs_doc2 e st' root) = Some (doc_events L e (o_keep_ws o) (NElt tag attrs ch)).
Proof.
  cbv zeta. intros HU HP HV HX HT AN Hv Hp1 Hp0 Hb1 Hb2. set (e := enc_env (to_blang L) o) in *.
  assert (HUe : e_use_strtbl e = false) by (subst e; unfold enc_env, make_env; cbn; now rewrite HU).
  assert (HE : e_lang e = to_blang L) by reflexivity.
  assert (Ho : e_ignore_empty e = e_remove_blanks e) by reflexivity.
  assert (Hk : negb (e_remove_blanks e) = o_keep_ws o) by (subst e; unfold enc_env, make_env; cbn; now rewrite negb_involutive).
  assert (Hst0 : strtbl (start_state e [NElt tag attrs ch]) = [] /\ tagcp (start_state e [NElt tag attrs ch]) = 0 /\ attrcp (start_state e [NElt tag attrs ch]) = 0)
    by (unfold start_state; rewrite HUe; cbn; auto).
  destruct Hst0 as (Z1 & Z2 & Z3).
  destruct (all_node_den2 L e HE HUe HP HV HX Ho (doc_strtbl e st') (NElt tag attrs ch) None 0 None _ [root] st'
                          (S.mk_dstate 0 0 None) HT Z1 (eq_sym Z2) (eq_sym Z3) AN) as (dst' & DN & _).
  unfold S.denote_with.
  assert (F : S.wd_ver (abs_doc2 e st' root) = u8 (e_version e) /\ S.wd_strtbl (abs_doc2 e st' root) = doc_strtbl e st' /\
              S.wd_charset (abs_doc2 e st' root) = (if e_version e =? 0 then None else Some 106) /\
              S.wd_root (abs_doc2 e st' root) = root /\ S.wd_pis_before (abs_doc2 e st' root) = [] /\ S.wd_pis_after (abs_doc2 e st' root) = [] /\
              S.wd_pub (abs_doc2 e st' root) = (match header_pid e with Some _ => S.PubIdx 0 | None => S.PubNum (header_public_id e) end)).
  { unfold abs_doc2, header_table. rewrite HUe. destruct (header_pid e); cbn; auto 10. }
  destruct F as (F1 & F2 & F3 & F4 & F5 & F6 & F7). rewrite F1, F2, F7.
  replace (e_version e) with (o_version o) in * by reflexivity.
  assert (Hu8 : u8 (o_version o) = o_version o) by (unfold u8; apply N.mod_small; lia). rewrite Hu8.
  replace (o_version o <? 4) with true by (symmetry; now apply N.ltb_lt).
  rewrite Hb1. replace (S.u32_okb (Parser.blen (doc_strtbl e st'))) with true by (symmetry; unfold S.u32_okb; now apply N.ltb_lt).
  assert (Hpub : match (match header_pid e with Some _ => S.PubIdx 0 | None => S.PubNum (header_public_id e) end) with
                 | S.PubNum n => S.u32_okb n && negb (n =? 0) | S.PubIdx i => S.u32_okb i end = true).
  { destruct (header_pid e); [reflexivity|]. unfold S.u32_okb. apply andb_true_iff. split; [now apply N.ltb_lt|].
    apply negb_true_iff. now apply N.eqb_neq. }
  rewrite Hpub. cbn [andb].
  assert (Hcs : S.charset_of (abs_doc2 e st' root) = Some 106).
  { unfold S.charset_of. rewrite F1, F3, Hu8. destruct (o_version o) as [|v] eqn:V; reflexivity. }
  rewrite Hcs, F4, F5, F6.
  (* the root is an element *)
  cbn [abs_node] in AN.
  destruct (abs_tag e _ tag _ _) as [[[sw wtag] st2]|]; [|discriminate].
  destruct (if has_attr_table e then abs_attrs e st2 attrs else Some ([], st2)) as [[ws st3]|]; [|discriminate].
  destruct (abs_seq (abs_node e) (Some tag) ch st3) as [[its st4]|]; [|discriminate]. injection AN as <- <-.
  cbn [S.den_pis]. cbn [D1.den_items] in DN.
  destruct (S.den_item _ 0 None (S.WItemElt sw wtag ws (nonempty ch) its) _) as [[e2 st2']|]; [|discriminate].
  injection DN as DN _. rewrite app_nil_r in DN. subst e2.
  unfold doc_events, norm. cbn [flat_map norm_node events2 app]. rewrite negb_involutive, !app_nil_r. reflexivity.
Qed.

(* the whole statement on the fragment with attributes (no string table) *)
Theorem strict_decode_of_encoding2 tblb TBL L o tag attrs ch bs :
  let e := enc_env (to_blang L) o in
  o_use_strtbl o = false -> plain_env e = true -> vals_ok L = true -> l_exts L = None ->
  frag2_node e (NElt tag attrs ch) = true -> tree_ok2 L 0 (NElt tag attrs ch) = true ->
  find (fun x => l_id x =? l_id L) TBL = Some L ->
  o_version o < 4 -> header_public_id e < 4294967296 -> header_public_id e <> 0 ->
  (match header_pid e with Some p => S.bytes_okb p = true /\ len p + 1 < 4294967296 | None => True end) ->
  enc_wbxml tblb (to_blang L) o [NElt tag attrs ch] = EOk bs ->
  exists d, bs = S.serialize d /\ S.strict_doc d = true /\
            S.denote_with TBL (Some L) d = Some (doc_events L e (o_keep_ws o) (NElt tag attrs ch)) /\
            S.decode_lang TBL (l_id L) bs = Some (doc_events L e (o_keep_ws o) (NElt tag attrs ch)).
Proof.
  cbv zeta. intros HU HP HV HX HF HT HFind Hv Hp1 Hp0 Hpid E. set (e := enc_env (to_blang L) o) in *.
  destruct (enc_wbxml_serialize2 tblb (to_blang L) o tag attrs ch bs HP HF E) as (st' & root & EB & AN & HS).
  assert (HUe : e_use_strtbl e = false) by (subst e; unfold enc_env, make_env; cbn; now rewrite HU).
  (* the table written: empty, or the id string *)
  assert (Htb : doc_strtbl e st' = match header_pid e with Some p => p ++ [0] | None => [] end).
  { unfold doc_strtbl, header_table. rewrite HUe. destruct (header_pid e); reflexivity. }
  pose proof (abs_node_same e _ HUe _ _ _ _ AN) as [S1 S2].
  unfold start_state in S1, S2. fold e in S1, S2. rewrite HUe in S1, S2. cbn in S1, S2.
  assert (Hb : let '(_, t, _) := header_table e st' in tbl_size t < 4294967296).
  { unfold header_table. rewrite HUe. destruct (header_pid e); rewrite S1; cbn; lia. }
  assert (Hpl : match header_pid e with Some p => len p + 1 < 4294967296 | None => True end)
    by (destruct (header_pid e); [apply Hpid|exact I]).
  pose proof (header_len_ok_holds tblb (to_blang L) o tag attrs ch _ st' root EB AN Hb Hpl) as HL.
  pose proof (Proofs.EncWbxmlStrict2.abs_doc2_strict tblb (to_blang L) o tag attrs ch _ st' root EB AN Hb) as Hstrict.
  assert (Hok : S.bytes_okb (doc_strtbl e st') = true /\ Parser.blen (doc_strtbl e st') < 4294967296).
  { rewrite Htb. destruct (header_pid e) as [p|]; [|split; [reflexivity|vm_compute; reflexivity]]. destruct Hpid as [Hp Hlen].
    unfold S.bytes_okb in *. rewrite forallb_app, Hp. split; [reflexivity|].
    change (Parser.blen (p ++ [0])) with (len (p ++ [0])). rewrite len_app. exact Hlen. }
  destruct Hok as [Hok1 Hok2].
  pose proof (abs_doc2_denotes TBL L o tag attrs ch st' root HU HP HV HX HT AN Hv Hp1 Hp0 Hok1 Hok2) as Hden.
  exists (abs_doc2 e st' root). split; [exact (HS HL)|]. split; [exact Hstrict|]. split; [exact Hden|].
  rewrite (HS HL). apply Proofs.ParserProofsStrict3.decode_lang_serialize; [|exact Hstrict]. rewrite HFind. exact Hden.
Qed.

Lemma frag2_lang_only e1 e2 n : e_lang e1 = e_lang e2 -> frag2_node e1 n = frag2_node e2 n.
Proof.
  intros HL. induction n as [tag attrs ch IH|c|ch IH| |lid roots IH] using node_ind'; cbn [frag2_node]; try reflexivity.
  f_equal.
  - destruct tag; [reflexivity|]. unfold lit_unknown. now rewrite HL.
  - induction IH as [|x r Hx _ IHr]; cbn [forallb]; [reflexivity|]. now rewrite Hx, IHr.
Qed.

(* C07: on this fragment the outputs for any two (version, anonymous) pairs decode (proved strict decoder, language
   forced) to the same event list *)
Theorem options_decode_equal tblb TBL L v1 v2 a1 a2 k tag attrs ch bs1 bs2 :
  let o1 := mk_opts v1 false k a1 in let o2 := mk_opts v2 false k a2 in
  plain_env (enc_env (to_blang L) o1) = true -> vals_ok L = true -> l_exts L = None ->
  frag2_node (enc_env (to_blang L) o1) (NElt tag attrs ch) = true -> tree_ok2 L 0 (NElt tag attrs ch) = true ->
  find (fun x => l_id x =? l_id L) TBL = Some L ->
  v1 < 4 -> v2 < 4 -> l_pub_num L < 4294967296 -> l_pub_num L <> 0 ->
  (match l_pub_text L with Some p => S.bytes_okb (P.B p) = true /\ len (P.B p) + 1 < 4294967296 | None => True end) ->
  enc_wbxml tblb (to_blang L) o1 [NElt tag attrs ch] = EOk bs1 ->
  enc_wbxml tblb (to_blang L) o2 [NElt tag attrs ch] = EOk bs2 ->
  exists evs, S.decode_lang TBL (l_id L) bs1 = Some evs /\ S.decode_lang TBL (l_id L) bs2 = Some evs.
Proof.
  cbv zeta. intros HP HV HX HF HT HFind Hv1 Hv2 Hn1 Hn0 Hpt E1 E2.
  assert (PID : forall v a, header_public_id (enc_env (to_blang L) (mk_opts v false k a)) < 4294967296 /\
                            header_public_id (enc_env (to_blang L) (mk_opts v false k a)) <> 0 /\
                            match header_pid (enc_env (to_blang L) (mk_opts v false k a)) with
                            | Some p => S.bytes_okb p = true /\ len p + 1 < 4294967296 | None => True end).
  { intros v a. unfold header_public_id, header_pid, header_public_id. cbn [e_anonymous enc_env make_env e_lang to_blang bl_pub_num bl_pub_text o_anonymous].
    destruct a; cbn [negb andb].
    - rewrite andb_false_r. split; [lia|]. split; [lia|exact I].
    - split; [exact Hn1|]. split; [exact Hn0|]. destruct ((l_pub_num L =? 1) && true); [|exact I].
      destruct (l_pub_text L); [exact Hpt|exact I]. }
  destruct (PID v1 a1) as (P1 & P2 & P3). destruct (PID v2 a2) as (Q1 & Q2 & Q3).
  destruct (strict_decode_of_encoding2 tblb TBL L (mk_opts v1 false k a1) tag attrs ch bs1 eq_refl HP HV HX HF HT HFind Hv1 P1 P2 P3 E1)
    as (d1 & _ & _ & _ & D1').
  assert (HF2 : frag2_node (enc_env (to_blang L) (mk_opts v2 false k a2)) (NElt tag attrs ch) = true)
    by (rewrite <- HF; apply frag2_lang_only; reflexivity).
  destruct (strict_decode_of_encoding2 tblb TBL L (mk_opts v2 false k a2) tag attrs ch bs2 eq_refl HP HV HX HF2 HT HFind Hv2 Q1 Q2 Q3 E2)
    as (d2 & _ & _ & _ & D2').
  eexists. split; [exact D1'|exact D2'].
Qed.
