(* C02 — linear size of the WBXML output, part 2: attributes, elements, text, the tree walk, the string table, the header. *)
From Coq Require Import List NArith PeanoNat Lia Bool.
From Wbxml Require Import Model.Codec Model.EncWbxml Proofs.EncWbxmlProofs Proofs.EncWbxmlSize.
Import ListNotations.
Local Open Scope nat_scope.

(* ------------------------------------------------------------------ the potentials *)

(* octets of the string table (every entry with its NUL) *)
Fixpoint tsz (tbl : list ste) : nat := match tbl with [] => 0 | e :: r => L (s_str e) + 1 + tsz r end.
Definition T (st : est) : nat := tsz (strtbl st).
(* octets waiting in the CDATA buffer *)
Definition Phi (st : est) : nat := match cdata st with Some d => L d | None => 0 end.

Lemma tsz_app a b : tsz (a ++ b) = tsz a + tsz b.
Proof. induction a as [|e a IH]; cbn [tsz app]; lia. Qed.

Lemma strtbl_construct_tsz tbl : L (strtbl_construct tbl) = tsz tbl.
Proof.
  induction tbl as [|e r IH]; [reflexivity|]. unfold strtbl_construct in *. cbn [flat_map tsz]. rewrite !app_length, IH. cbn [List.length]. lia.
Qed.

Lemma strtbl_add_size tbl tlen s idx tbl' tlen' :
  strtbl_add tbl tlen s = (idx, tbl', tlen') ->
  tsz tbl' <= tsz tbl + L s + 1 /\ (entries_ok tbl -> s <> [] -> entries_ok tbl').
Proof.
  unfold strtbl_add. destruct (find _ tbl).
  - intros H; injection H as _ <- _. split; [lia|auto].
  - intros H; injection H as _ <- _. rewrite tsz_app. cbn [tsz s_str]. split; [lia|].
    intros E NE. apply Forall_app. split; [exact E|]. constructor; [exact NE|constructor].
Qed.

(* st' differs from st by pages / current tag, and by at most `grow` more octets of string table *)
Definition grows (st st' : est) (grow : nat) : Prop :=
  cdata st' = cdata st /\ in_cdata st' = in_cdata st /\ T st' <= T st + grow /\
  (entries_ok (strtbl st) -> entries_ok (strtbl st')).

Lemma grows_refl st : grows st st 0.
Proof. unfold grows. repeat split; auto; lia. Qed.

Lemma grows_keeps st st' : keeps st st' -> grows st st' 0.
Proof. unfold keeps, grows, T. intros (A & B & C). rewrite A, B, C. repeat split; auto; lia. Qed.

Lemma grows_trans a b c g1 g2 : grows a b g1 -> grows b c g2 -> grows a c (g1 + g2).
Proof.
  unfold grows. intros (A1 & A2 & A3 & A4) (B1 & B2 & B3 & B4). rewrite B1, B2, A1, A2. repeat split; auto; lia.
Qed.

Lemma grows_le a b g g' : grows a b g -> g <= g' -> grows a b g'.
Proof. unfold grows. intros (A1 & A2 & A3 & A4) H. repeat split; auto; lia. Qed.

Lemma grows_set_cur_tag st c : grows st (set_cur_tag st c) 0.
Proof. apply grows_keeps. repeat split. Qed.

(* ------------------------------------------------------------------ names *)

Definition name_ok (nm : bytes) : Prop := cstr nm <> [].

Lemma enc_literal_size e st name mask b st' :
  name_ok name -> enc_literal e st name mask = EOk (b, st') -> L b <= 6 /\ grows st st' (L name + 1).
Proof.
  intros NO. unfold enc_literal. destruct (e_use_strtbl e); [|discriminate].
  destruct (strtbl_add (strtbl st) (strtbl_len st) (cstr name)) as [[idx tbl'] tlen'] eqn:A.
  intros H; injection H as <- <-. destruct (strtbl_add_size _ _ _ _ _ _ A) as [S E].
  split.
  - cbn [app List.length]. pose proof (mb_write_len idx). lia.
  - unfold grows, T. cbn. pose proof (cstr_len name). repeat split; auto; lia.
Qed.

Lemma enc_tag_tail_size e st name token page ct b st' :
  name_ok name ->
  (if N.eqb (N.land token 63) 0 then enc_literal e (set_cur_tag st ct) name token
   else EOk (enc_tag_token (set_cur_tag st ct) token page)) = EOk (b, st') ->
  L b <= 6 /\ grows st st' (L name + 1).
Proof.
  intros NO. destruct (N.eqb _ 0).
  - intros H. destruct (enc_literal_size _ _ _ _ _ _ NO H) as [A B]. split; [exact A|].
    eapply grows_le; [eapply grows_trans; [apply (grows_set_cur_tag st ct)|exact B]|lia].
  - intros H; injection H as H.
    pose proof (enc_tag_token_len (set_cur_tag st ct) token page) as A. pose proof (enc_tag_token_keeps (set_cur_tag st ct) token page) as B.
    rewrite H in A, B. cbn [fst snd] in A, B. split; [lia|].
    eapply grows_le; [eapply grows_trans; [apply (grows_set_cur_tag st ct)|apply grows_keeps; exact B]|lia].
Qed.

Lemma enc_tag_size e st tag ha hc b st' :
  name_ok (tag_xml_name tag) -> enc_tag e st tag ha hc = EOk (b, st') -> L b <= 6 /\ grows st st' (L (tag_xml_name tag) + 1).
Proof.
  intros NO. unfold enc_tag.
  destruct tag as [p t o nm|nm]; [|destruct (get_tag_from_xml (e_lang e) (tagcp st) nm) as [r|]]; cbv beta iota zeta;
    apply enc_tag_tail_size; exact NO.
Qed.

(* ------------------------------------------------------------------ attributes *)

Definition attr_ok (a : attr) : Prop := name_ok (attr_xml_name a).
Definition asz (a : attr) : nat := 1 + L (attr_xml_name a) + L (at_value a).

Lemma skipn_len {A} k (l : list A) : List.length (skipn k l) <= List.length l.
Proof. rewrite skipn_length. lia. Qed.

Lemma enc_attr_size e st node_attrs a b st' :
  lang_vals_ok (e_lang e) -> entries_ok (strtbl st) -> attr_ok a ->
  enc_attr e st node_attrs a = EOk (b, st') ->
  L b <= 8 * L (at_value a) + 24 /\ grows st st' (L (attr_xml_name a) + 1).
Proof.
  intros VO EO AO. unfold enc_attr.
  match goal with |- match ?x with _ => _ end = _ -> _ => destruct x as [[[[b1 st1] value_left] cur_attr]|] eqn:E1 end; [|discriminate].
  assert (H1 : L b1 <= 6 /\ grows st st1 (L (attr_xml_name a) + 1) /\
               match value_left with Some v => L v <= L (at_value a) | None => True end).
  { revert E1. unfold attr_ok, attr_xml_name in *. pose proof (cstr_len (at_value a)) as CL.
    destruct (at_name a) as [page tok nm oval|nm].
    - destruct oval as [xv|].
      + destruct (is_prefix xv (cstr (at_value a))).
        * pose proof (enc_attr_token_len st tok page) as A. pose proof (enc_attr_token_keeps st tok page) as B.
          destruct (enc_attr_token st tok page) as [bb st0]. intros H; injection H as <- <- <- _. cbn [fst snd] in *.
          split; [lia|]. split; [eapply grows_le; [apply grows_keeps; exact B|lia]|].
          destruct (N.ltb _ _); [|exact I]. pose proof (cstr_len (skipn (L xv) (at_value a))). pose proof (skipn_len (L xv) (at_value a)). lia.
        * destruct (enc_literal e st nm 0) as [[bb st0]|] eqn:EL; [|discriminate]. intros H; injection H as <- <- <- _.
          destruct (enc_literal_size _ _ _ _ _ _ AO EL) as [A B]. split; [exact A|]. split; [exact B|exact CL].
      + pose proof (enc_attr_token_len st tok page) as A. pose proof (enc_attr_token_keeps st tok page) as B.
        destruct (enc_attr_token st tok page) as [bb st0]. intros H; injection H as <- <- <- _. cbn [fst snd] in *.
        split; [lia|]. split; [eapply grows_le; [apply grows_keeps; exact B|lia]|exact CL].
    - destruct (get_attr_from_xml (e_lang e) nm (cstr (at_value a))) as [[r lft]|].
      + pose proof (enc_attr_token_len st (ba_tok r) (ba_page r)) as A. pose proof (enc_attr_token_keeps st (ba_tok r) (ba_page r)) as B.
        destruct (enc_attr_token st (ba_tok r) (ba_page r)) as [bb st0]. intros H; injection H as <- <- <- _. cbn [fst snd] in *.
        split; [lia|]. split; [eapply grows_le; [apply grows_keeps; exact B|lia]|].
        destruct lft as [k|]; [|exact I]. pose proof (skipn_len (N.to_nat k) (cstr (at_value a))). lia.
      + destruct (enc_literal e st nm 0) as [[bb st0]|] eqn:EL; [|discriminate]. intros H; injection H as <- <- <- _.
        destruct (enc_literal_size _ _ _ _ _ _ AO EL) as [A B]. split; [exact A|]. split; [exact B|exact CL]. }
  destruct H1 as (A1 & G1 & V1).
  destruct value_left as [v|].
  - destruct (enc_value e st1 true cur_attr node_attrs None v) as [[b2 st2]|] eqn:E2; [|discriminate].
    intros H; injection H as <- <-.
    assert (EO1 : entries_ok (strtbl st1)) by (apply G1; exact EO).
    destruct (enc_value_len _ _ _ _ _ _ _ _ _ VO EO1 E2) as [A2 K2]. rewrite app_length. split; [lia|].
    eapply grows_le; [eapply grows_trans; [exact G1|apply grows_keeps; exact K2]|lia].
  - intros H; injection H as <- <-. split; [lia|exact G1].
Qed.

Definition attrs_size (l : list attr) : nat := fold_right (fun a n => asz a + n) 0 l.

Lemma enc_attrs_size e node_attrs l : forall st b st',
  lang_vals_ok (e_lang e) -> entries_ok (strtbl st) -> Forall attr_ok l ->
  enc_attrs e st node_attrs l = EOk (b, st') ->
  L b <= 24 * attrs_size l /\ grows st st' (attrs_size l).
Proof.
  induction l as [|a r IH]; intros st b st' VO EO AO; cbn [enc_attrs].
  - intros H; injection H as <- <-. split; [cbn; lia|apply grows_refl].
  - change (attrs_size (a :: r)) with (asz a + attrs_size r). inversion AO as [|? ? A1 A2]; subst.
    destruct (enc_attr e st node_attrs a) as [[b1 st1]|] eqn:E1; [|discriminate].
    destruct (enc_attrs e st1 node_attrs r) as [[b2 st2]|] eqn:E2; [|discriminate].
    intros H; injection H as <- <-.
    destruct (enc_attr_size _ _ _ _ _ _ VO EO A1 E1) as [L1 G1].
    assert (EO1 : entries_ok (strtbl st1)) by (apply G1; exact EO).
    destruct (IH _ _ _ VO EO1 A2 E2) as [L2 G2]. rewrite app_length. pose proof (eq_refl : asz a = 1 + L (attr_xml_name a) + L (at_value a)). split; [lia|].
    eapply grows_le; [eapply grows_trans; eassumption|lia].
Qed.

Lemma enc_element_start_size e st tag attrs hc b st' :
  lang_vals_ok (e_lang e) -> entries_ok (strtbl st) -> name_ok (tag_xml_name tag) -> Forall attr_ok attrs ->
  enc_element_start e st tag attrs hc = EOk (b, st') ->
  L b <= 7 + 24 * attrs_size attrs /\ grows st st' (L (tag_xml_name tag) + 1 + attrs_size attrs).
Proof.
  intros VO EO TO AO. unfold enc_element_start.
  destruct (enc_tag e st tag _ hc) as [[b1 st1]|] eqn:E1; [|discriminate].
  destruct (enc_tag_size _ _ _ _ _ _ _ TO E1) as [L1 G1].
  assert (EO1 : entries_ok (strtbl st1)) by (apply G1; exact EO).
  destruct (has_attr_table e).
  - destruct (enc_attrs e st1 attrs attrs) as [[b2 st2]|] eqn:E2; [|discriminate].
    intros H; injection H as <- <-. destruct (enc_attrs_size _ _ _ _ _ _ VO EO1 AO E2) as [L2 G2].
    rewrite !app_length. split; [destruct (_ && true); cbn [List.length]; lia|].
    eapply grows_le; [eapply grows_trans; eassumption|lia].
  - intros H; injection H as <- <-. rewrite !app_length. rewrite andb_false_r. cbn [List.length]. split; [lia|].
    eapply grows_le; [exact G1|lia].
Qed.

(* ------------------------------------------------------------------ text *)

Lemma enc_text_size e st parent content b st' :
  lang_vals_ok (e_lang e) -> entries_ok (strtbl st) ->
  enc_text e st parent content = EOk (b, st') ->
  L b + Phi st' <= 8 * L content + 18 + Phi st /\ T st' = T st /\ in_cdata st' = in_cdata st /\
  (cdata st = None -> cdata st' = None) /\ (cdata st <> None -> cdata st' <> None) /\ entries_ok (strtbl st').
Proof.
  intros VO EO. unfold enc_text.
  destruct (is_binary_tag st parent).
  { intros H; injection H as <- <-. pose proof (enc_opaque_len content). repeat split; auto; lia. }
  destruct (negb (in_cdata st) && e_ignore_empty e && only_ws content).
  { intros H; injection H as <- <-. cbn [List.length]. repeat split; auto; lia. }
  set (content' := if negb (in_cdata st) && e_remove_blanks e then strip_blanks content else content).
  assert (CL : L content' <= L content) by (subst content'; destruct (_ && _); [apply strip_blanks_len|lia]).
  destruct (in_cdata st) eqn:IC.
  - subst content'. cbn [negb andb] in *.
    destruct (cdata st) as [d|] eqn:CD; [|discriminate]. intros H; injection H as <- <-.
    unfold Phi, T. cbn [cdata set_cdata strtbl in_cdata List.length]. rewrite CD, app_length.
    assert (L (if is_syncml (e_lang e) && beq content [10%N] then [13%N; 10%N] else content) <= L content + 1).
    { destruct (_ && beq content _) eqn:B; [|lia]. apply andb_true_iff in B. destruct B as [_ B]. apply beq_len in B. cbn [List.length] in *. lia. }
    repeat split; auto; try lia; try discriminate.
  - intros H. destruct (enc_value_len _ _ _ _ _ _ _ _ _ VO EO H) as [A (K1 & K2 & K3)].
    pose proof (cstr_len content'). unfold Phi, T. rewrite K1, K3, K2. repeat split; auto; try lia.
Qed.

(* ------------------------------------------------------------------ the string table built before the walk *)

Fixpoint ssum (l : list bytes) : nat := match l with [] => 0 | s :: r => L s + 1 + ssum r end.
Fixpoint wref (l : list refc) : nat := match l with [] => 0 | r :: rest => L (r_str r) + 1 + wref rest end.

Lemma ssum_app a b : ssum (a ++ b) = ssum a + ssum b.
Proof. induction a as [|s a IH]; cbn [ssum app]; lia. Qed.
Lemma wref_app a b : wref (a ++ b) = wref a + wref b.
Proof. induction a as [|s a IH]; cbn [wref app]; lia. Qed.

Lemma ref_bump_wref refs s : forall refs', ref_bump refs s = Some refs' -> wref refs' = wref refs.
Proof.
  induction refs as [|r rest IH]; intros refs'; cbn [ref_bump]; [discriminate|].
  destruct (beq (r_str r) s).
  - intros H; injection H as <-. reflexivity.
  - destruct (ref_bump rest s) as [rest'|]; [|discriminate]. intros H; injection H as <-. cbn [wref]. now rewrite (IH rest' eq_refl).
Qed.

Lemma count_refs_wref strings : forall refs, wref (count_refs strings refs) <= wref refs + ssum strings.
Proof.
  induction strings as [|s rest IH]; intros refs; cbn [count_refs ssum]; [lia|].
  destruct (ref_bump refs s) as [refs'|] eqn:B.
  - pose proof (ref_bump_wref _ _ _ B). specialize (IH refs'). lia.
  - specialize (IH (refs ++ [mk_ref s 1%N])). rewrite wref_app in IH. cbn [wref r_str] in IH. lia.
Qed.

Lemma keep_refs_size refs : forall tbl tlen tbl' tlen' one,
  keep_refs refs tbl tlen = (tbl', tlen', one) ->
  tsz tbl' + wref one <= tsz tbl + wref refs /\ (entries_ok tbl -> entries_ok tbl').
Proof.
  induction refs as [|r rest IH]; intros tbl tlen tbl' tlen' one; cbn [keep_refs].
  - intros H; injection H as <- <- <-. cbn. split; [lia|auto].
  - destruct (N.ltb 1 (r_count r) && N.ltb 3 (len (r_str r))) eqn:C.
    + destruct (strtbl_add tbl tlen (r_str r)) as [[i t1] n1] eqn:A. intros H.
      destruct (IH _ _ _ _ _ H) as [S E]. destruct (strtbl_add_size _ _ _ _ _ _ A) as [S1 E1].
      cbn [wref]. split; [lia|]. intros EO. apply E, E1; [exact EO|].
      apply andb_true_iff in C. destruct C as [_ C]. apply N.ltb_lt in C. intros Z. rewrite Z in C. cbn in C. lia.
    + destruct (keep_refs rest tbl tlen) as [[t1 n1] one1] eqn:K. intros H; injection H as <- <- <-.
      destruct (IH _ _ _ _ _ K) as [S E]. cbn [wref]. split; [lia|exact E].
Qed.

Lemma split_words_aux_ssum b : forall cur, ssum (split_words_aux b cur) <= L b + L cur + 1.
Proof.
  induction b as [|c r IH]; intros cur; cbn [split_words_aux].
  - destruct cur; cbn [ssum List.length]; [lia|]. rewrite frev_len. cbn [List.length]. lia.
  - destruct (isspace c).
    + destruct cur as [|x cur']; [specialize (IH []); cbn [List.length] in *; lia|].
      cbn [ssum]. rewrite frev_len. specialize (IH []). cbn [List.length] in *. lia.
    + specialize (IH (c :: cur)). cbn [List.length] in *. lia.
Qed.

Lemma words_ssum one : ssum (flat_map (fun r => split_words (r_str r)) one) <= wref one.
Proof.
  induction one as [|r rest IH]; [cbn; lia|]. cbn [flat_map wref]. rewrite ssum_app.
  pose proof (split_words_aux_ssum (r_str r) []). unfold split_words in *. cbn [List.length] in H. lia.
Qed.

Lemma strtbl_initialize_size l roots tbl tlen :
  strtbl_initialize l roots = (tbl, tlen) -> tsz tbl <= ssum (collect_nodes l roots) /\ entries_ok tbl.
Proof.
  unfold strtbl_initialize, check_references.
  destruct (keep_refs (count_refs (collect_nodes l roots) []) [] 0%N) as [[t1 n1] one] eqn:K1.
  destruct (keep_refs (count_refs (flat_map (fun r => split_words (r_str r)) one) []) t1 n1) as [[t2 n2] one2] eqn:K2.
  intros H; injection H as <- <-.
  destruct (keep_refs_size _ _ _ _ _ _ K1) as [S1 E1]. destruct (keep_refs_size _ _ _ _ _ _ K2) as [S2 E2].
  pose proof (count_refs_wref (collect_nodes l roots) []). pose proof (count_refs_wref (flat_map (fun r => split_words (r_str r)) one) []).
  pose proof (words_ssum one). cbn [wref tsz] in *. split; [lia|]. apply E2, E1. constructor.
Qed.

(* ------------------------------------------------------------------ the tree *)

Fixpoint names_ok (n : node) : Prop :=
  match n with
  | NElt tag attrs kids =>
    name_ok (tag_xml_name tag) /\ Forall attr_ok attrs /\
    (fix all (l : list node) : Prop := match l with [] => True | x :: r => names_ok x /\ all r end) kids
  | NCData kids => (fix all (l : list node) : Prop := match l with [] => True | x :: r => names_ok x /\ all r end) kids
  | NTree _ roots => (fix all (l : list node) : Prop := match l with [] => True | x :: r => names_ok x /\ all r end) roots
  | NText _ | NPi => True
  end.

Fixpoint all_names_ok (l : list node) : Prop := match l with [] => True | x :: r => names_ok x /\ all_names_ok r end.

(* the size of a tree in octets: one per node, the names, the attribute names and values, the text; h octets for the header
   of an embedded document, whose content counts twice (it carries a string table of its own) *)
Fixpoint wsize (h : nat) (n : node) : nat :=
  match n with
  | NElt tag attrs kids =>
    1 + L (tag_xml_name tag) + attrs_size attrs +
    (fix sum (l : list node) : nat := match l with [] => 0 | x :: r => wsize h x + sum r end) kids
  | NText c => 1 + L c
  | NCData kids => 1 + (fix sum (l : list node) : nat := match l with [] => 0 | x :: r => wsize h x + sum r end) kids
  | NPi => 1
  | NTree _ roots => 1 + h + 2 * (fix sum (l : list node) : nat := match l with [] => 0 | x :: r => wsize h x + sum r end) roots
  end.

Fixpoint wsizes (h : nat) (l : list node) : nat := match l with [] => 0 | x :: r => wsize h x + wsizes h r end.

Lemma collect_attr_ssum l a : ssum (collect_attr l a) <= asz a.
Proof.
  unfold collect_attr, asz. destruct (N.ltb 3 _); [|cbn; lia].
  match goal with |- ssum (if ?c then _ else _) <= _ => destruct c end; [cbn; lia|].
  destruct (contains_attr_value _ _); cbn; lia.
Qed.

Lemma collect_attrs_ssum l attrs : ssum (flat_map (collect_attr l) attrs) <= attrs_size attrs.
Proof.
  induction attrs as [|a r IH]; [cbn; lia|]. change (attrs_size (a :: r)) with (asz a + attrs_size r).
  cbn [flat_map]. rewrite ssum_app. pose proof (collect_attr_ssum l a). lia.
Qed.

Lemma collect_node_ssum l h : forall n, ssum (collect_node l n) <= wsize h n.
Proof.
  fix IH 1. intros n. destruct n as [tag attrs kids|c|kids| |lid roots]; cbn [collect_node wsize]; try (cbn; lia).
  - rewrite ssum_app. pose proof (collect_attrs_ssum l attrs).
    assert (G : forall ks, ssum (flat_map (collect_node l) ks) <=
                           (fix sum (l : list node) : nat := match l with [] => 0 | x :: r => wsize h x + sum r end) ks).
    { induction ks as [|x r IHk]; [cbn; lia|]. cbn [flat_map]. rewrite ssum_app. pose proof (IH x). lia. }
    specialize (G kids). lia.
  - destruct (only_ws c); [cbn; lia|]. destruct (N.ltb 3 _); cbn; lia.
  - assert (G : forall ks, ssum (flat_map (collect_node l) ks) <=
                           (fix sum (l : list node) : nat := match l with [] => 0 | x :: r => wsize h x + sum r end) ks).
    { induction ks as [|x r IHk]; [cbn; lia|]. cbn [flat_map]. rewrite ssum_app. pose proof (IH x). lia. }
    specialize (G kids). lia.
Qed.

Lemma collect_nodes_ssum l h roots : ssum (collect_nodes l roots) <= wsizes h roots.
Proof.
  unfold collect_nodes. induction roots as [|x r IH]; [cbn; lia|]. cbn [flat_map wsizes]. rewrite ssum_app.
  pose proof (collect_node_ssum l h x). lia.
Qed.

Lemma sum_wsizes h l : (fix sum (l : list node) : nat := match l with [] => 0 | x :: r => wsize h x + sum r end) l = wsizes h l.
Proof. induction l as [|x r IH]; [reflexivity|]. cbn [wsizes]. now rewrite IH. Qed.

Lemma all_all_names_ok l :
  (fix all (l : list node) : Prop := match l with [] => True | x :: r => names_ok x /\ all r end) l = all_names_ok l.
Proof. induction l as [|x r IH]; [reflexivity|]. cbn [all_names_ok]. now rewrite IH. Qed.

(* ------------------------------------------------------------------ the header *)

Definition hdr (l : blang) : nat := 18 + match bl_pub_text l with Some s => L s | None => 0 end.

Lemma fill_header_size e st : L (fill_header e st) <= hdr (e_lang e) + T st.
Proof.
  unfold fill_header, hdr, T.
  set (pid := if (N.eqb (header_public_id e) 1 && negb (e_anonymous e))%bool
              then match bl_pub_text (e_lang e) with Some s => Some s | None => None end else None).
  assert (PL : match pid with Some p => L p | None => 0 end <= match bl_pub_text (e_lang e) with Some s => L s | None => 0 end).
  { subst pid. destruct (_ && _)%bool; [|destruct (bl_pub_text (e_lang e)); lia]. destruct (bl_pub_text (e_lang e)); lia. }
  assert (CH : L (header_charset e) <= 5) by (unfold header_charset; destruct (N.eqb _ 0); [cbn; lia|apply mb_write_len]).
  destruct pid as [p|].
  - destruct (e_use_strtbl e).
    + destruct (strtbl_add (strtbl st) (strtbl_len st) p) as [[idx tbl] tlen] eqn:A.
      destruct (strtbl_add_size _ _ _ _ _ _ A) as [S _].
      rewrite !app_length, strtbl_construct_tsz. cbn [List.length]. pose proof (mb_write_len idx). pose proof (mb_write_len tlen). lia.
    + rewrite !app_length. cbn [List.length]. pose proof (mb_write_len 0). pose proof (mb_write_len (u32 (len p + 1))). lia.
  - destruct (e_use_strtbl e).
    + rewrite !app_length, strtbl_construct_tsz. pose proof (mb_write_len (header_public_id e)). pose proof (mb_write_len (strtbl_len st)).
      cbn [List.length]. lia.
    + rewrite !app_length. pose proof (mb_write_len (header_public_id e)). pose proof (mb_write_len (strtbl_len st)). cbn [List.length]. lia.
Qed.

Lemma start_state_size e h roots :
  T (start_state e roots) <= wsizes h roots /\ Phi (start_state e roots) = 0 /\ entries_ok (strtbl (start_state e roots)).
Proof.
  unfold start_state. destruct (e_use_strtbl e).
  - destruct (strtbl_initialize (e_lang e) roots) as [t n] eqn:SI. destruct (strtbl_initialize_size _ _ _ _ SI) as [S E].
    pose proof (collect_nodes_ssum (e_lang e) h roots). unfold T, Phi. cbn. repeat split; [lia|exact E].
  - unfold T, Phi. cbn. repeat split; [lia|constructor].
Qed.

(* ------------------------------------------------------------------ the walk *)

Section Walk.
  Variable tbl : list blang.
  Variable h : nat.
  Hypothesis tbl_vals : Forall lang_vals_ok tbl.
  Hypothesis tbl_hdr : forall l, In l tbl -> hdr l <= h.

  Lemma find_lang_in lid l : find_lang tbl lid = Some l -> In l tbl.
  Proof. unfold find_lang. intros H. apply find_some in H. tauto. Qed.

  Definition node_bound (n : node) : Prop :=
    forall e p st b st', lang_vals_ok (e_lang e) -> entries_ok (strtbl st) -> names_ok n ->
      parse_node tbl e p n st = EOk (b, st') ->
      L b + Phi st' + T st' <= 32 * wsize h n + Phi st + T st /\ entries_ok (strtbl st').

  Lemma seq_nodes_size ns : Forall node_bound ns ->
    forall e p st b st', lang_vals_ok (e_lang e) -> entries_ok (strtbl st) -> all_names_ok ns ->
      seq_nodes (parse_node tbl) e p ns st = EOk (b, st') ->
      L b + Phi st' + T st' <= 32 * wsizes h ns + Phi st + T st /\ entries_ok (strtbl st').
  Proof.
    induction 1 as [|x r Hx Hr IH]; intros e p st b st' VO EO NO; cbn [seq_nodes].
    - intros H; injection H as <- <-. cbn. split; [lia|exact EO].
    - destruct NO as [N1 N2].
      destruct (parse_node tbl e p x st) as [[b1 st1]|] eqn:E1; [|discriminate].
      destruct (seq_nodes (parse_node tbl) e p r st1) as [[b2 st2]|] eqn:E2; [|discriminate].
      intros H; injection H as <- <-.
      destruct (Hx _ _ _ _ _ VO EO N1 E1) as [S1 EO1]. destruct (IH _ _ _ _ _ VO EO1 N2 E2) as [S2 EO2].
      rewrite app_length. cbn [wsizes]. split; [lia|exact EO2].
  Qed.

  Lemma Phi_T_set_cur_tag st c : Phi (set_cur_tag st c) = Phi st /\ T (set_cur_tag st c) = T st.
  Proof. split; reflexivity. Qed.

  Theorem parse_node_size : forall n, node_bound n.
  Proof.
    fix IH 1. intros n.
    assert (ALL : forall ks, Forall node_bound ks) by (induction ks as [|x r IHk]; constructor; [apply IH|exact IHk]).
    unfold node_bound. intros e p st b st' VO EO NO.
    destruct n as [tag attrs kids|c|kids| |lid roots]; cbn [parse_node wsize].
    - (* element *)
      destruct NO as (TN & AN & KN). rewrite all_all_names_ok in KN. rewrite sum_wsizes.
      destruct (enc_element_start e st tag attrs _) as [[b1 st1]|] eqn:E1; [|discriminate].
      destruct (enc_element_start_size _ _ _ _ _ _ _ VO EO TN AN E1) as [L1 (G1 & G2 & G3 & G4)].
      destruct (seq_nodes (parse_node tbl) e (Some tag) kids st1) as [[b2 st2]|] eqn:E2; [|discriminate].
      intros H; injection H as <- <-.
      destruct (seq_nodes_size kids (ALL kids) _ _ _ _ _ VO (G4 EO) KN E2) as [S2 EO2].
      rewrite !app_length. assert (P1 : Phi st1 = Phi st) by (unfold Phi; now rewrite G1).
      assert (L (if match kids with [] => false | _ :: _ => true end then [1%N] else []) <= 1) by (destruct kids; cbn; lia).
      unfold Phi, T in *. cbn [cdata strtbl set_cur_tag]. split; [lia|exact EO2].
    - (* text *)
      destruct (enc_text e st p c) as [[b1 st1]|] eqn:E1; [|discriminate]. intros H; injection H as <- <-.
      destruct (enc_text_size _ _ _ _ _ _ VO EO E1) as (S & TT & _ & _ & _ & EO1).
      unfold Phi, T in *. cbn [cdata strtbl set_cur_tag]. split; [lia|exact EO1].
    - (* CDATA *)
      cbn [names_ok] in NO. rewrite all_all_names_ok in NO. rewrite sum_wsizes.
      destruct (cdata st) eqn:CD; [discriminate|].
      destruct (seq_nodes (parse_node tbl) e None kids (set_cdata st true (Some []))) as [[b1 st1]|] eqn:E1; [|discriminate].
      destruct (seq_nodes_size kids (ALL kids) e None (set_cdata st true (Some [])) b1 st1 VO EO NO E1) as [S1 EO1].
      destruct (cdata st1) as [d|] eqn:CD1; [|discriminate]. intros H; injection H as <- <-.
      rewrite app_length. pose proof (enc_opaque_len d) as OL.
      unfold Phi, T in *. cbn [cdata strtbl set_cur_tag set_cdata List.length] in *. rewrite CD, ?CD1 in *.
      destruct (N.ltb 0 (len d)); cbn [List.length]; (split; [lia|exact EO1]).
    - discriminate.
    - (* embedded tree *)
      cbn [names_ok] in NO. rewrite all_all_names_ok in NO. rewrite sum_wsizes.
      destruct (find_lang tbl lid) as [l'|] eqn:FL; [|discriminate].
      set (e' := make_env l' (e_use_strtbl e) (e_ignore_empty e) (e_remove_blanks e) (e_version e) false).
      assert (EL : e_lang e' = l') by reflexivity.
      pose proof (find_lang_in _ _ FL) as IN.
      assert (VO' : lang_vals_ok (e_lang e')) by (rewrite EL; exact (proj1 (Forall_forall _ _) tbl_vals _ IN)).
      destruct (start_state_size e' h roots) as (T0 & P0 & EO0).
      destruct (seq_nodes (parse_node tbl) e' None roots (start_state e' roots)) as [[body st1]|] eqn:E1; [|discriminate].
      destruct (seq_nodes_size roots (ALL roots) _ _ _ _ _ VO' EO0 NO E1) as [S1 _].
      intros H; injection H as <- <-.
      pose proof (enc_opaque_len (fill_header e' st1 ++ body)) as OL. rewrite app_length in OL.
      pose proof (fill_header_size e' st1) as HS. rewrite EL in HS. pose proof (tbl_hdr _ IN).
      unfold Phi, T in *. cbn [cdata strtbl set_cur_tag]. split; [lia|exact EO].
  Qed.

  (* wbxml_tree_to_wbxml on a tree in language l *)
  Theorem enc_wbxml_size l o roots out :
    lang_vals_ok l -> all_names_ok roots ->
    enc_wbxml tbl l o roots = EOk out -> L out <= 33 * wsizes h roots + hdr l.
  Proof.
    intros VO NO. unfold enc_wbxml, enc_body, parse_nodes.
    set (e := enc_env l o). assert (EL : e_lang e = l) by reflexivity.
    destruct (start_state_size e h roots) as (T0 & P0 & EO0).
    destruct (seq_nodes (parse_node tbl) e None roots (start_state e roots)) as [[body st]|] eqn:E1; [|discriminate].
    assert (VO' : lang_vals_ok (e_lang e)) by (rewrite EL; exact VO).
    assert (ALL : Forall node_bound roots) by (apply Forall_forall; intros x _; apply parse_node_size).
    destruct (seq_nodes_size roots ALL _ _ _ _ _ VO' EO0 NO E1) as [S1 _].
    intros H; injection H as <-. rewrite app_length. pose proof (fill_header_size e st) as HS. rewrite EL in HS. lia.
  Qed.
End Walk.
