(* C06 — denotation with BINARY-FLAGGED elements (byte arrays written as OPAQUE): Proofs/EncWbxmlDenote3.v extended to
   the abstraction of Proofs/EncWbxmlAbs4.v.  The text of a binary-flagged element is one OPAQUE item whose octets are the
   node's octets; the decoder reports them as ONE character event holding exactly these octets (Spec: an OPAQUE in the
   content of an element without typed-content rule denotes its octets; it is the XML generator that base64-encodes them
   for binary-flagged tags).  Such a text is neither cut at a NUL, nor trimmed, nor dropped when it is blank:
   [norm4] / [events4] carry the parent's flag. *)
From Coq Require Import List NArith Lia Bool.
From Wbxml Require Import Base.Bits Model.Codec Model.TablesDefs Model.EncWbxml Model.TreeNorm Model.EncWbxmlEvents
     Proofs.EncWbxmlProofs Proofs.TreeNormProofs Proofs.EncWbxmlAbs Proofs.EncWbxmlStrict2 Proofs.EncWbxmlDenote2
     Proofs.EncWbxmlMerge Proofs.EncWbxmlTblOk Proofs.EncWbxmlDenote3 Proofs.EncWbxmlAbs4.
From Wbxml Require Model.Parser Model.Spec Proofs.EncWbxmlDenote Proofs.ParserProofsStrict3.
Import ListNotations.
Local Open Scope N_scope.

(* ---- hypotheses on the tree, normal form and events, with the parent's binary flag ------------------------------------------ *)
Fixpoint tree_ok4 (L : lang) (bin : bool) (depth : N) (n : node) : bool :=
  match n with
  | NElt tag attrs ch =>
    (depth <=? 1000) &&
    match tag with
    | TagTok p t o nm =>
      (5 <=? t) && (t <? 64) && (p <? 256) &&
      match S.lookup_tag L p t with
      | Some r => (t_page r =? p) && (t_tok r =? t) && beq (P.B (t_name r)) nm
      | None => false
      end
    | TagLit nm => okb nm && unknown_tag L nm
    end && forallb (attr_ok3 L) attrs && forallb (tree_ok4 L (tag_bin (Some tag)) (depth + 1)) ch
  | NText c => if bin then S.bytes_okb c && (len c <? 4294967296) else okb c
  | _ => false
  end.

(* what the encoder does to text: nothing under a binary-flagged element, TreeNorm.norm_text elsewhere *)
Fixpoint norm4 (keep bin : bool) (n : node) : list node :=
  match n with
  | NText c => if bin then [NText c] else norm_text keep false c
  | NElt tag attrs ch => [NElt tag attrs (flat_map (norm4 keep (tag_bin (Some tag))) ch)]
  | _ => [n]
  end.

Fixpoint events4 (with_attrs bin : bool) (n : node) : list P.event :=
  match n with
  | NElt tag attrs ch =>
    P.EvStartElt (tag_event tag) (if with_attrs then map attr_event attrs else [])
      :: flat_map (events4 with_attrs (tag_bin (Some tag))) ch ++ [P.EvEndElt (tag_event tag)]
  | NText c => if bin then chars c else match cstr c with [] => [] | s => [P.EvChars s] end
  | _ => []
  end.

Definition doc_events4 (L : lang) (e : env) (keep : bool) (root : node) : list P.event :=
  P.EvStartDoc 106 (l_id L) :: flat_map (events4 (has_attr_table e) false) (norm4 keep false root) ++ [P.EvEndDoc].

(* a tree of the former fragment is one of this fragment, with the same normal form and events *)
Lemma ok3_ok4 L : forall n d, tree_ok3 L d n = true -> tree_ok4 L false d n = true.
Proof.
  induction n as [tag attrs ch IH|c|ch IH| |lid roots IH] using node_ind'; intros d H; cbn [tree_ok3] in H; try discriminate; [|exact H].
  apply andb_true_iff in H as [H Hch]. apply andb_true_iff in H as [H Hat]. apply andb_true_iff in H as [Hd Htag].
  cbn [tree_ok4]. rewrite Hd, Hat. cbn [andb].
  assert (Hb : tag_bin (Some tag) = false /\ match tag with
                      | TagTok p t o nm => (5 <=? t) && (t <? 64) && (p <? 256) &&
                          match S.lookup_tag L p t with
                          | Some r => (t_page r =? p) && (t_tok r =? t) && beq (P.B (t_name r)) nm
                          | None => false
                          end
                      | TagLit nm => okb nm && unknown_tag L nm
                      end = true).
  { destruct tag as [p t o nm|nm]; [|split; [reflexivity|exact Htag]].
    repeat (apply andb_true_iff in Htag; destruct Htag as [Htag ?]).
    split; [cbn; unfold opt_bin; match goal with X : (N.land o 1 =? 0) = true |- _ => now rewrite X end|].
    repeat (apply andb_true_iff; split); assumption. }
  destruct Hb as [Hb ->]. rewrite Hb. cbn [andb].
  clear -IH Hch. induction IH as [|x r Hx _ IHr]; [reflexivity|]. cbn [forallb] in *.
  apply andb_true_iff in Hch as [H1 H2]. now rewrite (Hx _ H1), IHr.
Qed.

(* ---- the table keeps octets < 256 through initialisation and walk -------------------------------------------------------------- *)
Section WalkAll.
  Variable pc : N -> bool.
  Hypothesis Hpc : forall b, okb b = true -> allc pc b = true.

  Lemma abs_attr_start_all e L st a start vl st1 : attr_ok3 L a = true -> tbl_all pc (strtbl st) = true ->
    abs_attr_start e st a = Some (start, vl, st1) -> tbl_all pc (strtbl st1) = true.
  Proof.
    intros Ha Ht AS.
    { unfold abs_attr_start in AS. cbv zeta in AS.
      assert (TK : forall t p, tbl_all pc (strtbl (snd (enc_attr_token st t p))) = true)
        by (intros t p; destruct (attr_token_same_tbl st t p) as [E _]; now rewrite E).
      assert (LT : forall nm vl0, okb nm = true -> (if e_use_strtbl e then
                    let '(idx, tbl', tlen') := strtbl_add (strtbl st) (strtbl_len st) (cstr nm) in
                    Some (S.AStartLit idx, vl0, set_strtbl st tbl' tlen') else None) = Some (start, vl, st1) -> tbl_all pc (strtbl st1) = true).
      { intros nm vl0 Hn. destruct (e_use_strtbl e); [|discriminate]. destruct (strtbl_add _ _ _) as [[idx t'] l'] eqn:A.
        intros E; injection E as _ _ <-. cbn. exact (strtbl_add_all pc _ _ _ _ _ _ Ht (Hpc _ (okb_cstr_ok _ Hn)) A). }
      unfold attr_ok3 in Ha. apply andb_true_iff in Ha as [Hval Ha]. pose proof (okb_cstr _ Hval) as Hc.
      destruct (at_name a) as [page tk nm oval|nm].
      - destruct oval as [xv|].
        + destruct (is_prefix xv (cstr (at_value a))) eqn:PX; [injection AS as _ _ <-; apply TK|].
          exfalso. rewrite Hc in PX.
          apply andb_true_iff in Ha as [_ Ha]. destruct (S.lookup_attr L page tk) as [r|]; [|discriminate].
          apply andb_true_iff in Ha as [_ Ha]. destruct (a_value r); [|discriminate].
          apply andb_true_iff in Ha as [_ Ha]. congruence.
        + injection AS as _ _ <-; apply TK.
      - apply andb_true_iff in Ha as [Hn _].
        destruct (get_attr_from_xml _ _ _) as [[r lft]|]; [injection AS as _ _ <-; apply TK|exact (LT _ _ Hn AS)]. }
  Qed.

  Lemma abs_attr_all e L st a w st' : attr_ok3 L a = true -> tbl_all pc (strtbl st) = true ->
    abs_attr e st a = Some (w, st') -> tbl_all pc (strtbl st') = true.
  Proof.
    intros Ha Ht. unfold abs_attr. destruct (abs_attr_start e st a) as [[[start vl] st1]|] eqn:AS; [|discriminate].
    pose proof (abs_attr_start_all _ _ _ _ _ _ _ Ha Ht AS) as H1.
    destruct vl as [v|].
    - destruct (abs_value e st1 true v) as [[w0 st2]|] eqn:AV; [|discriminate]. intros E; injection E as _ <-.
      destruct (abs_value_same _ _ _ _ _ _ AV) as [S1 _]. now rewrite S1.
    - intros E; injection E as _ <-. exact H1.
  Qed.

  Lemma abs_attrs_all e L l : forall st ws st', forallb (attr_ok3 L) l = true -> tbl_all pc (strtbl st) = true ->
    abs_attrs e st l = Some (ws, st') -> tbl_all pc (strtbl st') = true.
  Proof.
    induction l as [|a r IH]; intros st ws st' Hl Ht; cbn [abs_attrs]; [intros E; injection E as _ <-; exact Ht|].
    cbn [forallb] in Hl. apply andb_true_iff in Hl as [H1 H2].
    destruct (abs_attr e st a) as [[w st1]|] eqn:A; [|discriminate].
    destruct (abs_attrs e st1 r) as [[ws' st2]|] eqn:R; [|discriminate]. intros E; injection E as _ <-.
    exact (IH _ _ _ H2 (abs_attr_all _ _ _ _ _ _ H1 Ht A) R).
  Qed.

  Lemma abs_tag_all e st tag ha hc sw wtag st' :
    match tag with TagLit nm => okb nm = true | TagTok _ t _ _ => (t =? 0) = false end -> tbl_all pc (strtbl st) = true ->
    abs_tag e st tag ha hc = Some (sw, wtag, st') -> tbl_all pc (strtbl st') = true.
  Proof.
    intros Hn Ht. unfold abs_tag.
    assert (LIT : forall st1 nm, okb nm = true -> tbl_all pc (strtbl st1) = true ->
              (if e_use_strtbl e then
                 let '(idx, tbl', tlen') := strtbl_add (strtbl st1) (strtbl_len st1) (cstr nm) in
                 Some (@None N, S.WTagLit idx, set_strtbl st1 tbl' tlen') else None) = Some (sw, wtag, st') -> tbl_all pc (strtbl st') = true).
    { intros st1 nm Hok H1. destruct (e_use_strtbl e); [|discriminate]. destruct (strtbl_add _ _ _) as [[idx t'] l'] eqn:A.
      intros E; injection E as _ _ <-. cbn. exact (strtbl_add_all pc _ _ _ _ _ _ H1 (Hpc _ (okb_cstr_ok _ Hok)) A). }
    destruct tag as [p t o nm|nm]; cbn [tag_triple tag_xml_name].
    - cbv zeta. rewrite Hn. destruct ((5 <=? t) && (t <? 64)); [|discriminate]. intros E; injection E as _ _ <-. exact Ht.
    - destruct (get_tag_from_xml (e_lang e) (tagcp st) nm) as [r|]; cbv zeta.
      + destruct (bt_tok r =? 0); [apply LIT; [exact Hn|exact Ht]|].
        destruct ((5 <=? bt_tok r) && (bt_tok r <? 64)); [|discriminate]. intros E; injection E as _ _ <-. exact Ht.
      + cbn [N.eqb]. apply LIT; [exact Hn|exact Ht].
  Qed.
End WalkAll.

Lemma collect_attr_lt l L a : attr_ok3 L a = true -> forallb (allc S.is_byte) (collect_attr l a) = true.
Proof.
  intros H. pose proof (collect_attr_ok l L a H) as Hc.
  apply forallb_forall. intros s Hs. rewrite forallb_forall in Hc. exact (okb_lt _ (Hc s Hs)).
Qed.

Lemma collect_node_lt l L : forall n bin d, tree_ok4 L bin d n = true -> forallb (allc S.is_byte) (collect_node l n) = true.
Proof.
  induction n as [tag attrs ch IH|c|ch IH| |lid roots IH] using node_ind'; intros bin d H; cbn [tree_ok4] in H; try discriminate.
  - apply andb_true_iff in H as [H Hch]. apply andb_true_iff in H as [_ Hat].
    cbn [collect_node]. rewrite forallb_app. apply andb_true_iff. split.
    + clear -Hat. induction attrs as [|a r IHa]; [reflexivity|]. cbn [forallb flat_map] in *.
      apply andb_true_iff in Hat as [H1 H2]. now rewrite forallb_app, (collect_attr_lt l L a H1), IHa.
    + clear -IH Hch. induction IH as [|x r Hx _ IHr]; [reflexivity|]. cbn [forallb flat_map] in *.
      apply andb_true_iff in Hch as [H1 H2]. now rewrite forallb_app, (Hx _ _ H1), IHr.
  - cbn [collect_node]. destruct (only_ws c); [reflexivity|]. destruct (3 <? len c); [|reflexivity]. cbn [forallb]. rewrite andb_true_r.
    destruct bin; [apply andb_true_iff in H as [H _]; exact H|exact (okb_lt _ H)].
Qed.

Lemma start_state_lt e L root d : tree_ok4 L false d root = true -> tbl_lt (strtbl (start_state e [root])) = true.
Proof.
  intros H. unfold start_state. destruct (e_use_strtbl e); [|reflexivity].
  destruct (strtbl_initialize (e_lang e) [root]) as [t n] eqn:I. cbn.
  apply (strtbl_initialize_all S.is_byte (e_lang e) [root] t n); [|exact I].
  unfold collect_nodes. cbn [flat_map]. rewrite app_nil_r. exact (collect_node_lt _ L root false d H).
Qed.

Lemma abs_node4_lt e L : forall n par bin d st items st', tree_ok4 L bin d n = true -> tbl_lt (strtbl st) = true ->
  abs_node4 e par n st = Some (items, st') -> tbl_lt (strtbl st') = true.
Proof.
  induction n as [tag attrs ch IH|c|ch IH| |lid roots IH] using node_ind'; intros par bin d st items st' HT Ht; cbn [tree_ok4] in HT; try discriminate;
    cbn [abs_node4].
  - apply andb_true_iff in HT as [HT Hch]. apply andb_true_iff in HT as [HT Hat]. apply andb_true_iff in HT as [_ Htag].
    destruct (abs_tag e st tag _ _) as [[[sw wtag] st1]|] eqn:AT; [|discriminate].
    destruct (if has_attr_table e then abs_attrs e st1 attrs else Some ([], st1)) as [[ws st2]|] eqn:AA; [|discriminate].
    destruct (abs_seq (abs_node4 e) (Some tag) ch st2) as [[its st3]|] eqn:AS; [|discriminate].
    intros E; injection E as _ <-. cbn [strtbl set_cur_tag].
    assert (T1 : tbl_lt (strtbl st1) = true).
    { refine (abs_tag_all S.is_byte okb_lt _ _ _ _ _ _ _ _ _ Ht AT). destruct tag as [p t o nm|nm].
      - repeat (apply andb_true_iff in Htag; destruct Htag as [Htag ?]). apply N.eqb_neq. apply N.leb_le in Htag. lia.
      - now apply andb_true_iff in Htag as [Htag _]. }
    assert (T2 : tbl_lt (strtbl st2) = true).
    { destruct (has_attr_table e); [exact (abs_attrs_all S.is_byte okb_lt _ _ _ _ _ _ Hat T1 AA)|now injection AA as _ <-]. }
    clear AT AA. revert st2 its st3 T2 AS. induction IH as [|x r Hx _ IHr]; intros st2 its st3 T2; cbn [abs_seq].
    + intros E; injection E as _ <-. exact T2.
    + cbn [forallb] in Hch. apply andb_true_iff in Hch as [H1 H2].
      destruct (abs_node4 e (Some tag) x st2) as [[a sa]|] eqn:A; [|discriminate].
      destruct (abs_seq (abs_node4 e) (Some tag) r sa) as [[b sb]|] eqn:B; [|discriminate]. intros E; injection E as _ <-.
      exact (IHr H2 _ _ _ (Hx _ _ _ _ _ _ H1 T2 A) B).
  - destruct (abs_text4 e st par c) as [[its st1]|] eqn:AT; [|discriminate]. intros E; injection E as _ <-.
    destruct (abs_text4_same _ _ _ _ _ _ AT) as [S1 _]. cbn. now rewrite S1.
Qed.

(* ---- an OPAQUE in content denotes its octets in a language without typed content ---------------------------------------------- *)
Lemma plain_opaque L e x : e_lang e = to_blang L -> plain_env e = true -> S.opaque_kind (l_id L) x = S.OPlain.
Proof.
  intros HE HP. destruct (plain_env_split e HP) as (Hw & Hd & Hs & _). rewrite HE in Hw, Hd, Hs.
  unfold is_wv, is_syncml, LANG_WV_CSP11, LANG_WV_CSP12, LANG_DRMREL10, LANG_SYNCML10, LANG_SYNCML11, LANG_SYNCML12 in *.
  cbn [to_blang bl_id] in *. unfold S.opaque_kind. destruct x as [p|]; [|reflexivity]. now rewrite Hw, Hd, Hs.
Qed.

Section D4.
  Variable L : lang.
  Variable e : env.
  Hypothesis HE : e_lang e = to_blang L.
  Hypothesis HP : plain_env e = true.
  Hypothesis HV : vals_ok L = true.
  Hypothesis HX : l_exts L = None.
  Hypothesis Hopts : e_ignore_empty e = e_remove_blanks e.
  Variable TF : list ste.
  Variable tb : bytes.
  Hypothesis HRES : forall x, In x TF -> okb (s_str x) = true -> S.str_at tb (s_off x) = Some (s_str x).
  Hypothesis HU32 : forall x, In x TF -> S.u32_okb (s_off x) = true.
  Hypothesis HREF : forall x, In x TF -> ref_str TF (s_off x) = s_str x.

  Lemma text_den4 st par c items st' d me (dst : S.dstate) :
    cur_ok st par -> sub TF st' -> (if tag_bin par then S.bytes_okb c && (len c <? 4294967296) else okb c) = true ->
    abs_text4 e st par c = Some (items, st') ->
    exists evs, D1.den_items (S.mk_denv L tb) d me items dst = Some (evs, dst) /\
      merge_chars evs = merge_chars (flat_map (events4 (has_attr_table e) (tag_bin par)) (norm4 (negb (e_remove_blanks e)) (tag_bin par) (NText c))) /\
      tagcp st' = tagcp st /\ attrcp st' = attrcp st.
  Proof.
    intros Hc Hsub Hok. unfold abs_text4. rewrite (binary_is st par Hc). cbn [norm4]. destruct (tag_bin par).
    - apply andb_true_iff in Hok as [Hb Hl]. rewrite Hl. intros E; injection E as <- <-.
      exists (chars c). split; [|cbn [flat_map events4]; rewrite app_nil_r; auto].
      cbn [D1.den_items S.den_item S.den_str S.de_lang]. rewrite Hb.
      replace (S.u32_okb (Parser.blen c)) with true by (symmetry; exact Hl). cbn [andb].
      rewrite !(plain_opaque L e _ HE HP). cbn [S.okind_eqb S.spec_opaque]. rewrite app_nil_r. reflexivity.
    - intros A. destruct (text_den3 L e HE HV HX Hopts TF tb HRES HU32 HREF st par c items st' d me dst Hsub Hok A) as (evs & Dn & M & T1 & T2).
      exists evs. split; [exact Dn|]. split; [|auto]. rewrite M. f_equal.
      unfold norm_text. destruct (negb (e_remove_blanks e) || false); [reflexivity|]. destruct (only_ws c); reflexivity.
  Qed.

  Definition node_den4 (n : node) : Prop :=
    forall par d me st items st' (dst : S.dstate),
      tree_ok4 L (tag_bin par) d n = true -> cur_ok st par -> sub TF st' -> S.ds_tagcp dst = tagcp st -> S.ds_attrcp dst = attrcp st ->
      abs_node4 e par n st = Some (items, st') ->
      exists evs dst', D1.den_items (S.mk_denv L tb) d me items dst = Some (evs, dst') /\
        merge_chars evs = merge_chars (flat_map (events4 (has_attr_table e) (tag_bin par)) (norm4 (negb (e_remove_blanks e)) (tag_bin par) n)) /\
        S.ds_tagcp dst' = tagcp st' /\ S.ds_attrcp dst' = attrcp st' /\ cur_tag st' = None.

  Lemma seq_den4 ns : Forall node_den4 ns ->
    forall par d me st items st' (dst : S.dstate),
      forallb (tree_ok4 L (tag_bin par) d) ns = true -> cur_ok st par -> sub TF st' -> S.ds_tagcp dst = tagcp st -> S.ds_attrcp dst = attrcp st ->
      abs_seq (abs_node4 e) par ns st = Some (items, st') ->
      exists evs dst', D1.den_items (S.mk_denv L tb) d me items dst = Some (evs, dst') /\
        merge_chars evs = merge_chars (flat_map (events4 (has_attr_table e) (tag_bin par)) (flat_map (norm4 (negb (e_remove_blanks e)) (tag_bin par)) ns)) /\
        S.ds_tagcp dst' = tagcp st' /\ S.ds_attrcp dst' = attrcp st'.
  Proof.
    induction 1 as [|x r Hx _ IH]; intros par d me st items st' dst HT Hc Hsub H1 H2; cbn [abs_seq flat_map].
    - intros E; injection E as <- <-. exists [], dst. cbn. auto.
    - cbn [forallb] in HT. apply andb_true_iff in HT as [HT1 HT2].
      destruct (abs_node4 e par x st) as [[a sa]|] eqn:A; [|discriminate].
      destruct (abs_seq (abs_node4 e) par r sa) as [[b sb]|] eqn:B; [|discriminate]. intros E; injection E as <- <-.
      assert (Hsa : sub TF sa) by (exact (sub_ext _ _ _ (abs_seq4_ext _ _ _ _ _ _ B) Hsub)).
      destruct (Hx par d me st a sa dst HT1 Hc Hsa H1 H2 A) as (ev1 & dst1 & D1' & M1 & P1 & P2 & C1).
      destruct (IH par d me sa b sb dst1 HT2 (cur_none_ok _ _ C1) Hsub P1 P2 B) as (ev2 & dst2 & D2' & M2 & Q1 & Q2).
      exists (ev1 ++ ev2), dst2. split; [eapply D1.den_items_app; eassumption|]. split; [|auto].
      rewrite flat_map_app. now apply merge_app_congr.
  Qed.

  Lemma all_node_den4 n : node_den4 n.
  Proof.
    induction n as [tag attrs ch IH|c|ch IH| |lid roots IH] using node_ind';
      intros par d me st items st' dst HT Hc Hsub H1 H2; cbn [tree_ok4] in HT; try discriminate.
    - apply andb_true_iff in HT as [HT HTch]. apply andb_true_iff in HT as [HT HTa]. apply andb_true_iff in HT as [Hd Htag].
      cbn [abs_node4 norm4].
      destruct (abs_tag e st tag (nonempty attrs) (nonempty ch)) as [[[sw wtag] st1]|] eqn:AT; [|discriminate].
      destruct (if has_attr_table e then abs_attrs e st1 attrs else Some ([], st1)) as [[ws st2]|] eqn:AA; [|discriminate].
      destruct (abs_seq (abs_node4 e) (Some tag) ch st2) as [[its st3]|] eqn:AS; [|discriminate].
      intros E; injection E as <- <-.
      assert (Hs3 : sub TF st3) by exact Hsub.
      assert (Hs2 : sub TF st2) by (exact (sub_ext _ _ _ (abs_seq4_ext _ _ _ _ _ _ AS) Hs3)).
      assert (Hs1 : sub TF st1).
      { destruct (has_attr_table e); [exact (sub_ext _ _ _ (proj1 (abs_attrs_sx _ _ _ _ _ AA)) Hs2)|injection AA as _ <-; exact Hs2]. }
      destruct (tag_den3 L e HE TF tb HRES HU32 st tag _ _ sw wtag st1 dst Htag Hs1 H1 H2 AT) as (Hsw & me1 & dst0 & NM & R1 & R2).
      (* current_tag after the tag *)
      assert (C1 : cur_ok st1 (Some tag)).
      { unfold abs_tag in AT. destruct tag as [p t o nm|nm]; cbn [tag_triple] in AT.
        - apply andb_true_iff in Htag as [Htag _]. apply andb_true_iff in Htag as [Htag _]. rewrite Htag in AT.
          destruct (t =? 0); [destruct (e_use_strtbl e); [destruct (strtbl_add _ _ _) as [[? ?] ?]|discriminate]|];
            injection AT as _ _ <-; unfold cur_ok; cbn; reflexivity.
        - apply andb_true_iff in Htag as [_ Hun].
          rewrite (lit_unknown_none e nm (tagcp st) (unknown_lit L e HE nm Hun)) in AT. cbn [N.eqb] in AT.
          destruct (e_use_strtbl e); [|discriminate]. destruct (strtbl_add _ _ _) as [[? ?] ?].
          injection AT as _ _ <-. unfold cur_ok; cbn; exact I. }
      assert (ATT : exists dst2, S.den_attrs (S.mk_denv L tb) ws dst0 = Some (if (has_attr_table e) then map attr_event attrs else [], dst2) /\
                     S.ds_attrcp dst2 = attrcp st2 /\ S.ds_tagcp dst2 = tagcp st2 /\ cur_ok st2 (Some tag)).
      { destruct (has_attr_table e).
        - destruct (den_all_attrs3 L e HE HP HV HX TF tb HRES HU32 HREF attrs st1 ws st2 dst0 Hs2 HTa R2 AA) as (dst2 & DA & A2 & B2 & C2).
          exists dst2. split; [exact DA|]. split; [exact A2|]. split; [rewrite (abs_attrs_tagcp e attrs st1 ws st2 AA); congruence|].
          destruct (abs_attrs_inv _ _ _ _ _ AA) as [_ B]. unfold cur_ok in *. now rewrite B.
        - injection AA as <- <-. exists dst0. split; [reflexivity|]. split; [exact R2|]. split; [exact R1|exact C1]. }
      destruct ATT as (dst2 & DA & A2 & B2 & C2).
      destruct (seq_den4 ch IH (Some tag) (d + 1) me1 st2 its st3 dst2 HTch C2 Hs3 B2 A2 AS) as (evk & dst3 & D3 & M3 & P1 & P2).
      assert (KIDS : if nonempty ch then D1.den_items (S.mk_denv L tb) (d + 1) me1 its dst2 = Some (evk, dst3)
                     else its = [] /\ evk = [] /\ dst3 = dst2).
      { destruct ch as [|c0 ch0]; cbn [nonempty]; [|exact D3].
        cbn [abs_seq] in AS. injection AS as <- <-. cbn [D1.den_items] in D3. injection D3 as <- <-. auto. }
      pose proof (den_elt_intro (S.mk_denv L tb) d me sw wtag ws (nonempty ch) its dst _ _ _ _ _ _ _ Hsw Hd NM DA KIDS) as DI.
      eexists _, (S.set_dcur dst3 None). split.
      + cbn [D1.den_items]. rewrite DI. reflexivity.
      + split; [|cbn; auto].
        cbn [flat_map events4]. rewrite !app_nil_r. cbn [merge_chars]. f_equal.
        apply merge_app_congr; [exact M3|reflexivity].
    - cbn [abs_node4].
      destruct (abs_text4 e st par c) as [[its st1]|] eqn:AT; [|discriminate]. intros E; injection E as <- <-.
      destruct (text_den4 st par c its st1 d me dst Hc Hsub HT AT) as (evs & Dn & M & T1 & T2).
      exists evs, dst. split; [exact Dn|]. split; [exact M|]. cbn. rewrite T1, T2. auto.
  Qed.
End D4.

(* ---- the document --------------------------------------------------------------------------------------------------------------------- *)
Lemma tree_ok4_frag4 L e : e_lang e = to_blang L -> forall n bin d, tree_ok4 L bin d n = true -> frag4_node e bin n = true.
Proof.
  intros HE. induction n as [tag attrs ch IH|c|ch IH| |lid roots IH] using node_ind'; intros bin d H; cbn [tree_ok4] in H; try discriminate.
  - apply andb_true_iff in H as [H Hch]. apply andb_true_iff in H as [H _]. apply andb_true_iff in H as [_ Htag].
    cbn [frag4_node]. apply andb_true_iff. split.
    + destruct tag as [p t o nm|nm].
      * apply andb_true_iff in Htag as [Htag _]. apply andb_true_iff in Htag as [Htag _]. exact Htag.
      * apply andb_true_iff in Htag as [_ Hun]. unfold unknown_tag in Hun. unfold lit_unknown. now rewrite HE.
    + clear -IH Hch. induction IH as [|x r Hx _ IHr]; [reflexivity|]. cbn [forallb] in *.
      apply andb_true_iff in Hch as [H1 H2]. now rewrite (Hx _ _ H1), IHr.
  - cbn [frag4_node]. destruct bin; [|reflexivity]. now apply andb_true_iff in H as [_ H].
Qed.

Theorem strict_decode_of_encoding4 tblb TBL L o tag attrs ch bs :
  let e := enc_env (to_blang L) o in
  plain_env e = true -> vals_ok L = true -> l_exts L = None ->
  tree_ok4 L false 0 (NElt tag attrs ch) = true ->
  find (fun x => l_id x =? l_id L) TBL = Some L ->
  o_version o < 4 -> header_public_id e < 4294967296 -> header_public_id e <> 0 ->
  (match header_pid e with Some p => okb p = true | None => True end) ->
  len bs < 4294967296 ->
  enc_wbxml tblb (to_blang L) o [NElt tag attrs ch] = EOk bs ->
  exists d evs, bs = S.serialize d /\ S.strict_doc d = true /\
            S.denote_with TBL (Some L) d = Some evs /\ S.decode_lang TBL (l_id L) bs = Some evs /\
            merge_chars evs = merge_chars (doc_events4 L e (o_keep_ws o) (NElt tag attrs ch)).
Proof.
  cbv zeta. intros HP HV HX HT HFind Hv Hp1 Hp0 Hpid Hlen E. set (e := enc_env (to_blang L) o) in *.
  assert (HE : e_lang e = to_blang L) by reflexivity.
  assert (HF : frag4_node e false (NElt tag attrs ch) = true) by (apply (tree_ok4_frag4 L e HE _ false 0 HT)).
  destruct (enc_wbxml_serialize4 tblb (to_blang L) o tag attrs ch bs HP HF E) as (st' & root & EB & AN & HS).
  assert (Hsz : if e_use_strtbl e then tbl_size (final_tbl e st') < 4294967296
                else match header_pid e with Some p => len p + 1 < 4294967296 | None => True end).
  { rewrite enc_wbxml_form_local, EB in E. injection E as <-. rewrite len_app in Hlen.
    pose proof (fill_header_len e st') as HL. fold e in Hlen.
    destruct (e_use_strtbl e); [lia|]. destruct (header_pid e); [lia|exact I]. }
  assert (NOTBL : e_use_strtbl e = false -> strtbl st' = [] /\ strtbl_len st' = 0).
  { intros HU. pose proof (abs_node4_same e _ HU _ _ _ _ AN) as [S1 S2].
    unfold start_state in S1, S2. fold e in S1, S2. rewrite HU in S1, S2. cbn in S1, S2. auto. }
  assert (TLT : tbl_lt (strtbl st') = true)
    by (exact (abs_node4_lt e L _ None false 0 _ _ _ HT (start_state_lt e L _ 0 HT) AN)).
  destruct (final_facts_gen tblb (to_blang L) o _ _ st' EB TLT NOTBL Hpid Hsz) as (G1 & G2 & G3 & G4 & G5 & G6 & G7 & G8 & G9).
  pose proof (header_len_ok_gen tblb (to_blang L) o _ _ st' EB NOTBL G8 G9) as HL.
  destruct (abs_node4_sx e _ _ _ _ _ AN) as [_ Hroot]. cbn [forallb] in Hroot. rewrite andb_true_r in Hroot.
  pose proof (strict_doc_gen tblb (to_blang L) o _ _ st' root EB Hroot NOTBL G8) as Hstrict.
  (* denotation *)
  assert (Ho : e_ignore_empty e = e_remove_blanks e) by reflexivity.
  assert (Hk : negb (e_remove_blanks e) = o_keep_ws o) by (subst e; unfold enc_env, make_env; cbn; now rewrite negb_involutive).
  assert (Hst0 : tagcp (start_state e [NElt tag attrs ch]) = 0 /\ attrcp (start_state e [NElt tag attrs ch]) = 0 /\ cur_tag (start_state e [NElt tag attrs ch]) = None).
  { unfold start_state. destruct (e_use_strtbl e); [destruct (strtbl_initialize _ _)|]; cbn; auto. }
  destruct Hst0 as (Z2 & Z3 & Z4).
  destruct (all_node_den4 L e HE HP HV HX Ho (final_tbl e st') (doc_strtbl e st') G1 G2 G3 (NElt tag attrs ch) None 0 None _ [root] st'
                          (S.mk_dstate 0 0 None) HT (cur_none_ok _ _ Z4) G4 (eq_sym Z2) (eq_sym Z3) AN) as (evs & dst' & DN & MG & _).
  assert (Hden : exists evs', S.denote_with TBL (Some L) (abs_doc2 e st' root) = Some evs' /\
                              merge_chars evs' = merge_chars (doc_events4 L e (o_keep_ws o) (NElt tag attrs ch))).
  { fold e in AN. cbn [abs_node4] in AN.
    destruct (abs_tag e _ tag _ _) as [[[sw wtag] st2]|]; [|discriminate].
    destruct (if has_attr_table e then abs_attrs e st2 attrs else Some ([], st2)) as [[ws st3]|]; [|discriminate].
    destruct (abs_seq (abs_node4 e) (Some tag) ch st3) as [[its st4]|]; [|discriminate]. injection AN as <- <-.
    eexists. split; [eapply doc_wrap; [exact DN|exact Hv|exact Hp1|exact Hp0|exact G5|exact G6|exact G7]|].
    unfold doc_events4. cbn [merge_chars]. f_equal.
    apply merge_app_congr; [|reflexivity]. rewrite MG, Hk. reflexivity. }
  destruct Hden as (evs' & Hden & MG').
  exists (abs_doc2 e st' root), evs'. split; [exact (HS HL)|]. split; [exact Hstrict|]. split; [exact Hden|]. split; [|exact MG'].
  rewrite (HS HL). apply Proofs.ParserProofsStrict3.decode_lang_serialize; [|exact Hstrict]. rewrite HFind. exact Hden.
Qed.

(* C07 on this fragment *)
Theorem options_decode_equal4 tblb TBL L v1 v2 s1 s2 a1 a2 k tag attrs ch bs1 bs2 :
  let o1 := mk_opts v1 s1 k a1 in let o2 := mk_opts v2 s2 k a2 in
  plain_env (enc_env (to_blang L) o1) = true -> vals_ok L = true -> l_exts L = None ->
  tree_ok4 L false 0 (NElt tag attrs ch) = true ->
  find (fun x => l_id x =? l_id L) TBL = Some L ->
  v1 < 4 -> v2 < 4 -> l_pub_num L < 4294967296 -> l_pub_num L <> 0 ->
  (match l_pub_text L with Some p => okb (P.B p) = true | None => True end) ->
  len bs1 < 4294967296 -> len bs2 < 4294967296 ->
  enc_wbxml tblb (to_blang L) o1 [NElt tag attrs ch] = EOk bs1 ->
  enc_wbxml tblb (to_blang L) o2 [NElt tag attrs ch] = EOk bs2 ->
  exists ev1 ev2, S.decode_lang TBL (l_id L) bs1 = Some ev1 /\ S.decode_lang TBL (l_id L) bs2 = Some ev2 /\
                  merge_chars ev1 = merge_chars ev2.
Proof.
  cbv zeta. intros HP HV HX HT HFind Hv1 Hv2 Hn1 Hn0 Hpt Hl1 Hl2 E1 E2.
  assert (PID : forall v s a, header_public_id (enc_env (to_blang L) (mk_opts v s k a)) < 4294967296 /\
                              header_public_id (enc_env (to_blang L) (mk_opts v s k a)) <> 0 /\
                              match header_pid (enc_env (to_blang L) (mk_opts v s k a)) with
                              | Some p => okb p = true | None => True end).
  { intros v s a. unfold header_public_id, header_pid, header_public_id. cbn [e_anonymous enc_env make_env e_lang to_blang bl_pub_num bl_pub_text o_anonymous].
    destruct a; cbn [negb andb].
    - rewrite andb_false_r. split; [lia|]. split; [lia|exact I].
    - split; [exact Hn1|]. split; [exact Hn0|]. destruct ((l_pub_num L =? 1) && true); [|exact I].
      destruct (l_pub_text L); [exact Hpt|exact I]. }
  destruct (PID v1 s1 a1) as (P1 & P2 & P3). destruct (PID v2 s2 a2) as (Q1 & Q2 & Q3).
  destruct (strict_decode_of_encoding4 tblb TBL L (mk_opts v1 s1 k a1) tag attrs ch bs1 HP HV HX HT HFind Hv1 P1 P2 P3 Hl1 E1)
    as (d1 & ev1 & _ & _ & _ & D1' & M1).
  destruct (strict_decode_of_encoding4 tblb TBL L (mk_opts v2 s2 k a2) tag attrs ch bs2 HP HV HX HT HFind Hv2 Q1 Q2 Q3 Hl2 E2)
    as (d2 & ev2 & _ & _ & _ & D2' & M2).
  exists ev1, ev2. split; [exact D1'|]. split; [exact D2'|]. rewrite M1, M2. reflexivity.
Qed.
