(* C02 — linear size of the output of the concrete conversion model (Model/ConvXml2Wbxml.v), from the size theorem of the
   WBXML encoder model (Proofs/EncWbxmlSize2.v), and the table facts it needs checked on the regenerated tables. *)
From Coq Require Import List NArith PeanoNat Lia Bool.
From Wbxml Require Import Model.TablesDefs Model.Conv Model.EncWbxml Model.EncWbxmlTables Model.XmlFront Model.ConvXml2Wbxml.
From Wbxml Require Import Model.Codec Model.Tables Gen.TablesData.
From Wbxml Require Import Proofs.EncWbxmlSize Proofs.EncWbxmlSize2 Proofs.XmlFrontTree Proofs.XmlFrontNames Proofs.XmlFrontSize Proofs.ConvXml2WbxmlProofs.
Import ListNotations.
Local Open Scope nat_scope.

(* no attribute value row with an empty name (an empty name would be "found" everywhere: wbxml_buffer_search_cstr) *)
Definition lang_vals_okb (l : blang) : bool :=
  match bl_vals l with
  | Some rows => forallb (fun r => match bv_name r with [] => false | _ => true end) rows
  | None => true
  end.

Lemma lang_vals_okb_ok l : lang_vals_okb l = true -> lang_vals_ok l.
Proof.
  unfold lang_vals_okb, lang_vals_ok. destruct (bl_vals l) as [rows|]; [|auto]. intros H. rewrite forallb_forall in H.
  apply Forall_forall. intros r I. specialize (H r I). destruct (bv_name r); [discriminate|discriminate].
Qed.

Lemma tables_vals_ok tbl : forallb lang_vals_okb tbl = true -> Forall lang_vals_ok tbl.
Proof. intros H. rewrite forallb_forall in H. apply Forall_forall. intros l I. apply lang_vals_okb_ok. now apply H. Qed.

Lemma main_btable_vals_ok : Forall lang_vals_ok main_btable.
Proof. apply tables_vals_ok. vm_compute. reflexivity. Qed.

(* the largest header constant of the tables: 18 + the longest public identifier *)
Definition hdr_max (tbl : list blang) : nat := fold_right (fun l m => Nat.max (hdr l) m) 0 tbl.

Lemma hdr_le_max tbl l : In l tbl -> hdr l <= hdr_max tbl.
Proof. induction tbl as [|x r IH]; [contradiction|]. cbn [hdr_max fold_right]. intros [->|I]; [lia|]. specialize (IH I). unfold hdr_max in IH. lia. Qed.

Example hdr_max_main : hdr_max main_btable = 50.
Proof. vm_compute. reflexivity. Qed.

Theorem encode_tree_size btbl o t out :
  Forall lang_vals_ok btbl -> all_names_ok (xt_roots t) -> encode_tree btbl o t = inl out ->
  List.length out <= 33 * wsizes (hdr_max btbl) (xt_roots t) + hdr_max btbl.
Proof.
  intros VO NO. unfold encode_tree. destruct (find_lang btbl (xt_lang t)) as [l|] eqn:FL; [|discriminate].
  destruct (enc_wbxml btbl l o (xt_roots t)) as [b|c] eqn:E; [|discriminate]. intros H; injection H as <-.
  assert (IN : In l btbl) by (unfold find_lang in FL; apply find_some in FL; tauto).
  pose proof (enc_wbxml_size btbl (hdr_max btbl) VO (hdr_le_max btbl) l o (xt_roots t) b
                             (proj1 (Forall_forall _ _) VO l IN) NO E).
  pose proof (hdr_le_max btbl l IN). lia.
Qed.

(* the whole conversion: whenever it succeeds, the output is at most 33 octets per octet of the tree the front end built
   (names, attribute names and values, text, one per node; embedded documents twice) plus the header constant *)
Theorem xml2wbxml_linear_size main btbl expat fuel o doc out n :
  Forall lang_vals_ok btbl ->
  xml2wbxml main btbl expat fuel o doc = mk_res ST_OK (Some out) n ->
  exists t, tree_from_xml_fuel main expat fuel doc = inl t /\ tree_ok t /\
            (all_names_ok (xt_roots t) ->
             List.length out <= 33 * wsizes (hdr_max btbl) (xt_roots t) + hdr_max btbl).
Proof.
  intros VO H. destruct (xml2wbxml_ok_inv main btbl expat fuel o doc out n H) as (t & T1 & T2 & T3 & _).
  exists t. split; [exact T1|]. split; [exact T2|]. intros NO. exact (encode_tree_size btbl o t out VO NO T3).
Qed.

(* ------------------------------------------------------------------ the names hypothesis discharged *)

Definition nonempty_cstr (b : bytes) : bool := match cstr b with [] => false | _ => true end.
Definition lang_names_okb (l : lang) : bool :=
  forallb (fun r => nonempty_cstr (bs (t_name r))) (opt_list (l_tags l)) &&
  forallb (fun r => nonempty_cstr (bs (a_name r))) (opt_list (l_attrs l)).

Lemma nonempty_cstr_ok b : nonempty_cstr b = true -> name_ok b.
Proof. unfold nonempty_cstr, name_ok. destruct (cstr b); [discriminate|discriminate]. Qed.

Lemma lang_names_okb_ok l : lang_names_okb l = true -> lang_names_ok l.
Proof.
  unfold lang_names_okb, lang_names_ok. intros H. apply andb_true_iff in H. destruct H as [A B].
  rewrite forallb_forall in A, B. split; apply Forall_forall; intros r I; apply nonempty_cstr_ok; auto.
Qed.

Lemma main_table_names_ok : Forall lang_names_ok main_table.
Proof.
  assert (H : forallb lang_names_okb main_table = true) by (vm_compute; reflexivity).
  rewrite forallb_forall in H. apply Forall_forall. intros l I. apply lang_names_okb_ok. now apply H.
Qed.

(* with Expat's guarantee that element and attribute names are never empty, no hypothesis on the tree is left *)
Theorem xml2wbxml_linear_size_expat main btbl expat fuel o doc out n :
  Forall lang_names_ok main -> Forall lang_vals_ok btbl ->
  (forall d, Forall ev_names_ok (fst (expat d))) ->
  xml2wbxml main btbl expat fuel o doc = mk_res ST_OK (Some out) n ->
  exists t, tree_from_xml_fuel main expat fuel doc = inl t /\
            List.length out <= 33 * wsizes (hdr_max btbl) (xt_roots t) + hdr_max btbl.
Proof.
  intros MO VO EX H. destruct (xml2wbxml_linear_size main btbl expat fuel o doc out n VO H) as (t & T1 & _ & T3).
  exists t. split; [exact T1|]. apply T3. exact (tree_from_xml_fuel_names main expat MO EX fuel doc t T1).
Qed.

(* ------------------------------------------------------------------ linear in the volume of Expat's events *)

(* output AND intermediate tree against what Expat delivered for the document: the tree has at most evvol (events) units
   (embedded trees counted as one node each); the output at most 33 octets per unit of the tree plus of what the embedded
   trees weigh (each is the front end's tree for the event list of its own document: the same theorem applies to it) *)
Theorem xml2wbxml_linear_in_events main btbl expat fuel o doc out n :
  Forall lang_names_ok main -> Forall lang_vals_ok btbl ->
  (forall d, Forall ev_names_ok (fst (expat d))) ->
  xml2wbxml main btbl expat fuel o doc = mk_res ST_OK (Some out) n ->
  exists t, tree_from_xml_fuel main expat fuel doc = inl t /\
            nszs (xt_roots t) <= evvol (fst (expat doc)) /\
            List.length out <= 33 * (evvol (fst (expat doc)) + embs (hdr_max btbl) (xt_roots t)) + hdr_max btbl.
Proof.
  intros MO VO EX H. destruct (xml2wbxml_linear_size_expat main btbl expat fuel o doc out n MO VO EX H) as (t & T1 & T2).
  exists t. split; [exact T1|].
  assert (SZ : nszs (xt_roots t) <= evvol (fst (expat doc))).
  { rewrite (fuel_unfold main expat fuel doc) in T1. exact (tree_size_linear main _ doc _ _ t T1). }
  split; [exact SZ|]. rewrite wsizes_split in T2. lia.
Qed.
