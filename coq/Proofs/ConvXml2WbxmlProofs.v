(* C02 — proofs about the concrete whole-conversion model Model/ConvXml2Wbxml.v: result contract, refusal, recursion
   depth of the WBXML encoder on the trees the front end produces. *)
From Coq Require Import List NArith PeanoNat Lia Bool.
From Wbxml Require Import Model.TablesDefs Model.Tables Model.LangSelect Model.Conv Model.EncWbxml Model.XmlFront Model.ConvXml2Wbxml.
From Wbxml Require Import Proofs.XmlFrontProofs Proofs.XmlFrontTree.
Import ListNotations.
Local Open Scope N_scope.

(* ------------------------------------------------------------------ the result contract *)

(* what the caller of wbxml_conv_xml2wbxml_run observes: WBXML_OK with an output block of exactly the reported length,
   or an error code with a NULL output and length 0 *)
Definition contract (r : conv_result) : Prop :=
  match r_status r with
  | ST_OK => exists out, r_out r = Some out /\ r_len r = N.of_nat (List.length out)
  | ST_ERR _ => r_out r = None /\ r_len r = 0
  end.

Lemma conv_run_contract tree opts (tfd : opts -> list N -> tree + N) (enc : opts -> tree -> list N + N) o doc :
  contract (conv_run tree opts tfd enc false o doc).
Proof.
  unfold contract, conv_run. destruct doc as [|b r]; [cbn; auto|].
  destruct (tfd o (b :: r)) as [t|e]; [|cbn; auto].
  destruct (enc o t) as [out|e]; [|cbn; auto].
  cbn. exists out. auto.
Qed.

Lemma conv_run_refused tree opts (tfd : opts -> list N -> tree + N) (enc : opts -> tree -> list N + N) o doc e :
  tfd o doc = inr e -> exists e', conv_run tree opts tfd enc false o doc = mk_res (ST_ERR e') None 0.
Proof.
  intros H. unfold conv_run. destruct doc as [|b r]; [eexists; reflexivity|]. rewrite H. eexists; reflexivity.
Qed.

Section C.
  Variable main : list lang.
  Variable btbl : list blang.
  Variable expat : bytes -> list event * bool.
  Variable fuel : nat.

  Theorem xml2wbxml_contract o doc : contract (xml2wbxml main btbl expat fuel o doc).
  Proof. apply conv_run_contract. Qed.

  Theorem xml2wbxml_withlen_contract po doc : contract (xml2wbxml_withlen main btbl expat fuel po doc).
  Proof. unfold xml2wbxml_withlen, conv_withlen. apply conv_run_contract. Qed.

  Theorem xml2wbxml_events_contract sub events ok o doc : contract (xml2wbxml_events main btbl sub events ok o doc).
  Proof. apply conv_run_contract. Qed.

  Definition nested (k : nat) : bytes -> xtree + N :=
    match k with O => fun _ => inr E_NESTED_FUEL | S k' => tree_from_xml_fuel main expat k' end.

  Lemma fuel_unfold doc :
    tree_from_xml_fuel main expat fuel doc = tree_from_xml main (nested fuel) doc (fst (expat doc)) (snd (expat doc)).
  Proof. destruct fuel; reflexivity. Qed.

  (* text that Expat refuses: an error, no output, length 0 *)
  Theorem xml2wbxml_not_well_formed o doc :
    snd (expat doc) = false -> exists e, xml2wbxml main btbl expat fuel o doc = mk_res (ST_ERR e) None 0.
  Proof.
    intros H. destruct (not_well_formed_is_error main (nested fuel) doc (fst (expat doc))) as [e He].
    apply (conv_run_refused _ _ _ _ o doc e). rewrite fuel_unfold, H. exact He.
  Qed.

  (* no language from the DOCTYPE (absent, or not in the tables) and none from the root element: an error, no output *)
  Theorem xml2wbxml_no_language o doc prolog name attrs idx rest ok :
    expat doc = (prolog ++ EvStartElement name attrs idx :: rest, ok) ->
    Forall (prolog_event main) prolog ->
    search_table main None None (Some (str name)) = None ->
    exists e, xml2wbxml main btbl expat fuel o doc = mk_res (ST_ERR e) None 0.
  Proof.
    intros HE FP HR.
    destruct (no_language_is_error main (nested fuel) doc prolog name attrs idx rest ok FP HR) as [e He].
    apply (conv_run_refused _ _ _ _ o doc e). rewrite fuel_unfold, HE. exact He.
  Qed.

  (* a callback error is an error of the conversion *)
  Theorem xml2wbxml_callback_error o doc :
    c_error (run main (nested fuel) doc init_ctx (fst (expat doc))) <> WBXML_OK ->
    exists e, xml2wbxml main btbl expat fuel o doc = mk_res (ST_ERR e) None 0.
  Proof.
    intros H. destruct (failed_run_is_error main (nested fuel) doc (fst (expat doc)) (snd (expat doc)) H) as [e He].
    apply (conv_run_refused _ _ _ _ o doc e). rewrite fuel_unfold. exact He.
  Qed.

  (* success means: Expat accepted the text, the front end produced a tree (which has the shape of C02f_tree_shape) and
     the encoder produced the bytes *)
  Theorem xml2wbxml_ok_inv o doc out n :
    xml2wbxml main btbl expat fuel o doc = mk_res ST_OK (Some out) n ->
    exists t, tree_from_xml_fuel main expat fuel doc = inl t /\ tree_ok t /\ encode_tree btbl o t = inl out /\
              n = N.of_nat (List.length out) /\ snd (expat doc) = true.
  Proof.
    unfold xml2wbxml, conv_run. destruct doc as [|b r]; [discriminate|].
    destruct (tree_from_xml_fuel main expat fuel (b :: r)) as [t|e] eqn:T; [|discriminate].
    destruct (encode_tree btbl o t) as [o'|e] eqn:E; [|discriminate].
    intros H. injection H as <- <-. exists t.
    split; [reflexivity|]. split; [exact (tree_from_xml_fuel_ok main expat fuel _ t T)|]. split; [exact E|]. split; [reflexivity|].
    rewrite fuel_unfold in T. unfold tree_from_xml in T. destruct (snd (expat (b :: r))); [reflexivity|discriminate].
  Qed.
End C.

(* ------------------------------------------------------------------ recursion depth of the encoder *)

(* The encoder (parse_node of Model/EncWbxml.v = parse_node / parse_element / parse_cdata / parse_tree of
   wbxml_encoder.c) recurses once per tree level: into the children of an ELEMENT, into the children of a CDATA node
   unless a CDATA section is already open (then it returns WBXML_ERROR_INTERNAL at once: cdata_in_cdata_stops), and
   — with a duplicated encoder on the same stack — into an embedded tree.  rdepth is that call depth. *)
Fixpoint rdepth (incd : bool) (n : node) {struct n} : nat :=
  match n with
  | NElt _ _ kids => S ((fix mx (l : list node) : nat := match l with [] => O | x :: r => Nat.max (rdepth incd x) (mx r) end) kids)
  | NCData kids =>
    if incd then 1%nat
    else S ((fix mx (l : list node) : nat := match l with [] => O | x :: r => Nat.max (rdepth true x) (mx r) end) kids)
  | NTree _ roots => S ((fix mx (l : list node) : nat := match l with [] => O | x :: r => Nat.max (rdepth false x) (mx r) end) roots)
  | NText _ | NPi => 1%nat
  end.

(* levels of embedding *)
Fixpoint levels (n : node) : nat :=
  match n with
  | NElt _ _ kids => (fix mx (l : list node) : nat := match l with [] => O | x :: r => Nat.max (levels x) (mx r) end) kids
  | NCData kids => (fix mx (l : list node) : nat := match l with [] => O | x :: r => Nat.max (levels x) (mx r) end) kids
  | NTree _ roots => S ((fix mx (l : list node) : nat := match l with [] => O | x :: r => Nat.max (levels x) (mx r) end) roots)
  | NText _ | NPi => O
  end.

Lemma cdata_in_cdata_stops tbl e p kids st d : cdata st = Some d -> parse_node tbl e p (NCData kids) st = EErr E_INTERNAL.
Proof. intros H. cbn. now rewrite H. Qed.

(* for a node with d ancestors in a tree that satisfies node_ok (every ELEMENT has fewer than 1000 ancestors) *)
Lemma rdepth_bound : forall n d incd, node_ok d n ->
  (rdepth incd n <= (if incd then 0 else 1) + Nat.max 1 (1001 - d) + 1003 * levels n)%nat.
Proof.
  fix IH 1. intros n d incd H.
  destruct n as [tag attrs kids|t|kids| |l roots]; cbn [rdepth levels]; try (destruct incd; lia).
  - destruct H as (D & _ & A).
    assert (G : forall l, (fix all (l : list node) : Prop := match l with [] => True | x :: r => node_ok (S d) x /\ all r end) l ->
              ((fix mx (l : list node) : nat := match l with [] => O | x :: r => Nat.max (rdepth incd x) (mx r) end) l
               <= (if incd then 0 else 1) + Nat.max 1 (1001 - S d)
                  + 1003 * (fix mx (l : list node) : nat := match l with [] => O | x :: r => Nat.max (levels x) (mx r) end) l)%nat).
    { induction l as [|x r IHl]; intros Hl; [lia|]. destruct Hl as [Hx Hr]. specialize (IHl Hr).
      pose proof (IH x (S d) incd Hx). cbn beta iota. lia. }
    specialize (G kids A). destruct incd; lia.
  - destruct H as (_ & A). destruct incd; [lia|].
    assert (G : forall l, (fix all (l : list node) : Prop := match l with [] => True | x :: r => node_ok (S d) x /\ all r end) l ->
              ((fix mx (l : list node) : nat := match l with [] => O | x :: r => Nat.max (rdepth true x) (mx r) end) l
               <= Nat.max 1 (1001 - S d)
                  + 1003 * (fix mx (l : list node) : nat := match l with [] => O | x :: r => Nat.max (levels x) (mx r) end) l)%nat).
    { induction l as [|x r IHl]; intros Hl; [lia|]. destruct Hl as [Hx Hr]. specialize (IHl Hr).
      pose proof (IH x (S d) true Hx). cbn beta iota. cbn beta iota in H. lia. }
    specialize (G kids A). lia.
  - destruct H as (_ & A).
    assert (G : forall l, (fix all (l : list node) : Prop := match l with [] => True | x :: r => node_ok 0 x /\ all r end) l ->
              ((fix mx (l : list node) : nat := match l with [] => O | x :: r => Nat.max (rdepth false x) (mx r) end) l
               <= 1002 + 1003 * (fix mx (l : list node) : nat := match l with [] => O | x :: r => Nat.max (levels x) (mx r) end) l)%nat).
    { induction l0 as [|x r IHl]; intros Hl; [lia|]. destruct Hl as [Hx Hr]. specialize (IHl Hr).
      pose proof (IH x O false Hx). cbn beta iota. cbn beta iota in H. lia. }
    specialize (G roots A). destruct incd; lia.
Qed.

(* every root of a tree the front end produces: at most 1002 encoder frames per level of embedding *)
Theorem tree_ok_rdepth t r : tree_ok t -> In r (xt_roots t) -> (rdepth false r <= 1002 + 1003 * levels r)%nat.
Proof.
  intros [_ F] I. rewrite Forall_forall in F. pose proof (rdepth_bound r 0 false (F r I)). cbn in H. lia.
Qed.
