(* C02 — linear size of the WBXML output of Model/EncWbxml.v (the model of src/wbxml_encoder.c, WBXML half):
     length (enc_wbxml tbl l o roots) <= 33 * (weighted size of the tree) + 20 + length of the language's public id.
   Part 1: leaf encoders and attribute / content values. *)
From Coq Require Import List NArith PeanoNat Lia Bool.
From Wbxml Require Import Model.Codec Model.EncWbxml Proofs.EncWbxmlProofs.
Import ListNotations.
Local Open Scope nat_scope.

Notation L := (@List.length N).

(* ------------------------------------------------------------------ lengths of the primitive pieces *)

Lemma mb_write_loop_len k : forall v acc, L (mb_write_loop k v acc) <= k + L acc.
Proof.
  induction k as [|k IH]; intros v acc; cbn [mb_write_loop]; [lia|].
  destruct (N.eqb v 0); [lia|]. specialize (IH (N.shiftr v 7) (N.lor 128 (N.land v 127) :: acc)). cbn [List.length] in IH. lia.
Qed.

Lemma mb_write_len v : L (mb_write v) <= 5.
Proof. unfold mb_write. pose proof (mb_write_loop_len 4 (N.shiftr v 7) [N.land v 127]). cbn [List.length] in H. lia. Qed.

Lemma enc_opaque_len d : L (enc_opaque d) <= L d + 6.
Proof. unfold enc_opaque. rewrite !app_length. cbn [List.length]. pose proof (mb_write_len (u32 (len d))). lia. Qed.

Lemma enc_inline_len s : L (enc_inline_string s) = L s + 2.
Proof. unfold enc_inline_string. rewrite !app_length. cbn [List.length]. lia. Qed.

Lemma enc_tableref_len o : L (enc_tableref o) <= 6.
Proof. unfold enc_tableref. rewrite app_length. cbn [List.length]. pose proof (mb_write_len o). lia. Qed.

Lemma enc_ext_t0_len v : L (enc_ext_t0 v) <= 6.
Proof. unfold enc_ext_t0. rewrite app_length. cbn [List.length]. pose proof (mb_write_len v). lia. Qed.

Lemma enc_tag_token_len st t p : L (fst (enc_tag_token st t p)) <= 3.
Proof. unfold enc_tag_token. destruct (N.eqb _ _); cbn; lia. Qed.

Lemma enc_attr_token_len st t p : L (fst (enc_attr_token st t p)) <= 3.
Proof. unfold enc_attr_token. destruct (N.eqb _ _); cbn; lia. Qed.

Lemma cstr_len b : L (cstr b) <= L b.
Proof. induction b as [|x r IH]; cbn [cstr List.length]; [lia|]. destruct (N.eqb x 0); cbn [List.length]; lia. Qed.

Lemma frev_len b : L (frev b) = L b.
Proof. unfold frev. rewrite rev_append_rev, app_nil_r. apply rev_length. Qed.

Lemma drop_ws_len b : L (drop_ws b) <= L b.
Proof. induction b as [|x r IH]; cbn [drop_ws List.length]; [lia|]. destruct (isspace x); cbn [List.length]; lia. Qed.

Lemma strip_blanks_len b : L (strip_blanks b) <= L b.
Proof.
  unfold strip_blanks. rewrite frev_len. pose proof (drop_ws_len (frev (drop_ws b))). rewrite frev_len in H.
  pose proof (drop_ws_len b). lia.
Qed.

Lemma drop_zeros_len b : L (drop_zeros b) <= L b.
Proof. induction b as [|x r IH]; cbn [drop_zeros List.length]; [lia|]. destruct (N.eqb x 0); cbn [List.length]; lia. Qed.

Lemma remove_trailing_zeros_len b : L (remove_trailing_zeros b) <= L b.
Proof. unfold remove_trailing_zeros. rewrite frev_len. pose proof (drop_zeros_len (frev b)). rewrite frev_len in H. lia. Qed.

Lemma hex_pairs_len : forall v, L (hex_pairs v) <= L v.
Proof.
  fix IH 1. intros v. destruct v as [|a [|b r]]; cbn [hex_pairs List.length]; try lia.
  specialize (IH r). lia.
Qed.

Lemma hex_to_bin_len d : L (hex_to_bin d) <= L d.
Proof. unfold hex_to_bin. pose proof (hex_pairs_len (map hexval d)). now rewrite map_length in H. Qed.

Lemma datetime_digits_len : forall b d, datetime_digits b = Some d -> L d <= L b.
Proof.
  induction b as [|c r IH]; intros d; cbn [datetime_digits]; [intros H; injection H as <-; cbn; lia|].
  destruct (isdigit c).
  - destruct (datetime_digits r) as [d'|]; [|discriminate]. intros H; injection H as <-. specialize (IH d' eq_refl). cbn [List.length]. lia.
  - destruct (_ || _); [|discriminate]. intros H. specialize (IH d H). cbn [List.length]. lia.
Qed.

Lemma enc_datetime_len buffer b : enc_datetime buffer = EOk b -> L b <= L buffer + 6.
Proof.
  unfold enc_datetime. destruct (datetime_digits buffer) as [d|] eqn:D; [|discriminate]. intros H; injection H as <-.
  pose proof (enc_opaque_len (remove_trailing_zeros (hex_to_bin d))). pose proof (remove_trailing_zeros_len (hex_to_bin d)).
  pose proof (hex_to_bin_len d). pose proof (datetime_digits_len _ _ D). lia.
Qed.

Lemma take_b64_len cs : L (take_b64 cs) <= L cs.
Proof. induction cs as [|c r IH]; cbn [take_b64 List.length]; [lia|]. destruct (N.leb _ _); cbn [List.length]; lia. Qed.

Lemma b64_dec_body_len : forall cs, L (b64_dec_body cs) <= L cs.
Proof.
  fix IH 1. intros cs. destruct cs as [|p [|q [|r [|s rest]]]]; cbn [b64_dec_body List.length]; try lia.
  pose proof (IH rest) as IHr. destruct rest as [|x rest']; cbn [List.length] in *; lia.
Qed.

Lemma b64_raw_len cs : L (b64_raw cs) <= L cs.
Proof.
  unfold b64_raw. rewrite firstn_length. pose proof (b64_dec_body_len (take_b64 cs)). pose proof (take_b64_len cs). lia.
Qed.

Lemma int_octets_len k : forall v acc, L (int_octets k v acc) <= k + L acc.
Proof.
  induction k as [|k IH]; intros v acc; cbn [int_octets]; [lia|].
  destruct (N.eqb v 0); [lia|]. specialize (IH (N.shiftr v 8) (N.land v 255 :: acc)). cbn [List.length] in IH. lia.
Qed.

Lemma enc_wv_integer_len buffer : L (enc_wv_integer buffer) <= 10.
Proof.
  unfold enc_wv_integer.
  match goal with |- L (enc_opaque (int_octets 4 ?v [])) <= _ => pose proof (enc_opaque_len (int_octets 4 v [])); pose proof (int_octets_len 4 v []) end.
  cbn [List.length] in *. lia.
Qed.

Lemma enc_wv_datetime_len buffer b : enc_wv_datetime buffer = EOk b -> L b <= L buffer + 12.
Proof.
  unfold enc_wv_datetime. destruct (_ || _).
  - intros H; injection H as <-. rewrite enc_inline_len. lia.
  - unfold enc_wv_datetime_opaque.
    repeat match goal with |- context [if ?c then _ else _] => destruct c; try discriminate end;
      intros H; injection H as <-;
      match goal with |- L (enc_opaque ?d) <= _ => pose proof (enc_opaque_len d) end; cbn [List.length] in *; lia.
Qed.

(* ------------------------------------------------------------------ value elements: a potential that splitting cannot increase *)

(* what a list of value elements can cost once encoded: a string s costs at most |s| + 2 octets (STR_I s NUL), every
   token at most 6 (SWITCH_PAGE page token / STR_T + index / EXT_T_0 + value).  A string is charged 8|s| + 2: each
   token found INSIDE a string takes at least one octet of it away and may add a token (6) and one more string (2). *)
Fixpoint pot (l : list velt) : nat :=
  match l with
  | [] => 0
  | VStr s :: r => 8 * L s + 2 + pot r
  | _ :: r => 6 + pot r
  end.

Definition find_ok (find : bytes -> option (N * N)) : Prop :=
  forall s idx mlen, find s = Some (idx, mlen) -> 1 <= N.to_nat mlen /\ N.to_nat idx + N.to_nat mlen <= L s.

Definition is_tok (v : velt) : Prop := match v with VStr _ => False | _ => True end.

Lemma pot_tok mk r : is_tok mk -> pot (mk :: r) = 6 + pot r.
Proof. destruct mk; [contradiction| | |]; reflexivity. Qed.

Lemma split_sweep_pot fuel find mk : find_ok find -> is_tok mk ->
  forall l l', split_sweep fuel find mk l = Some l' -> pot l' <= pot l.
Proof.
  intros F T. induction fuel as [|f IH]; intros l l'; cbn [split_sweep]; [discriminate|].
  destruct l as [|v r]; [intros H; injection H as <-; lia|].
  destruct v as [s|t|p t|o].
  - destruct (find s) as [[idx mlen]|] eqn:FS.
    + destruct (F s idx mlen FS) as [M B].
      destruct (split_sweep f find mk _) as [r'|] eqn:SS; [|discriminate]. intros H; injection H as <-.
      specialize (IH _ _ SS).
      assert (E : pot (VStr (firstn (N.to_nat idx) s) :: mk :: r') = 8 * L (firstn (N.to_nat idx) s) + 2 + (6 + pot r'))
        by (rewrite <- (pot_tok mk r' T); reflexivity).
      rewrite E. change (pot (VStr s :: r)) with (8 * L s + 2 + pot r).
      rewrite firstn_length.
      destruct (N.ltb (idx + mlen) (len s)) eqn:LT.
      * cbn [pot] in IH. rewrite skipn_length in IH. replace (N.to_nat (idx + mlen)) with (N.to_nat idx + N.to_nat mlen) in IH by lia. lia.
      * lia.
    + destruct (split_sweep f find mk r) as [r'|] eqn:SS; [|discriminate]. intros H; injection H as <-.
      specialize (IH _ _ SS). cbn [pot]. lia.
  - destruct (split_sweep f find mk r) as [r'|] eqn:SS; [|discriminate]. intros H; injection H as <-. specialize (IH _ _ SS). cbn [pot]. lia.
  - destruct (split_sweep f find mk r) as [r'|] eqn:SS; [|discriminate]. intros H; injection H as <-. specialize (IH _ _ SS). cbn [pot]. lia.
  - destruct (split_sweep f find mk r) as [r'|] eqn:SS; [|discriminate]. intros H; injection H as <-. specialize (IH _ _ SS). cbn [pot]. lia.
Qed.

Lemma sweep_pot find mk l l' : find_ok find -> is_tok mk -> sweep find mk l = Some l' -> pot l' <= pot l.
Proof. intros F T. unfold sweep. apply split_sweep_pot; assumption. Qed.

Lemma len_nat b : N.to_nat (len b) = L b.
Proof. unfold len. lia. Qed.

Lemma find_name_ok name : name <> [] -> find_ok (find_name name).
Proof.
  intros NE s idx mlen. unfold find_name. destruct name as [|c nm]; [now elim NE|].
  destruct (find_sub (c :: nm) s) as [i|] eqn:FS; [|discriminate]. intros H; injection H as <- <-.
  destruct (find_sub_spec _ _ _ FS) as [P B]. destruct (is_prefix_firstn _ _ P) as [_ LE].
  rewrite skipn_length in LE. rewrite len_nat. cbn [List.length] in *. lia.
Qed.

Lemma pass_vals_pot rows : Forall (fun r => bv_name r <> []) rows -> forall l l', pass_vals rows l = Some l' -> pot l' <= pot l.
Proof.
  induction 1 as [|r rest NE F IH]; intros l l'; cbn [pass_vals]; [intros H; injection H as <-; lia|].
  destruct (sweep _ _ l) as [l1|] eqn:S; [|discriminate]. intros H. specialize (IH _ _ H).
  pose proof (sweep_pot _ (VAttrTok (bv_page r) (bv_tok r)) _ _ (find_name_ok _ NE) I S). lia.
Qed.

Lemma beq_len a : forall b, beq a b = true -> L a = L b.
Proof.
  induction a as [|x a IH]; intros [|y b]; cbn [beq]; try discriminate; [reflexivity|].
  intros H. apply andb_true_iff in H. destruct H as [_ H]. cbn [List.length]. now rewrite (IH b H).
Qed.

Lemma pass_exts_pot rows : forall l l', pass_exts rows l = Some l' -> pot l' <= pot l.
Proof.
  induction rows as [|r rest IH]; intros l l'; cbn [pass_exts]; [intros H; injection H as <-; lia|].
  destruct (N.ltb (len (be_name r)) 2) eqn:LT; [apply IH|].
  destruct (sweep _ _ l) as [l1|] eqn:S; [|discriminate]. intros H. specialize (IH _ _ H).
  assert (FO : find_ok (fun s => if beq s (be_name r) then Some (0%N, len (be_name r)) else None)).
  { intros s idx mlen. destruct (beq s (be_name r)) eqn:B; [|discriminate]. intros X; injection X as <- <-.
    apply beq_len in B. apply N.ltb_ge in LT. rewrite len_nat. pose proof (len_nat (be_name r)). lia. }
  pose proof (sweep_pot _ (VExt (be_tok r)) _ _ FO I S). lia.
Qed.

Definition entries_ok (tbl : list ste) : Prop := Forall (fun e => s_str e <> []) tbl.

Lemma pass_strtbl_pot tbl : entries_ok tbl -> forall l l', pass_strtbl tbl l = Some l' -> pot l' <= pot l.
Proof.
  induction 1 as [|e rest NE F IH]; intros l l'; cbn [pass_strtbl]; [intros H; injection H as <-; lia|].
  destruct (sweep _ _ l) as [l1|] eqn:S; [|discriminate]. intros H. specialize (IH _ _ H).
  pose proof (sweep_pot _ (VRef (s_off e)) _ _ (find_name_ok _ NE) I S). lia.
Qed.

(* the fields of the encoder state the size argument follows: the CDATA buffer and the string table *)
Definition keeps (st st' : est) : Prop := cdata st' = cdata st /\ in_cdata st' = in_cdata st /\ strtbl st' = strtbl st.

Lemma keeps_refl st : keeps st st. Proof. repeat split. Qed.
Lemma keeps_trans a b c : keeps a b -> keeps b c -> keeps a c.
Proof. unfold keeps. intros (A1 & A2 & A3) (B1 & B2 & B3). rewrite B1, B2, B3. auto. Qed.

Lemma enc_attr_token_keeps st t p : keeps st (snd (enc_attr_token st t p)).
Proof. unfold enc_attr_token. destruct (N.eqb _ _); cbn; repeat split. Qed.
Lemma enc_tag_token_keeps st t p : keeps st (snd (enc_tag_token st t p)).
Proof. unfold enc_tag_token. destruct (N.eqb _ _); cbn; repeat split. Qed.

Lemma enc_velts_len l : forall st, L (fst (enc_velts st l)) <= pot l /\ keeps st (snd (enc_velts st l)).
Proof.
  induction l as [|v r IH]; intros st; cbn [enc_velts pot]; [cbn; split; [lia|apply keeps_refl]|].
  destruct v as [s|t|p t|o].
  - destruct (IH st) as [A B]. destruct (enc_velts st r) as [b' st2]. cbn [fst snd] in *. rewrite app_length. split; [|exact B].
    destruct (N.ltb 0 (len s)); [rewrite enc_inline_len|cbn [List.length]]; lia.
  - destruct (IH st) as [A B]. destruct (enc_velts st r) as [b' st2]. cbn [fst snd] in *. rewrite app_length. split; [|exact B].
    pose proof (enc_ext_t0_len (u8 t)). lia.
  - pose proof (enc_attr_token_len st t p) as A0. pose proof (enc_attr_token_keeps st t p) as K0.
    destruct (enc_attr_token st t p) as [b st1]. cbn [fst snd] in *.
    destruct (IH st1) as [A B]. destruct (enc_velts st1 r) as [b' st2]. cbn [fst snd] in *. rewrite app_length.
    split; [lia|eapply keeps_trans; eassumption].
  - destruct (IH st) as [A B]. destruct (enc_velts st r) as [b' st2]. cbn [fst snd] in *. rewrite app_length. split; [|exact B].
    pose proof (enc_tableref_len o). lia.
Qed.

(* the tables: no attribute value row with an empty name (checked on the regenerated tables by computation) *)
Definition lang_vals_ok (l : blang) : Prop :=
  match bl_vals l with Some rows => Forall (fun r => bv_name r <> []) rows | None => True end.

Lemma split_value_pot e st is_attr buffer l :
  lang_vals_ok (e_lang e) -> entries_ok (strtbl st) ->
  split_value e st is_attr buffer = Some l -> pot l <= 8 * L buffer + 2.
Proof.
  intros VO EO. unfold split_value.
  set (l0 := [VStr buffer]). assert (P0 : pot l0 = 8 * L buffer + 2) by (cbn; lia).
  destruct (if is_attr then match bl_vals (e_lang e) with Some rows => pass_vals rows l0 | None => Some l0 end else Some l0) as [l1|] eqn:E1; [|discriminate].
  assert (P1 : pot l1 <= pot l0).
  { destruct is_attr; [|injection E1 as <-; lia]. unfold lang_vals_ok in VO. destruct (bl_vals (e_lang e)) as [rows|]; [|injection E1 as <-; lia].
    exact (pass_vals_pot rows VO _ _ E1). }
  match goal with |- match ?x with _ => _ end = _ -> _ => destruct x as [l2|] eqn:E2 end; [|discriminate].
  assert (P2 : pot l2 <= pot l1).
  { destruct (negb is_attr && negb (in_cdata st)); [|injection E2 as <-; lia].
    destruct (bl_exts (e_lang e)) as [rows|]; [|injection E2 as <-; lia]. exact (pass_exts_pot rows _ _ E2). }
  destruct (e_use_strtbl e && negb (in_cdata st && negb is_attr)).
  - intros H. pose proof (pass_strtbl_pot _ EO _ _ H). lia.
  - intros H; injection H as <-. lia.
Qed.

Ltac split_num t :=
  let q := fresh "q" in
  destruct t as [|q]; try discriminate; repeat (destruct q as [q|q|]; try discriminate).

(* wbxml_encode_value_element_buffer: at most 8 octets per octet of the value, plus 18 *)
Lemma enc_value_len e st is_attr cur_attr node_attrs parent buffer b st' :
  lang_vals_ok (e_lang e) -> entries_ok (strtbl st) ->
  enc_value e st is_attr cur_attr node_attrs parent buffer = EOk (b, st') ->
  L b <= 8 * L buffer + 18 /\ keeps st st'.
Proof.
  intros VO EO. unfold enc_value. destruct buffer as [|c0 buf]; [intros H; injection H as <- <-; split; [cbn; lia|apply keeps_refl]|].
  remember (c0 :: buf) as buffer eqn:HB.
  match goal with |- match ?sa with _ => _ end = _ -> _ => destruct sa as [[sb|se]|] eqn:SA end; [| discriminate |].
  - (* language specific attribute value *)
    intros H; injection H as <- <-. split; [|apply keeps_refl].
    revert SA.
    destruct is_attr; [|discriminate].
    destruct (N.eqb (bl_id (e_lang e)) LANG_SI10).
    { destruct cur_attr as [[[|pp] t]|]; try discriminate. destruct (_ || _); [|discriminate].
      intros H; injection H as H. pose proof (enc_datetime_len _ _ H). lia. }
    destruct (N.eqb (bl_id (e_lang e)) LANG_EMN10).
    { destruct cur_attr as [[[|pp] t]|]; try discriminate. split_num t.
      intros H; injection H as H. pose proof (enc_datetime_len _ _ H). lia. }
    destruct (N.eqb (bl_id (e_lang e)) LANG_OTA_SETTINGS); [|discriminate].
    destruct cur_attr as [[pp t]|]; [|discriminate].
    destruct pp as [|pp]; [|discriminate]. split_num t.
    unfold enc_ota_icon. destruct (cur_tag st); [|discriminate].
    destruct (existsb _ node_attrs); [|discriminate]. intros H; injection H as <-.
    pose proof (enc_opaque_len (b64_raw buffer)). pose proof (b64_raw_len buffer). lia.
  - match goal with |- match ?sc with _ => _ end = _ -> _ => destruct sc as [[sb|se]|] eqn:SC end; [| discriminate |].
    + intros H; injection H as <- <-. split; [|apply keeps_refl]. revert SC.
      destruct (negb is_attr && negb (in_cdata st) && is_wv (e_lang e)).
      { unfold enc_wv_content. destruct (N.eqb _ 2).
        - intros H; injection H as <-. pose proof (enc_wv_integer_len buffer). lia.
        - destruct (N.eqb _ 3).
          + intros H; injection H as H. pose proof (enc_wv_datetime_len _ _ H). lia.
          + destruct (get_ext_from_xml _ _); [|discriminate]. intros H; injection H as <-.
            match goal with |- L (enc_ext_t0 ?v) <= _ => pose proof (enc_ext_t0_len v) end. lia. }
      destruct (negb is_attr && negb (in_cdata st) && N.eqb (bl_id (e_lang e)) LANG_DRMREL10); [|discriminate].
      unfold enc_drmrel_content. destruct parent as [[pp t o nm|nm]|]; try discriminate.
      destruct pp; [|discriminate]. split_num t.
      intros H; injection H as <-. pose proof (enc_opaque_len (b64_raw buffer)). pose proof (b64_raw_len buffer). lia.
    + match goal with |- match split_value e st is_attr ?tb with _ => _ end = _ -> _ => set (the_buffer := tb) end.
      assert (TB : L the_buffer <= L buffer + 2).
      { subst the_buffer. match goal with |- L (if ?c then _ else _) <= _ => destruct c end; [|apply Nat.le_add_r].
        destruct (_ && strcaseeq buffer _) eqn:C1.
        - apply andb_true_iff in C1. destruct C1 as [_ C1]. unfold strcaseeq in C1. apply beq_len in C1. rewrite !map_length in C1.
          cbn [List.length] in *. lia.
        - clear C1. match goal with |- L (if ?c then _ else _) <= _ => destruct c eqn:C2 end; [|apply Nat.le_add_r]. unfold strcaseeq in C2. apply beq_len in C2. rewrite !map_length in C2.
          cbn [List.length] in *. lia. }
      destruct (split_value e st is_attr the_buffer) as [l|] eqn:SV; [|discriminate].
      intros H; injection H as H. pose proof (split_value_pot _ _ _ _ _ VO EO SV) as P.
      destruct (enc_velts_len l st) as [A B]. rewrite H in A, B. cbn [fst snd] in A, B. split; [lia|exact B].
Qed.
