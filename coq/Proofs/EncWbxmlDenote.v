(* C06 — denotation of the encoder's output for the fragment of EncWbxmlSerialize.v: the abstract document the encoder
   writes denotes (Model/Spec.v `denote_with`, language forced) exactly the events of the NORMALISED source tree. *)
From Coq Require Import List NArith Lia Bool.
From Wbxml Require Import Base.Bits Model.Codec Model.TablesDefs Model.EncWbxml Model.TreeNorm
     Proofs.EncWbxmlProofs Proofs.TreeNormProofs Proofs.EncWbxmlSerialize.
From Wbxml Require Model.Parser Model.Spec.
Import ListNotations.
Local Open Scope N_scope.

Module P := Wbxml.Model.Parser.

(* ---- events of a tree of the fragment (what a conforming parser must report) -------------------------------- *)
Definition text_events (c : bytes) : list P.event :=
  match cstr c with [] => [] | s => [P.EvChars s] end.

Fixpoint events_node (n : node) : list P.event :=
  match n with
  | NElt (TagTok p t _ nm) _ ch =>
    P.EvStartElt (P.TagTok p t nm) [] :: flat_map events_node ch ++ [P.EvEndElt (P.TagTok p t nm)]
  | NText c => text_events c
  | _ => []
  end.

(* ---- hypotheses on the tree relative to the language table used by the decoder ------------------------------- *)
Definition bytes_lt256 (b : bytes) : bool := forallb (fun x => x <? 256) b.

Fixpoint tree_ok (L : lang) (depth : N) (n : node) : bool :=
  match n with
  | NElt (TagTok p t _ nm) _ ch =>
    (p <? 256) && (depth <=? 1000) &&
    match S.lookup_tag L p t with
    | Some r => (t_page r =? p) && (t_tok r =? t) && beq (P.B (t_name r)) nm
    | None => false
    end && forallb (tree_ok L (depth + 1)) ch
  | NText c => bytes_lt256 c
  | _ => false
  end.

(* ---- text -------------------------------------------------------------------------------------------------------- *)
Lemma cstr_str_ok b : bytes_lt256 b = true -> S.str_okb (cstr b) = true.
Proof.
  unfold S.str_okb, S.bytes_okb, S.nul_free, S.is_byte, bytes_lt256.
  induction b as [|c r IH]; cbn [cstr forallb]; [reflexivity|]. intros H. apply andb_true_iff in H as [Hc Hr].
  destruct (N.eqb c 0) eqn:E; [reflexivity|]. cbn [forallb]. specialize (IH Hr). apply andb_true_iff in IH as [I1 I2].
  rewrite Hc, I1, I2. cbn. now rewrite E.
Qed.

Lemma drop_ws_lt b : bytes_lt256 b = true -> bytes_lt256 (drop_ws b) = true.
Proof.
  unfold bytes_lt256. induction b as [|c r IH]; cbn [drop_ws forallb]; [reflexivity|]. intros H.
  apply andb_true_iff in H as [Hc Hr]. destruct (isspace c); [now apply IH|]. cbn [forallb]. now rewrite Hc, Hr.
Qed.

Lemma rev_lt b : bytes_lt256 b = true -> bytes_lt256 (rev b) = true.
Proof.
  unfold bytes_lt256. intros H. apply forallb_forall. intros x Hx. apply in_rev in Hx.
  rewrite forallb_forall in H. now apply H.
Qed.

Lemma strip_lt b : bytes_lt256 b = true -> bytes_lt256 (strip_blanks b) = true.
Proof. intros H. rewrite strip_blanks_eq. apply rev_lt, drop_ws_lt, rev_lt, drop_ws_lt, H. Qed.

Definition den_items (env : S.denv) (depth : N) (me : option (N * N)) :=
  fix den_items (l : list S.witem) (st : S.dstate) : option (list P.event * S.dstate) :=
    match l with
    | [] => Some ([], st)
    | x :: r =>
      match S.den_item env depth me x st with
      | Some (e, st') =>
        match den_items r st' with Some (e', st'') => Some (e ++ e', st'') | None => None end
      | None => None
      end
    end.

(* the text items denote the events of the normalised text, and leave the decoder state alone *)
Lemma den_text env depth me e c st :
  bytes_lt256 c = true ->
  den_items env depth me (abs_text e c) st
  = Some (flat_map events_node (norm_text (negb (e_remove_blanks e)) false c), st) \/ e_ignore_empty e <> e_remove_blanks e.
Proof.
  intros Hc. destruct (Bool.bool_dec (e_ignore_empty e) (e_remove_blanks e)) as [Heq|Hne]; [left|now right].
  unfold abs_text, norm_text. rewrite Heq. destruct (e_remove_blanks e) eqn:R; cbn [negb orb andb].
  - destruct (only_ws c) eqn:W; [reflexivity|].
    cbn [flat_map events_node]. unfold text_events. rewrite app_nil_r.
    pose proof (cstr_str_ok _ (strip_lt c Hc)) as Hok.
    destruct (cstr (strip_blanks c)) as [|x s] eqn:E; [reflexivity|].
    cbn [den_items S.den_item S.den_str]. rewrite Hok. reflexivity.
  - cbn [flat_map events_node]. unfold text_events. rewrite app_nil_r.
    pose proof (cstr_str_ok _ Hc) as Hok.
    destruct (cstr c) as [|x s] eqn:E; [reflexivity|].
    cbn [den_items S.den_item S.den_str]. rewrite Hok. reflexivity.
Qed.

(* ---- the tree ----------------------------------------------------------------------------------------------------- *)
Lemma den_items_app env d me a : forall b st ea st1 eb st2,
  den_items env d me a st = Some (ea, st1) -> den_items env d me b st1 = Some (eb, st2) ->
  den_items env d me (a ++ b) st = Some (ea ++ eb, st2).
Proof.
  induction a as [|x r IH]; intros b st ea st1 eb st2 Ha Hb; cbn [den_items app] in *.
  - injection Ha as <- <-. exact Hb.
  - destruct (S.den_item env d me x st) as [[e st']|]; [|discriminate].
    destruct (den_items env d me r st') as [[e' st'']|] eqn:R; [|discriminate]. injection Ha as <- <-.
    rewrite (IH b st' e' st'' eb st2 R Hb). now rewrite app_assoc.
Qed.

Section Tree.
  Variable L : lang.
  Variable e : env.
  Hypothesis Hopts : e_ignore_empty e = e_remove_blanks e.
  Let env := S.mk_denv L [].
  Let keep := negb (e_remove_blanks e).

  Definition node_den (n : node) : Prop :=
    forall d me cp st, frag_node n = true -> tree_ok L d n = true -> S.ds_tagcp st = cp ->
      exists st', den_items env d me (fst (abs_node e n cp)) st
                  = Some (flat_map events_node (norm_node keep false n), st')
                  /\ S.ds_tagcp st' = snd (abs_node e n cp).

  Lemma seq_den ns : Forall node_den ns ->
    forall d me cp st, forallb frag_node ns = true -> forallb (tree_ok L d) ns = true -> S.ds_tagcp st = cp ->
      exists st', den_items env d me (fst (abs_seq (abs_node e) ns cp)) st
                  = Some (flat_map events_node (flat_map (norm_node keep false) ns), st')
                  /\ S.ds_tagcp st' = snd (abs_seq (abs_node e) ns cp).
  Proof.
    induction 1 as [|x r Hx _ IH]; intros d me cp st HF HT Hcp; cbn [abs_seq flat_map].
    - exists st. cbn. auto.
    - cbn [forallb] in HF, HT. apply andb_true_iff in HF as [HF1 HF2]. apply andb_true_iff in HT as [HT1 HT2].
      destruct (Hx d me cp st HF1 HT1 Hcp) as (st1 & E1 & T1).
      destruct (abs_node e x cp) as [a c1]. cbn [fst snd] in *.
      destruct (IH d me c1 st1 HF2 HT2 T1) as (st2 & E2 & T2).
      destruct (abs_seq (abs_node e) r c1) as [b c2]. cbn [fst snd] in *.
      exists st2. split; [|exact T2]. rewrite flat_map_app. eapply den_items_app; eassumption.
  Qed.

  Lemma all_node_den n : node_den n.
  Proof.
    induction n as [tag attrs ch IH|c|ch IH| |lid roots IH] using node_ind'; intros d me cp st HF HT Hcp;
      cbn [frag_node] in HF; try discriminate.
    - destruct tag as [p t o nm|nm]; [|discriminate]. destruct attrs as [|a0 attrs]; [|discriminate].
      apply andb_true_iff in HF as [HF Hch]. apply andb_true_iff in HF as [HF Ho]. apply andb_true_iff in HF as [H5 H64].
      cbn [tree_ok] in HT. apply andb_true_iff in HT as [HT HTch]. apply andb_true_iff in HT as [HT Hlk].
      apply andb_true_iff in HT as [Hp Hd].
      destruct (S.lookup_tag L p t) as [r|] eqn:LK; [|discriminate].
      apply andb_true_iff in Hlk as [Hlk Hn]. apply andb_true_iff in Hlk as [Hrp Hrt].
      apply N.eqb_eq in Hrp, Hrt. apply beq_eq in Hn.
      cbn [abs_node norm_node].
      destruct (seq_den ch IH (d + 1) (Some (p, t)) p
                        (S.set_dcur (S.apply_sw P.TagSpace (if cp =? p then None else Some p) st) (Some (p, t)))
                        Hch HTch) as (st3 & E3 & T3).
      { cbn [S.set_dcur S.ds_tagcp]. destruct (cp =? p) eqn:Ecp; cbn [S.apply_sw S.ds_tagcp]; [apply N.eqb_eq in Ecp; congruence|reflexivity]. }
      destruct (abs_seq (abs_node e) ch p) as [items cp'] eqn:AS. cbn [fst snd] in *.
      exists (S.set_dcur st3 None). split; [|exact T3].
      cbn [den_items S.den_item].
      assert (Hsw : S.sw_okb (if cp =? p then None else Some p) = true) by (destruct (cp =? p); [reflexivity|exact Hp]).
      rewrite Hsw, Hd. cbn [andb].
      assert (Htok : S.tag_tok_okb t = true) by (unfold S.tag_tok_okb; now rewrite H5, H64).
      rewrite Htok.
      assert (Hcp0 : S.ds_tagcp (S.apply_sw P.TagSpace (if cp =? p then None else Some p) st) = p).
      { destruct (cp =? p) eqn:Ecp; cbn [S.apply_sw S.ds_tagcp]; [apply N.eqb_eq in Ecp; congruence|reflexivity]. }
      rewrite Hcp0. unfold env. cbn [S.de_lang]. rewrite LK, Hrp, Hrt, Hn. cbn [S.den_attrs].
      cbn [flat_map app]. rewrite app_nil_r.
      destruct ch as [|c0 ch0]; cbn [nonempty].
      + cbn [abs_seq] in AS. injection AS as <- <-. cbn [den_items] in E3. injection E3 as <-. cbn [flat_map app]. reflexivity.
      + unfold den_items, env in E3. rewrite E3. cbn [events_node]. now rewrite app_nil_r.
    - cbn [tree_ok] in HT. cbn [abs_node norm_node fst snd].
      destruct (den_text env d me e c st HT) as [E|E]; [|contradiction].
      exists st. split; [exact E|exact Hcp].
  Qed.
End Tree.

(* ---- the document --------------------------------------------------------------------------------------------------- *)
Theorem abs_doc_denotes tbl L l o p t opts nm ch :
  frag_node (NElt (TagTok p t opts nm) [] ch) = true ->
  tree_ok L 0 (NElt (TagTok p t opts nm) [] ch) = true ->
  o_version o < 4 -> header_public_id (enc_env l o) < 4294967296 -> header_public_id (enc_env l o) <> 0 ->
  S.denote_with tbl (Some L) (abs_doc l o (NElt (TagTok p t opts nm) [] ch))
  = Some (P.EvStartDoc 106 (l_id L) :: flat_map events_node (norm (o_keep_ws o) [NElt (TagTok p t opts nm) [] ch]) ++ [P.EvEndDoc]).
Proof.
  intros HF HT Hv Hp1 Hp0. set (root := NElt (TagTok p t opts nm) [] ch) in *.
  set (e := enc_env l o).
  assert (Ho : e_ignore_empty e = e_remove_blanks e) by reflexivity.
  assert (Hk : negb (e_remove_blanks e) = o_keep_ws o) by (subst e; unfold enc_env, make_env; cbn; now rewrite negb_involutive).
  destruct (all_node_den L e Ho root 0 None 0 (S.mk_dstate 0 0 None) HF HT eq_refl) as (st' & E & _).
  unfold S.denote_with, abs_doc. cbv zeta. fold e.
  cbn [S.wd_ver S.wd_strtbl S.wd_pub S.wd_charset S.wd_root S.wd_pis_before S.wd_pis_after].
  assert (Hu8 : u8 (o_version o) = o_version o) by (unfold u8; apply N.mod_small; lia).
  rewrite Hu8.
  replace (o_version o <? 4) with true by (symmetry; now apply N.ltb_lt).
  replace (S.u32_okb (header_public_id e)) with true by (symmetry; unfold S.u32_okb; now apply N.ltb_lt).
  replace (header_public_id e =? 0) with false by (symmetry; now apply N.eqb_neq).
  cbn [S.bytes_okb forallb S.u32_okb Parser.blen List.length N.of_nat N.ltb N.compare andb negb].
  assert (Hcs : S.charset_of {| S.wd_ver := o_version o; S.wd_pub := S.PubNum (header_public_id e);
                               S.wd_charset := if o_version o =? 0 then None else Some 106; S.wd_strtbl := [];
                               S.wd_pis_before := [];
                               S.wd_root := hd (S.WItemStr (S.WStrI [])) (fst (abs_node e root 0)); S.wd_pis_after := [] |} = Some 106).
  { unfold S.charset_of. cbn [S.wd_ver S.wd_charset]. destruct (o_version o) as [|v] eqn:V; reflexivity. }
  rewrite Hcs.
  subst root. cbn [abs_node] in *. destruct (abs_seq (abs_node e) ch p) as [items cp']. cbn [fst hd] in *.
  cbn [S.den_pis].
  cbn [den_items] in E.
  destruct (S.den_item {| S.de_lang := L; S.de_strtbl := [] |} 0 None
              (S.WItemElt (if 0 =? p then None else Some p) (S.WTagTok t) [] (nonempty ch) items)
              {| S.ds_tagcp := 0; S.ds_attrcp := 0; S.ds_cur := None |}) as [[e2 st2]|]; [|discriminate].
  injection E as E _. rewrite app_nil_r in E. subst e2.
  unfold norm. cbn [flat_map norm_node events_node app]. rewrite negb_involutive, !app_nil_r. reflexivity.
Qed.

(* ---- the whole statement for the fragment: strictly decoding the encoder's bytes (proved strict decoder of the parser
   development, language forced) yields exactly the events of the normalised source tree ----------------------------- *)
From Wbxml Require Proofs.ParserProofsStrict3.

Theorem strict_decode_of_encoding tblb TBL L l o p t opts nm ch :
  frag_lang l = true -> o_use_strtbl o = false -> no_pid (enc_env l o) = true ->
  frag_node (NElt (TagTok p t opts nm) [] ch) = true ->
  find (fun x => l_id x =? l_id L) TBL = Some L ->
  tree_ok L 0 (NElt (TagTok p t opts nm) [] ch) = true ->
  o_version o < 4 -> header_public_id (enc_env l o) < 4294967296 -> header_public_id (enc_env l o) <> 0 ->
  exists d bs,
    enc_wbxml tblb l o [NElt (TagTok p t opts nm) [] ch] = EOk bs /\ bs = S.serialize d /\ S.strict_doc d = true /\
    S.denote_with TBL (Some L) d
      = Some (P.EvStartDoc 106 (l_id L) :: flat_map events_node (norm (o_keep_ws o) [NElt (TagTok p t opts nm) [] ch]) ++ [P.EvEndDoc]) /\
    S.decode_lang TBL (l_id L) bs
      = Some (P.EvStartDoc 106 (l_id L) :: flat_map events_node (norm (o_keep_ws o) [NElt (TagTok p t opts nm) [] ch]) ++ [P.EvEndDoc]).
Proof.
  intros HL HU HP HF HFind HT Hv H1 H0.
  destruct (enc_wbxml_is_serialize tblb l o p t opts nm ch HL HU HP HF) as [E Hs].
  pose proof (abs_doc_denotes TBL L l o p t opts nm ch HF HT Hv H1 H0) as D.
  eexists. eexists. split; [exact E|]. split; [reflexivity|]. split; [exact Hs|]. split; [exact D|].
  apply Proofs.ParserProofsStrict3.decode_lang_serialize; [|exact Hs]. rewrite HFind. exact D.
Qed.
