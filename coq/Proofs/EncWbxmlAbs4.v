(* C06 — the abstraction of Proofs/EncWbxmlAbs.v extended to BINARY-FLAGGED elements (WBXML_TAG_OPTION_BINARY: the
   ActiveSync / AirSync byte arrays): the text of such an element is written as ONE OPAQUE item holding the node's octets
   as they are — not cut at a NUL, not trimmed, not dropped when it is blank, never split against tables.

   Whether a text is "binary" is decided by the encoder from current_tag (set while the FIRST child is encoded) or else
   from the parent element (text_is_binary, /repo 093ad9f); [cur_ok] is the invariant under which both agree with the
   parent's flag. *)
From Coq Require Import List NArith Lia Bool.
From Wbxml Require Import Base.Bits Model.Codec Model.EncWbxml Proofs.EncWbxmlProofs Proofs.EncWbxmlAbs Proofs.EncWbxmlStrict2.
From Wbxml Require Model.Parser Model.Spec.
Import ListNotations.
Local Open Scope N_scope.
Local Arguments N.add : simpl never.

Definition opt_bin (o : N) : bool := negb (N.land o 1 =? 0).
Definition tag_bin (t : option tagname) : bool := match t with Some (TagTok _ _ o _) => opt_bin o | _ => false end.

Definition cur_ok (st : est) (par : option tagname) : Prop :=
  match cur_tag st with Some (_, _, o) => opt_bin o = tag_bin par | None => True end.

Lemma binary_is st par : cur_ok st par -> is_binary_tag st par = tag_bin par.
Proof.
  unfold cur_ok, is_binary_tag, tag_bin, opt_bin. destruct (cur_tag st) as [[[? ?] o]|]; [auto|].
  intros _. destruct par as [[? ? o ?|?]|]; reflexivity.
Qed.

Definition abs_text4 (e : env) (st : est) (par : option tagname) (c : bytes) : option (list S.witem * est) :=
  if is_binary_tag st par then
    if len c <? 4294967296 then Some ([S.WItemStr (S.WOpaque c)], st) else None
  else abs_text e st par c.

Fixpoint abs_node4 (e : env) (par : option tagname) (n : node) (st : est) : option (list S.witem * est) :=
  match n with
  | NElt tag attrs ch =>
    match abs_tag e st tag (nonempty attrs) (nonempty ch) with
    | None => None
    | Some (sw, wtag, st1) =>
      match (if has_attr_table e then abs_attrs e st1 attrs else Some ([], st1)) with
      | None => None
      | Some (wattrs, st2) =>
        match abs_seq (abs_node4 e) (Some tag) ch st2 with
        | None => None
        | Some (items, st3) => Some ([S.WItemElt sw wtag wattrs (nonempty ch) items], set_cur_tag st3 None)
        end
      end
    end
  | NText c =>
    match abs_text4 e st par c with
    | Some (items, st1) => Some (items, set_cur_tag st1 None)
    | None => None
    end
  | _ => None
  end.

(* the fragment: as frag2_node, binary-flagged tags allowed; a byte array is shorter than 2^32 octets *)
Fixpoint frag4_node (e : env) (bin : bool) (n : node) : bool :=
  match n with
  | NElt tag _ ch =>
    match tag with
    | TagTok _ t _ _ => (5 <=? t) && (t <? 64)
    | TagLit nm => lit_unknown e nm
    end && forallb (frag4_node e (tag_bin (Some tag))) ch
  | NText c => if bin then len c <? 4294967296 else true
  | _ => false
  end.

Definition walk4 tbl (e : env) (n : node) : Prop :=
  forall par st b st', in_cdata st = false -> cur_ok st par -> frag4_node e (tag_bin par) n = true ->
    parse_node tbl e par n st = EOk (b, st') ->
    exists items, abs_node4 e par n st = Some (items, st') /\ b = flat_map S.ser_item items /\ in_cdata st' = false /\ cur_tag st' = None.

Lemma cur_none_ok st par : cur_tag st = None -> cur_ok st par.
Proof. unfold cur_ok. now intros ->. Qed.

Lemma seq4 tbl e ns : Forall (walk4 tbl e) ns ->
  forall par st b st', in_cdata st = false -> cur_ok st par -> forallb (frag4_node e (tag_bin par)) ns = true ->
    seq_nodes (parse_node tbl) e par ns st = EOk (b, st') ->
    exists items, abs_seq (abs_node4 e) par ns st = Some (items, st') /\ b = flat_map S.ser_item items /\ in_cdata st' = false.
Proof.
  induction 1 as [|x r Hx _ IH]; intros par st b st' Hi Hc HF; cbn [seq_nodes abs_seq].
  - intros E; injection E as <- <-. now exists [].
  - cbn [forallb] in HF. apply andb_true_iff in HF as [HF1 HF2].
    destruct (parse_node tbl e par x st) as [[b1 st1]|c] eqn:E1; [|discriminate].
    destruct (seq_nodes (parse_node tbl) e par r st1) as [[b2 st2]|c] eqn:E2; [|discriminate]. intros E; injection E as <- <-.
    destruct (Hx par st b1 st1 Hi Hc HF1 E1) as (i1 & A1 & -> & I1 & C1). rewrite A1.
    destruct (IH par st1 b2 st2 I1 (cur_none_ok _ _ C1) HF2 E2) as (i2 & A2 & -> & I2). rewrite A2.
    exists (i1 ++ i2). rewrite flat_map_app. auto.
Qed.

Lemma node4 tbl e n : plain_env e = true -> walk4 tbl e n.
Proof.
  intros HP. induction n as [tag attrs ch IH|c|ch IH| |lid roots IH] using node_ind'; intros par st b st' Hi Hc HF;
    cbn [frag4_node] in HF; try discriminate.
  - apply andb_true_iff in HF as [Htag Hch]. cbn [parse_node abs_node4]. unfold enc_element_start. cbv zeta.
    fold (nonempty attrs). fold (nonempty ch).
    destruct (enc_tag e st tag (nonempty attrs) (nonempty ch)) as [[b1 st1]|c] eqn:ET; [|discriminate].
    assert (Hr : (let t0 := fst (fst (tag_triple e st tag)) in (t0 =? 0) || ((5 <=? t0) && (t0 <? 64))) = true).
    { cbv zeta. destruct tag as [p t o nm|nm]; cbn [tag_triple fst].
      - rewrite Htag. apply orb_true_r.
      - rewrite (lit_unknown_none e nm (tagcp st) Htag). reflexivity. }
    destruct (enc_tag_abs e st tag _ _ b1 st1 ET Hr) as (sw & wtag & AT & ->). rewrite AT.
    assert (I1 : in_cdata st1 = false /\ cur_ok st1 (Some tag)).
    { unfold abs_tag in AT. destruct tag as [p t o nm|nm]; cbn [tag_triple] in AT.
      - rewrite Htag in AT.
        destruct (t =? 0); [destruct (e_use_strtbl e); [destruct (strtbl_add _ _ _) as [[? ?] ?]|discriminate]|];
          injection AT as _ _ <-; (split; [cbn; exact Hi|unfold cur_ok; cbn; reflexivity]).
      - rewrite (lit_unknown_none e nm (tagcp st) Htag) in AT. cbn [N.eqb] in AT.
        destruct (e_use_strtbl e); [|discriminate]. destruct (strtbl_add _ _ _) as [[? ?] ?].
        injection AT as _ _ <-. split; [cbn; exact Hi|unfold cur_ok; cbn; exact I]. }
    destruct I1 as [I1 C1].
    destruct (if has_attr_table e then enc_attrs e st1 attrs attrs else EOk ([], st1)) as [[b2 st2]|c] eqn:EA; [|discriminate].
    assert (HA : exists ws, (if has_attr_table e then abs_attrs e st1 attrs else Some ([], st1)) = Some (ws, st2)
                            /\ b2 = flat_map S.ser_attr ws /\ nonempty ws = nonempty attrs && has_attr_table e /\
                            in_cdata st2 = false /\ cur_ok st2 (Some tag)).
    { destruct (has_attr_table e).
      - destruct (enc_attrs_abs e attrs attrs HP st1 b2 st2 EA) as (ws & Ews & -> & Hl). exists ws.
        split; [exact Ews|]. split; [reflexivity|]. split.
        + rewrite andb_true_r. destruct ws, attrs; cbn in *; try reflexivity; discriminate.
        + destruct (abs_attrs_inv _ _ _ _ _ Ews) as [A B]. split; [congruence|]. unfold cur_ok in *. now rewrite B.
      - injection EA as <- <-. exists []. rewrite andb_false_r. auto. }
    destruct HA as (ws & Ews & -> & Hne & I2 & C2). rewrite Ews.
    destruct (seq_nodes (parse_node tbl) e (Some tag) ch st2) as [[b3 st3]|c] eqn:ES; [|discriminate].
    destruct (seq4 tbl e ch IH (Some tag) st2 b3 st3 I2 C2 Hch ES) as (items & AS & -> & I3). rewrite AS.
    intros E; injection E as <- <-.
    eexists. split; [reflexivity|]. split; [|split; [cbn; exact I3|reflexivity]].
    cbn [flat_map S.ser_item]. rewrite app_nil_r. unfold S.tag_bits. fold (nonempty ws). rewrite <- !app_assoc. f_equal.
    assert (TB : (match ws with [] => 0 | _ :: _ => 128 end) + (if nonempty ch then 64 else 0) = bits (nonempty attrs && has_attr_table e) (nonempty ch)).
    { unfold bits. rewrite <- Hne. destruct ws; reflexivity. }
    rewrite TB.
    assert (END : (if nonempty attrs && has_attr_table e then [1] else []) = match ws with [] => [] | _ :: _ => [1] end /\
                  (match ws with [] => [] | _ :: _ => flat_map S.ser_attr ws ++ [1] end) = flat_map S.ser_attr ws ++ match ws with [] => [] | _ :: _ => [1] end).
    { rewrite <- Hne. destruct ws; cbn; auto. }
    destruct END as [E1 E2]. rewrite E1, E2.
    f_equal. rewrite <- app_assoc. f_equal. f_equal.
    destruct ch as [|c0 ch0]; cbn [nonempty]; [|reflexivity].
    cbn [abs_seq] in AS. injection AS as <- _. reflexivity.
  - cbn [parse_node abs_node4]. destruct (enc_text e st par c) as [[b1 st1]|cc] eqn:ET; [|discriminate].
    intros E; injection E as <- <-. unfold abs_text4. pose proof (binary_is st par Hc) as HB.
    destruct (tag_bin par) eqn:TB.
    + (* byte array: one OPAQUE *)
      unfold enc_text in ET. rewrite HB in ET |- *. injection ET as <- <-. rewrite HF.
      eexists. split; [reflexivity|]. split; [|split; [cbn; exact Hi|reflexivity]].
      cbn [flat_map S.ser_item S.ser_str app]. rewrite app_nil_r. unfold enc_opaque. cbn [app].
      apply N.ltb_lt in HF. unfold u32. rewrite N.mod_small by exact HF. reflexivity.
    + rewrite HB.
      destruct (enc_text_abs e st par c b1 st1 HP Hi HB ET) as (items & AT & ->).
      rewrite AT. exists items. split; [reflexivity|]. split; [reflexivity|]. split; [|reflexivity].
      unfold abs_text in AT. rewrite HB, Hi in AT. cbn [negb andb] in AT.
      destruct (e_ignore_empty e && only_ws c); [injection AT as _ <-; cbn; exact Hi|].
      destruct (abs_value e st false _) as [[w st0]|] eqn:AV; [|discriminate]. injection AT as _ <-.
      destruct (abs_value_inv _ _ _ _ _ _ AV) as [A B]. cbn. congruence.
Qed.

Theorem enc_wbxml_serialize4 tbl l o tag attrs ch bs :
  let e := enc_env l o in
  plain_env e = true -> frag4_node e false (NElt tag attrs ch) = true ->
  enc_wbxml tbl l o [NElt tag attrs ch] = EOk bs ->
  exists st' root, enc_body tbl l o [NElt tag attrs ch] = EOk (flat_map S.ser_item [root], st') /\
    abs_node4 e None (NElt tag attrs ch) (start_state e [NElt tag attrs ch]) = Some ([root], st') /\
    (header_len_ok e st' -> bs = S.serialize (abs_doc2 e st' root)).
Proof.
  cbv zeta. intros HP HF. rewrite enc_wbxml_form_local. unfold enc_body. cbv zeta.
  set (e := enc_env l o) in *. set (root := NElt tag attrs ch) in *. unfold parse_nodes. cbn [seq_nodes].
  destruct (parse_node tbl e None root (start_state e [root])) as [[b1 st1]|c] eqn:E1; [|discriminate].
  intros E; injection E as <-.
  assert (I0 : in_cdata (start_state e [root]) = false /\ cur_tag (start_state e [root]) = None).
  { unfold start_state. destruct (e_use_strtbl e); [destruct (strtbl_initialize _ _)|]; split; reflexivity. }
  destruct (node4 tbl e root HP None (start_state e [root]) b1 st1 (proj1 I0) (cur_none_ok _ _ (proj2 I0)) HF E1) as (items & A & -> & _ & _).
  subst root. cbn [abs_node4] in A |- *.
  destruct (abs_tag e _ tag _ _) as [[[sw wtag] st2]|]; [|discriminate].
  destruct (if has_attr_table e then abs_attrs e st2 attrs else Some ([], st2)) as [[ws st3]|]; [|discriminate].
  destruct (abs_seq (abs_node4 e) (Some tag) ch st3) as [[its st4]|]; [|discriminate]. injection A as <- <-.
  eexists _, _. split; [rewrite app_nil_r; reflexivity|]. split; [reflexivity|].
  intros HL. rewrite (fill_header_ser e _ (S.WItemElt sw wtag ws (nonempty ch) its) HL).
  unfold S.serialize. f_equal.
  assert (P : forall st r, S.wd_pis_before (abs_doc2 e st r) = [] /\ S.wd_root (abs_doc2 e st r) = r /\ S.wd_pis_after (abs_doc2 e st r) = [])
    by (intros st r; unfold abs_doc2; destruct (header_table e st) as [[? ?] ?]; auto).
  destruct (P (set_cur_tag st4 None) (S.WItemElt sw wtag ws (nonempty ch) its)) as (P1 & P2 & P3).
  rewrite P1, P2, P3. cbn [flat_map app]. now rewrite !app_nil_r.
Qed.

(* ---- table facts of the walk: same table without string table, append-only and offsets-only with it ------------------------- *)
Lemma abs_text4_same e st par c items st' : abs_text4 e st par c = Some (items, st') -> same_tbl st st'.
Proof.
  unfold abs_text4. destruct (is_binary_tag st par); [|apply abs_text_same].
  destruct (len c <? 4294967296); [|discriminate]. intros E; injection E as _ <-. apply same_tbl_refl.
Qed.

Lemma abs_node4_same e n : e_use_strtbl e = false -> forall par st items st', abs_node4 e par n st = Some (items, st') -> same_tbl st st'.
Proof.
  intros HU. induction n as [tag attrs ch IH|c|ch IH| |lid roots IH] using node_ind'; intros par st items st'; cbn [abs_node4]; try discriminate.
  - destruct (abs_tag e st tag _ _) as [[[sw wtag] st1]|] eqn:AT; [|discriminate].
    destruct (if has_attr_table e then abs_attrs e st1 attrs else Some ([], st1)) as [[ws st2]|] eqn:AA; [|discriminate].
    destruct (abs_seq (abs_node4 e) (Some tag) ch st2) as [[its st3]|] eqn:AS; [|discriminate].
    intros E; injection E as _ <-.
    assert (H12 : same_tbl st1 st2).
    { destruct (has_attr_table e); [exact (abs_attrs_same _ _ HU _ _ _ AA)|injection AA as _ <-; apply same_tbl_refl]. }
    assert (H23 : same_tbl st2 st3).
    { clear AT AA H12. revert st2 its st3 AS. induction IH as [|x r Hx _ IHr]; intros st2 its st3; cbn [abs_seq].
      - intros E; injection E as _ <-. apply same_tbl_refl.
      - destruct (abs_node4 e (Some tag) x st2) as [[a sa]|] eqn:A; [|discriminate].
        destruct (abs_seq (abs_node4 e) (Some tag) r sa) as [[b sb]|] eqn:B; [|discriminate]. intros E; injection E as _ <-.
        eapply same_tbl_trans; [exact (Hx _ _ _ _ A)|exact (IHr _ _ _ B)]. }
    pose proof (abs_tag_same _ _ _ _ _ _ _ _ HU AT) as H01.
    destruct H01, H12, H23. split; cbn; congruence.
  - destruct (abs_text4 e st par c) as [[its st1]|] eqn:AT; [|discriminate]. intros E; injection E as _ <-.
    destruct (abs_text4_same _ _ _ _ _ _ AT). split; cbn; assumption.
Qed.

Lemma abs_text4_sx e st par c items st' : abs_text4 e st par c = Some (items, st') ->
  same_tbl st st' /\ forallb (sx_item (strtbl st')) items = true.
Proof.
  unfold abs_text4. destruct (is_binary_tag st par); [|apply abs_text_sx].
  destruct (len c <? 4294967296); [|discriminate]. intros E; injection E as <- <-. split; [apply same_tbl_refl|reflexivity].
Qed.

Lemma abs_node4_sx e n : forall par st items st', abs_node4 e par n st = Some (items, st') ->
  (exists x, strtbl st' = strtbl st ++ x) /\ forallb (sx_item (strtbl st')) items = true.
Proof.
  induction n as [tag attrs ch IH|c|ch IH| |lid roots IH] using node_ind'; intros par st items st'; cbn [abs_node4]; try discriminate.
  - destruct (abs_tag e st tag _ _) as [[[sw wtag] st1]|] eqn:AT; [|discriminate].
    destruct (if has_attr_table e then abs_attrs e st1 attrs else Some ([], st1)) as [[ws st2]|] eqn:AA; [|discriminate].
    destruct (abs_seq (abs_node4 e) (Some tag) ch st2) as [[its st3]|] eqn:AS; [|discriminate].
    intros E; injection E as <- <-.
    destruct (abs_tag_sx _ _ _ _ _ _ _ _ AT) as [[x Hx] Ht].
    assert (H12 : (exists y, strtbl st2 = strtbl st1 ++ y) /\ forallb (sx_attr (strtbl st2)) ws = true).
    { destruct (has_attr_table e); [exact (abs_attrs_sx _ _ _ _ _ AA)|injection AA as <- <-; split; [exists []; now rewrite app_nil_r|reflexivity]]. }
    destruct H12 as [[y Hy] Hws].
    assert (H23 : (exists z, strtbl st3 = strtbl st2 ++ z) /\ forallb (sx_item (strtbl st3)) its = true).
    { clear AT AA Hx Ht Hy Hws. revert st2 its st3 AS. induction IH as [|c0 r Hc _ IHr]; intros st2 its st3; cbn [abs_seq].
      - intros E; injection E as <- <-. split; [exists []; now rewrite app_nil_r|reflexivity].
      - destruct (abs_node4 e (Some tag) c0 st2) as [[a sa]|] eqn:A; [|discriminate].
        destruct (abs_seq (abs_node4 e) (Some tag) r sa) as [[b sb]|] eqn:B; [|discriminate]. intros E; injection E as <- <-.
        destruct (Hc _ _ _ _ A) as [[z1 Hz1] Ha]. destruct (IHr _ _ _ B) as [[z2 Hz2] Hb].
        split; [exists (z1 ++ z2); now rewrite Hz2, Hz1, app_assoc|].
        rewrite forallb_app, Hb, andb_true_r. rewrite Hz2. eapply forallb_mono; [|exact Ha]. intros i. apply sx_item_app. }
    destruct H23 as [[z Hz] Hits].
    split; [exists (x ++ y ++ z); cbn; now rewrite Hz, Hy, Hx, !app_assoc|].
    cbn [forallb sx_item set_cur_tag strtbl]. rewrite andb_true_r, Hits, andb_true_r. apply andb_true_iff. split.
    + destruct wtag; auto. rewrite Hz, Hy. now apply has_off_app, has_off_app.
    + rewrite Hz. eapply forallb_mono; [|exact Hws]. intros a. apply sx_attr_app.
  - destruct (abs_text4 e st par c) as [[its st1]|] eqn:AT; [|discriminate]. intros E; injection E as <- <-.
    destruct (abs_text4_sx _ _ _ _ _ _ AT) as [Hs Hi]. split; [apply same_ext2; destruct Hs; split; cbn; assumption|exact Hi].
Qed.

Lemma abs_seq4_ext e par ns : forall st items st', abs_seq (abs_node4 e) par ns st = Some (items, st') ->
  exists x, strtbl st' = strtbl st ++ x.
Proof.
  induction ns as [|n r IH]; intros st items st'; cbn [abs_seq].
  - intros E; injection E as _ <-. exists []. now rewrite app_nil_r.
  - destruct (abs_node4 e par n st) as [[a sa]|] eqn:A; [|discriminate].
    destruct (abs_seq (abs_node4 e) par r sa) as [[b sb]|] eqn:B; [|discriminate]. intros E; injection E as _ <-.
    destruct (abs_node4_sx _ _ _ _ _ _ A) as [[x Hx] _]. destruct (IH _ _ _ B) as [y Hy].
    exists (x ++ y). now rewrite Hy, Hx, app_assoc.
Qed.

(* ---- header length and strictness, from what is known of the final state (any abstraction of the walk) ------------------------ *)
Lemma header_len_ok_gen tbl l o roots body st' :
  let e := enc_env l o in
  enc_body tbl l o roots = EOk (body, st') ->
  (e_use_strtbl e = false -> strtbl st' = [] /\ strtbl_len st' = 0) ->
  (let '(_, t, _) := header_table e st' in tbl_size t < 4294967296) ->
  (match header_pid e with Some p => len p + 1 < 4294967296 | None => True end) ->
  header_len_ok e st'.
Proof.
  cbv zeta. intros EB NOTBL Hb Hp. set (e := enc_env l o) in *.
  unfold header_len_ok, doc_strtbl. unfold header_table in *.
  destruct (e_use_strtbl e) eqn:HU.
  - assert (Hext : forall t, (exists x, t = strtbl st' ++ x) -> tbl_size t < 4294967296 -> bnd st').
    { intros t [x ->] H. unfold bnd. rewrite tbl_size_app in H. lia. }
    destruct (header_pid e) as [p|].
    + destruct (strtbl_add (strtbl st') (strtbl_len st') p) as [[idx t] tlen] eqn:A.
      destruct (strtbl_add_ok _ _ _ _ _ _ A) as (Hx & HI).
      pose proof (enc_body_strtbl_exact tbl l o _ body st' EB (Hext t Hx Hb)) as [Ho Hl].
      destruct (HI (conj Ho Hl) Hb) as [_ ->]. symmetry. apply strtbl_construct_len.
    + pose proof (enc_body_strtbl_exact tbl l o _ body st' EB Hb) as [Ho Hl].
      rewrite Hl. symmetry. apply strtbl_construct_len.
  - destruct (NOTBL eq_refl) as [S1 S2].
    destruct (header_pid e) as [p|].
    + change (Parser.blen (p ++ [0])) with (len (p ++ [0])). rewrite len_app. unfold u32. rewrite N.mod_small by exact Hp. reflexivity.
    + now rewrite S2.
Qed.

Lemma strict_doc_gen tbl l o roots body st' root :
  let e := enc_env l o in
  enc_body tbl l o roots = EOk (body, st') ->
  sx_item (strtbl st') root = true ->
  (e_use_strtbl e = false -> strtbl st' = [] /\ strtbl_len st' = 0) ->
  (let '(_, t, _) := header_table e st' in tbl_size t < 4294967296) ->
  S.strict_doc (abs_doc2 e st' root) = true.
Proof.
  cbv zeta. intros EB Hroot NOTBL Hb. set (e := enc_env l o) in *.
  unfold S.strict_doc, abs_doc2, doc_strtbl. unfold header_table in *.
  destruct (e_use_strtbl e) eqn:HU.
  - assert (Hext : forall t, (exists x, t = strtbl st' ++ x) -> tbl_size t < 4294967296 -> bnd st').
    { intros t [x ->] H. unfold bnd. rewrite tbl_size_app in H. lia. }
    destruct (header_pid e) as [p|].
    + destruct (strtbl_add (strtbl st') (strtbl_len st') p) as [[idx t] tlen] eqn:A.
      destruct (strtbl_add_ok _ _ _ _ _ _ A) as (Hx & HI). destruct (strtbl_add_has _ _ _ _ _ _ A) as [_ Hidx].
      pose proof (enc_body_strtbl_exact tbl l o _ body st' EB (Hext t Hx Hb)) as [Ho Hl].
      destruct (HI (conj Ho Hl) Hb) as [Hot _]. destruct Hx as [x ->].
      cbn [S.wd_strtbl S.wd_pub S.wd_pis_before S.wd_root S.wd_pis_after forallb].
      rewrite (entry_start_construct _ _ Hot Hidx), andb_true_r.
      rewrite (sx_item_strict (strtbl st' ++ x) _ (fun i => entry_start_construct _ i Hot) root (sx_item_app _ x root Hroot)).
      pose proof (construct_last (strtbl st' ++ x)) as HL. destruct (strtbl_construct (strtbl st' ++ x)); [reflexivity|].
      rewrite HL. reflexivity.
    + pose proof (enc_body_strtbl_exact tbl l o _ body st' EB Hb) as [Ho Hl].
      cbn [S.wd_strtbl S.wd_pub S.wd_pis_before S.wd_root S.wd_pis_after forallb].
      rewrite (sx_item_strict (strtbl st') _ (fun i => entry_start_construct _ i Ho) root Hroot).
      pose proof (construct_last (strtbl st')) as HL. destruct (strtbl_construct (strtbl st')); [reflexivity|].
      rewrite HL. reflexivity.
  - destruct (NOTBL eq_refl) as [S1 _]. rewrite S1 in Hroot.
    assert (Hnone : forall tb i, has_off [] i = true -> S.entry_start tb i = true) by (intros tb i H; discriminate).
    destruct (header_pid e) as [p|]; cbn [S.wd_strtbl S.wd_pub S.wd_pis_before S.wd_root S.wd_pis_after forallb].
    + rewrite (sx_item_strict [] _ (Hnone _) root Hroot).
      assert (Hl : last (p ++ [0]) 1 = 0) by (rewrite last_app_cons_local; reflexivity).
      assert (He : S.entry_start (p ++ [0]) 0 = true).
      { unfold S.entry_start. apply andb_true_iff. split; [apply N.ltb_lt; unfold Parser.blen; rewrite app_length; cbn; lia|reflexivity]. }
      rewrite He. destruct (p ++ [0]) eqn:E; [destruct p; discriminate|]. rewrite Hl. reflexivity.
    + rewrite (sx_item_strict [] _ (Hnone _) root Hroot). reflexivity.
Qed.
