(* C03 (second iteration, languages with a namespace table) — FrontSimple.v with the element names of the events given by a
   function `en` of the tag (Expat in namespace mode reports "namespace|local"): the XML front end (Model/XmlFront.v) fed with the events of a tree of elements and texts
   builds that tree: ev_node n = the events an XML parser delivers for the serialisation of n (one character-data event
   per text node; no attributes; names without namespace part), for trees whose tags the language's table resolves
   back to themselves (fgood). *)
From Coq Require Import String Ascii.
From Coq Require Import List NArith ZArith Lia Bool.
From Wbxml Require Import Model.TablesDefs Model.Tables Model.Codec Model.LangSelect Model.EncWbxml Model.XmlFront.
Import ListNotations.
Local Open Scope N_scope.

Section Naming.
Variable en : tagname -> bytes.     (* the name Expat reports for an element with this tag *)

Fixpoint ev_node (n : node) : list event :=
  match n with
  | NElt tg _ ch => EvStartElement (en tg) [] 0 :: flat_map ev_node ch ++ [EvEndElement (en tg) 0]
  | NText c => [EvCharacters c]
  | _ => []
  end.

Definition is_text (n : node) : bool := match n with NText _ => true | _ => false end.
Fixpoint no_adj (l : list node) : bool :=
  match l with
  | [] => true
  | x :: r => negb (is_text x && match r with y :: _ => is_text y | [] => false end) && no_adj r
  end.

(* d = the number of open elements above the node *)
Fixpoint fgood (L : lang) (d : nat) (n : node) : Prop :=
  match n with
  | NElt (TagTok p t o nm) [] ch =>
    resolve_tag L (en (TagTok p t o nm)) = (TagTok p t o nm, p) /\ N.land o WBXML_TAG_OPTION_BINARY = 0 /\ beq nm s_Data = false /\
    (d = 0%nat \/ is_embedded_name (en (TagTok p t o nm)) = false) /\ (d < 1000)%nat /\ no_adj ch = true /\
    (fix all (l : list node) : Prop := match l with [] => True | x :: r => fgood L (S d) x /\ all r end) ch
  | NText c => True
  | _ => False
  end.

Definition frame_ok (f : frame) : Prop :=
  exists tag attrs, f_kind f = FElt tag attrs None /\ beq (tag_xml_name tag) s_Data = false /\ is_binary_frame f = false.

Definition last_is_text (f : frame) : bool := match f_rkids f with NText _ :: _ => true | _ => false end.

Section Sim.
Variables (main : list lang) (sub : bytes -> xtree + N) (input : bytes) (L : lang).

Definition good_ctx (c : ctx) : Prop := c_error c = WBXML_OK /\ c_skip_lvl c = 0 /\ c_lang c = Some L.

Lemma run_app c a b : run main sub input c (a ++ b) = run main sub input (run main sub input c a) b.
Proof. unfold run. apply fold_left_app. Qed.

Lemma data_type_normal f up : frame_ok f -> syncml_data_type (f :: up) = Some DT_NORMAL.
Proof.
  intros (tag & attrs & Hk & Hd & _). unfold syncml_data_type.
  assert (Hc : is_cdata_frame f = false) by (unfold is_cdata_frame; rewrite Hk; reflexivity).
  rewrite Hc. cbv beta iota zeta. rewrite Hk. cbv beta iota. rewrite Hd. reflexivity.
Qed.

Lemma flush_none c f up : c_spine c = f :: up -> frame_ok f -> flush_binary c = c.
Proof. intros Hs (tag & attrs & Hk & _ & _). unfold flush_binary. rewrite Hs, Hk. destruct tag; reflexivity. Qed.

(* the result of feeding one node below the frame f *)
Definition add_node_to (f : frame) (n : node) : frame :=
  match n with NText t => add_text_kid f t | _ => add_kid f n end.

Lemma node_run : forall n d c f up, fgood L d n ->
  good_ctx c -> c_spine c = f :: up -> length (f :: up) = d -> frame_ok f ->
  (is_text n && last_is_text f = false) ->
  let c' := run main sub input c (ev_node n) in
  good_ctx c' /\ c_spine c' = (match n with NText t => add_kid f (NText t) | _ => add_kid f n end) :: up
  /\ c_root c' = c_root c /\ c_charset c' = c_charset c.
Proof.
  fix IH 1. intros n d c f up Hg (He & Hk & Hl) Hs Hd Hf Hadj.
  destruct n as [tg attrs ch|t|ch| |lid roots]; cbn [fgood] in Hg; try contradiction.
  - (* element *)
    destruct tg as [p t o nm|nm]; [|contradiction]. destruct attrs as [|a0 ar]; [|contradiction].
    destruct Hg as (Hres & Hbin & Hdata & Hemb & Hdep & Hnoadj & Hall).
    cbn [ev_node]. cbv zeta. set (enm := en (TagTok p t o nm)) in *.
    assert (Hemb' : is_embedded_name enm = false) by (destruct Hemb as [H0|H0]; [cbn [length] in Hd; lia|exact H0]).
    change (EvStartElement enm [] 0 :: flat_map ev_node ch ++ [EvEndElement enm 0])
      with ([EvStartElement enm [] 0] ++ flat_map ev_node ch ++ [EvEndElement enm 0]).
    rewrite !run_app.
    (* the start event *)
    set (f1 := mk_frame (FElt (TagTok p t o nm) [] None) []).
    assert (H1 : exists c1, run main sub input c [EvStartElement enm [] 0] = c1 /\ good_ctx c1 /\ c_spine c1 = f1 :: f :: up
                            /\ c_root c1 = c_root c /\ c_charset c1 = c_charset c).
    { eexists. split; [reflexivity|]. unfold run. cbn [fold_left step]. unfold on_start_element.
      rewrite He, Hk. cbn [N.eqb negb N.ltb N.compare]. rewrite Hs, Hemb'. cbn [andb].
      rewrite (flush_none c f up Hs Hf). unfold start_child. rewrite He. cbn [N.eqb negb]. rewrite Hs.
      replace (WBXML_MAX_NESTING_DEPTH <=? N.of_nat (length (f :: up))) with false
        by (symmetry; apply N.leb_gt; unfold WBXML_MAX_NESTING_DEPTH; rewrite Hd; lia).
      rewrite Hl, Hres. unfold push_frame. cbn [c_spine set_page]. rewrite Hs. cbn [map].
      unfold good_ctx. cbn. repeat split; assumption. }
    destruct H1 as (c1 & -> & Hg1 & Hs1 & Hr1 & Hc1).
    (* the children *)
    assert (Hch : forall ch0 cA fA, (fix all (l : list node) : Prop := match l with [] => True | x :: r => fgood L (S d) x /\ all r end) ch0 ->
                    no_adj ch0 = true -> good_ctx cA -> c_spine cA = fA :: f :: up -> frame_ok fA ->
                    (match ch0 with x :: _ => is_text x && last_is_text fA | [] => false end) = false ->
                    let cB := run main sub input cA (flat_map ev_node ch0) in
                    good_ctx cB /\ c_root cB = c_root cA /\ c_charset cB = c_charset cA /\
                    exists fB, c_spine cB = fB :: f :: up /\ f_kind fB = f_kind fA /\ f_rkids fB = rev ch0 ++ f_rkids fA).
    { induction ch0 as [|x r IHr]; intros cA fA Hallx Hna HgA HsA HfA Hfirst; cbv zeta.
      - cbn [flat_map]. unfold run. cbn [fold_left]. repeat split; try assumption; try apply HgA. exists fA. repeat split; assumption.
      - destruct Hallx as [Hx Hrest]. cbn [flat_map]. rewrite run_app.
        cbn [no_adj] in Hna. apply andb_prop in Hna. destruct Hna as [Hna1 Hna2].
        assert (Hlen : length (fA :: f :: up) = S d) by (cbn [length] in *; lia).
        destruct (IH x (S d) cA fA (f :: up) Hx HgA HsA Hlen HfA Hfirst) as (HgX & HsX & HrX & HcX).
        set (fX := match x with NText t0 => add_kid fA (NText t0) | _ => add_kid fA x end) in *.
        assert (EfX : fX = add_kid fA x) by (subst fX; destruct x; reflexivity).
        assert (HfX : frame_ok fX).
        { rewrite EfX. destruct HfA as (tag & at0 & K1 & K2 & K3). exists tag, at0. unfold add_kid. cbn [f_kind].
          repeat split; try assumption. }
        assert (Hfirst' : (match r with y :: _ => is_text y && last_is_text fX | [] => false end) = false).
        { destruct r as [|y r']; [reflexivity|]. rewrite EfX. unfold last_is_text, add_kid. cbn [f_rkids].
          apply negb_true_iff in Hna1. destruct x; cbn [is_text] in *; try (rewrite andb_false_r; reflexivity).
          cbn [andb] in Hna1. rewrite Hna1. reflexivity. }
        destruct (IHr _ fX Hrest Hna2 HgX HsX HfX Hfirst') as (HgB & HrB & HcB & fB & HsB & HkB & HkidsB).
        cbv zeta in *. repeat split; try assumption; try apply HgB; try congruence.
        exists fB. repeat split; [exact HsB|rewrite HkB, EfX; reflexivity|].
        rewrite HkidsB, EfX. unfold add_kid. cbn [f_rkids rev]. rewrite <- app_assoc. reflexivity. }
    assert (Hf1 : frame_ok f1).
    { exists (TagTok p t o nm), []. repeat split; [exact Hdata|]. unfold is_binary_frame, f1. cbn [f_kind].
      unfold WBXML_TAG_OPTION_BINARY in *. rewrite Hbin. reflexivity. }
    assert (Hfirst1 : (match ch with x :: _ => is_text x && last_is_text f1 | [] => false end) = false).
    { destruct ch; [reflexivity|]. unfold last_is_text, f1. cbn [f_rkids]. apply andb_false_r. }
    destruct (Hch ch _ f1 Hall Hnoadj Hg1 Hs1 Hf1 Hfirst1) as (HgB & HrB & HcB & fB & HsB & HkB & HkidsB).
    set (cB := run main sub input c1 (flat_map ev_node ch)) in *.
    (* the end event *)
    assert (HfB : frame_ok fB).
    { exists (TagTok p t o nm), []. rewrite HkB. repeat split; [exact Hdata|]. unfold is_binary_frame. rewrite HkB. cbn [f_kind f1].
      unfold WBXML_TAG_OPTION_BINARY in *. rewrite Hbin. reflexivity. }
    destruct HgB as (HeB & HkB' & HlB).
    assert (Hend : run main sub input cB [EvEndElement enm 0] = set_spine cB (add_kid f (reify fB) :: up)).
    { unfold run. cbn [fold_left step]. unfold on_end_element.
      rewrite (flush_none cB fB (f :: up) HsB HfB).
      rewrite HeB, HkB'. cbn [N.eqb negb N.ltb N.compare]. unfold leave_current. rewrite HsB.
      assert (Hnc : is_cdata_frame fB = false) by (unfold is_cdata_frame; rewrite HkB; reflexivity).
      rewrite Hnc. unfold go_up. rewrite HsB. reflexivity. }
    rewrite Hend. unfold good_ctx. cbn [c_error c_skip_lvl c_lang c_spine c_root c_charset set_spine].
    repeat split; try assumption; try congruence.
    f_equal. f_equal. unfold reify. rewrite HkB. cbn [f_kind f1]. unfold kids_of. rewrite HkidsB. cbn [f_rkids f1].
    rewrite app_nil_r, rev_append_rev, rev_involutive, app_nil_r. reflexivity.
  - (* text *)
    cbn [ev_node]. cbv zeta. unfold run. cbn [fold_left step]. unfold on_characters.
    rewrite He, Hk. cbn [N.eqb negb N.ltb N.compare]. rewrite Hs, (data_type_normal f up Hf).
    cbv beta iota zeta. cbn [c_spine]. rewrite ?Hs. destruct Hf as (tag & at0 & K1 & K2 & K3). cbn [andb N.eqb negb]. change (WBXML_OK =? WBXML_OK) with true. cbn [negb]. rewrite ?Hs. rewrite K3.
    unfold add_text. rewrite ?Hs. unfold good_ctx. cbn [c_error c_skip_lvl c_lang c_spine c_root c_charset set_spine].
    repeat split; try assumption. f_equal.
    cbn [is_text andb] in Hadj. unfold last_is_text in Hadj. unfold add_text_kid.
    destruct (f_rkids f) as [|[| | | |] r]; try reflexivity. discriminate.
Qed.

Fixpoint all_good (d : nat) (l : list node) : Prop := match l with [] => True | x :: r => fgood L d x /\ all_good d r end.

Lemma kids_run : forall ch d cA fA up, all_good d ch -> no_adj ch = true -> good_ctx cA -> c_spine cA = fA :: up ->
  length (fA :: up) = d -> frame_ok fA ->
  (match ch with x :: _ => is_text x && last_is_text fA | [] => false end) = false ->
  let cB := run main sub input cA (flat_map ev_node ch) in
  good_ctx cB /\ c_root cB = c_root cA /\ c_charset cB = c_charset cA /\
  exists fB, c_spine cB = fB :: up /\ f_kind fB = f_kind fA /\ f_rkids fB = rev ch ++ f_rkids fA.
Proof.
  induction ch as [|x r IHr]; intros d cA fA up Hallx Hna HgA HsA Hlen HfA Hfirst; cbv zeta.
  - cbn [flat_map]. unfold run. cbn [fold_left]. repeat split; try assumption; try apply HgA. exists fA. repeat split; assumption.
  - destruct Hallx as [Hx Hrest]. cbn [flat_map]. rewrite run_app.
    cbn [no_adj] in Hna. apply andb_prop in Hna. destruct Hna as [Hna1 Hna2].
    destruct (node_run x d cA fA up Hx HgA HsA Hlen HfA Hfirst) as (HgX & HsX & HrX & HcX).
    set (fX := match x with NText t0 => add_kid fA (NText t0) | _ => add_kid fA x end) in *.
    assert (EfX : fX = add_kid fA x) by (subst fX; destruct x; reflexivity).
    assert (HfX : frame_ok fX).
    { rewrite EfX. destruct HfA as (tag & at0 & K1 & K2 & K3). exists tag, at0. unfold add_kid. cbn [f_kind]. repeat split; try assumption. }
    assert (Hfirst' : (match r with y :: _ => is_text y && last_is_text fX | [] => false end) = false).
    { destruct r as [|y r']; [reflexivity|]. rewrite EfX. unfold last_is_text, add_kid. cbn [f_rkids].
      apply negb_true_iff in Hna1. destruct x; cbn [is_text] in *; try (rewrite andb_false_r; reflexivity).
      cbn [andb] in Hna1. rewrite Hna1. reflexivity. }
    assert (Hlen' : length (fX :: up) = d) by (cbn [length] in *; lia).
    destruct (IHr d _ fX up Hrest Hna2 HgX HsX Hlen' HfX Hfirst') as (HgB & HrB & HcB & fB & HsB & HkB & HkidsB).
    cbv zeta in *. repeat split; try assumption; try apply HgB; try congruence.
    exists fB. repeat split; [exact HsB|rewrite HkB, EfX; reflexivity|].
    rewrite HkidsB, EfX. unfold add_kid. cbn [f_rkids rev]. rewrite <- app_assoc. reflexivity.
Qed.

(* the whole document: XML declaration without encoding, DOCTYPE, the root element *)
Definition doc_events (rootname : bytes) (sysid pubid : option bytes) (root : node) : list event :=
  [EvXmlDecl (Some (bs "1.0")) None; EvStartDoctype rootname sysid pubid] ++ ev_node root.

Theorem front_of_simple_tree p t o nm ch rootname sysid pubid :
  input <> [] ->
  search_table main (option_map str pubid) (option_map str sysid) None = Some L ->
  fgood L 0 (NElt (TagTok p t o nm) [] ch) ->
  tree_from_xml main sub input (doc_events rootname sysid pubid (NElt (TagTok p t o nm) [] ch)) true
  = inl (mk_xtree (l_id L) 0 [NElt (TagTok p t o nm) [] ch]).
Proof.
  intros Hin Hst Hg. cbn [fgood] in Hg. destruct Hg as (Hres & Hbin & Hdata & Hemb & Hdep & Hnoadj & Hall).
  unfold tree_from_xml. destruct input as [|i0 ir] eqn:Ein; [congruence|]. rewrite <- Ein in *. clear Ein.
  unfold doc_events. cbn [ev_node app]. set (enm := en (TagTok p t o nm)) in *.
  change (EvXmlDecl (Some (bs "1.0")) None :: EvStartDoctype rootname sysid pubid :: EvStartElement enm [] 0 :: flat_map ev_node ch ++ [EvEndElement enm 0])
    with ([EvXmlDecl (Some (bs "1.0")) None; EvStartDoctype rootname sysid pubid; EvStartElement enm [] 0] ++ flat_map ev_node ch ++ [EvEndElement enm 0]).
  rewrite !run_app.
  set (f1 := mk_frame (FElt (TagTok p t o nm) [] None) []).
  set (c1 := run main sub input init_ctx [EvXmlDecl (Some (bs "1.0")) None; EvStartDoctype rootname sysid pubid; EvStartElement enm [] 0]).
  assert (H1 : good_ctx c1 /\ c_spine c1 = [f1] /\ c_root c1 = None /\ c_charset c1 = 0).
  { assert (E1 : c1 = mk_ctx (Some L) 0 p None [f1] WBXML_OK 0 0).
    { subst c1. change [EvXmlDecl (Some (bs "1.0")) None; EvStartDoctype rootname sysid pubid; EvStartElement enm [] 0]
        with ([EvXmlDecl (Some (bs "1.0")) None; EvStartDoctype rootname sysid pubid] ++ [EvStartElement enm [] 0]).
      rewrite run_app.
      assert (E0 : run main sub input init_ctx [EvXmlDecl (Some (bs "1.0")) None; EvStartDoctype rootname sysid pubid] = mk_ctx (Some L) 0 0 None [] WBXML_OK 0 0).
      { unfold run. cbn [fold_left step on_xml_decl]. unfold on_start_doctype. rewrite Hst. reflexivity. }
      rewrite E0. unfold run. cbn [fold_left step]. unfold on_start_element, start_child, flush_binary, push_frame.
      cbn [c_error c_skip_lvl c_spine c_lang c_root c_page c_charset c_skip_start set_page set_spine set_error set_lang].
      change (WBXML_OK =? WBXML_OK) with true. cbn [negb andb N.ltb N.compare length N.of_nat]. rewrite andb_false_r.
      change (WBXML_MAX_NESTING_DEPTH <=? 0) with false. rewrite Hres.
      cbn [c_error c_skip_lvl c_spine c_lang c_root c_page c_charset c_skip_start set_page set_spine set_error set_lang map]. reflexivity. }
    rewrite E1. unfold good_ctx. cbn. repeat split. }
  destruct H1 as (Hg1 & Hs1 & Hr1 & Hc1).
  assert (Hf1 : frame_ok f1).
  { exists (TagTok p t o nm), []. repeat split; [exact Hdata|]. unfold is_binary_frame, f1. cbn [f_kind].
    unfold WBXML_TAG_OPTION_BINARY in *. rewrite Hbin. reflexivity. }
  assert (Hall' : all_good 1 ch).
  { clear -Hall. induction ch as [|x r IHr]; [exact I|]. destruct Hall as [Hx Hr]. split; [exact Hx|exact (IHr Hr)]. }
  assert (Hfirst1 : (match ch with x :: _ => is_text x && last_is_text f1 | [] => false end) = false).
  { destruct ch; [reflexivity|]. unfold last_is_text, f1. cbn [f_rkids]. apply andb_false_r. }
  destruct (kids_run ch 1 c1 f1 [] Hall' Hnoadj Hg1 Hs1 eq_refl Hf1 Hfirst1) as (HgB & HrB & HcB & fB & HsB & HkB & HkidsB).
  set (cB := run main sub input c1 (flat_map ev_node ch)) in *.
  destruct HgB as (HeB & HkB' & HlB).
  assert (HfB : frame_ok fB).
  { exists (TagTok p t o nm), []. rewrite HkB. repeat split; [exact Hdata|]. unfold is_binary_frame. rewrite HkB. cbn [f_kind f1].
    unfold WBXML_TAG_OPTION_BINARY in *. rewrite Hbin. reflexivity. }
  assert (Hend : run main sub input cB [EvEndElement enm 0] = cB).
  { unfold run. cbn [fold_left step]. unfold on_end_element. rewrite (flush_none cB fB [] HsB HfB).
    rewrite HeB, HkB'. cbn [N.eqb negb N.ltb N.compare]. unfold leave_current. rewrite HsB. reflexivity. }
  rewrite Hend. cbn [negb]. rewrite HeB. change (WBXML_OK =? WBXML_OK) with true. cbn [negb].
  unfold tree_of_ctx, root_of. rewrite HlB, HcB, Hc1, HsB. cbn [close_spine]. f_equal. f_equal. f_equal.
  unfold reify. rewrite HkB. cbn [f_kind f1]. unfold kids_of. rewrite HkidsB. cbn [f_rkids f1].
  rewrite app_nil_r, rev_append_rev, rev_involutive, app_nil_r. reflexivity.
Qed.
End Sim.
End Naming.
