(* C18 — the encoders' traversal determines the tree: the pre-order listing with brackets is injective; hence the
   bytes both encoder models produce for an API-built tree are a function of that traversal *)
From Coq Require Import List NArith Bool Lia.
From Wbxml Require Model.EncWbxml Model.EncXml.
From Wbxml Require Import Model.TreeGraph Model.TreeReify Proofs.TreeGraphProofs.
Import ListNotations.
Local Open Scope N_scope.

Lemma shape_ind' (P : shape -> Prop) :
  (forall d cs, Forall P cs -> P (Sh d cs)) -> forall s, P s.
Proof.
  intros H. fix IH 1. intros [d cs]. apply H. induction cs as [|c cs IHcs]; constructor; [apply IH | exact IHcs].
Qed.

Lemma events_unfold d cs :
  events (Sh d cs) = EvOpen d (match cs with [] => false | _ => true end)
                     :: flat_map events cs ++ [EvClose d (match cs with [] => false | _ => true end)].
Proof. reflexivity. Qed.

Definition inj_at (c : shape) : Prop :=
  forall s2 r1 r2, events c ++ r1 = events s2 ++ r2 -> c = s2 /\ r1 = r2.

Lemma events_list_inj cs : Forall inj_at cs ->
  forall cs' d hc d' hc' r1 r2,
    flat_map events cs ++ EvClose d hc :: r1 = flat_map events cs' ++ EvClose d' hc' :: r2 ->
    cs = cs' /\ r1 = r2.
Proof.
  induction 1 as [|c cs Hc _ IH]; intros cs' d hc d' hc' r1 r2 E.
  - destruct cs' as [|[d2 k2] cs']; cbn [flat_map app] in E.
    + injection E as _ _ E. split; [reflexivity | exact E].
    + rewrite events_unfold in E. cbn [app] in E. discriminate.
  - destruct cs' as [|c' cs']; cbn [flat_map] in E.
    + destruct c as [d1 k1]. rewrite events_unfold in E. cbn [app] in E. discriminate.
    + rewrite <- !app_assoc in E. destruct (Hc _ _ _ E) as [-> E2].
      destruct (IH _ _ _ _ _ _ _ E2) as [-> ->]. split; reflexivity.
Qed.

Lemma events_inj_gen : forall s, inj_at s.
Proof.
  induction s as [d cs IH] using shape_ind'. intros [d' cs'] r1 r2 E.
  rewrite !events_unfold in E. cbn [app] in E. injection E as -> _ E.
  rewrite <- !app_assoc in E. cbn [app] in E.
  destruct (events_list_inj cs IH _ _ _ _ _ _ _ E) as [-> ->]. split; reflexivity.
Qed.

(* the pre-order listing with brackets determines the tree *)
Theorem walk_determines_shape s1 s2 : events s1 = events s2 -> s1 = s2.
Proof.
  intros E. apply (events_inj_gen s1 s2 [] []). rewrite !app_nil_r. exact E.
Qed.

Theorem walk_determines_tree c1 c2 tr1 tr2 :
  CLinks c1 -> CLinks c2 -> tree_of c1 = Some tr1 -> tree_of c2 = Some tr2 ->
  enc_walk (S (fuel_of (ts c1))) (heap_of (ts c1)) (root (ts c1)) =
  enc_walk (S (fuel_of (ts c2))) (heap_of (ts c2)) (root (ts c2)) ->
  erase tr1 = erase tr2.
Proof.
  intros H1 H2 T1 T2 E. rewrite (enc_walk_shape c1 tr1 H1 T1), (enc_walk_shape c2 tr2 H2 T2) in E.
  injection E as E. apply walk_determines_shape, E.
Qed.

Theorem bytes_function_of_walk_wbxml wopts wsub tbl l o c1 c2 tr1 tr2 :
  CLinks c1 -> CLinks c2 -> tree_of c1 = Some tr1 -> tree_of c2 = Some tr2 ->
  enc_walk (S (fuel_of (ts c1))) (heap_of (ts c1)) (root (ts c1)) =
  enc_walk (S (fuel_of (ts c2))) (heap_of (ts c2)) (root (ts c2)) ->
  EncWbxml.enc_wbxml tbl l o [reify_w wopts wsub (erase tr1)] =
  EncWbxml.enc_wbxml tbl l o [reify_w wopts wsub (erase tr2)].
Proof. intros H1 H2 T1 T2 E. rewrite (walk_determines_tree c1 c2 tr1 tr2 H1 H2 T1 T2 E). reflexivity. Qed.

Theorem bytes_function_of_walk_xml xopts xsub l g indent keep_ws c1 c2 tr1 tr2 :
  CLinks c1 -> CLinks c2 -> tree_of c1 = Some tr1 -> tree_of c2 = Some tr2 ->
  enc_walk (S (fuel_of (ts c1))) (heap_of (ts c1)) (root (ts c1)) =
  enc_walk (S (fuel_of (ts c2))) (heap_of (ts c2)) (root (ts c2)) ->
  EncXml.enc_xml l g indent keep_ws [reify_x xopts xsub (erase tr1)] =
  EncXml.enc_xml l g indent keep_ws [reify_x xopts xsub (erase tr2)].
Proof. intros H1 H2 T1 T2 E. rewrite (walk_determines_tree c1 c2 tr1 tr2 H1 H2 T1 T2 E). reflexivity. Qed.
