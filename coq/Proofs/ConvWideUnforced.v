(* C03 / C06 — the public-identifier field of the document the WBXML encoder writes on the wide fragment, so that the
   round trip also holds when the second conversion is NOT told the language: the proof of
   EncWbxmlDenote3.strict_decode_of_encoding3 is replayed with the abstract document kept in view (abs_doc2 e st' root:
   its wd_pub is PubNum (header_public_id e) whenever the public id is written as a number; when it is written as a
   STRING p - language without numeric id, not anonymous - wd_pub is PubIdx i with str_at (wd_strtbl d) i = Some p),
   then Spec.lang_of_pub finds the language by that number or by that string (lang_choiceW). *)
From Coq Require Import String Ascii.
From Coq Require Import List NArith ZArith Lia Bool.
From Wbxml Require Import Model.Codec Model.TablesDefs Model.Parser Model.Spec Model.TreeBuild Model.TreeConv Model.Conv Model.ConvConcrete
     Proofs.ParserProofsBase Proofs.ParserProofsStr Proofs.ParserProofsDoc Proofs.ParserProofsTyped Proofs.ParserProofsWv
     Proofs.TreeBuildProofs Proofs.TreeBuildProofs2 Proofs.TreeBuildProofs3 Proofs.TreeRoundTrip Proofs.TreeRoundTripWide
     Proofs.ConvRoundTrip Proofs.ConvRoundTripWide.
From Wbxml Require Model.EncWbxml Model.EncWbxmlEvents Model.TreeNorm Proofs.EncWbxmlProofs Proofs.EncWbxmlAbs Proofs.EncWbxmlMerge
     Proofs.EncWbxmlDenote2 Proofs.EncWbxmlTblOk Proofs.EncWbxmlDenote3.
From Wbxml Require Model.EncXml Model.XmlRead Proofs.EncXmlProofs Proofs.EncXmlIndent.
From Wbxml Require Model.XmlFront Model.ConvXml2Wbxml.
Import ListNotations.
Local Open Scope N_scope.

Module AB := Wbxml.Proofs.EncWbxmlAbs.

Theorem strict_decode_of_encoding3_pub tblb TBL L o tag attrs ch bs :
  let e := E.enc_env (D2.to_blang L) o in
  AB.plain_env e = true -> D2.vals_ok L = true -> l_exts L = None ->
  TK.tree_ok3 L 0 (E.NElt tag attrs ch) = true ->
  E.o_version o < 4 -> E.header_public_id e < 4294967296 -> E.header_public_id e <> 0 ->
  (match AB.header_pid e with Some p => D2.okb p = true | None => True end) ->
  E.len bs < 4294967296 ->
  E.enc_wbxml tblb (D2.to_blang L) o [E.NElt tag attrs ch] = E.EOk bs ->
  exists d evs, bs = serialize d /\ denote_with TBL (Some L) d = Some evs /\
            EV.merge_chars evs = EV.merge_chars (D3.doc_events3 L e (E.o_keep_ws o) (E.NElt tag attrs ch)) /\
            (AB.header_pid e = None -> wd_pub d = PubNum (E.header_public_id e)) /\
            (forall p, AB.header_pid e = Some p ->
               exists i, wd_pub d = PubIdx i /\ str_at (wd_strtbl d) i = Some p /\ blen (wd_strtbl d) < 4294967296).
Proof.
  cbv zeta. intros HP HV HX HT Hv Hp1 Hp0 Hpid Hlen He. set (e := E.enc_env (D2.to_blang L) o) in *.
  assert (HF : AB.frag2_node e (E.NElt tag attrs ch) = true) by (apply (D3.tree_ok3_frag2 L e eq_refl _ 0 HT)).
  destruct (AB.enc_wbxml_serialize2 tblb (D2.to_blang L) o tag attrs ch bs HP HF He) as (st' & root & EB & AN & HS).
  assert (Hsz : if E.e_use_strtbl e then Proofs.EncWbxmlProofs.tbl_size (D3.final_tbl e st') < 4294967296
                else match AB.header_pid e with Some p => E.len p + 1 < 4294967296 | None => True end).
  { rewrite AB.enc_wbxml_form_local, EB in He. injection He as <-. rewrite Proofs.EncWbxmlProofs.len_app in Hlen.
    pose proof (D3.fill_header_len e st') as HL. fold e in Hlen.
    destruct (E.e_use_strtbl e); [lia|]. destruct (AB.header_pid e); [lia|exact I]. }
  destruct (D3.final_facts tblb L o tag attrs ch _ st' root HT EB AN Hpid Hsz) as (G1 & G2 & G3 & G4 & G5 & G6 & G7 & G8 & G9).
  pose proof (AB.header_len_ok_holds tblb (D2.to_blang L) o tag attrs ch _ st' root EB AN G8 G9) as HL.
  destruct (D3.abs_doc3_denotes TBL L o tag attrs ch st' root HP HV HX HT AN G1 G2 G3 G4 Hv Hp1 Hp0 G5 G6 G7) as (evs & Hden & MG).
  exists (AB.abs_doc2 e st' root), evs. split; [exact (HS HL)|]. split; [exact Hden|]. split; [exact MG|]. split.
  - intros Hn. unfold AB.abs_doc2. destruct (AB.header_table e st') as [[idx t] tl]. cbn [wd_pub]. rewrite Hn. reflexivity.
  - intros p Hp. rewrite Hp in Hpid.
    assert (Hstr : wd_strtbl (AB.abs_doc2 e st' root) = AB.doc_strtbl e st').
    { unfold AB.abs_doc2. destruct (AB.header_table e st') as [[idx t] tl]. reflexivity. }
    assert (Hpb : wd_pub (AB.abs_doc2 e st' root) = PubIdx (D3.final_idx e st')).
    { unfold AB.abs_doc2, D3.final_idx. destruct (AB.header_table e st') as [[idx t] tl]. cbn [wd_pub]. rewrite Hp. reflexivity. }
    exists (D3.final_idx e st'). split; [exact Hpb|]. rewrite Hstr. split; [|exact G6].
    destruct (E.e_use_strtbl e) eqn:HU.
    + assert (Hx : exists x, In x (D3.final_tbl e st') /\ E.s_off x = D3.final_idx e st' /\ E.s_str x = p).
      { unfold D3.final_tbl, D3.final_idx, AB.header_table. rewrite Hp, HU.
        destruct (E.strtbl_add (E.strtbl st') (E.strtbl_len st') p) as [[idx t] tl] eqn:A.
        exact (TK.strtbl_add_entry _ _ _ _ _ _ A). }
      destruct Hx as (x0 & Hin0 & Hoff0 & Hstr0). pose proof (G1 x0 Hin0) as H. rewrite Hoff0, Hstr0 in H. exact (H Hpid).
    + assert (Hi0 : D3.final_idx e st' = 0) by (unfold D3.final_idx, AB.header_table; rewrite Hp, HU; reflexivity).
      assert (Hd0 : AB.doc_strtbl e st' = p ++ [0]) by (unfold AB.doc_strtbl, AB.header_table; rewrite Hp, HU; reflexivity).
      rewrite Hi0, Hd0. unfold str_at.
      assert (Hlt : (0 <? blen (p ++ [0])) = true).
      { apply N.ltb_lt. unfold blen. rewrite app_length. cbn [length]. lia. }
      rewrite Hlt. unfold drop. cbn [N.to_nat skipn]. f_equal. exact (TK.until_nul_okb p [] Hpid).
Qed.

Lemma ci_eqb_refl a : ci_eqb a a = true.
Proof. induction a as [|x r IH]; [reflexivity|]. cbn [ci_eqb]. rewrite N.eqb_refl, IH. reflexivity. Qed.

(* how the second conversion is told the language on the wide fragment: as lang_choice (forced, or found by the numeric
   public id), or not forced and found by the TEXTUAL public id the encoder wrote into the string table *)
Definition lang_choiceW (TBL : list lang) (L : lang) (e : E.env) (forced : N) : Prop :=
  lang_choice TBL L (E.header_public_id e) forced \/
  (forced = 0 /\ exists p, AB.header_pid e = Some p /\
     find (fun l => match l_pub_text l with Some t => ci_eqb (B t) p | None => false end) TBL = Some L).

(* the tree of the second conversion, the language forced or found by the public identifier *)
Theorem roundtrip_wide_choice tblb TBL L o tag attrs ch bs forced :
  let e := E.enc_env (D2.to_blang L) o in
  AB.plain_env e = true -> D2.vals_ok L = true -> l_exts L = None ->
  TK.tree_ok3 L 0 (E.NElt tag attrs ch) = true ->
  find (fun x => l_id x =? l_id L) TBL = Some L ->
  lang_choiceW TBL L e forced ->
  E.o_version o < 4 -> E.header_public_id e < 4294967296 -> E.header_public_id e <> 0 ->
  (match AB.header_pid e with Some p => D2.okb p = true | None => True end) ->
  E.len bs < 4294967296 ->
  E.enc_wbxml tblb (D2.to_blang L) o [E.NElt tag attrs ch] = E.EOk bs ->
  no_data (D3.doc_events3 L e (E.o_keep_ws o) (E.NElt tag attrs ch)) = true ->
  forall ef, tree_from_wbxml TBL forced 0 ef bs
             = BOk (mk_wtree (l_id L) 106
                     (hd_error (flat_map (tnw (E.has_attr_table e)) (TreeNorm.norm (E.o_keep_ws o) [E.NElt tag attrs ch])))).
Proof.
  cbv zeta. intros HP HV HX HT HFind Hch Hv H1 H0 Hpid Hlen He Hnd ef.
  destruct (strict_decode_of_encoding3_pub tblb TBL L o tag attrs ch bs HP HV HX HT Hv H1 H0 Hpid Hlen He)
    as (d & evs & Hbs & Hden & HM & Hpub & Hpubt).
  subst bs.
  assert (Hp : parse_with TBL forced 0 (S (length (serialize d))) (serialize d) = POk evs).
  { destruct Hch as [[[-> Hid] | [-> [Hp1 Hfp]]] | [-> (p & Hp & Hfp)]].
    - apply (parse_denote_with TBL (fun l0 _ _ => typed_wv_agree_proved) typed_datetime_agree_proved (l_id L) (Some L) d); [|exact Hden].
      split; [reflexivity|]. split; [exact Hid|exact HFind].
    - apply (parse_denote TBL (fun l0 _ _ => typed_wv_agree_proved) typed_datetime_agree_proved d).
      apply (denote_unforced TBL L d); [|exact Hden].
      rewrite Hpub.
      + unfold lang_of_pub.
        replace (E.header_public_id (E.enc_env (D2.to_blang L) o) =? 1) with false by (symmetry; apply N.eqb_neq; exact Hp1).
        replace (u32_okb (E.header_public_id (E.enc_env (D2.to_blang L) o))) with true by (symmetry; unfold u32_okb; apply N.ltb_lt; exact H1).
        replace (E.header_public_id (E.enc_env (D2.to_blang L) o) =? 0) with false by (symmetry; apply N.eqb_neq; exact H0).
        cbn [negb orb]. exact Hfp.
      + unfold AB.header_pid. replace (E.header_public_id (E.enc_env (D2.to_blang L) o) =? 1) with false by (symmetry; apply N.eqb_neq; exact Hp1).
        reflexivity.
    - apply (parse_denote TBL (fun l0 _ _ => typed_wv_agree_proved) typed_datetime_agree_proved d).
      apply (denote_unforced TBL L d); [|exact Hden].
      destruct (Hpubt p Hp) as (i & Hi & Hs & Hb). rewrite Hi. unfold lang_of_pub.
      assert (Hlt : i < blen (wd_strtbl d)).
      { unfold str_at in Hs. destruct (i <? blen (wd_strtbl d)) eqn:El; [apply N.ltb_lt; exact El|discriminate]. }
      replace (u32_okb i) with true by (symmetry; unfold u32_okb; apply N.ltb_lt; lia).
      replace (i =? 4294967295) with false by (symmetry; apply N.eqb_neq; lia).
      cbn [negb andb]. rewrite Hs. exact Hfp. }
  unfold tree_from_wbxml. rewrite Hp.
  set (e := E.enc_env (D2.to_blang L) o) in *. set (wa := E.has_attr_table e) in *.
  revert HM Hnd. unfold D3.doc_events3, TreeNorm.norm. fold wa. cbn [flat_map TreeNorm.norm_node TK.events3 tnw app]. rewrite !app_nil_r.
  set (kids := flat_map (TreeNorm.norm_node (E.o_keep_ws o) false) ch).
  set (t := TK.tag_event tag).
  intros HM Hnd. cbn [hd_error].
  cbn [EV.merge_chars EV.glue] in HM.
  destruct (merge_head evs _ _ HM eq_refl) as (r1 & -> & HM1).
  destruct (merge_head r1 _ _ HM1 eq_refl) as (r2 & -> & HM2).
  unfold no_data in Hnd. cbn [forallb] in Hnd. apply andb_true_iff in Hnd as [_ Hnd]. apply andb_true_iff in Hnd as [Ht Hn2].
  fold (no_data ((flat_map (TK.events3 wa) kids ++ [EvEndElt t]) ++ [EvEndDoc])) in Hn2.
  rewrite (build_merge_doc TBL ef 106 (l_id L) t _ r2 _ Ht Hn2 HM2).
  assert (Hni : no_data (flat_map (TK.events3 wa) kids) = true).
  { unfold no_data in *. rewrite !forallb_app in Hn2. apply andb_true_iff in Hn2 as [Hn2 _]. apply andb_true_iff in Hn2 as [Hn2 _]. exact Hn2. }
  pose proof (build_of_shape TBL ef 106 (l_id L) [] t (if wa then map D2.attr_event attrs else []) (flat_map (TK.events3 wa) kids) [] _ eq_refl eq_refl
               (spec_forest_list3 wa kids) Ht Hni) as Hb.
  cbn [app] in Hb. rewrite app_nil_r in Hb. exact Hb.
Qed.

(* the first iteration on the wide fragment, the language of the second conversion forced or found by the numeric public id *)
Section Compose.
Variables (main TBL : list lang) (btbl : list E.blang) (sub : E.bytes -> XF.xtree + N).

Theorem conversion_roundtrip_wide_choice evs expat_ok o doc w (L : lang) tag attrs ch o' :
  let e := E.enc_env (D2.to_blang L) o in
  (* the first conversion succeeds with output w (below 4 GiB) ... *)
  r_out (CX.xml2wbxml_events main btbl sub evs expat_ok o doc) = Some w -> E.len w < 4294967296 ->
  (* ... on a document whose front-end tree is in the wide fragment *)
  (forall t0, XF.tree_from_xml main sub doc evs expat_ok = inl t0 ->
     E.find_lang btbl (XF.xt_lang t0) = Some (D2.to_blang L) /\ XF.xt_roots t0 = [E.NElt tag attrs ch]) ->
  AB.plain_env e = true -> D2.vals_ok L = true -> l_exts L = None ->
  TK.tree_ok3 L 0 (E.NElt tag attrs ch) = true ->
  find (fun x => l_id x =? l_id L) TBL = Some L ->
  lang_choiceW TBL L e (wo_lang o') -> wo_charset o' = 0 ->
  E.o_version o < 4 -> E.header_public_id e < 4294967296 -> E.header_public_id e <> 0 ->
  (match AB.header_pid e with Some p => D2.okb p = true | None => True end) ->
  no_data (D3.doc_events3 L e (E.o_keep_ws o) (E.NElt tag attrs ch)) = true ->
  let tg := TK.tag_event tag in
  let at' := if E.has_attr_table e then map D2.attr_event attrs else [] in
  let root' := TElt tg at' (merge_text (flat_map (tnw (E.has_attr_table e)) (flat_map (TreeNorm.norm_node (E.o_keep_ws o) false) ch))) in
  let xl := X.xlang_of L in
  let xo := X.opts_of_params (gen_of (wo_gen o')) (wo_indent o') (wo_keep_ws o') in
  exists x,
    wbxml2xml_model TBL o' w = mk_res ST_OK (Some (x ++ [0])) (N.of_nat (length x)) /\
    X.enc_xml_opts xl xo [to_xnode TBL L root'] = X.XOk x /\
    (Proofs.EncXmlProofs.lang_ok xl = true ->
     Proofs.EncXmlIndent.node_ok_g xl xo X.proot None (to_xnode TBL L root') = true ->
     exists c s',
       Proofs.EncXmlIndent.info_g xl xo X.proot (X.est0 0) (to_xnode TBL L root')
         = Some ([XmlRead.XT []; XmlRead.XE (X.tname_bytes (to_tname L tg))
                                             (Proofs.EncXmlProofs.spec_attrs xl xo X.proot (to_tname L tg) (map to_attr at')) c;
                  XmlRead.XT (X.nl_if xo)], s') /\
       forall fuel, (Proofs.EncXmlProofs.node_fuel (to_xnode TBL L root') + 2 <= fuel)%nat ->
         XmlRead.read_xml fuel x =
         XmlRead.ROk (Proofs.EncXmlProofs.doc_of xl
                        [XmlRead.XE (X.tname_bytes (to_tname L tg))
                                    (Proofs.EncXmlProofs.spec_attrs xl xo X.proot (to_tname L tg) (map to_attr at')) c])).
Proof.
  cbv zeta. intros H1 Hlen Hfront HP HV HX HT HFind Hch Hcs Hv Hp1 Hp0 Hpid Hnd.
  set (e := E.enc_env (D2.to_blang L) o) in *. set (wa := E.has_attr_table e) in *.
  set (tg := TK.tag_event tag). set (at' := if wa then map D2.attr_event attrs else []).
  set (root' := TElt tg at' (merge_text (flat_map (tnw wa) (flat_map (TreeNorm.norm_node (E.o_keep_ws o) false) ch)))).
  set (xl := X.xlang_of L). set (xo := X.opts_of_params (gen_of (wo_gen o')) (wo_indent o') (wo_keep_ws o')).
  (* the first conversion *)
  unfold CX.xml2wbxml_events, conv_run in H1. destruct doc as [|d0 dr]; [discriminate|].
  destruct (XF.tree_from_xml main sub (d0 :: dr) evs expat_ok) as [t0|er] eqn:Et; [|discriminate].
  destruct (Hfront t0 eq_refl) as [Hl Hroots].
  unfold CX.encode_tree in H1. rewrite Hl, Hroots in H1.
  destruct (E.enc_wbxml btbl (D2.to_blang L) o [E.NElt tag attrs ch]) as [bs|ee] eqn:He; [|discriminate].
  cbn [r_out] in H1. assert (Hw : bs = w) by congruence. subst bs. clear H1.
  (* the second conversion *)
  pose proof (roundtrip_wide_choice btbl TBL L o tag attrs ch w (wo_lang o') HP HV HX HT HFind Hch Hv Hp1 Hp0 Hpid Hlen He Hnd MAX_EMBEDDED_DEPTH) as Htree.
  revert Htree. unfold TreeNorm.norm. fold e. fold wa. cbn [flat_map TreeNorm.norm_node tnw app hd_error]. rewrite ?app_nil_r.
  fold tg. fold at'. fold root'. intros Htree.
  assert (Hs : simple (to_xnode TBL L root') = true).
  { apply to_xnode_simple. subst root'. cbn [tsimple]. apply merge_text_tsimple.
    generalize (flat_map (TreeNorm.norm_node (E.o_keep_ws o) false) ch) as ns. induction ns as [|y r IHr]; [reflexivity|].
    cbn [flat_map]. rewrite forallb_app, tnw_tsimple, IHr. reflexivity. }
  destruct (enc_xml_simple_ok xl (gen_of (wo_gen o')) (wo_indent o') (wo_keep_ws o') [to_xnode TBL L root']) as [x Hx];
    [cbn [forallb]; rewrite Hs; reflexivity|].
  exists x. split; [|split; [exact Hx|]].
  - unfold wbxml2xml_model, conv_run. destruct w as [|w0 wr].
    { exfalso. clear -Htree. unfold tree_from_wbxml in Htree. vm_compute in Htree. discriminate. }
    unfold w2x_tree_from_doc, wbxml_tree_from_wbxml. rewrite Hcs, Htree.
    unfold w2x_encode, to_xroots. cbn [wt_lang wt_root]. unfold TreeConv.find_lang. rewrite HFind.
    fold xl.
    match goal with |- context [X.enc_xml ?a ?b ?c ?d ?r] =>
      change (X.enc_xml a b c d r) with (X.enc_xml xl (gen_of (wo_gen o')) (wo_indent o') (wo_keep_ws o') [to_xnode TBL L root']) end.
    rewrite Hx. reflexivity.
  - intros Hlok Hok. cbn [to_xnode] in *.
    exact (Proofs.EncXmlIndent.read_enc_g xl xo (to_tname L tg) (map to_attr at') _ x Hlok Hok Hx).
Qed.
End Compose.
