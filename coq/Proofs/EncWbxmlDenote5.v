(* C06 — denotation over the total abstraction of Proofs/EncWbxmlAbs5.v, with TYPED VALUES.
   The tree induction is done ONCE, for any "class" of languages given by
     aok / acan : which attributes are in the fragment, and the canonical text the decoder reports for their value,
     tok / tev  : which texts are in the fragment (by position: first child or not, and parent), and their events,
   with the two class lemmas (attribute list, text node) as hypotheses.  Instances below:
     - class5dt: the languages without typed CONTENT and without extension tokens — the plain ones plus SI 1.0 and
       EMN 1.0, whose %Datetime attributes (created, si-expires, timestamp) are written as OPAQUE BCD with the trailing
       zero octets removed, and reported as ISO 8601 text: the decoded value is canon_dt (value), the instant it denotes. *)
From Coq Require Import List NArith Lia Bool.
From Wbxml Require Import Base.Bits Model.Codec Model.TablesDefs Model.EncWbxml Model.TreeNorm Model.EncWbxmlEvents
     Proofs.EncWbxmlProofs Proofs.TreeNormProofs Proofs.EncWbxmlAbs Proofs.EncWbxmlStrict2 Proofs.EncWbxmlDenote2
     Proofs.EncWbxmlMerge Proofs.EncWbxmlTblOk Proofs.EncWbxmlDenote3 Proofs.EncWbxmlAbs4 Proofs.EncWbxmlDenote4 Proofs.EncWbxmlAbs5.
From Wbxml Require Model.Parser Model.Spec Proofs.EncWbxmlDenote Proofs.ParserProofsStrict3.
Import ListNotations.
Local Open Scope N_scope.

(* ---- events and hypotheses of a tree, for a class ------------------------------------------------------------------------------- *)
Definition ctag_of (par : option tagname) : option (N * N * N) :=
  match par with Some (TagTok p t o _) => Some (p, t, o) | _ => None end.

Section Class.
  Variable L : lang.
  Variable aok : attr -> bool.
  Variable acan : attr -> bytes.
  Variable tok : bool -> option tagname -> bytes -> bool.
  Variable tev : bool -> option tagname -> bytes -> list P.event.

  Definition tag_cond (tag : tagname) : bool :=
    match tag with
    | TagTok p t o nm =>
      (5 <=? t) && (t <? 64) && (p <? 256) &&
      match S.lookup_tag L p t with
      | Some r => (t_page r =? p) && (t_tok r =? t) && beq (P.B (t_name r)) nm
      | None => false
      end
    | TagLit nm => okb nm && unknown_tag L nm
    end.

  (* first: the node is the first child of its parent (the encoder's current_tag / the decoder's current element are
     only set then) *)
  Fixpoint tree_ok5 (depth : N) (first : bool) (par : option tagname) (n : node) : bool :=
    match n with
    | NElt tag attrs ch =>
      (depth <=? 1000) && tag_cond tag && forallb aok attrs &&
      (fix go (f : bool) (l : list node) : bool :=
         match l with [] => true | x :: r => tree_ok5 (depth + 1) f (Some tag) x && go false r end) true ch
    | NText c => tok first par c
    | _ => false
    end.

  Definition kids_ok5 (depth : N) (par : option tagname) :=
    fix go (f : bool) (l : list node) : bool :=
      match l with [] => true | x :: r => tree_ok5 depth f par x && go false r end.

  Definition attr_event5 (a : attr) : P.attrname * bytes := (fst (attr_event a), acan a).

  Fixpoint events5 (with_attrs first : bool) (par : option tagname) (n : node) : list P.event :=
    match n with
    | NElt tag attrs ch =>
      P.EvStartElt (tag_event tag) (if with_attrs then map attr_event5 attrs else [])
        :: (fix go (f : bool) (l : list node) : list P.event :=
              match l with [] => [] | x :: r => events5 with_attrs f (Some tag) x ++ go false r end) true ch
        ++ [P.EvEndElt (tag_event tag)]
    | NText c => tev first par c
    | _ => []
    end.

  Definition kids_events5 (wa : bool) (par : option tagname) :=
    fix go (f : bool) (l : list node) : list P.event :=
      match l with [] => [] | x :: r => events5 wa f par x ++ go false r end.
End Class.

(* ---- the generic tree induction -------------------------------------------------------------------------------------------------- *)
Section G5.
  Variable tbl : list blang.
  Variable L : lang.
  Variable e : env.
  Hypothesis HE : e_lang e = to_blang L.
  Variable TF : list ste.
  Variable tb : bytes.
  Hypothesis HRES : forall x, In x TF -> okb (s_str x) = true -> S.str_at tb (s_off x) = Some (s_str x).
  Hypothesis HU32 : forall x, In x TF -> S.u32_okb (s_off x) = true.
  Variable aok : attr -> bool.
  Variable acan : attr -> bytes.
  Variable tok : bool -> option tagname -> bytes -> bool.
  Variable tev : bool -> option tagname -> bytes -> list P.event.

  (* the decoder's current element, when it matters (first child of a token-tagged element) *)
  Definition dcur_ok (first : bool) (par : option tagname) (dst : S.dstate) (me : option (N * N)) : Prop :=
    first = true -> forall p t o nm, par = Some (TagTok p t o nm) -> S.ds_cur dst = Some (p, t) /\ me = Some (p, t).

  Hypothesis HA : forall l st na ws st' (dst : S.dstate),
    sub TF st' -> forallb aok l = true -> in_cdata st = false -> S.ds_attrcp dst = attrcp st ->
    abs_attrs5 e st na l = Some (ws, st') ->
    exists dst', S.den_attrs (S.mk_denv L tb) ws dst = Some (map (attr_event5 acan) l, dst') /\
                 S.ds_attrcp dst' = attrcp st' /\ S.ds_tagcp dst' = S.ds_tagcp dst /\ S.ds_cur dst' = S.ds_cur dst /\
                 tagcp st' = tagcp st /\ cur_tag st' = cur_tag st /\ in_cdata st' = false.

  Hypothesis HT : forall (first : bool) st par c items st' d me (dst : S.dstate),
    sub TF st' -> in_cdata st = false -> cur_tag st = (if first then ctag_of par else None) -> dcur_ok first par dst me ->
    tok first par c = true -> abs_text5 e st par c = Some (items, st') ->
    exists evs, D1.den_items (S.mk_denv L tb) d me items dst = Some (evs, dst) /\
                merge_chars evs = merge_chars (tev first par c) /\
                tagcp st' = tagcp st /\ attrcp st' = attrcp st /\ in_cdata st' = false.

  Definition node_den5 (n : node) : Prop :=
    forall (first : bool) par d me st items st' (dst : S.dstate),
      tree_ok5 L aok tok d first par n = true -> sub TF st' -> in_cdata st = false ->
      cur_tag st = (if first then ctag_of par else None) -> dcur_ok first par dst me ->
      S.ds_tagcp dst = tagcp st -> S.ds_attrcp dst = attrcp st ->
      abs_node5 tbl e par n st = Some (items, st') ->
      exists evs dst', D1.den_items (S.mk_denv L tb) d me items dst = Some (evs, dst') /\
        merge_chars evs = merge_chars (events5 acan tev (has_attr_table e) first par n) /\
        S.ds_tagcp dst' = tagcp st' /\ S.ds_attrcp dst' = attrcp st' /\ cur_tag st' = None /\ in_cdata st' = false.

  Lemma abs_seq5_ext par ns : forall st items st', abs_seq (abs_node5 tbl e) par ns st = Some (items, st') ->
    exists x, strtbl st' = strtbl st ++ x.
  Proof.
    induction ns as [|n r IH]; intros st items st'; cbn [abs_seq].
    - intros E; injection E as _ <-. exists []. now rewrite app_nil_r.
    - destruct (abs_node5 tbl e par n st) as [[a sa]|] eqn:A; [|discriminate].
      destruct (abs_seq (abs_node5 tbl e) par r sa) as [[b sb]|] eqn:B; [|discriminate]. intros E; injection E as _ <-.
      destruct (abs_node5_facts _ _ _ _ _ _ _ A) as [[x Hx] _]. destruct (IH _ _ _ B) as [y Hy].
      exists (x ++ y). now rewrite Hy, Hx, app_assoc.
  Qed.

  Lemma seq_den5 ns : Forall node_den5 ns ->
    forall (first : bool) par d me st items st' (dst : S.dstate),
      kids_ok5 L aok tok d par first ns = true -> sub TF st' -> in_cdata st = false ->
      cur_tag st = (if first then ctag_of par else None) -> dcur_ok first par dst me ->
      S.ds_tagcp dst = tagcp st -> S.ds_attrcp dst = attrcp st ->
      abs_seq (abs_node5 tbl e) par ns st = Some (items, st') ->
      exists evs dst', D1.den_items (S.mk_denv L tb) d me items dst = Some (evs, dst') /\
        merge_chars evs = merge_chars (kids_events5 acan tev (has_attr_table e) par first ns) /\
        S.ds_tagcp dst' = tagcp st' /\ S.ds_attrcp dst' = attrcp st' /\ in_cdata st' = false.
  Proof.
    induction 1 as [|x r Hx _ IH]; intros first par d me st items st' dst HT0 Hsub Hic Hc Hd H1 H2; cbn [abs_seq kids_events5].
    - intros E; injection E as <- <-. exists [], dst. cbn. auto.
    - cbn [kids_ok5] in HT0. apply andb_true_iff in HT0 as [HT1 HT2].
      destruct (abs_node5 tbl e par x st) as [[a sa]|] eqn:A; [|discriminate].
      destruct (abs_seq (abs_node5 tbl e) par r sa) as [[b sb]|] eqn:B; [|discriminate]. intros E; injection E as <- <-.
      assert (Hsa : sub TF sa) by (exact (sub_ext _ _ _ (abs_seq5_ext _ _ _ _ _ B) Hsub)).
      destruct (Hx first par d me st a sa dst HT1 Hsa Hic Hc Hd H1 H2 A) as (ev1 & dst1 & D1' & M1 & P1 & P2 & C1 & I1).
      assert (Hd1 : dcur_ok false par dst1 me) by (intros Hf; discriminate).
      destruct (IH false par d me sa b sb dst1 HT2 Hsub I1 C1 Hd1 P1 P2 B) as (ev2 & dst2 & D2' & M2 & Q1 & Q2 & I2).
      exists (ev1 ++ ev2), dst2. split; [eapply D1.den_items_app; eassumption|]. split; [|auto].
      now apply merge_app_congr.
  Qed.

  Lemma all_node_den5 n : node_den5 n.
  Proof.
    induction n as [tag attrs ch IH|c|ch IH| |lid roots IH] using node_ind';
      intros first par d me st items st' dst HT0 Hsub Hic Hc Hdc H1 H2; cbn [tree_ok5] in HT0; try discriminate.
    - apply andb_true_iff in HT0 as [HT0 HTch]. apply andb_true_iff in HT0 as [HT0 HTa]. apply andb_true_iff in HT0 as [Hd Htag].
      fold (kids_ok5 L aok tok (d + 1) (Some tag)) in HTch.
      cbn [abs_node5 events5]. fold (kids_events5 acan tev (has_attr_table e) (Some tag)).
      destruct (abs_tag e st tag (nonempty attrs) (nonempty ch)) as [[[sw wtag] st1]|] eqn:AT; [|discriminate].
      destruct (if has_attr_table e then abs_attrs5 e st1 attrs attrs else Some ([], st1)) as [[ws st2]|] eqn:AA; [|discriminate].
      destruct (abs_seq (abs_node5 tbl e) (Some tag) ch st2) as [[its st3]|] eqn:AS; [|discriminate].
      intros E; injection E as <- <-.
      assert (Hs3 : sub TF st3) by exact Hsub.
      assert (Hs2 : sub TF st2) by (exact (sub_ext _ _ _ (abs_seq5_ext _ _ _ _ _ AS) Hs3)).
      assert (Hs1 : sub TF st1).
      { destruct (has_attr_table e); [exact (sub_ext _ _ _ (proj1 (abs_attrs5_facts _ _ _ _ _ _ AA)) Hs2)|injection AA as _ <-; exact Hs2]. }
      destruct (tag_den3 L e HE TF tb HRES HU32 st tag _ _ sw wtag st1 dst Htag Hs1 H1 H2 AT) as (Hsw & me1 & dst0 & NM & R1 & R2).
      (* encoder and decoder state after the tag *)
      assert (C1 : cur_tag st1 = ctag_of (Some tag) /\ in_cdata st1 = false /\ dcur_ok true (Some tag) dst0 me1).
      { unfold abs_tag in AT. unfold named_of in NM. destruct tag as [p t o nm|nm]; cbn [tag_triple] in AT.
        - unfold tag_cond in Htag. apply andb_true_iff in Htag as [Htag Hlk]. apply andb_true_iff in Htag as [Htag Hp].
          rewrite Htag in AT. apply andb_true_iff in Htag as [H5 H64].
          assert (Hz : (t =? 0) = false) by (apply N.eqb_neq; apply N.leb_le in H5; lia). rewrite Hz in AT.
          injection AT as <- <- <-. split; [reflexivity|]. split; [exact Hic|].
          unfold S.tag_tok_okb in NM. rewrite H5, H64 in NM. cbn [andb S.de_lang] in NM.
          destruct (S.lookup_tag L p t) as [r0|] eqn:LK0; [|discriminate].
          apply andb_true_iff in Hlk as [Hlk _]. apply andb_true_iff in Hlk as [Hrp Hrt]. apply N.eqb_eq in Hrp, Hrt.
          assert (Htc : S.ds_tagcp (S.apply_sw P.TagSpace (if tagcp st =? p then None else Some p) dst) = p).
          { rewrite <- H1. destruct (S.ds_tagcp dst =? p) eqn:Eq; cbn; [now apply N.eqb_eq in Eq|reflexivity]. }
          cbn [tagcp set_cur_tag] in NM. rewrite Htc, LK0, Hrp, Hrt in NM.
          intros _ p' t' o' nm' Ep. injection Ep as <- <- <- <-.
          split; [inversion NM; reflexivity|congruence].
        - unfold tag_cond in Htag. apply andb_true_iff in Htag as [_ Hun].
          rewrite (lit_unknown_none e nm (tagcp st) (unknown_lit L e HE nm Hun)) in AT. cbn [N.eqb] in AT.
          destruct (e_use_strtbl e); [|discriminate]. destruct (strtbl_add _ _ _) as [[? ?] ?].
          injection AT as _ _ <-. split; [reflexivity|]. split; [exact Hic|]. intros _ p' t' o' nm' Ep. discriminate. }
      destruct C1 as (C1 & I1 & DC1).
      assert (ATT : exists dst2, S.den_attrs (S.mk_denv L tb) ws dst0 = Some (if (has_attr_table e) then map (attr_event5 acan) attrs else [], dst2) /\
                     S.ds_attrcp dst2 = attrcp st2 /\ S.ds_tagcp dst2 = tagcp st2 /\ cur_tag st2 = ctag_of (Some tag) /\ in_cdata st2 = false /\
                     S.ds_cur dst2 = S.ds_cur dst0).
      { destruct (has_attr_table e).
        - destruct (HA attrs st1 attrs ws st2 dst0 Hs2 HTa I1 R2 AA) as (dst2 & DA & A2 & B2 & C2 & T2 & K2 & I2).
          exists dst2. split; [exact DA|]. split; [exact A2|]. split; [congruence|]. split; [congruence|]. split; [exact I2|exact C2].
        - injection AA as <- <-. exists dst0. split; [reflexivity|]. auto 6. }
      destruct ATT as (dst2 & DA & A2 & B2 & C2 & I2 & DC2).
      assert (Hd2 : dcur_ok true (Some tag) dst2 me1).
      { intros Hf p t o nm Ep. rewrite DC2. exact (DC1 Hf p t o nm Ep). }
      destruct (seq_den5 ch IH true (Some tag) (d + 1) me1 st2 its st3 dst2 HTch Hs3 I2 C2 Hd2 B2 A2 AS) as (evk & dst3 & D3 & M3 & P1 & P2 & I3).
      assert (KIDS : if nonempty ch then D1.den_items (S.mk_denv L tb) (d + 1) me1 its dst2 = Some (evk, dst3)
                     else its = [] /\ evk = [] /\ dst3 = dst2).
      { destruct ch as [|c0 ch0]; cbn [nonempty]; [|exact D3].
        cbn [abs_seq] in AS. injection AS as <- <-. cbn [D1.den_items] in D3. injection D3 as <- <-. auto. }
      pose proof (den_elt_intro (S.mk_denv L tb) d me sw wtag ws (nonempty ch) its dst _ _ _ _ _ _ _ Hsw Hd NM DA KIDS) as DI.
      eexists _, (S.set_dcur dst3 None). split.
      + cbn [D1.den_items]. rewrite DI. reflexivity.
      + split; [|cbn; auto].
        rewrite !app_nil_r. cbn [merge_chars]. f_equal.
        apply merge_app_congr; [exact M3|reflexivity].
    - cbn [abs_node5 events5].
      destruct (abs_text5 e st par c) as [[its st1]|] eqn:AT; [|discriminate]. intros E; injection E as <- <-.
      destruct (HT first st par c its st1 d me dst Hsub Hic Hc Hdc HT0 AT) as (evs & Dn & M & T1 & T2 & I1).
      exists evs, dst. split; [exact Dn|]. split; [exact M|]. cbn. rewrite T1, T2. auto.
  Qed.
End G5.

(* ================================================================================================================================ *)
(* the class "no typed content": plain languages + SI 1.0 + EMN 1.0 (%Datetime attributes)                                          *)

Definition class5 (e : env) : bool :=
  let l := e_lang e in
  negb (is_wv l) && negb (bl_id l =? LANG_DRMREL10) && negb (is_syncml l) && negb (bl_id l =? LANG_OTA_SETTINGS).

Lemma class5_split e : class5 e = true ->
  is_wv (e_lang e) = false /\ (bl_id (e_lang e) =? LANG_DRMREL10) = false /\ is_syncml (e_lang e) = false /\
  (bl_id (e_lang e) =? LANG_OTA_SETTINGS) = false.
Proof.
  unfold class5. cbv zeta. intros H. repeat (apply andb_true_iff in H; destruct H as [H ?]).
  repeat match goal with X : negb _ = true |- _ => apply negb_true_iff in X end. auto.
Qed.

(* the canonical text of a %Datetime value: what the decoder prints for what the encoder writes (the instant it denotes) *)
Definition canon_dt (v : bytes) : option bytes :=
  match dt_payload v with
  | Some [] => Some []
  | Some d => S.spec_datetime d
  | None => None
  end.

Definition is_dt_attr (L : lang) (a : attr) : bool :=
  match at_name a with AttrTok p t _ _ => S.is_datetime_attr (l_id L) p t | AttrLit _ => false end.

Definition acan_dt (L : lang) (a : attr) : bytes :=
  if is_dt_attr L a then match canon_dt (at_value a) with Some o => o | None => [] end else at_value a.

Definition aok_dt (L : lang) (a : attr) : bool :=
  attr_ok3 L a &&
  (if is_dt_attr L a then
     match at_name a with AttrTok _ _ _ None => true | _ => false end &&
     match canon_dt (at_value a) with Some _ => true | None => false end
   else true).

Definition tok_plain (first : bool) (par : option tagname) (c : bytes) : bool :=
  if tag_bin par then S.bytes_okb c && (len c <? 4294967296) else okb c.
Definition tev_plain (keep wa first : bool) (par : option tagname) (c : bytes) : list P.event :=
  if tag_bin par then chars c else flat_map (events3 wa) (norm_text keep false c).

Definition dt_ca (L : lang) (ca : option (N * N)) : bool :=
  match ca with Some (p, t) => S.is_datetime_attr (l_id L) p t | None => false end.

Lemma spec_datetime_facts d o : S.spec_datetime d = Some o -> S.bytes_okb d = true /\ (List.length d <= 7)%nat.
Proof.
  unfold S.spec_datetime. destruct (S.bytes_okb d); [|discriminate]. cbn [negb]. intros H. split; [reflexivity|].
  do 8 (destruct d as [|? d]; [cbn [List.length]; lia|]). exfalso. cbn in H. discriminate.
Qed.

Section Dt.
  Variable L : lang.
  Variable e : env.
  Hypothesis HE : e_lang e = to_blang L.
  (* attributes: any language but OTA settings; text: any language without typed content *)
  Hypothesis HNO : (bl_id (e_lang e) =? LANG_OTA_SETTINGS) = false.
  Hypothesis HCP : is_wv (e_lang e) = false /\ (bl_id (e_lang e) =? LANG_DRMREL10) = false /\ is_syncml (e_lang e) = false.
  Hypothesis HV : vals_ok L = true.
  Hypothesis HX : l_exts L = None.
  Hypothesis Hopts : e_ignore_empty e = e_remove_blanks e.
  Variable TF : list ste.
  Variable tb : bytes.
  Hypothesis HRES : forall x, In x TF -> okb (s_str x) = true -> S.str_at tb (s_off x) = Some (s_str x).
  Hypothesis HU32 : forall x, In x TF -> S.u32_okb (s_off x) = true.
  Hypothesis HREF : forall x, In x TF -> ref_str TF (s_off x) = s_str x.

  Lemma lid_eq : bl_id (e_lang e) = l_id L.
  Proof. now rewrite HE. Qed.

  Lemma special_attr_dt st ca na buf :
    abs_special_attr e st true ca na buf = if dt_ca L ca then Some (option_map wopq (dt_payload buf)) else None.
  Proof.
    pose proof HNO as Hota.
    unfold abs_special_attr, dt_ca, S.is_datetime_attr. cbv zeta. rewrite lid_eq in Hota |- *.
    unfold LANG_SI10, LANG_EMN10, LANG_OTA_SETTINGS in Hota |- *.
    destruct (l_id L =? 1301) eqn:E1.
    - apply N.eqb_eq in E1. rewrite E1. cbn [N.eqb Pos.eqb andb orb].
      destruct ca as [[p t]|]; [|reflexivity]. destruct p; [|reflexivity]. cbn [N.eqb andb]. rewrite orb_false_r. reflexivity.
    - destruct (l_id L =? 1701) eqn:E2.
      + cbn [andb orb]. destruct ca as [[p t]|]; [|reflexivity]. destruct p; [|reflexivity]. cbn [N.eqb andb].
        destruct t as [|t]; [reflexivity|]. repeat (destruct t as [t|t|]; try reflexivity).
      + rewrite Hota. cbn [andb orb]. destruct ca as [[p t]|]; reflexivity.
  Qed.

  Lemma abs_value5_attr_plain st ca na buf : dt_ca L ca = false -> abs_value5 e st true ca na None buf = abs_value e st true buf.
  Proof.
    intros H. unfold abs_value5, abs_value. destruct buf as [|c0 buf]; [reflexivity|].
    rewrite special_attr_dt, H. unfold abs_special_content, the_buffer_of. cbv zeta. cbn [negb andb]. reflexivity.
  Qed.

  Lemma abs_value5_content_plain st par buf : in_cdata st = false -> abs_value5 e st false None [] par buf = abs_value e st false buf.
  Proof.
    intros Hic. destruct HCP as (Hw & Hd & Hs).
    unfold abs_value5, abs_value. destruct buf as [|c0 buf]; [reflexivity|].
    unfold abs_special_attr, abs_special_content, the_buffer_of. cbv zeta. rewrite Hic, Hw, Hd, Hs. cbn [negb andb]. reflexivity.
  Qed.

  (* the current attribute of a start of the fragment is a %Datetime attribute iff the attribute is one *)
  Lemma start_dt st a start vl st1 : attr_ok3 L a = true -> abs_attr_start e st a = Some (start, vl, st1) ->
    dt_ca L (start_cur_attr start st1) = is_dt_attr L a.
  Proof.
    intros Ha AS. unfold abs_attr_start in AS. cbv zeta in AS. unfold is_dt_attr.
    unfold attr_ok3 in Ha. apply andb_true_iff in Ha as [Hval Ha]. pose proof (okb_cstr _ Hval) as Hc.
    assert (LT : forall nm vl0, (if e_use_strtbl e then
                  let '(idx, tbl', tlen') := strtbl_add (strtbl st) (strtbl_len st) (cstr nm) in
                  Some (S.AStartLit idx, vl0, set_strtbl st tbl' tlen') else None) = Some (start, vl, st1) ->
                dt_ca L (start_cur_attr start st1) = false).
    { intros nm vl0. destruct (e_use_strtbl e); [|discriminate]. destruct (strtbl_add _ _ _) as [[idx t'] l'].
      intros E; injection E as <- _ _. reflexivity. }
    destruct (at_name a) as [page tk nm oval|nm].
    - assert (TK : forall lft, Some (S.AStartTok (if attrcp st =? page then None else Some page) tk, lft, snd (enc_attr_token st tk page)) = Some (start, vl, st1) ->
                   dt_ca L (start_cur_attr start st1) = S.is_datetime_attr (l_id L) page tk).
      { intros lft E; injection E as <- _ <-. cbn [start_cur_attr dt_ca]. now rewrite attr_token_cp. }
      destruct oval as [xv|].
      + destruct (is_prefix xv (cstr (at_value a))) eqn:PX; [exact (TK _ AS)|].
        exfalso. rewrite Hc in PX.
        apply andb_true_iff in Ha as [_ Ha]. destruct (S.lookup_attr L page tk) as [r|]; [|discriminate].
        apply andb_true_iff in Ha as [_ Ha]. destruct (a_value r); [|discriminate].
        apply andb_true_iff in Ha as [_ Ha]. congruence.
      + exact (TK _ AS).
    - apply andb_true_iff in Ha as [_ Hun]. rewrite HE, Hc in AS.
      destruct (get_attr_from_xml (to_blang L) nm (at_value a)); [discriminate|]. exact (LT _ _ AS).
  Qed.

  Lemma abs_attr5_plain st na a : attr_ok3 L a = true -> is_dt_attr L a = false -> abs_attr5 e st na a = abs_attr e st a.
  Proof.
    intros Ha Hn. unfold abs_attr5, abs_attr. destruct (abs_attr_start e st a) as [[[start vl] st1]|] eqn:AS; [|reflexivity].
    destruct vl as [v|]; [|reflexivity]. rewrite abs_value5_attr_plain; [reflexivity|].
    rewrite (start_dt st a start (Some v) st1 Ha AS). exact Hn.
  Qed.

  Lemma den_one_attr5 st na a w st' (dst : S.dstate) :
    sub TF st' -> aok_dt L a = true -> in_cdata st = false -> S.ds_attrcp dst = attrcp st ->
    abs_attr5 e st na a = Some (w, st') ->
    exists dst', S.den_attr (S.mk_denv L tb) w dst = Some (attr_event5 (acan_dt L) a, dst') /\ S.ds_attrcp dst' = attrcp st' /\
                 S.ds_tagcp dst' = S.ds_tagcp dst /\ S.ds_cur dst' = S.ds_cur dst /\
                 tagcp st' = tagcp st /\ cur_tag st' = cur_tag st /\ in_cdata st' = false.
  Proof.
    clear HCP. intros Hsub Hok Hic Hcp. unfold aok_dt in Hok. apply andb_true_iff in Hok as [Ha Hdt].
    unfold attr_event5, acan_dt. destruct (is_dt_attr L a) eqn:DT.
    - (* %Datetime attribute: token start without prefix, OPAQUE BCD *)
      apply andb_true_iff in Hdt as [Hnone Hcan].
      unfold is_dt_attr in DT. unfold abs_attr5, abs_attr_start, attr_event. cbv zeta.
      unfold attr_ok3 in Ha. apply andb_true_iff in Ha as [Hval Ha]. rewrite (okb_cstr _ Hval).
      destruct (at_name a) as [p t nm oval|nm]; [|discriminate]. destruct oval as [xv|]; [discriminate|]. cbn [fst].
      apply andb_true_iff in Ha as [Ha Hlk]. apply andb_true_iff in Ha as [Htok Hpage].
      destruct (S.lookup_attr L p t) as [r|] eqn:LK; [|discriminate].
      apply andb_true_iff in Hlk as [Hlk Hvv]. apply andb_true_iff in Hlk as [Hlk Hn]. apply andb_true_iff in Hlk as [Hrp Hrt].
      apply N.eqb_eq in Hrp, Hrt. apply beq_eq in Hn. destruct (a_value r) eqn:RV; [discriminate|].
      set (sw := if attrcp st =? p then None else Some p).
      set (st1 := snd (enc_attr_token st t p)).
      assert (Hst1 : attrcp st1 = p /\ tagcp st1 = tagcp st /\ cur_tag st1 = cur_tag st /\ in_cdata st1 = in_cdata st).
      { subst st1. unfold enc_attr_token. destruct (attrcp st =? p) eqn:Eq; cbn; [apply N.eqb_eq in Eq|]; auto. }
      destruct Hst1 as (Q1 & Q2 & Q3 & Q4).
      assert (START : exists dst1, S.den_astart (S.mk_denv L tb) (S.AStartTok sw t) dst = Some (P.AttrTok p t nm, [], dst1) /\
                       S.ds_attrcp dst1 = p /\ S.ds_tagcp dst1 = S.ds_tagcp dst /\ S.ds_cur dst1 = S.ds_cur dst).
      { subst sw. rewrite <- Hcp. cbn [S.den_astart]. destruct (S.ds_attrcp dst =? p) eqn:Eq.
        - apply N.eqb_eq in Eq. exists dst. cbn [S.sw_okb S.apply_sw andb]. rewrite Htok. cbn [S.de_lang].
          rewrite Eq, LK, Hrp, Hrt, Hn, RV. auto.
        - eexists. cbn [S.sw_okb S.apply_sw S.ds_attrcp]. unfold S.is_byte. rewrite Hpage, Htok. cbn [andb].
          cbn [S.de_lang]. rewrite LK, Hrp, Hrt, Hn, RV. split; [reflexivity|]. cbn. auto. }
      destruct START as (dst1 & DS & A1 & B1 & C1).
      unfold abs_value5. cbn [start_cur_attr]. fold st1. rewrite Q1.
      destruct (at_value a) as [|x s] eqn:EV.
      + (* empty value: no value item at all *)
        intros E; injection E as <- <-. exists dst1.
        split; [|rewrite Q1, Q2, Q3, Q4; auto 8].
        unfold S.den_attr, S.den_attr_raw. cbn [S.wa_start S.wa_vals S.den_vals]. rewrite DS. cbn [app].
        unfold canon_dt in Hcan |- *. destruct (dt_payload []) as [[|? ?]|] eqn:P0; try reflexivity; vm_compute in P0; discriminate.
      + rewrite special_attr_dt. cbn [dt_ca]. rewrite DT. unfold canon_dt in Hcan |- *.
        destruct (dt_payload (x :: s)) as [d|] eqn:PD; [|discriminate]. cbn [option_map].
        intros E; injection E as <- <-. exists dst1. split; [|rewrite Q1, Q2, Q3, Q4; auto 8].
        pose proof HNO as Hota. rewrite lid_eq in Hota. unfold LANG_OTA_SETTINGS in Hota.
        unfold S.den_attr, S.den_attr_raw. cbn [S.wa_start S.wa_vals wopq S.den_vals S.den_val S.den_str S.de_lang]. rewrite DS.
        destruct d as [|d0 dr].
        * cbn [S.bytes_okb forallb Parser.blen List.length andb]. rewrite Hota. reflexivity.
        * destruct (S.spec_datetime (d0 :: dr)) as [o|] eqn:SD; [|discriminate].
          destruct (spec_datetime_facts _ _ SD) as [Hb Hl]. rewrite Hb.
          replace (S.u32_okb (Parser.blen (d0 :: dr))) with true
            by (symmetry; unfold S.u32_okb, Parser.blen; apply N.ltb_lt; lia).
          cbn [andb]. rewrite Hota. cbn [app]. rewrite app_nil_r, DT, SD. reflexivity.
    - (* any other attribute: the generic path *)
      rewrite (abs_attr5_plain st na a Ha DT). intros A.
      assert (Hnd : match at_name a with AttrTok p t _ _ => S.is_datetime_attr (l_id L) p t = false | AttrLit _ => True end)
        by (unfold is_dt_attr in DT; destruct (at_name a); [exact DT|exact I]).
      destruct (den_one_attr3 L e HE HV HX TF tb HRES HU32 HREF st a w st' dst Hsub Ha Hcp Hnd A) as (dst' & D & A1 & B1 & C1).
      exists dst'. split; [exact D|]. destruct (abs_attr_inv _ _ _ _ _ A) as [I1 I2].
      rewrite (abs_attr_tagcp _ _ _ _ _ A). repeat split; congruence.
  Qed.

  Lemma den_all_attrs5 l : forall st na ws st' (dst : S.dstate),
    sub TF st' -> forallb (aok_dt L) l = true -> in_cdata st = false -> S.ds_attrcp dst = attrcp st ->
    abs_attrs5 e st na l = Some (ws, st') ->
    exists dst', S.den_attrs (S.mk_denv L tb) ws dst = Some (map (attr_event5 (acan_dt L)) l, dst') /\
                 S.ds_attrcp dst' = attrcp st' /\ S.ds_tagcp dst' = S.ds_tagcp dst /\ S.ds_cur dst' = S.ds_cur dst /\
                 tagcp st' = tagcp st /\ cur_tag st' = cur_tag st /\ in_cdata st' = false.
  Proof.
    clear HCP. induction l as [|a r IH]; intros st na ws st' dst Hs Hok Hic Hcp; cbn [abs_attrs5 map].
    - intros E; injection E as <- <-. exists dst. cbn. auto 8.
    - cbn [forallb] in Hok. apply andb_true_iff in Hok as [Ha Hr].
      destruct (abs_attr5 e st na a) as [[w st1]|] eqn:A; [|discriminate].
      destruct (abs_attrs5 e st1 na r) as [[ws' st2]|] eqn:R; [|discriminate]. intros E; injection E as <- <-.
      assert (Hs1 : sub TF st1) by (apply (sub_ext _ _ _ (proj1 (abs_attrs5_facts _ _ _ _ _ _ R))); exact Hs).
      destruct (den_one_attr5 st na a w st1 dst Hs1 Ha Hic Hcp A) as (dst1 & D1' & A1 & B1 & C1 & T1 & K1 & I1).
      destruct (IH st1 na ws' st2 dst1 Hs Hr I1 A1 R) as (dst2 & D2' & A2 & B2 & C2 & T2 & K2 & I2).
      exists dst2. cbn [S.den_attrs]. rewrite D1', D2'. unfold attr_event5 at 1. cbn [fst snd].
      repeat split; congruence.
  Qed.

  Lemma cur_first_ok (first : bool) st par : cur_tag st = (if first then ctag_of par else None) -> cur_ok st par.
  Proof.
    unfold cur_ok. intros ->. destruct first; [|exact I]. destruct par as [[p t o nm|nm]|]; cbn; auto.
  Qed.

  Lemma text_den5 (first : bool) st par c items st' d me (dst : S.dstate) :
    sub TF st' -> in_cdata st = false -> cur_tag st = (if first then ctag_of par else None) -> dcur_ok first par dst me ->
    tok_plain first par c = true -> abs_text5 e st par c = Some (items, st') ->
    exists evs, D1.den_items (S.mk_denv L tb) d me items dst = Some (evs, dst) /\
                merge_chars evs = merge_chars (tev_plain (negb (e_remove_blanks e)) (has_attr_table e) first par c) /\
                tagcp st' = tagcp st /\ attrcp st' = attrcp st /\ in_cdata st' = false.
  Proof.
    intros Hsub Hic Hc _ Hok. unfold abs_text5, tok_plain, tev_plain in *.
    pose proof (binary_is st par (cur_first_ok first st par Hc)) as HB. rewrite HB. destruct (tag_bin par).
    - apply andb_true_iff in Hok as [Hb Hl]. intros E; injection E as <- <-.
      exists (chars c). split; [|auto].
      cbn [D1.den_items S.den_item S.den_str S.de_lang]. rewrite Hb.
      replace (S.u32_okb (Parser.blen c)) with true by (symmetry; exact Hl). cbn [andb].
      destruct HCP as (Hw & Hd & Hs).
      assert (PO : forall x, S.opaque_kind (l_id L) x = S.OPlain).
      { intros x. rewrite HE in Hw, Hd, Hs.
        unfold is_wv, is_syncml, LANG_WV_CSP11, LANG_WV_CSP12, LANG_DRMREL10, LANG_SYNCML10, LANG_SYNCML11, LANG_SYNCML12 in *.
        cbn [to_blang bl_id] in *. unfold S.opaque_kind. destruct x as [q|]; [|reflexivity]. now rewrite Hw, Hd, Hs. }
      rewrite !PO. cbn [S.okind_eqb S.spec_opaque]. rewrite app_nil_r. reflexivity.
    - intros A.
      assert (A' : abs_text e st par c = Some (items, st')).
      { unfold abs_text. rewrite HB. revert A. rewrite Hic. cbn [negb andb].
        destruct (e_ignore_empty e && only_ws c); [auto|]. cbv zeta. cbn [negb andb].
        rewrite (abs_value5_content_plain st par _ Hic). auto. }
      destruct (text_den3 L e HE HV HX Hopts TF tb HRES HU32 HREF st par c items st' d me dst Hsub Hok A') as (evs & Dn & M & T1 & T2).
      exists evs. split; [exact Dn|]. split; [exact M|]. split; [exact T1|]. split; [exact T2|].
      unfold abs_text in A'. destruct (is_binary_tag st par); [discriminate|]. rewrite Hic in A'. cbn [negb andb] in A'.
      destruct (e_ignore_empty e && only_ws c); [injection A' as _ <-; exact Hic|].
      destruct (abs_value e st false _) as [[w st0]|] eqn:AV; [|discriminate]. injection A' as _ <-.
      destruct (abs_value_inv _ _ _ _ _ _ AV) as [I1 _]. congruence.
  Qed.
End Dt.

(* ---- the table keeps octets < 256 (any class whose attributes are attr_ok3 and whose texts are octets < 256) ------------------- *)
Section Lt5.
  Variable tbl : list blang.
  Variable L : lang.
  Variable e : env.
  Variable aok : attr -> bool.
  Variable tok : bool -> option tagname -> bytes -> bool.
  Hypothesis Haok : forall a, aok a = true -> attr_ok3 L a = true.
  Hypothesis Htok : forall f p c, tok f p c = true -> allc S.is_byte c = true.

  Lemma aoks_ok3 l : forallb aok l = true -> forallb (attr_ok3 L) l = true.
  Proof. intros H. apply forallb_forall. intros a Ha. rewrite forallb_forall in H. exact (Haok a (H a Ha)). Qed.

  Lemma collect_node_lt5 l : forall n d f p, tree_ok5 L aok tok d f p n = true -> forallb (allc S.is_byte) (collect_node l n) = true.
  Proof.
    induction n as [tag attrs ch IH|c|ch IH| |lid roots IH] using node_ind'; intros d f p H; cbn [tree_ok5] in H; try discriminate.
    - apply andb_true_iff in H as [H Hch]. apply andb_true_iff in H as [_ Hat]. fold (kids_ok5 L aok tok (d + 1) (Some tag)) in Hch.
      cbn [collect_node]. rewrite forallb_app. apply andb_true_iff. split.
      + apply aoks_ok3 in Hat. clear -Hat. induction attrs as [|a r IHa]; [reflexivity|]. cbn [forallb flat_map] in *.
        apply andb_true_iff in Hat as [H1 H2]. now rewrite forallb_app, (collect_attr_lt l L a H1), IHa.
      + assert (K : forall f0, kids_ok5 L aok tok (d + 1) (Some tag) f0 ch = true -> forallb (allc S.is_byte) (flat_map (collect_node l) ch) = true).
        { clear Hch. induction IH as [|x r Hx _ IHr]; intros f0 Hch; [reflexivity|]. cbn [kids_ok5 forallb flat_map] in *.
          apply andb_true_iff in Hch as [H1 H2]. now rewrite forallb_app, (Hx _ _ _ H1), (IHr _ H2). }
        exact (K true Hch).
    - cbn [collect_node]. destruct (only_ws c); [reflexivity|]. destruct (3 <? len c); [|reflexivity]. cbn [forallb]. rewrite andb_true_r.
      exact (Htok _ _ _ H).
  Qed.

  Lemma start_state_lt5 root d : tree_ok5 L aok tok d true None root = true -> tbl_lt (strtbl (start_state e [root])) = true.
  Proof.
    intros H. unfold start_state. destruct (e_use_strtbl e); [|reflexivity].
    destruct (strtbl_initialize (e_lang e) [root]) as [t n] eqn:I. cbn.
    apply (strtbl_initialize_all S.is_byte (e_lang e) [root] t n); [|exact I].
    unfold collect_nodes. cbn [flat_map]. rewrite app_nil_r. exact (collect_node_lt5 _ root d true None H).
  Qed.

  Lemma abs_attrs5_lt l : forall st na ws st', forallb (attr_ok3 L) l = true -> tbl_lt (strtbl st) = true ->
    abs_attrs5 e st na l = Some (ws, st') -> tbl_lt (strtbl st') = true.
  Proof.
    induction l as [|a r IH]; intros st na ws st' Hl Ht; cbn [abs_attrs5]; [intros E; injection E as _ <-; exact Ht|].
    cbn [forallb] in Hl. apply andb_true_iff in Hl as [H1 H2].
    destruct (abs_attr5 e st na a) as [[w st1]|] eqn:A; [|discriminate].
    destruct (abs_attrs5 e st1 na r) as [[ws' st2]|] eqn:R; [|discriminate]. intros E; injection E as _ <-.
    refine (IH _ _ _ _ H2 _ R). unfold abs_attr5 in A.
    destruct (abs_attr_start e st a) as [[[start vl] s1]|] eqn:AS; [|discriminate].
    pose proof (abs_attr_start_all S.is_byte okb_lt _ _ _ _ _ _ _ H1 Ht AS) as T1.
    destruct vl as [v|]; [|injection A as _ <-; exact T1].
    destruct (abs_value5 e s1 true _ na None v) as [[w0 s2]|] eqn:AV; [|discriminate]. injection A as _ <-.
    destruct (abs_value5_facts _ _ _ _ _ _ _ _ _ AV) as [[S1 _] _]. unfold tbl_lt in *. now rewrite S1.
  Qed.

  Lemma abs_node5_lt : forall n par f d st items st', tree_ok5 L aok tok d f par n = true -> tbl_lt (strtbl st) = true ->
    abs_node5 tbl e par n st = Some (items, st') -> tbl_lt (strtbl st') = true.
  Proof.
    induction n as [tag attrs ch IH|c|ch IH| |lid roots IH] using node_ind'; intros par f d st items st' HT Ht; cbn [tree_ok5] in HT; try discriminate;
      cbn [abs_node5].
    - apply andb_true_iff in HT as [HT Hch]. apply andb_true_iff in HT as [HT Hat]. apply andb_true_iff in HT as [_ Htag].
      fold (kids_ok5 L aok tok (d + 1) (Some tag)) in Hch.
      destruct (abs_tag e st tag _ _) as [[[sw wtag] st1]|] eqn:AT; [|discriminate].
      destruct (if has_attr_table e then abs_attrs5 e st1 attrs attrs else Some ([], st1)) as [[ws st2]|] eqn:AA; [|discriminate].
      destruct (abs_seq (abs_node5 tbl e) (Some tag) ch st2) as [[its st3]|] eqn:AS; [|discriminate].
      intros E; injection E as _ <-. cbn [strtbl set_cur_tag].
      assert (T1 : tbl_lt (strtbl st1) = true).
      { refine (abs_tag_all S.is_byte okb_lt _ _ _ _ _ _ _ _ _ Ht AT). unfold tag_cond in Htag. destruct tag as [p t o nm|nm].
        - repeat (apply andb_true_iff in Htag; destruct Htag as [Htag ?]). apply N.eqb_neq. apply N.leb_le in Htag. lia.
        - now apply andb_true_iff in Htag as [Htag _]. }
      assert (T2 : tbl_lt (strtbl st2) = true).
      { destruct (has_attr_table e); [exact (abs_attrs5_lt _ _ _ _ _ (aoks_ok3 _ Hat) T1 AA)|now injection AA as _ <-]. }
      assert (K : forall f0 st2 its st3, tbl_lt (strtbl st2) = true -> abs_seq (abs_node5 tbl e) (Some tag) ch st2 = Some (its, st3) ->
                  kids_ok5 L aok tok (d + 1) (Some tag) f0 ch = true -> tbl_lt (strtbl st3) = true).
      { clear AT AA AS Hch T2. induction IH as [|x r Hx _ IHr]; intros f0 s2 its0 s3 T2; cbn [abs_seq].
        - intros E _; injection E as _ <-. exact T2.
        - cbn [kids_ok5]. destruct (abs_node5 tbl e (Some tag) x s2) as [[a sa]|] eqn:A; [|discriminate].
          destruct (abs_seq (abs_node5 tbl e) (Some tag) r sa) as [[b sb]|] eqn:B; [|discriminate]. intros E Hk; injection E as _ <-.
          apply andb_true_iff in Hk as [H1 H2].
          exact (IHr false _ _ _ (Hx _ _ _ _ _ _ H1 T2 A) B H2). }
      exact (K true _ _ _ T2 AS Hch).
    - destruct (abs_text5 e st par c) as [[its st1]|] eqn:AT; [|discriminate]. intros E; injection E as _ <-.
      destruct (abs_text5_facts _ _ _ _ _ _ AT) as [[S1 _] _]. cbn. unfold tbl_lt in *. now rewrite S1.
  Qed.

  Lemma tree_ok5_frag5 : forall n d f p, tree_ok5 L aok tok d f p n = true -> frag5_node n = true.
  Proof.
    induction n as [tag attrs ch IH|c|ch IH| |lid roots IH] using node_ind'; intros d f p H; cbn [tree_ok5] in H; try discriminate; [|reflexivity].
    apply andb_true_iff in H as [H Hch]. apply andb_true_iff in H as [H _]. apply andb_true_iff in H as [_ Htag].
    fold (kids_ok5 L aok tok (d + 1) (Some tag)) in Hch. cbn [frag5_node]. apply andb_true_iff. split.
    - unfold tag_cond in Htag. destruct tag as [p0 t o nm|nm]; [|reflexivity].
      apply andb_true_iff in Htag as [Htag _]. apply andb_true_iff in Htag as [Htag _]. unfold tok_ok. rewrite Htag. apply orb_true_r.
    - assert (K : forall f0, kids_ok5 L aok tok (d + 1) (Some tag) f0 ch = true -> forallb frag5_node ch = true).
      { clear Hch. induction IH as [|x r Hx _ IHr]; intros f0 Hch; [reflexivity|]. cbn [kids_ok5 forallb] in *.
        apply andb_true_iff in Hch as [H1 H2]. now rewrite (Hx _ _ _ H1), (IHr _ H2). }
      exact (K true Hch).
  Qed.
End Lt5.

(* ---- the document, class "no typed content" (plain + SI + EMN) ------------------------------------------------------------------ *)
Definition doc_events5 (L : lang) (e : env) (keep : bool) (root : node) : list P.event :=
  P.EvStartDoc 106 (l_id L)
    :: events5 (acan_dt L) (tev_plain keep (has_attr_table e)) (has_attr_table e) true None root ++ [P.EvEndDoc].

Theorem strict_decode_of_encoding5 tblb TBL L o tag attrs ch bs :
  let e := enc_env (to_blang L) o in
  class5 e = true -> vals_ok L = true -> l_exts L = None -> tag_tbl_ok e = true ->
  tree_ok5 L (aok_dt L) tok_plain 0 true None (NElt tag attrs ch) = true ->
  find (fun x => l_id x =? l_id L) TBL = Some L ->
  o_version o < 4 -> header_public_id e < 4294967296 -> header_public_id e <> 0 ->
  (match header_pid e with Some p => okb p = true | None => True end) ->
  len bs < 4294967296 ->
  enc_wbxml tblb (to_blang L) o [NElt tag attrs ch] = EOk bs ->
  exists d evs, bs = S.serialize d /\ S.strict_doc d = true /\
            S.denote_with TBL (Some L) d = Some evs /\ S.decode_lang TBL (l_id L) bs = Some evs /\
            merge_chars evs = merge_chars (doc_events5 L e (o_keep_ws o) (NElt tag attrs ch)).
Proof.
  cbv zeta. intros HC HV HX HTB HT HFind Hv Hp1 Hp0 Hpid Hlen E. set (e := enc_env (to_blang L) o) in *.
  assert (HE : e_lang e = to_blang L) by reflexivity.
  destruct (class5_split e HC) as (W1 & W2 & W3 & HNO5). pose proof (conj W1 (conj W2 W3)) as HCP5.
  assert (Haok : forall a, aok_dt L a = true -> attr_ok3 L a = true) by (intros a H; unfold aok_dt in H; now apply andb_true_iff in H as [H _]).
  assert (Htok : forall f p c, tok_plain f p c = true -> allc S.is_byte c = true).
  { intros f p c H. unfold tok_plain in H. destruct (tag_bin p); [now apply andb_true_iff in H as [H _]|exact (okb_lt _ H)]. }
  pose proof (tree_ok5_frag5 L (aok_dt L) tok_plain _ _ _ _ HT) as HF.
  destruct (enc_wbxml_full tblb (to_blang L) o tag attrs ch bs HTB HF E Hlen) as (body & st' & root & EB & AN & HS & Hstrict).
  fold e in AN, HS, Hstrict.
  assert (Hsz : if e_use_strtbl e then tbl_size (final_tbl e st') < 4294967296
                else match header_pid e with Some p => len p + 1 < 4294967296 | None => True end).
  { rewrite enc_wbxml_form_local, EB in E. injection E as <-. rewrite len_app in Hlen.
    pose proof (fill_header_len e st') as HL. fold e in Hlen.
    destruct (e_use_strtbl e); [lia|]. destruct (header_pid e); [lia|exact I]. }
  destruct (abs_node5_facts tblb e _ _ _ _ _ AN) as (_ & _ & Hsame).
  assert (NOTBL : e_use_strtbl e = false -> strtbl st' = [] /\ strtbl_len st' = 0).
  { intros HU. destruct (Hsame HU) as [S1 S2]. unfold start_state in S1, S2. rewrite HU in S1, S2. cbn in S1, S2. auto. }
  assert (TLT : tbl_lt (strtbl st') = true)
    by (exact (abs_node5_lt tblb L e (aok_dt L) tok_plain Haok Htok _ None true 0 _ _ _ HT (start_state_lt5 L e _ _ Haok Htok _ 0 HT) AN)).
  destruct (final_facts_gen tblb (to_blang L) o _ _ st' EB TLT NOTBL Hpid Hsz) as (G1 & G2 & G3 & G4 & G5 & G6 & G7 & G8 & G9).
  assert (Ho : e_ignore_empty e = e_remove_blanks e) by reflexivity.
  assert (Hk : negb (e_remove_blanks e) = o_keep_ws o) by (subst e; unfold enc_env, make_env; cbn; now rewrite negb_involutive).
  assert (Hst0 : tagcp (start_state e [NElt tag attrs ch]) = 0 /\ attrcp (start_state e [NElt tag attrs ch]) = 0 /\
                 cur_tag (start_state e [NElt tag attrs ch]) = None /\ in_cdata (start_state e [NElt tag attrs ch]) = false).
  { unfold start_state. destruct (e_use_strtbl e); [destruct (strtbl_initialize _ _)|]; cbn; auto. }
  destruct Hst0 as (Z2 & Z3 & Z4 & Z5).
  assert (Hdc : dcur_ok true None (S.mk_dstate 0 0 None) None) by (intros _ p t o0 nm Ep; discriminate).
  destruct (all_node_den5 tblb L e HE (final_tbl e st') (doc_strtbl e st') G1 G2 (aok_dt L) (acan_dt L) tok_plain
              (tev_plain (negb (e_remove_blanks e)) (has_attr_table e))
              (fun l st na ws st'0 dst => den_all_attrs5 L e HE HNO5 HV HX (final_tbl e st') (doc_strtbl e st') G1 G2 G3 l st na ws st'0 dst)
              (fun first st par c items st'0 d me dst => text_den5 L e HE HCP5 HV HX Ho (final_tbl e st') (doc_strtbl e st') G1 G2 G3 first st par c items st'0 d me dst)
              (NElt tag attrs ch) true None 0 None _ [root] st' (S.mk_dstate 0 0 None) HT G4 Z5 Z4 Hdc (eq_sym Z2) (eq_sym Z3) AN)
    as (evs & dst' & DN & MG & _).
  assert (Hden : exists evs', S.denote_with TBL (Some L) (abs_doc2 e st' root) = Some evs' /\
                              merge_chars evs' = merge_chars (doc_events5 L e (o_keep_ws o) (NElt tag attrs ch))).
  { cbn [abs_node5] in AN.
    destruct (abs_tag e _ tag _ _) as [[[sw wtag] st2]|]; [|discriminate].
    destruct (if has_attr_table e then abs_attrs5 e st2 attrs attrs else Some ([], st2)) as [[ws st3]|]; [|discriminate].
    destruct (abs_seq (abs_node5 tblb e) (Some tag) ch st3) as [[its st4]|]; [|discriminate]. injection AN as <- <-.
    eexists. split; [eapply doc_wrap; [exact DN|exact Hv|exact Hp1|exact Hp0|exact G5|exact G6|exact G7]|].
    unfold doc_events5. cbn [merge_chars]. f_equal.
    apply merge_app_congr; [|reflexivity]. rewrite MG, Hk. reflexivity. }
  destruct Hden as (evs' & Hden & MG').
  exists (abs_doc2 e st' root), evs'. split; [exact HS|]. split; [exact Hstrict|]. split; [exact Hden|]. split; [|exact MG'].
  rewrite HS. apply Proofs.ParserProofsStrict3.decode_lang_serialize; [|exact Hstrict]. rewrite HFind. exact Hden.
Qed.

(* C07 on this class: all 16 option tuples decode to merge_chars-equal event lists *)
Theorem options_decode_equal5 tblb TBL L v1 v2 s1 s2 a1 a2 k tag attrs ch bs1 bs2 :
  let o1 := mk_opts v1 s1 k a1 in let o2 := mk_opts v2 s2 k a2 in
  class5 (enc_env (to_blang L) o1) = true -> vals_ok L = true -> l_exts L = None -> tag_tbl_ok (enc_env (to_blang L) o1) = true ->
  tree_ok5 L (aok_dt L) tok_plain 0 true None (NElt tag attrs ch) = true ->
  find (fun x => l_id x =? l_id L) TBL = Some L ->
  v1 < 4 -> v2 < 4 -> l_pub_num L < 4294967296 -> l_pub_num L <> 0 ->
  (match l_pub_text L with Some p => okb (P.B p) = true | None => True end) ->
  len bs1 < 4294967296 -> len bs2 < 4294967296 ->
  enc_wbxml tblb (to_blang L) o1 [NElt tag attrs ch] = EOk bs1 ->
  enc_wbxml tblb (to_blang L) o2 [NElt tag attrs ch] = EOk bs2 ->
  exists ev1 ev2, S.decode_lang TBL (l_id L) bs1 = Some ev1 /\ S.decode_lang TBL (l_id L) bs2 = Some ev2 /\
                  merge_chars ev1 = merge_chars ev2.
Proof.
  cbv zeta. intros HC HV HX HTB HT HFind Hv1 Hv2 Hn1 Hn0 Hpt Hl1 Hl2 E1 E2.
  assert (PID : forall v s a, header_public_id (enc_env (to_blang L) (mk_opts v s k a)) < 4294967296 /\
                              header_public_id (enc_env (to_blang L) (mk_opts v s k a)) <> 0 /\
                              match header_pid (enc_env (to_blang L) (mk_opts v s k a)) with
                              | Some p => okb p = true | None => True end).
  { intros v s a. unfold header_public_id, header_pid, header_public_id. cbn [e_anonymous enc_env make_env e_lang to_blang bl_pub_num bl_pub_text o_anonymous].
    destruct a; cbn [negb andb].
    - rewrite andb_false_r. split; [lia|]. split; [lia|exact I].
    - split; [exact Hn1|]. split; [exact Hn0|]. destruct ((l_pub_num L =? 1) && true); [|exact I].
      destruct (l_pub_text L); [exact Hpt|exact I]. }
  destruct (PID v1 s1 a1) as (P1 & P2 & P3). destruct (PID v2 s2 a2) as (Q1 & Q2 & Q3).
  destruct (strict_decode_of_encoding5 tblb TBL L (mk_opts v1 s1 k a1) tag attrs ch bs1 HC HV HX HTB HT HFind Hv1 P1 P2 P3 Hl1 E1)
    as (d1 & ev1 & _ & _ & _ & D1' & M1).
  destruct (strict_decode_of_encoding5 tblb TBL L (mk_opts v2 s2 k a2) tag attrs ch bs2 HC HV HX HTB HT HFind Hv2 Q1 Q2 Q3 Hl2 E2)
    as (d2 & ev2 & _ & _ & _ & D2' & M2).
  exists ev1, ev2. split; [exact D1'|]. split; [exact D2'|]. rewrite M1, M2. reflexivity.
Qed.
