(* C19 — allocation refusal: every operation either is refused without effect or is the operation of
   BufferModel.v (hence refines the plain-sequence specification); the two base64 functions are the
   only ones that can apply partially. *)
From Coq Require Import List NArith Arith Lia Bool.
From Wbxml Require Import Model.Codec Model.BufferModel Model.BufferSpec Model.ListModel Model.BufferAlloc
  Proofs.BufferProofs Proofs.BufferSearchProofs Proofs.BufferWordsProofs Proofs.ListProofs.
Import ListNotations.

(* ---------------------------------------------------------------------------------------- *)
(* 1. with every request granted the oracle model is the model of BufferModel.v              *)

Lemma alloc_n_nil n : alloc_n n [] = (true, []).
Proof. induction n; cbn; auto. Qed.

Lemma with_grow_nil b n g : with_grow [] b n g = (g, []).
Proof. unfold with_grow. now destruct (needs_realloc b n). Qed.

Lemma insert_data_a_nil b pos data : insert_data_a [] b pos data = (insert_data b pos data, []).
Proof.
  unfold insert_data_a. destruct (bstatic b || (length data =? 0) || (N.of_nat (blen b) <? pos)%N) eqn:E.
  - unfold insert_data. now rewrite E.
  - apply with_grow_nil.
Qed.

Lemma append_data_a_nil b data : append_data_a [] b data = (append_data b data, []).
Proof. unfold append_data_a, append_data. destruct (bstatic b); [reflexivity|]. destruct data; [reflexivity | apply insert_data_a_nil]. Qed.

Lemma create_a_nil data block : create_a [] data block = (create_opt data block, []).
Proof. unfold create_a. cbn [alloc negb]. destruct data; [reflexivity|]. now destruct (create_opt _ _). Qed.

Theorem step_a_granted b o : step_a [] b o = step b o.
Proof.
  destruct o; cbn [step_a step]; try reflexivity; unfold rb_a, rob_a, made.
  - now rewrite create_a_nil.
  - unfold duplicate_a, duplicate_opt. now rewrite create_a_nil.
  - unfold insert_a, insert. destruct (bstatic b); [reflexivity | now rewrite insert_data_a_nil].
  - unfold insert_cstr_a, insert_cstr. destruct (bstatic b); [reflexivity | now rewrite insert_data_a_nil].
  - unfold append_a, append. destruct (bstatic b); [reflexivity | now rewrite append_data_a_nil].
  - now rewrite append_data_a_nil.
  - unfold append_cstr_a, append_cstr. destruct (bstatic b); [reflexivity | now rewrite append_data_a_nil].
  - unfold append_char_a, append_char. destruct (bstatic b); [reflexivity | now rewrite insert_data_a_nil].
  - unfold append_mb_uint_32_a, append_mb_uint_32. destruct (bstatic b); [reflexivity | now rewrite append_data_a_nil].
  - unfold split_words_a. destruct (split_words b); [|reflexivity]. now rewrite alloc_n_nil.
  - unfold binary_to_hex_a. destruct (bstatic b) eqn:Es; [unfold binary_to_hex; now rewrite Es|].
    destruct (blen b =? 0) eqn:E0; [unfold binary_to_hex; now rewrite Es, E0|]. now rewrite with_grow_nil.
  - unfold decode_base64_a, decode_base64. destruct (bstatic b); [reflexivity|].
    destruct (no_spaces b) as (b1, [|]); [|reflexivity]. cbn [alloc negb].
    destruct (b64_dec (contents b1)); [|reflexivity]. rewrite append_data_a_nil. now destruct (append_data _ _).
  - unfold encode_base64_a, encode_base64. destruct (bstatic b); [reflexivity|].
    destruct (contents b) eqn:Ec; [reflexivity|]. rewrite <- Ec. cbn [alloc negb].
    destruct (b64_enc (contents b)); [|reflexivity].
    unfold append_cstr_a, append_cstr. destruct (bstatic _); [reflexivity|].
    rewrite append_data_a_nil. now destruct (append_data _ _).
Qed.

Theorem lstep_a_granted l o : lstep_a [] l o = lstep l o.
Proof.
  destruct o; cbn [lstep_a lstep]; try reflexivity.
  - unfold lappend_a. destruct (item =? 0)%N eqn:E; cbn [alloc fst]; [unfold lappend; now rewrite E | reflexivity].
  - unfold linsert_a. destruct (item =? 0)%N eqn:E; cbn [alloc fst]; [unfold linsert; now rewrite E | reflexivity].
Qed.

(* ---------------------------------------------------------------------------------------- *)
(* 2. all or nothing                                                                         *)

Definition failed (r : ret) : Prop := r = RBool false \/ r = RNull.

(* either exactly the operation of BufferModel.v, or refused: buffer as it was, FALSE / NULL *)
Definition all_or_nothing (orc : oracle) (b : buf) (o : op) : Prop :=
  step_a orc b o = step b o \/ (fst (step_a orc b o) = b /\ failed (snd (step_a orc b o))).

Lemma with_grow_cases orc b n g : fst (with_grow orc b n g) = g \/ fst (with_grow orc b n g) = (b, false).
Proof. unfold with_grow. destruct (needs_realloc b n); [|now left]. destruct orc as [|[|] r]; cbn; auto. Qed.

Lemma insert_data_a_cases orc b pos data :
  fst (insert_data_a orc b pos data) = insert_data b pos data \/ fst (insert_data_a orc b pos data) = (b, false).
Proof.
  unfold insert_data_a. destruct (bstatic b || (length data =? 0) || (N.of_nat (blen b) <? pos)%N) eqn:E.
  - left. unfold insert_data. now rewrite E.
  - apply with_grow_cases.
Qed.

Lemma append_data_a_cases orc b data :
  fst (append_data_a orc b data) = append_data b data \/ fst (append_data_a orc b data) = (b, false).
Proof.
  unfold append_data_a, append_data. destruct (bstatic b); [now left|]. destruct data; [now left | apply insert_data_a_cases].
Qed.

Lemma create_a_cases orc data block :
  fst (create_a orc data block) = create_opt data block \/ fst (create_a orc data block) = None.
Proof.
  unfold create_a. destruct orc as [|[|] [|[|] r]]; cbn [alloc negb]; auto;
    destruct data; auto; destruct (create_opt _ _); cbn; auto.
Qed.

Ltac aon_rb H := unfold all_or_nothing; cbn [step_a step]; unfold rb_a, rb, failed;
  destruct H as [H | H]; rewrite H; [now left | right; cbn; auto].

Theorem alloc_all_or_nothing orc b o :
  match o with ODecodeB64 | OEncodeB64 => True | _ => all_or_nothing orc b o end.
Proof.
  destruct o; try exact I; try (left; reflexivity).
  - unfold all_or_nothing; cbn [step_a step]; unfold made, failed.
    destruct (create_a_cases orc data block) as [H | H]; rewrite H; [left; now destruct (create_opt _ _) | right; cbn; auto].
  - unfold all_or_nothing; cbn [step_a step]; unfold made, failed, sta_create_a.
    destruct orc as [|[|] r]; cbn; auto.
  - unfold all_or_nothing; cbn [step_a step]; unfold made, failed, duplicate_a. unfold duplicate_opt.
    destruct (create_a_cases orc (contents b) (N.of_nat (blen b))) as [H | H]; rewrite H; [left; now destruct (create_opt _ _) | right; cbn; auto].
  - unfold all_or_nothing; cbn [step_a step]; unfold rb_a, rb, failed. unfold insert_a, insert.
    destruct (bstatic b); [now left|]. pose proof (insert_data_a_cases orc b pos (contents (create src 1))) as H. aon_rb H.
  - unfold all_or_nothing; cbn [step_a step]; unfold rb_a, rb, failed. unfold insert_cstr_a, insert_cstr.
    destruct (bstatic b); [now left|]. pose proof (insert_data_a_cases orc b pos (cstr str)) as H. aon_rb H.
  - unfold all_or_nothing; cbn [step_a step]; unfold rb_a, rb, failed. unfold append_a, append.
    destruct (bstatic b); [now left|]. pose proof (append_data_a_cases orc b (contents (create src 1))) as H. aon_rb H.
  - pose proof (append_data_a_cases orc b data) as H. aon_rb H.
  - unfold all_or_nothing; cbn [step_a step]; unfold rb_a, rb, failed. unfold append_cstr_a, append_cstr.
    destruct (bstatic b); [now left|]. pose proof (append_data_a_cases orc b (cstr str)) as H. aon_rb H.
  - unfold all_or_nothing; cbn [step_a step]; unfold rb_a, rb, failed. unfold append_char_a, append_char.
    destruct (bstatic b); [now left|]. pose proof (insert_data_a_cases orc b (N.of_nat (blen b)) [ch]) as H. aon_rb H.
  - unfold all_or_nothing; cbn [step_a step]; unfold rb_a, rb, failed. unfold append_mb_uint_32_a, append_mb_uint_32.
    destruct (bstatic b); [now left|]. pose proof (append_data_a_cases orc b (mb_write v)) as H. aon_rb H.
  - unfold all_or_nothing; cbn [step_a step]; unfold failed, split_words_a.
    destruct (split_words b) as [ws|]; [|now left].
    destruct (alloc_n (1 + 3 * length ws) orc) as ([|], o'); cbn [fst]; [now left | right; cbn; auto].
  - unfold all_or_nothing; cbn [step_a step]; unfold rb_a, rb, failed. unfold binary_to_hex_a.
    destruct (bstatic b) eqn:Es; [left; unfold binary_to_hex; now rewrite Es|].
    destruct (blen b =? 0) eqn:E0; [left; unfold binary_to_hex; now rewrite Es, E0|].
    pose proof (with_grow_cases orc b (blen b * 2) (binary_to_hex b upper)) as H.
    destruct H as [H | H]; rewrite H; [now left | right; cbn; auto].
Qed.

(* the two functions that can apply partially, with exactly what is left behind *)
Definition emptied (b : buf) : buf := fst (delete b 0%N (N.of_nat (blen b))).

Theorem alloc_decode_base64 orc b :
  step_a orc b ODecodeB64 = step b ODecodeB64 \/
  (bstatic b = false /\ step_a orc b ODecodeB64 = (fst (no_spaces b), RBool false)) \/
  (bstatic b = false /\ step_a orc b ODecodeB64 = (emptied (fst (no_spaces b)), RBool false)).
Proof.
  cbn [step_a step]. unfold rob_a, decode_base64_a, decode_base64.
  destruct (bstatic b) eqn:Es; [now left|]. destruct (no_spaces b) as (b1, [|]) eqn:En; [|now left].
  destruct orc as [|[|] orc']; cbn [alloc negb fst]; [| |right; left; auto].
  - left. destruct (b64_dec (contents b1)); [|reflexivity]. rewrite append_data_a_nil. now destruct (append_data _ _).
  - destruct (b64_dec (contents b1)) as [out|]; [|now left].
    destruct (append_data_a_cases orc' (fst (delete b1 0%N (N.of_nat (blen b1)))) out) as [H | H];
      destruct (append_data_a orc' _ out) as ((b3, r), o2); cbn [fst] in H.
    + left. rewrite <- H. reflexivity.
    + right. right. inversion H. subst. auto.
Qed.

Theorem alloc_encode_base64 orc b :
  step_a orc b OEncodeB64 = step b OEncodeB64 \/
  step_a orc b OEncodeB64 = (b, RBool false) \/
  (bstatic b = false /\ step_a orc b OEncodeB64 = (emptied b, RBool false)).
Proof.
  cbn [step_a step]. unfold rob_a, encode_base64_a, encode_base64.
  destruct (bstatic b) eqn:Es; [now left|]. destruct (contents b) eqn:Ec; [now left|]. rewrite <- Ec.
  destruct orc as [|[|] orc']; cbn [alloc negb fst]; [| |right; left; auto].
  - left. destruct (b64_enc (contents b)); [|reflexivity].
    unfold append_cstr_a, append_cstr. destruct (bstatic (fst (delete b 0%N (N.of_nat (blen b))))) eqn:Es2; [reflexivity|].
    rewrite append_data_a_nil. now destruct (append_data _ _).
  - destruct (b64_enc (contents b)) as [out|]; [|now left].
    unfold append_cstr_a, append_cstr. fold (emptied b). destruct (bstatic (emptied b)) eqn:Es2; [now left|].
    destruct (append_data_a_cases orc' (emptied b) (cstr out)) as [H | H];
      destruct (append_data_a orc' _ (cstr out)) as ((b3, r), o2); cbn [fst] in H.
    + left. rewrite <- H. reflexivity.
    + right. right. inversion H. subst. auto.
Qed.

(* lists *)
Theorem lalloc_all_or_nothing orc l o :
  lstep_a orc l o = lstep l o \/ lstep_a orc l o = (l, LRBool false).
Proof.
  destruct o; cbn [lstep_a lstep]; try (now left).
  - unfold lappend_a. destruct (item =? 0)%N eqn:E; [left; unfold lappend; now rewrite E|].
    destruct orc as [|[|] r]; cbn; auto.
  - unfold linsert_a. destruct (item =? 0)%N eqn:E; [left; unfold linsert; now rewrite E|].
    destruct orc as [|[|] r]; cbn; auto.
Qed.

(* ---------------------------------------------------------------------------------------- *)
(* 3. together with the refinement theorems                                                  *)

(* under any oracle: the operation refines the plain-sequence specification, or it is refused
   without effect (every operation except the two base64 functions) *)
Theorem step_a_refines orc b o : Inv b -> op_ok (abs b) o = true ->
  match o with ODecodeB64 | OEncodeB64 => True | _ =>
    (abs (fst (step_a orc b o)) = fst (spec_step (abs b) o) /\
     snd (step_a orc b o) = snd (spec_step (abs b) o) /\ Inv (fst (step_a orc b o))) \/
    (fst (step_a orc b o) = b /\ failed (snd (step_a orc b o)))
  end.
Proof.
  intros HI Hok. pose proof (alloc_all_or_nothing orc b o) as H. pose proof (step_refines_all b o HI Hok) as Hr.
  destruct o; try exact I; (destruct H as [H | H]; [left; rewrite H; exact Hr | right; exact H]).
Qed.

(* the invariant (one NUL after the contents, no store outside the cells) survives every refusal,
   the partial applications of the base64 functions included *)
Theorem step_a_Inv orc b o : Inv b -> op_ok (abs b) o = true -> Inv (fst (step_a orc b o)).
Proof.
  intros HI Hok. pose proof (step_refines_all b o HI Hok) as (_ & _ & Hr).
  assert (Hemp : forall b0, Inv b0 -> bstatic b0 = false -> Inv (emptied b0)).
  { intros b0 H0 Hs. eapply R_Inv. apply (clear_R b0 _ (Inv_R b0 H0 Hs)). }
  assert (Hns : bstatic b = false -> Inv (fst (no_spaces b)) /\ bstatic (fst (no_spaces b)) = false).
  { intros Hs. destruct (no_spaces_R b _ (Inv_R b HI Hs)) as (b' & H1 & H2). rewrite H1. cbn [fst].
    split; [eapply R_Inv; exact H2 | now destruct (R_contents _ _ H2) as (_ & ? & _)]. }
  destruct o;
    try (match goal with |- Inv (fst (step_a _ _ ?op)) => pose proof (alloc_all_or_nothing orc b op) as H end;
         cbn beta iota in H; destruct H as [H | (H & _)]; rewrite H; auto; fail).
  - destruct (alloc_decode_base64 orc b) as [H | [(Hs & H) | (Hs & H)]]; rewrite H; auto; cbn [fst].
    + now apply Hns.
    + destruct (Hns Hs). now apply Hemp.
  - destruct (alloc_encode_base64 orc b) as [H | [H | (Hs & H)]]; rewrite H; auto; cbn [fst]. now apply Hemp.
Qed.

Theorem lstep_a_refines orc l o : LInv l ->
  (chain (fst (lstep_a orc l o)) = fst (lspec_step (chain l) o) /\
   snd (lstep_a orc l o) = snd (lspec_step (chain l) o) /\ LInv (fst (lstep_a orc l o))) \/
  lstep_a orc l o = (l, LRBool false).
Proof.
  intros HI. destruct (lalloc_all_or_nothing orc l o) as [H | H]; [left; rewrite H; now apply lstep_refines | now right].
Qed.
