(* C03 (tree builder) — (C) the tree built from the events of a document without <Data> elements is the
   abstract tree of those events: elements nest as the start/end events do, character data become text nodes,
   adjacent text nodes merged; PIs leave no trace. *)
From Coq Require Import String Ascii.
From Coq Require Import List NArith ZArith Lia Bool.
From Wbxml Require Import Model.Codec Model.TablesDefs Model.Parser Model.TreeBuild
     Proofs.ParserTotal Proofs.ParserDepth Proofs.TreeBuildProofs Proofs.TreeBuildProofs2.
Import ListNotations.
Local Open Scope N_scope.

(* ---- the specification: the forest denoted by a balanced sequence of events ---- *)

(* merging of adjacent text nodes: insert the nodes one after the other, a text joining a text before it *)
Definition merge_text (l : list tnode) : list tnode := fold_left add_node l [].

Inductive spec_forest : list event -> list tnode -> Prop :=
| sf_nil : spec_forest [] []
| sf_pi tg dt r ns : spec_forest r ns -> spec_forest (EvPi tg dt :: r) ns
| sf_chars b r ns : spec_forest r ns -> spec_forest (EvChars b :: r) (TText b :: ns)
| sf_elt t a inner r ch ns : spec_forest inner ch -> spec_forest r ns ->
    spec_forest (EvStartElt t a :: inner ++ EvEndElt t :: r) (TElt t a (merge_text ch) :: ns).

Definition not_data (t : tagname) : bool := negb (bytes_eqb (tag_name t) (B "Data")).
Definition no_data (evs : list event) : bool :=
  forallb (fun e => match e with EvStartElt t _ => not_data t | _ => true end) evs.

(* what merge_text is: the same nodes with runs of text joined, and nothing else *)
Fixpoint text_of (l : list tnode) : bytes := match l with TText b :: r => b ++ text_of r | _ :: r => text_of r | [] => [] end.

Lemma add_node_nontext l n : is_text n = false -> add_node l n = l ++ [n].
Proof.
  intros H. induction l as [|x r IH]; [reflexivity|]. destruct r as [|y r'].
  - cbn [add_node app]. destruct x, n; try reflexivity; discriminate.
  - change (add_node (x :: y :: r') n) with (x :: add_node (y :: r') n). rewrite IH. reflexivity.
Qed.

Lemma merge_text_norm l : forallb norm_node l = true -> norm_list (merge_text l) = true.
Proof.
  unfold merge_text. assert (G : forall acc, norm_list acc = true -> forallb norm_node l = true -> norm_list (fold_left add_node l acc) = true).
  { induction l as [|x r IH]; intros acc Ha Hl; [exact Ha|]. cbn [fold_left forallb] in *. apply andb_prop in Hl. destruct Hl as [Hx Hr].
    apply IH; [apply add_node_norm; assumption|exact Hr]. }
  apply G. reflexivity.
Qed.

(* ---- body events: what the content of an element consists of ---- *)
Definition body_ev (e : event) : bool := match e with EvStartDoc _ _ | EvEndDoc => false | _ => true end.

Lemma bal_spec d evs : bal d evs -> forallb body_ev evs = true -> exists ns, spec_forest evs ns.
Proof.
  induction 1 as [d|d e r Hf Hr IH|d t a inner r Hi IHi Hr IHr]; intros Hb.
  - exists []. constructor.
  - cbn [forallb] in Hb. apply andb_prop in Hb. destruct Hb as [He Hb]. destruct (IH Hb) as [ns Hs].
    destruct e; try discriminate; try contradiction; eexists; constructor; exact Hs.
  - cbn [forallb] in Hb. rewrite forallb_app in Hb. cbn [forallb] in Hb. rewrite !andb_true_iff in Hb.
    destruct Hb as [_ [Hbi [_ Hbr]]]. destruct (IHi Hbi) as [ch Hc]. destruct (IHr Hbr) as [ns Hs].
    eexists. constructor; eassumption.
Qed.

(* ---- the run ---- *)
Lemma dtype_not_data f up : not_data (f_tag f) = true -> syncml_data_type (f :: up) = D_NORMAL.
Proof. unfold not_data, syncml_data_type. intros H. apply negb_true_iff in H. rewrite H. reflexivity. Qed.

Lemma run_spec tbl ef evs ns : spec_forest evs ns -> no_data evs = true -> forall st f up,
  b_stack st = f :: up -> f_cdata f = None -> not_data (f_tag f) = true ->
  build_from tbl ef evs st =
    BOk (mk_bstate (b_lang st) (b_charset st) (mk_frame (f_tag f) (f_attrs f) (fold_left add_node ns (f_done f)) None :: up) (b_root st)).
Proof.
  induction 1 as [|tg dt r ns Hr IH|b r ns Hr IH|t a inner r ch ns Hi IHi Hr IHr]; intros Hn st f up Hs Hc Hd.
  - rewrite build_from_nil. cbn [fold_left]. destruct st as [l c s ro]. cbn [b_stack] in Hs. subst s. destruct f as [ft fa fd fc]. cbn [f_cdata] in Hc. subst fc. reflexivity.
  - rewrite build_from_eq. cbn [no_data forallb] in Hn. apply (IH Hn st f up Hs Hc Hd).
  - cbn [no_data forallb] in Hn. rewrite build_from_eq. rewrite Hs, (dtype_not_data f up Hd).
    unfold bnext, add_to_current. rewrite Hs, Hc.
    pose proof (IH Hn (mk_bstate (b_lang st) (b_charset st) (mk_frame (f_tag f) (f_attrs f) (add_node (f_done f) (TText b)) None :: up) (b_root st))
                  (mk_frame (f_tag f) (f_attrs f) (add_node (f_done f) (TText b)) None) up eq_refl eq_refl Hd) as E.
    exact E.
  - cbn [no_data forallb] in Hn. rewrite forallb_app in Hn. cbn [forallb] in Hn. rewrite !andb_true_iff in Hn.
    destruct Hn as [Ht [Hni [_ Hnr]]].
    change (EvStartElt t a :: inner ++ EvEndElt t :: r) with ([EvStartElt t a] ++ inner ++ [EvEndElt t] ++ r).
    rewrite build_from_app, build_from_start. unfold cb_start_element. rewrite Hs.
    assert (El : leave_cdata f = f) by (unfold leave_cdata; rewrite Hc; reflexivity). rewrite El.
    rewrite build_from_app.
    rewrite (IHi Hni (mk_bstate (b_lang st) (b_charset st) (mk_frame t a [] None :: f :: up) (b_root st)) (mk_frame t a [] None) (f :: up) eq_refl eq_refl Ht).
    cbn [b_lang b_charset b_root f_tag f_attrs f_done].
    rewrite build_from_app, build_from_end. unfold cb_end_element. cbn [b_stack b_lang b_charset b_root f_tag f_attrs f_done].
    unfold cdata_nodes. rewrite Hc. cbn [app].
    assert (En : frame_node (mk_frame t a (fold_left add_node ch []) None) [] = TElt t a (merge_text ch)).
    { unfold frame_node, frame_children, cdata_nodes, merge_text. cbn [f_tag f_attrs f_done f_cdata]. rewrite !app_nil_r. reflexivity. }
    rewrite En.
    rewrite (IHr Hnr (mk_bstate (b_lang st) (b_charset st) (mk_frame (f_tag f) (f_attrs f) (f_done f ++ [TElt t a (merge_text ch)]) None :: up) (b_root st))
                 (mk_frame (f_tag f) (f_attrs f) (f_done f ++ [TElt t a (merge_text ch)]) None) up eq_refl eq_refl Hd).
    cbn [b_lang b_charset b_root f_tag f_attrs f_done fold_left].
    rewrite (add_node_nontext (f_done f) (TElt t a (merge_text ch)) eq_refl). reflexivity.
Qed.

(* the events inside the root element are body events *)
Lemma chars_event_body o : forallb body_ev (chars_event o) = true.
Proof. destruct o as [[|b r]|]; reflexivity. Qed.

Lemma content_body fuel env n pelt st evs st' :
  (forall e s, pelt st = POk (e, s) -> forallb body_ev e = true) ->
  parse_content fuel env n pelt st = POk (evs, st') -> forallb body_ev evs = true.
Proof.
  intros Hp. unfold parse_content. cbn zeta. destruct (s_rest st) as [|b0 r0]; [discriminate|].
  destruct (is_extension _).
  { destruct (parse_extension env TagSpace st) as [[v s1]|e|]; try discriminate. intros H. injection H as <- _. apply chars_event_body. }
  destruct (is_token _ 2).
  { destruct (parse_entity _) as [[s r1]|e|]; try discriminate. intros H. injection H as <- _. apply (chars_event_body (Some s)). }
  destruct (is_string _).
  { destruct (parse_string env _) as [[s r1]|e|]; try discriminate. intros H. injection H as <- _. apply (chars_event_body (Some s)). }
  destruct (is_token _ 195).
  { destruct (parse_opaque _) as [[dd r1]|e|]; try discriminate.
    destruct (decode_opaque_content env _ dd) as [d'|e|]; try discriminate. intros H. injection H as <- _. apply (chars_event_body (Some d')). }
  destruct (is_token _ 67).
  { intros H. apply parse_pi_is_pi in H. unfold all_pi in H. rewrite forallb_forall in *. intros x Hx. specialize (H x Hx). destruct x; try discriminate; reflexivity. }
  destruct (is_token _ 0).
  { destruct (parse_switch_page TagSpace st) as [s1|e|]; try discriminate. intros H. injection H as <- _. reflexivity. }
  destruct (MAX_NESTING_DEPTH <=? n); [discriminate|]. intros H. apply (Hp _ _ H).
Qed.

Lemma element_with_body fuel env cloop st evs st' :
  (forall s e s', cloop s = POk (e, s') -> forallb body_ev e = true) ->
  parse_element_with fuel env cloop st = POk (evs, st') -> forallb body_ev evs = true.
Proof.
  intros Hc. unfold parse_element_with.
  destruct (opt_switch_page TagSpace st) as [st0|e|]; try discriminate.
  destruct (parse_stag env st0) as [[[tag elt] r]|e|]; try discriminate. cbn zeta.
  destruct (if N.land tag 128 =? 128 then _ else _) as [[attrs st2]|e|]; try discriminate.
  destruct (N.land tag 64 =? 64).
  - destruct (cloop st2) as [[e s3]|e|] eqn:Ec; try discriminate. intros H. injection H as <- _.
    cbn [forallb body_ev]. rewrite forallb_app, (Hc _ _ _ Ec). reflexivity.
  - intros H. injection H as <- _. reflexivity.
Qed.

Lemma content_loop_body fuel : forall env n st evs st', content_loop fuel env n st = POk (evs, st') -> forallb body_ev evs = true.
Proof.
  induction fuel as [|f IH]; intros env n st evs st'; cbn [content_loop]; [discriminate|].
  destruct (is_token (s_rest st) 1); [intros H; injection H as <- _; reflexivity|].
  destruct (parse_content f env n _ st) as [[e1 st1]|e|] eqn:E1; try discriminate.
  destruct (content_loop f env n st1) as [[e2 st2]|e|] eqn:E2; try discriminate.
  intros H. injection H as <- _. rewrite forallb_app, (IH _ _ _ _ _ E2), andb_true_r.
  apply (content_body f env n (parse_element_with f env (content_loop f env (n + 1))) st e1 st1); [|exact E1].
  intros e s He. apply (element_with_body f env (content_loop f env (n + 1)) st e s); [|exact He].
  intros s0 e0 s0' Hc. apply (IH _ _ _ _ _ Hc).
Qed.

Lemma parse_shape_body tbl forced meta fuel bs evs : parse_with tbl forced meta fuel bs = POk evs ->
  exists cs lid p1 t a inner p2,
    evs = EvStartDoc cs lid :: (p1 ++ (EvStartElt t a :: inner ++ [EvEndElt t]) ++ p2) ++ [EvEndDoc]
    /\ all_pi p1 = true /\ all_pi p2 = true /\ bal 1000 inner /\ forallb body_ev inner = true.
Proof.
  intros Hp.
  revert Hp. unfold parse_with. destruct bs as [|b0 bs0]; [discriminate|].
    destruct (parse_uint8 _) as [[version r0]|e|]; try discriminate.
    destruct (parse_publicid r0) as [[[pubid pubidx] r1]|e|]; try discriminate.
    destruct (if version =? 0 then _ else _) as [[charset r2]|e|]; try discriminate.
    destruct (parse_strtbl r2) as [[[strtbl strtbl_len] r3]|e|]; try discriminate.
    destruct (check_public_id _ _ _ _ _ _ _) as [l|]; try discriminate.
    destruct (parse_body _ _ _) as [[body st']|e|] eqn:Eb; try discriminate.
    intros H. injection H as <-. revert Eb. unfold parse_body.
    destruct (body_pi_loop _ _ _) as [[e1 st1]|e|] eqn:E1; try discriminate.
    destruct (parse_element _ _ st1) as [[e2 st2]|e|] eqn:E2; try discriminate.
    destruct (body_pi_loop _ _ st2) as [[e3 st3]|e|] eqn:E3; try discriminate.
    intros H. injection H as <- _. unfold parse_element in E2.
    pose proof (element_with_body _ _ _ _ _ _ (fun s e s' Hc => content_loop_body _ _ 0 s e s' Hc) E2) as Hbe.
    destruct (element_with_shape 1000 _ _ _ _ _ _ (fun s e s' Hc => content_loop_bal _ _ 0 s e s' ltac:(lia) Hc) E2) as (t & a & inner & -> & Hb).
    eexists. eexists. exists e1, t, a, inner, e3. split; [reflexivity|].
    repeat split; [apply (body_pi_loop_all_pi _ _ _ _ _ E1)|apply (body_pi_loop_all_pi _ _ _ _ _ E3)|exact Hb|].
    cbn [forallb body_ev] in Hbe. rewrite forallb_app in Hbe. rewrite !andb_true_iff in Hbe. tauto.
Qed.

(* (C) the theorem *)
Theorem build_is_spec tbl forced meta fuel bs evs :
  parse_with tbl forced meta fuel bs = POk evs -> no_data evs = true ->
  exists cs lid p1 t a inner p2 ch,
    evs = EvStartDoc cs lid :: (p1 ++ (EvStartElt t a :: inner ++ [EvEndElt t]) ++ p2) ++ [EvEndDoc]
    /\ all_pi p1 = true /\ all_pi p2 = true /\ spec_forest inner ch
    /\ forall ef, build tbl ef evs = BOk (mk_wtree lid cs (Some (TElt t a (merge_text ch)))).
Proof.
  intros Hp Hn.
  pose proof (parse_shape_body _ _ _ _ _ _ Hp) as Hbody.
  destruct Hbody as (cs & lid & p1 & t & a & inner & p2 & -> & H1 & H2 & Hbal & Hbe).
  destruct (bal_spec 1000 inner Hbal Hbe) as [ch Hs].
  exists cs, lid, p1, t, a, inner, p2, ch. repeat split; try assumption.
  intros ef. unfold build.
  (* the Data-freeness of the root and of its content *)
  unfold no_data in Hn. rewrite forallb_forall in Hn.
  assert (Ht : not_data t = true).
  { apply (Hn (EvStartElt t a)). right. apply in_or_app. left. apply in_or_app. right. apply in_or_app. left. left. reflexivity. }
  assert (Hni : no_data inner = true).
  { unfold no_data. rewrite forallb_forall. intros x Hx. apply Hn. right. apply in_or_app. left. apply in_or_app. right.
    apply in_or_app. left. right. apply in_or_app. left. exact Hx. }
  change (EvStartDoc cs lid :: (p1 ++ (EvStartElt t a :: inner ++ [EvEndElt t]) ++ p2) ++ [EvEndDoc])
    with ([EvStartDoc cs lid] ++ (p1 ++ ([EvStartElt t a] ++ inner ++ [EvEndElt t]) ++ p2) ++ [EvEndDoc]).
  rewrite build_from_app, build_from_startdoc. change (mk_bstate lid cs (b_stack st_init) (b_root st_init)) with (mk_bstate lid cs [] None).
  cbv beta iota. rewrite build_from_app, build_from_app. rewrite (build_from_pis tbl _ p1 _ H1). cbv beta iota.
  rewrite build_from_app, build_from_app, build_from_start.
  change (cb_start_element t a (mk_bstate lid cs [] None)) with (BOk (mk_bstate lid cs [mk_frame t a [] None] None)). cbv beta iota.
  rewrite build_from_app.
  rewrite (run_spec tbl ef inner ch Hs Hni (mk_bstate lid cs [mk_frame t a [] None] None) (mk_frame t a [] None) [] eq_refl eq_refl Ht).
  cbn [b_lang b_charset b_root f_tag f_attrs f_done]. rewrite build_from_end. unfold cb_end_element. cbn [b_stack f_cdata].
  rewrite (build_from_pis tbl _ p2 _ H2). rewrite build_from_enddoc. unfold tree_of_state. cbn [b_lang b_charset b_stack view hd_error].
  unfold frame_node, frame_children, cdata_nodes, merge_text. cbn [f_tag f_attrs f_done f_cdata]. rewrite !app_nil_r. reflexivity.
Qed.

(* the root of a tree that is built from the events of a successful parse is an element: the root element of the
   document, with its tag and attributes *)
Theorem build_root_element tbl forced meta fuel bs evs ef t :
  parse_with tbl forced meta fuel bs = POk evs -> build tbl ef evs = BOk t ->
  exists cs lid p1 tg a inner p2 ch,
    evs = EvStartDoc cs lid :: (p1 ++ (EvStartElt tg a :: inner ++ [EvEndElt tg]) ++ p2) ++ [EvEndDoc]
    /\ t = mk_wtree lid cs (Some (TElt tg a ch)).
Proof.
  intros Hp Hb. destruct (parse_shape_body _ _ _ _ _ _ Hp) as (cs & lid & p1 & tg & a & inner & p2 & -> & H1 & H2 & Hbal & Hbe).
  exists cs, lid, p1, tg, a, inner, p2.
  unfold build in Hb.
  destruct (build_from tbl ef _ st_init) as [st|e|] eqn:E; try discriminate. injection Hb as <-.
  change (EvStartDoc cs lid :: (p1 ++ (EvStartElt tg a :: inner ++ [EvEndElt tg]) ++ p2) ++ [EvEndDoc])
    with ([EvStartDoc cs lid] ++ (p1 ++ ([EvStartElt tg a] ++ inner ++ [EvEndElt tg]) ++ p2) ++ [EvEndDoc]) in E.
  rewrite build_from_app in E. rewrite build_from_startdoc in E. change (mk_bstate lid cs (b_stack st_init) (b_root st_init)) with (mk_bstate lid cs [] None) in E.
  cbv beta iota in E. rewrite build_from_app in E. rewrite build_from_app in E.
  rewrite (build_from_pis tbl _ p1 _ H1) in E. cbv beta iota in E.
  rewrite build_from_app in E. rewrite build_from_app in E.
  rewrite build_from_start in E. change (cb_start_element tg a (mk_bstate lid cs [] None)) with (BOk (mk_bstate lid cs [mk_frame tg a [] None] None)) in E.
  cbv beta iota in E. rewrite build_from_app in E.
  destruct (build_from tbl ef inner (mk_bstate lid cs [mk_frame tg a [] None] None)) as [st2|er|] eqn:E2; try discriminate.
  destruct (run_bal tbl ef 1000 inner Hbal (mk_bstate lid cs [mk_frame tg a [] None] None) (mk_frame tg a [] None) [] st2 eq_refl E2) as (g & G1 & G2 & G3 & _ & G5).
  cbn [b_root f_tag f_attrs] in G2, G3, G5.
  assert (Hlc : b_lang st2 = lid /\ b_charset st2 = cs).
  { clear -E2 Hbe.
    assert (G : forall evs0 s0 s1, forallb (fun e => match e with EvStartDoc _ _ => false | _ => true end) evs0 = true ->
                build_from tbl ef evs0 s0 = BOk s1 -> b_lang s1 = b_lang s0 /\ b_charset s1 = b_charset s0).
    { induction evs0 as [|e r IH]; intros s0 s1 Hn Hx; [rewrite build_from_nil in Hx; injection Hx as <-; tauto|].
      cbn [forallb] in Hn. apply andb_prop in Hn. destruct Hn as [He Hr].
      change (e :: r) with ([e] ++ r) in Hx. rewrite build_from_app in Hx.
      destruct (build_from tbl ef [e] s0) as [sm| |] eqn:Em; try discriminate.
      destruct (IH sm s1 Hr Hx) as [I1 I2]. rewrite I1, I2. clear IH Hx.
      assert (Hadd : forall s n x, add_to_current s n = BOk x -> b_lang x = b_lang s /\ b_charset x = b_charset s).
      { intros s n x. unfold add_to_current. destruct (b_stack s); [destruct (b_root s); [discriminate|]|]; intros H; injection H as <-; tauto. }
      assert (Hnext : forall s n, match add_to_current s n with BOk st' => BOk st' | BErr er => BErr er | BFuel => BFuel end = BOk sm ->
                        b_lang sm = b_lang s /\ b_charset sm = b_charset s).
      { intros s n. destruct (add_to_current s n) as [x| |] eqn:Ea; try discriminate. intros H. injection H as <-. exact (Hadd _ _ _ Ea). }
      assert (Hnil : forall s, build_from tbl ef [] s = BOk s) by (intros s; apply build_from_nil).
      destruct e as [c0 l0|t0 a0|ch|tg0 dt|t0|]; try discriminate.
      - rewrite build_from_start in Em. rename Em into Ec.
        revert Ec. unfold cb_start_element. destruct (b_stack s0); [destruct (b_root s0); [discriminate|]|]; intros H; injection H as <-; tauto.
      - rewrite build_from_eq in Em. unfold bnext in Em.
        assert (Hnext' : forall s n, match add_to_current s n with BOk st' => build_from tbl ef [] st' | BErr er => BErr er | BFuel => BFuel end = BOk sm ->
                        b_lang sm = b_lang s /\ b_charset sm = b_charset s).
        { intros s n. destruct (add_to_current s n) as [x| |] eqn:Ea; try discriminate. rewrite Hnil. intros H. injection H as <-. exact (Hadd _ _ _ Ea). }
        clear Hnext. rename Hnext' into Hnext.
        assert (Hoc : b_lang (open_cdata s0) = b_lang s0 /\ b_charset (open_cdata s0) = b_charset s0).
        { unfold open_cdata. destruct (b_stack s0) as [|f0 u0]; [tauto|]. destruct (f_cdata f0); tauto. }
        destruct (syncml_data_type (b_stack s0)).
        + exact (Hnext _ _ Em).
        + destruct ef as [|lv]; [exact (Hnext _ _ Em)|].
          destruct (parse_with tbl 0 (b_charset s0) (S (length ch)) ch) as [evs'| |].
          * destruct (build_from tbl lv evs' st_init); try discriminate; cbv zeta in Em; exact (Hnext _ _ Em).
          * exact (Hnext _ _ Em).
          * discriminate.
        + destruct (Hnext _ _ Em) as [X1 X2]. destruct Hoc as [O1 O2]. rewrite X1, X2, O1, O2. tauto.
      - rewrite build_from_eq, Hnil in Em. injection Em as <-. tauto.
      - rewrite build_from_end in Em. rename Em into Ec.
        revert Ec. unfold cb_end_element. destruct (b_stack s0) as [|f0 [|p0 u0]]; [discriminate| |].
        + destruct (f_cdata f0); intros H; injection H as <-; tauto.
        + intros H; injection H as <-; tauto.
      - rewrite build_from_eq, Hnil in Em. injection Em as <-. tauto. }
    apply (G inner (mk_bstate lid cs [mk_frame tg a [] None] None) st2); [|exact E2].
    clear -Hbe. induction inner as [|e r IH]; [reflexivity|]. cbn [forallb] in *. apply andb_prop in Hbe. destruct Hbe as [He Hr].
    rewrite (IH Hr). destruct e; try discriminate; reflexivity. }
  destruct Hlc as [Hl Hc].
  cbv beta iota in E. rewrite build_from_end in E. unfold cb_end_element in E. rewrite G1 in E.
  destruct (f_cdata g) eqn:Ec.
  - rewrite (build_from_pis tbl _ p2 _ H2) in E. rewrite build_from_enddoc in E. injection E as <-.
    exists (frame_children g []). split; [reflexivity|]. unfold tree_of_state. cbn [b_stack b_root b_lang b_charset].
    unfold frame_node. rewrite G2, G3, Hl, Hc. reflexivity.
  - rewrite (build_from_pis tbl _ p2 _ H2) in E. rewrite build_from_enddoc in E. injection E as <-.
    exists (frame_children g []). split; [reflexivity|]. unfold tree_of_state. rewrite G1. cbn [view hd_error].
    unfold frame_node. rewrite G2, G3, Hl, Hc. reflexivity.
Qed.
