(* C03 (wide fragment) — from the first iteration to the second: the normalised form of a source tree that has the
   properties of a front-end tree (src_okW: canonical names and attributes, no element named "Data", not binary-flagged,
   NUL-free non-empty texts, no adjacent texts) satisfies every hypothesis the wide second-iteration theorem
   (ConvSecondIterWide.second_iteration_wide) makes about its tree — in particular XmlFrontEvents.root_canon.
   Excluded (the image of the front end is not canonical there, Properties_C02_front4.the C02f_image_not_canonical witnesses): empty
   text nodes, CDATA nodes, binary-flagged elements, elements named "Data" (the SyncML data-type rules), embedded trees. *)
From Coq Require Import String Ascii.
From Coq Require Import List NArith ZArith Lia Bool.
From Wbxml Require Import Model.Codec Model.TablesDefs Model.Tables Model.Parser Model.TreeBuild Model.TreeConv Model.Conv Model.ConvConcrete
     Proofs.TreeBuildProofs Proofs.TreeBuildProofs3 Proofs.TreeRoundTrip Proofs.TreeRoundTripWide Proofs.ConvRoundTrip
     Proofs.ConvRoundTripWide Proofs.ConvWideUnforced Proofs.ConvSecondIter Proofs.ConvSecondNs Proofs.ConvFirstToSecond Proofs.ConvSecondIterWide.
From Wbxml Require Model.EncWbxml Model.TreeNorm Proofs.TreeNormProofs Proofs.EncWbxmlProofs Proofs.EncWbxmlAbs Proofs.EncWbxmlDenote2
     Proofs.EncWbxmlTblOk Proofs.EncWbxmlDenote3.
From Wbxml Require Model.EncXml Model.XmlRead Proofs.EncXmlProofs Proofs.EncXmlIndent.
From Wbxml Require Model.XmlFront Model.XmlFrontEvents Model.ConvXml2Wbxml Proofs.FrontSimple Proofs.XmlFrontInverse.
Import ListNotations.
Local Open Scope N_scope.

Section SrcW.
Variables (L : lang) (xo : X.opts) (wa : bool).

(* d = the number of open elements above the node *)
Fixpoint src_okW (d : nat) (n : E.node) : Prop :=
  match n with
  | E.NElt tg attrs ch =>
    XE.tag_canon L tg = true /\ (d = 0%nat \/ XE.tag_not_embedded L tg = true) /\ XE.attrs_canon L attrs = true /\
    (N.of_nat d <? XF.WBXML_MAX_NESTING_DEPTH) = true /\
    E.beq (E.tag_xml_name tg) XF.s_Data = false /\
    X.tag_is_binary (XP.cur_of (to_tname L (TK.tag_event tg))) = false /\
    elt_ok L xo wa tg attrs /\
    FS.no_adj ch = true /\
    (fix all (l : list E.node) : Prop := match l with [] => True | x :: r => src_okW (S d) x /\ all r end) ch
  | E.NText c => cstr c = c /\ c <> []
  | _ => False
  end.

Fixpoint all_srcW (d : nat) (l : list E.node) : Prop := match l with [] => True | x :: r => src_okW d x /\ all_srcW d r end.

Lemma all_fix d ch : (fix all (l : list E.node) : Prop := match l with [] => True | x :: r => src_okW d x /\ all r end) ch -> all_srcW d ch.
Proof. induction ch as [|x r IH]; [exact (fun h => h)|]. intros [Hx Hr]. split; [exact Hx|exact (IH Hr)]. Qed.

Lemma norm_no_adjW d keep : forall ch, all_srcW d ch -> FS.no_adj ch = true -> FS.no_adj (flat_map (TN.norm_node keep false) ch) = true.
Proof.
  induction ch as [|x r IH]; intros Ha Hn; [reflexivity|]. destruct Ha as [Hx Hr]. cbn [FS.no_adj] in Hn. apply andb_prop in Hn. destruct Hn as [Hn1 Hn2].
  specialize (IH Hr Hn2). cbn [flat_map].
  destruct x as [tg a ch0|c|ch0| |lid roots]; cbn [src_okW] in Hx; try contradiction.
  - cbn [TN.norm_node app FS.no_adj FS.is_text andb negb]. exact IH.
  - cbn [TN.norm_node]. unfold TN.norm_text. destruct (keep || false); [|destruct (E.only_ws c)]; cbn [app]; try exact IH.
    all: cbn [FS.no_adj FS.is_text andb]; rewrite IH, andb_true_r; apply negb_true_iff;
      destruct r as [|y r']; [reflexivity|]; cbn [FS.is_text andb] in Hn1; apply negb_true_iff in Hn1;
      destruct Hr as [Hy _]; destruct y as [tg a ch1|c1|ch1| |lid roots]; cbn [src_okW] in Hy; try contradiction; [reflexivity|discriminate].
Qed.

(* ---- enormalW ---- *)
Lemma norm_text_enormalW keep c : cstr c = c -> c <> [] -> Forall (enormalW keep) (TN.norm_text keep false c).
Proof.
  intros Hcs Hne. unfold TN.norm_text. destruct keep; cbn [orb].
  - constructor; [|constructor]. cbn [enormalW]. repeat split; [exact Hcs|exact Hne|left; reflexivity].
  - destruct (E.only_ws c) eqn:Ew; constructor; [|constructor]. cbn [enormalW].
    pose proof (TNP.strip_blanks_not_blank c Ew) as Hnb.
    repeat split.
    + apply cstr_nulfree, nulfree_strip, cstr_nulfree. exact Hcs.
    + intros E0. rewrite E0 in Hnb. discriminate.
    + right. split; [exact Hnb|apply TNP.strip_blanks_idem].
Qed.

Lemma norm_enormalW keep : forall n d, src_okW d n -> Forall (enormalW keep) (TN.norm_node keep false n).
Proof.
  fix IH 1. intros n d Hn. destruct n as [tg a ch|c|ch| |lid roots]; cbn [src_okW] in Hn; try contradiction.
  - destruct Hn as (_ & _ & _ & _ & _ & _ & _ & Hna & Hall). cbn [TN.norm_node]. constructor; [|constructor].
    cbn [enormalW]. split.
    + apply (norm_no_adjW (S d)); [apply all_fix; exact Hall|exact Hna].
    + assert (HF : Forall (enormalW keep) (flat_map (TN.norm_node keep false) ch)).
      { clear Hna. induction ch as [|x r IHr]; [constructor|]. destruct Hall as [Hx Hr]. cbn [flat_map]. apply Forall_app. split; [exact (IH x (S d) Hx)|exact (IHr Hr)]. }
      clear -HF. induction HF as [|y ys Hy _ IHy]; [exact I|]. split; [exact Hy|exact IHy].
  - destruct Hn as [Hcs Hne]. cbn [TN.norm_node]. exact (norm_text_enormalW keep c Hcs Hne).
Qed.

(* ---- tgoodW ---- *)
Lemma norm_text_tgoodW keep c : keep_compatible keep xo -> c <> [] ->
  Forall (fun m => tgoodW L xo (tnodeW wa m)) (TN.norm_text keep false c).
Proof.
  intros Hk Hne. unfold TN.norm_text. destruct keep; cbn [orb].
  - constructor; [|constructor]. cbn [tnodeW tgoodW]. unfold gen_stable. destruct Hk as [[H1 H2]|H]; [|discriminate].
    repeat split; [exact Hne|left; exact H1|left; exact H2].
  - destruct (E.only_ws c) eqn:Ew; constructor; [|constructor]. cbn [tnodeW tgoodW]. unfold gen_stable.
    pose proof (TNP.strip_blanks_not_blank c Ew) as Hnb.
    repeat split.
    + intros E0. rewrite E0 in Hnb. discriminate.
    + right. rewrite only_ws_same. exact Hnb.
    + right. rewrite strip_same. apply TNP.strip_blanks_idem.
Qed.

Lemma norm_tgoodW keep : keep_compatible keep xo -> forall n d, src_okW d n ->
  Forall (fun m => tgoodW L xo (tnodeW wa m)) (TN.norm_node keep false n).
Proof.
  intros Hk. fix IH 1. intros n d Hn. destruct n as [tg a ch|c|ch| |lid roots]; cbn [src_okW] in Hn; try contradiction.
  - destruct Hn as (_ & _ & _ & _ & _ & Hnb & _ & Hna & Hall). cbn [TN.norm_node]. constructor; [|constructor].
    cbn [tnodeW tgoodW]. split; [exact Hnb|]. split.
    + apply no_adj_mapW. apply (norm_no_adjW (S d)); [apply all_fix; exact Hall|exact Hna].
    + assert (HF : Forall (fun m => tgoodW L xo (tnodeW wa m)) (flat_map (TN.norm_node keep false) ch)).
      { clear Hna. induction ch as [|x r IHr]; [constructor|]. destruct Hall as [Hx Hr]. cbn [flat_map]. apply Forall_app. split; [exact (IH x (S d) Hx)|exact (IHr Hr)]. }
      induction HF as [|y ys Hy _ IHy]; [exact I|]. cbn [map]. split; [exact Hy|exact IHy].
  - destruct Hn as [Hcs Hne]. cbn [TN.norm_node]. exact (norm_text_tgoodW keep c Hk Hne).
Qed.

(* ---- wok ---- *)
Lemma norm_wok keep : forall n d, src_okW d n -> Forall (wok L xo wa) (TN.norm_node keep false n).
Proof.
  fix IH 1. intros n d Hn. destruct n as [tg a ch|c|ch| |lid roots]; cbn [src_okW] in Hn; try contradiction.
  - destruct Hn as (_ & _ & _ & _ & _ & _ & He & _ & Hall). cbn [TN.norm_node]. constructor; [|constructor].
    cbn [wok]. split; [exact He|].
    assert (HF : Forall (wok L xo wa) (flat_map (TN.norm_node keep false) ch)).
    { induction ch as [|x r IHr]; [constructor|]. destruct Hall as [Hx Hr]. cbn [flat_map]. apply Forall_app. split; [exact (IH x (S d) Hx)|exact (IHr Hr)]. }
    clear -HF. induction HF as [|y ys Hy _ IHy]; [exact I|]. split; [exact Hy|exact IHy].
  - cbn [TN.norm_node]. unfold TN.norm_text. destruct (keep || false); [|destruct (E.only_ws c)]; repeat constructor.
Qed.

(* ---- root_canon ---- *)
Lemma canon_text up tg attrs rdone b :
  E.beq (E.tag_xml_name tg) XF.s_Data = false -> XE.tag_binary tg = false -> b <> [] -> XE.head_is_text rdone = false ->
  XE.text_canon up (XF.FElt tg attrs None) rdone b = true.
Proof.
  intros Hd Hb Hne Hh. unfold XE.text_canon. rewrite Hh. cbn [XE.kind_binary]. rewrite Hb.
  assert (H0 : (match b with [] => true | _ => false end) = false) by (destruct b; [congruence|reflexivity]). rewrite H0. cbn [negb andb].
  unfold XF.syncml_data_type. cbn [XF.is_cdata_frame XF.f_kind]. cbn [XF.f_kind]. rewrite Hd. reflexivity.
Qed.

(* nodes below an ordinary element: what norm leaves of a source node is canonical at its place *)
Definition Qn (keep : bool) (up : list XF.frame) (k : XF.fkind) (x : E.node) : Prop :=
  forall rdone, Forall (fun n' => (FS.is_text n' = true -> XE.head_is_text rdone = false) -> XE.node_canon L XV.no_emb up k rdone n' = true)
                       (TN.norm_node keep false x).

Definition Pn (rd : list E.node) (ch : list E.node) : Prop :=
  match ch with x :: _ => FS.is_text x && XE.head_is_text rd = false | [] => True end.

Lemma kids_generic keep up k : forall ch, Forall (Qn keep up k) ch -> FS.no_adj ch = true ->
  (forall x, In x ch -> match x with E.NElt _ _ _ | E.NText _ => True | _ => False end) ->
  forall rd, Pn rd ch -> XE.kids_canon L XV.no_emb up k rd (flat_map (TN.norm_node keep false) ch) = true.
Proof.
  induction ch as [|x r IH]; intros HQ Hna Hsh rd HP; [reflexivity|].
  inversion HQ as [|? ? Hx Hr]; subst. cbn [FS.no_adj] in Hna. apply andb_prop in Hna. destruct Hna as [Hn1 Hn2]. apply negb_true_iff in Hn1.
  assert (Hshr : forall y, In y r -> match y with E.NElt _ _ _ | E.NText _ => True | _ => False end) by (intros y Hy; apply Hsh; right; exact Hy).
  specialize (Hx rd). pose proof (Hsh x (or_introl eq_refl)) as Hsx. cbn [flat_map].
  destruct x as [tg a ch0|c|ch0| |lid roots]; try contradiction.
  - cbn [TN.norm_node] in *. cbn [app XE.kids_canon]. inversion Hx as [|? ? Hx1 _]; subst.
    rewrite (Hx1 (fun h => match Bool.diff_false_true h with end)). cbn [andb].
    apply (IH Hr Hn2 Hshr). unfold Pn. destruct r as [|y r']; [exact I|]. cbn [XE.head_is_text]. apply andb_false_r.
  - unfold Pn in HP. cbn [FS.is_text andb] in HP.
    assert (Hnext : forall rd', Pn rd' r).
    { intros rd'. unfold Pn. destruct r as [|y r']; [exact I|]. cbn [FS.is_text andb] in Hn1. rewrite Hn1. reflexivity. }
    cbn [TN.norm_node] in *. unfold TN.norm_text in *.
    destruct (keep || false).
    + cbn [app XE.kids_canon]. inversion Hx as [|? ? Hx1 _]; subst. rewrite (Hx1 (fun _ => HP)). cbn [andb]. apply (IH Hr Hn2 Hshr). apply Hnext.
    + destruct (E.only_ws c).
      * cbn [app]. apply (IH Hr Hn2 Hshr). apply Hnext.
      * cbn [app XE.kids_canon]. inversion Hx as [|? ? Hx1 _]; subst. rewrite (Hx1 (fun _ => HP)). cbn [andb]. apply (IH Hr Hn2 Hshr). apply Hnext.
Qed.

Lemma shape_of_src d ch : all_srcW d ch -> forall x, In x ch -> match x with E.NElt _ _ _ | E.NText _ => True | _ => False end.
Proof.
  induction ch as [|y r IH]; intros Ha x Hin; [destruct Hin|]. destruct Ha as [Hy Hr]. destruct Hin as [<-|Hin]; [|exact (IH Hr x Hin)].
  destruct y; cbn [src_okW] in Hy; try contradiction; exact I.
Qed.

Lemma norm_canon_node keep : forall n d, src_okW d n -> forall up tg a, S (length up) = d ->
  E.beq (E.tag_xml_name tg) XF.s_Data = false -> XE.tag_binary tg = false -> Qn keep up (XF.FElt tg a None) n.
Proof.
  fix IH 1. intros n d Hn up tg a Hd Hnd Hnb rdone. destruct n as [tg' a' ch|c|ch| |lid roots]; cbn [src_okW] in Hn; try contradiction.
  - destruct Hn as (Htc & Hemb & Hac & Hdep & Hnd' & _ & He & Hna & Hall). cbn [TN.norm_node]. constructor; [|constructor]. intros _.
    cbn [XE.node_canon]. rewrite XV.kids_fix. rewrite Htc, Hac. cbn [length]. rewrite Hd, Hdep.
    destruct Hemb as [H0|Hemb]; [subst d; discriminate|]. rewrite Hemb.
    destruct He as (Hb' & _). rewrite Hb'. cbn [negb orb andb].
    apply kids_generic.
    + clear Hna. induction ch as [|x r IHr]; [constructor|]. destruct Hall as [Hx Hr]. constructor; [|exact (IHr Hr)].
      apply (IH x (S d) Hx); [cbn [length]; rewrite Hd; reflexivity|exact Hnd'|exact Hb'].
    + exact Hna.
    + apply (shape_of_src (S d)). apply all_fix. exact Hall.
    + unfold Pn. destruct ch; [exact I|]. apply andb_false_r.
  - destruct Hn as [Hcs Hne]. cbn [TN.norm_node]. unfold TN.norm_text.
    destruct (keep || false); [|destruct (E.only_ws c) eqn:Ew]; repeat constructor; intros Hh; cbn [XE.node_canon].
    + apply canon_text; [exact Hnd|exact Hnb|exact Hne|exact (Hh eq_refl)].
    + apply canon_text; [exact Hnd|exact Hnb| |exact (Hh eq_refl)].
      pose proof (TNP.strip_blanks_not_blank c Ew) as Hx. intros E0. rewrite E0 in Hx. discriminate.
Qed.

Lemma norm_root_canon keep tag attrs ch : src_okW 0 (E.NElt tag attrs ch) ->
  XE.root_canon L XV.no_emb (E.NElt tag attrs (flat_map (TN.norm_node keep false) ch)) = true.
Proof.
  cbn [src_okW]. intros (Htc & _ & Hac & _ & Hnd & _ & He & Hna & Hall). destruct He as (Hb & _).
  unfold XE.root_canon. rewrite Htc, Hac, Hb. cbn [negb orb andb].
  apply kids_generic.
  - clear Hna. induction ch as [|x r IHr]; [constructor|]. destruct Hall as [Hx Hr]. constructor; [|exact (IHr Hr)].
    apply (norm_canon_node keep x 1%nat Hx); [reflexivity|exact Hnd|exact Hb].
  - exact Hna.
  - apply (shape_of_src 1). apply all_fix. exact Hall.
  - unfold Pn. destruct ch; [exact I|]. apply andb_false_r.
Qed.
End SrcW.

(* ---- the encoder's hypotheses on the normalised tree ---- *)
Lemma norm_tree_ok3 L keep : forall n d, TK.tree_ok3 L d n = true -> forallb (TK.tree_ok3 L d) (TN.norm_node keep false n) = true.
Proof.
  fix IH 1. intros n d Ht. destruct n as [tg a ch|c|ch| |lid roots]; cbn [TK.tree_ok3] in Ht; try discriminate.
  - rewrite !andb_true_iff in Ht. destruct Ht as [[[H1 H2] H3] Hch].
    cbn [TN.norm_node forallb TK.tree_ok3]. rewrite H1, H2, H3, andb_true_r. cbn [andb].
    induction ch as [|x r IHr]; [reflexivity|]. cbn [flat_map forallb] in *. apply andb_prop in Hch. destruct Hch as [Hx Hr].
    rewrite forallb_app, (IH x (d + 1) Hx), (IHr Hr). reflexivity.
  - cbn [TN.norm_node]. unfold TN.norm_text. destruct (keep || false); [|destruct (E.only_ws c)]; cbn [forallb TK.tree_ok3]; rewrite ?andb_true_r; try reflexivity; try exact Ht.
    apply TK.okb_strip. exact Ht.
Qed.

(* ---- one theorem: round trip and idempotence on the wide fragment from the hypotheses about the SOURCE ---- *)
Section EndToEndW.
Variables (main TBL : list lang) (btbl : list E.blang) (sub : E.bytes -> XF.xtree + N).

Theorem roundtrip_and_idempotence_wide evs expat_ok o doc w (L : lang) tag attrs ch o' w2 :
  let e := E.enc_env (D2.to_blang L) o in
  let wa := E.has_attr_table e in
  let root := E.NElt tag attrs ch in
  let R2 := E.NElt tag attrs (flat_map (TN.norm_node (E.o_keep_ws o) false) ch) in
  let root' := tnodeW wa R2 in
  let xl := X.xlang_of L in
  let xo := X.opts_of_params (gen_of (wo_gen o')) (wo_indent o') (wo_keep_ws o') in
  let nmx := to_tname L (TK.tag_event tag) in
  let ax := map to_attr (if wa then map D2.attr_event attrs else []) in
  (* the hypotheses of the first-iteration theorem *)
  r_out (ConvXml2Wbxml.xml2wbxml_events main btbl sub evs expat_ok o doc) = Some w -> E.len w < 4294967296 ->
  (forall t0, XF.tree_from_xml main sub doc evs expat_ok = inl t0 ->
     E.find_lang btbl (XF.xt_lang t0) = Some (D2.to_blang L) /\ XF.xt_roots t0 = [root]) ->
  Proofs.EncWbxmlAbs.plain_env e = true -> D2.vals_ok L = true -> l_exts L = None ->
  TK.tree_ok3 L 0 root = true ->
  find (fun y => l_id y =? l_id L) TBL = Some L ->
  lang_choiceW TBL L e (wo_lang o') -> wo_charset o' = 0 ->
  E.o_version o < 4 -> E.header_public_id e < 4294967296 -> E.header_public_id e <> 0 ->
  (match Proofs.EncWbxmlAbs.header_pid e with Some p => D2.okb p = true | None => True end) ->
  no_data (D3.doc_events3 L e (E.o_keep_ws o) root) = true ->
  (* the source tree is a canonical tree of the front end *)
  src_okW L xo wa 0 root -> E.find_lang btbl (l_id L) = Some (D2.to_blang L) ->
  LangSelect.search_table main (option_map XF.str (X.xl_pub xl)) (Some (XF.str (X.xl_dtd xl))) None = Some L ->
  (* the generator: compact or canonical, not SyncML, white-space policy not stricter than the encoder's *)
  X.is_indent xo = false -> X.is_syncml xl = false -> keep_compatible (E.o_keep_ws o) xo ->
  (* the strings of the tree are XML names and characters (for the reader) *)
  XP.lang_ok xl = true -> XI.node_ok_g xl xo X.proot None (to_xnode TBL L root') = true ->
  (* the encoding of the normalised tree succeeds (the encoder's theorem on the wide fragment does not give success) *)
  E.enc_wbxml btbl (D2.to_blang L) o [R2] = E.EOk w2 -> E.len w2 < 4294967296 ->
  exists x c d,
    (* one trip *)
    wbxml2xml_model TBL o' w = mk_res ST_OK (Some (x ++ [0])) (N.of_nat (length x)) /\
    X.enc_xml_opts xl xo [to_xnode TBL L root'] = X.XOk x /\
    d = XP.doc_of xl [XR.XE (X.tname_bytes nmx) (XP.spec_attrs xl xo X.proot nmx ax) c] /\
    (forall fuel, (XP.node_fuel (to_xnode TBL L root') + 2 <= fuel)%nat -> XR.read_xml fuel x = XR.ROk d) /\
    (* the second trip *)
    events_of_info_ns d = XV.doc_events L (X.xl_root xl) (Some (X.xl_dtd xl)) (X.xl_pub xl) R2 /\
    forall doc2, doc2 <> [] ->
      XF.tree_from_xml main sub doc2 (events_of_info_ns d) true = inl (XF.mk_xtree (l_id L) 0 [R2]) /\
      r_out (ConvXml2Wbxml.xml2wbxml_events main btbl sub (events_of_info_ns d) true o doc2) = Some w2 /\
      wbxml2xml_model TBL o' w2 = mk_res ST_OK (Some (x ++ [0])) (N.of_nat (length x)).
Proof.
  intros e wa root R2 root' xl xo nmx ax H1 Hlen Hfront HP HV HX HT HFind Hch Hcs Hv Hp1 Hp0 Hpid Hnd Hsrc Hfl Hst Hcomp Hsyn Hkc Hlok Hok He2 Hlen2.
  set (keep := E.o_keep_ws o) in *.
  set (ch2 := flat_map (TN.norm_node keep false) ch) in *.
  assert (Hnorm : TN.norm_node keep false root = [R2]) by reflexivity.
  assert (Hen : enormalW keep R2).
  { pose proof (norm_enormalW L xo wa keep root 0%nat Hsrc) as H. rewrite Hnorm in H. inversion H. assumption. }
  assert (Hidem : flat_map (TN.norm_node keep false) ch2 = ch2).
  { subst ch2. apply TNP.flat_map_idem. apply Forall_forall. intros y _. apply TNP.norm_node_idem. }
  assert (Htg : tgoodW L xo root').
  { pose proof (norm_tgoodW L xo wa keep Hkc root 0%nat Hsrc) as H. rewrite Hnorm in H. inversion H. assumption. }
  assert (Hwok : wok L xo wa R2).
  { pose proof (norm_wok L xo wa keep root 0%nat Hsrc) as H. rewrite Hnorm in H. inversion H. assumption. }
  assert (Hcan : XE.root_canon L XV.no_emb R2 = true) by (exact (norm_root_canon L xo wa keep tag attrs ch Hsrc)).
  assert (HT2 : TK.tree_ok3 L 0 R2 = true).
  { pose proof (norm_tree_ok3 L keep root 0 HT) as H. rewrite Hnorm in H. cbn [forallb] in H. rewrite andb_true_r in H. exact H. }
  assert (Hnd2 : no_data (D3.doc_events3 L e keep R2) = true).
  { unfold D3.doc_events3 in *.
    assert (E1 : TN.norm keep [root] = [R2]) by (unfold TN.norm; cbn [flat_map]; rewrite app_nil_r; reflexivity).
    pose proof (TNP.norm_idempotent keep [root]) as Hi. rewrite E1 in Hi. rewrite Hi. rewrite <- E1. exact Hnd. }
  (* the first trip *)
  destruct (conversion_roundtrip_wide_choice main TBL btbl sub evs expat_ok o doc w L tag attrs ch o' H1 Hlen Hfront HP HV HX HT HFind Hch Hcs Hv Hp1 Hp0 Hpid Hnd)
    as (x & Hm & Hx & _).
  cbv zeta in Hx. fold e wa keep ch2 in Hx.
  pose proof (normal_fixW wa keep R2 Hen) as Hfix. cbn [TN.norm_node flat_map tnw tnodeW app R2] in Hfix. injection Hfix as Hfix.
  fold ch2 in Hfix. rewrite Hidem in Hfix. rewrite Hfix in Hx. fold xl xo in Hx.
  assert (Hx' : X.enc_xml_opts xl xo [to_xnode TBL L root'] = X.XOk x) by exact Hx.
  (* the second trip *)
  destruct (second_iteration_wide main TBL btbl sub L o o' tag attrs ch2 x w2 Hx' Hlok Hok Hcomp Hsyn Htg Hwok Hcan Hst Hen Hfl
              HP HV HX HT2 HFind Hch Hcs Hv Hp1 Hp0 Hpid Hnd2 He2 Hlen2) as (c & d & Hd & Hread & Hev & Hsecond).
  exists x, c, d. split; [exact Hm|]. split; [exact Hx'|]. split; [exact Hd|]. split; [exact Hread|]. split; [exact Hev|exact Hsecond].
Qed.
End EndToEndW.

(* ---- the element conditions from plainer ones ---- *)
Section EltOk.
Variables (L : lang) (xo : X.opts) (wa : bool).
Let xl := X.xlang_of L.

(* an attribute: name and value NUL-free, not called xmlns, and a value that attribute-value normalisation leaves alone
   (no TAB / LF / CR) unless the generation is canonical (then they are written as character references) *)
Definition attr_good (a : E.attr) : Prop :=
  cstr (E.attr_xml_name a) = E.attr_xml_name a /\ is_xmlns (XE.ev_attr a) = false /\
  cstr (E.at_value a) = E.at_value a /\ (X.is_canonical xo = true \/ XR.attr_ws (E.at_value a) = E.at_value a).

Lemma attrs_link_of attrs : wa = X.xl_has_attrs xl -> (wa = false -> attrs = []) -> Forall attr_good attrs -> attrs_link L xo wa attrs.
Proof.
  intros Hwa Hno HF. unfold attrs_link, attrs_part. fold xl. rewrite <- Hwa. split.
  - destruct wa; [clear Hno|rewrite (Hno eq_refl); reflexivity].
    induction HF as [|a r Ha _ IH]; [reflexivity|]. cbn [map]. rewrite IH. f_equal.
    destruct Ha as (Hn & _ & Hv & Hc). destruct a as [nm v]. unfold XE.ev_attr, E.attr_xml_name, D2.attr_event, to_attr in *. cbn [E.at_name E.at_value fst snd X.at_name] in *.
    unfold XP.spec_attr_value, X.attr_value_bytes. cbn [X.at_value]. rewrite Hv, Hv.
    assert (Hval : (if X.is_canonical xo then v else XR.attr_ws v) = v) by (destruct Hc as [-> | Hc]; [reflexivity|destruct (X.is_canonical xo); [reflexivity|exact Hc]]).
    f_equal; [|exact Hval]. destruct nm as [p t n ov|n]; cbn [X.aname_bytes X.ar_name]; [reflexivity|exact Hn].
  - clear Hno. induction HF as [|a r Ha _ IH]; [reflexivity|]. cbn [map forallb]. destruct Ha as (_ & Hx & _). rewrite Hx, IH. reflexivity.
Qed.

(* without a namespace table: the name of a tag that is a row of the table (as tree_ok3 demands) or a NUL-free literal *)
Lemma name_of_tree_ok3 tag attrs ch d : TK.tree_ok3 L d (E.NElt tag attrs ch) = true ->
  X.tname_bytes (to_tname L (TK.tag_event tag)) = E.tag_xml_name tag.
Proof.
  cbn [TK.tree_ok3]. intros H. rewrite !andb_true_iff in H. destruct H as [[[_ Htag] _] _].
  destruct tag as [p t o nm|nm]; cbn [TK.tag_event E.tag_xml_name].
  - rewrite !andb_true_iff in Htag. destruct Htag as [_ Hlk]. unfold to_tname. unfold Spec.lookup_tag in Hlk.
    destruct (find _ (opt_list (l_tags L))) as [r|]; [|discriminate].
    rewrite !andb_true_iff in Hlk. destruct Hlk as [_ Hb]. apply beq_eq in Hb. cbn [X.tname_bytes X.trow_of X.tr_name]. exact Hb.
  - apply andb_true_iff in Htag. destruct Htag as [Hok _]. cbn [to_tname X.tname_bytes].
    apply cstr_nulfree. unfold D2.okb, Spec.str_okb in Hok. apply andb_true_iff in Hok. destruct Hok as [_ Hn]. exact Hn.
Qed.
End EltOk.
