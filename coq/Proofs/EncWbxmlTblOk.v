(* C06 — the string table THROUGH THE DECODER'S EYES: every entry of the table (collected by wbxml_strtbl_initialize
   from the tree, or added during the walk for literal names, or the public id string) consists of octets 1..255 when the
   tree does, and then the offset of an entry resolves (Spec.str_at, on the table that is written) to exactly the string
   of that entry.  This is the `str_at` link between the encoder's table (list of entries) and the octets of the header.

   Also here: the hypotheses on the tree for the widest denotation theorem (tree_ok3: literal tags and literal attribute
   names allowed) and the events of such a tree (events3). *)
From Coq Require Import List NArith Lia Bool.
From Wbxml Require Import Base.Bits Model.Codec Model.TablesDefs Model.EncWbxml Model.TreeNorm
     Proofs.EncWbxmlProofs Proofs.TreeNormProofs Proofs.EncWbxmlAbs Proofs.EncWbxmlStrict2 Proofs.EncWbxmlDenote2.
From Wbxml Require Model.Parser Model.Spec.
Import ListNotations.
Local Open Scope N_scope.

(* ---- octets 1..255 ------------------------------------------------------------------------------------------------------ *)
Definition okc (c : N) : bool := (c <? 256) && negb (c =? 0).

Lemma okb_forall b : okb b = forallb okc b.
Proof.
  unfold okb, S.str_okb, S.bytes_okb, S.nul_free, S.is_byte, okc.
  induction b as [|c r IH]; cbn [forallb]; [reflexivity|]. rewrite <- IH.
  destruct (c <? 256), (c =? 0), (forallb _ r), (forallb _ r); reflexivity.
Qed.

Lemma okb_in b : okb b = true -> forall c, In c b -> okc c = true.
Proof. rewrite okb_forall, forallb_forall. auto. Qed.

Lemma okb_sub a b : (forall c, In c a -> In c b) -> okb b = true -> okb a = true.
Proof. intros H Hb. rewrite okb_forall. apply forallb_forall. intros c Hc. apply (okb_in b Hb), H, Hc. Qed.

Lemma drop_ws_in b c : In c (drop_ws b) -> In c b.
Proof.
  induction b as [|x r IH]; cbn [drop_ws]; [auto|]. destruct (isspace x); [intros H; right; now apply IH|auto].
Qed.

Lemma okb_strip b : okb b = true -> okb (strip_blanks b) = true.
Proof.
  apply okb_sub. intros c. rewrite strip_blanks_eq. intros H.
  apply in_rev in H. apply drop_ws_in in H. apply in_rev in H. now apply drop_ws_in in H.
Qed.

Lemma frev_in b c : In c (frev b) -> In c b.
Proof. unfold frev. rewrite rev_append_rev, app_nil_r. intros H. now apply in_rev in H. Qed.

Lemma split_words_in b : forall cur w c, In w (split_words_aux b cur) -> In c w -> In c b \/ In c cur.
Proof.
  induction b as [|x r IH]; intros cur w c; cbn [split_words_aux].
  - destruct cur as [|y cur']; [intros []|]. intros [<-|[]] Hc. right. now apply frev_in.
  - destruct (isspace x).
    + destruct cur as [|y cur'].
      * intros Hw Hc. destruct (IH [] w c Hw Hc) as [H|[]]. left; now right.
      * intros [<-|Hw] Hc; [right; now apply frev_in|]. destruct (IH [] w c Hw Hc) as [H|[]]. left; now right.
    + intros Hw Hc. destruct (IH (x :: cur) w c Hw Hc) as [H|[<-|H]]; [left; now right|left; now left|now right].
Qed.

Lemma okb_words b w : okb b = true -> In w (split_words b) -> okb w = true.
Proof.
  intros Hb Hw. apply (okb_sub w b); [|exact Hb]. intros c Hc.
  destruct (split_words_in b [] w c Hw Hc) as [H|[]]. exact H.
Qed.

(* ---- tables whose entries are made of such octets ----------------------------------------------------------------------- *)
Definition tbl_ok (T : list ste) : bool := forallb (fun x => okb (s_str x)) T.

Lemma strtbl_add_tok tbl tlen s idx tbl' tlen' :
  tbl_ok tbl = true -> okb s = true -> strtbl_add tbl tlen s = (idx, tbl', tlen') -> tbl_ok tbl' = true.
Proof.
  unfold strtbl_add. destruct (find _ tbl); intros Ht Hs H; injection H as <- <- <-; [exact Ht|].
  unfold tbl_ok in *. rewrite forallb_app, Ht. cbn. now rewrite Hs.
Qed.

Lemma strtbl_add_entry tbl tlen s idx tbl' tlen' :
  strtbl_add tbl tlen s = (idx, tbl', tlen') -> exists x, In x tbl' /\ s_off x = idx /\ s_str x = s.
Proof.
  unfold strtbl_add. destruct (find _ tbl) as [e0|] eqn:F; intros H; injection H as <- <- <-.
  - apply find_some in F as [Hin Heq]. apply andb_true_iff in Heq as [_ Heq]. apply beq_eq in Heq. exists e0. auto.
  - exists (mk_ste s tlen). split; [apply in_or_app; right; now left|auto].
Qed.

Definition refs_ok (refs : list refc) : bool := forallb (fun r => okb (r_str r)) refs.

Lemma ref_bump_ok refs s : forall refs', refs_ok refs = true -> ref_bump refs s = Some refs' -> refs_ok refs' = true.
Proof.
  unfold refs_ok. induction refs as [|r rest IH]; intros refs'; cbn [ref_bump]; [discriminate|].
  intros H. cbn [forallb] in H. apply andb_true_iff in H as [H1 H2].
  destruct (beq (r_str r) s).
  - intros E; injection E as <-. cbn [forallb r_str]. now rewrite H1, H2.
  - destruct (ref_bump rest s) as [rest'|] eqn:B; [|discriminate]. intros E; injection E as <-.
    cbn [forallb]. rewrite H1. exact (IH _ H2 eq_refl).
Qed.

Lemma count_refs_ok strings : forall refs, forallb okb strings = true -> refs_ok refs = true ->
  refs_ok (count_refs strings refs) = true.
Proof.
  induction strings as [|s rest IH]; intros refs Hs Hr; cbn [count_refs]; [exact Hr|].
  cbn [forallb] in Hs. apply andb_true_iff in Hs as [H1 H2].
  destruct (ref_bump refs s) as [refs'|] eqn:B.
  - apply IH; [exact H2|]. exact (ref_bump_ok _ _ _ Hr B).
  - apply IH; [exact H2|]. unfold refs_ok in *. rewrite forallb_app, Hr. cbn. now rewrite H1.
Qed.

Lemma keep_refs_ok refs : forall tbl tlen tbl' tlen' one,
  refs_ok refs = true -> tbl_ok tbl = true -> keep_refs refs tbl tlen = (tbl', tlen', one) ->
  tbl_ok tbl' = true /\ refs_ok one = true.
Proof.
  unfold refs_ok. induction refs as [|r rest IH]; intros tbl tlen tbl' tlen' one Hr Ht; cbn [keep_refs].
  - intros H; injection H as <- <- <-. auto.
  - cbn [forallb] in Hr. apply andb_true_iff in Hr as [H1 H2].
    destruct ((1 <? r_count r) && (3 <? len (r_str r))).
    + destruct (strtbl_add tbl tlen (r_str r)) as [[i t1] l1] eqn:A. intros H.
      exact (IH _ _ _ _ _ H2 (strtbl_add_tok _ _ _ _ _ _ Ht H1 A) H).
    + destruct (keep_refs rest tbl tlen) as [[t1 l1] o1] eqn:K. intros H; injection H as <- <- <-.
      destruct (IH _ _ _ _ _ H2 Ht K) as [A B]. split; [exact A|]. cbn [forallb]. now rewrite H1.
Qed.

Lemma strtbl_initialize_ok l roots tbl tlen :
  forallb okb (collect_nodes l roots) = true -> strtbl_initialize l roots = (tbl, tlen) -> tbl_ok tbl = true.
Proof.
  intros Hc. unfold strtbl_initialize, check_references. cbv zeta.
  destruct (keep_refs (count_refs (collect_nodes l roots) []) [] 0) as [[t1 l1] one] eqn:K1.
  destruct (keep_refs _ t1 l1) as [[t2 l2] one2] eqn:K2. intros H; injection H as <- <-.
  destruct (keep_refs_ok _ [] 0 _ _ _ (count_refs_ok _ [] Hc (eq_refl true)) (eq_refl true) K1) as [T1 O1].
  refine (proj1 (keep_refs_ok _ _ _ _ _ _ _ T1 K2)).
  apply count_refs_ok; [|reflexivity].
  apply forallb_forall. intros w Hw. apply in_flat_map in Hw as (r & Hr & Hw).
  unfold refs_ok in O1. rewrite forallb_forall in O1. exact (okb_words _ _ (O1 r Hr) Hw).
Qed.

(* ---- hypotheses on the tree (relative to the decoder's language table L) -------------------------------------------- *)
Definition unknown_tag (L : lang) (nm : bytes) : bool :=
  match bl_tags (to_blang L) with
  | None => true
  | Some rows => negb (existsb (fun r => beq (bt_name r) nm) rows)
  end.

Definition attr_ok3 (L : lang) (a : attr) : bool :=
  okb (at_value a) &&
  match at_name a with
  | AttrTok p t nm oval =>
    S.astart_tok_okb t && (p <? 256) &&
    match S.lookup_attr L p t with
    | Some r => (a_page r =? p) && (a_tok r =? t) && beq (P.B (a_name r)) nm &&
                match a_value r, oval with
                | Some v, Some xv => beq (P.B v) xv && is_prefix xv (at_value a)
                | None, None => true
                | _, _ => false
                end
    | None => false
    end
  | AttrLit nm =>
    (* a name the attribute table does not know (for this value): written as LITERAL, through the string table *)
    okb nm && match get_attr_from_xml (to_blang L) nm (at_value a) with None => true | Some _ => false end
  end.

Fixpoint tree_ok3 (L : lang) (depth : N) (n : node) : bool :=
  match n with
  | NElt tag attrs ch =>
    (depth <=? 1000) &&
    match tag with
    | TagTok p t o nm =>
      (5 <=? t) && (t <? 64) && (N.land o 1 =? 0) && (p <? 256) &&
      match S.lookup_tag L p t with
      | Some r => (t_page r =? p) && (t_tok r =? t) && beq (P.B (t_name r)) nm
      | None => false
      end
    | TagLit nm => okb nm && unknown_tag L nm
    end && forallb (attr_ok3 L) attrs && forallb (tree_ok3 L (depth + 1)) ch
  | NText c => okb c
  | _ => false
  end.

(* events of such a tree *)
Definition tag_event (t : tagname) : P.tagname :=
  match t with TagTok p tk _ nm => P.TagTok p tk nm | TagLit nm => P.TagLit nm end.

Fixpoint events3 (with_attrs : bool) (n : node) : list P.event :=
  match n with
  | NElt tag attrs ch =>
    P.EvStartElt (tag_event tag) (if with_attrs then map attr_event attrs else [])
      :: flat_map (events3 with_attrs) ch ++ [P.EvEndElt (tag_event tag)]
  | NText c => match cstr c with [] => [] | s => [P.EvChars s] end
  | _ => []
  end.

(* on trees with token tags only this is events2 *)
Lemma events3_events2 wa L : forall n d, tree_ok2 L d n = true -> events3 wa n = events2 wa n.
Proof.
  induction n as [tag attrs ch IH|c|ch IH| |lid roots IH] using node_ind'; intros d H; cbn [tree_ok2] in H; try discriminate; [|reflexivity].
  destruct tag as [p t o nm|nm]; [|discriminate]. cbn [events3 events2 tag_event].
  repeat (apply andb_true_iff in H; destruct H as [H ?]).
  match goal with X : forallb (tree_ok2 L (d + 1)) ch = true |- _ => rename X into Hch end.
  f_equal. f_equal. clear -IH Hch. induction IH as [|x r Hx _ IHr]; [reflexivity|].
  cbn [forallb] in Hch. apply andb_true_iff in Hch as [H1 H2]. cbn [flat_map]. now rewrite (Hx _ H1), (IHr H2).
Qed.

(* ---- the strings wbxml_strtbl_initialize collects from such a tree ----------------------------------------------------- *)
Lemma collect_attr_ok l L a : attr_ok3 L a = true -> forallb okb (collect_attr l a) = true.
Proof.
  unfold attr_ok3, collect_attr. intros H. apply andb_true_iff in H as [Hv _].
  destruct (3 <? len (at_value a)); [|reflexivity].
  destruct (match get_attr_from_xml l (attr_xml_name a) (cstr (at_value a)) with None => false | Some (_, Some 0) => false | Some (_, _) => true end);
    [reflexivity|]. destruct (contains_attr_value l (cstr (at_value a))); [reflexivity|]. cbn. now rewrite Hv.
Qed.

Lemma collect_node_ok l L : forall n d, tree_ok3 L d n = true -> forallb okb (collect_node l n) = true.
Proof.
  induction n as [tag attrs ch IH|c|ch IH| |lid roots IH] using node_ind'; intros d H; cbn [tree_ok3] in H; try discriminate.
  - apply andb_true_iff in H as [H Hch]. apply andb_true_iff in H as [_ Hat].
    cbn [collect_node]. rewrite forallb_app. apply andb_true_iff. split.
    + clear -Hat. induction attrs as [|a r IHa]; [reflexivity|]. cbn [forallb flat_map] in *.
      apply andb_true_iff in Hat as [H1 H2]. now rewrite forallb_app, (collect_attr_ok l L a H1), IHa.
    + clear -IH Hch. induction IH as [|x r Hx _ IHr]; [reflexivity|]. cbn [forallb flat_map] in *.
      apply andb_true_iff in Hch as [H1 H2]. now rewrite forallb_app, (Hx _ H1), IHr.
  - cbn [collect_node]. destruct (only_ws c); [reflexivity|]. destruct (3 <? len c); [|reflexivity]. cbn. now rewrite H.
Qed.

Lemma start_state_ok e L root d : tree_ok3 L d root = true -> tbl_ok (strtbl (start_state e [root])) = true.
Proof.
  intros H. unfold start_state. destruct (e_use_strtbl e); [|reflexivity].
  destruct (strtbl_initialize (e_lang e) [root]) as [t n] eqn:I. cbn.
  apply (strtbl_initialize_ok (e_lang e) [root] t n); [|exact I].
  unfold collect_nodes. cbn [flat_map]. rewrite app_nil_r. exact (collect_node_ok _ L root d H).
Qed.

(* ---- the walk keeps it (literal names are the only additions) ------------------------------------------------------------ *)
Lemma okb_cstr_ok b : okb b = true -> okb (cstr b) = true.
Proof. intros H. now rewrite (okb_cstr b H). Qed.

Lemma abs_attr_tok e L st a w st' : attr_ok3 L a = true -> tbl_ok (strtbl st) = true ->
  abs_attr e st a = Some (w, st') -> tbl_ok (strtbl st') = true.
Proof.
  intros Ha Ht. unfold abs_attr. destruct (abs_attr_start e st a) as [[[start vl] st1]|] eqn:AS; [|discriminate].
  assert (H1 : tbl_ok (strtbl st1) = true).
  { unfold abs_attr_start in AS. cbv zeta in AS.
    assert (TK : forall t p, tbl_ok (strtbl (snd (enc_attr_token st t p))) = true)
      by (intros t p; destruct (attr_token_same_tbl st t p) as [E _]; now rewrite E).
    assert (LT : forall nm vl0, okb nm = true -> (if e_use_strtbl e then
                  let '(idx, tbl', tlen') := strtbl_add (strtbl st) (strtbl_len st) (cstr nm) in
                  Some (S.AStartLit idx, vl0, set_strtbl st tbl' tlen') else None) = Some (start, vl, st1) -> tbl_ok (strtbl st1) = true).
    { intros nm vl0 Hn. destruct (e_use_strtbl e); [|discriminate]. destruct (strtbl_add _ _ _) as [[idx t'] l'] eqn:A.
      intros E; injection E as _ _ <-. cbn. exact (strtbl_add_tok _ _ _ _ _ _ Ht (okb_cstr_ok _ Hn) A). }
    unfold attr_ok3 in Ha. apply andb_true_iff in Ha as [Hval Ha]. pose proof (okb_cstr _ Hval) as Hc.
    destruct (at_name a) as [page tk nm oval|nm].
    - destruct oval as [xv|].
      + destruct (is_prefix xv (cstr (at_value a))) eqn:PX; [injection AS as _ _ <-; apply TK|].
        (* not reachable: attr_ok3 asks for the prefix *)
        exfalso. rewrite Hc in PX.
        apply andb_true_iff in Ha as [_ Ha]. destruct (S.lookup_attr L page tk) as [r|]; [|discriminate].
        apply andb_true_iff in Ha as [_ Ha]. destruct (a_value r); [|discriminate].
        apply andb_true_iff in Ha as [_ Ha]. congruence.
      + injection AS as _ _ <-; apply TK.
    - apply andb_true_iff in Ha as [Hn _].
      destruct (get_attr_from_xml _ _ _) as [[r lft]|]; [injection AS as _ _ <-; apply TK|exact (LT _ _ Hn AS)]. }
  destruct vl as [v|].
  - destruct (abs_value e st1 true v) as [[w0 st2]|] eqn:AV; [|discriminate]. intros E; injection E as _ <-.
    destruct (abs_value_same _ _ _ _ _ _ AV) as [S1 _]. now rewrite S1.
  - intros E; injection E as _ <-. exact H1.
Qed.

Lemma abs_attrs_tok e L l : forall st ws st', forallb (attr_ok3 L) l = true -> tbl_ok (strtbl st) = true ->
  abs_attrs e st l = Some (ws, st') -> tbl_ok (strtbl st') = true.
Proof.
  induction l as [|a r IH]; intros st ws st' Hl Ht; cbn [abs_attrs]; [intros E; injection E as _ <-; exact Ht|].
  cbn [forallb] in Hl. apply andb_true_iff in Hl as [H1 H2].
  destruct (abs_attr e st a) as [[w st1]|] eqn:A; [|discriminate].
  destruct (abs_attrs e st1 r) as [[ws' st2]|] eqn:R; [|discriminate]. intros E; injection E as _ <-.
  exact (IH _ _ _ H2 (abs_attr_tok _ _ _ _ _ _ H1 Ht A) R).
Qed.

Lemma abs_tag_tok e st tag ha hc sw wtag st' :
  match tag with TagLit nm => okb nm = true | TagTok _ t _ _ => (t =? 0) = false end -> tbl_ok (strtbl st) = true ->
  abs_tag e st tag ha hc = Some (sw, wtag, st') -> tbl_ok (strtbl st') = true.
Proof.
  intros Hn Ht. unfold abs_tag.
  assert (LIT : forall st1 nm, okb nm = true -> tbl_ok (strtbl st1) = true ->
            (if e_use_strtbl e then
               let '(idx, tbl', tlen') := strtbl_add (strtbl st1) (strtbl_len st1) (cstr nm) in
               Some (@None N, S.WTagLit idx, set_strtbl st1 tbl' tlen') else None) = Some (sw, wtag, st') -> tbl_ok (strtbl st') = true).
  { intros st1 nm Hok H1. destruct (e_use_strtbl e); [|discriminate]. destruct (strtbl_add _ _ _) as [[idx t'] l'] eqn:A.
    intros E; injection E as _ _ <-. cbn. exact (strtbl_add_tok _ _ _ _ _ _ H1 (okb_cstr_ok _ Hok) A). }
  destruct tag as [p t o nm|nm]; cbn [tag_triple tag_xml_name].
  - cbv zeta. rewrite Hn. destruct ((5 <=? t) && (t <? 64)); [|discriminate]. intros E; injection E as _ _ <-. exact Ht.
  - destruct (get_tag_from_xml (e_lang e) (tagcp st) nm) as [r|]; cbv zeta.
    + destruct (bt_tok r =? 0); [apply LIT; [exact Hn|exact Ht]|].
      destruct ((5 <=? bt_tok r) && (bt_tok r <? 64)); [|discriminate]. intros E; injection E as _ _ <-. exact Ht.
    + cbn [N.eqb]. apply LIT; [exact Hn|exact Ht].
Qed.

Lemma abs_node_tok e L : forall n par d st items st', tree_ok3 L d n = true -> tbl_ok (strtbl st) = true ->
  abs_node e par n st = Some (items, st') -> tbl_ok (strtbl st') = true.
Proof.
  induction n as [tag attrs ch IH|c|ch IH| |lid roots IH] using node_ind'; intros par d st items st' HT Ht; cbn [tree_ok3] in HT; try discriminate;
    cbn [abs_node].
  - apply andb_true_iff in HT as [HT Hch]. apply andb_true_iff in HT as [HT Hat]. apply andb_true_iff in HT as [_ Htag].
    destruct (abs_tag e st tag _ _) as [[[sw wtag] st1]|] eqn:AT; [|discriminate].
    destruct (if has_attr_table e then abs_attrs e st1 attrs else Some ([], st1)) as [[ws st2]|] eqn:AA; [|discriminate].
    destruct (abs_seq (abs_node e) (Some tag) ch st2) as [[its st3]|] eqn:AS; [|discriminate].
    intros E; injection E as _ <-. cbn [strtbl set_cur_tag].
    assert (T1 : tbl_ok (strtbl st1) = true).
    { refine (abs_tag_tok _ _ _ _ _ _ _ _ _ Ht AT). destruct tag as [p t o nm|nm].
      - repeat (apply andb_true_iff in Htag; destruct Htag as [Htag ?]). apply N.eqb_neq. apply N.leb_le in Htag. lia.
      - now apply andb_true_iff in Htag as [Htag _]. }
    assert (T2 : tbl_ok (strtbl st2) = true).
    { destruct (has_attr_table e); [exact (abs_attrs_tok _ _ _ _ _ _ Hat T1 AA)|now injection AA as _ <-]. }
    clear AT AA. revert st2 its st3 T2 AS. induction IH as [|x r Hx _ IHr]; intros st2 its st3 T2; cbn [abs_seq].
    + intros E; injection E as _ <-. exact T2.
    + cbn [forallb] in Hch. apply andb_true_iff in Hch as [H1 H2].
      destruct (abs_node e (Some tag) x st2) as [[a sa]|] eqn:A; [|discriminate].
      destruct (abs_seq (abs_node e) (Some tag) r sa) as [[b sb]|] eqn:B; [|discriminate]. intros E; injection E as _ <-.
      exact (IHr H2 _ _ _ (Hx _ _ _ _ _ H1 T2 A) B).
  - destruct (abs_text e st par c) as [[its st1]|] eqn:AT; [|discriminate]. intros E; injection E as _ <-.
    destruct (abs_text_same _ _ _ _ _ _ AT) as [S1 _]. cbn. now rewrite S1.
Qed.

(* ---- an entry's offset resolves, on the table written, to the entry's string ------------------------------------------------- *)
Lemma okb_cons c s : okb (c :: s) = okc c && okb s.
Proof. rewrite !okb_forall. reflexivity. Qed.

Lemma until_nul_okb s r : okb s = true -> S.until_nul (s ++ 0 :: r) = s.
Proof.
  induction s as [|c s IH]; cbn [app S.until_nul]; [reflexivity|]. rewrite okb_cons. intros H.
  apply andb_true_iff in H as [Hc Hs]. unfold okc in Hc. apply andb_true_iff in Hc as [_ Hc]. apply negb_true_iff in Hc.
  rewrite Hc. now rewrite IH.
Qed.

Lemma entry_split base T x : offsets_from base T -> In x T ->
  exists pre post, strtbl_construct T = pre ++ s_str x ++ 0 :: post /\ base + len pre = s_off x.
Proof.
  revert base. induction T as [|y r IH]; intros base Ho Hin; [destruct Hin|].
  cbn [offsets_from] in Ho. destruct Ho as [Hy Hr]. rewrite construct_cons. destruct Hin as [->|Hin].
  - exists [], (strtbl_construct r). split; [reflexivity|]. unfold len. cbn. lia.
  - destruct (IH _ Hr Hin) as (pre & post & E & Hl). exists (s_str y ++ 0 :: pre), post. split.
    + rewrite E, <- app_assoc. reflexivity.
    + rewrite len_app, len_cons. lia.
Qed.

Lemma skipn_len_app (a b : bytes) : skipn (List.length a) (a ++ b) = b.
Proof. induction a as [|x a IH]; [reflexivity|exact IH]. Qed.

Theorem entry_resolves T x : offsets_from 0 T -> In x T -> okb (s_str x) = true ->
  S.str_at (strtbl_construct T) (s_off x) = Some (s_str x).
Proof.
  intros Ho Hin Hok. destruct (entry_split 0 T x Ho Hin) as (pre & post & E & Hl). rewrite N.add_0_l in Hl.
  unfold S.str_at. rewrite E, <- Hl.
  assert (Hlt : len pre <? Parser.blen (pre ++ s_str x ++ 0 :: post) = true).
  { apply N.ltb_lt. change (Parser.blen (pre ++ s_str x ++ 0 :: post)) with (len (pre ++ s_str x ++ 0 :: post)).
    rewrite !len_app, len_cons. lia. }
  rewrite Hlt. f_equal. unfold Parser.drop, len. rewrite Nat2N.id, skipn_len_app. now apply until_nul_okb.
Qed.

Lemma offsets_lt base T x : offsets_from base T -> In x T -> s_off x < base + tbl_size T.
Proof.
  revert base. induction T as [|y r IH]; intros base Ho Hin; [destruct Hin|].
  cbn [offsets_from] in Ho. destruct Ho as [Hy Hr]. cbn [tbl_size]. destruct Hin as [->|Hin]; [lia|].
  specialize (IH _ Hr Hin). lia.
Qed.

Lemma construct_okb T : tbl_ok T = true -> S.bytes_okb (strtbl_construct T) = true.
Proof.
  induction T as [|y r IH]; [reflexivity|]. cbn [tbl_ok forallb]. intros H. apply andb_true_iff in H as [H1 H2].
  rewrite construct_cons. unfold S.bytes_okb in *. rewrite forallb_app. cbn [forallb].
  rewrite (IH H2), andb_true_r. unfold okb, S.str_okb in H1. apply andb_true_iff in H1 as [H1 _]. unfold S.bytes_okb in H1. now rewrite H1.
Qed.

(* ---- the same invariant for ANY predicate on octets (used with "< 256": byte arrays of binary-flagged elements may hold NUL) ---- *)
Section CharPred.
  Variable pc : N -> bool.
  Definition allc (b : bytes) : bool := forallb pc b.
  Definition tbl_all (T : list ste) : bool := forallb (fun x => allc (s_str x)) T.
  Definition refs_all (refs : list refc) : bool := forallb (fun r => allc (r_str r)) refs.

  Lemma allc_sub a b : (forall c, In c a -> In c b) -> allc b = true -> allc a = true.
  Proof. unfold allc. intros H Hb. apply forallb_forall. intros c Hc. rewrite forallb_forall in Hb. apply Hb, H, Hc. Qed.

  Lemma allc_words b w : allc b = true -> In w (split_words b) -> allc w = true.
  Proof.
    intros Hb Hw. apply (allc_sub w b); [|exact Hb]. intros c Hc.
    destruct (split_words_in b [] w c Hw Hc) as [H|[]]. exact H.
  Qed.

  Lemma allc_cstr b : allc b = true -> allc (cstr b) = true.
  Proof.
    unfold allc. induction b as [|c r IH]; cbn [cstr forallb]; [reflexivity|]. intros H. apply andb_true_iff in H as [H1 H2].
    destruct (N.eqb c 0); [reflexivity|]. cbn [forallb]. now rewrite H1, IH.
  Qed.

  Lemma strtbl_add_all tbl tlen s idx tbl' tlen' :
    tbl_all tbl = true -> allc s = true -> strtbl_add tbl tlen s = (idx, tbl', tlen') -> tbl_all tbl' = true.
  Proof.
    unfold strtbl_add. destruct (find _ tbl); intros Ht Hs H; injection H as <- <- <-; [exact Ht|].
    unfold tbl_all in *. rewrite forallb_app, Ht. cbn [forallb s_str andb]. now rewrite Hs.
  Qed.

  Lemma ref_bump_all refs s : forall refs', refs_all refs = true -> ref_bump refs s = Some refs' -> refs_all refs' = true.
  Proof.
    unfold refs_all. induction refs as [|r rest IH]; intros refs'; cbn [ref_bump]; [discriminate|].
    intros H. cbn [forallb] in H. apply andb_true_iff in H as [H1 H2].
    destruct (beq (r_str r) s).
    - intros E; injection E as <-. cbn [forallb r_str]. now rewrite H1, H2.
    - destruct (ref_bump rest s) as [rest'|] eqn:B; [|discriminate]. intros E; injection E as <-.
      cbn [forallb]. rewrite H1. exact (IH _ H2 eq_refl).
  Qed.

  Lemma count_refs_all strings : forall refs, forallb allc strings = true -> refs_all refs = true ->
    refs_all (count_refs strings refs) = true.
  Proof.
    induction strings as [|s rest IH]; intros refs Hs Hr; cbn [count_refs]; [exact Hr|].
    cbn [forallb] in Hs. apply andb_true_iff in Hs as [H1 H2].
    destruct (ref_bump refs s) as [refs'|] eqn:B.
    - apply IH; [exact H2|]. exact (ref_bump_all _ _ _ Hr B).
    - apply IH; [exact H2|]. unfold refs_all in *. rewrite forallb_app, Hr. cbn [forallb r_str andb]. now rewrite H1.
  Qed.

  Lemma keep_refs_all refs : forall tbl tlen tbl' tlen' one,
    refs_all refs = true -> tbl_all tbl = true -> keep_refs refs tbl tlen = (tbl', tlen', one) ->
    tbl_all tbl' = true /\ refs_all one = true.
  Proof.
    unfold refs_all. induction refs as [|r rest IH]; intros tbl tlen tbl' tlen' one Hr Ht; cbn [keep_refs].
    - intros H; injection H as <- <- <-. auto.
    - cbn [forallb] in Hr. apply andb_true_iff in Hr as [H1 H2].
      destruct ((1 <? r_count r) && (3 <? len (r_str r))).
      + destruct (strtbl_add tbl tlen (r_str r)) as [[i t1] l1] eqn:A. intros H.
        exact (IH _ _ _ _ _ H2 (strtbl_add_all _ _ _ _ _ _ Ht H1 A) H).
      + destruct (keep_refs rest tbl tlen) as [[t1 l1] o1] eqn:K. intros H; injection H as <- <- <-.
        destruct (IH _ _ _ _ _ H2 Ht K) as [A B]. split; [exact A|]. cbn [forallb]. now rewrite H1.
  Qed.

  Lemma strtbl_initialize_all l roots tbl tlen :
    forallb allc (collect_nodes l roots) = true -> strtbl_initialize l roots = (tbl, tlen) -> tbl_all tbl = true.
  Proof.
    intros Hc. unfold strtbl_initialize, check_references. cbv zeta.
    destruct (keep_refs (count_refs (collect_nodes l roots) []) [] 0) as [[t1 l1] one] eqn:K1.
    destruct (keep_refs _ t1 l1) as [[t2 l2] one2] eqn:K2. intros H; injection H as <- <-.
    destruct (keep_refs_all _ [] 0 _ _ _ (count_refs_all _ [] Hc (eq_refl true)) (eq_refl true) K1) as [T1 O1].
    refine (proj1 (keep_refs_all _ _ _ _ _ _ _ T1 K2)).
    apply count_refs_all; [|reflexivity].
    apply forallb_forall. intros w Hw. apply in_flat_map in Hw as (r & Hr & Hw).
    unfold refs_all in O1. rewrite forallb_forall in O1. exact (allc_words _ _ (O1 r Hr) Hw).
  Qed.
End CharPred.

(* octets < 256 *)
Definition tbl_lt (T : list ste) : bool := tbl_all S.is_byte T.

Lemma okb_lt b : okb b = true -> allc S.is_byte b = true.
Proof. unfold okb, S.str_okb, S.bytes_okb, allc. intros H. now apply andb_true_iff in H as [H _]. Qed.

Lemma tbl_ok_lt T : tbl_ok T = true -> tbl_lt T = true.
Proof.
  unfold tbl_ok, tbl_lt, tbl_all. intros H. apply forallb_forall. intros x Hx. rewrite forallb_forall in H. exact (okb_lt _ (H x Hx)).
Qed.

Lemma construct_lt T : tbl_lt T = true -> S.bytes_okb (strtbl_construct T) = true.
Proof.
  unfold tbl_lt, tbl_all. induction T as [|y r IH]; [reflexivity|]. cbn [forallb]. intros H. apply andb_true_iff in H as [H1 H2].
  rewrite construct_cons. unfold S.bytes_okb in *. rewrite forallb_app. cbn [forallb].
  rewrite (IH H2), andb_true_r. unfold allc in H1. now rewrite H1.
Qed.
