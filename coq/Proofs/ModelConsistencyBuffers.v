(* Cross-model consistency: the buffer / list helpers that other developments transcribed inside their own
   models (EncWbxml.v C06, EncXml.v C05, Parser.v C04, Typed.v C12, XmlFront.v C02, TreeGraph.v C18, Cli.v C20,
   XmlRead.v) mean the same as the C19 specification (Model/BufferSpec.v), which is proved equal to the
   transcription of wbxml_buffers.c (Model/BufferModel.v) and tied to the real functions.
   Qualified names are used throughout: several models define a `strip_blanks`, an `only_ws`, ... of their own. *)
From Coq Require Import List NArith Arith Lia Bool.
From Wbxml Require Model.Codec Model.BufferModel Model.BufferSpec Model.EncWbxml Model.EncXml Model.Parser
  Model.Typed Model.XmlFront Model.TreeGraph Model.Cli Model.XmlRead.
From Wbxml Require Proofs.BufferProofs Proofs.BufferSearchProofs Proofs.BufferWordsProofs.
Import ListNotations.
Local Open Scope N_scope.

Module C := Wbxml.Model.Codec.
Module BM := Wbxml.Model.BufferModel.
Module BS := Wbxml.Model.BufferSpec.
Module EW := Wbxml.Model.EncWbxml.
Module EX := Wbxml.Model.EncXml.
Module PA := Wbxml.Model.Parser.
Module TY := Wbxml.Model.Typed.
Module XF := Wbxml.Model.XmlFront.
Module TG := Wbxml.Model.TreeGraph.
Module CL := Wbxml.Model.Cli.
Module XR := Wbxml.Model.XmlRead.

(* ---------------------------------------------------------------------------------------- *)
(* 1. isspace: stated once                                                                   *)

(* isspace() in the "C" locale: exactly these six octets *)
Definition blank_set : list N := [9; 10; 11; 12; 13; 32].
Definition is_blank (c : N) : bool := existsb (N.eqb c) blank_set.

Lemma is_blank_In c : is_blank c = true <-> In c blank_set.
Proof.
  unfold is_blank. rewrite existsb_exists. split.
  - intros (x & Hx & He). apply N.eqb_eq in He. now subst.
  - intros H. exists c. split; [exact H | apply N.eqb_refl].
Qed.

Lemma range_blank c : ((c =? 32) || ((9 <=? c) && (c <=? 13))) = is_blank c.
Proof.
  apply eq_true_iff_eq. rewrite is_blank_In. unfold blank_set. cbn [In].
  rewrite orb_true_iff, andb_true_iff, N.eqb_eq, !N.leb_le. lia.
Qed.

Lemma codec_is_cspace c : C.is_cspace c = is_blank c.
Proof. apply range_blank. Qed.
Lemma encwbxml_isspace c : EW.isspace c = is_blank c.
Proof. apply range_blank. Qed.
Lemma encxml_isspace c : EX.c_isspace c = is_blank c.
Proof. apply range_blank. Qed.
Lemma cli_is_space c : CL.is_space c = is_blank c.
Proof. apply range_blank. Qed.

(* XmlRead.is_ws is NOT isspace and is not meant to be: it is XML 1.0's production S (#x20 | #x9 | #xD | #xA),
   used by the XML reader for attribute-value normalisation and markup white space.  Exactly: *)
Lemma xmlread_is_ws c : XR.is_ws c = is_blank c && negb ((c =? 11) || (c =? 12)).
Proof.
  unfold XR.is_ws. rewrite <- range_blank.
  destruct (c =? 32) eqn:E1; destruct (c =? 9) eqn:E2; destruct (c =? 10) eqn:E3; destruct (c =? 13) eqn:E4;
    destruct (c =? 11) eqn:E5; destruct (c =? 12) eqn:E6; destruct (9 <=? c) eqn:E7; destruct (c <=? 13) eqn:E8;
    try reflexivity; exfalso;
    repeat match goal with
           | H : (_ =? _) = true |- _ => apply N.eqb_eq in H
           | H : (_ =? _) = false |- _ => apply N.eqb_neq in H
           | H : (_ <=? _) = true |- _ => apply N.leb_le in H
           | H : (_ <=? _) = false |- _ => apply N.leb_gt in H
           end; lia.
Qed.

(* digits *)
Lemma digits_agree c : TY.is_digit c = EW.isdigit c /\ CL.is_digit c = EW.isdigit c.
Proof. split; reflexivity. Qed.

(* hexadecimal digits: every model's digit value is Codec's hexval on Codec's is_hex_digit *)
Definition hex_digit_spec (c : N) : option N := if C.is_hex_digit c then Some (C.hexval c) else None.

Lemma hex_digit_shape c :
  (if (48 <=? c) && (c <=? 57) then Some (c - 48)
   else if (97 <=? c) && (c <=? 102) then Some (c - 87)
   else if (65 <=? c) && (c <=? 70) then Some (c - 55) else None) = hex_digit_spec c.
Proof.
  unfold hex_digit_spec, C.is_hex_digit, C.hexval, C.u8.
  destruct ((48 <=? c) && (c <=? 57)) eqn:E1; cbn [orb]; [reflexivity|].
  destruct ((97 <=? c) && (c <=? 102)) eqn:E2; cbn [orb].
  { apply andb_true_iff in E2. destruct E2 as (A & B). apply N.leb_le in A. apply N.leb_le in B.
    f_equal. rewrite N.mod_small by lia. lia. }
  destruct ((65 <=? c) && (c <=? 70)) eqn:E3; [|reflexivity].
  apply andb_true_iff in E3. destruct E3 as (A & B). apply N.leb_le in A. apply N.leb_le in B.
  f_equal. rewrite N.mod_small by lia. lia.
Qed.

Lemma typed_hex_digit c : TY.hex_digit c = hex_digit_spec c.
Proof. apply hex_digit_shape. Qed.
Lemma encwbxml_hexdigit_val c : EW.hexdigit_val c = hex_digit_spec c.
Proof. apply hex_digit_shape. Qed.
Lemma encwbxml_is_hexdigit c : EW.is_hexdigit c = C.is_hex_digit c.
Proof. unfold EW.is_hexdigit. rewrite encwbxml_hexdigit_val. unfold hex_digit_spec. now destruct (C.is_hex_digit c). Qed.
Lemma typed_dec_digit c : TY.dec_digit c = if EW.isdigit c then Some (C.hexval c) else None.
Proof.
  unfold TY.dec_digit, TY.is_digit, EW.isdigit, C.hexval. now destruct ((48 <=? c) && (c <=? 57)).
Qed.

(* ---------------------------------------------------------------------------------------- *)
(* 2. EncWbxml.v (C06)                                                                       *)

Lemma frev_rev (b : list N) : EW.frev b = rev b.
Proof. unfold EW.frev. now rewrite rev_append_rev, app_nil_r. Qed.

Lemma encwbxml_drop_ws b : EW.drop_ws b = BS.drop_blanks b.
Proof. induction b as [|c r IH]; cbn; [reflexivity|]. change (EW.isspace c) with (C.is_cspace c). now rewrite IH. Qed.

Lemma encwbxml_strip_blanks b : EW.strip_blanks b = BS.trim_spec b.
Proof. unfold EW.strip_blanks, BS.trim_spec. now rewrite !frev_rev, !encwbxml_drop_ws. Qed.

Lemma encwbxml_only_ws b : EW.only_ws b = forallb C.is_cspace b.
Proof. reflexivity. Qed.

Lemma encwbxml_drop_zeros b : EW.drop_zeros b = BS.drop_zeros b.
Proof. induction b as [|c r IH]; cbn; [reflexivity|]. now rewrite IH. Qed.

Lemma encwbxml_remove_trailing_zeros b : EW.remove_trailing_zeros b = BS.rtz_spec b.
Proof. unfold EW.remove_trailing_zeros, BS.rtz_spec. now rewrite !frev_rev, encwbxml_drop_zeros. Qed.

Lemma encwbxml_split_words_aux b : forall cur, EW.split_words_aux b cur = BS.words_aux cur b.
Proof.
  induction b as [|c r IH]; intros cur; cbn.
  - destruct cur; [reflexivity | now rewrite frev_rev].
  - change (EW.isspace c) with (C.is_cspace c). destruct (C.is_cspace c); [|apply IH].
    destruct cur; [apply IH | now rewrite frev_rev, IH].
Qed.

Lemma encwbxml_split_words b : EW.split_words b = BS.words_spec b.
Proof. apply encwbxml_split_words_aux. Qed.

Lemma encwbxml_is_prefix p : forall s, EW.is_prefix p s = BS.is_prefix p s.
Proof. induction p as [|x p IH]; intros [|y s]; cbn; try reflexivity; now rewrite IH. Qed.

Lemma encwbxml_find_sub_idx needle s : forall idx, needle <> [] ->
  BS.find_sub needle s idx = option_map (fun k => idx + k) (EW.find_sub needle s).
Proof.
  induction s as [|y r IH]; intros idx Hn.
  - cbn. destruct needle; [congruence | reflexivity].
  - cbn [BS.find_sub EW.find_sub]. change (EW.is_prefix needle (y :: r)) with (BS.is_prefix needle (y :: r)).
    destruct (BS.is_prefix needle (y :: r)); cbn [option_map]; [f_equal; lia|].
    rewrite IH by exact Hn. destruct (EW.find_sub needle r); cbn [option_map]; [f_equal; lia | reflexivity].
Qed.

(* wbxml_buffer_search / search_cstr from position 0 *)
Lemma encwbxml_find_sub needle s : EW.find_sub needle s = BS.search_spec s needle 0.
Proof.
  unfold BS.search_spec. destruct needle as [|x nt] eqn:En.
  - destruct s; reflexivity.
  - rewrite <- En. assert (Hn : needle <> []) by (rewrite En; discriminate).
    destruct s as [|y r] eqn:Es.
    + cbn. rewrite En. reflexivity.
    + rewrite <- Es. replace (N.of_nat (length s) <=? 0) with false by (symmetry; apply N.leb_gt; rewrite Es; cbn; lia).
      cbn [N.to_nat skipn]. rewrite encwbxml_find_sub_idx by exact Hn.
      destruct (EW.find_sub needle s); cbn; [f_equal; lia | reflexivity].
Qed.

(* equality tests are "compare == 0" *)
Lemma beq_lex (a : list N) : forall b, EW.beq a b = match BS.lex_compare a b with Eq => true | _ => false end.
Proof.
  induction a as [|x a IH]; intros [|y b]; cbn; try reflexivity.
  destruct (x ?= y) eqn:E.
  - apply N.compare_eq_iff in E. subst. rewrite N.eqb_refl. apply IH.
  - replace (x =? y) with false; [reflexivity|]. symmetry. apply N.eqb_neq. intros ->. now rewrite N.compare_refl in E.
  - replace (x =? y) with false; [reflexivity|]. symmetry. apply N.eqb_neq. intros ->. now rewrite N.compare_refl in E.
Qed.

Lemma encxml_bytes_eqb (a : list N) : forall b, EX.bytes_eqb a b = EW.beq a b.
Proof. induction a as [|x a IH]; intros [|y b]; cbn; try reflexivity; now rewrite IH. Qed.

(* ---------------------------------------------------------------------------------------- *)
(* 3. EncXml.v (C05)                                                                         *)

Lemma encxml_drop_ws s : EX.drop_ws s = BS.drop_blanks s.
Proof. induction s as [|c r IH]; cbn; [reflexivity|]. unfold EX.c_isspace. now rewrite IH. Qed.

Lemma encxml_strip_blanks s : EX.strip_blanks s = BS.trim_spec s.
Proof. unfold EX.strip_blanks, BS.trim_spec. now rewrite !encxml_drop_ws. Qed.

Lemma encxml_only_ws s : EX.only_ws s = forallb C.is_cspace s.
Proof. reflexivity. Qed.

(* the entity scan: one append per input character (wbxml_buffer_append_char / append_cstr of the entity);
   the escaped text is what the plain-sequence `append` accumulates *)
Lemma encxml_escape_is_appends normalize s :
  EX.escape normalize s = fold_left (fun acc ch => fst (BS.app_ acc (EX.esc_char normalize ch))) s [].
Proof.
  unfold EX.escape, BS.app_. cbn [fst].
  assert (H : forall acc, fold_left (fun a ch => a ++ EX.esc_char normalize ch) s acc
                          = acc ++ flat_map (EX.esc_char normalize) s).
  { induction s as [|c r IH]; intros acc; cbn; [now rewrite app_nil_r|]. now rewrite IH, app_assoc. }
  now rewrite H.
Qed.

(* ---------------------------------------------------------------------------------------- *)
(* 4. Parser.v (C04): reading a C string                                                     *)

Lemma parser_split_nul_some r s t : PA.split_nul r = Some (s, t) -> s = C.cstr r /\ r = s ++ 0 :: t.
Proof.
  revert s t. induction r as [|b r IH]; intros s t H; [discriminate|]. cbn in *.
  destruct (b =? 0) eqn:E.
  - inversion H. subst. apply N.eqb_eq in E. subst. auto.
  - destruct (PA.split_nul r) as [(s', t')|]; [|discriminate]. inversion H. subst.
    destruct (IH s' t eq_refl) as (H1 & H2). split; [now rewrite <- H1 | now rewrite H2 at 1].
Qed.

Lemma parser_split_nul_none r : PA.split_nul r = None -> C.cstr r = r /\ ~ In 0 r.
Proof.
  induction r as [|b r IH]; intros H; [auto|]. cbn in *.
  destruct (b =? 0) eqn:E; [discriminate|]. destruct (PA.split_nul r) as [(s', t')|]; [discriminate|].
  destruct (IH eq_refl) as (H1 & H2). apply N.eqb_neq in E. split; [now rewrite H1 | intros [A | A]; congruence].
Qed.

(* ---------------------------------------------------------------------------------------- *)
(* 5. Typed.v (C12)                                                                          *)

Lemma typed_skip_space l : TY.skip_space l = BS.drop_blanks l.
Proof. induction l as [|c r IH]; cbn; [reflexivity|]. now rewrite IH. Qed.

Lemma typed_insert_at pos x l : TY.insert_at pos x l = BS.insert_spec l pos x.
Proof. reflexivity. Qed.

(* wbxml_buffer_delete: the specification's `del` (nothing happens at pos >= len) *)
Lemma typed_delete_at pos n l :
  TY.delete_at pos n l = fst (Proofs.BufferProofs.del l (N.of_nat pos) (N.of_nat n)).
Proof.
  unfold TY.delete_at, Proofs.BufferProofs.del.
  destruct (Nat.leb (length l) pos) eqn:E.
  - apply Nat.leb_le in E. replace (N.of_nat (length l) <=? N.of_nat pos) with true by (symmetry; apply N.leb_le; lia).
    reflexivity.
  - apply Nat.leb_gt in E. replace (N.of_nat (length l) <=? N.of_nat pos) with false by (symmetry; apply N.leb_gt; lia).
    destruct n as [|n'].
    + cbn [orb fst N.of_nat N.eqb]. now rewrite Nat.add_0_r, firstn_skipn.
    + replace (N.of_nat (S n') =? 0) with false by (symmetry; apply N.eqb_neq; lia).
      cbn [orb fst]. now rewrite !Nat2N.id.
Qed.

Lemma typed_rtz_loop fuel : forall l, (length l <= fuel)%nat -> TY.rtz_loop fuel l = BS.rtz_spec l.
Proof.
  unfold BS.rtz_spec. induction fuel as [|f IH]; intros l Hl.
  - destruct l; [reflexivity | cbn in Hl; lia].
  - cbn [TY.rtz_loop]. destruct (rev l) as [|x r] eqn:E.
    + cbn. apply (f_equal (@rev N)) in E. rewrite rev_involutive in E. now subst.
    + assert (Hl' : l = rev r ++ [x]).
      { apply (f_equal (@rev N)) in E. rewrite rev_involutive in E. exact E. }
      destruct x as [|p].
      * cbn [BS.drop_zeros N.eqb]. rewrite IH; [now rewrite rev_involutive|].
        rewrite Hl', app_length in Hl. cbn in Hl. lia.
      * cbn [BS.drop_zeros N.eqb]. rewrite <- E. now rewrite rev_involutive.
Qed.

Lemma typed_rtz l : TY.rtz l = BS.rtz_spec l.
Proof. apply typed_rtz_loop. lia. Qed.

(* ---------------------------------------------------------------------------------------- *)
(* 6. XmlFront.v (C02 front end)                                                             *)

(* joining a text node with the text that follows it is wbxml_buffer_append *)
Lemma xmlfront_add_text_kid_merge f t r text : XF.f_rkids f = EW.NText t :: r ->
  XF.add_text_kid f text = XF.mk_frame (XF.f_kind f) (EW.NText (fst (BS.app_ t text)) :: r).
Proof. intros H. unfold XF.add_text_kid. now rewrite H. Qed.

Lemma xmlfront_drop l : forall n, XF.drop l n = skipn (N.to_nat n) l.
Proof.
  induction l as [|x r IH]; intros n; cbn; [now rewrite skipn_nil|].
  destruct (n =? 0) eqn:E.
  - apply N.eqb_eq in E. now subst.
  - apply N.eqb_neq in E. rewrite IH. replace (N.to_nat n) with (S (N.to_nat (N.pred n))) by lia. reflexivity.
Qed.

Lemma xmlfront_take l : forall n, XF.take l n = firstn (N.to_nat n) l.
Proof.
  induction l as [|x r IH]; intros n; cbn; [now rewrite firstn_nil|].
  destruct (n =? 0) eqn:E.
  - apply N.eqb_eq in E. now subst.
  - apply N.eqb_neq in E. rewrite IH. replace (N.to_nat n) with (S (N.to_nat (N.pred n))) by lia. reflexivity.
Qed.

(* ---------------------------------------------------------------------------------------- *)
(* 7. TreeGraph.v (C18)                                                                      *)

Lemma treegraph_snoc_merge_text cs m c1 mk i c2 ncs :
  TG.snoc_merge (cs ++ [TG.R m (TG.DText c1) mk]) (TG.R i (TG.DText c2) ncs)
  = cs ++ [TG.R i (TG.DText (fst (BS.app_ c1 c2))) ncs].
Proof.
  induction cs as [|c rest IH]; [reflexivity|]. cbn [app].
  destruct (rest ++ [TG.R m (TG.DText c1) mk]) as [|r l] eqn:E; [destruct rest; discriminate|].
  assert (Hstep : TG.snoc_merge (c :: r :: l) (TG.R i (TG.DText c2) ncs) = c :: TG.snoc_merge (r :: l) (TG.R i (TG.DText c2) ncs)).
  { destruct c as [ci d ccs]. destruct d; reflexivity. }
  rewrite Hstep, IH. reflexivity.
Qed.

(* ---------------------------------------------------------------------------------------- *)
(* 8. and the same helpers are what the transcription of wbxml_buffers.c computes            *)

Import Wbxml.Proofs.BufferProofs Wbxml.Proofs.BufferWordsProofs.

Lemma helpers_are_model_ops b : BM.bstatic b = false -> Inv b -> BS.op_ok (BS.abs b) BM.OStrip = true ->
  BS.op_ok (BS.abs b) BM.OSplitWords = true ->
  BM.contents (fst (BM.step b BM.OStrip)) = EW.strip_blanks (BM.contents b) /\
  BM.contents (fst (BM.step b BM.OStrip)) = EX.strip_blanks (BM.contents b) /\
  BM.contents (fst (BM.step b BM.ORemoveTrailingZeros)) = EW.remove_trailing_zeros (BM.contents b) /\
  BM.contents (fst (BM.step b BM.ORemoveTrailingZeros)) = TY.rtz (BM.contents b) /\
  snd (BM.step b BM.OSplitWords) = BM.RWords (EW.split_words (BM.contents b)) /\
  snd (BM.step b BM.OOnlyWs) = BM.RBool (EW.only_ws (BM.contents b)) /\
  (forall str, snd (BM.step b (BM.OSearchCstr str 0)) = BM.RVal (EW.find_sub (C.cstr str) (BM.contents b))) /\
  (forall data, BM.contents (fst (BM.step b (BM.OAppendData data))) = BM.contents b ++ data).
Proof.
  intros Hst HI Hok1 Hok2.
  assert (Hc : forall o, BS.op_ok (BS.abs b) o = true ->
             BM.contents (fst (BM.step b o)) = fst (fst (BS.spec_step (BS.abs b) o)) /\
             snd (BM.step b o) = snd (BS.spec_step (BS.abs b) o)).
  { intros o Hok. destruct (step_refines_all b o HI Hok) as (Ha & Hr & _). split; [|exact Hr].
    unfold BS.abs in Ha. now apply (f_equal fst) in Ha. }
  unfold BS.abs in Hc, Hok1, Hok2. rewrite Hst in Hc, Hok1, Hok2.
  split; [rewrite (proj1 (Hc _ Hok1)); cbn; now rewrite encwbxml_strip_blanks|].
  split; [rewrite (proj1 (Hc _ Hok1)); cbn; now rewrite encxml_strip_blanks|].
  split; [rewrite (proj1 (Hc BM.ORemoveTrailingZeros eq_refl)); cbn; now rewrite encwbxml_remove_trailing_zeros|].
  split; [rewrite (proj1 (Hc BM.ORemoveTrailingZeros eq_refl)); cbn; now rewrite typed_rtz|].
  split; [rewrite (proj2 (Hc _ Hok2)); cbn; now rewrite encwbxml_split_words|].
  split; [rewrite (proj2 (Hc BM.OOnlyWs eq_refl)); reflexivity|].
  split.
  - intros str. rewrite (proj2 (Hc (BM.OSearchCstr str 0) eq_refl)). cbn. now rewrite encwbxml_find_sub.
  - intros data. rewrite (proj1 (Hc (BM.OAppendData data) eq_refl)). reflexivity.
Qed.
