(* C03 (second iteration, languages WITH a namespace table) — the regenerated namespace declarations: the generator writes
   xmlns="<namespace of the code page>" on the root element and wherever the code page changes; an XML parser in namespace mode
   (Expat as wbxml_tree_from_xml creates it) reports element names as "namespace|local" and does not report the xmlns attributes;
   the front end finds the code page by the namespace and the tag by the local name.  On the second trip the same tree comes
   back and the XML is reproduced byte for byte (compact / canonical generation). *)
From Coq Require Import String Ascii.
From Coq Require Import List NArith ZArith Lia Bool.
From Wbxml Require Import Model.Codec Model.TablesDefs Model.Parser Model.TreeBuild Model.TreeConv Model.Conv Model.ConvConcrete
     Proofs.TreeBuildProofs Proofs.TreeBuildProofs3 Proofs.TreeRoundTrip Proofs.ConvRoundTrip Proofs.ConvSecondIter.
From Wbxml Require Model.EncWbxml Model.TreeNorm Proofs.TreeNormProofs Proofs.EncWbxmlProofs Proofs.EncWbxmlSerialize Proofs.EncWbxmlDenote.
From Wbxml Require Model.EncXml Model.XmlRead Proofs.EncXmlProofs Proofs.EncXmlIndent.
From Wbxml Require Model.XmlFront Model.ConvXml2Wbxml Proofs.FrontSimpleNs.
Import ListNotations.
Local Open Scope N_scope.

Module FN := Wbxml.Proofs.FrontSimpleNs.

Section InfoNs.
Variables (TBL : list lang) (L : lang) (xo : X.opts) (nst : list X.nsrow).
Let xl := X.xlang_of L.
Hypothesis Hcompact : X.is_indent xo = false.
Hypothesis Hnst : X.xl_ns xl = Some nst.
Hypothesis Hsyn : X.is_syncml xl = false.

(* the items, with the namespace declarations the generator regenerates (spec_ns: on the root and where the code page changes) *)
Fixpoint item_ofN (parent : X.pinfo) (T : tnode) : list XR.xitem :=
  match T with
  | TElt tag _ ch =>
    let nmx := to_tname L tag in
    [XR.XE (X.tname_bytes nmx) (XP.spec_ns xl parent nmx) (flat_map (item_ofN (X.pinfo_below parent nmx)) ch)]
  | TText c => [XR.XT c]
  | _ => []
  end.
Definition items_forN (parent : X.pinfo) (T : tnode) : list XR.xitem :=
  match T with
  | TElt _ _ _ => XR.XT [] :: item_ofN parent T ++ [XR.XT []]
  | _ => item_ofN parent T
  end.

Lemma rewrite_idN t c : X.syncml_type_rewrite xl t c = c.
Proof.
  unfold X.syncml_type_rewrite. rewrite Hsyn. cbn [andb].
  assert (H : (X.xl_id xl =? 2201) = false) by (unfold X.is_syncml in Hsyn; apply orb_false_iff in Hsyn; tauto).
  rewrite H. reflexivity.
Qed.

Lemma text_infoN parent s c : gen_stable xo c -> X.e_in_cdata s = false -> X.tag_is_binary (X.text_tag s parent) = false ->
  XI.text_item xl xo parent s c = Some ([XR.XT c], X.mk_est (X.e_indent s) true (X.e_in_cdata s) (X.e_cur_tag s)).
Proof.
  intros (Hne & Hig & Hrb) Hcd Hb. unfold XI.text_item.
  assert (Hp : X.text_policy xo parent s c = Some c).
  { unfold X.text_policy. rewrite Hcd, Hb. cbn [negb andb]. destruct (X.is_canonical xo); [reflexivity|]. cbn [negb].
    assert (H1 : X.o_ignore_empty xo && X.only_ws c = false) by (destruct Hig as [-> | ->]; [reflexivity|apply andb_false_r]).
    rewrite H1. destruct Hrb as [-> | ->]; [reflexivity|]. destruct (X.o_remove_blanks xo); reflexivity. }
  rewrite Hp, rewrite_idN, Hb. reflexivity.
Qed.

Lemma spec_attrs_ns parent nm : XP.spec_attrs xl xo parent nm [] = XP.spec_ns xl parent nm.
Proof. unfold XP.spec_attrs. destruct (X.xl_has_attrs xl); cbn [map]; apply app_nil_r. Qed.

(* a list of children, given the statement for every child *)
Lemma info_list_compactN parent' (ch : list tnode) :
  Forall (fun T => forall s, X.e_in_cdata s = false -> X.tag_is_binary (X.text_tag s parent') = false ->
                   exists s', XI.info_g xl xo parent' s (to_xnode TBL L T) = Some (items_forN parent' T, s') /\ X.e_in_cdata s' = false) ch ->
  forall s, X.e_in_cdata s = false -> X.tag_is_binary (X.text_tag s parent') = false -> X.tag_is_binary (X.p_tag parent') = false ->
  exists s', XI.info_list_g (XI.info_g xl xo parent') (map (to_xnode TBL L) ch) s = Some (flat_map (items_forN parent') ch, s') /\ X.e_in_cdata s' = false.
Proof.
  induction 1 as [|T r HT _ IH]; intros s Hcd Hb Hpb; cbn [map flat_map XI.info_list_g].
  - exists s. split; [reflexivity|exact Hcd].
  - destruct (HT s Hcd Hb) as (s1 & -> & Hcd1).
    assert (Hcd1' : X.e_in_cdata (X.reset_cur s1) = false) by exact Hcd1.
    assert (Hb1 : X.tag_is_binary (X.text_tag (X.reset_cur s1) parent') = false) by (unfold X.text_tag, X.reset_cur; cbn [X.e_cur_tag]; exact Hpb).
    destruct (IH (X.reset_cur s1) Hcd1' Hb1 Hpb) as (s2 & -> & Hcd2). exists s2. split; [reflexivity|exact Hcd2].
Qed.

Lemma info_compactN : forall T, tgood L xo T -> forall parent s, X.e_in_cdata s = false -> X.tag_is_binary (X.text_tag s parent) = false ->
  exists s', XI.info_g xl xo parent s (to_xnode TBL L T) = Some (items_forN parent T, s') /\ X.e_in_cdata s' = false.
Proof.
  fix IH 1. intros T HT parent s Hcd Hb. destruct T as [tag a ch|c|ch|lid cs root]; cbn [tgood] in HT; try contradiction.
  - destruct a as [|a0 ar]; [|contradiction]. destruct HT as (Hnb & Hna & Hall).
    cbn [to_xnode map]. set (nm := to_tname L tag) in *.
    assert (Hw0 : XI.w0 xo s = []) by (unfold XI.w0; rewrite Hcompact; reflexivity).
    assert (Hnl : X.nl_if xo = []) by (unfold X.nl_if; rewrite Hcompact; reflexivity).
    assert (HF : Forall (fun T => forall s, X.e_in_cdata s = false -> X.tag_is_binary (X.text_tag s (X.pinfo_below parent nm)) = false ->
                     exists s', XI.info_g xl xo (X.pinfo_below parent nm) s (to_xnode TBL L T) = Some (items_forN (X.pinfo_below parent nm) T, s') /\ X.e_in_cdata s' = false) ch).
    { clear Hna. induction ch as [|x r IHr]; constructor; destruct Hall as [Hx1 Hx2].
      - intros s0 H0 H1. apply IH; [exact Hx1|exact H0|exact H1].
      - apply IHr. exact Hx2. }
    destruct ch as [|c0 cr].
    + cbn [map XI.info_g]. rewrite Hw0, Hnl, spec_attrs_ns. eexists. split; [reflexivity|exact Hcd].
    + assert (Hhc : XI.hc xo (map (to_xnode TBL L) (c0 :: cr)) = false) by (unfold XI.hc; rewrite Hcompact; reflexivity).
      assert (Hsin : XI.s_in xo (map (to_xnode TBL L) (c0 :: cr)) nm s = XP.set_cur (XP.cur_of nm) s) by (unfold XI.s_in; rewrite Hhc; reflexivity).
      assert (Hpb : X.tag_is_binary (X.p_tag (X.pinfo_below parent nm)) = false).
      { unfold X.pinfo_below. destruct nm as [r|l0]; cbn [X.p_tag]; [exact Hnb|reflexivity]. }
      assert (Hb0 : X.tag_is_binary (X.text_tag (XP.set_cur (XP.cur_of nm) s) (X.pinfo_below parent nm)) = false).
      { unfold X.text_tag, XP.set_cur. cbn [X.e_cur_tag]. destruct (XP.cur_of nm) as [r|] eqn:Ec; [exact Hnb|exact Hpb]. }
      destruct (info_list_compactN (X.pinfo_below parent nm) (c0 :: cr) HF (XP.set_cur (XP.cur_of nm) s) Hcd Hb0 Hpb) as (s4 & Hl & Hcd4).
      change (XI.info_g xl xo parent s (X.Elt nm [] (map (to_xnode TBL L) (c0 :: cr))))
        with (match XI.info_list_g (XI.info_g xl xo (X.pinfo_below parent nm)) (map (to_xnode TBL L) (c0 :: cr)) (XI.s_in xo (map (to_xnode TBL L) (c0 :: cr)) nm s) with
              | Some (its, s4) => Some ([XR.XT (XI.w0 xo s);
                     XR.XE (X.tname_bytes nm) (XP.spec_attrs xl xo parent nm []) (XP.merge_items (XR.XT (XI.w1 xo (map (to_xnode TBL L) (c0 :: cr))) :: its ++ [XR.XT (XI.w2 xo (map (to_xnode TBL L) (c0 :: cr)) s4)]));
                     XR.XT (X.nl_if xo)], XI.s_out xo (map (to_xnode TBL L) (c0 :: cr)) s4)
              | None => None end).
      rewrite Hsin, Hl. unfold XI.w1, XI.w2. rewrite Hhc, Hw0, Hnl, spec_attrs_ns.
      exists (XI.s_out xo (map (to_xnode TBL L) (c0 :: cr)) s4). split; [|unfold XI.s_out; cbn [X.e_in_cdata]; exact Hcd4].
      assert (Hm : XP.merge_items (XR.XT [] :: flat_map (items_forN (X.pinfo_below parent nm)) (c0 :: cr) ++ [XR.XT []])
                   = flat_map (item_ofN (X.pinfo_below parent nm)) (c0 :: cr)).
      { clear -Hna Hall. generalize (X.pinfo_below parent nm) as pp. intros pp.
        assert (G : forall l acc, no_adj l = true ->
                      (fix all (l : list tnode) : Prop := match l with [] => True | x :: r => tgood L xo x /\ all r end) l ->
                      (match l, acc with TText _ :: _, XR.XT _ :: _ => False | _, _ => True end) ->
                      fold_left XP.push_item (flat_map (items_forN pp) l) acc = rev (flat_map (item_ofN pp) l) ++ acc).
        { induction l as [|x r IHr]; intros acc Hn Ha Hacc; [reflexivity|]. destruct Ha as [Hx Hr].
          cbn [no_adj] in Hn. apply andb_prop in Hn. destruct Hn as [Hn1 Hn2]. apply negb_true_iff in Hn1.
          cbn [flat_map]. rewrite fold_left_app.
          destruct x as [tg a0 ch0|c|ch0|lid cs0 root0]; cbn [tgood] in Hx; try contradiction.
          - cbn [items_forN item_ofN app fold_left XP.push_item XR.push_text].
            rewrite IHr; [|exact Hn2|exact Hr|destruct r as [|[]]; exact I].
            cbn [rev]. rewrite <- app_assoc. reflexivity.
          - destruct Hx as (Hne & _). cbn [items_forN item_ofN fold_left XP.push_item].
            assert (Hp : XR.push_text c acc = XR.XT c :: acc).
            { unfold XR.push_text. destruct c as [|b0 br]; [congruence|]. destruct acc as [|[] ?]; try reflexivity. contradiction. }
            rewrite Hp. rewrite IHr; [|exact Hn2|exact Hr|].
            + cbn [app rev]. rewrite <- app_assoc. reflexivity.
            + destruct r as [|y r']; [exact I|]. cbn [is_text andb] in Hn1. destruct y; try exact I. discriminate. }
        unfold XP.merge_items. cbn [fold_left XP.push_item XR.push_text]. rewrite fold_left_app. cbn [fold_left XP.push_item XR.push_text].
        rewrite (G (c0 :: cr) [] Hna Hall); [|destruct c0; exact I]. rewrite app_nil_r, rev_involutive. reflexivity. }
      rewrite Hm. reflexivity.
  - cbn [to_xnode XI.info_g items_forN item_ofN]. rewrite (text_infoN parent s c HT Hcd Hb). eexists. split; [reflexivity|exact Hcd].
Qed.
End InfoNs.

(* ---- what an XML parser in namespace mode delivers (the assumption about Expat, XML_ParserCreateNS(NULL, '|')): a default
   namespace declaration is not an attribute; it applies to the element and to what is inside; the name of an element in a
   namespace is "namespace|local" ---- *)
Definition is_xmlns (kv : E.bytes * E.bytes) : bool := bytes_eqb (fst kv) XP.s_xmlns_name.
Fixpoint ev_item_ns (cur : option E.bytes) (i : XR.xitem) : list XF.event :=
  match i with
  | XR.XE name attrs c =>
    let ns := match find is_xmlns attrs with Some kv => Some (snd kv) | None => cur end in
    let qn := match ns with Some v => v ++ [XF.SEP] ++ name | None => name end in
    XF.EvStartElement qn (filter (fun kv => negb (is_xmlns kv)) attrs) 0 :: flat_map (ev_item_ns ns) c ++ [XF.EvEndElement qn 0]
  | XR.XT t => [XF.EvCharacters t]
  end.
Definition events_of_info_ns (d : XR.xdoc) : list XF.event :=
  [XF.EvXmlDecl (Some (XF.bs "1.0")) None; XF.EvStartDoctype (XR.d_root_name d) (Some (XR.d_system d)) (XR.d_public d)]
  ++ flat_map (ev_item_ns None) (XR.d_items d).

Section LinkNs.
Variables (L : lang) (nst : list X.nsrow).
Hypothesis Hnst : X.xl_ns (X.xlang_of L) = Some nst.

(* the name Expat reports for an element with this tag: the namespace of its code page, '|', the tag's name *)
Definition en (tag : E.tagname) : E.bytes :=
  match tag with
  | E.TagTok p _ _ nm => match X.get_xmlns nst p with Some ns => ns ++ [XF.SEP] ++ nm | None => nm end
  | E.TagLit nm => nm
  end.

(* every tag is a table row under its own code page, and the code page has a namespace *)
Fixpoint ns_ok (n : E.node) : Prop :=
  match n with
  | E.NElt (E.TagTok p t _ nm) _ ch =>
    (exists r ns, to_tname L (TagTok p t nm) = X.TTok r /\ X.tr_page r = p /\ X.tr_name r = nm /\ X.get_xmlns nst p = Some ns) /\
    (fix all (l : list E.node) : Prop := match l with [] => True | x :: r => ns_ok x /\ all r end) ch
  | E.NText _ => True
  | _ => False
  end.

Lemma ev_items_nodes_ns : forall n parent cur, ns_ok n ->
  (forall pg, X.p_page parent = Some pg -> cur = X.get_xmlns nst pg) ->
  flat_map (ev_item_ns cur) (item_ofN L parent (tnode_of n)) = FN.ev_node en n.
Proof.
  fix IH 1. intros n parent cur Hn Hcur. destruct n as [tg a ch|c|ch| |lid roots]; cbn [ns_ok] in Hn; try contradiction.
  - destruct tg as [p t o nm|nm]; [|contradiction]. destruct Hn as [(r & ns & Hr & Hpg & Hnm & Hns) Hall].
    cbn [tnode_of item_ofN flat_map app]. rewrite Hr. cbn [X.tname_bytes]. rewrite Hnm, app_nil_r.
    unfold XP.spec_ns. rewrite Hnst. unfold X.ns_wanted. rewrite Hpg, Hns.
    assert (Hchild : forall cur', cur' = Some ns ->
              flat_map (ev_item_ns cur') (flat_map (item_ofN L (X.pinfo_below parent (X.TTok r))) (map tnode_of ch)) = flat_map (FN.ev_node en) ch).
    { intros cur' Hc'. induction ch as [|x rr IHr]; [reflexivity|]. destruct Hall as [Hx Hrr]. cbn [map flat_map]. rewrite flat_map_app.
      rewrite (IH x (X.pinfo_below parent (X.TTok r)) cur' Hx); [rewrite (IHr Hrr); reflexivity|].
      intros pg Hp. cbn [X.pinfo_below X.p_page] in Hp. injection Hp as <-. rewrite Hpg, Hns. exact Hc'. }
    cbn [FN.ev_node en]. rewrite Hns.
    destruct (X.p_page parent) as [pg|] eqn:Epp.
    + destruct (pg =? p) eqn:Eq; cbn [negb].
      * apply N.eqb_eq in Eq. subst pg. cbn [ev_item_ns find filter]. rewrite (Hcur p eq_refl), Hns.
        f_equal. f_equal. apply Hchild. reflexivity.
      * cbn [ev_item_ns find filter is_xmlns fst snd]. change (bytes_eqb XP.s_xmlns_name XP.s_xmlns_name) with true. cbn [negb].
        f_equal. f_equal. apply Hchild. reflexivity.
    + cbn [ev_item_ns find filter is_xmlns fst snd]. change (bytes_eqb XP.s_xmlns_name XP.s_xmlns_name) with true. cbn [negb].
      f_equal. f_equal. apply Hchild. reflexivity.
  - reflexivity.
Qed.
End LinkNs.

Section SecondNs.
Variables (main TBL : list lang) (btbl : list E.blang) (sub : E.bytes -> XF.xtree + N).

Theorem second_iteration_ns (L : lang) (nst : list X.nsrow) l o o' p t opts nm ch2 x :
  let R2 := E.NElt (E.TagTok p t opts nm) [] ch2 in
  let root' := tnode_of R2 in
  let xl := X.xlang_of L in
  let xo := X.opts_of_params (gen_of (wo_gen o')) (wo_indent o') (wo_keep_ws o') in
  (* x is the XML of the first round trip: the generator's text for root' *)
  X.enc_xml_opts xl xo [to_xnode TBL L root'] = X.XOk x ->
  XP.lang_ok xl = true -> XI.node_ok_g xl xo X.proot None (to_xnode TBL L root') = true ->
  (* compact or canonical generation, a language without namespace table, not SyncML *)
  X.is_indent xo = false -> X.xl_ns xl = Some nst -> X.is_syncml xl = false ->
  (* the tree: non-binary rows, texts the generator leaves alone, names the front end resolves back *)
  tgood L xo root' -> ns_ok L nst R2 -> FN.fgood (en nst) L 0 R2 ->
  LangSelect.search_table main (option_map XF.str (X.xl_pub xl)) (Some (XF.str (X.xl_dtd xl))) None = Some L ->
  (* R2 is what the first round trip produced: normalising and converting it again changes nothing *)
  TElt (TagTok p t nm) [] (merge_text (flat_map tn (flat_map (TreeNorm.norm_node (E.o_keep_ws o) false) ch2))) = root' ->
  (* the fragment hypotheses of the first theorem, for R2 *)
  E.find_lang btbl (l_id L) = Some l ->
  Proofs.EncWbxmlSerialize.frag_lang l = true -> E.o_use_strtbl o = false -> Proofs.EncWbxmlProofs.no_pid (E.enc_env l o) = true ->
  Proofs.EncWbxmlSerialize.frag_node R2 = true ->
  find (fun y => l_id y =? l_id L) TBL = Some L ->
  lang_choice TBL L (E.header_public_id (E.enc_env l o)) (wo_lang o') -> wo_charset o' = 0 ->
  Proofs.EncWbxmlDenote.tree_ok L 0 R2 = true ->
  E.o_version o < 4 -> E.header_public_id (E.enc_env l o) < 4294967296 -> E.header_public_id (E.enc_env l o) <> 0 ->
  no_data (flat_map Proofs.EncWbxmlDenote.events_node (TreeNorm.norm (E.o_keep_ws o) [R2])) = true ->
  exists c d,
    d = XP.doc_of xl [XR.XE (X.tname_bytes (to_tname L (TagTok p t nm))) (XP.spec_ns xl X.proot (to_tname L (TagTok p t nm))) c] /\
    (forall fuel, (XP.node_fuel (to_xnode TBL L root') + 2 <= fuel)%nat -> XR.read_xml fuel x = XR.ROk d) /\
    events_of_info_ns d = FN.doc_events (en nst) (X.xl_root xl) (Some (X.xl_dtd xl)) (X.xl_pub xl) R2 /\
    forall doc2, doc2 <> [] ->
      XF.tree_from_xml main sub doc2 (events_of_info_ns d) true = inl (XF.mk_xtree (l_id L) 0 [R2]) /\
      exists w2, r_out (ConvXml2Wbxml.xml2wbxml_events main btbl sub (events_of_info_ns d) true o doc2) = Some w2 /\
                 wbxml2xml_model TBL o' w2 = mk_res ST_OK (Some (x ++ [0])) (N.of_nat (length x)).
Proof.
  intros R2 root' xl xo Hx Hlok Hok Hcomp Hns Hsyn Htg Hnm Hfg Hst Hfix Hfl HL HU HP HF HFind Hch Hcs HT Hv Hp1 Hp0 Hnd.
  subst xl.
  set (nmx := to_tname L (TagTok p t nm)) in *.
  assert (Hroot : to_xnode TBL L root' = X.Elt nmx [] (map (to_xnode TBL L) (map tnode_of ch2))) by reflexivity.
  rewrite Hroot in Hx, Hok.
  destruct (XI.read_enc_g (X.xlang_of L) xo _ _ _ x Hlok Hok Hx) as (c & s' & Hinfo & Hread).
  assert (Hb0 : X.tag_is_binary (X.text_tag (X.est0 0) X.proot) = false) by reflexivity.
  destruct (info_compactN TBL L xo Hcomp Hsyn root' Htg X.proot (X.est0 0) eq_refl Hb0) as (s2 & Hi2 & _).
  rewrite Hroot in Hi2. rewrite Hi2 in Hinfo.
  assert (Hsa : XP.spec_attrs (X.xlang_of L) xo X.proot nmx [] = XP.spec_ns (X.xlang_of L) X.proot nmx) by (apply spec_attrs_ns).
  rewrite Hsa in Hinfo, Hread.
  assert (Hc : c = flat_map (item_ofN L (X.pinfo_below X.proot nmx)) (map tnode_of ch2)).
  { cbn [items_forN item_ofN tnode_of root' R2 app] in Hinfo. fold nmx in Hinfo. injection Hinfo as Hc _. symmetry. exact Hc. }
  exists c, (XP.doc_of (X.xlang_of L) [XR.XE (X.tname_bytes nmx) (XP.spec_ns (X.xlang_of L) X.proot nmx) c]).
  split; [reflexivity|]. split; [rewrite Hroot; exact Hread|].
  assert (Hev : events_of_info_ns (XP.doc_of (X.xlang_of L) [XR.XE (X.tname_bytes nmx) (XP.spec_ns (X.xlang_of L) X.proot nmx) c])
                = FN.doc_events (en nst) (X.xl_root (X.xlang_of L)) (Some (X.xl_dtd (X.xlang_of L))) (X.xl_pub (X.xlang_of L)) R2).
  { unfold events_of_info_ns, FN.doc_events, XP.doc_of. cbn [XR.d_root_name XR.d_system XR.d_public XR.d_items]. f_equal.
    rewrite <- (ev_items_nodes_ns L nst Hns R2 X.proot None Hnm); [|intros pg Hpg; discriminate].
    subst c. reflexivity. }
  split; [exact Hev|]. intros doc2 Hd2. rewrite Hev.
  pose proof (FN.front_of_simple_tree (en nst) main sub doc2 L p t opts nm ch2 (X.xl_root (X.xlang_of L)) (Some (X.xl_dtd (X.xlang_of L))) (X.xl_pub (X.xlang_of L)) Hd2 Hst Hfg) as Hfront.
  split; [exact Hfront|].
  destruct (roundtrip_fragment_choice btbl TBL L l o p t opts nm ch2 (wo_lang o') HL HU HP HF HFind Hch HT Hv Hp1 Hp0 Hnd) as (bs & He & Hne & _).
  assert (Hout : r_out (ConvXml2Wbxml.xml2wbxml_events main btbl sub (FN.doc_events (en nst) (X.xl_root (X.xlang_of L)) (Some (X.xl_dtd (X.xlang_of L))) (X.xl_pub (X.xlang_of L)) R2) true o doc2) = Some bs).
  { unfold ConvXml2Wbxml.xml2wbxml_events, conv_run. destruct doc2 as [|d0 dr]; [congruence|]. cbv beta. fold R2 in Hfront. rewrite Hfront.
    unfold ConvXml2Wbxml.encode_tree. cbn [XF.xt_lang XF.xt_roots]. rewrite Hfl. unfold R2. rewrite He. reflexivity. }
  exists bs. split; [exact Hout|].
  destruct (conversion_roundtrip main TBL btbl sub _ true o doc2 bs L l p t opts nm ch2 o' Hout) as (x2 & Hm2 & Hx2 & _); try assumption.
  { intros t0 Ht0. fold R2 in Hfront. fold R2 in Ht0. rewrite Hfront in Ht0. injection Ht0 as <-. cbn [XF.xt_lang XF.xt_roots]. split; [exact Hfl|reflexivity]. }
  cbv zeta in Hx2. rewrite Hfix in Hx2. fold xo in Hx2. rewrite <- Hroot in Hx. rewrite Hx in Hx2. injection Hx2 as <-. exact Hm2.
Qed.
End SecondNs.
