(* C03 (second iteration) — what an XML parser delivers for the XML that the second conversion wrote (compact or canonical
   generation), and the second pass XML -> WBXML -> XML on it: the XML is byte-identical. *)
From Coq Require Import String Ascii.
From Coq Require Import List NArith ZArith Lia Bool.
From Wbxml Require Import Model.Codec Model.TablesDefs Model.Parser Model.TreeBuild Model.TreeConv Model.Conv Model.ConvConcrete
     Proofs.TreeBuildProofs Proofs.TreeBuildProofs3 Proofs.TreeRoundTrip Proofs.ConvRoundTrip.
From Wbxml Require Model.EncWbxml Model.TreeNorm Proofs.TreeNormProofs Proofs.EncWbxmlProofs Proofs.EncWbxmlSerialize Proofs.EncWbxmlDenote.
From Wbxml Require Model.EncXml Model.XmlRead Proofs.EncXmlProofs Proofs.EncXmlIndent.
From Wbxml Require Model.XmlFront Model.ConvXml2Wbxml Proofs.FrontSimple.
Import ListNotations.
Local Open Scope N_scope.

Module E := Wbxml.Model.EncWbxml.
Module X := Wbxml.Model.EncXml.
Module XP := Wbxml.Proofs.EncXmlProofs.
Module XI := Wbxml.Proofs.EncXmlIndent.
Module XR := Wbxml.Model.XmlRead.
Module XF := Wbxml.Model.XmlFront.
Module FS := Wbxml.Proofs.FrontSimple.

(* ---- (i) the infoset of the generated XML, compact / canonical generation, trees of elements and texts ---- *)
Section Info.
Variables (TBL : list lang) (L : lang) (xo : X.opts).
Let xl := X.xlang_of L.

(* the items an element / a text stands for (elements without attributes, no namespace declarations) *)
Fixpoint item_of (T : tnode) : list XR.xitem :=
  match T with
  | TElt tag _ ch => [XR.XE (X.tname_bytes (to_tname L tag)) [] (flat_map item_of ch)]
  | TText c => [XR.XT c]
  | _ => []
  end.

(* what info_g lists for a node: an element between two (empty) white-space texts *)
Definition items_for (T : tnode) : list XR.xitem :=
  match T with
  | TElt _ _ _ => XR.XT [] :: item_of T ++ [XR.XT []]
  | _ => item_of T
  end.

(* the generator's own text policy leaves the text alone *)
Definition gen_stable (c : bytes) : Prop :=
  c <> [] /\ (X.o_ignore_empty xo = false \/ X.only_ws c = false) /\ (X.o_remove_blanks xo = false \/ X.strip_blanks c = c).

Fixpoint tgood (T : tnode) : Prop :=
  match T with
  | TElt tag [] ch =>
    X.tag_is_binary (XP.cur_of (to_tname L tag)) = false /\ no_adj ch = true /\
    (fix all (l : list tnode) : Prop := match l with [] => True | x :: r => tgood x /\ all r end) ch
  | TText c => gen_stable c
  | _ => False
  end.

Hypothesis Hcompact : X.is_indent xo = false.
Hypothesis Hns : X.xl_ns xl = None.
Hypothesis Hsyn : X.is_syncml xl = false.

Lemma rewrite_id t c : X.syncml_type_rewrite xl t c = c.
Proof.
  unfold X.syncml_type_rewrite. rewrite Hsyn. cbn [andb].
  assert (H : (X.xl_id xl =? 2201) = false).
  { unfold X.is_syncml in Hsyn. apply orb_false_iff in Hsyn. tauto. }
  rewrite H. reflexivity.
Qed.

Lemma text_info parent s c : gen_stable c -> X.e_in_cdata s = false -> X.tag_is_binary (X.text_tag s parent) = false ->
  XI.text_item xl xo parent s c = Some ([XR.XT c], X.mk_est (X.e_indent s) true (X.e_in_cdata s) (X.e_cur_tag s)).
Proof.
  intros (Hne & Hig & Hrb) Hcd Hb. unfold XI.text_item.
  assert (Hp : X.text_policy xo parent s c = Some c).
  { unfold X.text_policy. rewrite Hcd, Hb. cbn [negb andb]. destruct (X.is_canonical xo); [reflexivity|]. cbn [negb].
    assert (H1 : X.o_ignore_empty xo && X.only_ws c = false) by (destruct Hig as [-> | ->]; [reflexivity|apply andb_false_r]).
    rewrite H1. destruct Hrb as [-> | ->]; [reflexivity|]. destruct (X.o_remove_blanks xo); reflexivity. }
  rewrite Hp, rewrite_id, Hb. reflexivity.
Qed.

Lemma spec_attrs_nil parent nm : XP.spec_attrs xl xo parent nm [] = [].
Proof. unfold XP.spec_attrs, XP.spec_ns. rewrite Hns. destruct (X.xl_has_attrs xl); reflexivity. Qed.

(* a list of children, given the statement for every child *)
Lemma info_list_compact parent' (ch : list tnode) :
  Forall (fun T => forall s, X.e_in_cdata s = false -> X.tag_is_binary (X.text_tag s parent') = false ->
                   exists s', XI.info_g xl xo parent' s (to_xnode TBL L T) = Some (items_for T, s') /\ X.e_in_cdata s' = false) ch ->
  forall s, X.e_in_cdata s = false -> X.tag_is_binary (X.text_tag s parent') = false -> X.tag_is_binary (X.p_tag parent') = false ->
  exists s', XI.info_list_g (XI.info_g xl xo parent') (map (to_xnode TBL L) ch) s = Some (flat_map items_for ch, s') /\ X.e_in_cdata s' = false.
Proof.
  induction 1 as [|T r HT _ IH]; intros s Hcd Hb Hpb; cbn [map flat_map XI.info_list_g].
  - exists s. split; [reflexivity|exact Hcd].
  - destruct (HT s Hcd Hb) as (s1 & -> & Hcd1).
    assert (Hcd1' : X.e_in_cdata (X.reset_cur s1) = false) by exact Hcd1.
    assert (Hb1 : X.tag_is_binary (X.text_tag (X.reset_cur s1) parent') = false) by (unfold X.text_tag, X.reset_cur; cbn [X.e_cur_tag]; exact Hpb).
    destruct (IH (X.reset_cur s1) Hcd1' Hb1 Hpb) as (s2 & -> & Hcd2). exists s2. split; [reflexivity|exact Hcd2].
Qed.

Lemma info_compact : forall T, tgood T -> forall parent s, X.e_in_cdata s = false -> X.tag_is_binary (X.text_tag s parent) = false ->
  exists s', XI.info_g xl xo parent s (to_xnode TBL L T) = Some (items_for T, s') /\ X.e_in_cdata s' = false.
Proof.
  fix IH 1. intros T HT parent s Hcd Hb. destruct T as [tag a ch|c|ch|lid cs root]; cbn [tgood] in HT; try contradiction.
  - destruct a as [|a0 ar]; [|contradiction]. destruct HT as (Hnb & Hna & Hall).
    cbn [to_xnode map]. set (nm := to_tname L tag) in *.
    assert (Hw0 : XI.w0 xo s = []) by (unfold XI.w0; rewrite Hcompact; reflexivity).
    assert (Hnl : X.nl_if xo = []) by (unfold X.nl_if; rewrite Hcompact; reflexivity).
    assert (HF : Forall (fun T => forall s, X.e_in_cdata s = false -> X.tag_is_binary (X.text_tag s (X.pinfo_below parent nm)) = false ->
                     exists s', XI.info_g xl xo (X.pinfo_below parent nm) s (to_xnode TBL L T) = Some (items_for T, s') /\ X.e_in_cdata s' = false) ch).
    { clear Hna. induction ch as [|x r IHr]; constructor; destruct Hall as [Hx1 Hx2].
      - intros s0 H0 H1. apply IH; [exact Hx1|exact H0|exact H1].
      - apply IHr. exact Hx2. }
    destruct ch as [|c0 cr].
    + cbn [map XI.info_g]. rewrite Hw0, Hnl, spec_attrs_nil. eexists. split; [reflexivity|exact Hcd].
    +       assert (Hhc : XI.hc xo (map (to_xnode TBL L) (c0 :: cr)) = false) by (unfold XI.hc; rewrite Hcompact; reflexivity).
      assert (Hsin : XI.s_in xo (map (to_xnode TBL L) (c0 :: cr)) nm s = XP.set_cur (XP.cur_of nm) s) by (unfold XI.s_in; rewrite Hhc; reflexivity).
      assert (Hpb : X.tag_is_binary (X.p_tag (X.pinfo_below parent nm)) = false).
      { unfold X.pinfo_below. destruct nm as [r|l0]; cbn [X.p_tag]; [exact Hnb|reflexivity]. }
      assert (Hb0 : X.tag_is_binary (X.text_tag (XP.set_cur (XP.cur_of nm) s) (X.pinfo_below parent nm)) = false).
      { unfold X.text_tag, XP.set_cur. cbn [X.e_cur_tag]. destruct (XP.cur_of nm) as [r|] eqn:Ec; [exact Hnb|exact Hpb]. }
      destruct (info_list_compact (X.pinfo_below parent nm) (c0 :: cr) HF (XP.set_cur (XP.cur_of nm) s) Hcd Hb0 Hpb) as (s4 & Hl & Hcd4).
      change (XI.info_g xl xo parent s (X.Elt nm [] (map (to_xnode TBL L) (c0 :: cr))))
        with (match XI.info_list_g (XI.info_g xl xo (X.pinfo_below parent nm)) (map (to_xnode TBL L) (c0 :: cr)) (XI.s_in xo (map (to_xnode TBL L) (c0 :: cr)) nm s) with
              | Some (its, s4) => Some ([XR.XT (XI.w0 xo s);
                     XR.XE (X.tname_bytes nm) (XP.spec_attrs xl xo parent nm []) (XP.merge_items (XR.XT (XI.w1 xo (map (to_xnode TBL L) (c0 :: cr))) :: its ++ [XR.XT (XI.w2 xo (map (to_xnode TBL L) (c0 :: cr)) s4)]));
                     XR.XT (X.nl_if xo)], XI.s_out xo (map (to_xnode TBL L) (c0 :: cr)) s4)
              | None => None end).
      rewrite Hsin, Hl. unfold XI.w1, XI.w2. rewrite Hhc, Hw0, Hnl, spec_attrs_nil.
      exists (XI.s_out xo (map (to_xnode TBL L) (c0 :: cr)) s4). split; [|unfold XI.s_out; cbn [X.e_in_cdata]; exact Hcd4].
      (* the merge of the children's items *)
      assert (Hm : XP.merge_items (XR.XT [] :: flat_map items_for (c0 :: cr) ++ [XR.XT []]) = flat_map item_of (c0 :: cr)).
      { clear -Hna Hall.
      assert (G : forall l acc, no_adj l = true ->
                    (fix all (l : list tnode) : Prop := match l with [] => True | x :: r => tgood x /\ all r end) l ->
                    (match l, acc with TText _ :: _, XR.XT _ :: _ => False | _, _ => True end) ->
                    fold_left XP.push_item (flat_map items_for l) acc = rev (flat_map item_of l) ++ acc).
      { induction l as [|x r IHr]; intros acc Hn Ha Hacc; [reflexivity|]. destruct Ha as [Hx Hr].
        cbn [no_adj] in Hn. apply andb_prop in Hn. destruct Hn as [Hn1 Hn2]. apply negb_true_iff in Hn1.
        cbn [flat_map]. rewrite fold_left_app.
        destruct x as [tg a0 ch0|c|ch0|lid cs0 root0]; cbn [tgood] in Hx; try contradiction.
        - cbn [items_for item_of app fold_left XP.push_item XR.push_text].
          rewrite IHr; [|exact Hn2|exact Hr|destruct r as [|[]]; exact I].
          cbn [rev]. rewrite <- app_assoc. reflexivity.
        - destruct Hx as (Hne & _). cbn [items_for item_of fold_left XP.push_item].
          assert (Hp : XR.push_text c acc = XR.XT c :: acc).
          { unfold XR.push_text. destruct c as [|b0 br]; [congruence|]. destruct acc as [|[] ?]; try reflexivity. contradiction. }
          rewrite Hp. rewrite IHr; [|exact Hn2|exact Hr|].
          + cbn [app rev]. rewrite <- app_assoc. reflexivity.
          + destruct r as [|y r']; [exact I|]. cbn [is_text andb] in Hn1. destruct y; try exact I. discriminate. }
      unfold XP.merge_items. cbn [fold_left XP.push_item XR.push_text]. rewrite fold_left_app. cbn [fold_left XP.push_item XR.push_text].
      rewrite (G (c0 :: cr) [] Hna Hall); [|destruct c0; exact I]. rewrite app_nil_r, rev_involutive. reflexivity. }
      rewrite Hm. reflexivity.
  - cbn [to_xnode XI.info_g items_for item_of]. rewrite (text_info parent s c HT Hcd Hb). eexists. split; [reflexivity|exact Hcd].
Qed.
End Info.

(* ---- the events an XML parser delivers for a document with that infoset (the assumption about Expat: one
   character-data event per text item, the XML declaration without encoding, the DOCTYPE as written) ---- *)
Fixpoint ev_item (i : XR.xitem) : list XF.event :=
  match i with
  | XR.XE name attrs c => XF.EvStartElement name attrs 0 :: flat_map ev_item c ++ [XF.EvEndElement name 0]
  | XR.XT t => [XF.EvCharacters t]
  end.

Definition events_of_info (d : XR.xdoc) : list XF.event :=
  [XF.EvXmlDecl (Some (XF.bs "1.0")) None; XF.EvStartDoctype (XR.d_root_name d) (Some (XR.d_system d)) (XR.d_public d)]
  ++ flat_map ev_item (XR.d_items d).

(* the encoder-side tree without the tags' option bits (which WBXML does not carry) *)
Fixpoint tnode_of (n : E.node) : tnode :=
  match n with
  | E.NElt (E.TagTok p t _ nm) _ ch => TElt (TagTok p t nm) [] (map tnode_of ch)
  | E.NElt (E.TagLit nm) _ ch => TElt (TagLit nm) [] (map tnode_of ch)
  | E.NText c => TText c
  | _ => TCData []
  end.

(* the generator writes the name the front end will look up *)
Fixpoint nm_ok (L : lang) (n : E.node) : Prop :=
  match n with
  | E.NElt (E.TagTok p t _ nm) _ ch =>
    X.tname_bytes (to_tname L (TagTok p t nm)) = nm /\
    (fix all (l : list E.node) : Prop := match l with [] => True | x :: r => nm_ok L x /\ all r end) ch
  | E.NText _ => True
  | _ => False
  end.

Lemma ev_items_nodes L : forall n, nm_ok L n -> flat_map ev_item (item_of L (tnode_of n)) = FS.ev_node n.
Proof.
  fix IH 1. intros n Hn. destruct n as [tg a ch|c|ch| |lid roots]; cbn [nm_ok] in Hn; try contradiction.
  - destruct tg as [p t o nm|nm]; [|contradiction]. destruct Hn as [Hnm Hall].
    cbn [tnode_of item_of flat_map ev_item FS.ev_node E.tag_xml_name app]. rewrite Hnm, app_nil_r. f_equal. f_equal.
    induction ch as [|x r IHr]; [reflexivity|]. destruct Hall as [Hx Hr]. cbn [map flat_map]. rewrite flat_map_app, (IH x Hx), (IHr Hr). reflexivity.
  - reflexivity.
Qed.

Section Second.
Variables (main TBL : list lang) (btbl : list E.blang) (sub : E.bytes -> XF.xtree + N).

Theorem second_iteration (L : lang) l o o' p t opts nm ch2 x :
  let R2 := E.NElt (E.TagTok p t opts nm) [] ch2 in
  let root' := tnode_of R2 in
  let xl := X.xlang_of L in
  let xo := X.opts_of_params (gen_of (wo_gen o')) (wo_indent o') (wo_keep_ws o') in
  (* x is the XML of the first round trip: the generator's text for root' *)
  X.enc_xml_opts xl xo [to_xnode TBL L root'] = X.XOk x ->
  XP.lang_ok xl = true -> XI.node_ok_g xl xo X.proot None (to_xnode TBL L root') = true ->
  (* compact or canonical generation, a language without namespace table, not SyncML *)
  X.is_indent xo = false -> X.xl_ns xl = None -> X.is_syncml xl = false ->
  (* the tree: non-binary rows, texts the generator leaves alone, names the front end resolves back *)
  tgood L xo root' -> nm_ok L R2 -> FS.fgood L 0 R2 ->
  LangSelect.search_table main (option_map XF.str (X.xl_pub xl)) (Some (XF.str (X.xl_dtd xl))) None = Some L ->
  (* R2 is what the first round trip produced: normalising and converting it again changes nothing *)
  TElt (TagTok p t nm) [] (merge_text (flat_map tn (flat_map (TreeNorm.norm_node (E.o_keep_ws o) false) ch2))) = root' ->
  (* the fragment hypotheses of the first theorem, for R2 *)
  E.find_lang btbl (l_id L) = Some l ->
  Proofs.EncWbxmlSerialize.frag_lang l = true -> E.o_use_strtbl o = false -> Proofs.EncWbxmlProofs.no_pid (E.enc_env l o) = true ->
  Proofs.EncWbxmlSerialize.frag_node R2 = true ->
  find (fun y => l_id y =? l_id L) TBL = Some L ->
  lang_choice TBL L (E.header_public_id (E.enc_env l o)) (wo_lang o') -> wo_charset o' = 0 ->
  Proofs.EncWbxmlDenote.tree_ok L 0 R2 = true ->
  E.o_version o < 4 -> E.header_public_id (E.enc_env l o) < 4294967296 -> E.header_public_id (E.enc_env l o) <> 0 ->
  no_data (flat_map Proofs.EncWbxmlDenote.events_node (TreeNorm.norm (E.o_keep_ws o) [R2])) = true ->
  exists c d,
    d = XP.doc_of xl [XR.XE (X.tname_bytes (to_tname L (TagTok p t nm))) [] c] /\
    (forall fuel, (XP.node_fuel (to_xnode TBL L root') + 2 <= fuel)%nat -> XR.read_xml fuel x = XR.ROk d) /\
    events_of_info d = FS.doc_events (X.xl_root xl) (Some (X.xl_dtd xl)) (X.xl_pub xl) R2 /\
    forall doc2, doc2 <> [] ->
      XF.tree_from_xml main sub doc2 (events_of_info d) true = inl (XF.mk_xtree (l_id L) 0 [R2]) /\
      exists w2, r_out (ConvXml2Wbxml.xml2wbxml_events main btbl sub (events_of_info d) true o doc2) = Some w2 /\
                 wbxml2xml_model TBL o' w2 = mk_res ST_OK (Some (x ++ [0])) (N.of_nat (length x)).
Proof.
  intros R2 root' xl xo Hx Hlok Hok Hcomp Hns Hsyn Htg Hnm Hfg Hst Hfix Hfl HL HU HP HF HFind Hch Hcs HT Hv Hp1 Hp0 Hnd.
  subst xl.
  (* the infoset of x *)
  assert (Hroot : to_xnode TBL L root' = X.Elt (to_tname L (TagTok p t nm)) [] (map (to_xnode TBL L) (map tnode_of ch2))) by reflexivity.
  rewrite Hroot in Hx, Hok.
  destruct (XI.read_enc_g (X.xlang_of L) xo _ _ _ x Hlok Hok Hx) as (c & s' & Hinfo & Hread).
  assert (Hb0 : X.tag_is_binary (X.text_tag (X.est0 0) X.proot) = false) by reflexivity.
  destruct (info_compact TBL L xo Hcomp Hns Hsyn root' Htg X.proot (X.est0 0) eq_refl Hb0) as (s2 & Hi2 & _).
  rewrite Hroot in Hi2. rewrite Hi2 in Hinfo.
  assert (Hsa : XP.spec_attrs (X.xlang_of L) xo X.proot (to_tname L (TagTok p t nm)) (map to_attr []) = []) by (apply spec_attrs_nil; exact Hns).
  change (map to_attr []) with (@nil X.attr) in *.
  assert (Hc : c = flat_map (item_of L) (map tnode_of ch2)).
  { rewrite Hsa in Hinfo. cbn [items_for item_of tnode_of root' R2 app] in Hinfo. injection Hinfo as Hc _. symmetry. exact Hc. }
  rewrite Hsa in Hread.
  exists c, (XP.doc_of (X.xlang_of L) [XR.XE (X.tname_bytes (to_tname L (TagTok p t nm))) [] c]).
  split; [reflexivity|]. split; [rewrite Hroot; exact Hread|].
  assert (Hev : events_of_info (XP.doc_of (X.xlang_of L) [XR.XE (X.tname_bytes (to_tname L (TagTok p t nm))) [] c])
                = FS.doc_events (X.xl_root (X.xlang_of L)) (Some (X.xl_dtd (X.xlang_of L))) (X.xl_pub (X.xlang_of L)) R2).
  { unfold events_of_info, FS.doc_events, XP.doc_of. cbn [XR.d_root_name XR.d_system XR.d_public XR.d_items]. f_equal.
    rewrite <- (ev_items_nodes L R2 Hnm). subst c. reflexivity. }
  split; [exact Hev|]. intros doc2 Hd2. rewrite Hev.
  pose proof (FS.front_of_simple_tree main sub doc2 L p t opts nm ch2 (X.xl_root (X.xlang_of L)) (Some (X.xl_dtd (X.xlang_of L))) (X.xl_pub (X.xlang_of L)) Hd2 Hst Hfg) as Hfront.
  split; [exact Hfront|].
  destruct (roundtrip_fragment_choice btbl TBL L l o p t opts nm ch2 (wo_lang o') HL HU HP HF HFind Hch HT Hv Hp1 Hp0 Hnd) as (bs & He & Hne & _).
  assert (Hout : r_out (ConvXml2Wbxml.xml2wbxml_events main btbl sub (FS.doc_events (X.xl_root (X.xlang_of L)) (Some (X.xl_dtd (X.xlang_of L))) (X.xl_pub (X.xlang_of L)) R2) true o doc2) = Some bs).
  { unfold ConvXml2Wbxml.xml2wbxml_events, conv_run. destruct doc2 as [|d0 dr]; [congruence|]. cbv beta. fold R2 in Hfront. rewrite Hfront.
    unfold ConvXml2Wbxml.encode_tree. cbn [XF.xt_lang XF.xt_roots]. rewrite Hfl. unfold R2. rewrite He. reflexivity. }
  exists bs. split; [exact Hout|].
  destruct (conversion_roundtrip main TBL btbl sub _ true o doc2 bs L l p t opts nm ch2 o' Hout) as (x2 & Hm2 & Hx2 & _); try assumption.
  { intros t0 Ht0. fold R2 in Hfront. fold R2 in Ht0. rewrite Hfront in Ht0. injection Ht0 as <-. cbn [XF.xt_lang XF.xt_roots]. split; [exact Hfl|reflexivity]. }
  cbv zeta in Hx2. rewrite Hfix in Hx2. fold xo in Hx2. rewrite <- Hroot in Hx. rewrite Hx in Hx2. injection Hx2 as <-. exact Hm2.
Qed.
End Second.

(* ---- a tree that is already normalised is a fixed point of normalisation + conversion ---- *)
Definition last_text (l : list tnode) : bool := match rev l with TText _ :: _ => true | _ => false end.

Lemma add_node_snoc : forall l n, (is_text n && last_text l = false) -> add_node l n = l ++ [n].
Proof.
  induction l as [|x r IH]; intros n H; [reflexivity|].
  destruct r as [|y r'].
  - cbn [app]. unfold last_text in H. cbn [rev app] in H. destruct x, n; cbn [is_text andb] in H; try reflexivity. discriminate.
  - change (add_node (x :: y :: r') n) with (x :: add_node (y :: r') n). cbn [app]. f_equal. apply IH.
    unfold last_text in *. cbn [rev] in *. destruct (rev r' ++ [y]) as [|z zs] eqn:E; [destruct (rev r'); discriminate|].
    cbn [app] in H. exact H.
Qed.

Lemma merge_text_id : forall l, no_adj l = true -> merge_text l = l.
Proof.
  unfold merge_text.
  assert (G : forall l acc, no_adj l = true -> (match l with x :: _ => is_text x && last_text acc | [] => false end) = false ->
              fold_left add_node l acc = acc ++ l).
  { induction l as [|x r IH]; intros acc Hn Hb; [rewrite app_nil_r; reflexivity|].
    cbn [fold_left]. rewrite (add_node_snoc acc x Hb). cbn [no_adj] in Hn. apply andb_prop in Hn. destruct Hn as [Hn1 Hn2].
    rewrite IH; [rewrite <- app_assoc; reflexivity|exact Hn2|].
    destruct r as [|y r']; [reflexivity|]. unfold last_text. rewrite rev_app_distr. cbn [rev app].
    apply negb_true_iff in Hn1. destruct x; cbn [is_text andb] in *; try (apply andb_false_r). rewrite Hn1. reflexivity. }
  intros l H. rewrite (G l [] H); [reflexivity|]. destruct l; [reflexivity|]. unfold last_text. cbn. apply andb_false_r.
Qed.

(* texts: no NUL, not empty, and what the encoder's white-space policy leaves alone *)
Fixpoint enormal (keep : bool) (n : E.node) : Prop :=
  match n with
  | E.NElt (E.TagTok _ _ _ _) _ ch =>
    FS.no_adj ch = true /\ (fix all (l : list E.node) : Prop := match l with [] => True | x :: r => enormal keep x /\ all r end) ch
  | E.NText c => cstr c = c /\ c <> [] /\ (keep = true \/ (E.only_ws c = false /\ E.strip_blanks c = c))
  | _ => False
  end.

Lemma no_adj_map ch : FS.no_adj ch = true -> no_adj (map tnode_of ch) = true.
Proof.
  induction ch as [|x r IH]; [reflexivity|]. cbn [FS.no_adj map no_adj]. intros H. apply andb_prop in H. destruct H as [H1 H2].
  rewrite (IH H2), andb_true_r.
  assert (Hx : is_text (tnode_of x) = FS.is_text x) by (destruct x as [[]| | | |]; reflexivity).
  destruct r as [|y r']; cbn [map]; [rewrite Hx; exact H1|].
  assert (Hy : is_text (tnode_of y) = FS.is_text y) by (destruct y as [[]| | | |]; reflexivity).
  rewrite Hx, Hy. exact H1.
Qed.

Lemma normal_fix keep : forall n, enormal keep n -> flat_map tn (TreeNorm.norm_node keep false n) = [tnode_of n].
Proof.
  fix IH 1. intros n Hn. destruct n as [tg a ch|c|ch| |lid roots]; cbn [enormal] in Hn; try contradiction.
  - destruct tg as [p t o nm|nm]; [|contradiction]. destruct Hn as [Hna Hall].
    cbn [TreeNorm.norm_node flat_map tn tnode_of app]. f_equal. f_equal.
    assert (Hc : flat_map tn (flat_map (TreeNorm.norm_node keep false) ch) = map tnode_of ch).
    { clear Hna. induction ch as [|x r IHr]; [reflexivity|]. destruct Hall as [Hx Hr]. cbn [flat_map map]. rewrite flat_map_app, (IH x Hx), (IHr Hr). reflexivity. }
    rewrite Hc. apply merge_text_id. apply no_adj_map. exact Hna.
  - destruct Hn as (Hcs & Hne & Hk). cbn [TreeNorm.norm_node tnode_of]. unfold TreeNorm.norm_text.
    assert (Ht : flat_map tn [E.NText c] = [TText c]).
    { cbn [flat_map tn app]. rewrite Hcs. destruct c; [congruence|reflexivity]. }
    destruct Hk as [Hk | [Hw Hs]]; [rewrite Hk; exact Ht|]. destruct (keep || false); [exact Ht|]. rewrite Hw, Hs. exact Ht.
Qed.

Lemma normal_fix_root keep p t opts nm ch2 : enormal keep (E.NElt (E.TagTok p t opts nm) [] ch2) ->
  TElt (TagTok p t nm) [] (merge_text (flat_map tn (flat_map (TreeNorm.norm_node keep false) ch2))) = tnode_of (E.NElt (E.TagTok p t opts nm) [] ch2).
Proof.
  intros H. pose proof (normal_fix keep _ H) as E. cbn [TreeNorm.norm_node flat_map tn app tnode_of] in E. injection E as E. rewrite E. reflexivity.
Qed.

Section SecondNormal.
Variables (main TBL : list lang) (btbl : list E.blang) (sub : E.bytes -> XF.xtree + N).

(* the same with the fixed-point hypothesis replaced by its cause: the tree is already normalised *)
Theorem second_iteration_normal (L : lang) l o o' p t opts nm ch2 x :
  let R2 := E.NElt (E.TagTok p t opts nm) [] ch2 in
  let root' := tnode_of R2 in
  let xl := X.xlang_of L in
  let xo := X.opts_of_params (gen_of (wo_gen o')) (wo_indent o') (wo_keep_ws o') in
  X.enc_xml_opts xl xo [to_xnode TBL L root'] = X.XOk x ->
  XP.lang_ok xl = true -> XI.node_ok_g xl xo X.proot None (to_xnode TBL L root') = true ->
  X.is_indent xo = false -> X.xl_ns xl = None -> X.is_syncml xl = false ->
  tgood L xo root' -> nm_ok L R2 -> FS.fgood L 0 R2 ->
  LangSelect.search_table main (option_map XF.str (X.xl_pub xl)) (Some (XF.str (X.xl_dtd xl))) None = Some L ->
  enormal (E.o_keep_ws o) R2 ->
  E.find_lang btbl (l_id L) = Some l ->
  Proofs.EncWbxmlSerialize.frag_lang l = true -> E.o_use_strtbl o = false -> Proofs.EncWbxmlProofs.no_pid (E.enc_env l o) = true ->
  Proofs.EncWbxmlSerialize.frag_node R2 = true ->
  find (fun y => l_id y =? l_id L) TBL = Some L ->
  lang_choice TBL L (E.header_public_id (E.enc_env l o)) (wo_lang o') -> wo_charset o' = 0 ->
  Proofs.EncWbxmlDenote.tree_ok L 0 R2 = true ->
  E.o_version o < 4 -> E.header_public_id (E.enc_env l o) < 4294967296 -> E.header_public_id (E.enc_env l o) <> 0 ->
  no_data (flat_map Proofs.EncWbxmlDenote.events_node (TreeNorm.norm (E.o_keep_ws o) [R2])) = true ->
  exists c d,
    d = XP.doc_of xl [XR.XE (X.tname_bytes (to_tname L (TagTok p t nm))) [] c] /\
    (forall fuel, (XP.node_fuel (to_xnode TBL L root') + 2 <= fuel)%nat -> XR.read_xml fuel x = XR.ROk d) /\
    events_of_info d = FS.doc_events (X.xl_root xl) (Some (X.xl_dtd xl)) (X.xl_pub xl) R2 /\
    forall doc2, doc2 <> [] ->
      XF.tree_from_xml main sub doc2 (events_of_info d) true = inl (XF.mk_xtree (l_id L) 0 [R2]) /\
      exists w2, r_out (ConvXml2Wbxml.xml2wbxml_events main btbl sub (events_of_info d) true o doc2) = Some w2 /\
                 wbxml2xml_model TBL o' w2 = mk_res ST_OK (Some (x ++ [0])) (N.of_nat (length x)).
Proof.
  intros R2 root' xl xo Hx Hlok Hok Hcomp Hns Hsyn Htg Hnm Hfg Hst Hen.
  exact (second_iteration main TBL btbl sub L l o o' p t opts nm ch2 x Hx Hlok Hok Hcomp Hns Hsyn Htg Hnm Hfg Hst
           (normal_fix_root (E.o_keep_ws o) p t opts nm ch2 Hen)).
Qed.
End SecondNormal.
