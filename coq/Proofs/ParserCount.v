(* C01 (parser core) — the NUMBER of events (and of attributes) of a successful parse is linear in the input:
   every event but the two document events is paid by a byte of its own.  ecnt counts a start-element event as
   1 + its number of attributes, a character-data event as 2 (the text node and the CDATA node the tree builder
   may open for it), every other body event as 1.  Invariant: cnt evs + 2 * |unread after| <= 2 * |unread before|. *)
From Coq Require Import String Ascii.
From Coq Require Import List NArith ZArith Lia Bool ZifyBool ZifyN.
From Wbxml Require Import Base.Bits Model.Codec Model.TablesDefs Model.Parser Proofs.ParserTotal.
Import ListNotations.
Local Open Scope N_scope.

Definition ecnt (e : event) : nat :=
  match e with
  | EvStartElt _ attrs => S (length attrs)
  | EvChars _ => 2
  | EvPi _ _ => 1
  | EvEndElt _ => 1
  | _ => 0
  end%nat.
Fixpoint cnt (l : list event) : nat := match l with [] => 0 | e :: r => ecnt e + cnt r end%nat.

Lemma cnt_app a b : cnt (a ++ b) = (cnt a + cnt b)%nat.
Proof. induction a as [|e a IH]; cbn [app cnt]; [reflexivity|]. rewrite IH. lia. Qed.

Definition cntS {A} (x : pres (A * pstate)) (st : pstate) (size : A -> nat) : Prop :=
  match x with POk (a, st') => (size a + 2 * length (s_rest st') <= 2 * length (s_rest st))%nat | _ => True end.

(* suffix facts that do not depend on the fuel *)
Definition sfxS {A} (k : nat) (x : pres (A * pstate)) (st : pstate) : Prop :=
  match x with POk (_, st') => sfx k (s_rest st') (s_rest st) | _ => True end.

Lemma okS_sfxS {A} k (x : pres (A * pstate)) st : okS k x st -> sfxS k x st.
Proof. unfold okS, sfxS. destruct x as [[a st']|e|]; tauto. Qed.

Tactic Notation "ccall" constr(t) "by" constr(l1) "as" simple_intropattern(x) :=
  generalize l1; unfold ok1, okS, okP, sfxS, cntS;
  destruct t as [x|?|]; cbn beta iota; intros ?; try exact I.

Ltac clia := repeat match goal with H : sfx _ _ _ |- _ => apply sfx_len in H end;
             cbn [s_rest set_rest set_cur length] in *; lia.

Section Count.
Variable env : penv.

Lemma attr_values_loop_sfx fuel : forall st acc, sfxS 0 (attr_values_loop fuel env st acc) st.
Proof.
  induction fuel as [|f IH]; intros st acc; cbn [attr_values_loop]; [exact I|].
  destruct (is_attr_value (s_rest st)); [|unfold sfxS; apply sfx_refl].
  ccall (parse_attr_value env st) by (attr_value_ok env st) as [v st1].
  specialize (IH st1 (app_opt acc v)). unfold sfxS in IH.
  destruct (attr_values_loop f env st1 (app_opt acc v)) as [[acc' st']|e|]; try exact I.
  apply (sfx_weaken (1 + 0) 0); [lia|]. eapply sfx_trans; eassumption.
Qed.

Lemma pi_values_loop_sfx fuel : forall st acc, sfxS 0 (pi_values_loop fuel env st acc) st.
Proof.
  induction fuel as [|f IH]; intros st acc; cbn [pi_values_loop]; [exact I|].
  destruct (is_token (s_rest st) 1); [unfold sfxS; apply sfx_refl|].
  ccall (parse_attr_value env st) by (attr_value_ok env st) as [v st1].
  specialize (IH st1 (app_opt acc v)). unfold sfxS in IH.
  destruct (pi_values_loop f env st1 (app_opt acc v)) as [[acc' st']|e|]; try exact I.
  apply (sfx_weaken (1 + 0) 0); [lia|]. eapply sfx_trans; eassumption.
Qed.

Lemma attribute_sfx fuel st : sfxS 1 (parse_attribute fuel env st) st.
Proof.
  unfold parse_attribute.
  ccall (parse_attr_start env st) by (attr_start_ok env st) as [[name start] st1].
  ccall (attr_values_loop fuel env st1 (opt_bytes start)) by (attr_values_loop_sfx fuel st1 (opt_bytes start)) as [value st2].
  destruct (attr_typed env name value) as [value'|e|]; try exact I. cbn beta iota.
  apply (sfx_weaken (1 + 0) 1); [lia|]. eapply sfx_trans; eassumption.
Qed.

Lemma attrs_loop_cnt fuel : forall st acc,
  match attrs_loop fuel env st acc with
  | POk (acc', st') => (length acc' + length (s_rest st') <= length acc + length (s_rest st))%nat
  | _ => True
  end.
Proof.
  induction fuel as [|f IH]; intros st acc; cbn [attrs_loop]; [exact I|].
  ccall (parse_attribute f env st) by (attribute_sfx f st) as [[name value] st1].
  destruct (is_token (s_rest st1) 1).
  - rewrite app_length. pose proof (sfx_tl (s_rest st1)). clia.
  - specialize (IH st1 (acc ++ [(name, value)])). destruct (attrs_loop f env st1 _) as [[acc' st']|e|]; try exact I.
    rewrite app_length in IH. clia.
Qed.

Lemma pi_cnt fuel st : s_rest st <> [] -> cntS (parse_pi fuel env st) st cnt.
Proof.
  intros Hne. unfold parse_pi.
  assert (H0 : sfx 1 (tl (s_rest st)) (s_rest st)) by (destruct (s_rest st) as [|b r]; [congruence|apply sfx_cons]).
  ccall (parse_attr_start env (set_rest st (tl (s_rest st)))) by (attr_start_ok env (set_rest st (tl (s_rest st)))) as [[name start] st1].
  ccall (pi_values_loop fuel env st1 (opt_bytes start)) by (pi_values_loop_sfx fuel st1 (opt_bytes start)) as [value st2].
  cbn [cnt ecnt]. pose proof (sfx_tl (s_rest st2)). clia.
Qed.

Lemma chars_event_cnt o : (cnt (chars_event o) <= 2)%nat.
Proof. destruct o as [[|b r]|]; cbn; lia. Qed.

Lemma content_cnt fuel n pelt st : cntS (pelt st) st cnt -> cntS (parse_content fuel env n pelt st) st cnt.
Proof.
  intros Hp. unfold parse_content. cbn zeta. destruct (s_rest st) as [|b0 r0] eqn:Er; [exact I|]. rewrite <- Er in *.
  destruct (is_extension (s_rest st)).
  { ccall (parse_extension env TagSpace st) by (extension_ok env TagSpace st) as [v st1]. pose proof (chars_event_cnt v). clia. }
  destruct (is_token (s_rest st) 2).
  { ccall (parse_entity (s_rest st)) by (entity_ok (s_rest st)) as [s r1]. pose proof (chars_event_cnt (Some s)). clia. }
  destruct (is_string (s_rest st)).
  { ccall (parse_string env (s_rest st)) by (string_ok env (s_rest st)) as [s r1]. pose proof (chars_event_cnt (Some s)). clia. }
  destruct (is_token (s_rest st) 195).
  { ccall (parse_opaque (s_rest st)) by (opaque_ok (s_rest st)) as [d r1].
    destruct (decode_opaque_content env (s_cur st) d) as [d'|e|]; try exact I. cbn beta iota.
    pose proof (chars_event_cnt (Some d')). clia. }
  destruct (is_token (s_rest st) 67); [apply pi_cnt; rewrite Er; discriminate|].
  destruct (is_token (s_rest st) 0).
  { ccall (parse_switch_page TagSpace st) by (switch_page_ok TagSpace st) as st1. cbn [cnt]. clia. }
  destruct (MAX_NESTING_DEPTH <=? n); [exact I|exact Hp].
Qed.

Lemma element_with_cnt fuel cloop st : (forall st', cntS (cloop st') st' cnt) ->
  cntS (parse_element_with fuel env cloop st) st cnt.
Proof.
  intros Hc. unfold parse_element_with.
  ccall (opt_switch_page TagSpace st) by (opt_switch_page_ok0 TagSpace st) as st0.
  ccall (parse_stag env st0) by (stag_ok1 env st0) as [[tag elt] r].
  cbn zeta.
  set (st1 := match elt with TagTok p t _ => set_cur (set_rest st0 r) (Some (p, t)) | TagLit _ => set_rest st0 r end).
  assert (E1 : s_rest st1 = r) by (subst st1; destruct elt; reflexivity). clearbody st1.
  assert (Ha : match (if N.land tag 128 =? 128 then attrs_loop fuel env st1 [] else POk ([], st1)) with
               | POk (al, st2) => (length al + length (s_rest st2) <= length (s_rest st1))%nat
               | _ => True end).
  { destruct (N.land tag 128 =? 128); [|cbn; lia]. pose proof (attrs_loop_cnt fuel st1 []) as Hl.
    destruct (attrs_loop fuel env st1 []) as [[al st2]|e|]; try exact I. cbn [length] in Hl. lia. }
  destruct (if N.land tag 128 =? 128 then attrs_loop fuel env st1 [] else POk ([], st1)) as [[attrs st2]|e|]; try exact I.
  rewrite E1 in Ha.
  destruct (N.land tag 64 =? 64).
  - ccall (cloop st2) by (Hc st2) as [evs st3]. cbn [cnt ecnt]. rewrite cnt_app. cbn [cnt ecnt]. clia.
  - unfold cntS. cbn [cnt ecnt]. clia.
Qed.

Lemma content_loop_cnt fuel : forall n st, cntS (content_loop fuel env n st) st cnt.
Proof.
  induction fuel as [|f IH]; intros n st; cbn [content_loop]; [exact I|].
  destruct (is_token (s_rest st) 1).
  - unfold cntS. cbn [cnt]. pose proof (sfx_tl (s_rest st)). clia.
  - assert (Hp : cntS (parse_element_with f env (content_loop f env (n + 1)) st) st cnt).
    { apply element_with_cnt. intros st'. apply IH. }
    ccall (parse_content f env n (parse_element_with f env (content_loop f env (n + 1))) st) by (content_cnt f n _ st Hp) as [evs st1].
    ccall (content_loop f env n st1) by (IH n st1) as [evs' st2]. rewrite cnt_app. lia.
Qed.

Lemma body_pi_loop_cnt fuel : forall st, cntS (body_pi_loop fuel env st) st cnt.
Proof.
  induction fuel as [|f IH]; intros st; cbn [body_pi_loop]; [exact I|].
  destruct (is_token (s_rest st) 67) eqn:Et; [|unfold cntS; cbn [cnt]; lia].
  assert (Hne : s_rest st <> []) by (destruct (s_rest st); [discriminate|discriminate]).
  ccall (parse_pi f env st) by (pi_cnt f st Hne) as [evs st1].
  ccall (body_pi_loop f env st1) by (IH st1) as [evs' st2]. rewrite cnt_app. lia.
Qed.

Lemma body_cnt fuel st : cntS (parse_body fuel env st) st cnt.
Proof.
  unfold parse_body.
  ccall (body_pi_loop fuel env st) by (body_pi_loop_cnt fuel st) as [e1 st1].
  assert (He : cntS (parse_element fuel env st1) st1 cnt).
  { unfold parse_element. apply element_with_cnt. intros st'. apply content_loop_cnt. }
  ccall (parse_element fuel env st1) by He as [e2 st2].
  ccall (body_pi_loop fuel env st2) by (body_pi_loop_cnt fuel st2) as [e3 st3]. rewrite !cnt_app. lia.
Qed.
End Count.

(* the whole document: at most two counted units per byte *)
Theorem parse_count tbl forced meta fuel bs evs :
  parse_with tbl forced meta fuel bs = POk evs -> (cnt evs <= 2 * length bs)%nat.
Proof.
  unfold parse_with. destruct bs as [|b0 bs0] eqn:Ebs; [discriminate|]. rewrite <- Ebs.
  generalize (uint8_ok bs). unfold ok1. destruct (parse_uint8 bs) as [[version r0]|e|]; try discriminate. intros H0.
  generalize (publicid_ok r0). unfold ok1. destruct (parse_publicid r0) as [[[pubid pubidx] r1]|e|]; try discriminate. intros H1.
  set (cs := if version =? 0 then POk (0, r1) else parse_charset meta r1).
  assert (Hcs : ok1 0 cs r1).
  { subst cs. destruct (version =? 0); [cbn; apply sfx_refl|].
    pose proof (charset_ok meta r1) as Hc. unfold ok1 in *. destruct (parse_charset meta r1) as [[c r]|e|]; try tauto.
    apply (sfx_weaken 1 0); [lia|exact Hc]. }
  clearbody cs. unfold ok1 in Hcs. destruct cs as [[charset r2]|e|]; try discriminate.
  generalize (strtbl_ok r2). unfold ok1.
  destruct (parse_strtbl r2) as [[[strtbl strtbl_len] r3]|e|]; try discriminate. intros H3.
  destruct (check_public_id _ _ _ _ _ _ _) as [l|]; [|discriminate].
  match goal with |- context [parse_body fuel ?env ?st] => pose proof (body_cnt env fuel st) as Hb; set (env0 := env) in *; set (st0 := st) in * end.
  unfold cntS in Hb. destruct (parse_body fuel env0 st0) as [[body st']|e|]; try discriminate.
  intros H. injection H as <-. cbn [cnt ecnt]. rewrite cnt_app. cbn [cnt ecnt].
  assert (Hr3 : (length (s_rest st0) <= length bs)%nat).
  { subst st0. cbn [s_rest]. apply sfx_len in H0. apply sfx_len in H1. apply sfx_len in Hcs. apply sfx_len in H3. lia. }
  lia.
Qed.
