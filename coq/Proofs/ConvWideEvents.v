(* C03 (wide fragment) — the source-side hypothesis of the idempotence theorem in terms of the source's EVENTS:
   xmlfront's evs_canon (Model/XmlFrontCanonEvents.v: no clause fires along the run of the callbacks; measured on the corpus by
   props/C02) gives root_canon of the tree the front end hands out (C02f_image_canonical_any); together with the part of
   src_okW that root_canon does not cover (fragW: no element named Data, not binary-flagged, elt_ok, NUL-free texts) this is
   src_okW. *)
From Coq Require Import String Ascii.
From Coq Require Import List NArith ZArith Lia Bool.
From Wbxml Require Import Model.Codec Model.TablesDefs Model.Tables Model.Parser Model.TreeBuild Model.TreeConv Model.Conv Model.ConvConcrete
     Proofs.TreeBuildProofs Proofs.TreeBuildProofs3 Proofs.TreeRoundTrip Proofs.TreeRoundTripWide Proofs.ConvRoundTrip
     Proofs.ConvRoundTripWide Proofs.ConvWideUnforced Proofs.ConvSecondIter Proofs.ConvSecondNs Proofs.ConvFirstToSecond Proofs.ConvSecondIterWide
     Proofs.ConvFirstToSecondWide.
From Wbxml Require Model.EncWbxml Model.TreeNorm Proofs.TreeNormProofs Proofs.EncWbxmlProofs Proofs.EncWbxmlAbs Proofs.EncWbxmlDenote2
     Proofs.EncWbxmlTblOk Proofs.EncWbxmlDenote3 Proofs.EncWbxmlSize Proofs.EncWbxmlSize2 Proofs.EncWbxmlSuccess.
From Wbxml Require Model.EncXml Model.XmlRead Proofs.EncXmlProofs Proofs.EncXmlIndent.
From Wbxml Require Model.XmlFront Model.XmlFrontEvents Model.XmlFrontCanonEvents Model.ConvXml2Wbxml Proofs.FrontSimple Proofs.XmlFrontInverse Proofs.XmlFrontImage.
Import ListNotations.
Local Open Scope N_scope.

Module XC := Wbxml.Model.XmlFrontCanonEvents.
Module XG := Wbxml.Proofs.XmlFrontImage.

Section FragW.
Variables (L : lang) (xo : X.opts) (wa : bool) (emb : N -> list E.node -> bool).

(* what src_okW asks beyond root_canon *)
Fixpoint fragW (n : E.node) : Prop :=
  match n with
  | E.NElt tg attrs ch =>
    E.beq (E.tag_xml_name tg) XF.s_Data = false /\
    X.tag_is_binary (XP.cur_of (to_tname L (TK.tag_event tg))) = false /\
    elt_ok L xo wa tg attrs /\
    (fix all (l : list E.node) : Prop := match l with [] => True | x :: r => fragW x /\ all r end) ch
  | E.NText c => cstr c = c
  | _ => False
  end.

(* the children of an element: canonical at their places => src_okW each, and no two adjacent texts *)
Lemma kids_src up k d : S (length up) = d ->
  forall ch, Forall (fun x => forall rd, XE.node_canon L emb up k rd x = true -> fragW x -> src_okW L xo wa d x) ch ->
  forall rd, XE.kids_canon L emb up k rd ch = true ->
  (fix all (l : list E.node) : Prop := match l with [] => True | x :: r => fragW x /\ all r end) ch ->
  (match ch, rd with E.NText _ :: _, E.NText _ :: _ => False | _, _ => True end) /\ FS.no_adj ch = true /\
  (fix all (l : list E.node) : Prop := match l with [] => True | x :: r => src_okW L xo wa d x /\ all r end) ch.
Proof.
  intros Hd. induction 1 as [|x r Hx _ IH]; intros rd HK HF; [destruct rd as [|[]]; repeat split|].
  cbn [XE.kids_canon] in HK. apply andb_true_iff in HK. destruct HK as [Hxc Hrc]. destruct HF as [Fx Fr].
  destruct (IH (x :: rd) Hrc Fr) as (Hhead & Hna & Hall).
  split; [|split].
  - destruct x as [tg a c0|b|c0| |lid roots]; try exact I. destruct rd as [|[tg' a' c1|b'|c1| |lid' roots'] rd']; try exact I.
    cbn [XE.node_canon] in Hxc. unfold XE.text_canon in Hxc. cbn [XE.head_is_text] in Hxc. rewrite andb_false_r in Hxc. discriminate.
  - cbn [FS.no_adj]. rewrite Hna, andb_true_r. apply negb_true_iff.
    destruct x as [tg a c0|b|c0| |lid roots]; try reflexivity. cbn [FS.is_text andb].
    destruct r as [|[tg' a' c1|b'|c1| |lid' roots'] r']; try reflexivity. exfalso. exact Hhead.
  - split; [exact (Hx rd Hxc Fx)|exact Hall].
Qed.

Lemma canon_src : forall n up k rdone, XE.node_canon L emb up k rdone n = true -> fragW n -> src_okW L xo wa (S (length up)) n.
Proof.
  fix IH 1. intros n up k rdone HC HF. destruct n as [tg a ch|c|ch| |lid roots]; cbn [fragW] in HF; try contradiction.
  - destruct HF as (Hnd & Hnb & He & HFk). cbn [XE.node_canon] in HC. rewrite XV.kids_fix in HC.
    repeat (apply andb_true_iff in HC; destruct HC as [HC ?]).
    match goal with X : XE.kids_canon _ _ _ _ _ _ = true |- _ => rename X into HK end.
    match goal with X : XE.tag_not_embedded _ _ = true |- _ => rename X into Hemb end.
    match goal with X : XE.attrs_canon _ _ = true |- _ => rename X into Hac end.
    match goal with X : (N.of_nat _ <? _) = true |- _ => rename X into Hdep end.
    assert (HFk' : Forall (fun x => forall rd, XE.node_canon L emb (XF.mk_frame k rdone :: up) (XF.FElt tg a None) rd x = true -> fragW x ->
                                     src_okW L xo wa (S (S (length up))) x) ch).
    { clear -IH. induction ch as [|x r IHr]; constructor; [|exact IHr]. intros rd H1 H2. exact (IH x _ _ rd H1 H2). }
    destruct (kids_src (XF.mk_frame k rdone :: up) (XF.FElt tg a None) (S (S (length up))) eq_refl ch HFk' [] HK HFk) as (_ & Hna & Hall).
    cbn [src_okW]. split; [exact HC|]. split; [right; exact Hemb|]. split; [exact Hac|]. split; [exact Hdep|].
    split; [exact Hnd|]. split; [exact Hnb|]. split; [exact He|]. split; [exact Hna|exact Hall].
  - cbn [XE.node_canon] in HC. unfold XE.text_canon in HC. apply andb_true_iff in HC. destruct HC as [HC _]. apply andb_true_iff in HC. destruct HC as [HC _].
    cbn [src_okW]. split; [exact HF|]. intros E0. subst c. discriminate.
Qed.

Lemma root_canon_src root : XE.root_canon L emb root = true -> fragW root -> src_okW L xo wa 0 root.
Proof.
  unfold XE.root_canon. destruct root as [tg a ch|c|ch| |lid roots]; try discriminate. intros HC HF. cbn [fragW] in HF. destruct HF as (Hnd & Hnb & He & HFk).
  repeat (apply andb_true_iff in HC; destruct HC as [HC ?]).
  match goal with X : XE.kids_canon _ _ _ _ _ _ = true |- _ => rename X into HK end.
  match goal with X : XE.attrs_canon _ _ = true |- _ => rename X into Hac end.
  assert (HFk' : Forall (fun x => forall rd, XE.node_canon L emb [] (XF.FElt tg a None) rd x = true -> fragW x -> src_okW L xo wa 1 x) ch).
  { clear. induction ch as [|x r IHr]; constructor; [|exact IHr]. intros rd H1 H2. exact (canon_src x [] _ rd H1 H2). }
  destruct (kids_src [] (XF.FElt tg a None) 1%nat eq_refl ch HFk' [] HK HFk) as (_ & Hna & Hall).
  cbn [src_okW]. split; [exact HC|]. split; [left; reflexivity|]. split; [exact Hac|]. split; [reflexivity|].
  split; [exact Hnd|]. split; [exact Hnb|]. split; [exact He|]. split; [exact Hna|exact Hall].
Qed.
End FragW.

Section EndToEndEvents.
Variables (main TBL : list lang) (btbl : list E.blang) (sub : E.bytes -> XF.xtree + N).

Theorem roundtrip_and_idempotence_wide_events evs expat_ok o doc w (L : lang) tag attrs ch o' :
  let e := E.enc_env (D2.to_blang L) o in
  let wa := E.has_attr_table e in
  let root := E.NElt tag attrs ch in
  let R2 := E.NElt tag attrs (flat_map (TN.norm_node (E.o_keep_ws o) false) ch) in
  let root' := tnodeW wa R2 in
  let xl := X.xlang_of L in
  let xo := X.opts_of_params (gen_of (wo_gen o')) (wo_indent o') (wo_keep_ws o') in
  let nmx := to_tname L (TK.tag_event tag) in
  let ax := map to_attr (if wa then map D2.attr_event attrs else []) in
  r_out (ConvXml2Wbxml.xml2wbxml_events main btbl sub evs expat_ok o doc) = Some w ->
  (forall t0, XF.tree_from_xml main sub doc evs expat_ok = inl t0 ->
     E.find_lang btbl (XF.xt_lang t0) = Some (D2.to_blang L) /\ XF.xt_roots t0 = [root]) ->
  (* the source's events are canonical (no clause of evs_canon fires); language ids are unique in the table *)
  XC.evs_canon main sub doc XV.no_emb evs = true -> (forall l, In l main -> l_id l = l_id L -> l = L) ->
  (* the fragment *)
  fragW L xo wa root ->
  Proofs.EncWbxmlAbs.plain_env e = true -> D2.vals_ok L = true -> l_exts L = None ->
  TK.tree_ok3 L 0 root = true ->
  Proofs.EncWbxmlSize.lang_vals_ok (D2.to_blang L) -> SZ2.names_ok root ->
  N.of_nat (33 * SZ2.wsize 0 root + SZ2.hdr (D2.to_blang L)) < 4294967296 ->
  find (fun y => l_id y =? l_id L) TBL = Some L ->
  lang_choiceW TBL L e (wo_lang o') -> wo_charset o' = 0 ->
  E.o_version o < 4 -> E.header_public_id e < 4294967296 -> E.header_public_id e <> 0 ->
  (match Proofs.EncWbxmlAbs.header_pid e with Some p => D2.okb p = true | None => True end) ->
  no_data (D3.doc_events3 L e (E.o_keep_ws o) root) = true ->
  E.find_lang btbl (l_id L) = Some (D2.to_blang L) ->
  LangSelect.search_table main (option_map XF.str (X.xl_pub xl)) (Some (XF.str (X.xl_dtd xl))) None = Some L ->
  X.is_indent xo = false -> X.is_syncml xl = false -> keep_compatible (E.o_keep_ws o) xo ->
  XP.lang_ok xl = true -> XI.node_ok_g xl xo X.proot None (to_xnode TBL L root') = true ->
  exists x c d w2,
    wbxml2xml_model TBL o' w = mk_res ST_OK (Some (x ++ [0])) (N.of_nat (length x)) /\
    X.enc_xml_opts xl xo [to_xnode TBL L root'] = X.XOk x /\
    d = XP.doc_of xl [XR.XE (X.tname_bytes nmx) (XP.spec_attrs xl xo X.proot nmx ax) c] /\
    (forall fuel, (XP.node_fuel (to_xnode TBL L root') + 2 <= fuel)%nat -> XR.read_xml fuel x = XR.ROk d) /\
    events_of_info_ns d = XV.doc_events L (X.xl_root xl) (Some (X.xl_dtd xl)) (X.xl_pub xl) R2 /\
    forall doc2, doc2 <> [] ->
      XF.tree_from_xml main sub doc2 (events_of_info_ns d) true = inl (XF.mk_xtree (l_id L) 0 [R2]) /\
      r_out (ConvXml2Wbxml.xml2wbxml_events main btbl sub (events_of_info_ns d) true o doc2) = Some w2 /\
      wbxml2xml_model TBL o' w2 = mk_res ST_OK (Some (x ++ [0])) (N.of_nat (length x)).
Proof.
  intros e wa root R2 root' xl xo nmx ax H1 Hfront Hevc Huniq Hfrag HP HV HX HT HVO HNO Hsize HFind Hch Hcs Hv Hp1 Hp0 Hpid Hnd Hfl Hst Hcomp Hsyn Hkc Hlok Hok.
  assert (Hsrc : src_okW L xo wa 0 root).
  { pose proof H1 as H1'. unfold ConvXml2Wbxml.xml2wbxml_events, conv_run in H1'. destruct doc as [|d0 dr]; [discriminate|].
    destruct (XF.tree_from_xml main sub (d0 :: dr) evs expat_ok) as [t0|er] eqn:Et; [|discriminate].
    destruct (Hfront t0 eq_refl) as [Hl Hroots].
    destruct (XG.image_canonical_any main sub (d0 :: dr) XV.no_emb evs expat_ok t0 Hevc Et) as [H0|(l & r & Hin & _ & Hlang & Hr & Hcan)];
      [rewrite Hroots in H0; discriminate|].
    rewrite Hroots in Hr. injection Hr as <-.
    assert (HlL : l = L).
    { apply Huniq; [exact Hin|]. unfold E.find_lang in Hl. apply find_some in Hl. destruct Hl as [_ Hb]. apply N.eqb_eq in Hb.
      cbn [D2.to_blang E.bl_id] in Hb. congruence. }
    subst l. exact (root_canon_src L xo wa XV.no_emb root Hcan Hfrag). }
  exact (roundtrip_and_idempotence_wide_total main TBL btbl sub evs expat_ok o doc w L tag attrs ch o' H1 Hfront HP HV HX HT HVO HNO Hsize HFind Hch Hcs
           Hv Hp1 Hp0 Hpid Hnd Hsrc Hfl Hst Hcomp Hsyn Hkc Hlok Hok).
Qed.
End EndToEndEvents.
