(* C17 — the per-node WBXML encoding of Model/EncWbxml.v is a function of (flow context, node):
   frame (string table neither read nor written when disabled), balance (in_cdata / cdata restored),
   and the instantiation of the flow theorems. *)
From Coq Require Import List NArith Bool Lia.
From Wbxml Require Import Model.Codec Model.EncWbxml Model.Flow Model.FlowEnc Proofs.FlowProofs.
Import ListNotations.
Local Open Scope N_scope.

Lemma node_ind' (P : node -> Prop) :
  (forall tag attrs ch, Forall P ch -> P (NElt tag attrs ch)) -> (forall c, P (NText c)) ->
  (forall ch, Forall P ch -> P (NCData ch)) -> P NPi -> (forall lid roots, Forall P roots -> P (NTree lid roots)) ->
  forall n, P n.
Proof.
  intros HE HT HC HP HR. fix IH 1. intros [tag attrs ch | c | ch | | lid roots].
  - apply HE. induction ch; constructor; [apply IH | assumption].
  - apply HT.
  - apply HC. induction ch; constructor; [apply IH | assumption].
  - apply HP.
  - apply HR. induction roots; constructor; [apply IH | assumption].
Qed.

Definition lift (t : list ste) (k : N) (r : eres (EncWbxml.bytes * est)) : eres (EncWbxml.bytes * est) :=
  match r with EOk (b, st') => EOk (b, set_strtbl st' t k) | EErr c => EErr c end.

Definition samecd (st st' : est) : Prop := in_cdata st' = in_cdata st /\ cdata st' = cdata st.

Lemma samecd_refl st : samecd st st. Proof. split; reflexivity. Qed.
Lemma samecd_trans a b c : samecd a b -> samecd b c -> samecd a c.
Proof. intros [H1 H2] [H3 H4]. split; congruence. Qed.

(* projections and setters commute with set_strtbl *)
Lemma ss_tagcp st t k : tagcp (set_strtbl st t k) = tagcp st. Proof. reflexivity. Qed.
Lemma ss_attrcp st t k : attrcp (set_strtbl st t k) = attrcp st. Proof. reflexivity. Qed.
Lemma ss_cur_tag st t k : cur_tag (set_strtbl st t k) = cur_tag st. Proof. reflexivity. Qed.
Lemma ss_in_cdata st t k : in_cdata (set_strtbl st t k) = in_cdata st. Proof. reflexivity. Qed.
Lemma ss_cdata st t k : cdata (set_strtbl st t k) = cdata st. Proof. reflexivity. Qed.
Lemma ss_pages st t k p a : set_pages (set_strtbl st t k) p a = set_strtbl (set_pages st p a) t k. Proof. reflexivity. Qed.
Lemma ss_cur st t k c : set_cur_tag (set_strtbl st t k) c = set_strtbl (set_cur_tag st c) t k. Proof. reflexivity. Qed.
Lemma ss_cd st t k b c : set_cdata (set_strtbl st t k) b c = set_strtbl (set_cdata st b c) t k. Proof. reflexivity. Qed.
Lemma ss_ss st t k t' k' : set_strtbl (set_strtbl st t' k') t k = set_strtbl st t k. Proof. reflexivity. Qed.

Section Frame.
  Variables (tbl : list blang) (e : env).
  Hypothesis Hoff : e_use_strtbl e = false.

  Lemma tag_token_frame st t k tok pg :
    enc_tag_token (set_strtbl st t k) tok pg = (fst (enc_tag_token st tok pg), set_strtbl (snd (enc_tag_token st tok pg)) t k).
  Proof. unfold enc_tag_token. rewrite ss_tagcp. destruct (tagcp st =? pg); reflexivity. Qed.

  Lemma tag_token_cd st tok pg : samecd st (snd (enc_tag_token st tok pg)).
  Proof. unfold enc_tag_token. destruct (tagcp st =? pg); split; reflexivity. Qed.

  Lemma attr_token_frame st t k tok pg :
    enc_attr_token (set_strtbl st t k) tok pg = (fst (enc_attr_token st tok pg), set_strtbl (snd (enc_attr_token st tok pg)) t k).
  Proof. unfold enc_attr_token. rewrite ss_attrcp. destruct (attrcp st =? pg); reflexivity. Qed.

  Lemma attr_token_cd st tok pg : samecd st (snd (enc_attr_token st tok pg)).
  Proof. unfold enc_attr_token. destruct (attrcp st =? pg); split; reflexivity. Qed.

  Lemma literal_off st name mask : enc_literal e st name mask = EErr E_STRTBL_DISABLED.
  Proof. unfold enc_literal. rewrite Hoff. reflexivity. Qed.

  Lemma enc_tag_frame st t k tag ha hc : enc_tag e (set_strtbl st t k) tag ha hc = lift t k (enc_tag e st tag ha hc).
  Proof.
    unfold enc_tag. rewrite ss_tagcp.
    destruct (match tag with
              | TagTok p t0 o _ => (t0, p, Some (p, t0, o))
              | TagLit nm => match get_tag_from_xml (e_lang e) (tagcp st) nm with
                             | Some r => (bt_tok r, bt_page r, Some (bt_page r, bt_tok r, bt_opts r))
                             | None => (0, 0, None) end
              end) as [[token0 page] ct].
    rewrite ss_cur, !literal_off.
    match goal with |- context [if ?c then EErr _ else _] => destruct c end; [reflexivity|].
    rewrite tag_token_frame. cbn [lift]. destruct (enc_tag_token (set_cur_tag st ct) _ page). reflexivity.
  Qed.

  Lemma enc_tag_cd st tag ha hc b st' : enc_tag e st tag ha hc = EOk (b, st') -> samecd st st'.
  Proof.
    unfold enc_tag.
    destruct (match tag with
              | TagTok p t0 o _ => (t0, p, Some (p, t0, o))
              | TagLit nm => match get_tag_from_xml (e_lang e) (tagcp st) nm with
                             | Some r => (bt_tok r, bt_page r, Some (bt_page r, bt_tok r, bt_opts r))
                             | None => (0, 0, None) end
              end) as [[token0 page] ct].
    rewrite literal_off.
    match goal with |- context [if ?c then EErr _ else _] => destruct c end; [discriminate|].
    intros H. injection H as H. pose proof (tag_token_cd (set_cur_tag st ct) (if ha && match bl_attrs (e_lang e) with Some _ => true | None => false end then N.lor (if hc then N.lor token0 64 else token0) 128 else if hc then N.lor token0 64 else token0) page) as Hc.
    rewrite H in Hc. cbn [snd] in Hc. destruct Hc as [H1 H2]. split; [rewrite H1 | rewrite H2]; reflexivity.
  Qed.

  Lemma enc_velts_frame t k : forall l st,
    enc_velts (set_strtbl st t k) l = (fst (enc_velts st l), set_strtbl (snd (enc_velts st l)) t k).
  Proof.
    induction l as [|v r IH]; intros st; [reflexivity|]. cbn [enc_velts].
    destruct v as [s | tok | pg tok | off]; try (rewrite IH; destruct (enc_velts st r); reflexivity).
    rewrite attr_token_frame. destruct (enc_attr_token st tok pg) as [b st1]. cbn [fst snd]. rewrite IH.
    destruct (enc_velts st1 r). reflexivity.
  Qed.

  Lemma enc_velts_cd : forall l st, samecd st (snd (enc_velts st l)).
  Proof.
    induction l as [|v r IH]; intros st; [apply samecd_refl|]. cbn [enc_velts].
    destruct v as [s | tok | pg tok | off]; try (specialize (IH st); destruct (enc_velts st r); exact IH).
    pose proof (attr_token_cd st tok pg) as H1. destruct (enc_attr_token st tok pg) as [b st1]. cbn [snd] in H1.
    specialize (IH st1). destruct (enc_velts st1 r). cbn [snd] in *. eapply samecd_trans; eauto.
  Qed.

  Lemma split_value_frame st t k is_attr buf : split_value e (set_strtbl st t k) is_attr buf = split_value e st is_attr buf.
  Proof. unfold split_value. rewrite Hoff, ss_in_cdata. reflexivity. Qed.

  Lemma enc_value_frame st t k is_attr ca na par buf :
    enc_value e (set_strtbl st t k) is_attr ca na par buf = lift t k (enc_value e st is_attr ca na par buf).
  Proof.
    unfold enc_value. destruct buf as [|c0 buf]; [reflexivity|].
    rewrite !split_value_frame, !ss_in_cdata.
    change (enc_ota_icon (set_strtbl st t k)) with (enc_ota_icon st).
    change (enc_wv_content e (set_strtbl st t k)) with (enc_wv_content e st).
    repeat match goal with
           | |- context [match ?x with _ => _ end] =>
             lazymatch x with
             | context [set_strtbl] => fail
             | _ => destruct x eqn:?
             end
           end; cbn [lift]; try reflexivity.
    rewrite enc_velts_frame. destruct (enc_velts st l). reflexivity.
  Qed.

  Lemma enc_value_cd st is_attr ca na par buf b st' :
    enc_value e st is_attr ca na par buf = EOk (b, st') -> samecd st st'.
  Proof.
    unfold enc_value. destruct buf as [|c0 buf]; [intros [= _ <-]; apply samecd_refl|].
    repeat match goal with
           | |- context [match ?x with _ => _ end] => destruct x eqn:?
           end; try discriminate; try (intros [= _ <-]; apply samecd_refl).
    intros H. injection H as H. pose proof (enc_velts_cd l st) as Hc. rewrite H in Hc. exact Hc.
  Qed.

  Ltac frame_steps :=
    repeat (cbv beta iota zeta; cbn [fst snd];
      first [ rewrite literal_off | rewrite attr_token_frame
            | match goal with
              | |- context [enc_attr_token ?a ?b ?c] => destruct (enc_attr_token a b c) as [? ?] eqn:?
              end
            | rewrite enc_value_frame
            | match goal with
              | |- context [lift ?t ?k (enc_value ?a ?b ?c ?d ?f ?g ?h)] =>
                destruct (enc_value a b c d f g h) as [[? ?]|] eqn:?; cbn [lift]
              end
            | match goal with
              | |- context [match ?x with _ => _ end] =>
                lazymatch x with
                | context [set_strtbl] => fail
                | context [lift] => fail
                | context [match _ with _ => _ end] => fail
                | _ => destruct x eqn:?
                end
              end ]);
    cbn [fst snd lift]; try reflexivity.

  Lemma enc_attr_frame st t k na a : enc_attr e (set_strtbl st t k) na a = lift t k (enc_attr e st na a).
  Proof. unfold enc_attr. frame_steps. Qed.

  Ltac cd_facts :=
    repeat match goal with
           | H : enc_attr_token ?s ?t ?p = (_, _) |- _ =>
             let F := fresh "F" in pose proof (attr_token_cd s t p) as F; rewrite H in F; cbn [snd] in F; clear H
           | H : enc_value _ _ _ _ _ _ _ = EOk (_, _) |- _ => apply enc_value_cd in H
           end.

  Lemma enc_attr_cd st na a b st' : enc_attr e st na a = EOk (b, st') -> samecd st st'.
  Proof.
    unfold enc_attr.
    repeat (cbv beta iota zeta;
            first [ rewrite literal_off
                  | match goal with |- context [match ?x with _ => _ end] =>
                      lazymatch x with
                      | context [match _ with _ => _ end] => fail
                      | _ => destruct x eqn:?
                      end
                    end ]);
      try discriminate; intros [= _ <-]; cd_facts; eauto using samecd_trans, samecd_refl.
  Qed.

  Lemma enc_attrs_frame t k na : forall l st, enc_attrs e (set_strtbl st t k) na l = lift t k (enc_attrs e st na l).
  Proof.
    induction l as [|a r IH]; intros st; [reflexivity|]. cbn [enc_attrs]. rewrite enc_attr_frame.
    destruct (enc_attr e st na a) as [[b1 st1]|]; [|reflexivity]. cbn [lift]. rewrite IH.
    destruct (enc_attrs e st1 na r) as [[b2 st2]|]; reflexivity.
  Qed.

  Lemma enc_attrs_cd na : forall l st b st', enc_attrs e st na l = EOk (b, st') -> samecd st st'.
  Proof.
    induction l as [|a r IH]; intros st b st'; cbn [enc_attrs]; [intros [= _ <-]; apply samecd_refl|].
    destruct (enc_attr e st na a) as [[b1 st1]|] eqn:E1; [|discriminate].
    destruct (enc_attrs e st1 na r) as [[b2 st2]|] eqn:E2; [|discriminate].
    intros [= _ <-]. eapply samecd_trans; [eapply enc_attr_cd; exact E1 | eapply IH; exact E2].
  Qed.

  Lemma element_start_frame st t k tag attrs hc :
    enc_element_start e (set_strtbl st t k) tag attrs hc = lift t k (enc_element_start e st tag attrs hc).
  Proof.
    unfold enc_element_start. rewrite enc_tag_frame.
    destruct (enc_tag e st tag _ hc) as [[b1 st1]|]; [|reflexivity]. cbn [lift].
    destruct (has_attr_table e); [|reflexivity]. rewrite enc_attrs_frame.
    destruct (enc_attrs e st1 attrs attrs) as [[b2 st2]|]; reflexivity.
  Qed.

  Lemma element_start_cd st tag attrs hc b st' : enc_element_start e st tag attrs hc = EOk (b, st') -> samecd st st'.
  Proof.
    unfold enc_element_start.
    destruct (enc_tag e st tag _ hc) as [[b1 st1]|] eqn:E1; [|discriminate].
    destruct (has_attr_table e).
    - destruct (enc_attrs e st1 attrs attrs) as [[b2 st2]|] eqn:E2; [|discriminate].
      intros [= _ <-]. eapply samecd_trans; [eapply enc_tag_cd; exact E1 | eapply enc_attrs_cd; exact E2].
    - intros [= _ <-]. eapply enc_tag_cd; exact E1.
  Qed.

  Lemma enc_text_frame st t k par c : enc_text e (set_strtbl st t k) par c = lift t k (enc_text e st par c).
  Proof.
    unfold enc_text. change (is_binary_tag (set_strtbl st t k) par) with (is_binary_tag st par).
    rewrite !ss_in_cdata, ss_cdata.
    destruct (is_binary_tag st par); [reflexivity|].
    destruct (negb (in_cdata st) && e_ignore_empty e && only_ws c); [reflexivity|].
    destruct (in_cdata st).
    - destruct (cdata st); reflexivity.
    - rewrite enc_value_frame. reflexivity.
  Qed.

  (* ---- the tree walk ---- *)

  Lemma parse_node_elt parent tag attrs ch st :
    parse_node tbl e parent (NElt tag attrs ch) st =
    (let has_content := match ch with [] => false | _ => true end in
     do (b1, st1) <- enc_element_start e st tag attrs has_content;
     do (b2, st2) <- parse_nodes tbl e (Some tag) ch st1;
     EOk (b1 ++ b2 ++ (if has_content then [1] else []), set_cur_tag st2 None)).
  Proof. reflexivity. Qed.

  Lemma parse_node_cdata parent ch st :
    parse_node tbl e parent (NCData ch) st =
    match cdata st with
    | Some _ => EErr E_INTERNAL
    | None =>
      do (b1, st1) <- parse_nodes tbl e None ch (set_cdata st true (Some []));
      match cdata st1 with
      | None => EErr E_INTERNAL
      | Some d => EOk (b1 ++ (if 0 <? len d then enc_opaque d else []), set_cur_tag (set_cdata st1 false None) None)
      end
    end.
  Proof. reflexivity. Qed.

  Lemma parse_nodes_cons e0 parent x r st :
    parse_nodes tbl e0 parent (x :: r) st =
    (do (b1, st1) <- parse_node tbl e0 parent x st; do (b2, st2) <- parse_nodes tbl e0 parent r st1; EOk (b1 ++ b2, st2)).
  Proof. reflexivity. Qed.

  Definition node_frame (n : node) : Prop :=
    forall parent st t k, parse_node tbl e parent n (set_strtbl st t k) = lift t k (parse_node tbl e parent n st).

  Lemma parse_nodes_frame ns : Forall node_frame ns ->
    forall parent st t k, parse_nodes tbl e parent ns (set_strtbl st t k) = lift t k (parse_nodes tbl e parent ns st).
  Proof.
    induction 1 as [|x r Hx _ IH]; intros parent st t k; [reflexivity|].
    rewrite !parse_nodes_cons, Hx. destruct (parse_node tbl e parent x st) as [[b1 st1]|]; [|reflexivity]. cbn [lift].
    rewrite IH. destruct (parse_nodes tbl e parent r st1) as [[b2 st2]|]; reflexivity.
  Qed.

  (* FRAME: with the string table disabled the encoding of a node neither reads nor writes strtbl / strtbl_len *)
  Theorem parse_node_frame : forall n, node_frame n.
  Proof.
    induction n as [tag attrs ch IH | c | ch IH | | lid roots IH] using node_ind'; intros parent st t k.
    - rewrite !parse_node_elt. cbv zeta. rewrite element_start_frame.
      destruct (enc_element_start e st tag attrs _) as [[b1 st1]|]; [|reflexivity]. cbn [lift].
      rewrite (parse_nodes_frame ch IH). destruct (parse_nodes tbl e (Some tag) ch st1) as [[b2 st2]|]; reflexivity.
    - cbn [parse_node]. rewrite enc_text_frame. destruct (enc_text e st parent c) as [[b st1]|]; reflexivity.
    - rewrite !parse_node_cdata, ss_cdata. destruct (cdata st); [reflexivity|]. rewrite ss_cd, (parse_nodes_frame ch IH).
      destruct (parse_nodes tbl e None ch (set_cdata st true (Some []))) as [[b1 st1]|]; [|reflexivity]. cbn [lift].
      rewrite ss_cdata. destruct (cdata st1); reflexivity.
    - reflexivity.
    - cbn [parse_node]. destruct (find_lang tbl lid) as [l'|]; [|reflexivity].
      match goal with |- context [seq_nodes ?f ?e' None roots ?s0] => destruct (seq_nodes f e' None roots s0) as [[body st']|] end;
        reflexivity.
  Qed.

  (* BALANCE: entered outside a CDATA section (in_cdata = false, cdata = NULL) the encoding of a node returns there;
     entered inside one it stays inside (text is appended to the buffer) *)
  Definition outside (st : est) : Prop := in_cdata st = false /\ cdata st = None.
  Definition inside (st : est) : Prop := in_cdata st = true /\ cdata st <> None.

  Lemma samecd_outside st st' : samecd st st' -> outside st -> outside st'.
  Proof. intros [H1 H2] [H3 H4]. split; congruence. Qed.
  Lemma samecd_inside st st' : samecd st st' -> inside st -> inside st'.
  Proof. intros [H1 H2] [H3 H4]. split; congruence. Qed.

  Definition node_balance (n : node) : Prop :=
    forall parent st b st', parse_node tbl e parent n st = EOk (b, st') ->
      (outside st -> outside st') /\ (inside st -> inside st').

  Lemma parse_nodes_balance ns : Forall node_balance ns ->
    forall parent st b st', parse_nodes tbl e parent ns st = EOk (b, st') ->
      (outside st -> outside st') /\ (inside st -> inside st').
  Proof.
    induction 1 as [|x r Hx _ IH]; intros parent st b st'.
    - intros [= _ <-]. tauto.
    - rewrite parse_nodes_cons. destruct (parse_node tbl e parent x st) as [[b1 st1]|] eqn:E1; [|discriminate].
      destruct (parse_nodes tbl e parent r st1) as [[b2 st2]|] eqn:E2; [|discriminate]. intros [= _ <-].
      destruct (Hx _ _ _ _ E1) as [A1 A2]. destruct (IH _ _ _ _ E2) as [B1 B2]. tauto.
  Qed.

  Theorem parse_node_balance : forall n, node_balance n.
  Proof.
    induction n as [tag attrs ch IH | c | ch IH | | lid roots IH] using node_ind'; intros parent st b st'.
    - rewrite parse_node_elt. cbv zeta.
      destruct (enc_element_start e st tag attrs _) as [[b1 st1]|] eqn:E1; [|discriminate].
      destruct (parse_nodes tbl e (Some tag) ch st1) as [[b2 st2]|] eqn:E2; [|discriminate]. intros [= _ <-].
      pose proof (element_start_cd _ _ _ _ _ _ E1) as C1. destruct (parse_nodes_balance ch IH _ _ _ _ E2) as [B1 B2].
      split; intros H.
      + pose proof (B1 (samecd_outside _ _ C1 H)) as [X Y]. split; assumption.
      + pose proof (B2 (samecd_inside _ _ C1 H)) as [X Y]. split; assumption.
    - cbn [parse_node]. destruct (enc_text e st parent c) as [[b1 st1]|] eqn:E1; [|discriminate]. intros [= _ <-].
      unfold enc_text in E1.
      destruct (is_binary_tag st parent); [injection E1 as _ <-; split; intros [X Y]; split; assumption|].
      destruct (negb (in_cdata st) && e_ignore_empty e && only_ws c); [injection E1 as _ <-; split; intros [X Y]; split; assumption|].
      destruct (in_cdata st) eqn:Ei.
      + destruct (cdata st) as [d|] eqn:Ec; [|discriminate]. injection E1 as _ <-.
        unfold outside, inside. cbn.
        split; [intros [X _]; congruence | intros _; split; [reflexivity | discriminate]].
      + pose proof (enc_value_cd _ _ _ _ _ _ _ _ E1) as [C1 C2].
        unfold outside, inside. cbn.
        split; intros [X Y]; [split; congruence | congruence].
    - rewrite parse_node_cdata. destruct (cdata st) eqn:Ec; [discriminate|].
      destruct (parse_nodes tbl e None ch (set_cdata st true (Some []))) as [[b1 st1]|] eqn:E1; [|discriminate].
      destruct (cdata st1); [|discriminate]. intros [= _ <-].
      split; [intros _; split; reflexivity | intros [_ Y]; contradiction].
    - discriminate.
    - cbn [parse_node]. destruct (find_lang tbl lid) as [l'|]; [|discriminate].
      match goal with |- context [seq_nodes ?f ?e' None roots ?s0] => destruct (seq_nodes f e' None roots s0) as [[body st2]|] end;
        [|discriminate].
      intros [= _ <-]. split; intros [X Y]; split; assumption.
  Qed.
End Frame.

(* ------------------------------------------------------------------ *)
(* the flow context is all the per-node encoding reads and writes       *)

Lemma ctx_of_st_of c : ctx_of (st_of c) = c.
Proof. destruct c; reflexivity. Qed.

Lemma st_of_outside c : outside (st_of c).
Proof. split; reflexivity. Qed.

Lemma st_decomp st : outside st -> st = set_strtbl (st_of (ctx_of st)) (strtbl st) (strtbl_len st).
Proof. destruct st as [a b c d f g h]. unfold outside. cbn. intros [-> ->]. reflexivity. Qed.

Lemma set_strtbl_same st : set_strtbl st (strtbl st) (strtbl_len st) = st.
Proof. destruct st; reflexivity. Qed.

Section Inst.
  Variables (tbl : list blang) (e : env).
  Hypothesis Hoff : e_use_strtbl e = false.

  Lemma parse_node_keeps_strtbl parent n st b st' : parse_node tbl e parent n st = EOk (b, st') ->
    strtbl st' = strtbl st /\ strtbl_len st' = strtbl_len st.
  Proof.
    intros H. pose proof (parse_node_frame tbl e Hoff n parent st (strtbl st) (strtbl_len st)) as F.
    rewrite set_strtbl_same, H in F. cbn [lift] in F. injection F as F. rewrite F. split; reflexivity.
  Qed.

  (* "the per-node encoding is a function of (context, node)": two encoder states that are outside a CDATA section and
     agree on the context (tag code page, attribute code page, current tag) give the same bytes and the same new
     context, or fail with the same error, whatever their string tables hold *)
  Theorem enc_node_function_of_context parent n st1 st2 :
    outside st1 -> outside st2 -> ctx_of st1 = ctx_of st2 ->
    match parse_node tbl e parent n st1, parse_node tbl e parent n st2 with
    | EOk (b1, s1), EOk (b2, s2) =>
      b1 = b2 /\ ctx_of s1 = ctx_of s2 /\ outside s1 /\ outside s2 /\
      strtbl s1 = strtbl st1 /\ strtbl_len s1 = strtbl_len st1 /\ strtbl s2 = strtbl st2 /\ strtbl_len s2 = strtbl_len st2
    | EErr c1, EErr c2 => c1 = c2
    | _, _ => False
    end.
  Proof.
    intros O1 O2 Hc.
    assert (F1 : parse_node tbl e parent n st1 =
                 lift (strtbl st1) (strtbl_len st1) (parse_node tbl e parent n (st_of (ctx_of st1)))).
    { rewrite <- (parse_node_frame tbl e Hoff n), <- (st_decomp st1 O1). reflexivity. }
    assert (F2 : parse_node tbl e parent n st2 =
                 lift (strtbl st2) (strtbl_len st2) (parse_node tbl e parent n (st_of (ctx_of st2)))).
    { rewrite <- (parse_node_frame tbl e Hoff n), <- (st_decomp st2 O2). reflexivity. }
    rewrite Hc in F1.
    destruct (parse_node tbl e parent n (st_of (ctx_of st2))) as [[b s]|c]; cbn [lift] in F1, F2; [|rewrite F1, F2; reflexivity].
    destruct (parse_node_balance tbl e Hoff n parent st1 _ _ F1) as [B1 _].
    destruct (parse_node_balance tbl e Hoff n parent st2 _ _ F2) as [B2 _].
    destruct (parse_node_keeps_strtbl parent n st1 _ _ F1) as [K1a K1b].
    destruct (parse_node_keeps_strtbl parent n st2 _ _ F2) as [K2a K2b].
    rewrite F1, F2. repeat split; try (apply B1, O1); try (apply B2, O2); assumption.
  Qed.

  Lemma w_enc_node_ok c n b st' : parse_node tbl e None n (st_of c) = EOk (b, st') ->
    w_enc_node tbl e c n = (b, ctx_of st') /\ st' = st_of (ctx_of st').
  Proof.
    intros H. unfold w_enc_node. rewrite H. split; [reflexivity|].
    destruct (parse_node_balance tbl e Hoff n None (st_of c) b st' H) as [O _]. specialize (O (st_of_outside c)).
    destruct (parse_node_keeps_strtbl _ _ _ _ _ H) as [K1 K2]. cbn in K1, K2.
    rewrite (st_decomp st' O) at 1. rewrite K1, K2. destruct st'; reflexivity.
  Qed.

  Lemma batch_nodes : forall ns c b st', parse_nodes tbl e None ns (st_of c) = EOk (b, st') ->
    batch_from wctx node (w_enc_node tbl e) (w_enc_start e) w_enc_end c (map (@FNode node) ns) = (b, ctx_of st') /\
    st' = st_of (ctx_of st').
  Proof.
    induction ns as [|x r IH]; intros c b st'.
    - intros [= <- <-]. rewrite ctx_of_st_of. split; reflexivity.
    - rewrite parse_nodes_cons. destruct (parse_node tbl e None x (st_of c)) as [[b1 st1]|] eqn:E1; [|discriminate].
      destruct (w_enc_node_ok _ _ _ _ E1) as [W1 S1].
      destruct (parse_nodes tbl e None r st1) as [[b2 st2]|] eqn:E2; [|discriminate]. intros [= <- <-].
      rewrite S1 in E2. destruct (IH _ _ _ E2) as [I1 I2].
      cbn [map batch_from enc_frag]. rewrite W1, I1. split; [reflexivity | exact I2].
  Qed.

  (* a live whole node means a node has been encoded: the header exists *)
  Lemma seen_of_node : forall ops (s : sstate node),
    ((exists n, In (@FNode node n) (frags node s)) -> seen node s = true) ->
    (exists n, In (@FNode node n) (frags node (fold_left (sstep node) ops s))) -> seen node (fold_left (sstep node) ops s) = true.
  Proof.
    induction ops as [|o ops IH]; intros s Hs; [exact Hs|]. cbn [fold_left]. apply IH.
    destruct o as [n | n c | n c | | ]; cbn [sstep frags seen]; try reflexivity; try exact Hs.
    - intros [m Hm]. apply in_app_or in Hm. cbn [In] in Hm. destruct Hm as [Hm | [Hm | []]]; [eauto | discriminate].
    - intros [m Hm]. apply in_app_or in Hm. cbn [In] in Hm. destruct Hm as [Hm | [Hm | []]]; [eauto | discriminate].
    - intros [m Hm]. apply Hs. exists m. revert Hm. generalize (mark node s) (frags node s).
      induction n as [|k IHk]; intros [|y l]; cbn [firstn In]; try tauto. intros [H | H]; [left; exact H | right; apply IHk, H].
  Qed.

  (* C17 for the real WBXML encoder: whatever the history, when what remains of it are the whole nodes ns and the batch
     encoder accepts them, the repaired flow encoder holds the header followed by EncWbxml's batch body of ns *)
  Theorem flow_equals_batch_encwbxml ops ns b st' :
    w_live ops = map (@FNode node) ns ->
    parse_nodes tbl e None ns (init_est [] 0) = EOk (b, st') ->
    w_get_output (w_run_fixed tbl e ops) = (if seen node (srun node ops) then fill_header e (init_est [] 0) else []) ++ b.
  Proof.
    intros Hl Hp. unfold w_get_output, w_run_fixed. rewrite fixed_output. unfold spec_output. unfold w_live in Hl. rewrite Hl.
    change (init_est [] 0) with (st_of wctx0) in Hp. destruct (batch_nodes _ _ _ _ Hp) as [Hb _]. rewrite Hb. reflexivity.
  Qed.

  Lemma fill_header_strtbl st1 st2 : strtbl st1 = strtbl st2 -> strtbl_len st1 = strtbl_len st2 ->
    fill_header e st1 = fill_header e st2.
  Proof. intros H1 H2. unfold fill_header. rewrite H1, H2. reflexivity. Qed.

  Lemma parse_nodes_keeps_strtbl : forall ns parent st b st', parse_nodes tbl e parent ns st = EOk (b, st') ->
    strtbl st' = strtbl st /\ strtbl_len st' = strtbl_len st.
  Proof.
    induction ns as [|x r IH]; intros parent st b st'.
    - intros [= _ <-]. split; reflexivity.
    - rewrite parse_nodes_cons. destruct (parse_node tbl e parent x st) as [[b1 st1]|] eqn:E1; [|discriminate].
      destruct (parse_nodes tbl e parent r st1) as [[b2 st2]|] eqn:E2; [|discriminate]. intros [= _ <-].
      destruct (parse_node_keeps_strtbl _ _ _ _ _ E1) as [A1 A2]. destruct (IH _ _ _ _ E2) as [B1 B2]. split; congruence.
  Qed.
End Inst.

(* ... = the document wbxml_tree_to_wbxml produces for the same nodes with the string table switched off *)
Theorem flow_equals_enc_wbxml tbl l o ops ns doc :
  o_use_strtbl o = false ->
  w_live ops = map (@FNode node) ns -> ns <> [] ->
  enc_wbxml tbl l o ns = EOk doc ->
  w_get_output (w_run_fixed tbl (enc_env l o) ops) = doc.
Proof.
  intros Ho Hl Hne. unfold enc_wbxml, enc_body.
  assert (Hoff : e_use_strtbl (enc_env l o) = false) by (unfold enc_env, make_env; rewrite Ho; reflexivity).
  unfold start_state. rewrite Hoff.
  destruct (parse_nodes tbl (enc_env l o) None ns (init_est [] 0)) as [[b st']|] eqn:E; [|discriminate]. intros [= <-].
  rewrite (flow_equals_batch_encwbxml tbl _ Hoff ops ns b st' Hl E).
  assert (Hs : seen node (srun node ops) = true).
  { apply seen_of_node; [intros [n []]|]. unfold w_live, live, srun in Hl. rewrite Hl.
    destruct ns as [|n r]; [contradiction|]. exists n. left. reflexivity. }
  rewrite Hs. f_equal. destruct (parse_nodes_keeps_strtbl tbl _ Hoff _ _ _ _ _ E) as [K1 K2].
  apply fill_header_strtbl; [rewrite K1 | rewrite K2]; reflexivity.
Qed.
