(* strict decoder, part 3: unser (serialize d) = Some d, decode (serialize d) = denote d on strict documents *)
From Coq Require Import String Ascii.
From Coq Require Import List NArith ZArith Lia Bool ZifyBool ZifyN.
From Wbxml Require Import Base.Bits Model.Codec Model.TablesDefs Model.Parser Model.Spec
     Proofs.CodecProofs Proofs.ParserProofsBase Proofs.ParserProofsStr Proofs.ParserProofsAttr Proofs.ParserProofsElt
     Proofs.ParserProofsDoc Proofs.ParserProofsStrict Proofs.ParserProofsStrict2.
Import ListNotations.
Local Open Scope N_scope.

Theorem unser_serialize tbl forced d evs : denote_with tbl forced d = Some evs -> unser (serialize d) = Some d.
Proof.
  unfold denote_with. intros H.
  destruct ((wd_ver d <? 4) && bytes_okb (wd_strtbl d) && u32_okb (blen (wd_strtbl d))
            && match wd_pub d with PubNum n => u32_okb n && negb (n =? 0) | PubIdx i => u32_okb i end) eqn:E0; [|discriminate].
  rewrite !andb_true_iff in E0. destruct E0 as [[[Hver Hb] Hu] Hpub].
  destruct (charset_of d) as [cs|] eqn:Ecs; [|discriminate].
  destruct (match forced with Some l0 => Some l0 | None => lang_of_pub tbl (wd_strtbl d) (wd_pub d) end) as [l|]; [|discriminate].
  destruct (wd_root d) as [sw tag attrs hasc items|s|p] eqn:Eroot; try discriminate.
  set (denv := mk_denv l (wd_strtbl d)) in *.
  destruct (den_pis denv (wd_pis_before d) (mk_dstate 0 0 None)) as [[e1 st1]|] eqn:E1; [|discriminate].
  destruct (den_item denv 0 None (WItemElt sw tag attrs hasc items) st1) as [[e2 st2]|] eqn:E2; [|discriminate].
  destruct (den_pis denv (wd_pis_after d) st2) as [[e3 st3]|] eqn:E3; [|discriminate].
  clear H.
  set (after := flat_map ser_pi (wd_pis_after d)).
  set (rootb := ser_item (WItemElt sw tag attrs hasc items)).
  set (before := flat_map ser_pi (wd_pis_before d)).
  assert (Eser : serialize d = wd_ver d :: ser_pub (wd_pub d)
                   ++ (match wd_charset d with Some c => mb_write c | None => [] end)
                   ++ mb_write (blen (wd_strtbl d)) ++ wd_strtbl d ++ before ++ rootb ++ after).
  { unfold serialize, ser_header. rewrite Eroot. cbn [app]. rewrite <- !app_assoc. reflexivity. }
  assert (Hlen : (length before + length rootb + length after < S (length (serialize d)))%nat).
  { rewrite Eser. cbn [length]. rewrite !app_length. lia. }
  assert (Hroot67 : match rootb ++ after with b :: _ => (b =? 67) = false | [] => True end).
  { subst rootb. pose proof E2 as H2'. rewrite den_item_elt in H2'.
    destruct (sw_okb sw && (0 <=? 1000)); [|discriminate].
    destruct (den_named denv tag (apply_sw TagSpace sw st1)) as [x|] eqn:En; [|discriminate].
    rewrite ser_item_elt, tag_bits_of. rewrite <- !app_assoc.
    destruct sw as [pg|]; cbn [ser_sw app]; [reflexivity|].
    destruct (ser_tag_head l (wd_strtbl d) tag (match attrs with [] => false | _ => true end) hasc _ x
                ((match attrs with [] => [] | _ :: _ => flat_map ser_attr attrs ++ [1] end)
                 ++ (if hasc then flat_map ser_item items ++ [1] else []) ++ after) En)
      as (b & r' & Eb & _ & _ & B67 & _).
    rewrite Eb. exact B67. }
  unfold unser. set (fuel := S (length (serialize d))) in *. rewrite Eser. cbn zeta. subst before rootb after.
  (* public identifier *)
  destruct (wd_pub d) as [n|i] eqn:Epub; cbn [ser_pub].
  - apply andb_prop in Hpub. destruct Hpub as [Hn Hn0].
    destruct (mb_write_head_nz n) as (b & r0 & Emb & Hb0); [lia|apply u32_okb_lt; exact Hn|].
    rewrite Emb. cbn [app]. rewrite Hb0.
    match goal with |- context [rd_mb (b :: r0 ++ ?x)] => change (b :: r0 ++ x) with ((b :: r0) ++ x) end.
    rewrite <- Emb. rewrite rd_mb_ok by (apply u32_okb_lt; exact Hn).
    destruct (charset_of_cases d cs Ecs) as [(Ev & Ec & _) | (Ev & c & Ec & Hcc)].
    + rewrite Ev, Ec. cbn [N.eqb app]. rewrite rd_mb_ok by (apply u32_okb_lt; exact Hu).
      rewrite blen_app_le, take_app, drop_app.
      rewrite (rd_pis_ok l (wd_strtbl d) (wd_pis_before d) _ e1 st1 fuel _ E1 Hroot67) by lia.
      rewrite (rd_element_ok l (wd_strtbl d) sw tag attrs hasc items 0 None st1 e2 st2 (length (serialize d)) _ E2) by lia.
      rewrite <- (app_nil_r (flat_map ser_pi (wd_pis_after d))). rewrite (rd_pis_ok l (wd_strtbl d) (wd_pis_after d) _ e3 st3 fuel [] E3 I) by lia.
      destruct d. cbn in *. subst. reflexivity.
    + replace (wd_ver d =? 0) with false by lia. rewrite Ec.
      rewrite rd_mb_ok by (destruct Hcc as [(-> & _)|(-> & [-> | ->])]; lia).
      rewrite rd_mb_ok by (apply u32_okb_lt; exact Hu).
      rewrite blen_app_le, take_app, drop_app.
      rewrite (rd_pis_ok l (wd_strtbl d) (wd_pis_before d) _ e1 st1 fuel _ E1 Hroot67) by lia.
      rewrite (rd_element_ok l (wd_strtbl d) sw tag attrs hasc items 0 None st1 e2 st2 (length (serialize d)) _ E2) by lia.
      rewrite <- (app_nil_r (flat_map ser_pi (wd_pis_after d))). rewrite (rd_pis_ok l (wd_strtbl d) (wd_pis_after d) _ e3 st3 fuel [] E3 I) by lia.
      destruct d. cbn in *. subst. reflexivity.
  - cbn [app N.eqb]. rewrite rd_mb_ok by (apply u32_okb_lt; exact Hpub).
    destruct (charset_of_cases d cs Ecs) as [(Ev & Ec & _) | (Ev & c & Ec & Hcc)].
    + rewrite Ev, Ec. cbn [N.eqb app]. rewrite rd_mb_ok by (apply u32_okb_lt; exact Hu).
      rewrite blen_app_le, take_app, drop_app.
      rewrite (rd_pis_ok l (wd_strtbl d) (wd_pis_before d) _ e1 st1 fuel _ E1 Hroot67) by lia.
      rewrite (rd_element_ok l (wd_strtbl d) sw tag attrs hasc items 0 None st1 e2 st2 (length (serialize d)) _ E2) by lia.
      rewrite <- (app_nil_r (flat_map ser_pi (wd_pis_after d))). rewrite (rd_pis_ok l (wd_strtbl d) (wd_pis_after d) _ e3 st3 fuel [] E3 I) by lia.
      destruct d. cbn in *. subst. reflexivity.
    + replace (wd_ver d =? 0) with false by lia. rewrite Ec.
      rewrite rd_mb_ok by (destruct Hcc as [(-> & _)|(-> & [-> | ->])]; lia).
      rewrite rd_mb_ok by (apply u32_okb_lt; exact Hu).
      rewrite blen_app_le, take_app, drop_app.
      rewrite (rd_pis_ok l (wd_strtbl d) (wd_pis_before d) _ e1 st1 fuel _ E1 Hroot67) by lia.
      rewrite (rd_element_ok l (wd_strtbl d) sw tag attrs hasc items 0 None st1 e2 st2 (length (serialize d)) _ E2) by lia.
      rewrite <- (app_nil_r (flat_map ser_pi (wd_pis_after d))). rewrite (rd_pis_ok l (wd_strtbl d) (wd_pis_after d) _ e3 st3 fuel [] E3 I) by lia.
      destruct d. cbn in *. subst. reflexivity.
Qed.

(* the strict decoder is a proved oracle: on a strict well-formed document it returns exactly denote *)
Theorem decode_serialize tbl d evs : denote tbl d = Some evs -> strict_doc d = true ->
  decode tbl (serialize d) = Some evs.
Proof.
  intros H Hs. unfold decode. rewrite (unser_serialize tbl None d evs H). rewrite Hs. exact H.
Qed.

Theorem decode_lang_serialize tbl id d evs :
  denote_with tbl (find (fun l => l_id l =? id) tbl) d = Some evs -> strict_doc d = true ->
  decode_lang tbl id (serialize d) = Some evs.
Proof.
  intros H Hs. unfold decode_lang. rewrite (unser_serialize tbl _ d evs H). rewrite Hs. exact H.
Qed.

(* ... and it never accepts bytes that are not the serialization of the document it read:
   whatever it accepts is the denotation of a strict document *)
Theorem decode_sound tbl bs evs : decode tbl bs = Some evs ->
  exists d, unser bs = Some d /\ strict_doc d = true /\ denote tbl d = Some evs.
Proof.
  unfold decode. destruct (unser bs) as [d|]; [|discriminate]. destruct (strict_doc d) eqn:E; [|discriminate].
  intros H. exists d. repeat split; assumption.
Qed.
