(* C03 / C06 — when the WBXML encoder (Model/EncWbxml.v) SUCCEEDS on the wide fragment (elements and texts, a language
   without typed values: plain_env).  Its failure causes there are: a LITERAL is needed while the string table is disabled
   (E_STRTBL_DISABLED), and the value splitting running out of fuel (the C would not terminate) when a table row or a
   string-table entry is empty.  Hence:
     enc_success   : plain_env, no empty attribute-value row (lang_vals_ok), no empty name (names_ok), and either the string
                     table is in use or the tree needs no literal (lit_free)  ==>  enc_wbxml = EOk _ ;
     enc_lit_free  : if the encoder succeeds with the string table disabled on a tree of tree_ok3, the tree needs no literal;
     both predicates are kept by TreeNorm.norm_node, so success on a source tree carries over to its normal form, and the size
     theorem of Proofs/EncWbxmlSize2.v bounds the output by the size of the SOURCE tree. *)
From Coq Require Import List NArith PeanoNat Lia Bool.
From Wbxml Require Import Model.Codec Model.TablesDefs Model.EncWbxml Model.TreeNorm
     Proofs.EncWbxmlProofs Proofs.TreeNormProofs Proofs.EncWbxmlSize Proofs.EncWbxmlSize2 Proofs.EncWbxmlAbs Proofs.EncWbxmlDenote2
     Proofs.EncWbxmlTblOk.
Import ListNotations.
Local Open Scope nat_scope.

(* ---- the value splitting never runs out of fuel when matches are not empty ---- *)
Lemma velts_size_pos l : 1 <= velts_size l.
Proof. induction l as [|v r IH]; cbn [velts_size fold_right]; [lia|]. fold (velts_size r). destruct v; lia. Qed.

Lemma split_sweep_total find mk : find_ok find -> forall fuel l, velts_size l <= fuel -> exists l', split_sweep fuel find mk l = Some l'.
Proof.
  intros FO. induction fuel as [|f IH]; intros l Hs; [pose proof (velts_size_pos l); lia|].
  destruct l as [|v r]; [exists []; reflexivity|].
  assert (Hr : velts_size r <= f).
  { cbn [velts_size fold_right] in Hs. fold (velts_size r) in Hs. destruct v; lia. }
  cbn [split_sweep]. destruct v as [s|t|p t|off].
  - destruct (find s) as [[idx mlen]|] eqn:F.
    + destruct (FO s idx mlen F) as [M1 M2].
      assert (Hrest : velts_size (if N.ltb (idx + mlen) (len s) then VStr (skipn (N.to_nat (idx + mlen)) s) :: r else r) <= f).
      { cbn [velts_size fold_right] in Hs. fold (velts_size r) in Hs. destruct (N.ltb (idx + mlen) (len s)); [|exact Hr].
        cbn [velts_size fold_right]. fold (velts_size r). rewrite skipn_length. lia. }
      destruct (IH _ Hrest) as [r' ->]. eexists. reflexivity.
    + destruct (IH r Hr) as [r' ->]. eexists. reflexivity.
  - destruct (IH r Hr) as [r' ->]. eexists. reflexivity.
  - destruct (IH r Hr) as [r' ->]. eexists. reflexivity.
  - destruct (IH r Hr) as [r' ->]. eexists. reflexivity.
Qed.

Lemma sweep_total find mk l : find_ok find -> exists l', sweep find mk l = Some l'.
Proof. intros FO. unfold sweep. apply split_sweep_total; [exact FO|lia]. Qed.

Lemma pass_vals_total rows : Forall (fun r => bv_name r <> []) rows -> forall l, exists l', pass_vals rows l = Some l'.
Proof.
  induction 1 as [|r rest Hr _ IH]; intros l; cbn [pass_vals]; [eexists; reflexivity|].
  destruct (sweep_total (find_name (bv_name r)) (VAttrTok (bv_page r) (bv_tok r)) l (find_name_ok _ Hr)) as [l1 ->]. apply IH.
Qed.

Lemma pass_exts_total rows : forall l, exists l', pass_exts rows l = Some l'.
Proof.
  induction rows as [|r rest IH]; intros l; cbn [pass_exts]; [eexists; reflexivity|].
  destruct (N.ltb (len (be_name r)) 2) eqn:E2; [apply IH|].
  assert (FO : find_ok (fun s => if beq s (be_name r) then Some (0%N, len (be_name r)) else None)).
  { intros s idx mlen. destruct (beq s (be_name r)) eqn:B; [|discriminate]. intros H; injection H as <- <-.
    apply beq_len in B. apply N.ltb_ge in E2. rewrite len_nat. pose proof (len_nat (be_name r)). lia. }
  destruct (sweep_total _ (VExt (be_tok r)) l FO) as [l1 ->]. apply IH.
Qed.

Lemma pass_strtbl_total tbl : entries_ok tbl -> forall l, exists l', pass_strtbl tbl l = Some l'.
Proof.
  induction 1 as [|x rest Hx _ IH]; intros l; cbn [pass_strtbl]; [eexists; reflexivity|].
  destruct (sweep_total (find_name (s_str x)) (VRef (s_off x)) l (find_name_ok _ Hx)) as [l1 ->]. apply IH.
Qed.

Lemma split_value_total e st is_attr buffer : lang_vals_ok (e_lang e) -> entries_ok (strtbl st) ->
  exists l, split_value e st is_attr buffer = Some l.
Proof.
  intros VO EO. unfold split_value.
  assert (H1 : exists l1, (if is_attr then match bl_vals (e_lang e) with Some rows => pass_vals rows [VStr buffer] | None => Some [VStr buffer] end
                            else Some [VStr buffer]) = Some l1).
  { destruct is_attr; [|eexists; reflexivity]. unfold lang_vals_ok in VO. destruct (bl_vals (e_lang e)) as [rows|]; [|eexists; reflexivity].
    apply pass_vals_total. exact VO. }
  destruct H1 as [l1 ->].
  assert (H2 : exists l2, (if negb is_attr && negb (in_cdata st) then match bl_exts (e_lang e) with Some rows => pass_exts rows l1 | None => Some l1 end
                            else Some l1) = Some l2).
  { destruct (negb is_attr && negb (in_cdata st)); [|eexists; reflexivity]. destruct (bl_exts (e_lang e)) as [rows|]; [|eexists; reflexivity].
    apply pass_exts_total. }
  destruct H2 as [l2 ->].
  destruct (e_use_strtbl e && negb (in_cdata st && negb is_attr)); [apply pass_strtbl_total; exact EO|eexists; reflexivity].
Qed.

Lemma enc_value_total e st ia ca na par buf : plain_env e = true -> lang_vals_ok (e_lang e) -> entries_ok (strtbl st) ->
  exists b st', enc_value e st ia ca na par buf = EOk (b, st').
Proof.
  intros HP VO EO. rewrite (enc_value_plain e st ia ca na par buf HP). destruct buf as [|c0 r]; [do 2 eexists; reflexivity|].
  destruct (split_value_total e st ia (c0 :: r) VO EO) as [l ->]. destruct (enc_velts st l) as [b st']. do 2 eexists. reflexivity.
Qed.

(* ---- elements ---- *)
Definition tag_tok_ok (tag : tagname) : Prop :=
  match tag with TagTok _ t _ _ => (5 <=? t)%N && (t <? 64)%N = true | TagLit _ => False end.
Definition attr_tok_ok (e : env) (a : attr) : Prop :=
  match at_name a with
  | AttrTok _ _ _ (Some xv) => is_prefix xv (cstr (at_value a)) = true
  | AttrTok _ _ _ None => True
  | AttrLit nm => get_attr_from_xml (e_lang e) nm (cstr (at_value a)) <> None
  end.

(* every element can be written: the string table is in use, or the element needs no LITERAL - a token tag, and (looked at only
   when the language has an attribute table) token attribute starts; elements and texts only *)
Definition elt_encodable (e : env) (tag : tagname) (attrs : list attr) : Prop :=
  e_use_strtbl e = true \/ (tag_tok_ok tag /\ (has_attr_table e = true -> Forall (attr_tok_ok e) attrs)).
Fixpoint encodable (e : env) (n : node) : Prop :=
  match n with
  | NElt tag attrs ch =>
    elt_encodable e tag attrs /\
    (fix all (l : list node) : Prop := match l with [] => True | x :: r => encodable e x /\ all r end) ch
  | NText _ => True
  | _ => False
  end.
Fixpoint all_encodable (e : env) (l : list node) : Prop := match l with [] => True | x :: r => encodable e x /\ all_encodable e r end.
Lemma all_enc_fix e ch : (fix all (l : list node) : Prop := match l with [] => True | x :: r => encodable e x /\ all r end) ch <-> all_encodable e ch.
Proof. induction ch as [|x r IH]; [tauto|]. cbn [all_encodable]. rewrite IH. tauto. Qed.

Lemma enc_literal_total e st name mask : e_use_strtbl e = true -> exists b st', enc_literal e st name mask = EOk (b, st').
Proof. intros H. unfold enc_literal. rewrite H. destruct (strtbl_add _ _ _) as [[idx t] tl]. do 2 eexists. reflexivity. Qed.

Lemma enc_tag_total e st tag ha hc : e_use_strtbl e = true \/ tag_tok_ok tag -> exists b st', enc_tag e st tag ha hc = EOk (b, st').
Proof.
  intros H. unfold enc_tag.
  destruct tag as [p t o nm|nm].
  - cbv beta iota zeta. destruct (N.eqb (N.land _ 63) 0) eqn:E0.
    + destruct H as [H|H]; [apply enc_literal_total; exact H|].
      cbn [tag_tok_ok] in H. apply andb_true_iff in H. destruct H as [H5 H64]. apply N.leb_le in H5. apply N.ltb_lt in H64.
      pose proof (tag_bits_sweep t (ha && match bl_attrs (e_lang e) with Some _ => true | None => false end) hc H64) as [_ HL]. cbv zeta in HL.
      exfalso. apply N.eqb_eq in E0.
      destruct (ha && match bl_attrs (e_lang e) with Some _ => true | None => false end), hc; rewrite HL in E0; lia.
    + destruct (enc_tag_token _ _ _) as [b st']. do 2 eexists. reflexivity.
  - destruct H as [H|H]; [|contradiction].
    destruct (get_tag_from_xml (e_lang e) (tagcp st) nm) as [r|]; cbv beta iota zeta.
    + destruct (N.eqb (N.land _ 63) 0); [apply enc_literal_total; exact H|].
      destruct (enc_tag_token _ _ _) as [b st']. do 2 eexists. reflexivity.
    + destruct (N.eqb (N.land _ 63) 0); [apply enc_literal_total; exact H|].
      destruct (enc_tag_token _ _ _) as [b st']. do 2 eexists. reflexivity.
Qed.

(* the attribute start of enc_attr, named *)
Definition attr_start (e : env) (st : est) (a : attr) : eres (bytes * est * option bytes * option (N * N)) :=
  match at_name a with
  | AttrTok page tok nm oval =>
    match oval with
    | Some xv =>
      if is_prefix xv (cstr (at_value a)) then
        let lft := if N.ltb (len xv) (len (at_value a)) then Some (cstr (skipn (List.length xv) (at_value a))) else None in
        let '(b, st') := enc_attr_token st tok page in EOk (b, st', lft, Some (page, tok))
      else
        match enc_literal e st nm 0 with EOk (b, st') => EOk (b, st', Some (cstr (at_value a)), @None (N * N)) | EErr c => EErr c end
    | None => let '(b, st') := enc_attr_token st tok page in EOk (b, st', Some (cstr (at_value a)), Some (page, tok))
    end
  | AttrLit nm =>
    match get_attr_from_xml (e_lang e) nm (cstr (at_value a)) with
    | Some (r, lft) =>
      let '(b, st') := enc_attr_token st (ba_tok r) (ba_page r) in
      EOk (b, st', match lft with Some k => Some (skipn (N.to_nat k) (cstr (at_value a))) | None => None end, Some (ba_page r, ba_tok r))
    | None =>
      match enc_literal e st nm 0 with EOk (b, st') => EOk (b, st', Some (cstr (at_value a)), @None (N * N)) | EErr c => EErr c end
    end
  end.

Lemma enc_attr_unfold e st node_attrs a :
  enc_attr e st node_attrs a =
  match attr_start e st a with
  | EOk (b1, st1, value_left, cur_attr) =>
    match value_left with
    | None => EOk (b1, st1)
    | Some v => match enc_value e st1 true cur_attr node_attrs None v with EOk (b2, st2) => EOk (b1 ++ b2, st2) | EErr c => EErr c end
    end
  | EErr c => EErr c
  end.
Proof. reflexivity. Qed.

Lemma attr_start_total e st a : e_use_strtbl e = true \/ attr_tok_ok e a -> exists b1 st1 vl ca, attr_start e st a = EOk (b1, st1, vl, ca).
Proof.
  intros HL. unfold attr_start, attr_tok_ok in *. destruct (at_name a) as [page tok nm oval|nm].
  - destruct oval as [xv|].
    + destruct (is_prefix xv (cstr (at_value a))) eqn:IP.
      * destruct (enc_attr_token st tok page) as [b st']. do 4 eexists. reflexivity.
      * destruct HL as [HL|HL]; [|discriminate]. destruct (enc_literal_total e st nm 0 HL) as (b & st' & ->). do 4 eexists. reflexivity.
    + destruct (enc_attr_token st tok page) as [b st']. do 4 eexists. reflexivity.
  - destruct (get_attr_from_xml (e_lang e) nm (cstr (at_value a))) as [[r lft]|].
    + destruct (enc_attr_token st (ba_tok r) (ba_page r)) as [b st']. do 4 eexists. reflexivity.
    + destruct HL as [HL|HL]; [|congruence]. destruct (enc_literal_total e st nm 0 HL) as (b & st' & ->). do 4 eexists. reflexivity.
Qed.

Lemma attr_start_entries e st a b1 st1 vl ca : attr_ok a -> entries_ok (strtbl st) -> attr_start e st a = EOk (b1, st1, vl, ca) ->
  entries_ok (strtbl st1).
Proof.
  intros AO EO. unfold attr_start. unfold attr_ok, attr_xml_name in AO.
  destruct (at_name a) as [page tok nm oval|nm].
  - destruct oval as [xv|].
    + destruct (is_prefix xv (cstr (at_value a))).
      * pose proof (enc_attr_token_keeps st tok page) as K. destruct (enc_attr_token st tok page) as [bb s0]. intros H; injection H as _ <- _ _.
        destruct K as (_ & _ & K). cbn [snd] in K. rewrite K. exact EO.
      * destruct (enc_literal e st nm 0) as [[bb s0]|] eqn:EL; [|discriminate]. intros H; injection H as _ <- _ _.
        destruct (enc_literal_size _ _ _ _ _ _ AO EL) as [_ G]. apply G. exact EO.
    + pose proof (enc_attr_token_keeps st tok page) as K. destruct (enc_attr_token st tok page) as [bb s0]. intros H; injection H as _ <- _ _.
      destruct K as (_ & _ & K). cbn [snd] in K. rewrite K. exact EO.
  - destruct (get_attr_from_xml (e_lang e) nm (cstr (at_value a))) as [[r lft]|].
    + pose proof (enc_attr_token_keeps st (ba_tok r) (ba_page r)) as K. destruct (enc_attr_token st (ba_tok r) (ba_page r)) as [bb s0].
      intros H; injection H as _ <- _ _. destruct K as (_ & _ & K). cbn [snd] in K. rewrite K. exact EO.
    + destruct (enc_literal e st nm 0) as [[bb s0]|] eqn:EL; [|discriminate]. intros H; injection H as _ <- _ _.
      destruct (enc_literal_size _ _ _ _ _ _ AO EL) as [_ G]. apply G. exact EO.
Qed.

Lemma enc_attr_total e st node_attrs a : plain_env e = true -> lang_vals_ok (e_lang e) -> entries_ok (strtbl st) -> attr_ok a ->
  e_use_strtbl e = true \/ attr_tok_ok e a -> exists b st', enc_attr e st node_attrs a = EOk (b, st').
Proof.
  intros HP VO EO AO HL. rewrite enc_attr_unfold.
  destruct (attr_start_total e st a HL) as (b1 & st1 & vl & ca & E1). rewrite E1.
  pose proof (attr_start_entries e st a b1 st1 vl ca AO EO E1) as EO1.
  destruct vl as [v|]; [|do 2 eexists; reflexivity].
  destruct (enc_value_total e st1 true ca node_attrs None v HP VO EO1) as (b2 & st2 & ->). do 2 eexists. reflexivity.
Qed.

Lemma enc_attrs_total e node_attrs : plain_env e = true -> lang_vals_ok (e_lang e) -> forall l st,
  entries_ok (strtbl st) -> Forall attr_ok l -> e_use_strtbl e = true \/ Forall (attr_tok_ok e) l ->
  exists b st', enc_attrs e st node_attrs l = EOk (b, st').
Proof.
  intros HP VO. induction l as [|a r IH]; intros st EO AO HL; cbn [enc_attrs]; [do 2 eexists; reflexivity|].
  inversion AO as [|? ? A1 A2]; subst.
  assert (HLa : e_use_strtbl e = true \/ attr_tok_ok e a) by (destruct HL as [H|H]; [left; exact H|right; inversion H; assumption]).
  assert (HLr : e_use_strtbl e = true \/ Forall (attr_tok_ok e) r) by (destruct HL as [H|H]; [left; exact H|right; inversion H; assumption]).
  destruct (enc_attr_total e st node_attrs a HP VO EO A1 HLa) as (b1 & st1 & E1). rewrite E1.
  destruct (enc_attr_size _ _ _ _ _ _ VO EO A1 E1) as [_ G1].
  destruct (IH st1 (proj2 (proj2 (proj2 G1)) EO) A2 HLr) as (b2 & st2 & ->). do 2 eexists. reflexivity.
Qed.

Lemma enc_element_start_total e st tag attrs hc : plain_env e = true -> lang_vals_ok (e_lang e) -> entries_ok (strtbl st) ->
  name_ok (tag_xml_name tag) -> Forall attr_ok attrs -> elt_encodable e tag attrs ->
  exists b st', enc_element_start e st tag attrs hc = EOk (b, st').
Proof.
  intros HP VO EO TN AN HE. unfold enc_element_start.
  assert (HT : e_use_strtbl e = true \/ tag_tok_ok tag) by (destruct HE as [H|[H _]]; [left|right]; exact H).
  destruct (enc_tag_total e st tag (match attrs with [] => false | _ => true end) hc HT) as (b1 & st1 & E1). rewrite E1.
  destruct (enc_tag_size _ _ _ _ _ _ _ TN E1) as [_ G1].
  destruct (has_attr_table e) eqn:HA; [|do 2 eexists; reflexivity].
  assert (HL : e_use_strtbl e = true \/ Forall (attr_tok_ok e) attrs) by (destruct HE as [H|[_ H]]; [left; exact H|right; exact (H HA)]).
  destruct (enc_attrs_total e attrs HP VO attrs st1 (proj2 (proj2 (proj2 G1)) EO) AN HL) as (b2 & st2 & ->). do 2 eexists. reflexivity.
Qed.

Lemma enc_text_total e st parent c : plain_env e = true -> lang_vals_ok (e_lang e) -> entries_ok (strtbl st) -> in_cdata st = false ->
  exists b st', enc_text e st parent c = EOk (b, st').
Proof.
  intros HP VO EO IC. unfold enc_text. destruct (is_binary_tag st parent); [do 2 eexists; reflexivity|].
  rewrite IC. cbn [negb andb]. destruct (e_ignore_empty e && only_ws c); [do 2 eexists; reflexivity|].
  apply enc_value_total; assumption.
Qed.

(* ---- the walk ---- *)
Section Total.
Variable tbl : list blang.
Variable e : env.
Hypothesis HP : plain_env e = true.
Hypothesis VO : lang_vals_ok (e_lang e).

Definition node_total (n : node) : Prop :=
  forall p st, names_ok n -> encodable e n -> entries_ok (strtbl st) -> in_cdata st = false ->
    exists b st', parse_node tbl e p n st = EOk (b, st') /\ entries_ok (strtbl st') /\ in_cdata st' = false.

Lemma seq_total ns : Forall node_total ns -> forall p st, all_names_ok ns -> all_encodable e ns -> entries_ok (strtbl st) -> in_cdata st = false ->
  exists b st', seq_nodes (parse_node tbl) e p ns st = EOk (b, st') /\ entries_ok (strtbl st') /\ in_cdata st' = false.
Proof.
  induction 1 as [|x r Hx _ IH]; intros p st NO EN EO IC; cbn [seq_nodes].
  - do 2 eexists. split; [reflexivity|]. split; assumption.
  - destruct NO as [N1 N2]. destruct EN as [E1 E2].
    destruct (Hx p st N1 E1 EO IC) as (b1 & st1 & -> & EO1 & IC1).
    destruct (IH p st1 N2 E2 EO1 IC1) as (b2 & st2 & -> & EO2 & IC2).
    do 2 eexists. split; [reflexivity|]. split; assumption.
Qed.

Theorem parse_node_total : forall n, node_total n.
Proof.
  fix IH 1. intros n.
  assert (ALL : forall ks, Forall node_total ks) by (induction ks as [|x r IHk]; constructor; [apply IH|exact IHk]).
  unfold node_total. intros p st NO EN EO IC.
  destruct n as [tag attrs kids|c|kids| |lid roots]; cbn [encodable] in EN; try contradiction; cbn [parse_node].
  - destruct NO as (TN & AN & KN). rewrite all_all_names_ok in KN. destruct EN as [HE KE]. rewrite all_enc_fix in KE.
    destruct (enc_element_start_total e st tag attrs (match kids with [] => false | _ => true end) HP VO EO TN AN HE) as (b1 & st1 & E1). rewrite E1.
    destruct (enc_element_start_size _ _ _ _ _ _ _ VO EO TN AN E1) as [_ (G1 & G2 & _ & G4)].
    assert (IC1 : in_cdata st1 = false) by (rewrite G2; exact IC).
    destruct (seq_total kids (ALL kids) (Some tag) st1 KN KE (G4 EO) IC1) as (b2 & st2 & E2 & EO2 & IC2).
    change (seq_nodes (parse_node tbl) e (Some tag) kids st1) with (seq_nodes (parse_node tbl) e (Some tag) kids st1) in E2. rewrite E2.
    do 2 eexists. split; [reflexivity|]. split; [exact EO2|exact IC2].
  - destruct (enc_text_total e st p c HP VO EO IC) as (b1 & st1 & E1). rewrite E1.
    destruct (enc_text_size _ _ _ _ _ _ VO EO E1) as (_ & _ & K & _ & _ & EO1).
    do 2 eexists. split; [reflexivity|]. split; [exact EO1|]. cbn [in_cdata set_cur_tag]. rewrite K. exact IC.
Qed.
End Total.

(* ---- what success with the string table DISABLED says about a tree of the wide fragment: it needed no literal ---- *)
Section Inversion.
Variable tbl : list blang.
Variable L : lang.
Variable e : env.
Hypothesis HE : e_lang e = to_blang L.
Hypothesis HU : e_use_strtbl e = false.

Lemma enc_literal_off st name mask : enc_literal e st name mask = EErr E_STRTBL_DISABLED.
Proof. unfold enc_literal. rewrite HU. reflexivity. Qed.

Lemma attr_inv st na a b st' : attr_ok3 L a = true -> enc_attr e st na a = EOk (b, st') -> attr_tok_ok e a.
Proof.
  unfold attr_ok3, attr_tok_ok. intros H. apply andb_true_iff in H. destruct H as [Hv H]. rewrite (okb_cstr _ Hv).
  rewrite enc_attr_unfold. unfold attr_start. rewrite (okb_cstr _ Hv).
  destruct (at_name a) as [p t nm oval|nm].
  - intros _. destruct oval as [xv|]; [|exact I].
    apply andb_true_iff in H. destruct H as [_ H].
    destruct (Spec.lookup_attr L p t) as [r|]; [|discriminate].
    apply andb_true_iff in H. destruct H as [_ Hm].
    destruct (a_value r); [|discriminate]. apply andb_true_iff in Hm. tauto.
  - apply andb_true_iff in H. destruct H as [_ H]. rewrite HE.
    destruct (get_attr_from_xml (to_blang L) nm (at_value a)); [discriminate|]. rewrite enc_literal_off. discriminate.
Qed.

Lemma attrs_inv na : forall l st b st', forallb (attr_ok3 L) l = true -> enc_attrs e st na l = EOk (b, st') -> Forall (attr_tok_ok e) l.
Proof.
  induction l as [|a r IH]; intros st b st' H; [constructor|]. cbn [forallb] in H. apply andb_true_iff in H. destruct H as [Ha Hr].
  cbn [enc_attrs]. destruct (enc_attr e st na a) as [[b1 st1]|] eqn:E1; [|discriminate].
  destruct (enc_attrs e st1 na r) as [[b2 st2]|] eqn:E2; [|discriminate]. intros _.
  constructor; [exact (attr_inv _ _ _ _ _ Ha E1)|exact (IH _ _ _ Hr E2)].
Qed.

Definition node_inv (n : node) : Prop :=
  forall d p st b st', tree_ok3 L d n = true -> parse_node tbl e p n st = EOk (b, st') -> encodable e n.

Lemma seq_inv ns : Forall node_inv ns -> forall d p st b st', forallb (tree_ok3 L d) ns = true ->
  seq_nodes (parse_node tbl) e p ns st = EOk (b, st') -> all_encodable e ns.
Proof.
  induction 1 as [|x r Hx _ IH]; intros d p st b st' HT; cbn [seq_nodes]; [intros _; exact I|].
  cbn [forallb] in HT. apply andb_true_iff in HT. destruct HT as [H1 H2].
  destruct (parse_node tbl e p x st) as [[b1 st1]|] eqn:E1; [|discriminate].
  destruct (seq_nodes (parse_node tbl) e p r st1) as [[b2 st2]|] eqn:E2; [|discriminate]. intros _.
  split; [exact (Hx _ _ _ _ _ H1 E1)|exact (IH _ _ _ _ _ H2 E2)].
Qed.

Theorem parse_node_inv : forall n, node_inv n.
Proof.
  fix IH 1. intros n.
  assert (ALL : forall ks, Forall node_inv ks) by (induction ks as [|x r IHk]; constructor; [apply IH|exact IHk]).
  unfold node_inv. intros d p st b st' HT. destruct n as [tag attrs kids|c|kids| |lid roots]; cbn [tree_ok3] in HT; try discriminate; [|intros _; exact I].
  apply andb_true_iff in HT. destruct HT as [HT Hch]. apply andb_true_iff in HT. destruct HT as [HT Hat]. apply andb_true_iff in HT. destruct HT as [_ Htag].
  cbn [parse_node]. destruct (enc_element_start e st tag attrs _) as [[b1 st1]|] eqn:E1; [|discriminate].
  destruct (seq_nodes (parse_node tbl) e (Some tag) kids st1) as [[b2 st2]|] eqn:E2; [|discriminate]. intros _.
  cbn [encodable]. split; [|apply all_enc_fix; exact (seq_inv kids (ALL kids) _ _ _ _ _ Hch E2)].
  right. revert E1. unfold enc_element_start.
  destruct (enc_tag e st tag _ _) as [[bt stt]|] eqn:ET; [|discriminate].
  assert (TT : tag_tok_ok tag).
  { destruct tag as [pp t o nm|nm]; cbn [tag_tok_ok].
    - repeat (apply andb_true_iff in Htag; destruct Htag as [Htag ?]). rewrite Htag.
      match goal with X : (t <? 64)%N = true |- _ => rewrite X end. reflexivity.
    - exfalso. apply andb_true_iff in Htag. destruct Htag as [_ Hun].
      assert (Hlu : lit_unknown e nm = true) by (unfold unknown_tag in Hun; unfold lit_unknown; rewrite HE; exact Hun).
      revert ET. unfold enc_tag. rewrite (lit_unknown_none e nm (tagcp st) Hlu). cbv beta iota zeta.
      assert (H0 : (0 < 64)%N) by lia.
      pose proof (tag_bits_sweep 0 ((match attrs with [] => false | _ => true end) && match bl_attrs (e_lang e) with Some _ => true | None => false end)
                                 (match kids with [] => false | _ => true end) H0) as [_ HL0]. cbv zeta in HL0.
      match goal with |- (if N.eqb (N.land ?tk 63) 0 then _ else _) = _ -> _ =>
        replace (N.land tk 63) with 0%N by (symmetry; destruct ((match attrs with [] => false | _ => true end) && match bl_attrs (e_lang e) with Some _ => true | None => false end),
                                                                 (match kids with [] => false | _ => true end); exact HL0) end.
      cbn [N.eqb]. rewrite enc_literal_off. discriminate. }
  intros E1'. split; [exact TT|]. intros HA. rewrite HA in E1'.
  destruct (enc_attrs e stt attrs attrs) as [[b2' st2']|] eqn:EA; [|discriminate].
  exact (attrs_inv attrs attrs _ _ _ Hat EA).
Qed.
End Inversion.

(* ---- with the string table in use every tree of elements and texts can be written ---- *)
Lemma encodable_strtbl L e : e_use_strtbl e = true -> forall n d, tree_ok3 L d n = true -> encodable e n.
Proof.
  intros HU. fix IH 1. intros n d HT. destruct n as [tag attrs kids|c|kids| |lid roots]; cbn [tree_ok3] in HT; try discriminate; [|exact I].
  apply andb_true_iff in HT. destruct HT as [_ Hch]. cbn [encodable]. split; [left; exact HU|].
  induction kids as [|x r IHr]; [exact I|]. cbn [forallb] in Hch. apply andb_true_iff in Hch. destruct Hch as [H1 H2].
  split; [exact (IH x _ H1)|exact (IHr H2)].
Qed.

(* ---- the whole document ---- *)
Theorem enc_wbxml_total tbl l o roots :
  plain_env (enc_env l o) = true -> lang_vals_ok l -> all_names_ok roots -> all_encodable (enc_env l o) roots ->
  exists w, enc_wbxml tbl l o roots = EOk w.
Proof.
  intros HP VO NO EN. unfold enc_wbxml, enc_body, parse_nodes. set (e := enc_env l o) in *.
  assert (EL : e_lang e = l) by reflexivity.
  destruct (start_state_size e 0 roots) as (_ & _ & EO0).
  assert (IC0 : in_cdata (start_state e roots) = false).
  { unfold start_state. destruct (e_use_strtbl e); [destruct (strtbl_initialize (e_lang e) roots)|]; reflexivity. }
  assert (VO' : lang_vals_ok (e_lang e)) by (rewrite EL; exact VO).
  assert (ALL : Forall (node_total tbl e) roots) by (apply Forall_forall; intros x _; apply parse_node_total; assumption).
  destruct (seq_total tbl e roots ALL None _ NO EN EO0 IC0) as (b & st & -> & _). eexists. reflexivity.
Qed.

(* ---- normalisation keeps the three predicates and does not increase the size ---- *)
Lemma norm_encodable e keep : forall n cd, encodable e n -> all_encodable e (norm_node keep cd n).
Proof.
  fix IH 1. intros n cd H. destruct n as [tag attrs kids|c|kids| |lid roots]; cbn [encodable] in H; try contradiction.
  - destruct H as [HE HK]. cbn [norm_node all_encodable encodable]. split; [|exact I]. split; [exact HE|]. apply all_enc_fix.
    induction kids as [|x r IHr]; [exact I|]. destruct HK as [Hx Hr]. cbn [flat_map].
    assert (Ap : forall a b, all_encodable e a -> all_encodable e b -> all_encodable e (a ++ b))
      by (induction a as [|y ys IHa]; intros b0 Ha Hb; [exact Hb|destruct Ha; split; [assumption|apply IHa; assumption]]).
    apply Ap; [exact (IH x cd Hx)|exact (IHr Hr)].
  - cbn [norm_node]. unfold norm_text. destruct (keep || cd); [|destruct (only_ws c)]; cbn; tauto.
Qed.

Lemma norm_names_ok keep : forall n cd, names_ok n -> all_names_ok (norm_node keep cd n).
Proof.
  fix IH 1. intros n cd H. destruct n as [tag attrs kids|c|kids| |lid roots]; cbn [names_ok] in H.
  - destruct H as (TN & AN & KN). cbn [norm_node all_names_ok names_ok]. split; [|exact I]. split; [exact TN|]. split; [exact AN|].
    rewrite all_all_names_ok.
    induction kids as [|x r IHr]; [exact I|]. destruct KN as [Hx Hr]. cbn [flat_map].
    assert (Ap : forall a b, all_names_ok a -> all_names_ok b -> all_names_ok (a ++ b))
      by (induction a as [|y ys IHa]; intros b0 Ha Hb; [exact Hb|destruct Ha; split; [assumption|apply IHa; assumption]]).
    apply Ap; [exact (IH x cd Hx)|exact (IHr Hr)].
  - cbn [norm_node]. unfold norm_text. destruct (keep || cd); [|destruct (only_ws c)]; cbn; tauto.
  - cbn [norm_node all_names_ok names_ok]. split; [|exact I]. rewrite all_all_names_ok.
    induction kids as [|x r IHr]; [exact I|]. destruct H as [Hx Hr]. cbn [flat_map].
    assert (Ap : forall a b, all_names_ok a -> all_names_ok b -> all_names_ok (a ++ b))
      by (induction a as [|y ys IHa]; intros b0 Ha Hb; [exact Hb|destruct Ha; split; [assumption|apply IHa; assumption]]).
    apply Ap; [exact (IH x true Hx)|exact (IHr Hr)].
  - cbn. tauto.
  - cbn [norm_node all_names_ok names_ok]. split; [|exact I]. rewrite all_all_names_ok.
    induction roots as [|x r IHr]; [exact I|]. destruct H as [Hx Hr]. cbn [flat_map].
    assert (Ap : forall a b, all_names_ok a -> all_names_ok b -> all_names_ok (a ++ b))
      by (induction a as [|y ys IHa]; intros b0 Ha Hb; [exact Hb|destruct Ha; split; [assumption|apply IHa; assumption]]).
    apply Ap; [exact (IH x false Hx)|exact (IHr Hr)].
Qed.

Lemma wsizes_app h a b : wsizes h (a ++ b) = wsizes h a + wsizes h b.
Proof. induction a as [|x r IH]; cbn [app wsizes]; [reflexivity|]. rewrite IH. lia. Qed.

Lemma norm_wsize h keep : forall n cd, wsizes h (norm_node keep cd n) <= wsize h n.
Proof.
  assert (ALL : forall ks, Forall (fun n => forall cd, wsizes h (norm_node keep cd n) <= wsize h n) ks ->
                forall c0, wsizes h (flat_map (norm_node keep c0) ks) <= wsizes h ks).
  { induction 1 as [|x r Hx _ IHr]; intros c0; [cbn; lia|]. cbn [flat_map wsizes]. rewrite wsizes_app. pose proof (Hx c0). pose proof (IHr c0). lia. }
  induction n as [tag attrs kids IH|c|kids IH| |lid roots IH] using node_ind'; intros cd; cbn [norm_node wsizes wsize].
  - rewrite !sum_wsizes. pose proof (ALL kids IH cd). lia.
  - unfold norm_text. destruct (keep || cd); [cbn; lia|]. destruct (only_ws c); [cbn; lia|]. cbn [wsizes wsize]. pose proof (strip_blanks_len c). lia.
  - rewrite !sum_wsizes. pose proof (ALL kids IH true). lia.
  - lia.
  - rewrite !sum_wsizes. pose proof (ALL roots IH false). lia.
Qed.

(* ---- the main table is only consulted for embedded trees ---- *)
Lemma parse_node_tbl_irrel t1 t2 e : forall n p st, encodable e n -> parse_node t1 e p n st = parse_node t2 e p n st.
Proof.
  fix IH 1. intros n p st H. destruct n as [tag attrs kids|c|kids| |lid roots]; cbn [encodable] in H; try contradiction; [|reflexivity].
  destruct H as [_ HK]. cbn [parse_node]. destruct (enc_element_start e st tag attrs _) as [[b1 st1]|]; [|reflexivity].
  assert (HS : forall ks s0, (fix all (l : list node) : Prop := match l with [] => True | x :: r => encodable e x /\ all r end) ks ->
                 (forall x, In x ks -> forall p0 s1, parse_node t1 e p0 x s1 = parse_node t2 e p0 x s1) ->
                 seq_nodes (parse_node t1) e (Some tag) ks s0 = seq_nodes (parse_node t2) e (Some tag) ks s0).
  { induction ks as [|x r IHr]; intros s0 Hk Hin; [reflexivity|]. destruct Hk as [Hx Hr]. cbn [seq_nodes].
    rewrite (Hin x (or_introl eq_refl)). destruct (parse_node t2 e (Some tag) x s0) as [[bx sx]|]; [|reflexivity].
    rewrite (IHr sx Hr (fun y Hy => Hin y (or_intror Hy))). reflexivity. }
  rewrite (HS kids st1 HK).
  - reflexivity.
  - clear HS. induction kids as [|x r IHr]; intros y Hy; [destruct Hy|]. destruct HK as [Hx Hr]. destruct Hy as [<-|Hy].
    + intros p0 s1. exact (IH x p0 s1 Hx).
    + exact (IHr Hr y Hy).
Qed.

Lemma enc_wbxml_tbl_irrel t1 t2 l o roots : all_encodable (enc_env l o) roots -> enc_wbxml t1 l o roots = enc_wbxml t2 l o roots.
Proof.
  intros H. unfold enc_wbxml, enc_body, parse_nodes. generalize (start_state (enc_env l o) roots) as st.
  assert (HS : forall st, seq_nodes (parse_node t1) (enc_env l o) None roots st = seq_nodes (parse_node t2) (enc_env l o) None roots st).
  { induction roots as [|x r IHr]; intros st; [reflexivity|]. destruct H as [Hx Hr]. cbn [seq_nodes].
    rewrite (parse_node_tbl_irrel t1 t2 _ x None st Hx). destruct (parse_node t2 (enc_env l o) None x st) as [[bx sx]|]; [|reflexivity].
    rewrite (IHr Hr sx). reflexivity. }
  intros st. rewrite HS. reflexivity.
Qed.

(* ---- success and size carry over from a source tree of the wide fragment to its normal form ---- *)
Theorem enc_norm_success tbl L o keep tag attrs ch w1 :
  let e := enc_env (to_blang L) o in
  let root := NElt tag attrs ch in
  let R2 := NElt tag attrs (flat_map (norm_node keep false) ch) in
  plain_env e = true -> lang_vals_ok (to_blang L) -> names_ok root -> tree_ok3 L 0 root = true ->
  enc_wbxml tbl (to_blang L) o [root] = EOk w1 ->
  encodable e R2 /\ names_ok R2 /\
  exists w2, enc_wbxml tbl (to_blang L) o [R2] = EOk w2 /\ List.length w2 <= 33 * wsize 0 root + hdr (to_blang L) /\
             List.length w1 <= 33 * wsize 0 root + hdr (to_blang L).
Proof.
  cbv zeta. intros HP VO NO HT E1. set (e := enc_env (to_blang L) o) in *.
  assert (EN : encodable e (NElt tag attrs ch)).
  { destruct (e_use_strtbl e) eqn:HU; [exact (encodable_strtbl L e HU _ 0%N HT)|].
    revert E1. unfold enc_wbxml, enc_body, parse_nodes. fold e. cbn [seq_nodes].
    destruct (parse_node tbl e None (NElt tag attrs ch) (start_state e [NElt tag attrs ch])) as [[b1 st1]|] eqn:EP; [|discriminate]. intros _.
    exact (parse_node_inv tbl L e eq_refl HU _ _ _ _ _ _ HT EP). }
  pose proof (norm_encodable e keep _ false EN) as EN2. pose proof (norm_names_ok keep _ false NO) as NO2.
  cbn [norm_node] in EN2, NO2.
  split; [exact (proj1 EN2)|]. split; [exact (proj1 NO2)|].
  destruct (enc_wbxml_total tbl (to_blang L) o _ HP VO NO2 EN2) as [w2 E2]. exists w2. split; [exact E2|].
  assert (TV : Forall lang_vals_ok (@nil blang)) by constructor.
  assert (TH : forall l0, In l0 (@nil blang) -> hdr l0 <= 0) by (intros l0 []).
  split.
  - rewrite (enc_wbxml_tbl_irrel tbl [] _ _ _ EN2) in E2.
    pose proof (enc_wbxml_size [] 0 TV TH (to_blang L) o _ w2 VO NO2 E2) as S2. cbn [wsizes] in S2.
    pose proof (norm_wsize 0 keep (NElt tag attrs ch) false) as S3. cbn [norm_node wsizes] in S3. lia.
  - assert (EN1 : all_encodable e [NElt tag attrs ch]) by (split; [exact EN|exact I]).
    rewrite (enc_wbxml_tbl_irrel tbl [] _ _ _ EN1) in E1.
    assert (NO1 : all_names_ok [NElt tag attrs ch]) by (split; [exact NO|exact I]).
    pose proof (enc_wbxml_size [] 0 TV TH (to_blang L) o _ w1 VO NO1 E1) as S1. cbn [wsizes] in S1. lia.
Qed.
