(* C04 — the Wireless Village typed decoders of the parser agree with their specification (typed_wv_agree).
   (C12 proves the corresponding facts about its own transcription in Model/Typed.v; this file is about
   Model/Parser.v and Model/Spec.v only.) *)
From Coq Require Import String Ascii.
From Coq Require Import List NArith ZArith Lia Bool ZifyBool ZifyN.
From Wbxml Require Import Base.Bits Model.Codec Model.TablesDefs Model.Parser Model.Spec
     Proofs.CodecProofs Proofs.ParserProofsBase Proofs.ParserProofsStr.
Import ListNotations.
Local Open Scope N_scope.

(* ---- which elements are typed ---- *)

Definition okind_of (t : wv_type) : okind :=
  match t with WV_INTEGER => OWvInt | WV_DATETIME => OWvDate | WV_STRING => OPlain end.

Ltac split_eq x c :=
  let E := fresh "E" in destruct (x =? c) eqn:E; [apply N.eqb_eq in E; subst x|].

Lemma wv_kind_agree page tok : okind_of (wv_data_type page tok) = opaque_kind 2301 (Some (page, tok)).
Proof.
  unfold opaque_kind. cbn [N.eqb Pos.eqb orb]. unfold wv_data_type, pair_in, wv_int_elts, wv_date_elts.
  cbn [existsb fst snd]. rewrite !(N.eqb_sym _ page), !(N.eqb_sym _ tok).
  split_eq page 0; [cbn [N.eqb Pos.eqb andb orb];
    split_eq tok 11; [reflexivity|]; split_eq tok 15; [reflexivity|]; split_eq tok 26; [reflexivity|];
    split_eq tok 60; [reflexivity|]; split_eq tok 17; [reflexivity|]; cbn [orb]; reflexivity|].
  split_eq page 1; [cbn [N.eqb Pos.eqb andb orb];
    split_eq tok 28; [reflexivity|]; split_eq tok 37; [reflexivity|]; split_eq tok 38; [reflexivity|];
    split_eq tok 39; [reflexivity|]; split_eq tok 40; [reflexivity|]; split_eq tok 50; [reflexivity|]; reflexivity|].
  split_eq page 3; [cbn [N.eqb Pos.eqb andb orb];
    split_eq tok 5; [reflexivity|]; split_eq tok 6; [reflexivity|]; split_eq tok 12; [reflexivity|];
    split_eq tok 13; [reflexivity|]; split_eq tok 14; [reflexivity|]; split_eq tok 18; [reflexivity|];
    split_eq tok 19; [reflexivity|]; reflexivity|].
  split_eq page 5; [cbn [N.eqb Pos.eqb andb orb];
    split_eq tok 5; [reflexivity|]; split_eq tok 9; [reflexivity|]; split_eq tok 50; [reflexivity|]; reflexivity|].
  split_eq page 6; [cbn [N.eqb Pos.eqb andb orb]; split_eq tok 26; [reflexivity|]; reflexivity|].
  split_eq page 9; [cbn [N.eqb Pos.eqb andb orb]; split_eq tok 8; [reflexivity|]; split_eq tok 10; [reflexivity|]; reflexivity|].
  reflexivity.
Qed.

(* ---- integer ---- *)

Lemma be_value_ge d : forall acc, acc <= be_value d acc.
Proof. induction d as [|b d IH]; intros acc; cbn [be_value]; [lia|]. specialize (IH (acc * 256 + b)). lia. Qed.

Lemma wv_int_loop_spec d : bytes_okb d = true -> forall acc, acc < 4294967296 ->
  wv_int_loop d acc = if be_value d acc <? 4294967296 then POk (be_value d acc) else PErr PE_WV_INTEGER_OVERFLOW.
Proof.
  induction d as [|b d IH]; intros Hb acc Ha; cbn [wv_int_loop be_value].
  - replace (acc <? 4294967296) with true by lia. reflexivity.
  - cbn [bytes_okb forallb] in Hb. apply andb_prop in Hb. destruct Hb as [Hb1 Hb2]. unfold is_byte in Hb1.
    destruct (16777215 <? acc) eqn:E.
    + pose proof (be_value_ge d (acc * 256 + b)). replace (be_value d (acc * 256 + b) <? 4294967296) with false by lia. reflexivity.
    + rewrite land_255. rewrite N.mod_small by lia.
      rewrite (lor_shiftl_low acc b 8) by (change (2 ^ 8) with 256; lia). change (2 ^ 8) with 256.
      unfold u32. rewrite N.mod_small by lia. apply (IH Hb2). lia.
Qed.

(* decimal printing: accumulator version (the model of sprintf) against the specification *)
Lemma dec_digits_spec f : forall v acc, v < 10 ^ N.of_nat f -> (0 < f)%nat ->
  dec_digits f v acc = dec_spec f v ++ acc.
Proof.
  induction f as [|f IH]; intros v acc Hv Hf; [lia|]. cbn [dec_digits dec_spec].
  destruct (v <? 10) eqn:E.
  - replace (v / 10 =? 0) with true by lia. replace (v mod 10) with v by lia. reflexivity.
  - replace (v / 10 =? 0) with false by lia.
    assert (Hf' : (0 < f)%nat).
    { destruct f; [|lia]. cbn in Hv. lia. }
    rewrite IH; [rewrite <- app_assoc; reflexivity| |exact Hf'].
    rewrite Nat2N.inj_succ, N.pow_succ_r' in Hv. lia.
Qed.

Lemma dec_spec_fuel f : forall g v, v < 10 ^ N.of_nat f -> (0 < f)%nat -> (f <= g)%nat -> dec_spec g v = dec_spec f v.
Proof.
  induction f as [|f IH]; intros g v Hv Hf Hg; [lia|]. destruct g as [|g]; [lia|]. cbn [dec_spec].
  destruct (v <? 10) eqn:E; [reflexivity|].
  assert (Hf' : (0 < f)%nat) by (destruct f; [cbn in Hv; lia|lia]).
  rewrite (IH g); [reflexivity| |exact Hf'|lia]. rewrite Nat2N.inj_succ, N.pow_succ_r' in Hv. lia.
Qed.

Lemma fmt_u_decimal v : v < 4294967296 -> fmt_u v = decimal v.
Proof.
  intros Hv. unfold fmt_u, decimal. rewrite dec_digits_spec by (cbn; lia). rewrite app_nil_r.
  symmetry. apply dec_spec_fuel; [cbn; lia|lia|lia].
Qed.

Lemma wv_integer_agree d o : bytes_okb d = true -> spec_wv_integer d = Some o -> decode_wv_integer d = POk o.
Proof.
  intros Hb H. unfold spec_wv_integer in H. destruct (be_value d 0 <? 4294967296) eqn:E; [|discriminate]. injection H as <-.
  unfold decode_wv_integer. rewrite (wv_int_loop_spec d Hb 0) by lia. rewrite E. rewrite fmt_u_decimal by lia. reflexivity.
Qed.

(* ---- date and time ---- *)

Definition list_eqb (a b : bytes) : bool := bytes_eqb a b.
Lemma bytes_eqb_eq a : forall b, bytes_eqb a b = true -> a = b.
Proof.
  induction a as [|x a IH]; intros [|y b] H; cbn [bytes_eqb] in H; try discriminate; [reflexivity|].
  apply andb_prop in H. destruct H as [H1 H2]. apply N.eqb_eq in H1. subst y. rewrite (IH b H2). reflexivity.
Qed.

Lemma fmt_02u_sweep : forallb (fun v => bytes_eqb (fmt_02u v) (two_digits v)) (N_range 64) = true.
Proof. vm_compute. reflexivity. Qed.
Lemma fmt_02u_two v : v < 64 -> fmt_02u v = two_digits v.
Proof. intros H. apply bytes_eqb_eq. exact (sweep1 _ 64 fmt_02u_sweep v H). Qed.

Lemma fmt_04u_sweep : forallb (fun v => bytes_eqb (fmt_04u v) (four_digits v)) (N_range 4096) = true.
Proof. vm_compute. reflexivity. Qed.
Lemma fmt_04u_four v : v < 4096 -> fmt_04u v = four_digits v.
Proof. intros H. apply bytes_eqb_eq. exact (sweep1 _ 4096 fmt_04u_sweep v H). Qed.

Lemma shiftr_div x k : N.shiftr x k = x / 2 ^ k.
Proof. apply N.shiftr_div_pow2. Qed.
Lemma shiftl_mul x k : N.shiftl x k = x * 2 ^ k.
Proof. apply N.shiftl_mul_pow2. Qed.
Lemma land_low x k : N.land x (N.ones k) = x mod 2 ^ k.
Proof. apply N.land_ones. Qed.

Lemma wv_datetime_agree d o : bytes_okb d = true -> spec_wv_datetime d = Some o -> decode_wv_datetime d = POk o.
Proof.
  intros Hb H. unfold spec_wv_datetime in H.
  destruct d as [|d0 [|d1 [|d2 [|d3 [|d4 [|z [|x d]]]]]]]; try discriminate.
  cbn [bytes_okb forallb] in Hb. unfold is_byte in Hb.
  assert (H0 : d0 < 256) by lia. assert (H1 : d1 < 256) by lia. assert (H2 : d2 < 256) by lia.
  assert (H3 : d3 < 256) by lia. assert (H4 : d4 < 256) by lia.
  cbn [be_value] in H. set (n := (((0 * 256 + d0) * 256 + d1) * 256 + d2) * 256 + d3) in *.
  injection H as <-. unfold decode_wv_datetime.
  (* the fields *)
  assert (Ey : N.shiftl (N.land d0 63) 6 + N.land (N.shiftr d1 2) 63 = ((n * 256 + d4) / 67108864) mod 4096).
  { change 63 with (N.ones 6). rewrite !land_low, shiftr_div, shiftl_mul. change (2 ^ 6) with 64. change (2 ^ 2) with 4. subst n. lia. }
  assert (Em : N.lor (N.shiftl (N.land d1 3) 2) (N.land (N.shiftr d2 6) 3) = ((n * 256 + d4) / 4194304) mod 16).
  { change 3 with (N.ones 2). rewrite !land_low, shiftr_div. change (2 ^ 2) with 4. change (2 ^ 6) with 64.
    rewrite lor_shiftl_low by (change (2 ^ 2) with 4; lia). change (2 ^ 2) with 4. subst n. lia. }
  assert (Ed : N.land (N.shiftr d2 1) 31 = ((n * 256 + d4) / 131072) mod 32).
  { change 31 with (N.ones 5). rewrite land_low, shiftr_div. change (2 ^ 5) with 32. change (2 ^ 1) with 2. subst n. lia. }
  assert (Eh : N.lor (N.shiftl (N.land d2 1) 4) (N.land (N.shiftr d3 4) 15) = ((n * 256 + d4) / 4096) mod 32).
  { change 1 with (N.ones 1) at 1. change 15 with (N.ones 4). rewrite !land_low, shiftr_div. change (2 ^ 1) with 2. change (2 ^ 4) with 16.
    rewrite lor_shiftl_low by (change (2 ^ 4) with 16; lia). change (2 ^ 4) with 16. subst n. lia. }
  assert (Emi : N.lor (N.shiftl (N.land d3 15) 2) (N.land (N.shiftr d4 6) 3) = ((n * 256 + d4) / 64) mod 64).
  { change 15 with (N.ones 4). change 3 with (N.ones 2). rewrite !land_low, shiftr_div. change (2 ^ 4) with 16. change (2 ^ 2) with 4. change (2 ^ 6) with 64.
    rewrite lor_shiftl_low by (change (2 ^ 2) with 4; lia). change (2 ^ 2) with 4. subst n. lia. }
  assert (Es : N.land d4 63 = (n * 256 + d4) mod 64).
  { change 63 with (N.ones 6). rewrite land_low. change (2 ^ 6) with 64. subst n. lia. }
  rewrite Ey, Em, Ed, Eh, Emi, Es.
  rewrite fmt_04u_four by (apply N.mod_lt; lia).
  rewrite !fmt_02u_two by (try (apply N.mod_lt; lia); lia).
  destruct ((n * 256 + d4) mod 64 =? 0) eqn:E0.
  - destruct (z =? 0) eqn:Ez; [reflexivity|].
    destruct ((z <? 65) || (90 <? z) || (z =? 74)) eqn:Ezz.
    + replace ((65 <=? z) && (z <=? 90) && negb (z =? 74)) with false by lia. reflexivity.
    + replace ((65 <=? z) && (z <=? 90) && negb (z =? 74)) with true by lia. reflexivity.
  - destruct (z =? 0) eqn:Ez; [reflexivity|].
    destruct ((z <? 65) || (90 <? z) || (z =? 74)) eqn:Ezz.
    + replace ((65 <=? z) && (z <=? 90) && negb (z =? 74)) with false by lia. reflexivity.
    + replace ((65 <=? z) && (z <=? 90) && negb (z =? 74)) with true by lia. reflexivity.
Qed.

Theorem typed_wv_agree_proved : typed_wv_agree.
Proof.
  unfold typed_wv_agree. intros cur d o Hb H. unfold decode_wv_content.
  destruct cur as [[page tok]|].
  - rewrite <- wv_kind_agree in H. destruct (wv_data_type page tok); cbn [okind_of spec_opaque] in H.
    + injection H as <-. reflexivity.
    + apply wv_integer_agree; assumption.
    + apply wv_datetime_agree; assumption.
  - cbn in H. injection H as <-. reflexivity.
Qed.
