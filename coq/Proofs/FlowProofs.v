(* C17 — lemmas about Model/Flow.v *)
From Coq Require Import List NArith Bool Lia PeanoNat.
From Wbxml Require Import Model.Flow.
Import ListNotations.

Section FlowProofs.
  Variables (ctx node : Type).
  Variable ctx0 : ctx.
  Variable enc_node : ctx -> node -> bytes * ctx.
  Variable enc_start : ctx -> node -> bool -> bytes * ctx.
  Variable enc_end : ctx -> node -> bool -> bytes * ctx.
  Variable header : bytes.

  Notation batch := (batch_from ctx node enc_node enc_start enc_end).
  Notation encf := (enc_frag ctx node enc_node enc_start enc_end).
  Notation stepF := (step_fixed ctx node enc_node enc_start enc_end header).
  Notation stepA := (step ctx node enc_node enc_start enc_end header).
  Notation sstepN := (sstep node).
  Notation fst' := (@fst bytes ctx).
  Notation snd' := (@snd bytes ctx).

  Lemma batch_app : forall l1 l2 c,
    batch c (l1 ++ l2) = (fst (batch c l1) ++ fst (batch (snd (batch c l1)) l2), snd (batch (snd (batch c l1)) l2)).
  Proof.
    induction l1 as [|f l1 IH]; intros l2 c.
    - cbn. destruct (batch c l2); reflexivity.
    - cbn [app batch_from]. destruct (encf c f) as [b c1] eqn:E. rewrite IH.
      destruct (batch c1 l1) as [b1 c2]. cbn [fst snd]. destruct (batch c2 l2) as [b2 c3]. cbn [fst snd].
      rewrite app_assoc. reflexivity.
  Qed.

  Lemma batch_snoc l f c :
    batch c (l ++ [f]) = (fst (batch c l) ++ fst (encf (snd (batch c l)) f), snd (encf (snd (batch c l)) f)).
  Proof.
    rewrite batch_app. cbn [batch_from]. destruct (encf (snd (batch c l)) f) as [b c1]. cbn [fst snd].
    rewrite app_nil_r. reflexivity.
  Qed.

  Lemma batch_prefix k l c :
    firstn (length (fst (batch c (firstn k l)))) (fst (batch c l)) = fst (batch c (firstn k l)).
  Proof.
    rewrite <- (firstn_skipn k l) at 2. rewrite batch_app. cbn [fst].
    rewrite firstn_app, Nat.sub_diag, firstn_all. cbn [firstn]. apply app_nil_r.
  Qed.

  Lemma firstn_snoc_le {A} k (l : list A) x : (k <= length l)%nat -> firstn k (l ++ [x]) = firstn k l.
  Proof.
    intros H. rewrite firstn_app. replace (k - length l)%nat with 0%nat by lia. cbn [firstn]. apply app_nil_r.
  Qed.

  Lemma firstn_snoc_all {A} (l : list A) x : firstn (length l) (l ++ [x]) = l.
  Proof. rewrite firstn_app, Nat.sub_diag, firstn_all. cbn [firstn]. apply app_nil_r. Qed.

  (* the simulation relation between the encoder state and the specification state *)
  Definition Rel (with_saved : bool) (s : fstate ctx) (sp : sstate node) : Prop :=
    out ctx s = fst (batch ctx0 (frags node sp)) /\
    cx ctx s = snd (batch ctx0 (frags node sp)) /\
    pre_last ctx s = length (fst (batch ctx0 (firstn (mark node sp) (frags node sp)))) /\
    (with_saved = true -> saved ctx s = snd (batch ctx0 (firstn (mark node sp) (frags node sp)))) /\
    (mark node sp <= length (frags node sp))%nat /\
    hdr ctx s = (if seen node sp then Some header else None).

  Lemma rel_init b : Rel b (init ctx ctx0) (sinit node).
  Proof. unfold Rel. cbn. auto 10. Qed.

  Lemma rel_step_fixed s sp o : Rel true s sp -> Rel true (stepF s o) (sstepN sp o).
  Proof.
    intros (H1 & H2 & H3 & H4 & H5 & H6). specialize (H4 eq_refl). destruct o as [n | n c | n c | |].
    - cbn [step_fixed sstep]. destruct (enc_node (cx ctx s) n) as [b c'] eqn:E. unfold Rel. cbn [out cx pre_last saved hdr frags mark seen].
      rewrite batch_snoc, firstn_snoc_all. cbn [enc_frag fst snd]. rewrite <- H2, E. cbn [fst snd].
      split; [rewrite H1; reflexivity|]. split; [reflexivity|]. split; [rewrite H1; reflexivity|].
      split; [intros _; reflexivity|]. split; [rewrite app_length; cbn; lia|].
      unfold build_header. rewrite H6. destruct (seen node sp); reflexivity.
    - cbn [step_fixed step sstep]. destruct (enc_start (cx ctx s) n c) as [b c'] eqn:E. unfold Rel. cbn [out cx pre_last saved hdr frags mark seen].
      rewrite batch_snoc, (firstn_snoc_le _ _ _ H5). cbn [enc_frag fst snd]. rewrite <- H2, E. cbn [fst snd].
      split; [rewrite H1; reflexivity|]. split; [reflexivity|]. split; [exact H3|].
      split; [intros _; exact H4|]. split; [rewrite app_length; cbn; lia | exact H6].
    - cbn [step_fixed step sstep]. destruct (enc_end (cx ctx s) n c) as [b c'] eqn:E. unfold Rel. cbn [out cx pre_last saved hdr frags mark seen].
      rewrite batch_snoc, (firstn_snoc_le _ _ _ H5). cbn [enc_frag fst snd]. rewrite <- H2, E. cbn [fst snd].
      split; [rewrite H1; reflexivity|]. split; [reflexivity|]. split; [exact H3|].
      split; [intros _; exact H4|]. split; [rewrite app_length; cbn; lia | exact H6].
    - cbn [step_fixed sstep]. unfold Rel. cbn [out cx pre_last saved hdr frags mark seen].
      rewrite firstn_firstn, Nat.min_id.
      split; [rewrite H1, H3; apply batch_prefix|]. split; [exact H4|]. split; [exact H3|].
      split; [intros _; exact H4|]. split; [rewrite firstn_length; lia | exact H6].
    - exact (conj H1 (conj H2 (conj H3 (conj (fun _ => H4) (conj H5 H6))))).
  Qed.

  Lemma rel_run_fixed : forall ops s sp, Rel true s sp -> Rel true (fold_left stepF ops s) (fold_left sstepN ops sp).
  Proof. induction ops as [|o ops IH]; intros s sp H; [exact H|]. cbn [fold_left]. apply IH, rel_step_fixed, H. Qed.

  Theorem fixed_invariant ops :
    Rel true (run_fixed ctx node ctx0 enc_node enc_start enc_end header ops) (srun node ops).
  Proof. apply rel_run_fixed, rel_init. Qed.

  Theorem fixed_output ops :
    get_output ctx (run_fixed ctx node ctx0 enc_node enc_start enc_end header ops) =
    spec_output ctx node ctx0 enc_node enc_start enc_end header ops.
  Proof.
    destruct (fixed_invariant ops) as (H1 & _ & _ & _ & _ & H6). unfold get_output, spec_output, live.
    rewrite H6, H1. destruct (seen node (srun node ops)); reflexivity.
  Qed.

  (* the unrepaired code: the same relation (without the saved context) along safe histories *)
  Section Safe.
    Variable eqb : ctx -> ctx -> bool.
    Hypothesis eqb_ok : ctx_eqb_spec ctx eqb.

    Lemma rel_step_safe s sp o : Rel false s sp ->
      safe_from ctx node ctx0 enc_node enc_start enc_end eqb sp [o] = true ->
      Rel false (stepA s o) (sstepN sp o).
    Proof.
      intros (H1 & H2 & H3 & _ & H5 & H6) Hs. destruct o as [n | n c | n c | |].
      - cbn [step sstep]. destruct (enc_node (cx ctx s) n) as [b c'] eqn:E. unfold Rel. cbn [out cx pre_last saved hdr frags mark seen].
        rewrite batch_snoc, firstn_snoc_all. cbn [enc_frag fst snd]. rewrite <- H2, E. cbn [fst snd].
        split; [rewrite H1; reflexivity|]. split; [reflexivity|]. split; [rewrite H1; reflexivity|].
        split; [discriminate|]. split; [rewrite app_length; cbn; lia|].
        unfold build_header. rewrite H6. destruct (seen node sp); reflexivity.
      - cbn [step sstep]. destruct (enc_start (cx ctx s) n c) as [b c'] eqn:E. unfold Rel. cbn [out cx pre_last saved hdr frags mark seen].
        rewrite batch_snoc, (firstn_snoc_le _ _ _ H5). cbn [enc_frag fst snd]. rewrite <- H2, E. cbn [fst snd].
        split; [rewrite H1; reflexivity|]. split; [reflexivity|]. split; [exact H3|].
        split; [discriminate|]. split; [rewrite app_length; cbn; lia | exact H6].
      - cbn [step sstep]. destruct (enc_end (cx ctx s) n c) as [b c'] eqn:E. unfold Rel. cbn [out cx pre_last saved hdr frags mark seen].
        rewrite batch_snoc, (firstn_snoc_le _ _ _ H5). cbn [enc_frag fst snd]. rewrite <- H2, E. cbn [fst snd].
        split; [rewrite H1; reflexivity|]. split; [reflexivity|]. split; [exact H3|].
        split; [discriminate|]. split; [rewrite app_length; cbn; lia | exact H6].
      - cbn [safe_from] in Hs. rewrite andb_true_r in Hs. apply eqb_ok in Hs.
        cbn [step sstep]. unfold Rel. cbn [out cx pre_last saved hdr frags mark seen].
        rewrite firstn_firstn, Nat.min_id.
        split; [rewrite H1, H3; apply batch_prefix|]. split; [rewrite H2; symmetry; exact Hs|]. split; [exact H3|].
        split; [discriminate|]. split; [rewrite firstn_length; lia | exact H6].
      - exact (conj H1 (conj H2 (conj H3 (conj (fun (H : false = true) => match Bool.diff_false_true H with end) (conj H5 H6))))).
    Qed.

    Lemma rel_run_safe : forall ops s sp, Rel false s sp ->
      safe_from ctx node ctx0 enc_node enc_start enc_end eqb sp ops = true ->
      Rel false (fold_left stepA ops s) (fold_left sstepN ops sp).
    Proof.
      induction ops as [|o ops IH]; intros s sp H Hs; [exact H|]. cbn [fold_left].
      cbn [safe_from] in Hs. apply andb_prop in Hs as [Ho Hr]. apply IH; [|exact Hr].
      apply rel_step_safe; [exact H|]. cbn [safe_from]. rewrite Ho. reflexivity.
    Qed.

    Theorem safe_output ops : safe ctx node ctx0 enc_node enc_start enc_end eqb ops = true ->
      get_output ctx (run ctx node ctx0 enc_node enc_start enc_end header ops) =
      spec_output ctx node ctx0 enc_node enc_start enc_end header ops.
    Proof.
      intros Hs. destruct (rel_run_safe ops _ _ (rel_init false) Hs) as (H1 & _ & _ & _ & _ & H6).
      unfold get_output, spec_output, live, run, srun. rewrite H6, H1.
      destruct (seen node (fold_left sstepN ops (sinit node))); reflexivity.
    Qed.
  End Safe.
End FlowProofs.

(* the concrete encoder: the unrepaired step is refuted by the D16 history, the repaired one is not *)
Lemma cctx_eqb_ok : ctx_eqb_spec cctx cctx_eqb.
Proof.
  intros [a1 a2] [b1 b2]. unfold cctx_eqb. cbn [fst snd]. rewrite andb_true_iff, !N.eqb_eq. split.
  - intros [-> ->]. reflexivity.
  - intros [= -> ->]. auto.
Qed.

Lemma d16_refutes : forall header,
  c_get_output (c_run header d16_ops) <> c_spec_output header d16_ops.
Proof.
  intros header H.
  assert (E : skipn (length header) (c_get_output (c_run header d16_ops)) =
              skipn (length header) (c_spec_output header d16_ops)) by (rewrite H; reflexivity).
  unfold c_get_output, c_spec_output, get_output, spec_output in E. cbn in E.
  rewrite !skipn_app, !skipn_all, Nat.sub_diag in E. cbn in E. discriminate.
Qed.

Lemma d16_outputs :
  c_get_output (c_run [] d16_ops) = [5; 71; 3; 98; 54; 52; 0; 1]%N /\
  c_spec_output [] d16_ops = [5; 0; 1; 71; 3; 98; 54; 52; 0; 1]%N /\
  c_get_output (c_run_fixed [] d16_ops) = [5; 0; 1; 71; 3; 98; 54; 52; 0; 1]%N /\
  c_safe d16_ops = false.
Proof. vm_compute. auto. Qed.
