(* C19 — refinement of wbxml_buffer_split_words to words_spec, and the step / run theorems for
   ALL operations. *)
From Coq Require Import List NArith Arith Lia Bool.
From Wbxml Require Import Model.Codec Model.BufferModel Model.BufferSpec Proofs.BufferProofs Proofs.BufferSearchProofs.
Import ListNotations.

(* --- the specification seen as blanks / word / rest -------------------------------------- *)

Fixpoint take_word (s : list N) : list N :=
  match s with c :: r => if is_cspace c then [] else c :: take_word r | [] => [] end.
Fixpoint drop_word (s : list N) : list N :=
  match s with c :: r => if is_cspace c then s else drop_word r | [] => [] end.

Lemma take_drop_word s : s = take_word s ++ drop_word s.
Proof. induction s as [|c r IH]; cbn; [reflexivity|]. destruct (is_cspace c); cbn; [reflexivity | now f_equal]. Qed.

Lemma take_word_all s : forallb (fun c => negb (is_cspace c)) (take_word s) = true.
Proof. induction s as [|c r IH]; cbn; [reflexivity|]. destruct (is_cspace c) eqn:E; cbn; [reflexivity | now rewrite E]. Qed.

Lemma drop_word_head s : match drop_word s with [] => True | c :: _ => negb (is_cspace c) = false end.
Proof. induction s as [|c r IH]; cbn; [exact I|]. destruct (is_cspace c) eqn:E; [now rewrite E | exact IH]. Qed.

Lemma drop_blanks_head' s : match drop_blanks s with [] => True | c :: _ => is_cspace c = false end.
Proof. apply drop_blanks_head. Qed.

Lemma words_aux_blanks s : words_aux [] s = words_aux [] (drop_blanks s).
Proof. induction s as [|c r IH]; cbn; [reflexivity|]. destruct (is_cspace c) eqn:E; [exact IH | cbn; now rewrite E]. Qed.

Lemma words_aux_word s : forall cur, words_aux cur s = words_aux (rev (take_word s) ++ cur) (drop_word s).
Proof.
  induction s as [|c r IH]; intros cur; cbn [take_word drop_word]; [reflexivity|].
  destruct (is_cspace c) eqn:E; [reflexivity|]. cbn [words_aux]. rewrite E, IH. cbn [rev]. now rewrite <- app_assoc.
Qed.

Lemma words_aux_flush cur s : cur <> [] -> match s with [] => True | c :: _ => is_cspace c = true end ->
  words_aux cur s = rev cur :: words_aux [] s.
Proof.
  intros Hc Hs. destruct s as [|c r]; cbn.
  - destruct cur; [congruence | reflexivity].
  - rewrite Hs. destruct cur; [congruence | reflexivity].
Qed.

(* one round of the splitter on the specification side *)
Lemma words_round s :
  let w := take_word (drop_blanks s) in
  words_spec s = match w with [] => [] | _ => w :: words_spec (drop_word (drop_blanks s)) end.
Proof.
  cbn zeta. unfold words_spec. rewrite words_aux_blanks. set (t := drop_blanks s).
  pose proof (drop_blanks_head s) as Hh. fold t in Hh.
  destruct (take_word t) as [|w0 w] eqn:Ew.
  - destruct t as [|c r]; [reflexivity|]. cbn in Ew. rewrite Hh in Ew. discriminate.
  - rewrite <- Ew. rewrite (words_aux_word t []), app_nil_r.
    rewrite words_aux_flush; [now rewrite rev_involutive | |].
    + rewrite Ew. cbn. destruct (rev w); discriminate.
    + pose proof (drop_word_head t) as Hd. destruct (drop_word t); [exact I|]. now apply negb_false_iff in Hd.
Qed.

(* --- the scanning loops ------------------------------------------------------------------- *)

Lemma nth_contents b i : Wf b -> i < blen b -> nth i (cells b) junk = nth i (contents b) junk.
Proof.
  intros Hw Hi. unfold contents. rewrite <- (firstn_skipn (blen b) (cells b)) at 1.
  apply app_nth1. rewrite firstn_length. unfold Wf in Hw. lia.
Qed.

Lemma skip_while_ok p run : forall pre b fuel rest, Wf b -> contents b = pre ++ run ++ rest ->
  forallb p run = true -> match rest with [] => True | c :: _ => p c = false end -> length run < fuel ->
  skip_while fuel p b (N.of_nat (length pre)) = Some (N.of_nat (length pre + length run)).
Proof.
  induction run as [|x run IH]; intros pre b fuel rest Hw Hc Hp Hrest Hf;
    (destruct fuel as [|f]; [cbn in Hf; lia|]); cbn [skip_while];
    pose proof (contents_length b Hw) as Hl; rewrite Hc in Hl.
  - cbn [app length] in *. rewrite Nat.add_0_r. destruct rest as [|c rest].
    + rewrite app_nil_r in Hl. replace (N.of_nat (length pre) <? N.of_nat (blen b))%N with false by (symmetry; apply N.ltb_ge; lia).
      reflexivity.
    + rewrite app_length in Hl. cbn [length] in Hl. rewrite Nat2N.id, nth_contents by (auto; lia).
      rewrite Hc, app_nth2 by lia. rewrite Nat.sub_diag. cbn [nth]. rewrite Hrest. now rewrite andb_false_r.
  - cbn [forallb] in Hp. apply andb_true_iff in Hp. destruct Hp as (Hx & Hp).
    rewrite !app_length in Hl. cbn [length] in Hl.
    replace (N.of_nat (length pre) <? N.of_nat (blen b))%N with true by (symmetry; apply N.ltb_lt; lia).
    rewrite Nat2N.id, nth_contents by (auto; lia). rewrite Hc, app_nth2 by lia. rewrite Nat.sub_diag. cbn [nth app andb].
    rewrite Hx.
    replace (N.of_nat (length pre) + 1)%N with (N.of_nat (length (pre ++ [x]))) by (rewrite app_length; cbn; lia).
    rewrite (IH (pre ++ [x]) b f rest Hw); [| now rewrite <- app_assoc | exact Hp | exact Hrest | cbn in Hf; lia].
    f_equal. rewrite app_length. cbn. lia.
Qed.

Lemma firstn_skipn_contents b j k : j + k <= blen b ->
  firstn k (skipn j (cells b)) = firstn k (skipn j (contents b)).
Proof. intros H. unfold contents. rewrite skipn_firstn_comm, firstn_firstn. f_equal. lia. Qed.

Lemma split_loop_ok b : Wf b -> (N.of_nat (blen b) + 22 < 4294967296)%N ->
  forall fuel pre post, contents b = pre ++ post -> length post < fuel ->
  exists ws, split_loop fuel b (N.of_nat (length pre)) = Some ws /\ map contents ws = words_spec post.
Proof.
  intros Hw H32. pose proof (contents_length b Hw) as Hl.
  induction fuel as [|f IH]; intros pre post Hc Hf; [lia|]. cbn [split_loop].
  set (bl := take_blanks post). set (t := drop_blanks post). set (w := take_word t). set (rest := drop_word t).
  assert (Hpost : post = bl ++ w ++ rest).
  { unfold bl, w, rest, t. rewrite <- take_drop_word. apply take_drop. }
  assert (Hlen : length post = length bl + length w + length rest).
  { rewrite Hpost at 1. rewrite !app_length. lia. }
  rewrite (skip_while_ok is_cspace bl pre b (S (blen b)) (w ++ rest) Hw).
  2:{ now rewrite Hc, Hpost. }
  2:{ apply take_blanks_all. }
  2:{ unfold w, rest. rewrite <- take_drop_word. apply drop_blanks_head. }
  2:{ rewrite <- Hl, Hc, app_length. lia. }
  replace (N.of_nat (length pre + length bl)) with (N.of_nat (length (pre ++ bl))) by (now rewrite app_length).
  rewrite (skip_while_ok (fun c => negb (is_cspace c)) w (pre ++ bl) b (S (blen b)) rest Hw).
  2:{ rewrite Hc, Hpost. now rewrite <- app_assoc. }
  2:{ apply take_word_all. }
  2:{ apply drop_word_head. }
  2:{ rewrite <- Hl, Hc, app_length. lia. }
  rewrite (words_round post). fold t w rest.
  destruct w as [|w0 w'] eqn:Ew.
  { cbn [length]. rewrite Nat.add_0_r, N.eqb_refl. now exists []. }
  rewrite <- Ew in *.
  assert (Hwl : 0 < length w) by (rewrite Ew; cbn; lia).
  replace (N.of_nat (length (pre ++ bl)) =? N.of_nat (length (pre ++ bl) + length w))%N with false
    by (symmetry; apply N.eqb_neq; lia).
  replace (N.to_nat (N.of_nat (length (pre ++ bl) + length w) - N.of_nat (length (pre ++ bl)))) with (length w) by lia.
  rewrite Nat2N.id.
  assert (Hword : firstn (length w) (skipn (length (pre ++ bl)) (cells b)) = w).
  { rewrite firstn_skipn_contents.
    - rewrite Hc, Hpost, app_assoc. rewrite skipn_app_l by reflexivity. now apply firstn_app_l.
    - rewrite <- Hl, Hc, !app_length. lia. }
  rewrite Hword.
  replace (N.of_nat (length (pre ++ bl) + length w)) with (N.of_nat (length (pre ++ bl ++ w)))
    by (rewrite !app_length; f_equal; lia).
  destruct (IH (pre ++ bl ++ w) rest) as (ws & H1 & H2).
  { rewrite Hc, Hpost. now rewrite <- !app_assoc. }
  { lia. }
  rewrite H1. exists (create w 20 :: ws). split; [reflexivity|]. cbn [map]. rewrite H2. f_equal.
  assert (HR : R (create w 20) w).
  { apply create_R. rewrite <- Hl, Hc, app_length in H32. lia. }
  now destruct (R_contents _ _ HR).
Qed.

Lemma split_words_ok b : Wf b -> (N.of_nat (blen b) + 22 < 4294967296)%N ->
  exists ws, split_words b = Some ws /\ map contents ws = words_spec (contents b).
Proof.
  intros Hw H32. unfold split_words. apply (split_loop_ok b Hw H32 (S (blen b)) [] (contents b)); [reflexivity|].
  rewrite contents_length by exact Hw. lia.
Qed.

Lemma refines_split_words b : Inv b -> op_ok (abs b) OSplitWords = true -> refines_step b OSplitWords.
Proof.
  intros HI Hok. cbn [op_ok abs fst] in Hok. apply N.ltb_lt in Hok.
  pose proof (Inv_Wf b HI) as Hw. pose proof (contents_length b Hw) as Hl.
  destruct (split_words_ok b Hw) as (ws & H1 & H2); [lia|].
  eapply refines_readonly; [exact HI | | reflexivity]. cbn [step spec_step abs fst]. now rewrite H1, H2.
Qed.

(* ---------------------------------------------------------------------------------------- *)
(* every operation                                                                           *)

Theorem step_refines_all b o : Inv b -> op_ok (abs b) o = true -> refines_step b o.
Proof.
  intros HI Hok. destruct (proved_op_s o) eqn:E; [now apply step_refines_s|].
  destruct o; try discriminate E. now apply refines_split_words.
Qed.

Theorem run_refines_all ops : forall b, Inv b -> ops_ok (abs b) ops = true ->
  map (fun x => (abs (fst x), snd x)) (run b ops) = spec_run (abs b) ops /\
  Forall (fun x => Inv (fst x)) (run b ops).
Proof.
  induction ops as [|o r IH]; intros b HI Hok; cbn [run spec_run map]; [split; constructor|].
  cbn [ops_ok] in Hok. apply andb_true_iff in Hok. destruct Hok as (Hok1 & Hok2).
  destruct (step_refines_all b o HI Hok1) as (Ha & Hr & HI').
  rewrite <- Ha in Hok2. destruct (IH _ HI' Hok2) as (IH1 & IH2).
  split; [|constructor; auto].
  rewrite IH1, Ha. f_equal. rewrite Hr. now destruct (spec_step (abs b) o).
Qed.
