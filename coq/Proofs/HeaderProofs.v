(* C10 — parse_header reads back the fields of a serialised WBXML header (generic: any version byte, numeric or
   string-table public id, charset, string table, body, forced language, meta charset). *)
From Coq Require Import List NArith Lia Bool ZifyBool ZifyN.
From Wbxml Require Import Model.TablesDefs Model.Tables Model.Codec Model.LangSelect Proofs.CodecProofs.
Import ListNotations.
Local Open Scope N_scope.

Inductive pubid_src := SrcNum (n : N) | SrcIdx (i : N).

(* the header as the WBXML specification lays it out: version, publicid (mb_u_int32 | 0 index), charset (not in
   version 1.0 = byte 0), string table length, string table; then the body *)
Definition ser_header (version : N) (p : pubid_src) (charset : N) (st body : list N) : list N :=
  version :: (match p with SrcNum n => mb_write n | SrcIdx i => 0 :: mb_write i end) ++
  (if version =? 0 then [] else mb_write charset) ++ mb_write (N.of_nat (List.length st)) ++ st ++ body.

Definition eff_charset (version cs meta : N) : N :=
  if version =? 0 then default_charset meta else if cs =? 0 then default_charset meta else cs.

Definition padded (st : list N) : option (list N) :=
  match st with [] => None | _ => Some (if last st 1 =? 0 then st else st ++ [0; 0; 0; 0]) end.

Lemma mb_write_head : forall v, 1 <= v < 4294967296 -> exists b r, mb_write v = b :: r /\ (b =? 0) = false.
Proof.
  intros v [H1 H2]. rewrite (mb_write_spec v H2).
  destruct (v <? 128) eqn:E1; [exists v, []; split; [reflexivity | lia]|].
  destruct (v <? 16384) eqn:E2; [eexists; eexists; split; [reflexivity | lia]|].
  destruct (v <? 2097152) eqn:E3; [eexists; eexists; split; [reflexivity | lia]|].
  destruct (v <? 268435456) eqn:E4; eexists; eexists; (split; [reflexivity | lia]).
Qed.

Lemma take_n_app : forall A (a b : list A), take_n (List.length a) (a ++ b) = a.
Proof. induction a as [|x a IH]; intros b; cbn; [destruct b; reflexivity | now rewrite IH]. Qed.

Lemma skipn_app_len : forall A (a b : list A), skipn (List.length a) (a ++ b) = b.
Proof. induction a as [|x a IH]; intros b; cbn; [reflexivity | apply IH]. Qed.

Lemma charset_known_nonzero : forall c, charset_known c = true -> (c =? 0) = false.
Proof. intros c H. destruct (c =? 0) eqn:E; [|reflexivity]. apply N.eqb_eq in E. subst. discriminate. Qed.

Lemma strtbl_part_ok : forall version pid idx cs st body, N.of_nat (List.length st) < 4294967296 ->
  parse_strtbl_part version pid idx cs (mb_write (N.of_nat (List.length st)) ++ st ++ body) =
  POk (mk_header version pid idx cs (padded st) (N.of_nat (List.length st)) body).
Proof.
  intros version pid idx cs st body Hl. unfold parse_strtbl_part. rewrite (mb_roundtrip _ _ Hl).
  destruct st as [|s0 st0].
  - reflexivity.
  - replace (N.of_nat (List.length (s0 :: st0)) =? 0) with false by (cbn [List.length]; lia).
    replace (N.of_nat (List.length ((s0 :: st0) ++ body)) <? N.of_nat (List.length (s0 :: st0))) with false
      by (rewrite app_length; lia).
    cbv zeta. rewrite Nnat.Nat2N.id, take_n_app, skipn_app_len. reflexivity.
Qed.

Lemma charset_part_ok : forall version meta charset rest, charset < 4294967296 ->
  (version =? 0 = false -> charset_known (eff_charset version charset meta) = true) ->
  parse_charset_part version meta ((if version =? 0 then [] else mb_write charset) ++ rest) =
  POk (eff_charset version charset meta, rest).
Proof.
  intros version meta charset rest Hc Hk. unfold parse_charset_part, eff_charset in *.
  destruct (version =? 0) eqn:Ev; [reflexivity|].
  rewrite (mb_roundtrip charset rest Hc). cbv zeta. specialize (Hk eq_refl).
  rewrite Hk. rewrite (charset_known_nonzero _ Hk). reflexivity.
Qed.

Lemma publicid_part_ok : forall p rest,
  match p with SrcNum n => 1 <= n < 4294967296 | SrcIdx i => i < 4294967296 end ->
  parse_publicid_part ((match p with SrcNum n => mb_write n | SrcIdx i => 0 :: mb_write i end) ++ rest) =
  POk (match p with SrcNum n => n | SrcIdx _ => WBXML_PUBLIC_ID_UNKNOWN end,
       match p with SrcNum _ => NO_INDEX | SrcIdx i => i end, rest).
Proof.
  intros [n|i] rest Hp; unfold parse_publicid_part.
  - destruct (mb_write_head n Hp) as [b [r [Hw Hb]]].
    pose proof (mb_roundtrip n rest (proj2 Hp)) as Hr. rewrite Hw in *. cbn [app] in *. rewrite Hb, Hr. reflexivity.
  - cbn [app]. replace (0 =? 0) with true by reflexivity. rewrite (mb_roundtrip i rest Hp). reflexivity.
Qed.

Theorem parse_header_of_serialised : forall main forced meta version p charset st body,
  match p with SrcNum n => 1 <= n < 4294967296 | SrcIdx i => i < 4294967296 end ->
  charset < 4294967296 -> N.of_nat (List.length st) < 4294967296 ->
  (version =? 0 = false -> charset_known (eff_charset version charset meta) = true) ->
  parse_header main forced meta (ser_header version p charset st body) =
  POk (mk_header version
         (if forced =? WBXML_LANG_UNKNOWN then match p with SrcNum n => n | SrcIdx _ => WBXML_PUBLIC_ID_UNKNOWN end
          else get_wbxml_publicid main forced)
         (match p with SrcNum _ => NO_INDEX | SrcIdx i => i end)
         (eff_charset version charset meta)
         (padded st) (N.of_nat (List.length st)) body).
Proof.
  intros main forced meta version p charset st body Hp Hc Hl Hk.
  unfold ser_header, parse_header.
  rewrite (publicid_part_ok p _ Hp).
  rewrite (charset_part_ok version meta charset _ Hc Hk).
  apply strtbl_part_ok. exact Hl.
Qed.

(* ------------------------------------------------------------------ string-table reference of a serialised id *)

Lemma last_snoc : forall (a : list N) x d, last (a ++ [x]) d = x.
Proof. intros a x d. apply last_last. Qed.

Lemma string_of_bytes_of_string : forall s, string_of_bytes (bytes_of_string s) = s.
Proof.
  unfold bytes_of_string. induction s as [|a s IH]; [reflexivity|].
  cbn [String.list_ascii_of_string map string_of_bytes fold_right]. unfold string_of_bytes in IH. rewrite IH.
  now rewrite Ascii.ascii_N_embedding.
Qed.

Definition no_nul (s : String.string) : Prop := Forall (fun b => b <> 0) (bytes_of_string s).

Lemma cstr_at_stop : forall bs rest, Forall (fun b => b <> 0) bs -> cstr_at (bs ++ 0 :: rest) = bs.
Proof.
  induction bs as [|b bs IH]; intros rest H; [reflexivity|]. inversion H as [|? ? Hb Hbs]; subst.
  cbn [app cstr_at]. apply N.eqb_neq in Hb. rewrite Hb. now rewrite IH.
Qed.

(* a string table  pre ++ s ++ NUL  and the index |pre| : the reference delivers s (US-ASCII / UTF-8 documents) *)
Lemma strtbl_ref_of_serialised : forall version pid cs pre s body,
  no_nul s -> (cs =? CHARSET_UTF_8) || (cs =? CHARSET_US_ASCII) = true ->
  let st := pre ++ bytes_of_string s ++ [0] in
  strtbl_ref (mk_header version pid (N.of_nat (List.length pre)) cs (padded st) (N.of_nat (List.length st)) body)
             (N.of_nat (List.length pre)) = Some s.
Proof.
  intros version pid cs pre s body Hs Hcs st. unfold strtbl_ref. cbn [h_strtbl h_strtbl_len h_charset].
  assert (Hpad : padded st = Some st).
  { unfold padded, st. destruct (pre ++ bytes_of_string s ++ [0]) eqn:E; [destruct pre; destruct (bytes_of_string s); discriminate|].
    rewrite <- E. rewrite app_assoc, last_snoc. reflexivity. }
  rewrite Hpad.
  replace (N.of_nat (List.length st) <=? N.of_nat (List.length pre)) with false
    by (unfold st; rewrite !app_length; cbn [List.length]; lia).
  rewrite Hcs. rewrite Nnat.Nat2N.id. unfold st. rewrite skipn_app_len.
  change (bytes_of_string s ++ [0]) with (bytes_of_string s ++ 0 :: []). rewrite (cstr_at_stop _ _ Hs).
  now rewrite string_of_bytes_of_string.
Qed.

(* ------------------------------------------------------------------ whole documents, over the regenerated main table *)
From Wbxml Require Import Model.LangSelectCheck Gen.TablesData Proofs.LangSelectProofs.

Lemma pubnums_in_range : forallb (fun l => (1 <=? l_pub_num l) && (l_pub_num l <? 4294967296)) main_table = true.
Proof. vm_compute. reflexivity. Qed.

Lemma numeric_document_recognised : forall l, In l main_table -> l_pub_num l <> WBXML_PUBLIC_ID_UNKNOWN ->
  forall version charset st body meta,
  charset < 4294967296 -> N.of_nat (List.length st) < 4294967296 ->
  (version =? 0 = false -> charset_known (eff_charset version charset meta) = true) ->
  exists l', select_lang main_table WBXML_LANG_UNKNOWN meta (ser_header version (SrcNum (l_pub_num l)) charset st body) = POk l' /\
             l_id l' = l_id l.
Proof.
  intros l Hin Hne version charset st body meta Hc Hl Hk.
  pose proof (proj1 (forallb_forall _ _) pubnums_in_range l Hin) as Hr. cbn beta in Hr.
  apply andb_true_iff in Hr. destruct Hr as [H1 H2]. apply N.leb_le in H1. apply N.ltb_lt in H2.
  pose proof (parse_header_of_serialised main_table WBXML_LANG_UNKNOWN meta version (SrcNum (l_pub_num l)) charset st body
                (conj H1 H2) Hc Hl Hk) as Hp.
  replace (WBXML_LANG_UNKNOWN =? WBXML_LANG_UNKNOWN) with true in Hp by reflexivity.
  destruct (main_numeric_id_selects l Hin Hne _ (eq_refl : h_public_id (mk_header version (l_pub_num l) NO_INDEX
              (eff_charset version charset meta) (padded st) (N.of_nat (List.length st)) body) = l_pub_num l)) as [l' [Hsel Hid]].
  exists l'. split; [|assumption]. rewrite (select_lang_unfold _ _ _ _ _ Hp). now rewrite Hsel.
Qed.

Lemma textual_document_recognised : forall l s, In l main_table -> l_pub_text l = Some s ->
  forall s', strcaseeq s s' = true -> no_nul s' ->
  forall version charset pre body meta,
  let st := pre ++ bytes_of_string s' ++ [0] in
  charset < 4294967296 -> N.of_nat (List.length st) < 4294967296 ->
  (version =? 0 = false -> charset_known (eff_charset version charset meta) = true) ->
  (eff_charset version charset meta =? CHARSET_UTF_8) || (eff_charset version charset meta =? CHARSET_US_ASCII) = true ->
  exists l', select_lang main_table WBXML_LANG_UNKNOWN meta
               (ser_header version (SrcIdx (N.of_nat (List.length pre))) charset st body) = POk l' /\ l_id l' = l_id l.
Proof.
  intros l s Hin Hs s' Hcase Hnul version charset pre body meta st Hc Hl Hk Hcs.
  assert (Hidx : N.of_nat (List.length pre) < 4294967295).
  { unfold st in Hl. rewrite !app_length in Hl. cbn [List.length] in Hl. lia. }
  assert (Hidx' : N.of_nat (List.length pre) < 4294967296) by lia.
  pose proof (parse_header_of_serialised main_table WBXML_LANG_UNKNOWN meta version (SrcIdx (N.of_nat (List.length pre))) charset st body
                Hidx' Hc Hl Hk) as Hp.
  replace (WBXML_LANG_UNKNOWN =? WBXML_LANG_UNKNOWN) with true in Hp by reflexivity.
  set (h := mk_header version WBXML_PUBLIC_ID_UNKNOWN (N.of_nat (List.length pre)) (eff_charset version charset meta)
                      (padded st) (N.of_nat (List.length st)) body) in *.
  assert (Href : strtbl_ref h (h_public_id_index h) = Some s').
  { unfold h. cbn [h_public_id_index]. unfold st. now apply strtbl_ref_of_serialised. }
  assert (Hni : h_public_id_index h <> NO_INDEX).
  { unfold h, NO_INDEX. cbn [h_public_id_index]. lia. }
  destruct (main_textual_id_selects l s Hin Hs h s' eq_refl Hni Href Hcase) as [l' [Hsel Hid]].
  exists l'. split; [|assumption]. rewrite (select_lang_unfold _ _ _ _ _ Hp). now rewrite Hsel.
Qed.

(* the textual identifiers of the tables contain no NUL octet (so they can be carried in a string table) *)
Lemma pubtexts_no_nul : forallb (fun l => match l_pub_text l with
                                          | Some s => forallb (fun b => negb (b =? 0)) (bytes_of_string s)
                                          | None => true end) main_table = true.
Proof. vm_compute. reflexivity. Qed.
