(* C01 (parser core) — growth: the total size of the events of a successful parse is bounded by a fixed
   polynomial of the input length.  Invariant: every function returns output whose size, plus M times the
   number of unread bytes it leaves, is at most M times the number of unread bytes it was given, where
   M = 2 * (K + L + 7) + 100, K = longest string of the language's tables, L = length of the (padded) string table. *)
From Coq Require Import String Ascii.
From Coq Require Import List NArith ZArith Lia Bool ZifyBool ZifyN.
From Wbxml Require Import Base.Bits Model.Codec Model.TablesDefs Model.Parser Proofs.ParserTotal.
Import ListNotations.
Local Open Scope N_scope.

(* ---- sizes ---- *)
Definition tn_size (t : tagname) : nat := match t with TagTok _ _ n => length n | TagLit n => length n end.
Definition an_size (a : attrname) : nat := match a with AttrTok _ _ n => length n | AttrLit n => length n end.
Fixpoint attrs_size (l : list (attrname * bytes)) : nat :=
  match l with [] => 0 | (a, v) :: r => an_size a + length v + attrs_size r end%nat.
Definition ev_size (e : event) : nat :=
  match e with
  | EvStartElt t attrs => tn_size t + attrs_size attrs
  | EvChars b => length b
  | EvPi t d => length t + length d
  | EvEndElt t => tn_size t
  | _ => 0
  end%nat.
Fixpoint evs_size (l : list event) : nat := match l with [] => 0 | e :: r => ev_size e + evs_size r end%nat.

Lemma evs_size_app a b : evs_size (a ++ b) = (evs_size a + evs_size b)%nat.
Proof. induction a as [|e a IH]; cbn [app evs_size]; [reflexivity|]. rewrite IH. lia. Qed.
Lemma attrs_size_app a b : attrs_size (a ++ b) = (attrs_size a + attrs_size b)%nat.
Proof. induction a as [|[n v] a IH]; cbn [app attrs_size]; [reflexivity|]. rewrite IH. lia. Qed.

(* ---- the longest table string ---- *)
Definition slen (s : string) : nat := length (B s).
Definition maxl (l : list nat) : nat := fold_right Nat.max 0%nat l.
Lemma maxl_In x l : In x l -> (x <= maxl l)%nat.
Proof. induction l as [|y l IH]; cbn [In]; [tauto|]. unfold maxl in *. cbn [fold_right]. intros [->|H]; [lia|specialize (IH H); lia]. Qed.
Lemma maxl_app a b : maxl (a ++ b) = Nat.max (maxl a) (maxl b).
Proof. induction a as [|x a IH]; [reflexivity|]. unfold maxl in *. cbn [app fold_right]. rewrite IH. lia. Qed.

Definition Ktags (l : lang) : nat := maxl (map (fun r => slen (t_name r)) (opt_list (l_tags l))).
Definition Kattrs (l : lang) : nat :=
  maxl (map (fun r => slen (a_name r) + match a_value r with Some v => slen v | None => 0 end)%nat (opt_list (l_attrs l))).
Definition Kvals (l : lang) : nat := maxl (map (fun r => slen (v_name r)) (opt_list (l_vals l))).
Definition Kexts (l : lang) : nat := maxl (map (fun r => slen (e_name r)) (opt_list (l_exts l))).
Definition Klang (l : lang) : nat := Nat.max (Nat.max (Ktags l) (Kattrs l)) (Nat.max (Kvals l) (Kexts l)).

Lemma find_tag_In t page tok row : find_tag t page tok = Some row -> In row t.
Proof. induction t as [|r t IH]; cbn [find_tag]; [discriminate|]. destruct (_ && _); [intros H; injection H as <-; left; reflexivity|right; auto]. Qed.
Lemma find_attr_In t page tok row : find_attr t page tok = Some row -> In row t.
Proof. induction t as [|r t IH]; cbn [find_attr]; [discriminate|]. destruct (_ && _); [intros H; injection H as <-; left; reflexivity|right; auto]. Qed.
Lemma find_val_In t page tok row : find_val t page tok = Some row -> In row t.
Proof. induction t as [|r t IH]; cbn [find_val]; [discriminate|]. destruct (_ && _); [intros H; injection H as <-; left; reflexivity|right; auto]. Qed.
Lemma find_ext_In t v row : find_ext t v = Some row -> In row t.
Proof. induction t as [|r t IH]; cbn [find_ext]; [discriminate|]. destruct (_ =? _); [intros H; injection H as <-; left; reflexivity|right; auto]. Qed.

(* ---- the constants ---- *)
Definition Lenv (env : penv) : nat := match e_strtbl env with Some tb => length tb | None => 0%nat end.
Definition Nn (env : penv) : nat := (Klang (e_lang env) + Lenv env + 7)%nat.
Definition Mw (env : penv) : nat := (2 * Nn env + 100)%nat.

(* potential: what r' leaves of r pays M per consumed byte *)
Lemma sfx_pot k r' r M : sfx k r' r -> (k * M + length r' * M <= length r * M)%nat.
Proof. intros (p & -> & H). rewrite app_length. rewrite Nat.mul_add_distr_r. apply Nat.add_le_mono_r. apply Nat.mul_le_mono_r. exact H. Qed.

Lemma pot_str (s t r : bytes) M : (length s + 1 + length t = length r)%nat -> (1 <= M)%nat ->
  (length s + M + length t * M <= length r * M)%nat.
Proof. intros <- H. rewrite !Nat.mul_add_distr_r. pose proof (Nat.mul_le_mono_l 1 M (length s) H). lia. Qed.

(* ---- pure size bounds ---- *)
Lemma cstr_len l : (length (cstr l) <= length l)%nat.
Proof. induction l as [|b l IH]; cbn [cstr length]; [lia|]. destruct (b =? 0); cbn [length]; lia. Qed.

Lemma utf8_loop_len f : forall i c acc, (length (utf8_loop f i c acc) <= S f + length acc)%nat.
Proof.
  induction f as [|f IH]; intros i c acc; cbn [utf8_loop]; [cbn; lia|].
  destruct (_ <=? c); [|cbn [length]; lia]. specialize (IH (i - 1)%nat (N.shiftr c 6) (u8 (N.lor 128 (N.land c 63)) :: acc)).
  cbn [length] in IH. lia.
Qed.

Lemma entity_len c s : entity_utf8 c = Ok s -> (length s <= 6)%nat.
Proof.
  unfold entity_utf8. destruct (2147483648 <=? c); [discriminate|]. destruct (c <? 128).
  - intros H. injection H as <-. destruct (c =? 0); cbn [length]; lia.
  - intros H. assert (E : s = cstr (utf8_loop 5 5 c [])) by congruence. rewrite E.
    eapply Nat.le_trans; [apply cstr_len|]. eapply Nat.le_trans; [apply utf8_loop_len|]. apply Nat.le_refl.
Qed.

Lemma dec_digits_len f : forall v acc, (length (dec_digits f v acc) <= f + length acc)%nat.
Proof.
  induction f as [|f IH]; intros v acc; cbn [dec_digits]; [lia|].
  destruct (v / 10 =? 0); [cbn [length]; lia|]. specialize (IH (v / 10) ((48 + v mod 10) :: acc)). cbn [length] in IH. lia.
Qed.
Lemma fmt_u_len v : (length (fmt_u v) <= 10)%nat.
Proof. unfold fmt_u. pose proof (dec_digits_len 10 v []). cbn [length] in *. lia. Qed.
Lemma pad_to_len n d : (length (pad_to n d) <= n + length d)%nat.
Proof. unfold pad_to. rewrite app_length, repeat_length. lia. Qed.
Lemma fmt_0u_len v : (length (fmt_02u v) <= 12)%nat /\ (length (fmt_04u v) <= 14)%nat.
Proof. unfold fmt_02u, fmt_04u. pose proof (pad_to_len 2 (fmt_u v)). pose proof (pad_to_len 4 (fmt_u v)). pose proof (fmt_u_len v). lia. Qed.

Lemma b64_body_len : forall l, (length (b64_enc_body l) <= 4 * length l)%nat.
Proof.
  fix IH 1. intros l. destruct l as [|a [|b [|c r]]]; cbn [b64_enc_body length]; try lia.
  specialize (IH r). lia.
Qed.

Lemma decode_content_len env cur d o : decode_opaque_content env cur d = POk o -> (length o <= 4 * length d + 100)%nat.
Proof.
  unfold decode_opaque_content, decode_wv_content, decode_wv_integer, decode_wv_datetime, decode_base64_value.
  assert (Hb : forall x, b64_enc d = Some x -> (length x <= 4 * length d)%nat).
  { intros x. unfold b64_enc. destruct d as [|b0 d0]; [discriminate|]. intros H.
    assert (E : x = b64_enc_body (b0 :: d0)) by congruence. rewrite E. apply b64_body_len. }
  destruct (is_wv_lang _).
  - destruct cur as [[p t]|]; [|intros H; injection H as <-; lia]. destruct (wv_data_type p t).
    + intros H; injection H as <-; lia.
    + destruct (wv_int_loop d 0); try discriminate. intros H. injection H as <-. pose proof (fmt_u_len a). lia.
    + destruct d as [|d0 [|d1 [|d2 [|d3 [|d4 [|d5 [|d6 d]]]]]]]; try discriminate.
      intros H. injection H as <-.
      repeat match goal with |- context [fmt_02u ?v] =>
               let x := fresh "x" in let Hx := fresh "Hx" in
               pose proof (proj1 (fmt_0u_len v)) as Hx; set (x := fmt_02u v) in *; clearbody x end.
      match goal with |- context [fmt_04u ?v] =>
               let x := fresh "y" in let Hx := fresh "Hy" in
               pose proof (proj2 (fmt_0u_len v)) as Hx; set (x := fmt_04u v) in *; clearbody x end.
      repeat match goal with |- context [if ?c then _ else _] => destruct c end;
        rewrite ?app_length; cbn [length]; rewrite ?app_length; cbn [length]; lia.
  - destruct (_ =? 1801).
    + destruct (cur_is cur 0 12); [|intros H; injection H as <-; lia].
      destruct (b64_enc d) eqn:E; [|discriminate]. intros H. injection H as <-. specialize (Hb _ eq_refl). lia.
    + destruct (is_syncml_lang _); [|intros H; injection H as <-; lia].
      destruct (cur_is cur 1 16); [|intros H; injection H as <-; lia].
      destruct (b64_enc d) eqn:E; [|discriminate]. intros H. injection H as <-. specialize (Hb _ eq_refl). lia.
Qed.

Lemma decode_attr_len env d o : decode_opaque_attr_value env d = POk o -> (length o <= 4 * length d)%nat.
Proof.
  unfold decode_opaque_attr_value, decode_base64_value, b64_enc. destruct (_ =? 1901); [|intros H; injection H as <-; lia].
  destruct d as [|b0 d0]; [discriminate|]. intros H. assert (E : o = b64_enc_body (b0 :: d0)) by congruence. rewrite E. apply b64_body_len.
Qed.

(* ---- potentials ---- *)
Definition pot1 {A} (M : nat) (x : pres (A * bytes)) (r : bytes) (size : A -> nat) : Prop :=
  match x with POk (a, r') => (size a + length r' * M <= length r * M)%nat | _ => True end.
Definition potS {A} (M : nat) (x : pres (A * pstate)) (st : pstate) (size : A -> nat) : Prop :=
  match x with POk (a, st') => (size a + length (s_rest st') * M <= length (s_rest st) * M)%nat | _ => True end.

Lemma Kfacts l : (Ktags l <= Klang l /\ Kattrs l <= Klang l /\ Kvals l <= Klang l /\ Kexts l <= Klang l)%nat.
Proof. unfold Klang. lia. Qed.

Lemma Mfacts env : (Mw env = 2 * Nn env + 100 /\ Nn env = Klang (e_lang env) + Lenv env + 7)%nat.
Proof. split; reflexivity. Qed.

Lemma mul4 n M : (4 <= M)%nat -> (4 * n <= n * M)%nat.
Proof. intros H. rewrite (Nat.mul_comm n M). apply Nat.mul_le_mono_r. exact H. Qed.
Lemma mul1 n M : (1 <= M)%nat -> (n <= n * M)%nat.
Proof. intros H. rewrite <- (Nat.mul_1_r n) at 1. apply Nat.mul_le_mono_l. exact H. Qed.

Ltac pot_lia env :=
  repeat match goal with H : sfx _ _ _ |- _ => apply (sfx_pot _ _ _ (Mw env)) in H end;
  destruct (Mfacts env) as [? ?]; destruct (Kfacts (e_lang env)) as (? & ? & ? & ?);
  cbn [s_rest set_rest set_cur length opt_bytes] in *; lia.

Tactic Notation "gcall" constr(t) "by" constr(l1) constr(l2) "as" simple_intropattern(x) :=
  generalize l1 l2; unfold ok1, okS, okP, nofuel, pot1, potS;
  destruct t as [x|?|]; cbn beta iota; intros ? ?; try exact I.
Tactic Notation "gcall1" constr(t) "by" constr(l1) "as" simple_intropattern(x) :=
  generalize l1; unfold ok1, okS, okP, nofuel, pot1, potS;
  destruct t as [x|?|]; cbn beta iota; intros ?; try exact I.

Section Growth.
Variable env : penv.
Let M := Mw env.

Lemma ref_len i s : get_strtbl_reference env i = POk s -> (length s <= Nn env)%nat.
Proof. intros H. pose proof (strtbl_ref_len env i s H). unfold Nn, Lenv. lia. Qed.

Lemma conv_pot cs r : pot1 M (conv_term cs r) r (fun s => length s + M)%nat.
Proof.
  unfold pot1. destruct (conv_term cs r) as [[s t]|e|] eqn:E; try exact I.
  apply conv_term_len in E. apply pot_str; [exact E|]. subst M. unfold Mw. lia.
Qed.

Lemma string_pot r : pot1 M (parse_string env r) r (@length N).
Proof.
  unfold parse_string, parse_inline, parse_termstr, parse_tableref.
  destruct r as [|b r]; cbn [is_token]; [exact I|]. cbn [tl].
  destruct (b =? 3).
  - gcall1 (conv_term (e_charset env) r) by (conv_pot (e_charset env) r) as [s t]. subst M. cbn [length]. lia.
  - destruct (b =? 131); [|exact I].
    gcall1 (parse_mb_uint32 r) by (mb_ok r) as [i r1].
    destruct (get_strtbl_reference env i) as [s|e|] eqn:E; try exact I. apply ref_len in E.
    subst M. pot_lia env.
Qed.

Lemma entity_pot r : pot1 M (parse_entity r) r (@length N).
Proof.
  unfold parse_entity. pose proof (sfx_tl r).
  gcall1 (parse_mb_uint32 (tl r)) by (mb_ok (tl r)) as [c r1].
  destruct (entity_utf8 c) as [s|e] eqn:E; [|exact I]. apply entity_len in E. subst M. pot_lia env.
Qed.

(* an opaque block pays four times its length plus 100 *)
Lemma opaque_pot r : pot1 M (parse_opaque r) r (fun d => 4 * length d + 100)%nat.
Proof.
  unfold parse_opaque. destruct r as [|t r0]; [exact I|]. cbn [tl].
  gcall1 (parse_mb_uint32 r0) by (mb_ok r0) as [len r1].
  destruct (blen r1 <? len) eqn:El; [exact I|]. cbn beta iota.
  assert (E : (length r1 = length (take len r1) + length (drop len r1))%nat).
  { unfold take, drop. rewrite <- app_length, firstn_skipn. reflexivity. }
  pose proof (mul4 (length (take len r1)) (Mw env)) as H4.
  apply (sfx_pot _ _ _ (Mw env)) in H. rewrite E in H. rewrite Nat.mul_add_distr_r in H.
  subst M. pose proof (Mfacts env). cbn [length]. lia.
Qed.

Lemma extension_pot sp st : potS M (parse_extension env sp st) st (fun o => length (opt_bytes o)).
Proof.
  unfold parse_extension.
  gcall1 (opt_switch_page sp st) by (opt_switch_page_ok0 sp st) as st1.
  gcall1 (parse_uint8 (s_rest st1)) by (uint8_ok (s_rest st1)) as [tok r1].
  destruct (is_wml_lang (l_id (e_lang env))).
  - destruct ((tok =? 192) || (tok =? 193) || (tok =? 194)); [subst M; pot_lia env|].
    assert (Hsuf : forall tk : N, (length (if ((tk =? 64) || (tk =? 128))%N then B ":escape" else if ((tk =? 65) || (tk =? 129))%N then B ":unesc" else B ":noesc") <= 7)%nat).
    { intros tk. destruct (_ || _); [vm_compute; lia|]. destruct (_ || _); vm_compute; lia. }
    destruct ((tok =? 64) || (tok =? 65) || (tok =? 66)).
    + unfold parse_termstr. gcall1 (conv_term (e_charset env) r1) by (conv_pot (e_charset env) r1) as [s t].
      cbn [opt_bytes]. rewrite !app_length. clear Hsuf. repeat match goal with |- context [if ?c then _ else _] => destruct c end;
        change (length (B "$(")) with 2%nat; change (length (B ")")) with 1%nat;
        change (length (B ":escape")) with 7%nat; change (length (B ":unesc")) with 6%nat; change (length (B ":noesc")) with 6%nat.
      all: subst M; pot_lia env.
    + destruct ((tok =? 128) || (tok =? 129) || (tok =? 130)); [|exact I].
      gcall1 (parse_mb_uint32 r1) by (mb_ok r1) as [i r2].
      destruct (get_strtbl_reference env i) as [s|e|] eqn:E; try exact I. apply ref_len in E.
      cbn [opt_bytes]. rewrite !app_length. clear Hsuf. repeat match goal with |- context [if ?c then _ else _] => destruct c end;
        change (length (B "$(")) with 2%nat; change (length (B ")")) with 1%nat;
        change (length (B ":escape")) with 7%nat; change (length (B ":unesc")) with 6%nat; change (length (B ":noesc")) with 6%nat.
      all: subst M; pot_lia env.
  - destruct (is_wv_lang (l_id (e_lang env))).
    + destruct (negb (tok =? 128)); [subst M; pot_lia env|].
      gcall1 (parse_mb_uint32 r1) by (mb_ok r1) as [v r2].
      destruct (l_exts (e_lang env)) as [t|] eqn:Et; [|exact I].
      destruct (find_ext t v) as [row|] eqn:Ef; [|subst M; pot_lia env].
      apply find_ext_In in Ef.
      assert (Hk : (length (B (e_name row)) <= Kexts (e_lang env))%nat).
      { unfold Kexts. rewrite Et. cbn [opt_list]. apply maxl_In. apply (in_map (fun r => slen (e_name r)) t row Ef). }
      subst M. pot_lia env.
    + subst M. pot_lia env.
Qed.

Lemma literal_size r mask s r' : parse_literal env r = POk (mask, s, r') -> (length s <= Nn env)%nat.
Proof.
  unfold parse_literal. destruct (parse_uint8 r) as [[tok r1]|e|]; try discriminate.
  destruct (parse_mb_uint32 r1) as [[i r2]|e|]; try discriminate.
  destruct (get_strtbl_reference env i) as [s0|e|] eqn:E; try discriminate. apply ref_len in E.
  repeat (destruct (tok =? _); [intros H; injection H as _ <- _; exact E|]). discriminate.
Qed.

Lemma Nn_ge7 : (7 <= Nn env)%nat.
Proof. unfold Nn. lia. Qed.

Lemma stag_size st tag elt r : parse_stag env st = POk (tag, elt, r) -> (tn_size elt <= Nn env)%nat.
Proof.
  unfold parse_stag, parse_tag. destruct (is_literal (s_rest st)).
  - destruct (parse_literal env (s_rest st)) as [[[m nm] r1]|e|] eqn:E; try discriminate.
    intros H. injection H as _ <- _. apply literal_size in E. cbn [tn_size]. pose proof (cstr_len nm). lia.
  - destruct (parse_uint8 (s_rest st)) as [[tg r1]|e|]; try discriminate.
    destruct (l_tags (e_lang env)) as [t|] eqn:Et; [|discriminate].
    destruct (find_tag t (s_tagcp st) (N.land tg 63)) as [row|] eqn:Ef.
    + intros H. injection H as _ <- _. cbn [tn_size]. apply find_tag_In in Ef.
      assert (Hk : (length (B (t_name row)) <= Ktags (e_lang env))%nat).
      { unfold Ktags. rewrite Et. cbn [opt_list]. apply maxl_In. apply (in_map (fun r => slen (t_name r)) t row Ef). }
      pose proof (Kfacts (e_lang env)). unfold Nn. lia.
    + intros H. injection H as _ <- _. cbn [tn_size]. change (length UNKNOWN_NAME) with 7%nat. apply Nn_ge7.
Qed.

Lemma attr_start_size st name start st1 : parse_attr_start env st = POk (name, start, st1) ->
  (an_size name + length (opt_bytes start) <= Nn env)%nat.
Proof.
  unfold parse_attr_start. destruct (is_token (s_rest st) 4).
  - destruct (parse_literal env (s_rest st)) as [[[m nm] r1]|e|] eqn:E; try discriminate.
    intros H. injection H as <- <- _. apply literal_size in E. cbn [an_size opt_bytes length]. pose proof (cstr_len nm). lia.
  - destruct (opt_switch_page AttrSpace st) as [st0|e|]; try discriminate.
    destruct (parse_uint8 (s_rest st0)) as [[tg r1]|e|]; try discriminate.
    destruct (l_attrs (e_lang env)) as [t|] eqn:Et; [|discriminate].
    destruct (find_attr t (s_attrcp st0) tg) as [row|] eqn:Ef.
    + intros H. injection H as <- <- _. cbn [an_size]. apply find_attr_In in Ef.
      assert (Hk : (slen (a_name row) + match a_value row with Some v => slen v | None => 0 end <= Kattrs (e_lang env))%nat).
      { unfold Kattrs. rewrite Et. cbn [opt_list]. apply maxl_In.
        apply (in_map (fun r => slen (a_name r) + match a_value r with Some v => slen v | None => 0 end)%nat t row Ef). }
      pose proof (Kfacts (e_lang env)). unfold slen in Hk. unfold Nn. destruct (a_value row); cbn [opt_bytes length]; lia.
    + intros H. injection H as <- <- _. cbn [an_size opt_bytes length]. change (length UNKNOWN_NAME) with 7%nat. pose proof Nn_ge7. lia.
Qed.

Lemma attr_value_pot st : potS M (parse_attr_value env st) st (fun o => length (opt_bytes o)).
Proof.
  unfold parse_attr_value. cbn zeta.
  destruct (is_extension (s_rest st)); [apply extension_pot|].
  destruct (is_token (s_rest st) 2).
  { unfold lift_str. gcall1 (parse_entity (s_rest st)) by (entity_pot (s_rest st)) as [s r1]. cbn [opt_bytes s_rest set_rest]. exact H. }
  destruct (is_string (s_rest st)).
  { unfold lift_str. gcall1 (parse_string env (s_rest st)) by (string_pot (s_rest st)) as [s r1]. cbn [opt_bytes s_rest set_rest]. exact H. }
  destruct (is_token (s_rest st) 195).
  - gcall1 (parse_opaque (s_rest st)) by (opaque_pot (s_rest st)) as [d r1].
    destruct (decode_opaque_attr_value env d) as [d'|e|] eqn:E; try exact I. apply decode_attr_len in E.
    cbn [opt_bytes s_rest set_rest]. lia.
  - gcall1 (opt_switch_page AttrSpace st) by (opt_switch_page_ok0 AttrSpace st) as st1.
    gcall1 (parse_uint8 (s_rest st1)) by (uint8_ok (s_rest st1)) as [tg r1].
    destruct (l_vals (e_lang env)) as [t|] eqn:Et; [|exact I].
    destruct (find_val t (s_attrcp st1) tg) as [row|] eqn:Ef; [|exact I].
    apply find_val_In in Ef.
    assert (Hk : (length (B (v_name row)) <= Kvals (e_lang env))%nat).
    { unfold Kvals. rewrite Et. cbn [opt_list]. apply maxl_In. apply (in_map (fun r => slen (v_name r)) t row Ef). }
    subst M. pot_lia env.
Qed.

End Growth.

Section Growth2.
Variable env : penv.
Let M := Mw env.

Lemma attr_values_loop_pot fuel : forall st acc,
  match attr_values_loop fuel env st acc with
  | POk (acc', st') => (length acc' + length (s_rest st') * M <= length acc + length (s_rest st) * M)%nat
  | _ => True
  end.
Proof.
  induction fuel as [|f IH]; intros st acc; cbn [attr_values_loop]; [exact I|].
  destruct (is_attr_value (s_rest st)); [|lia].
  gcall1 (parse_attr_value env st) by (attr_value_pot env st) as [v st1].
  specialize (IH st1 (app_opt acc v)). destruct (attr_values_loop f env st1 (app_opt acc v)) as [[acc' st']|e|]; try exact I.
  subst M. destruct v as [v|]; cbn [app_opt opt_bytes length] in *; rewrite ?app_length in IH; lia.
Qed.

Lemma pi_values_loop_pot fuel : forall st acc,
  match pi_values_loop fuel env st acc with
  | POk (acc', st') => (length acc' + length (s_rest st') * M <= length acc + length (s_rest st) * M)%nat
  | _ => True
  end.
Proof.
  induction fuel as [|f IH]; intros st acc; cbn [pi_values_loop]; [exact I|].
  destruct (is_token (s_rest st) 1); [lia|].
  gcall1 (parse_attr_value env st) by (attr_value_pot env st) as [v st1].
  specialize (IH st1 (app_opt acc v)). destruct (pi_values_loop f env st1 (app_opt acc v)) as [[acc' st']|e|]; try exact I.
  subst M. destruct v as [v|]; cbn [app_opt opt_bytes length] in *; rewrite ?app_length in IH; lia.
Qed.

Lemma insert_at_len p s l : (length (insert_at p s l) <= length s + length l)%nat.
Proof. unfold insert_at. rewrite !app_length, firstn_length, skipn_length. lia. Qed.

Lemma decode_datetime_len v o : decode_datetime v = POk o -> (length o <= 30)%nat.
Proof.
  unfold decode_datetime. set (h := bin_to_hex true v).
  destruct (_ || _) eqn:E; [discriminate|]. intros H. injection H as <-.
  assert (Hl : (length h <= 14)%nat) by lia.
  clearbody h.
  repeat first
    [ match goal with |- context [insert_at ?p ?s ?l] => is_var l;
        let x := fresh "x" in let Hx := fresh "Hx" in
        pose proof (insert_at_len p s l) as Hx; set (x := insert_at p s l) in *; clearbody x end
    | match goal with |- context [if ?c then _ else _] => destruct c end ];
    rewrite ?app_length; cbn [length] in *;
    repeat match goal with |- context [length (B ?s)] => let n := eval vm_compute in (length (B s)) in change (length (B s)) with n end;
    lia.
Qed.

Lemma attr_typed_len name v v' : attr_typed env name v = POk v' -> (length v' <= length v + 30)%nat.
Proof.
  unfold attr_typed. destruct v as [|b v0]; [intros H; injection H as <-; lia|].
  destruct name as [p t n|n]; [|intros H; injection H as <-; lia].
  destruct (_ && _); [intros H; apply decode_datetime_len in H; lia|].
  destruct (_ && _); [intros H; apply decode_datetime_len in H; lia|]. intros H. injection H as <-. lia.
Qed.

Lemma attribute_pot fuel st : potS M (parse_attribute fuel env st) st (fun nv => an_size (fst nv) + length (snd nv))%nat.
Proof.
  unfold parse_attribute.
  destruct (parse_attr_start env st) as [[[name start] st1]|e|] eqn:Es; try exact I.
  pose proof (attr_start_ok env st) as Hs. unfold okS in Hs. rewrite Es in Hs. apply attr_start_size in Es.
  pose proof (attr_values_loop_pot fuel st1 (opt_bytes start)) as Hl.
  destruct (attr_values_loop fuel env st1 (opt_bytes start)) as [[value st2]|e|]; try exact I.
  destruct (attr_typed env name value) as [value'|e|] eqn:Et; try exact I. apply attr_typed_len in Et.
  unfold potS. cbn [fst snd]. subst M. pot_lia env.
Qed.

Lemma attrs_loop_pot fuel : forall st acc,
  match attrs_loop fuel env st acc with
  | POk (acc', st') => (attrs_size acc' + length (s_rest st') * M <= attrs_size acc + length (s_rest st) * M)%nat
  | _ => True
  end.
Proof.
  induction fuel as [|f IH]; intros st acc; cbn [attrs_loop]; [exact I|].
  gcall1 (parse_attribute f env st) by (attribute_pot f st) as [[name value] st1]. cbn [fst snd] in *.
  destruct (is_token (s_rest st1) 1).
  - rewrite attrs_size_app. cbn [attrs_size s_rest set_rest]. pose proof (sfx_tl (s_rest st1)) as Ht.
    apply (sfx_pot _ _ _ M) in Ht. lia.
  - specialize (IH st1 (acc ++ [(name, value)])). destruct (attrs_loop f env st1 _) as [[acc' st']|e|]; try exact I.
    rewrite attrs_size_app in IH. cbn [attrs_size] in IH. lia.
Qed.

Lemma pi_pot fuel st : potS M (parse_pi fuel env st) st evs_size.
Proof.
  unfold parse_pi. destruct (s_rest st) as [|b0 r0] eqn:Er.
  - cbn [tl]. pose proof (attr_start_ok env (set_rest st [])) as Hs. unfold okS in Hs.
    destruct (parse_attr_start env (set_rest st [])) as [[[name start] st1]|e|]; try exact I.
    cbn [s_rest set_rest] in Hs. apply sfx_len in Hs. cbn [length] in Hs. lia.
  - cbn [tl].
    destruct (parse_attr_start env (set_rest st r0)) as [[[name start] st1]|e|] eqn:Es; try exact I.
    pose proof (attr_start_ok env (set_rest st r0)) as Hs. unfold okS in Hs. rewrite Es in Hs. apply attr_start_size in Es.
    pose proof (pi_values_loop_pot fuel st1 (opt_bytes start)) as Hl.
    destruct (pi_values_loop fuel env st1 (opt_bytes start)) as [[value st2]|e|]; try exact I.
    unfold potS. cbn [evs_size ev_size s_rest set_rest]. rewrite Er.
    pose proof (cstr_len value). pose proof (sfx_tl (s_rest st2)) as Ht.
    assert (Hn : (length (attr_xml_name name) = an_size name)%nat) by (destruct name; reflexivity).
    subst M. pot_lia env.
Qed.

Lemma chars_event_size o : (evs_size (chars_event o) <= length (opt_bytes o))%nat.
Proof. destruct o as [[|b r]|]; cbn; lia. Qed.

Lemma content_pot fuel n pelt st : potS M (pelt st) st evs_size -> potS M (parse_content fuel env n pelt st) st evs_size.
Proof.
  intros Hp. unfold parse_content. cbn zeta. destruct (s_rest st) as [|b0 r0] eqn:Er; [exact I|]. rewrite <- Er in *.
  destruct (is_extension (s_rest st)).
  { gcall1 (parse_extension env TagSpace st) by (extension_pot env TagSpace st) as [v st1]. pose proof (chars_event_size v). lia. }
  destruct (is_token (s_rest st) 2).
  { gcall1 (parse_entity (s_rest st)) by (entity_pot env (s_rest st)) as [s r1]. pose proof (chars_event_size (Some s)). cbn [opt_bytes s_rest set_rest] in *. lia. }
  destruct (is_string (s_rest st)).
  { gcall1 (parse_string env (s_rest st)) by (string_pot env (s_rest st)) as [s r1]. pose proof (chars_event_size (Some s)). cbn [opt_bytes s_rest set_rest] in *. lia. }
  destruct (is_token (s_rest st) 195).
  { gcall1 (parse_opaque (s_rest st)) by (opaque_pot env (s_rest st)) as [d r1].
    destruct (decode_opaque_content env (s_cur st) d) as [d'|e|] eqn:E; try exact I. apply decode_content_len in E.
    pose proof (chars_event_size (Some d')). cbn [opt_bytes s_rest set_rest] in *. lia. }
  destruct (is_token (s_rest st) 67); [apply pi_pot|].
  destruct (is_token (s_rest st) 0).
  { pose proof (switch_page_ok TagSpace st) as Hs. unfold okP in Hs.
    destruct (parse_switch_page TagSpace st) as [st1|e|]; try exact I. unfold potS. cbn [evs_size].
    apply (sfx_pot _ _ _ M) in Hs. lia. }
  destruct (MAX_NESTING_DEPTH <=? n); [exact I|exact Hp].
Qed.

Lemma element_with_pot fuel cloop st : (forall st', potS M (cloop st') st' evs_size) ->
  potS M (parse_element_with fuel env cloop st) st evs_size.
Proof.
  intros Hc. unfold parse_element_with.
  gcall1 (opt_switch_page TagSpace st) by (opt_switch_page_ok0 TagSpace st) as st0.
  destruct (parse_stag env st0) as [[[tag elt] r]|e|] eqn:Es; try exact I.
  pose proof (stag_ok1 env st0) as Hs. unfold ok1 in Hs. rewrite Es in Hs. apply stag_size in Es.
  cbn zeta.
  set (st1 := match elt with TagTok p t _ => set_cur (set_rest st0 r) (Some (p, t)) | TagLit _ => set_rest st0 r end).
  assert (E1 : s_rest st1 = r) by (subst st1; destruct elt; reflexivity). clearbody st1.
  assert (Ha : match (if N.land tag 128 =? 128 then attrs_loop fuel env st1 [] else POk ([], st1)) with
               | POk (al, st2) => (attrs_size al + length (s_rest st2) * M <= length (s_rest st1) * M)%nat
               | _ => True end).
  { destruct (N.land tag 128 =? 128); [|cbn; lia]. pose proof (attrs_loop_pot fuel st1 []) as Hl.
    destruct (attrs_loop fuel env st1 []) as [[al st2]|e|]; try exact I. cbn [attrs_size] in Hl. lia. }
  destruct (if N.land tag 128 =? 128 then attrs_loop fuel env st1 [] else POk ([], st1)) as [[attrs st2]|e|]; try exact I.
  rewrite E1 in Ha.
  destruct (N.land tag 64 =? 64).
  - gcall1 (cloop st2) by (Hc st2) as [evs st3]. cbn [evs_size ev_size s_rest set_cur]. rewrite evs_size_app. cbn [evs_size ev_size].
    subst M. pot_lia env.
  - unfold potS. cbn [evs_size ev_size s_rest set_cur]. subst M. pot_lia env.
Qed.

Lemma content_loop_pot fuel : forall n st, potS M (content_loop fuel env n st) st evs_size.
Proof.
  induction fuel as [|f IH]; intros n st; cbn [content_loop]; [exact I|].
  destruct (is_token (s_rest st) 1).
  - unfold potS. cbn [evs_size s_rest set_rest]. pose proof (sfx_tl (s_rest st)) as Ht. apply (sfx_pot _ _ _ M) in Ht. lia.
  - assert (Hp : potS M (parse_element_with f env (content_loop f env (n + 1)) st) st evs_size).
    { apply element_with_pot. intros st'. apply IH. }
    gcall1 (parse_content f env n (parse_element_with f env (content_loop f env (n + 1))) st) by (content_pot f n _ st Hp) as [evs st1].
    gcall1 (content_loop f env n st1) by (IH n st1) as [evs' st2]. rewrite evs_size_app. lia.
Qed.

Lemma body_pi_loop_pot fuel : forall st, potS M (body_pi_loop fuel env st) st evs_size.
Proof.
  induction fuel as [|f IH]; intros st; cbn [body_pi_loop]; [exact I|].
  destruct (is_token (s_rest st) 67); [|unfold potS; cbn [evs_size]; lia].
  gcall1 (parse_pi f env st) by (pi_pot f st) as [evs st1].
  gcall1 (body_pi_loop f env st1) by (IH st1) as [evs' st2]. rewrite evs_size_app. lia.
Qed.

Lemma body_pot fuel st : potS M (parse_body fuel env st) st evs_size.
Proof.
  unfold parse_body.
  gcall1 (body_pi_loop fuel env st) by (body_pi_loop_pot fuel st) as [e1 st1].
  assert (He : potS M (parse_element fuel env st1) st1 evs_size).
  { unfold parse_element. apply element_with_pot. intros st'. apply content_loop_pot. }
  gcall1 (parse_element fuel env st1) by He as [e2 st2].
  gcall1 (body_pi_loop fuel env st2) by (body_pi_loop_pot fuel st2) as [e3 st3]. rewrite !evs_size_app. lia.
Qed.

End Growth2.

(* ---- the whole document ---- *)
Definition Kmax (tbl : list lang) : nat := maxl (map Klang tbl).

Lemma find_lang_id_In tbl id : forall k l k', find_lang_id tbl id k = (Some l, k') -> In l tbl.
Proof. induction tbl as [|x t IH]; intros k l k'; cbn [find_lang_id]; [discriminate|]. destruct (_ =? id); [intros H; injection H as <- _; left; reflexivity|intros H; right; eapply IH; exact H]. Qed.
Lemma find_lang_pub_In tbl p : forall k l k', find_lang_pub tbl p k = (Some l, k') -> In l tbl.
Proof. induction tbl as [|x t IH]; intros k l k'; cbn [find_lang_pub]; [discriminate|]. destruct (_ =? p); [intros H; injection H as <- _; left; reflexivity|intros H; right; eapply IH; exact H]. Qed.
Lemma find_lang_text_In tbl s l : find_lang_text tbl s = Some l -> In l tbl.
Proof. induction tbl as [|x t IH]; cbn [find_lang_text]; [discriminate|]. destruct (l_pub_text x); [destruct (strcaseeq _ s); [intros H; injection H as <-; left; reflexivity|]|]; intros H; right; exact (IH H). Qed.
Lemma In_skipn {A} n (x : A) l : In x (skipn n l) -> In x l.
Proof. revert l. induction n as [|n IH]; intros l; [exact (fun H => H)|]. destruct l as [|y l]; [exact (fun H => H)|]. intros H. right. exact (IH l H). Qed.

Lemma check_public_id_In tbl forced pubid pubidx st len cs l :
  check_public_id tbl forced pubid pubidx st len cs = Some l -> In l tbl.
Proof.
  unfold check_public_id. destruct (_ && _); [discriminate|].
  destruct (if forced =? 0 then (None, 0%nat) else find_lang_id tbl forced 0) as [r1 i1] eqn:E1.
  destruct r1 as [l1|].
  - intros H. injection H as <-. destruct (forced =? 0); [discriminate|]. eapply find_lang_id_In; exact E1.
  - destruct (if pubid =? PUBLIC_ID_UNKNOWN then (None, i1) else find_lang_pub (skipn i1 tbl) pubid i1) as [r2 i2] eqn:E2.
    destruct r2 as [l2|].
    + intros H. injection H as <-. destruct (pubid =? PUBLIC_ID_UNKNOWN); [discriminate|].
      apply (In_skipn i1). eapply find_lang_pub_In; exact E2.
    + destruct (pubidx =? NO_INDEX); [discriminate|].
      destruct (get_strtbl_reference _ pubidx) as [s|e|]; try discriminate.
      intros H. apply (In_skipn i2). eapply find_lang_text_In; exact H.
Qed.

Lemma strtbl_size r strtbl len r3 : parse_strtbl r = POk (strtbl, len, r3) ->
  (match strtbl with Some tb => length tb | None => 0 end <= length r + 4)%nat /\ sfx 1 r3 r.
Proof.
  intros H. pose proof (strtbl_ok r) as Hs. unfold ok1 in Hs. rewrite H in Hs. split; [|exact Hs].
  revert H. unfold parse_strtbl. pose proof (mb_ok r) as Hm. unfold ok1 in Hm.
  destruct (parse_mb_uint32 r) as [[n r1]|e|]; try discriminate.
  destruct (0 <? n); [|intros H; injection H as <- _ _; lia].
  destruct (blen r1 <? n); [discriminate|]. intros H. injection H as <- _ _.
  apply sfx_len in Hm. assert (length (take n r1) <= length r1)%nat by (unfold take; rewrite firstn_length; lia).
  destruct (last (take n r1) 0 =? 0); rewrite ?app_length; cbn [length]; lia.
Qed.

(* (d) growth: the total size of the events of a successful parse is at most
       |bs| * (2 |bs| + 2 K + 122), K = the longest string (attribute name + value prefix counted together) of any table *)
Theorem parse_growth tbl forced meta fuel bs evs :
  parse_with tbl forced meta fuel bs = POk evs ->
  (evs_size evs <= length bs * (2 * length bs + 2 * Kmax tbl + 122))%nat.
Proof.
  unfold parse_with. destruct bs as [|b0 bs0] eqn:Ebs; [discriminate|]. rewrite <- Ebs.
  generalize (uint8_ok bs). unfold ok1. destruct (parse_uint8 bs) as [[version r0]|e|]; try discriminate. intros H0.
  generalize (publicid_ok r0). unfold ok1. destruct (parse_publicid r0) as [[[pubid pubidx] r1]|e|]; try discriminate. intros H1.
  set (cs := if version =? 0 then POk (0, r1) else parse_charset meta r1).
  assert (Hcs : ok1 0 cs r1).
  { subst cs. destruct (version =? 0); [cbn; apply sfx_refl|].
    pose proof (charset_ok meta r1) as Hc. unfold ok1 in *. destruct (parse_charset meta r1) as [[c r]|e|]; try tauto.
    apply (sfx_weaken 1 0); [lia|exact Hc]. }
  clearbody cs. unfold ok1 in Hcs. destruct cs as [[charset r2]|e|]; try discriminate.
  destruct (parse_strtbl r2) as [[[strtbl strtbl_len] r3]|e|] eqn:Est; try discriminate.
  destruct (strtbl_size r2 strtbl strtbl_len r3 Est) as [Hsz H3].
  destruct (check_public_id _ _ _ _ _ _ _) as [l|] eqn:Ecp; [|discriminate].
  apply check_public_id_In in Ecp.
  match goal with |- context [parse_body fuel ?env ?st] => pose proof (body_pot env fuel st) as Hb; set (env0 := env) in *; set (st0 := st) in * end.
  unfold potS in Hb. destruct (parse_body fuel env0 st0) as [[body st']|e|]; try discriminate.
  intros H. injection H as <-. cbn [evs_size ev_size]. rewrite evs_size_app. cbn [evs_size ev_size].
  assert (HK : (Klang l <= Kmax tbl)%nat) by (unfold Kmax; apply maxl_In; apply in_map; exact Ecp).
  assert (HM : (Mw env0 <= 2 * length bs + 2 * Kmax tbl + 122)%nat).
  { unfold Mw, Nn, Lenv. subst env0. cbn [e_lang e_strtbl].
    apply sfx_len in H0. apply sfx_len in H1. apply sfx_len in Hcs. lia. }
  assert (Hr3 : (length (s_rest st0) <= length bs)%nat).
  { subst st0. cbn [s_rest]. apply sfx_len in H0. apply sfx_len in H1. apply sfx_len in Hcs. apply sfx_len in H3. lia. }
  assert (Hmul : (length (s_rest st0) * Mw env0 <= length bs * (2 * length bs + 2 * Kmax tbl + 122))%nat)
    by (apply Nat.mul_le_mono; assumption).
  lia.
Qed.
