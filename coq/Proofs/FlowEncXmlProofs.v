(* C17 — the per-node XML encoding of Model/EncXml.v: in_cdata is balanced over a whole node, so the flow context
   (indent, in_content, current tag) is all that passes from one top-level node to the next; instantiation of the
   flow theorems. *)
From Coq Require Import List NArith Bool Lia.
From Wbxml Require Import Model.Codec Model.EncXml Model.Flow Model.FlowEncXml Proofs.FlowProofs.
Import ListNotations.
Local Open Scope N_scope.

Lemma xnode_ind' (P : node -> Prop) :
  (forall nm attrs ch, Forall P ch -> P (Elt nm attrs ch)) -> (forall c, P (Text c)) ->
  (forall ch, Forall P ch -> P (CData ch)) -> P Pi -> (forall sl roots, Forall P roots -> P (SubTree sl roots)) ->
  forall n, P n.
Proof.
  intros HE HT HC HP HR. fix IH 1. intros [nm attrs ch | c | ch | | sl roots].
  - apply HE. induction ch; constructor; [apply IH | assumption].
  - apply HT.
  - apply HC. induction ch; constructor; [apply IH | assumption].
  - apply HP.
  - apply HR. induction roots; constructor; [apply IH | assumption].
Qed.

Lemma seq_nodes_cons f n r s :
  seq_nodes f (n :: r) s =
  match f s n with
  | XOk (b1, s1) => match seq_nodes f r (reset_cur s1) with XOk (b2, s2) => XOk (b1 ++ b2, s2) | XErr e => XErr e end
  | XErr e => XErr e
  end.
Proof. reflexivity. Qed.

Section Balance.
  Variables (o : opts).

  Definition keeps_outside (n : node) : Prop :=
    forall l parent s b s', enc_node l o parent s n = XOk (b, s') -> e_in_cdata s = false -> e_in_cdata s' = false.

  Lemma seq_keeps_outside ns : Forall keeps_outside ns ->
    forall l parent s b s', seq_nodes (enc_node l o parent) ns s = XOk (b, s') -> e_in_cdata s = false -> e_in_cdata s' = false.
  Proof.
    induction 1 as [|x r Hx _ IH]; intros l parent s b s'.
    - intros [= _ <-]. auto.
    - rewrite seq_nodes_cons. destruct (enc_node l o parent s x) as [[b1 s1]|] eqn:E1; [|discriminate].
      destruct (seq_nodes (enc_node l o parent) r (reset_cur s1)) as [[b2 s2]|] eqn:E2; [|discriminate].
      intros [= _ <-] H0. eapply IH; [exact E2|]. cbn. eapply Hx; eauto.
  Qed.

  Lemma elt_unfold l parent s nm attrs ch :
    enc_node l o parent s (Elt nm attrs ch) =
    (let '(b1, s1) := xml_encode_tag l o parent nm s in
     let b2 := parse_attributes l o attrs in
     let '(b3, s3) := xml_encode_end_attrs o ch s1 in
     match ch with
     | [] => XOk (b1 ++ b2 ++ b3, s3)
     | _ =>
       match seq_nodes (enc_node l o (pinfo_below parent nm)) ch s3 with
       | XOk (b4, s4) => let '(b5, s5) := xml_encode_end_tag o nm ch s4 in XOk (b1 ++ b2 ++ b3 ++ b4 ++ b5, s5)
       | XErr e => XErr e
       end
     end).
  Proof. destruct ch; reflexivity. Qed.

  Lemma end_attrs_cdata ch s : e_in_cdata (snd (xml_encode_end_attrs o ch s)) = e_in_cdata s.
  Proof. unfold xml_encode_end_attrs. destruct ch; [reflexivity|]. destruct (is_indent o && have_child_elt _); reflexivity. Qed.

  Lemma end_tag_cdata nm ch s : e_in_cdata (snd (xml_encode_end_tag o nm ch s)) = e_in_cdata s.
  Proof. unfold xml_encode_end_tag. destruct (is_indent o && have_child_elt ch); reflexivity. Qed.

  (* BALANCE: a node that is encoded successfully and entered outside a CDATA section ends outside *)
  Theorem enc_node_keeps_outside : forall n, keeps_outside n.
  Proof.
    induction n as [nm attrs ch IH | c | ch IH | | sl roots IH] using xnode_ind'; intros l parent s b s'.
    - rewrite elt_unfold. unfold xml_encode_tag.
      match goal with |- context [xml_encode_end_attrs o ch ?s1] =>
        pose proof (end_attrs_cdata ch s1) as A; destruct (xml_encode_end_attrs o ch s1) as [b3 s3] end.
      cbn [snd e_in_cdata] in A. destruct ch as [|c0 ch'].
      + intros [= _ <-] H0. congruence.
      + destruct (seq_nodes _ (c0 :: ch') s3) as [[b4 s4]|] eqn:E4; [|discriminate].
        pose proof (end_tag_cdata nm (c0 :: ch') s4) as B. destruct (xml_encode_end_tag o nm (c0 :: ch') s4) as [b5 s5].
        cbn [snd] in B. intros [= _ <-] H0. rewrite B. eapply (seq_keeps_outside _ IH); [exact E4 | congruence].
    - cbn [enc_node]. unfold parse_text. destruct (text_policy o parent s c); [|intros [= _ <-]; auto].
      unfold xml_encode_text. intros H H0. rewrite H0 in H.
      repeat match type of H with context [match ?x with _ => _ end] => destruct x end;
        try discriminate; injection H as _ <-; solve [exact H0 | reflexivity].
    - cbn [enc_node]. destruct (seq_nodes _ ch (set_cdata true s)) as [[b1 s1]|]; [|discriminate]. intros [= _ <-] _. reflexivity.
    - discriminate.
    - cbn [enc_node]. destruct sl as [l'|]; [|discriminate].
      destruct (seq_nodes _ roots (est0 (e_indent s))) as [[b1 s1]|]; [|discriminate]. intros [= _ <-] H0. exact H0.
  Qed.
End Balance.

Lemma xctx_of_xs_of c : xctx_of (xs_of c) = c.
Proof. destruct c; reflexivity. Qed.

Lemma xs_of_xctx_of s : e_in_cdata s = false -> xs_of (xctx_of s) = s.
Proof. destruct s as [a b c d]. cbn. intros ->. reflexivity. Qed.

Section Inst.
  Variables (l : xlang) (o : opts).

  Lemma x_enc_node_ok c n b s' : enc_node l o proot (xs_of c) n = XOk (b, s') ->
    x_enc_node l o c n = (b, xctx_of (reset_cur s')) /\ xs_of (xctx_of (reset_cur s')) = reset_cur s'.
  Proof.
    intros H. unfold x_enc_node. rewrite H. split; [reflexivity|]. apply xs_of_xctx_of. cbn.
    eapply enc_node_keeps_outside; [exact H | reflexivity].
  Qed.

  Lemma batch_xnodes : forall ns c b s', enc_nodes l o proot ns (xs_of c) = XOk (b, s') ->
    batch_from xctx node (x_enc_node l o) (x_enc_start l o) (x_enc_end o) c (map (@FNode node) ns) = (b, xctx_of s').
  Proof.
    unfold enc_nodes. induction ns as [|x r IH]; intros c b s'.
    - intros [= <- <-]. rewrite xctx_of_xs_of. reflexivity.
    - rewrite seq_nodes_cons. destruct (enc_node l o proot (xs_of c) x) as [[b1 s1]|] eqn:E1; [|discriminate].
      destruct (x_enc_node_ok _ _ _ _ E1) as [W1 S1].
      destruct (seq_nodes (enc_node l o proot) r (reset_cur s1)) as [[b2 s2]|] eqn:E2; [|discriminate]. intros [= <- <-].
      rewrite <- S1 in E2. cbn [map batch_from enc_frag]. rewrite W1, (IH _ _ _ E2). reflexivity.
  Qed.

  (* C17 for the real XML encoder *)
  Theorem flow_equals_batch_encxml ops ns b s' :
    x_live ops = map (@FNode node) ns ->
    enc_nodes l o proot ns (est0 0) = XOk (b, s') ->
    x_get_output (x_run_fixed l o ops) = (if seen node (srun node ops) then xml_header l o else []) ++ b.
  Proof.
    intros Hl Hp. unfold x_get_output, x_run_fixed. rewrite fixed_output. unfold spec_output. unfold x_live in Hl. rewrite Hl.
    change (est0 0) with (xs_of xctx0) in Hp. rewrite (batch_xnodes _ _ _ _ Hp). reflexivity.
  Qed.

  Lemma seen_of_xnode : forall ops (s : sstate node),
    ((exists n, In (@FNode node n) (frags node s)) -> seen node s = true) ->
    (exists n, In (@FNode node n) (frags node (fold_left (sstep node) ops s))) -> seen node (fold_left (sstep node) ops s) = true.
  Proof.
    induction ops as [|op ops IH]; intros s Hs; [exact Hs|]. cbn [fold_left]. apply IH.
    destruct op as [n | n c | n c | | ]; cbn [sstep frags seen]; try reflexivity; try exact Hs.
    - intros [m Hm]. apply in_app_or in Hm. cbn [In] in Hm. destruct Hm as [Hm | [Hm | []]]; [eauto | discriminate].
    - intros [m Hm]. apply in_app_or in Hm. cbn [In] in Hm. destruct Hm as [Hm | [Hm | []]]; [eauto | discriminate].
    - intros [m Hm]. apply Hs. exists m. revert Hm. generalize (mark node s) (frags node s).
      induction n as [|k IHk]; intros [|y t]; cbn [firstn In]; try tauto. intros [H | H]; [left; exact H | right; apply IHk, H].
  Qed.

  (* ... = the document wbxml_tree_to_xml produces for the remaining nodes *)
  Theorem flow_equals_enc_xml ops ns doc :
    x_live ops = map (@FNode node) ns -> ns <> [] ->
    enc_xml_opts l o ns = XOk doc ->
    x_get_output (x_run_fixed l o ops) = doc.
  Proof.
    intros Hl Hne. unfold enc_xml_opts. destruct (enc_nodes l o proot ns (est0 0)) as [[b s']|] eqn:E; [|discriminate].
    intros [= <-]. rewrite (flow_equals_batch_encxml ops ns b s' Hl E).
    assert (Hs : seen node (srun node ops) = true).
    { apply seen_of_xnode; [intros [n []]|]. unfold x_live, live, srun in Hl. rewrite Hl.
      destruct ns as [|n r]; [contradiction|]. exists n. left. reflexivity. }
    rewrite Hs. reflexivity.
  Qed.
End Inst.
