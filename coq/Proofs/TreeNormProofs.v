(* C03 — lemmas about Model/TreeNorm.v and the encoder's text policy *)
From Coq Require Import List NArith Lia Bool.
From Wbxml Require Import Model.Codec Model.EncWbxml Model.TreeNorm Proofs.EncWbxmlProofs.
Import ListNotations.
Local Open Scope N_scope.

(* ---- wbxml_buffer_strip_blanks is idempotent, and keeps a non-blank text non-blank ---------------- *)
Lemma drop_ws_idem b : drop_ws (drop_ws b) = drop_ws b.
Proof.
  induction b as [|c r IH]; cbn [drop_ws]; [reflexivity|].
  destruct (isspace c) eqn:E; [exact IH|]. cbn [drop_ws]. now rewrite E.
Qed.

Lemma drop_ws_snoc l x : isspace x = false -> drop_ws (l ++ [x]) = drop_ws l ++ [x].
Proof.
  intros Hx. induction l as [|c r IH]; cbn [drop_ws app].
  - now rewrite Hx.
  - destruct (isspace c); [exact IH|reflexivity].
Qed.

Lemma drop_ws_head b : drop_ws b = [] \/ exists x r, drop_ws b = x :: r /\ isspace x = false.
Proof.
  induction b as [|c r IH]; cbn [drop_ws]; [now left|].
  destruct (isspace c) eqn:E; [exact IH|]. right. now exists c, r.
Qed.

Lemma strip_blanks_eq b : strip_blanks b = rev (drop_ws (rev (drop_ws b))).
Proof. unfold strip_blanks, frev. now rewrite <- !rev_alt. Qed.

Lemma strip_blanks_fixed b : drop_ws (strip_blanks b) = strip_blanks b /\ drop_ws (rev (strip_blanks b)) = rev (strip_blanks b).
Proof.
  rewrite strip_blanks_eq. split.
  - destruct (drop_ws_head b) as [H|(x & r & H & Hx)]; rewrite H; [reflexivity|].
    cbn [rev]. rewrite (drop_ws_snoc (rev r) x Hx), rev_app_distr. cbn [rev app drop_ws]. now rewrite Hx.
  - rewrite rev_involutive. apply drop_ws_idem.
Qed.

Lemma strip_blanks_idem b : strip_blanks (strip_blanks b) = strip_blanks b.
Proof.
  destruct (strip_blanks_fixed b) as [H1 H2].
  rewrite (strip_blanks_eq (strip_blanks b)). rewrite H1, H2. apply rev_involutive.
Qed.

Lemma only_ws_drop b : only_ws b = false -> exists x r, drop_ws b = x :: r /\ isspace x = false.
Proof.
  unfold only_ws. induction b as [|c r IH]; cbn [forallb drop_ws]; [discriminate|].
  destruct (isspace c) eqn:E; cbn [andb]; [exact IH|]. intros _. now exists c, r.
Qed.

Lemma strip_blanks_not_blank b : only_ws b = false -> only_ws (strip_blanks b) = false.
Proof.
  intros H. destruct (only_ws_drop b H) as (x & r & Hd & Hx).
  rewrite strip_blanks_eq. rewrite Hd. cbn [rev]. rewrite (drop_ws_snoc (rev r) x Hx), rev_app_distr. cbn [rev app].
  unfold only_ws. cbn [forallb]. now rewrite Hx.
Qed.

(* ---- norm ---------------------------------------------------------------------------------------- *)
Lemma norm_text_idem keep cd c : flat_map (norm_node keep cd) (norm_text keep cd c) = norm_text keep cd c.
Proof.
  unfold norm_text. destruct (keep || cd) eqn:K.
  - cbn [flat_map norm_node]. unfold norm_text. rewrite K. reflexivity.
  - destruct (only_ws c) eqn:W; [reflexivity|].
    cbn [flat_map norm_node]. unfold norm_text. rewrite K, (strip_blanks_not_blank c W), strip_blanks_idem. reflexivity.
Qed.

Lemma flat_map_idem {A} (f : A -> list A) l :
  Forall (fun x => flat_map f (f x) = f x) l -> flat_map f (flat_map f l) = flat_map f l.
Proof.
  induction 1 as [|x r Hx _ IH]; cbn [flat_map]; [reflexivity|]. now rewrite flat_map_app, Hx, IH.
Qed.

Lemma norm_node_idem keep n : forall cd, flat_map (norm_node keep cd) (norm_node keep cd n) = norm_node keep cd n.
Proof.
  induction n as [tag attrs ch IH|c|ch IH| |lid roots IH] using node_ind'; intros cd; cbn [norm_node].
  - cbn [flat_map norm_node]. rewrite app_nil_r. f_equal. f_equal. apply flat_map_idem.
    apply Forall_forall. intros x Hx. rewrite Forall_forall in IH. apply (IH x Hx).
  - apply norm_text_idem.
  - cbn [flat_map norm_node]. rewrite app_nil_r. f_equal. f_equal. apply flat_map_idem.
    apply Forall_forall. intros x Hx. rewrite Forall_forall in IH. apply (IH x Hx).
  - reflexivity.
  - cbn [flat_map norm_node]. rewrite app_nil_r. f_equal. f_equal. apply flat_map_idem.
    apply Forall_forall. intros x Hx. rewrite Forall_forall in IH. apply (IH x Hx).
Qed.

Theorem norm_idempotent keep ns : norm keep (norm keep ns) = norm keep ns.
Proof. unfold norm. apply flat_map_idem. apply Forall_forall. intros n _. apply norm_node_idem. Qed.

Lemma norm_node_keep n : forall cd, norm_node true cd n = [n].
Proof.
  assert (FM : forall (f : node -> list node) l, Forall (fun x => f x = [x]) l -> flat_map f l = l).
  { intros f l. induction 1 as [|x r Hx _ IH]; cbn [flat_map]; [reflexivity|]. now rewrite Hx, IH. }
  induction n as [tag attrs ch IH|c|ch IH| |lid roots IH] using node_ind'; intros cd; cbn [norm_node]; try reflexivity.
  - f_equal. f_equal. apply FM. apply Forall_forall. intros x Hx. rewrite Forall_forall in IH. apply (IH x Hx).
  - f_equal. f_equal. apply FM. apply Forall_forall. intros x Hx. rewrite Forall_forall in IH. apply (IH x Hx).
  - f_equal. f_equal. apply FM. apply Forall_forall. intros x Hx. rewrite Forall_forall in IH. apply (IH x Hx).
Qed.

Theorem norm_keep_identity ns : norm true ns = ns.
Proof.
  unfold norm. induction ns as [|n r IH]; cbn [flat_map]; [reflexivity|]. now rewrite norm_node_keep, IH.
Qed.

(* ---- the encoder's text policy sees only the normalised text ---------------------------------------- *)
(* outside CDATA and binary-flagged tags, with trimming on: a blank-only text writes nothing, any other text is encoded
   exactly as its trimmed form would be *)
Theorem enc_text_blank e st p c :
  is_binary_tag st p = false -> in_cdata st = false -> e_ignore_empty e = true -> only_ws c = true ->
  enc_text e st p c = EOk ([], st).
Proof. intros Hb Hc Hi Hw. unfold enc_text. now rewrite Hb, Hc, Hi, Hw. Qed.

Theorem enc_text_normalised e st p c :
  is_binary_tag st p = false -> in_cdata st = false -> e_remove_blanks e = true -> only_ws c = false ->
  enc_text e st p c = enc_text e st p (strip_blanks c).
Proof.
  intros Hb Hc Hr Hw. unfold enc_text. rewrite Hb, Hc, Hr, Hw, (strip_blanks_not_blank c Hw).
  cbn [negb andb]. rewrite !andb_false_r. cbn [andb]. now rewrite strip_blanks_idem.
Qed.

(* with keep-ws the encoder does not touch the text at all *)
Theorem enc_text_keep e st p c :
  is_binary_tag st p = false -> in_cdata st = false -> e_ignore_empty e = false -> e_remove_blanks e = false ->
  enc_text e st p c = enc_value e st false None [] p (cstr c).
Proof. intros Hb Hc Hi Hr. unfold enc_text. rewrite Hb, Hc, Hi, Hr. reflexivity. Qed.
