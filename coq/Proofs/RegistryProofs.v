(* C09 — the pinned registry is preserved by the current tables: vm_compute on the boolean
   checkers of Model/RegistryCheck.v, lifted to quantified statements with forallb_forall. *)
From Coq Require Import List NArith String Bool.
From Wbxml Require Import Model.TablesDefs Model.Tables Model.RegistryCheck Model.Registry Gen.TablesData.
Import ListNotations.
Local Open Scope N_scope.

Lemma ostr_eqb_eq : forall a b, ostr_eqb a b = true -> a = b.
Proof.
  intros [x|] [y|] H; cbn in H; try discriminate; try reflexivity.
  apply String.eqb_eq in H. now subst.
Qed.

Lemma on_eqb_eq : forall a b, on_eqb a b = true -> a = b.
Proof.
  intros [x|] [y|] H; cbn in H; try discriminate; try reflexivity.
  apply N.eqb_eq in H. now subst.
Qed.

(* ---------------------------------------------------------------- Prop forms *)

(* "decodes identically": the token of the published row decodes now (first match, as the parser
   scans) to the name/options it decoded to in the registry; "does not disappear": the row is still there *)
Definition tag_kept_P (cur reg : lang) (r : tag_row) : Prop :=
  (exists r' r0, tag_of_token cur (t_page r) (t_tok r) = Found r' /\ tag_of_token reg (t_page r) (t_tok r) = Found r0 /\
                 t_name r' = t_name r0 /\ t_opts r' = t_opts r0) /\
  (exists r1, In r1 (opt_list (l_tags cur)) /\ t_name r1 = t_name r /\ t_page r1 = t_page r /\ t_tok r1 = t_tok r /\ t_opts r1 = t_opts r).
Definition attr_kept_P (cur reg : lang) (r : attr_row) : Prop :=
  (exists r' r0, attr_of_token cur (a_page r) (a_tok r) = Found r' /\ attr_of_token reg (a_page r) (a_tok r) = Found r0 /\
                 a_name r' = a_name r0 /\ a_value r' = a_value r0) /\
  (exists r1, In r1 (opt_list (l_attrs cur)) /\ a_name r1 = a_name r /\ a_value r1 = a_value r /\ a_page r1 = a_page r /\ a_tok r1 = a_tok r).
Definition val_kept_P (cur reg : lang) (r : val_row) : Prop :=
  (exists r' r0, val_of_token cur (v_page r) (v_tok r) = Found r' /\ val_of_token reg (v_page r) (v_tok r) = Found r0 /\
                 v_name r' = v_name r0) /\
  (exists r1, In r1 (opt_list (l_vals cur)) /\ v_name r1 = v_name r /\ v_page r1 = v_page r /\ v_tok r1 = v_tok r).
Definition ext_kept_P (cur reg : lang) (r : ext_row) : Prop :=
  (exists r' r0, ext_of_token cur (e_tok r) = Found r' /\ ext_of_token reg (e_tok r) = Found r0 /\ e_name r' = e_name r0) /\
  (exists r1, In r1 (opt_list (l_exts cur)) /\ e_name r1 = e_name r /\ e_tok r1 = e_tok r).
Definition ns_kept_P (cur : lang) (r : ns_row) : Prop :=
  xmlns_of_page cur (ns_page r) = Some (ns_name r) /\ page_of_xmlns_opt cur (ns_name r) = Some (ns_page r).

Definition lang_kept_P (main : list lang) (r : lang) : Prop :=
  exists cur, get_table main (l_id r) = Some cur /\
    l_pub_num cur = l_pub_num r /\ l_pub_text cur = l_pub_text r /\ l_root cur = l_root r /\ l_dtd cur = l_dtd r /\
    (forall row, In row (opt_list (l_tags r)) -> tag_kept_P cur r row) /\
    (forall row, In row (opt_list (l_attrs r)) -> attr_kept_P cur r row) /\
    (forall row, In row (opt_list (l_vals r)) -> val_kept_P cur r row) /\
    (forall row, In row (opt_list (l_exts r)) -> ext_kept_P cur r row) /\
    (forall row, In row (opt_list (l_ns r)) -> ns_kept_P cur row).

Lemma tag_row_kept_sound : forall cur reg r, tag_row_kept cur reg r = true -> tag_kept_P cur reg r.
Proof.
  unfold tag_row_kept, tag_kept_P. intros cur reg r H.
  apply andb_true_iff in H. destruct H as [H He].
  destruct (tag_of_token cur (t_page r) (t_tok r)) as [| |r'] eqn:E; try discriminate.
  destruct (tag_of_token reg (t_page r) (t_tok r)) as [| |r0] eqn:E0; try discriminate.
  apply andb_true_iff in H. destruct H as [H1 H2].
  split.
  - exists r', r0. split; [reflexivity|]. split; [reflexivity|]. split; [now apply String.eqb_eq | now apply N.eqb_eq].
  - apply existsb_exists in He. destruct He as [r1 [Hin Heq]]. unfold tag_row_eqb in Heq.
    repeat (apply andb_true_iff in Heq; destruct Heq as [Heq ?]).
    apply String.eqb_eq in Heq. repeat match goal with X : (_ =? _) = true |- _ => apply N.eqb_eq in X end.
    exists r1. repeat split; congruence.
Qed.

Lemma attr_row_kept_sound : forall cur reg r, attr_row_kept cur reg r = true -> attr_kept_P cur reg r.
Proof.
  unfold attr_row_kept, attr_kept_P. intros cur reg r H.
  apply andb_true_iff in H. destruct H as [H He].
  destruct (attr_of_token cur (a_page r) (a_tok r)) as [| |r'] eqn:E; try discriminate.
  destruct (attr_of_token reg (a_page r) (a_tok r)) as [| |r0] eqn:E0; try discriminate.
  apply andb_true_iff in H. destruct H as [H1 H2].
  split.
  - exists r', r0. split; [reflexivity|]. split; [reflexivity|]. split; [now apply String.eqb_eq | now apply ostr_eqb_eq].
  - apply existsb_exists in He. destruct He as [r1 [Hin Heq]]. unfold attr_row_eqb in Heq.
    repeat (apply andb_true_iff in Heq; destruct Heq as [Heq ?]).
    apply String.eqb_eq in Heq. repeat match goal with X : (_ =? _) = true |- _ => apply N.eqb_eq in X end.
    match goal with X : ostr_eqb _ _ = true |- _ => apply ostr_eqb_eq in X end.
    exists r1. repeat split; congruence.
Qed.

Lemma val_row_kept_sound : forall cur reg r, val_row_kept cur reg r = true -> val_kept_P cur reg r.
Proof.
  unfold val_row_kept, val_kept_P. intros cur reg r H.
  apply andb_true_iff in H. destruct H as [H He].
  destruct (val_of_token cur (v_page r) (v_tok r)) as [| |r'] eqn:E; try discriminate.
  destruct (val_of_token reg (v_page r) (v_tok r)) as [| |r0] eqn:E0; try discriminate.
  split.
  - exists r', r0. split; [reflexivity|]. split; [reflexivity|]. now apply String.eqb_eq.
  - apply existsb_exists in He. destruct He as [r1 [Hin Heq]]. unfold val_row_eqb in Heq.
    repeat (apply andb_true_iff in Heq; destruct Heq as [Heq ?]).
    apply String.eqb_eq in Heq. repeat match goal with X : (_ =? _) = true |- _ => apply N.eqb_eq in X end.
    exists r1. repeat split; congruence.
Qed.

Lemma ext_row_kept_sound : forall cur reg r, ext_row_kept cur reg r = true -> ext_kept_P cur reg r.
Proof.
  unfold ext_row_kept, ext_kept_P. intros cur reg r H.
  apply andb_true_iff in H. destruct H as [H He].
  destruct (ext_of_token cur (e_tok r)) as [| |r'] eqn:E; try discriminate.
  destruct (ext_of_token reg (e_tok r)) as [| |r0] eqn:E0; try discriminate.
  split.
  - exists r', r0. split; [reflexivity|]. split; [reflexivity|]. now apply String.eqb_eq.
  - apply existsb_exists in He. destruct He as [r1 [Hin Heq]]. unfold ext_row_eqb in Heq.
    repeat (apply andb_true_iff in Heq; destruct Heq as [Heq ?]).
    apply String.eqb_eq in Heq. repeat match goal with X : (_ =? _) = true |- _ => apply N.eqb_eq in X end.
    exists r1. repeat split; congruence.
Qed.

Lemma ns_row_kept_sound : forall cur r, ns_row_kept cur r = true -> ns_kept_P cur r.
Proof.
  unfold ns_row_kept, ns_kept_P. intros cur r H.
  apply andb_true_iff in H. destruct H as [H1 H2].
  split; [now apply ostr_eqb_eq | now apply on_eqb_eq].
Qed.

Lemma lang_kept_sound : forall main r, lang_kept main r = true -> lang_kept_P main r.
Proof.
  unfold lang_kept, lang_kept_P. intros main r H.
  destruct (get_table main (l_id r)) as [cur|]; try discriminate.
  exists cur. split; [reflexivity|].
  apply andb_true_iff in H. destruct H as [Hh Hr].
  unfold header_kept in Hh. repeat (apply andb_true_iff in Hh; destruct Hh as [Hh ?]).
  unfold rows_kept in Hr. repeat (apply andb_true_iff in Hr; destruct Hr as [Hr ?]).
  split; [now apply N.eqb_eq|]. split; [now apply ostr_eqb_eq|].
  split; [now apply ostr_eqb_eq|]. split; [now apply ostr_eqb_eq|].
  split; [|split; [|split; [|split]]].
  - intros row Hin. apply tag_row_kept_sound. eapply (proj1 (forallb_forall _ _)); eassumption.
  - intros row Hin. apply attr_row_kept_sound. eapply (proj1 (forallb_forall _ _)); eassumption.
  - intros row Hin. apply val_row_kept_sound. eapply (proj1 (forallb_forall _ _)); eassumption.
  - intros row Hin. apply ext_row_kept_sound. eapply (proj1 (forallb_forall _ _)); eassumption.
  - intros row Hin. apply ns_row_kept_sound. eapply (proj1 (forallb_forall _ _)); eassumption.
Qed.

(* ---------------------------------------------------------------- the computations *)

Lemma registry_kept_true : forallb (lang_kept main_table) registry_table = true.
Proof. vm_compute. reflexivity. Qed.

Lemma registry_preserved : forall r, In r registry_table -> lang_kept_P main_table r.
Proof.
  intros r Hin. apply lang_kept_sound.
  exact (proj1 (forallb_forall _ _) registry_kept_true r Hin).
Qed.

(* identifiers *)
Definition ids_kept_P (main reg : list lang) (r : lang) : Prop :=
  (l_pub_num r <> 1 -> oid (first_by_pubnum main (l_pub_num r)) = oid (first_by_pubnum reg (l_pub_num r))) /\
  (forall s, l_pub_text r = Some s -> oid (first_by_pubtext main s) = oid (first_by_pubtext reg s)) /\
  (forall s, l_dtd r = Some s -> oid (first_by_dtd main s) = oid (first_by_dtd reg s)) /\
  (forall s, l_root r = Some s -> oid (first_by_root main s) = oid (first_by_root reg s)).

Lemma ids_kept_sound : forall main reg r, ids_kept main reg r = true -> ids_kept_P main reg r.
Proof.
  unfold ids_kept, ids_kept_P. intros main reg r H.
  repeat (apply andb_true_iff in H; destruct H as [H ?]).
  split; [|split; [|split]].
  - intros Hn. apply orb_true_iff in H. destruct H as [H|H].
    + apply N.eqb_eq in H. contradiction.
    + now apply on_eqb_eq.
  - intros s Hs. rewrite Hs in *. now apply on_eqb_eq.
  - intros s Hs. rewrite Hs in *. now apply on_eqb_eq.
  - intros s Hs. rewrite Hs in *. now apply on_eqb_eq.
Qed.

Lemma registry_ids_kept_true : forallb (ids_kept main_table registry_table) registry_table = true.
Proof. vm_compute. reflexivity. Qed.

Lemma registry_ids_preserved : forall r, In r registry_table -> ids_kept_P main_table registry_table r.
Proof.
  intros r Hin. apply ids_kept_sound.
  exact (proj1 (forallb_forall _ _) registry_ids_kept_true r Hin).
Qed.

(* encoding direction *)
Definition tag_written_P (cur r : lang) (row : tag_row) : Prop :=
  exists w r' r0, tag_from_xml cur (Some (t_page row)) (t_name row) = Some w /\
               tag_of_token r (t_page w) (t_tok w) = Found r' /\
               tag_of_token r (t_page row) (t_tok row) = Found r0 /\ t_name r' = t_name r0.
Definition attr_written_P (cur r : lang) (row : attr_row) : Prop :=
  exists w r' r0, attr_from_xml cur (a_name row) (a_value row) = (Some w, None) /\
               attr_of_token r (a_page w) (a_tok w) = Found r' /\
               attr_of_token r (a_page row) (a_tok row) = Found r0 /\ a_name r' = a_name r0 /\ a_value r' = a_value r0.
Definition ext_written_P (cur r : lang) (row : ext_row) : Prop :=
  exists w r' r0, ext_from_xml cur (e_name row) = Some w /\
               ext_of_token r (e_tok w) = Found r' /\ ext_of_token r (e_tok row) = Found r0 /\ e_name r' = e_name r0.

Definition lang_written_P (main : list lang) (r : lang) : Prop :=
  exists cur, get_table main (l_id r) = Some cur /\
    (forall row, In row (opt_list (l_tags r)) -> tag_written_P cur r row) /\
    (forall row, In row (opt_list (l_attrs r)) -> attr_written_P cur r row) /\
    (forall row, In row (opt_list (l_exts r)) -> ext_written_P cur r row).

Lemma tag_row_written_sound : forall cur r row, tag_row_written cur r row = true -> tag_written_P cur r row.
Proof.
  unfold tag_row_written, tag_written_P. intros cur r row H.
  destruct (tag_from_xml cur (Some (t_page row)) (t_name row)) as [w|]; try discriminate.
  destruct (tag_of_token r (t_page w) (t_tok w)) as [| |r'] eqn:E; try discriminate.
  destruct (tag_of_token r (t_page row) (t_tok row)) as [| |r0] eqn:E0; try discriminate.
  exists w, r', r0. repeat split; try assumption. now apply String.eqb_eq.
Qed.

Lemma attr_row_written_sound : forall cur r row, attr_row_written cur r row = true -> attr_written_P cur r row.
Proof.
  unfold attr_row_written, attr_written_P. intros cur r row H.
  destruct (attr_from_xml cur (a_name row) (a_value row)) as [[w|] [lft|]]; try discriminate.
  destruct (attr_of_token r (a_page w) (a_tok w)) as [| |r'] eqn:E; try discriminate.
  destruct (attr_of_token r (a_page row) (a_tok row)) as [| |r0] eqn:E0; try discriminate.
  apply andb_true_iff in H. destruct H as [H1 H2].
  exists w, r', r0. repeat split; try assumption; [now apply String.eqb_eq | now apply ostr_eqb_eq].
Qed.

Lemma ext_row_written_sound : forall cur r row, ext_row_written cur r row = true -> ext_written_P cur r row.
Proof.
  unfold ext_row_written, ext_written_P. intros cur r row H.
  destruct (ext_from_xml cur (e_name row)) as [w|]; try discriminate.
  destruct (ext_of_token r (e_tok w)) as [| |r'] eqn:E; try discriminate.
  destruct (ext_of_token r (e_tok row)) as [| |r0] eqn:E0; try discriminate.
  exists w, r', r0. repeat split; try assumption. now apply String.eqb_eq.
Qed.

Lemma lang_written_sound : forall main r, lang_written main r = true -> lang_written_P main r.
Proof.
  unfold lang_written, lang_written_P. intros main r H.
  destruct (get_table main (l_id r)) as [cur|]; try discriminate.
  exists cur. split; [reflexivity|].
  repeat (apply andb_true_iff in H; destruct H as [H ?]).
  split; [|split].
  - intros row Hin. apply tag_row_written_sound. eapply (proj1 (forallb_forall _ _)); eassumption.
  - intros row Hin. apply attr_row_written_sound. eapply (proj1 (forallb_forall _ _)); eassumption.
  - intros row Hin. apply ext_row_written_sound. eapply (proj1 (forallb_forall _ _)); eassumption.
Qed.

Lemma registry_written_true : forallb (lang_written main_table) registry_table = true.
Proof. vm_compute. reflexivity. Qed.

Lemma registry_written_readable : forall r, In r registry_table -> lang_written_P main_table r.
Proof.
  intros r Hin. apply lang_written_sound.
  exact (proj1 (forallb_forall _ _) registry_written_true r Hin).
Qed.
