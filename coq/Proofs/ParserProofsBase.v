(* C04 — basic lemmas relating Model/Spec.v to the primitives of Model/Parser.v:
   inline strings, multi-byte integers, opaque blocks, string-table references. *)
From Coq Require Import String Ascii.
From Coq Require Import List NArith ZArith Lia Bool ZifyBool ZifyN.
From Wbxml Require Import Base.Bits Model.Codec Model.TablesDefs Model.Parser Model.Spec Proofs.CodecProofs.
Import ListNotations.
Local Open Scope N_scope.

Arguments N.mul : simpl never.
Arguments N.add : simpl never.
Arguments N.div : simpl never.
Arguments N.modulo : simpl never.
Arguments N.shiftr : simpl never.
Arguments N.shiftl : simpl never.
Arguments N.land : simpl never.
Arguments N.lor : simpl never.
Arguments N.sub : simpl never.
Arguments N.of_nat : simpl never.
Arguments N.to_nat : simpl never.

(* ------------------------------------------------------------------ *)
(* booleans over byte lists                                             *)

Lemma bytes_okb_Forall l : bytes_okb l = true -> Forall (fun b => b < 256) l.
Proof.
  unfold bytes_okb. rewrite forallb_forall. intros H. apply Forall_forall. intros x Hx.
  specialize (H x Hx). unfold is_byte in H. lia.
Qed.

Lemma str_okb_split s : str_okb s = true -> bytes_okb s = true /\ nul_free s = true.
Proof. unfold str_okb. intros H. apply andb_prop in H. exact H. Qed.

(* ------------------------------------------------------------------ *)
(* inline strings                                                       *)

Lemma split_nul_app s r : nul_free s = true -> split_nul (s ++ 0 :: r) = Some (s, r).
Proof.
  induction s as [|b s IH]; intros H; cbn [app split_nul].
  - reflexivity.
  - cbn [nul_free forallb] in H. apply andb_prop in H. destruct H as [Hb Hs].
    destruct (b =? 0) eqn:E; [discriminate|].
    unfold nul_free in IH. rewrite (IH Hs). reflexivity.
Qed.

Lemma split_nul_until l x : exists t, split_nul (l ++ 0 :: x) = Some (until_nul l, t).
Proof.
  induction l as [|b l [t IH]]; cbn [app split_nul until_nul].
  - eexists. reflexivity.
  - destruct (b =? 0).
    + eexists. reflexivity.
    + rewrite IH. eexists. reflexivity.
Qed.

Definition cs_ok (cs : N) : Prop := cs = 3 \/ cs = 106.

Lemma conv_term_ok cs s r : cs_ok cs -> nul_free s = true -> conv_term cs (s ++ 0 :: r) = POk (s, r).
Proof.
  intros [-> | ->] H; unfold conv_term; cbn; rewrite (split_nul_app s r H); reflexivity.
Qed.

Lemma conv_term_until cs l x : cs_ok cs -> exists t, conv_term cs (l ++ 0 :: x) = POk (until_nul l, t).
Proof.
  intros Hc. destruct (split_nul_until l x) as [t Ht]. exists t.
  destruct Hc as [-> | ->]; unfold conv_term; cbn; rewrite Ht; reflexivity.
Qed.

(* ------------------------------------------------------------------ *)
(* integers, blocks                                                     *)

Lemma parse_mb_ok v r : v < 4294967296 -> parse_mb_uint32 (mb_write v ++ r) = POk (v, r).
Proof. intros H. unfold parse_mb_uint32. rewrite (mb_roundtrip v r H). reflexivity. Qed.

Lemma u32_okb_lt v : u32_okb v = true -> v < 4294967296.
Proof. unfold u32_okb. lia. Qed.

Lemma take_app (d r : bytes) : take (blen d) (d ++ r) = d.
Proof.
  unfold take, blen. rewrite Nnat.Nat2N.id.
  rewrite firstn_app, Nat.sub_diag, firstn_all. cbn. apply app_nil_r.
Qed.

Lemma drop_app (d r : bytes) : drop (blen d) (d ++ r) = r.
Proof.
  unfold drop, blen. rewrite Nnat.Nat2N.id.
  rewrite skipn_app, Nat.sub_diag, skipn_all. reflexivity.
Qed.

Lemma blen_app_le (d r : bytes) : (blen (d ++ r) <? blen d) = false.
Proof. unfold blen. rewrite app_length. lia. Qed.

(* ------------------------------------------------------------------ *)
(* string table                                                         *)

Definition padded (tb : bytes) : bytes := if last tb 0 =? 0 then tb else tb ++ [0; 0; 0; 0].

(* the parser environment that the header of a document with table tb produces *)
Definition penv_of (l : lang) (tb : bytes) (ver cs : N) : penv :=
  mk_penv (match tb with [] => None | _ => Some (padded tb) end) (blen tb) l ver cs.

Lemma skipn_snoc {A} n (l : list A) z : (n <= length l)%nat -> skipn n (l ++ [z]) = skipn n l ++ [z].
Proof.
  intros H. rewrite skipn_app. replace (n - length l)%nat with 0%nat by lia. reflexivity.
Qed.

Lemma drop_terminated tb i : tb <> [] -> last tb 0 = 0 -> i < blen tb ->
  exists l, drop i tb = l ++ [0].
Proof.
  intros Hne Hl Hi.
  destruct (exists_last Hne) as [a [z Hz]]. subst tb.
  rewrite last_last in Hl. subst z.
  unfold drop. unfold blen in Hi. rewrite app_length in Hi. cbn in Hi.
  exists (skipn (N.to_nat i) a). apply skipn_snoc. lia.
Qed.

Lemma until_nul_snoc0 l : until_nul (l ++ [0]) = until_nul l.
Proof.
  induction l as [|b l IH]; cbn [app until_nul].
  - reflexivity.
  - destruct (b =? 0); [reflexivity|]. rewrite IH. reflexivity.
Qed.

Lemma strtbl_ref_ok l tb ver cs i s : cs_ok cs -> str_at tb i = Some s ->
  get_strtbl_reference (penv_of l tb ver cs) i = POk s.
Proof.
  intros Hc H. unfold str_at in H. destruct (i <? blen tb) eqn:Hi; [|discriminate].
  injection H as <-.
  unfold get_strtbl_reference, penv_of. cbn [e_strtbl e_strtbl_len e_charset].
  destruct tb as [|b0 tb0] eqn:Etb.
  - unfold blen in Hi. cbn in Hi. lia.
  - rewrite <- Etb in *. replace (blen tb <=? i) with false by lia.
    unfold padded. destruct (last tb 0 =? 0) eqn:El.
    + destruct (drop_terminated tb i) as [l0 Hl0]; [subst; discriminate|lia|lia|].
      rewrite Hl0. destruct (conv_term_until cs l0 [] Hc) as [t Ht].
      rewrite Ht. rewrite until_nul_snoc0. reflexivity.
    + unfold drop. rewrite skipn_app.
      replace (N.to_nat i - length tb)%nat with 0%nat by (unfold blen in Hi; lia).
      cbn [skipn]. destruct (conv_term_until cs (skipn (N.to_nat i) tb) [0;0;0] Hc) as [t Ht].
      rewrite Ht. reflexivity.
Qed.
