(* C12 — proofs about Model/Typed.v *)
From Coq Require Import List NArith ZArith Lia Bool ZifyBool ZifyN PeanoNat.
From Wbxml Require Import Base.Bits Model.Codec Model.Typed Proofs.CodecProofs.
Import ListNotations.
Local Open Scope N_scope.
Ltac Zify.zify_post_hook ::= Z.div_mod_to_equations.

Arguments N.mul : simpl never.
Arguments N.add : simpl never.
Arguments N.div : simpl never.
Arguments N.modulo : simpl never.
Arguments N.shiftr : simpl never.
Arguments N.shiftl : simpl never.
Arguments N.land : simpl never.
Arguments N.lor : simpl never.
Arguments N.pow : simpl never.
Arguments N.sub : simpl never.
Arguments N.min : simpl never.
Arguments N.ltb : simpl never.
Arguments N.leb : simpl never.
Arguments N.eqb : simpl never.

Definition bytes_ok (bs : list N) : Prop := Forall (fun b => b < 256) bs.

(* ------------------------------------------------------------------ *)
(* decimal strings: sprintf "%u" and the digit loop of atol/strtoul are inverse   *)


Lemma dec_digit_ok d : d < 10 -> dec_digit (48 + d) = Some d.
Proof.
  intros H. unfold dec_digit, is_digit.
  replace (48 <=? 48 + d) with true by lia. replace (48 + d <=? 57) with true by lia.
  cbn [andb]. f_equal. lia.
Qed.

Definition all_digits (l : list N) : Prop := Forall (fun c => 48 <= c <= 57) l.

Lemma digits_val_app acc l d r : all_digits l -> d < 10 ->
  digits_val 10 dec_digit acc (l ++ (48 + d) :: r) =
  digits_val 10 dec_digit (digits_val 10 dec_digit acc l * 10 + d) r.
Proof.
  intros Hl Hd. revert acc. induction Hl as [|c l Hc _ IH]; intros acc.
  - cbn [app digits_val]. rewrite dec_digit_ok by exact Hd. reflexivity.
  - cbn [app digits_val]. replace c with (48 + (c - 48)) by lia.
    rewrite dec_digit_ok by lia. apply IH.
Qed.

Lemma dec_fuel_digits fuel n : all_digits (dec_fuel fuel n).
Proof.
  revert n. induction fuel as [|f IH]; intros n; cbn [dec_fuel]; [constructor|].
  destruct (n <? 10) eqn:H.
  - constructor; [lia|constructor].
  - apply Forall_app. split; [apply IH|]. constructor; [lia|constructor].
Qed.

(* the digits of n, read back, are n — for every n the fuel covers *)
Lemma parse_dec_fuel fuel n : n < 10 ^ N.of_nat fuel -> parse_dec (dec_fuel fuel n) = n.
Proof.
  unfold parse_dec. revert n. induction fuel as [|f IH]; intros n Hn.
  - change (10 ^ N.of_nat 0) with 1 in Hn. cbn [dec_fuel digits_val]. lia.
  - cbn [dec_fuel]. destruct (n <? 10) eqn:H.
    + cbn [digits_val]. rewrite dec_digit_ok by lia. lia.
    + assert (Hq : n / 10 < 10 ^ N.of_nat f).
      { rewrite Nat2N.inj_succ, N.pow_succ_r' in Hn. lia. }
      specialize (IH _ Hq).
      rewrite <- (app_nil_r (dec_fuel f (n / 10) ++ [48 + n mod 10])), <- app_assoc.
      cbn [app]. rewrite digits_val_app by (try apply dec_fuel_digits; lia).
      rewrite IH. cbn [digits_val]. lia.
Qed.

Lemma parse_dec_sprintf_u n : n < 18446744073709551616 -> parse_dec (sprintf_u n) = n.
Proof.
  intros H. unfold sprintf_u. apply parse_dec_fuel.
  change (10 ^ N.of_nat 20) with 100000000000000000000. lia.
Qed.

Lemma dec_fuel_nonempty f n : dec_fuel (S f) n <> [].
Proof.
  cbn [dec_fuel]. destruct (n <? 10); [discriminate|].
  intro H. apply app_eq_nil in H. destruct H as [_ H]. discriminate.
Qed.

(* the first character of a decimal string is a digit: atol skips nothing and sees no sign *)
Lemma dec_head fuel n : exists c r, dec_fuel (S fuel) n = c :: r /\ 48 <= c <= 57.
Proof.
  pose proof (dec_fuel_digits (S fuel) n) as Hd. pose proof (dec_fuel_nonempty fuel n) as Hne.
  destruct (dec_fuel (S fuel) n) as [|c r]; [contradiction|].
  exists c, r. split; [reflexivity|]. inversion Hd; assumption.
Qed.

Lemma atol_digits l : l <> [] -> all_digits l ->
  atol_u32 l = long_to_u32 false (parse_dec l).
Proof.
  intros Hne Hd. destruct l as [|c r]; [contradiction|].
  inversion Hd as [|? ? Hc Hr]; subst.
  unfold atol_u32. cbn [skip_space]. unfold is_cspace.
  replace (c =? 32) with false by lia. replace (9 <=? c) with true by lia.
  replace (c <=? 13) with false by lia. cbn [andb orb].
  unfold split_sign.
  destruct c as [|p]; [lia|].
  do 7 (destruct p as [p|p|]; try lia; try reflexivity).
Qed.

Lemma second_char_not_x l : all_digits l -> (nth 1 l 0 =? 120) || (nth 1 l 0 =? 88) = false.
Proof.
  intros Hd. destruct l as [|a [|b r]]; [reflexivity|reflexivity|].
  cbn [nth]. inversion Hd as [|? ? _ H2]; subst. inversion H2; subst. lia.
Qed.

(* ------------------------------------------------------------------ *)
(* Wireless-Village integers                                            *)

Lemma shiftr8 v : N.shiftr v 8 = v / 256.
Proof. rewrite N.shiftr_div_pow2. reflexivity. Qed.

Lemma wv_int_octets_step k v acc :
  wv_int_octets (S k) v acc = if v =? 0 then acc else wv_int_octets k (v / 256) (v mod 256 :: acc).
Proof. cbn [wv_int_octets]. rewrite shiftr8, land_255. reflexivity. Qed.

(* minimal big-endian form *)
Lemma wv_int_octets_spec v : v < 4294967296 ->
  wv_int_octets 4 v [] =
    if v =? 0 then []
    else if v <? 256 then [v]
    else if v <? 65536 then [v / 256; v mod 256]
    else if v <? 16777216 then [v / 65536; (v / 256) mod 256; v mod 256]
    else [v / 16777216; (v / 65536) mod 256; (v / 256) mod 256; v mod 256].
Proof.
  intros Hv. rewrite !wv_int_octets_step. cbn [wv_int_octets].
  destruct (v =? 0) eqn:H0; [reflexivity|].
  destruct (v <? 256) eqn:H1.
  { replace (v / 256 =? 0) with true by lia. list_lia. }
  replace (v / 256 =? 0) with false by lia.
  destruct (v <? 65536) eqn:H2.
  { replace (v / 256 / 256 =? 0) with true by lia. list_lia. }
  replace (v / 256 / 256 =? 0) with false by lia.
  destruct (v <? 16777216) eqn:H3.
  { replace (v / 256 / 256 / 256 =? 0) with true by lia. list_lia. }
  replace (v / 256 / 256 / 256 =? 0) with false by lia.
  list_lia.
Qed.

Definition be_from (acc : N) (bs : list N) : N := fold_left (fun a b => a * 256 + b) bs acc.

Lemma be_from_ge acc bs : acc <= be_from acc bs.
Proof.
  unfold be_from. revert acc. induction bs as [|b r IH]; intros acc; cbn [fold_left]; [lia|].
  specialize (IH (acc * 256 + b)). lia.
Qed.

Lemma wv_int_step ch r acc : ch < 256 -> acc <= 16777215 ->
  wv_int_loop (ch :: r) acc = wv_int_loop r (acc * 256 + ch).
Proof.
  intros Hc Ha. cbn [wv_int_loop]. replace (16777215 <? acc) with false by lia.
  rewrite land_255. rewrite (N.mod_small ch) by lia.
  rewrite lor_shiftl_low by (change (2 ^ 8) with 256; lia). change (2 ^ 8) with 256.
  unfold u32. rewrite N.mod_small by lia. reflexivity.
Qed.

(* the decoding loop computes the big-endian value, or reports overflow exactly when it is >= 2^32 *)
Lemma wv_int_loop_spec bs : bytes_ok bs -> forall acc, acc < 4294967296 ->
  wv_int_loop bs acc =
    if be_from acc bs <? 4294967296 then TOk (be_from acc bs) else TErr T_WV_INTEGER_OVERFLOW.
Proof.
  induction 1 as [|ch r Hc _ IH]; intros acc Hacc.
  - cbn [wv_int_loop be_from fold_left]. replace (acc <? 4294967296) with true by lia. reflexivity.
  - destruct (16777215 <? acc) eqn:Hbig.
    + cbn [wv_int_loop]. rewrite Hbig.
      pose proof (be_from_ge (acc * 256 + ch) r) as Hge.
      change (be_from acc (ch :: r)) with (be_from (acc * 256 + ch) r).
      replace (be_from (acc * 256 + ch) r <? 4294967296) with false by lia. reflexivity.
    + rewrite wv_int_step by lia.
      change (be_from acc (ch :: r)) with (be_from (acc * 256 + ch) r).
      apply IH. lia.
Qed.

Lemma dec_wv_int_small bs : bytes_ok bs -> be_value bs < 4294967296 ->
  dec_wv_int bs = TOk (sprintf_u (be_value bs)).
Proof.
  intros Hb Hv. unfold dec_wv_int. rewrite wv_int_loop_spec by (try exact Hb; lia).
  change (be_from 0 bs) with (be_value bs).
  replace (be_value bs <? 4294967296) with true by lia. reflexivity.
Qed.

Lemma dec_wv_int_overflow bs : bytes_ok bs -> 4294967296 <= be_value bs ->
  dec_wv_int bs = TErr T_WV_INTEGER_OVERFLOW.
Proof.
  intros Hb Hv. unfold dec_wv_int. rewrite wv_int_loop_spec by (try exact Hb; lia).
  change (be_from 0 bs) with (be_value bs).
  replace (be_value bs <? 4294967296) with false by lia. reflexivity.
Qed.

Lemma octets_value v : v < 4294967296 ->
  bytes_ok (wv_int_octets 4 v []) /\ be_value (wv_int_octets 4 v []) = v /\
  (length (wv_int_octets 4 v []) <= 4)%nat /\ hd 1 (wv_int_octets 4 v []) <> 0.
Proof.
  intros Hv. rewrite wv_int_octets_spec by exact Hv. unfold be_value, bytes_ok.
  destruct (v =? 0) eqn:H0; [cbn; repeat split; try constructor; lia|].
  destruct (v <? 256) eqn:H1; [cbn [fold_left length hd]; repeat split; repeat constructor; lia|].
  destruct (v <? 65536) eqn:H2; [cbn [fold_left length hd]; repeat split; repeat constructor; lia|].
  destruct (v <? 16777216) eqn:H3; cbn [fold_left length hd]; repeat split; repeat constructor; lia.
Qed.

(* OPAQUE header of a short payload read back *)
Lemma opaque_payload_short data : (length data < 128)%nat ->
  opaque_payload (195 :: mb_write (N.of_nat (length data)) ++ data) = Some data.
Proof.
  intros Hl. unfold opaque_payload.
  rewrite mb_roundtrip by lia. rewrite N.eqb_refl. reflexivity.
Qed.

Lemma opaque_payload_enc data : N.of_nat (length data) < 4294967296 ->
  opaque_payload (enc_opaque data) = Some data.
Proof.
  intros Hl. unfold opaque_payload, enc_opaque, u32. rewrite N.mod_small by exact Hl.
  rewrite mb_roundtrip by exact Hl. rewrite N.eqb_refl. reflexivity.
Qed.

Lemma enc_wv_int_decimal n : n < 4294967296 ->
  enc_wv_int (sprintf_u n) =
  Emit (195 :: mb_write (N.of_nat (length (wv_int_octets 4 n []))) ++ wv_int_octets 4 n []).
Proof.
  intros Hn. unfold enc_wv_int.
  pose proof (dec_fuel_digits 20 n) as Hd. fold (sprintf_u n) in Hd.
  rewrite second_char_not_x by exact Hd.
  rewrite atol_digits; [|apply dec_fuel_nonempty|exact Hd].
  rewrite parse_dec_sprintf_u by lia.
  unfold long_to_u32, u32. rewrite N.min_l by lia. rewrite N.mod_small by lia. reflexivity.
Qed.

(* Theorem 2a: every 32-bit integer survives *)
Lemma wv_int_roundtrip n : n < 4294967296 ->
  exists p, payload_of (enc_wv_int (sprintf_u n)) = Some p /\ dec_wv_int p = TOk (sprintf_u n).
Proof.
  intros Hn. rewrite enc_wv_int_decimal by exact Hn.
  destruct (octets_value n Hn) as (Hb & Hv & Hl & _).
  exists (wv_int_octets 4 n []). split.
  - cbn [payload_of]. apply opaque_payload_short. lia.
  - rewrite dec_wv_int_small by (try exact Hb; lia). rewrite Hv. reflexivity.
Qed.

(* ... in the minimal big-endian form (no leading zero octet; 0 is the empty opaque) *)
Lemma wv_int_minimal n : n < 4294967296 ->
  exists p, payload_of (enc_wv_int (sprintf_u n)) = Some p /\ be_value p = n /\ hd 1 p <> 0 /\ (length p <= 4)%nat.
Proof.
  intros Hn. rewrite enc_wv_int_decimal by exact Hn.
  destruct (octets_value n Hn) as (Hb & Hv & Hl & Hh).
  exists (wv_int_octets 4 n []). repeat split; try assumption.
  cbn [payload_of]. apply opaque_payload_short. lia.
Qed.
