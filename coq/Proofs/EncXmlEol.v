(* C05 — the reader theorem WITHOUT the exclusion of raw carriage returns: outside canonical generation (and
   inside CDATA sections in every mode) the generator writes CR raw and an XML reader applies the line-end
   normalisation of XML 1.0 section 2.11 (CR LF -> LF, lone CR -> LF; literal TAB / LF / CR in attribute values
   -> space).  The specification info_e applies exactly that normalisation on the reader side: jointly over each
   run of character data between markup (so that a text ending in CR followed by the line break that indented
   generation writes is ONE line end), separately to each CDATA payload. *)
From Coq Require Import List NArith Arith Lia Bool.
From Wbxml Require Import Model.Codec Model.EncXml Model.XmlRead Proofs.CodecProofs Proofs.EncXmlProofs Proofs.EncXmlCdata
     Proofs.EncXmlIndent.
Import ListNotations.
Local Open Scope N_scope.

Arguments N.add : simpl never.
Arguments N.mul : simpl never.
Arguments N.sub : simpl never.

(* ------------------------------------------------------------------ *)
(* 1. line ends                                                         *)

Lemma norm_eol_cons c r : c <> 13 -> norm_eol (c :: r) = c :: norm_eol r.
Proof. intros H. cbn [norm_eol]. replace (c =? 13) with false by (symmetry; now apply N.eqb_neq). reflexivity. Qed.

Lemma norm_eol_cr_lf r : norm_eol (13 :: 10 :: r) = 10 :: norm_eol r.
Proof. reflexivity. Qed.

Lemma norm_eol_cr_other d r : d <> 10 -> norm_eol (13 :: d :: r) = 10 :: norm_eol (d :: r).
Proof. intros H. cbn [norm_eol]. change (13 =? 13) with true. cbn match. replace (d =? 10) with false by (symmetry; now apply N.eqb_neq). reflexivity. Qed.

Lemma norm_eol_cr_end : norm_eol [13] = [10].
Proof. reflexivity. Qed.

(* a prefix without CR is copied *)
Lemma norm_eol_app_nocr x y : no_byte 13 x = true -> norm_eol (x ++ y) = x ++ norm_eol y.
Proof.
  induction x as [|c x IH]; [reflexivity|]. unfold no_byte. cbn [forallb app]. intros H. apply andb_true_iff in H as [H1 H2].
  apply negb_true_iff, N.eqb_neq in H1. rewrite norm_eol_cons by exact H1. f_equal. now apply IH.
Qed.

(* normalisation does not see across a boundary whose right side does not start with LF *)
Lemma norm_eol_app_notlf : forall n a d b, (length a <= n)%nat -> d <> 10 ->
  norm_eol (a ++ d :: b) = norm_eol a ++ norm_eol (d :: b).
Proof.
  induction n as [|n IH]; intros a d b Hl Hd.
  - destruct a; [reflexivity|cbn in Hl; lia].
  - destruct a as [|c [|c2 a2]]; [reflexivity| |].
    + cbn [app]. destruct (N.eq_dec c 13) as [->|Hc].
      * rewrite (norm_eol_cr_other d b Hd). reflexivity.
      * rewrite (norm_eol_cons c (d :: b) Hc), (norm_eol_cons c [] Hc). reflexivity.
    + cbn [length] in Hl. cbn [app]. destruct (N.eq_dec c 13) as [->|Hc].
      * destruct (N.eq_dec c2 10) as [->|Hc2].
        -- rewrite (norm_eol_cr_lf (a2 ++ d :: b)), (norm_eol_cr_lf a2). cbn [app]. f_equal. apply IH; [lia|exact Hd].
        -- rewrite (norm_eol_cr_other c2 (a2 ++ d :: b) Hc2), (norm_eol_cr_other c2 a2 Hc2). cbn [app]. f_equal.
           change (c2 :: a2 ++ d :: b) with ((c2 :: a2) ++ d :: b). apply IH; [cbn [length]; lia|exact Hd].
      * rewrite (norm_eol_cons c (c2 :: a2 ++ d :: b) Hc), (norm_eol_cons c (c2 :: a2) Hc). cbn [app]. f_equal.
        change (c2 :: a2 ++ d :: b) with ((c2 :: a2) ++ d :: b). apply IH; [cbn [length]; lia|exact Hd].
Qed.

Lemma norm_eol_no_cr : forall n s, (length s <= n)%nat -> no_byte 13 (norm_eol s) = true.
Proof.
  induction n as [|n IH]; intros s Hl; [destruct s; [reflexivity|cbn in Hl; lia]|].
  destruct s as [|c [|d r]]; [reflexivity| |].
  - destruct (N.eq_dec c 13) as [->|Hc]; [reflexivity|]. rewrite norm_eol_cons by exact Hc. unfold no_byte. cbn [forallb norm_eol].
    rewrite andb_true_r. now apply negb_true_iff, N.eqb_neq.
  - cbn [length] in Hl. destruct (N.eq_dec c 13) as [->|Hc].
    + destruct (N.eq_dec d 10) as [->|Hd].
      * rewrite norm_eol_cr_lf. unfold no_byte. cbn [forallb]. apply (IH r). lia.
      * rewrite norm_eol_cr_other by exact Hd. unfold no_byte. cbn [forallb]. apply (IH (d :: r)). cbn [length]. lia.
    + rewrite norm_eol_cons by exact Hc. unfold no_byte. cbn [forallb]. apply andb_true_iff. split.
      * now apply negb_true_iff, N.eqb_neq.
      * apply (IH (d :: r)). cbn [length]. lia.
Qed.

Lemma norm_eol_xml_bytes : forall n s, (length s <= n)%nat -> forallb is_xml_byte s = true -> forallb is_xml_byte (norm_eol s) = true.
Proof.
  induction n as [|n IH]; intros s Hl Hb; [destruct s; [reflexivity|cbn in Hl; lia]|].
  destruct s as [|c [|d r]]; [reflexivity| |].
  - destruct (N.eq_dec c 13) as [->|Hc]; [reflexivity|]. now rewrite norm_eol_cons.
  - cbn [length] in Hl. cbn [forallb] in Hb. apply andb_true_iff in Hb as [Hc' Hb].
    destruct (N.eq_dec c 13) as [->|Hc].
    + destruct (N.eq_dec d 10) as [->|Hd].
      * rewrite norm_eol_cr_lf. cbn [forallb]. cbn [forallb] in Hb. apply andb_true_iff in Hb as [_ Hb]. apply (IH r); [lia|exact Hb].
      * rewrite norm_eol_cr_other by exact Hd. cbn [forallb]. apply (IH (d :: r)); [cbn [length]; lia|exact Hb].
    + rewrite norm_eol_cons by exact Hc. cbn [forallb]. rewrite Hc'. apply (IH (d :: r)); [cbn [length]; lia|exact Hb].
Qed.

(* non-canonical escaping leaves CR and LF raw: it commutes with the normalisation *)
Lemma esc_false_head c r : c <> 10 -> exists h t, esc_char false c ++ r = h :: t /\ h <> 10.
Proof.
  intros Hc.
  destruct (esc_char_cases false c) as [[_ ->]|[[_ ->]|[[_ ->]|[[_ ->]|[[_ ->]|[[? _]|[[? _]|[[? _]|H]]]]]]]]; try discriminate;
    try (eexists _, _; split; [reflexivity|discriminate]).
  destruct H as (_ & _ & _ & _ & _ & _ & ->). eexists _, _. split; [reflexivity|exact Hc].
Qed.

Lemma esc_false_no_cr c : c <> 13 -> no_byte 13 (esc_char false c) = true.
Proof.
  intros Hc.
  destruct (esc_char_cases false c) as [[_ ->]|[[_ ->]|[[_ ->]|[[_ ->]|[[_ ->]|[[? _]|[[? _]|[[? _]|H]]]]]]]]; try discriminate; try reflexivity.
  destruct H as (_ & _ & _ & _ & _ & _ & ->). unfold no_byte. cbn [forallb]. rewrite andb_true_r. now apply negb_true_iff, N.eqb_neq.
Qed.

Lemma esc_false_13 : esc_char false 13 = [13]. Proof. reflexivity. Qed.
Lemma esc_false_10 : esc_char false 10 = [10]. Proof. reflexivity. Qed.

Lemma norm_eol_escape_false : forall n s, (length s <= n)%nat ->
  norm_eol (escape false s) = escape false (norm_eol s).
Proof.
  induction n as [|n IH]; intros s Hl; [destruct s; [reflexivity|cbn in Hl; lia]|].
  destruct s as [|c r]; [reflexivity|]. cbn [length] in Hl. cbn [escape flat_map]. fold (escape false r).
  destruct (N.eq_dec c 13) as [->|Hc].
  - rewrite esc_false_13. cbn [app]. destruct r as [|d r'].
    + reflexivity.
    + destruct (N.eq_dec d 10) as [->|Hd].
      * cbn [escape flat_map]. fold (escape false r'). rewrite esc_false_10. cbn [app].
        rewrite !norm_eol_cr_lf. cbn [escape flat_map]. fold (escape false (norm_eol r')). rewrite esc_false_10. cbn [app].
        f_equal. apply IH. cbn [length] in Hl. lia.
      * rewrite norm_eol_cr_other by exact Hd. cbn [escape flat_map]. fold (escape false r'). fold (escape false (norm_eol (d :: r'))).
        destruct (esc_false_head d (escape false r') Hd) as (h & t & E & Hh). rewrite E.
        rewrite norm_eol_cr_other by exact Hh. rewrite esc_false_10. cbn [app]. f_equal. rewrite <- E.
        change (esc_char false d ++ escape false r') with (escape false (d :: r')). apply IH. lia.
  - rewrite (norm_eol_app_nocr _ _ (esc_false_no_cr c Hc)). rewrite norm_eol_cons by exact Hc.
    cbn [escape flat_map]. fold (escape false (norm_eol r)). f_equal. apply IH. lia.
Qed.

(* what a reader makes of a run of character data / of an attribute value *)
Definition rd (m : bool) (t : bytes) : bytes := if m then t else norm_eol t.

Lemma escape_chardata m cur r :
  forallb is_xml_byte cur = true -> cur <> [] ->
  p_chardata (escape m cur ++ 60 :: r) = Some (rd m cur, 60 :: r).
Proof.
  intros Hb Hne. destruct (escape_no_raw m cur) as (N60 & N62 & _ & _).
  unfold p_chardata. rewrite (span_app (fun c => negb (c =? 60)) _ 60 r N60 eq_refl).
  rewrite (escape_xml_bytes m cur Hb), (has_cdata_end_no_gt _ N62). cbn [andb negb]. unfold rd. destruct m.
  - destruct (escape_canonical_no_raw_ws cur) as (C13 & _ & _). rewrite (norm_eol_id _ C13), unescape_escape. reflexivity.
  - rewrite (norm_eol_escape_false (length cur) cur (le_n _)), unescape_escape. reflexivity.
Qed.

Lemma escape_nonempty m c s : exists h t, escape m (c :: s) = h :: t /\ h <> 60.
Proof.
  cbn [escape flat_map].
  destruct (esc_char_cases m c) as [[_ ->]|[[_ ->]|[[_ ->]|[[_ ->]|[[_ ->]|[[_ [_ ->]]|[[_ [_ ->]]|[[_ [_ ->]]|H]]]]]]]];
    try (eexists _, _; split; [reflexivity|discriminate]).
  destruct H as (A & _ & _ & _ & _ & _ & ->). eexists _, _. split; [reflexivity|exact A].
Qed.

(* pending character data is delivered (normalised) when markup starts *)
Lemma flush_e m cur f r acc x :
  forallb is_xml_byte cur = true ->
  p_content f (60 :: r) (push_text (rd m cur) acc) = ROk x ->
  p_content (S f) (escape m cur ++ 60 :: r) acc = ROk x.
Proof.
  intros Hb H. destruct cur as [|c cur'].
  - unfold rd in H. destruct m; cbn [norm_eol push_text escape flat_map app] in *; eapply p_content_mono; eauto.
  - pose proof (escape_chardata m (c :: cur') r Hb ltac:(discriminate)) as Hc.
    destruct (escape_nonempty m c cur') as (h & t & E & Hh). rewrite E in *. cbn [app p_content] in *.
    replace (h =? 60) with false by (symmetry; now apply N.eqb_neq). rewrite Hc. exact H.
Qed.

(* ------------------------------------------------------------------ *)
(* 2. attributes                                                        *)

Record aval_e (raw v : bytes) : Prop := mk_aval_e {
  ae_bytes : forallb is_xml_byte raw = true;
  ae_quote : no_byte 34 raw = true;
  ae_unesc : unescape (attr_ws (norm_eol raw)) = Some v
}.

Lemma p_attvalue_e_ok raw v r : aval_e raw v -> p_attvalue (raw ++ 34 :: r) = Some (v, r).
Proof.
  intros [A1 A2 A3]. unfold p_attvalue.
  rewrite (span_app (fun c => negb (c =? 34)) raw 34 r A2 eq_refl). now rewrite A1, A3.
Qed.

Lemma p_attrs_e_ok kvs : forall n acc (tail : bytes) flag r,
  Forall (fun kv => let '(k, raw, v) := kv in is_xml_name k = true /\ aval_e raw v) kvs ->
  nodup_bytes (map (fun kv => fst (fst kv)) kvs) = true ->
  (forall kv, In kv kvs -> bytes_in (fst (fst kv)) acc = false) ->
  (length kvs < n)%nat ->
  (tail = 62 :: r /\ flag = false) \/ (tail = 47 :: 62 :: r /\ flag = true) ->
  p_attrs n (flat_map emit_attr kvs ++ tail) acc = Some (rev acc ++ map (fun kv => (fst (fst kv), snd kv)) kvs, flag, r).
Proof.
  induction kvs as [|[[k raw] v] kvs IH]; intros n acc tail flag r HF HN HA Hn HT.
  - destruct n as [|n]; [cbn in Hn; lia|]. cbn [flat_map app map]. rewrite app_nil_r.
    destruct HT as [[-> ->]|[-> ->]]; reflexivity.
  - destruct n as [|n]; [cbn in Hn; lia|].
    inversion HF as [|? ? Hh HF']; subst. cbn in Hh. destruct Hh as [Hk Hv].
    cbn [flat_map emit_attr app]. cbn [p_attrs].
    change (32 =? 62) with false. change (32 =? 47) with false. change (32 =? 32) with true. cbn [andb orb].
    rewrite <- !app_assoc. cbn [app].
    rewrite (p_name_app k 61 _ Hk eq_refl).
    cbn [expect]. change (61 =? 61) with true. change (34 =? 34) with true. cbn [andb].
    rewrite <- app_assoc. cbn [app].
    rewrite (p_attvalue_e_ok raw v _ Hv).
    pose proof (HA (k, raw, v) (or_introl eq_refl)) as HAk. cbn [fst] in HAk. rewrite HAk.
    cbn [map fst snd nodup_bytes] in HN. apply andb_true_iff in HN as [HN1 HN2].
    rewrite (IH n ((k, v) :: acc) tail flag r HF' HN2).
    + cbn [rev map fst snd]. rewrite <- app_assoc. reflexivity.
    + intros kv Hin. cbn [bytes_in]. rewrite (HA kv (or_intror Hin)), orb_false_r.
      apply negb_true_iff in HN1. rewrite bytes_eqb_sym.
      destruct (bytes_eqb k (fst (fst kv))) eqn:E; [|reflexivity].
      exfalso. assert (existsb (bytes_eqb k) (map (fun kv0 => fst (fst kv0)) kvs) = true); [|congruence].
      apply existsb_exists. exists (fst (fst kv)). split; [|exact E]. exact (in_map (fun kv0 : bytes * bytes * bytes => fst (fst kv0)) kvs kv Hin).
    + cbn [length] in Hn. lia.
    + exact HT.
Qed.


(* attribute value as an XML reader delivers it: exact in canonical generation; otherwise line ends are
   normalised and literal TAB / LF become a space *)
Definition spec_attr_value_e (o : opts) (a : attr) : bytes :=
  if is_canonical o then attr_value_bytes a else attr_ws (norm_eol (attr_value_bytes a)).

Definition spec_attrs_e (l : xlang) (o : opts) (parent : pinfo) (nm : tname) (attrs : list attr) : list (bytes * bytes) :=
  spec_ns l parent nm ++
  (if xl_has_attrs l then map (fun a => (aname_bytes (at_name a), spec_attr_value_e o a)) attrs else []).

Definition attr_ok_e (a : attr) : bool :=
  is_xml_name (aname_bytes (at_name a)) && forallb is_xml_byte (attr_value_bytes a).

Lemma attr_value_aval_e o a :
  forallb is_xml_byte (attr_value_bytes a) = true ->
  aval_e (escape (is_canonical o) (attr_value_bytes a)) (spec_attr_value_e o a).
Proof.
  intros H. destruct (escape_no_raw (is_canonical o) (attr_value_bytes a)) as (_ & _ & Q & _).
  constructor; [now apply escape_xml_bytes|exact Q|]. unfold spec_attr_value_e. destruct (is_canonical o).
  - destruct (escape_canonical_no_raw_ws (attr_value_bytes a)) as (W1 & W2 & W3).
    rewrite (norm_eol_id _ W1), (attr_ws_id _ W1 W2 W3). apply unescape_escape.
  - rewrite (norm_eol_escape_false _ _ (le_n _)).
    rewrite (attr_ws_escape_false _ (norm_eol_no_cr _ _ (le_n _))). apply unescape_escape.
Qed.

Lemma raw_aval_e s : raw_ok s = true -> aval_e s s.
Proof.
  intros H. destruct (raw_aval_ok s H) as [A1 A2 A3 A4]. constructor; auto. now rewrite (norm_eol_id _ A3).
Qed.

Definition attr_triples_e (l : xlang) (o : opts) (parent : pinfo) (nm : tname) (attrs : list attr) : list (bytes * bytes * bytes) :=
  map (fun kv => (fst kv, snd kv, snd kv)) (spec_ns l parent nm) ++
  (if xl_has_attrs l
   then map (fun a => (aname_bytes (at_name a), escape (is_canonical o) (attr_value_bytes a), spec_attr_value_e o a)) attrs
   else []).

Lemma emit_triples_e l o parent nm attrs :
  xmlns_part l parent nm ++ parse_attributes l o attrs = flat_map emit_attr (attr_triples_e l o parent nm attrs).
Proof.
  rewrite emit_triples. unfold attr_triples, attr_triples_e. rewrite !flat_map_app. f_equal.
  destruct (xl_has_attrs l); [|reflexivity]. induction attrs as [|a r IH]; [reflexivity|]. cbn [map flat_map]. now rewrite IH.
Qed.

Lemma proj_triples_e l o parent nm attrs :
  map (fun kv : bytes * bytes * bytes => (fst (fst kv), snd kv)) (attr_triples_e l o parent nm attrs) = spec_attrs_e l o parent nm attrs.
Proof.
  unfold attr_triples_e, spec_attrs_e. rewrite map_app, !map_map. f_equal.
  - cbn [fst snd]. induction (spec_ns l parent nm) as [|[k v] r IH]; [reflexivity|]. cbn. now rewrite IH.
  - destruct (xl_has_attrs l); [|reflexivity]. now rewrite map_map.
Qed.

Lemma keys_triples_e l o parent nm attrs :
  map (fun kv : bytes * bytes * bytes => fst (fst kv)) (attr_triples_e l o parent nm attrs) = map fst (spec_attrs_e l o parent nm attrs).
Proof. rewrite <- proj_triples_e, map_map. reflexivity. Qed.

Lemma ok_triples_e l o parent nm attrs :
  lang_ok l = true -> forallb attr_ok_e attrs = true ->
  Forall (fun kv : bytes * bytes * bytes => let '(k, raw, v) := kv in is_xml_name k = true /\ aval_e raw v)
         (attr_triples_e l o parent nm attrs).
Proof.
  intros HL HA. unfold attr_triples_e. apply Forall_app. split.
  - unfold spec_ns. destruct (xl_ns l) as [nst|] eqn:EN; [|constructor].
    destruct nm as [rw|lit]; [|constructor].
    destruct (ns_wanted parent (TTok rw)); [|constructor].
    destruct (get_xmlns nst (tr_page rw)) as [ns|] eqn:EG; [|constructor].
    constructor; [|constructor]. cbn [fst snd]. split; [reflexivity|].
    apply raw_aval_e. unfold lang_ok in HL. rewrite EN in HL. apply andb_true_iff in HL as [_ HL].
    destruct (get_xmlns_in _ _ _ EG) as (r & Hin & <-). rewrite forallb_forall in HL. now apply HL.
  - destruct (xl_has_attrs l); [|constructor]. rewrite forallb_forall in HA.
    apply Forall_forall. intros kv Hin. apply in_map_iff in Hin as (a & <- & Hin).
    specialize (HA a Hin). unfold attr_ok_e in HA. apply andb_true_iff in HA as [H1 H2]. split; [exact H1|].
    now apply attr_value_aval_e.
Qed.

(* ------------------------------------------------------------------ *)
(* 3. CDATA payloads with line ends                                     *)

Lemma cdata_read_e : forall n t, (length t <= n)%nat ->
  forallb is_xml_byte t = true ->
  forall acc tail f x,
    p_content f tail (push_text (norm_eol t) acc) = ROk x ->
    p_content (S n + f) (60 :: 33 :: s_cdata_tail ++ split_cdata_end t ++ 93 :: 93 :: 62 :: tail) acc = ROk x.
Proof.
  induction n as [|n IH]; intros t Hlen Hb acc tail f x Hk.
  - destruct t; [|cbn in Hlen; lia]. change (1 + f)%nat with (S f). rewrite cdata_step. exact Hk.
  - change (S (S n) + f)%nat with (S (S n + f)). rewrite cdata_step.
    destruct (span_cdata t) as [[t1 t2]|] eqn:ES.
    + destruct (span_some t t1 t2 ES) as (H1 & H2 & H3).
      rewrite H2, <- !app_assoc, s_cdata_split_eq. rewrite H3.
      assert (Hb1 : forallb is_xml_byte (t1 ++ [93; 93]) = true).
      { rewrite H1, forallb_app in Hb. apply andb_true_iff in Hb as [Hb _]. rewrite forallb_app, Hb. reflexivity. }
      rewrite Hb1.
      assert (Hb2 : forallb is_xml_byte (62 :: t2) = true).
      { rewrite H1, forallb_app in Hb. apply andb_true_iff in Hb as [_ Hb]. cbn [forallb] in Hb |- *.
        apply andb_true_iff in Hb as [_ Hb]. apply andb_true_iff in Hb as [_ Hb]. exact Hb. }
      change (62 :: split_cdata_end t2 ++ 93 :: 93 :: 62 :: tail) with ((62 :: split_cdata_end t2) ++ 93 :: 93 :: 62 :: tail).
      rewrite <- split_gt.
      apply (IH (62 :: t2)); auto.
      * rewrite H1, app_length in Hlen. cbn [length] in Hlen |- *. lia.
      * rewrite <- push_text_app.
        rewrite <- (norm_eol_app_notlf (length (t1 ++ [93; 93])) (t1 ++ [93; 93]) 62 t2 (le_n _)) by discriminate.
        rewrite <- app_assoc. cbn [app]. rewrite <- H1. exact Hk.
    + rewrite (split_none t ES), (span_none_app t tail ES), Hb.
      eapply p_content_mono; [exact Hk|lia].
Qed.

(* ------------------------------------------------------------------ *)
(* 4. start tags                                                        *)

Lemma elt_open_read_e l o parent nm attrs :
  lang_ok l = true ->
  is_xml_name (tname_bytes nm) = true -> forallb attr_ok_e attrs = true ->
  nodup_bytes (map fst (spec_attrs_e l o parent nm attrs)) = true ->
  forall tailc tailr flag r0,
    (tailc :: tailr = 62 :: r0 /\ flag = false) \/ (tailc :: tailr = 47 :: 62 :: r0 /\ flag = true) ->
    forall f acc0 x,
      (if flag then p_content f r0 (XE (tname_bytes nm) (spec_attrs_e l o parent nm attrs) [] :: acc0)
       else match p_content f r0 [] with
            | ROk (ch', r3) =>
              match p_name r3 with
              | Some (nm', r4) =>
                if bytes_eqb (tname_bytes nm) nm' then
                  match skip_ws r4 with
                  | c5 :: r5 => if c5 =? 62 then p_content f r5 (XE (tname_bytes nm) (spec_attrs_e l o parent nm attrs) ch' :: acc0) else RErr
                  | [] => RErr
                  end
                else RErr
              | None => RErr
              end
            | RErr => RErr
            | RFuel => RFuel
            end) = ROk x ->
      p_content (S f) (elt_open l o parent nm attrs ++ tailc :: tailr) acc0 = ROk x.
Proof.
  intros HL Hok1 Hok2 Hok3 tailc tailr flag r0 HT f acc0 x Hk.
  pose proof (ok_triples_e l o parent nm attrs HL Hok2) as HF.
  pose proof (keys_triples_e l o parent nm attrs) as HK.
  unfold elt_open. rewrite <- app_comm_cons. cbn [p_content]. change (60 =? 60) with true. cbn match.
  destruct (name_not_special _ Hok1) as (c1 & rn & En & Hs1).
  rewrite En. cbn [app].
  assert (c1 =? 47 = false) as ->.
  { apply N.eqb_neq. intros ->. discriminate. }
  assert (c1 =? 33 = false) as ->.
  { apply N.eqb_neq. intros ->. discriminate. }
  rewrite <- !app_assoc. rewrite app_comm_cons, <- En.
  rewrite (app_assoc (xmlns_part l parent nm)), emit_triples_e.
  assert (Hfirst : exists c2 r2, flat_map emit_attr (attr_triples_e l o parent nm attrs) ++ tailc :: tailr = c2 :: r2 /\ is_name_char c2 = false).
  { destruct (attr_triples_e l o parent nm attrs) as [|[[k raw] v] kvs].
    - cbn [flat_map app]. exists tailc, tailr. split; [reflexivity|].
      destruct HT as [[E _]|[E _]]; injection E as -> _; reflexivity.
    - cbn [flat_map emit_attr app]. eexists _, _. split; [reflexivity|reflexivity]. }
  destruct Hfirst as (c2 & r2 & E2 & Hc2). rewrite E2.
  rewrite (p_name_app _ c2 r2 Hok1 Hc2). rewrite <- E2.
  rewrite (p_attrs_e_ok (attr_triples_e l o parent nm attrs) _ [] (tailc :: tailr) flag r0 HF).
  - cbn [rev app]. rewrite proj_triples_e. destruct flag; exact Hk.
  - rewrite HK. exact Hok3.
  - intros; reflexivity.
  - rewrite app_length. cbn [length].
    pose proof (length_flat_emit (attr_triples_e l o parent nm attrs)). lia.
  - exact HT.
Qed.

(* ------------------------------------------------------------------ *)
(* 5. specification with line-end normalisation                         *)

(* what the generator contributes to the content of an element, before the reader's normalisation *)
Inductive sitem :=
| SE (n : bytes) (a : list (bytes * bytes)) (ch : list xitem)   (* a child element (its content already final) *)
| SR (t : bytes)                                                 (* a piece of character data (text, generated white space) *)
| SC (t : bytes).                                                (* the payload of one CDATA node *)

(* the reader: pieces of character data accumulate in [cur] until markup or a CDATA section starts; the run is then
   delivered with its line ends normalised as a whole (not in canonical generation, where CR is written &#13;) *)
Definition step (m : bool) (st : bytes * list xitem) (it : sitem) : bytes * list xitem :=
  let '(cur, acc) := st in
  match it with
  | SR t => (cur ++ t, acc)
  | SC t => ([], push_text (norm_eol t) (push_text (rd m cur) acc))
  | SE n a ch => ([], XE n a ch :: push_text (rd m cur) acc)
  end.

Definition fin_st (m : bool) (st : bytes * list xitem) : list xitem := rev (push_text (rd m (fst st)) (snd st)).
Definition fin (m : bool) (its : list sitem) : list xitem := fin_st m (fold_left (step m) its ([], [])).

Definition info_list_e (f : est -> node -> option (list sitem * est)) : list node -> est -> option (list sitem * est) :=
  fix go (ns : list node) (s : est) : option (list sitem * est) :=
    match ns with
    | [] => Some ([], s)
    | n :: r =>
      match f s n with
      | Some (a, s1) =>
        match go r (reset_cur s1) with
        | Some (b, s2) => Some (a ++ b, s2)
        | None => None
        end
      | None => None
      end
    end.

Definition text_item_e (l : xlang) (o : opts) (parent : pinfo) (s : est) (c : bytes) : option (list sitem * est) :=
  match text_policy o parent s c with
  | None => Some ([], s)
  | Some c' =>
    let tmp := syncml_type_rewrite l (e_cur_tag s) c' in
    let s' := mk_est (e_indent s) true (e_in_cdata s) (e_cur_tag s) in
    if tag_is_binary (text_tag s parent)
    then match b64_enc tmp with Some e => Some ([SR e], s') | None => None end
    else Some ([SR tmp], s')
  end.

Fixpoint info_e (l : xlang) (o : opts) (parent : pinfo) (s : est) (n : node) {struct n} : option (list sitem * est) :=
  match n with
  | Elt nm attrs ch =>
    match ch with
    | [] => Some ([SR (w0 o s); SE (tname_bytes nm) (spec_attrs_e l o parent nm attrs) []; SR (nl_if o)], set_cur (cur_of nm) s)
    | _ =>
      match info_list_e (info_e l o (pinfo_below parent nm)) ch (s_in o ch nm s) with
      | Some (its, s4) =>
        Some ([SR (w0 o s);
               SE (tname_bytes nm) (spec_attrs_e l o parent nm attrs)
                  (fin (is_canonical o) (SR (w1 o ch) :: its ++ [SR (w2 o ch s4)]));
               SR (nl_if o)], s_out o ch s4)
      | None => None
      end
    end
  | Text c => text_item_e l o parent s c
  | CData ch =>
    match ch with
    | [] => Some ([SC []], set_cdata false (set_cdata true s))
    | [Text t] => Some ([SC t], mk_est (e_indent s) true false None)
    | _ => None
    end
  | Pi => None
  | SubTree sl roots =>
    match sl with
    | Some l' =>
      match info_list_e (info_e l' o proot) roots (est0 (e_indent s)) with
      | Some (its, _) => Some (its, s)
      | None => None
      end
    | None => None
    end
  end.

(* THE PROPERTY'S HYPOTHESES, nothing else: names are XML names, character data and attribute values are XML
   characters (bytes; CR allowed everywhere), no attribute name twice (counting the generated xmlns); content of a
   binary-flagged element is octets; a CDATA node holds one payload text; embedded documents have a language *)
Fixpoint node_ok_e (l : xlang) (o : opts) (parent : pinfo) (cur : option trow) (n : node) {struct n} : bool :=
  match n with
  | Elt nm attrs ch =>
    is_xml_name (tname_bytes nm) &&
    forallb attr_ok_e attrs &&
    nodup_bytes (map fst (spec_attrs_e l o parent nm attrs)) &&
    (fix go (cur : option trow) (ns : list node) : bool :=
       match ns with
       | [] => true
       | x :: r => node_ok_e l o (pinfo_below parent nm) cur x && go None r
       end) (cur_of nm) ch
  | Text s =>
    if tag_is_binary (text_tag (mk_est 0 false false cur) parent)
    then forallb (fun c => c <? 256) s && negb (tag_is_type cur)
    else forallb is_xml_byte s
  | CData ch => match ch with [] => true | [Text t] => forallb is_xml_byte t | _ => false end
  | Pi => false
  | SubTree sl roots =>
    match sl with
    | Some l' =>
      lang_ok l' &&
      (fix go (cur : option trow) (ns : list node) : bool :=
         match ns with
         | [] => true
         | x :: r => node_ok_e l' o proot cur x && go None r
         end) None roots
    | None => false
    end
  end.

Definition nodes_ok_e (l : xlang) (o : opts) (parent : pinfo) : option trow -> list node -> bool :=
  fix go (cur : option trow) (ns : list node) : bool :=
    match ns with
    | [] => true
    | x :: r => node_ok_e l o parent cur x && go None r
    end.

(* ------------------------------------------------------------------ *)
(* 6. reading                                                           *)

Lemma canon_noindent o : is_canonical o = true -> is_indent o = false.
Proof. unfold is_canonical, is_indent. destruct (o_gen o); discriminate || reflexivity. Qed.

Lemma escape_app m a b : escape m (a ++ b) = escape m a ++ escape m b.
Proof. unfold escape. apply flat_map_app. Qed.

(* generated white space is written as it is *)
Lemma esc_ws o w : forallb is_sp_nl w = true -> (is_indent o = false -> w = []) -> escape (is_canonical o) w = w.
Proof.
  intros H Hn. destruct (is_canonical o) eqn:C; [rewrite (Hn (canon_noindent o C)); reflexivity|].
  induction w as [|c w IH]; [reflexivity|]. cbn [forallb] in H. apply andb_true_iff in H as [H1 H2].
  cbn [escape flat_map]. fold (escape false w). rewrite IH; [|exact H2|intros E; specialize (Hn E); discriminate].
  unfold is_sp_nl in H1. apply orb_true_iff in H1 as [E|E]; apply N.eqb_eq in E; subst; reflexivity.
Qed.

Lemma esc_w0 o s : escape (is_canonical o) (w0 o s) = w0 o s.
Proof. apply esc_ws; [apply w0_sp|]. intros E. unfold w0. now rewrite E. Qed.
Lemma esc_w1 o ch : escape (is_canonical o) (w1 o ch) = w1 o ch.
Proof. apply esc_ws; [apply w1_sp|]. intros E. unfold w1, hc. now rewrite E. Qed.
Lemma esc_w2 o ch s4 : escape (is_canonical o) (w2 o ch s4) = w2 o ch s4.
Proof. apply esc_ws; [apply w2_sp|]. intros E. unfold w2, hc. now rewrite E. Qed.
Lemma esc_nl_if o : escape (is_canonical o) (nl_if o) = nl_if o.
Proof. apply esc_ws; [apply nl_if_sp|]. intros E. unfold nl_if. now rewrite E. Qed.

Definition reads_node_e (m : bool) (n : node) (b : bytes) (its : list sitem) : Prop :=
  forall cur acc tail f x,
    forallb is_xml_byte cur = true ->
    (forall cur2 acc2,
        forallb is_xml_byte cur2 = true ->
        (cur2, acc2) = fold_left (step m) its (cur, acc) ->
        p_content f (escape m cur2 ++ tail) acc2 = ROk x) ->
    p_content (node_fuel n + f) (escape m cur ++ b ++ tail) acc = ROk x.

Definition reads_seq_e (m : bool) (ch : list node) (b : bytes) (its : list sitem) : Prop :=
  forall cur acc tail f x,
    forallb is_xml_byte cur = true ->
    (forall cur2 acc2,
        forallb is_xml_byte cur2 = true ->
        (cur2, acc2) = fold_left (step m) its (cur, acc) ->
        p_content f (escape m cur2 ++ tail) acc2 = ROk x) ->
    p_content (seq_fuel ch + f) (escape m cur ++ b ++ tail) acc = ROk x.

Definition reads_list_e (m : bool) (ch : list node) (b : bytes) (its : list sitem) : Prop :=
  forall cur post acc rest f,
    forallb is_xml_byte cur = true -> forallb is_xml_byte post = true -> escape m post = post ->
    p_content (list_fuel ch + f) (escape m cur ++ b ++ post ++ 60 :: 47 :: rest) acc =
    ROk (fin_st m (fold_left (step m) (its ++ [SR post]) (cur, acc)), rest).

Lemma seq_to_list_e m ch b its : reads_seq_e m ch b its -> reads_list_e m ch b its.
Proof.
  intros Hs cur post acc rest f Hcur Hpost Epost.
  replace (list_fuel ch + f)%nat with (seq_fuel ch + (2 + f))%nat by (unfold list_fuel, seq_fuel; lia).
  apply (Hs cur acc (post ++ 60 :: 47 :: rest) (2 + f)%nat _ Hcur).
  intros cur2 acc2 Hc2 Heq.
  replace (escape m cur2 ++ post ++ 60 :: 47 :: rest) with (escape m (cur2 ++ post) ++ 60 :: 47 :: rest)
    by (rewrite escape_app, Epost, <- app_assoc; reflexivity).
  apply (flush_e m (cur2 ++ post) (S f) _ acc2 _); [now rewrite forallb_app, Hc2, Hpost|].
  rewrite fold_left_app, <- Heq. reflexivity.
Qed.

Lemma xmlb_strip s : forallb is_xml_byte s = true -> forallb is_xml_byte (strip_blanks s) = true.
Proof. apply forallb_strip. Qed.

Lemma xmlb_rewrite l cur s : forallb is_xml_byte s = true -> forallb is_xml_byte (syncml_type_rewrite l cur s) = true.
Proof.
  intros H. unfold syncml_type_rewrite.
  destruct (is_syncml l && tag_is_type cur && bytes_eqb s s_devinf_wbxml);
    match goal with |- context [if ?c then _ else _] => destruct c end; auto.
Qed.

Lemma xmlb_policy o p st s c : forallb is_xml_byte s = true -> text_policy o p st s = Some c -> forallb is_xml_byte c = true.
Proof.
  intros H. unfold text_policy.
  destruct (negb (e_in_cdata st) && negb (tag_is_binary (text_tag st p)) && negb (is_canonical o)).
  - destruct (o_ignore_empty o && only_ws s); [discriminate|]. intros E. injection E as <-.
    destruct (o_remove_blanks o); [now apply xmlb_strip|exact H].
  - intros E. injection E as <-. exact H.
Qed.

Lemma emit_bytes_e kvs :
  Forall (fun kv : bytes * bytes * bytes => let '(k, raw, v) := kv in is_xml_name k = true /\ aval_e raw v) kvs ->
  forallb is_xml_byte (flat_map emit_attr kvs) = true.
Proof.
  induction 1 as [|[[k raw] v] r [Hk Hv] _ IH]; [reflexivity|].
  cbn [flat_map emit_attr]. rewrite forallb_app, IH, andb_true_r. cbn [forallb]. rewrite !forallb_app.
  rewrite (xml_name_bytes k Hk), (ae_bytes _ _ Hv). reflexivity.
Qed.

Lemma elt_open_bytes_e l o parent nm attrs :
  lang_ok l = true -> is_xml_name (tname_bytes nm) = true -> forallb attr_ok_e attrs = true ->
  forallb is_xml_byte (elt_open l o parent nm attrs) = true.
Proof.
  intros HL H1 H2. unfold elt_open. cbn [forallb]. rewrite forallb_app, (xml_name_bytes _ H1), emit_triples_e.
  now rewrite (emit_bytes_e _ (ok_triples_e l o parent nm attrs HL H2)).
Qed.

Definition node_main_e_stmt (n : node) : Prop :=
  forall l o parent s b s',
    lang_ok l = true -> e_in_cdata s = false ->
    node_ok_e l o parent (e_cur_tag s) n = true ->
    enc_node l o parent s n = XOk (b, s') ->
    e_in_cdata s' = false /\ forallb is_xml_byte b = true /\
    exists its, info_e l o parent s n = Some (its, s') /\ reads_node_e (is_canonical o) n b its.

Lemma seq_main_e ch :
  Forall node_main_e_stmt ch ->
  forall l o parent s b s',
    lang_ok l = true -> e_in_cdata s = false ->
    nodes_ok_e l o parent (e_cur_tag s) ch = true ->
    seq_nodes (enc_node l o parent) ch s = XOk (b, s') ->
    e_in_cdata s' = false /\ forallb is_xml_byte b = true /\
    exists its, info_list_e (info_e l o parent) ch s = Some (its, s') /\ reads_seq_e (is_canonical o) ch b its.
Proof.
  induction 1 as [|n ch Hn Hch IH]; intros l o parent s b s' HL Hc Hok Henc.
  - cbn in Henc. injection Henc as <- <-. split; [exact Hc|]. split; [reflexivity|]. exists []. split; [reflexivity|].
    intros cur acc tail f x Hcur Hk. cbn [app seq_fuel fold_right Nat.add]. apply (Hk cur acc Hcur). reflexivity.
  - cbn [seq_nodes] in Henc.
    destruct (enc_node l o parent s n) as [[b1 s1]|e] eqn:E1; [|discriminate].
    cbn [nodes_ok_e] in Hok. apply andb_true_iff in Hok as [Hok1 Hok2].
    destruct (Hn l o parent s b1 s1 HL Hc Hok1 E1) as (Hc1 & Hb1 & its1 & Hi1 & Hr1).
    match type of Henc with context [?g ch (reset_cur s1)] =>
      destruct (g ch (reset_cur s1)) as [[b2 s2]|e] eqn:E2; [|discriminate] end.
    injection Henc as <- <-.
    destruct (IH l o parent (reset_cur s1) b2 s2 HL Hc1 Hok2 E2) as (Hc2 & Hb2 & its2 & Hi2 & Hr2).
    split; [exact Hc2|]. split; [now rewrite forallb_app, Hb1, Hb2|]. exists (its1 ++ its2). split.
    + cbn [info_list_e]. rewrite Hi1. cbn [info_list_e] in Hi2. rewrite Hi2. reflexivity.
    + intros cur acc tail f x Hcur Hk.
      replace (seq_fuel (n :: ch) + f)%nat with (node_fuel n + (seq_fuel ch + f))%nat by (unfold seq_fuel; cbn [fold_right]; lia).
      rewrite <- app_assoc.
      apply (Hr1 cur acc (b2 ++ tail) (seq_fuel ch + f)%nat _ Hcur).
      intros cur2 acc2 Hcur2 Heq.
      apply (Hr2 cur2 acc2 tail f x Hcur2).
      intros cur3 acc3 Hcur3 Heq3. apply (Hk cur3 acc3 Hcur3). now rewrite fold_left_app, <- Heq, <- Heq3.
Qed.

Lemma node_main_e : forall n, node_main_e_stmt n.
Proof.
  induction n as [nm attrs ch IHch|t|ch _| |sl roots IHr] using node_ind2;
    intros l o parent s b s' HL Hc Hok Henc; try discriminate.
  - (* element *)
    rewrite (enc_elt_gen l o parent s nm attrs ch) in Henc.
    cbn [node_ok_e] in Hok.
    change ((fix go (cur0 : option trow) (ns : list node) {struct ns} : bool :=
               match ns with [] => true | x :: r => node_ok_e l o (pinfo_below parent nm) cur0 x && go None r end) (cur_of nm) ch)
      with (nodes_ok_e l o (pinfo_below parent nm) (cur_of nm) ch) in Hok.
    apply andb_true_iff in Hok as [Hok Hok4]. apply andb_true_iff in Hok as [Hok Hok3].
    apply andb_true_iff in Hok as [Hok1 Hok2].
    pose proof (elt_open_read_e l o parent nm attrs HL Hok1 Hok2 Hok3) as Hopen.
    pose proof (elt_open_bytes_e l o parent nm attrs HL Hok1 Hok2) as Bopen.
    pose proof (xml_name_bytes _ Hok1) as Bname.
    pose proof (sp_bytes _ (w0_sp o s)) as B0. pose proof (sp_bytes _ (nl_if_sp o)) as Bn.
    set (m := is_canonical o) in *.
    destruct ch as [|c0 ch0].
    + (* empty element *)
      assert (Hb : b = w0 o s ++ elt_open l o parent nm attrs ++ 47 :: 62 :: nl_if o) by congruence.
      assert (Hs' : s' = set_cur (cur_of nm) s) by congruence. subst b s'. clear Henc.
      split; [exact Hc|].
      split; [rewrite !forallb_app, B0, Bopen; cbn [forallb]; now rewrite Bn|].
      eexists. split; [reflexivity|].
      intros cur acc tail f x Hcur Hk.
      cbn [node_fuel fold_right].
      replace (escape m cur ++ (w0 o s ++ elt_open l o parent nm attrs ++ 47 :: 62 :: nl_if o) ++ tail)
        with (escape m (cur ++ w0 o s) ++ 60 :: (tname_bytes nm ++ xmlns_part l parent nm ++ parse_attributes l o attrs) ++ 47 :: 62 :: nl_if o ++ tail)
        by (rewrite escape_app; unfold m; rewrite esc_w0; unfold elt_open; repeat (rewrite <- app_assoc || rewrite <- app_comm_cons); reflexivity).
      replace (4 + 0 + f)%nat with (S (S (2 + f))) by lia.
      apply (flush_e m (cur ++ w0 o s) _ _ acc x); [now rewrite forallb_app, Hcur, B0|].
      change (60 :: (tname_bytes nm ++ xmlns_part l parent nm ++ parse_attributes l o attrs) ++ 47 :: 62 :: nl_if o ++ tail)
        with (elt_open l o parent nm attrs ++ 47 :: 62 :: nl_if o ++ tail).
      apply (Hopen 47 (62 :: nl_if o ++ tail) true (nl_if o ++ tail)); [right; auto|].
      replace (nl_if o ++ tail) with (escape m (nl_if o) ++ tail) by (unfold m; now rewrite esc_nl_if).
      eapply p_content_mono; [apply (Hk (nl_if o) _ Bn); reflexivity|lia].
    + (* element with content *)
      destruct (seq_nodes (enc_node l o (pinfo_below parent nm)) (c0 :: ch0) (s_in o (c0 :: ch0) nm s)) as [[b4 s4]|e] eqn:E4; [|discriminate].
      assert (Hb : b = w0 o s ++ elt_open l o parent nm attrs ++ 62 :: w1 o (c0 :: ch0) ++ b4 ++ w2 o (c0 :: ch0) s4 ++
                         60 :: 47 :: tname_bytes nm ++ 62 :: nl_if o) by congruence.
      assert (Hs' : s' = s_out o (c0 :: ch0) s4) by congruence. subst b s'. clear Henc.
      assert (Hcin : e_in_cdata (s_in o (c0 :: ch0) nm s) = false) by (unfold s_in; destruct (hc o (c0 :: ch0)); exact Hc).
      assert (Hcur0 : e_cur_tag (s_in o (c0 :: ch0) nm s) = cur_of nm) by (unfold s_in; destruct (hc o (c0 :: ch0)); reflexivity).
      rewrite <- Hcur0 in Hok4.
      destruct (seq_main_e (c0 :: ch0) IHch l o (pinfo_below parent nm) (s_in o (c0 :: ch0) nm s) b4 s4 HL Hcin Hok4 E4)
        as (Hc4 & Bb4 & its & Hinfo & Hseq).
      pose proof (seq_to_list_e _ _ _ _ Hseq) as Hread. fold m in Hread.
      pose proof (sp_bytes _ (w1_sp o (c0 :: ch0))) as B1. pose proof (sp_bytes _ (w2_sp o (c0 :: ch0) s4)) as B2.
      split; [exact Hc4|].
      split.
      { rewrite !forallb_app, B0, Bopen. cbn [forallb andb]. rewrite !forallb_app, B1, Bb4, B2. cbn [forallb andb].
        rewrite !forallb_app, Bname. cbn [forallb andb]. now rewrite Bn. }
      eexists. split.
      { cbn [info_e]. rewrite Hinfo. reflexivity. }
      intros cur acc tail f x Hcur Hk.
      replace (escape m cur ++ (w0 o s ++ elt_open l o parent nm attrs ++ 62 :: w1 o (c0 :: ch0) ++ b4 ++ w2 o (c0 :: ch0) s4 ++
                          60 :: 47 :: tname_bytes nm ++ 62 :: nl_if o) ++ tail)
        with (escape m (cur ++ w0 o s) ++ 60 :: (tname_bytes nm ++ xmlns_part l parent nm ++ parse_attributes l o attrs) ++
                  62 :: w1 o (c0 :: ch0) ++ b4 ++ w2 o (c0 :: ch0) s4 ++ 60 :: 47 :: tname_bytes nm ++ 62 :: nl_if o ++ tail)
        by (rewrite escape_app; unfold m; rewrite esc_w0; unfold elt_open; repeat (rewrite <- app_assoc || rewrite <- app_comm_cons); reflexivity).
      assert (Hnf : (node_fuel (Elt nm attrs (c0 :: ch0)) + f = S (S (list_fuel (c0 :: ch0) + f)))%nat)
        by (unfold list_fuel; cbn [node_fuel]; lia).
      rewrite Hnf.
      apply (flush_e m (cur ++ w0 o s) _ _ acc x); [now rewrite forallb_app, Hcur, B0|].
      change (60 :: (tname_bytes nm ++ xmlns_part l parent nm ++ parse_attributes l o attrs) ++
                 62 :: w1 o (c0 :: ch0) ++ b4 ++ w2 o (c0 :: ch0) s4 ++ 60 :: 47 :: tname_bytes nm ++ 62 :: nl_if o ++ tail)
        with (elt_open l o parent nm attrs ++ 62 :: w1 o (c0 :: ch0) ++ b4 ++ w2 o (c0 :: ch0) s4 ++ 60 :: 47 :: tname_bytes nm ++ 62 :: nl_if o ++ tail).
      apply (Hopen 62 (w1 o (c0 :: ch0) ++ b4 ++ w2 o (c0 :: ch0) s4 ++ 60 :: 47 :: tname_bytes nm ++ 62 :: nl_if o ++ tail) false
                   (w1 o (c0 :: ch0) ++ b4 ++ w2 o (c0 :: ch0) s4 ++ 60 :: 47 :: tname_bytes nm ++ 62 :: nl_if o ++ tail)); [left; auto|].
      pose proof (Hread (w1 o (c0 :: ch0)) (w2 o (c0 :: ch0) s4) [] (tname_bytes nm ++ 62 :: nl_if o ++ tail) f B1 B2 (esc_w2 o _ s4)) as HR.
      unfold m in HR. rewrite (esc_w1 o (c0 :: ch0)) in HR. fold m in HR. rewrite HR.
      rewrite (p_name_app _ 62 (nl_if o ++ tail) Hok1 eq_refl), bytes_eqb_refl. cbn [skip_ws is_ws].
      change (62 =? 32) with false. change (62 =? 9) with false. change (62 =? 10) with false. change (62 =? 13) with false.
      cbn [orb]. change (62 =? 62) with true. cbn match.
      replace (nl_if o ++ tail) with (escape m (nl_if o) ++ tail) by (unfold m; now rewrite esc_nl_if).
      eapply p_content_mono; [apply (Hk (nl_if o) _ Bn); reflexivity|lia].
  - (* text *)
    cbn [node_ok_e] in Hok.
    rewrite (text_tag_ext (mk_est 0 false false (e_cur_tag s)) s parent) in Hok by reflexivity.
    cbn [enc_node] in Henc. unfold parse_text in Henc. cbn [info_e]. unfold text_item_e.
    destruct (tag_is_binary (text_tag s parent)) eqn:EB.
    + apply andb_true_iff in Hok as [Hok1 Hok2]. apply negb_true_iff in Hok2.
      assert (EP : text_policy o parent s t = Some t) by (unfold text_policy; rewrite Hc, EB; reflexivity).
      rewrite EP in *. unfold xml_encode_text in Henc. rewrite Hc, EB in Henc.
      rewrite (rewrite_not_type l _ t Hok2) in *.
      destruct (b64_enc t) as [e|] eqn:E64; [|discriminate]. injection Henc as <- <-.
      pose proof (b64_chars_ok o t e Hok1 E64) as Hch. unfold chars_ok in Hch. apply andb_true_iff in Hch as [Hbe _].
      split; [reflexivity|]. split; [now apply escape_xml_bytes|]. rewrite Hc. eexists. split; [reflexivity|].
      intros cur acc tail f x Hcur Hk. cbn [node_fuel Nat.add].
      rewrite app_assoc, <- escape_app. apply (Hk (cur ++ e) acc); [now rewrite forallb_app, Hcur, Hbe|reflexivity].
    + destruct (text_policy o parent s t) as [c|] eqn:EP.
      * unfold xml_encode_text in Henc. rewrite Hc, EB in Henc. injection Henc as <- <-.
        pose proof (xmlb_rewrite l (e_cur_tag s) c (xmlb_policy o parent s t c Hok EP)) as Hbe.
        split; [reflexivity|]. split; [now apply escape_xml_bytes|]. rewrite Hc. eexists. split; [reflexivity|].
        intros cur acc tail f x Hcur Hk. cbn [node_fuel Nat.add].
        rewrite app_assoc, <- escape_app. apply (Hk (cur ++ _) acc); [now rewrite forallb_app, Hcur, Hbe|reflexivity].
      * injection Henc as <- <-. split; [exact Hc|]. split; [reflexivity|]. eexists. split; [reflexivity|].
        intros cur acc tail f x Hcur Hk. cbn [node_fuel Nat.add app].
        apply (Hk cur acc Hcur). reflexivity.
  - (* CDATA node *)
    cbn [node_ok_e] in Hok. destruct ch as [|[| t | | |] [|c1 ch1]]; try discriminate.
    + cbn [enc_node seq_nodes] in Henc. injection Henc as <- <-.
      split; [reflexivity|]. split; [reflexivity|]. eexists. split; [reflexivity|].
      intros cur acc tail f x Hcur Hk. cbn [node_fuel fold_right Nat.add].
      replace (escape (is_canonical o) cur ++ (s_cdata_open ++ [] ++ s_cdata_close) ++ tail)
        with (escape (is_canonical o) cur ++ 60 :: 33 :: s_cdata_tail ++ split_cdata_end [] ++ 93 :: 93 :: 62 :: tail) by reflexivity.
      change (2 + 0 + f)%nat with (S (1 + f)).
      apply (flush_e _ cur _ _ acc x Hcur).
      apply (cdata_read_e 0 [] (le_n _) eq_refl).
      apply (Hk [] _ eq_refl). reflexivity.
    + cbn [enc_node seq_nodes] in Henc. unfold parse_text, text_policy, xml_encode_text in Henc.
      cbn [set_cdata e_in_cdata negb andb] in Henc.
      match type of Henc with XOk (?bb, ?ss) = _ => assert (Hb' : b = bb) by congruence; assert (Hs' : s' = ss) by congruence end.
      subst b s'. clear Henc.
      split; [reflexivity|].
      split; [rewrite !forallb_app, (split_bytes t Hok); reflexivity|].
      eexists. split; [reflexivity|].
      intros cur acc tail f x Hcur Hk. cbn [node_fuel fold_right].
      replace (escape (is_canonical o) cur ++ (s_cdata_open ++ (split_cdata_end t ++ []) ++ s_cdata_close) ++ tail)
        with (escape (is_canonical o) cur ++ 60 :: 33 :: s_cdata_tail ++ split_cdata_end t ++ 93 :: 93 :: 62 :: tail)
        by (rewrite app_nil_r; unfold s_cdata_open, s_cdata_close; repeat (rewrite <- app_assoc || rewrite <- app_comm_cons); reflexivity).
      replace (2 + (length t + 0) + f)%nat with (S (S (length t) + f)) by lia.
      apply (flush_e _ cur _ _ acc x Hcur).
      apply (cdata_read_e (length t) t (le_n _) Hok).
      apply (Hk [] _ eq_refl). reflexivity.
  - (* embedded document *)
    cbn [node_ok_e] in Hok. destruct sl as [l'|]; [|discriminate]. apply andb_true_iff in Hok as [HL' Hok].
    change ((fix go (cur0 : option trow) (ns : list node) {struct ns} : bool :=
               match ns with [] => true | x :: r => node_ok_e l' o proot cur0 x && go None r end) None roots)
      with (nodes_ok_e l' o proot None roots) in Hok.
    cbn [enc_node] in Henc.
    destruct (seq_nodes (enc_node l' o proot) roots (est0 (e_indent s))) as [[b0 s0]|e] eqn:E0; [|discriminate].
    injection Henc as <- <-.
    destruct (seq_main_e roots IHr l' o proot (est0 (e_indent s)) b0 s0 HL' eq_refl Hok E0) as (_ & Bb0 & its & Hinfo & Hseq).
    rewrite (cstr_xml b0 Bb0).
    split; [exact Hc|]. split; [exact Bb0|]. exists its. split.
    { cbn [info_e]. rewrite Hinfo. reflexivity. }
    intros cur acc tail f x Hcur Hk. cbn [node_fuel]. exact (Hseq cur acc tail f x Hcur Hk).
Qed.

(* ------------------------------------------------------------------ *)
(* 7. whole documents                                                   *)

Lemma info_e_elt_shape l o parent s nm attrs ch its s' :
  info_e l o parent s (Elt nm attrs ch) = Some (its, s') ->
  exists c, its = [SR (w0 o s); SE (tname_bytes nm) (spec_attrs_e l o parent nm attrs) c; SR (nl_if o)].
Proof.
  cbn [info_e]. destruct ch as [|c0 ch0].
  - intros E. injection E as <- _. eauto.
  - destruct (info_list_e _ _ _) as [[its4 s4]|]; [|discriminate]. intros E. injection E as <- _. eauto.
Qed.

(* THE READER INVERTS THE GENERATOR for every tree that satisfies the property's hypotheses (node_ok_e), in every
   generation mode, indent width and white-space setting: the document is accepted, carries the language's
   DOCTYPE, and its root element is the one info_e specifies — character data with XML's line-end normalisation
   applied where the generator writes CR raw, attribute values with XML's attribute-value normalisation. *)
Theorem read_enc_e l o nm attrs ch out :
  lang_ok l = true ->
  node_ok_e l o proot None (Elt nm attrs ch) = true ->
  enc_xml_opts l o [Elt nm attrs ch] = XOk out ->
  exists c s',
    info_e l o proot (est0 0) (Elt nm attrs ch) =
      Some ([SR []; SE (tname_bytes nm) (spec_attrs_e l o proot nm attrs) c; SR (nl_if o)], s') /\
    forall fuel, (node_fuel (Elt nm attrs ch) + 2 <= fuel)%nat ->
      read_xml fuel out = ROk (doc_of l [XE (tname_bytes nm) (spec_attrs_e l o proot nm attrs) c]).
Proof.
  intros HL Hok Henc. unfold enc_xml_opts, enc_nodes in Henc. cbn [seq_nodes] in Henc.
  destruct (enc_node l o proot (est0 0) (Elt nm attrs ch)) as [[b s1]|e] eqn:E; [|discriminate].
  assert (Hout : out = xml_header l o ++ b ++ []) by congruence. subst out. clear Henc.
  destruct (node_main_e (Elt nm attrs ch) l o proot (est0 0) b s1 HL eq_refl Hok E) as (_ & _ & its & Hinfo & Hread).
  destruct (info_e_elt_shape _ _ _ _ _ _ _ _ _ Hinfo) as (c & Eits). rewrite w0_root in Eits. subst its.
  exists c, s1. split; [exact Hinfo|]. intros fuel Hfuel.
  rewrite app_nil_r. rewrite (header_read_g l o fuel b HL).
  assert (Hb : exists c1 rb, b = 60 :: c1 :: rb /\ is_name_start c1 = true).
  { rewrite (enc_elt_gen l o proot (est0 0) nm attrs ch) in E. rewrite w0_root in E.
    cbn [node_ok_e] in Hok. apply andb_true_iff in Hok as [Hok _]. apply andb_true_iff in Hok as [Hok _].
    apply andb_true_iff in Hok as [Hok _]. destruct (name_not_special _ Hok) as (c1 & rn & En & Hs).
    destruct ch as [|c0 ch0].
    - injection E as <- _. unfold elt_open. rewrite En. cbn [app]. eauto.
    - destruct (seq_nodes _ _ _) as [[b4 s4]|]; [|discriminate].
      injection E as <- _. unfold elt_open. rewrite En. cbn [app]. eauto. }
  destruct Hb as (c1 & rb & Eb & Hs1).
  assert (Hskip : skip_ws b = b) by (rewrite Eb; reflexivity). rewrite Hskip.
  unfold p_root. rewrite Eb, Hs1. rewrite <- Eb.
  replace fuel with (node_fuel (Elt nm attrs ch) + (fuel - node_fuel (Elt nm attrs ch)))%nat by lia.
  pose proof (Hread [] [] [60; 47] (fuel - node_fuel (Elt nm attrs ch))%nat
                    (rev (push_text (nl_if o) [XE (tname_bytes nm) (spec_attrs_e l o proot nm attrs) c]), []) eq_refl) as HR.
  cbn [app escape flat_map] in HR. rewrite HR.
  - unfold nl_if. destruct (is_indent o); reflexivity.
  - intros cur2 acc2 Hc2 Heq. cbn [fold_left step app] in Heq. injection Heq as -> ->.
    destruct (fuel - node_fuel (Elt nm attrs ch))%nat as [|[|f2]] eqn:Ef; [lia|lia|].
    apply (flush_e (is_canonical o) (nl_if o) (S f2) [47] _ _ Hc2). cbn [p_content]. cbn.
    unfold rd, nl_if. destruct (is_canonical o), (is_indent o); reflexivity.
Qed.
