(* C08 — the regenerated tables form a consistent, self-inverse code.
   (1) generic lemmas about the lookups of Model/Tables.v (any table);
   (2) soundness of the boolean checkers of Model/TablesCheck.v (any language entry);
   (3) the computation over Gen/TablesData.v: vm_compute, lifted with forallb_forall. *)
From Coq Require Import List NArith String Bool.
From Wbxml Require Import Model.TablesDefs Model.Tables Model.RegistryCheck Model.TablesCheck Gen.TablesData
     Proofs.RegistryProofs.
Import ListNotations.
Local Open Scope N_scope.

(* ------------------------------------------------------------------ (1) generic lemmas *)

Lemma scan_found : forall A (tbl : option (list A)) hit r,
  scan tbl hit = Found r -> In r (opt_list tbl) /\ hit r = true.
Proof.
  intros A [rows|] hit r H; cbn in H; try discriminate.
  destruct (find hit rows) as [x|] eqn:E; try discriminate.
  injection H as ->. cbn. exact (find_some _ _ E).
Qed.

Lemma tag_of_token_found : forall l p t r,
  tag_of_token l p t = Found r -> In r (opt_list (l_tags l)) /\ t_tok r = t /\ t_page r = p.
Proof.
  intros l p t r H. apply scan_found in H. destruct H as [Hin H].
  apply andb_true_iff in H. destruct H as [H1 H2]. apply N.eqb_eq in H1, H2. auto.
Qed.

Lemma attr_of_token_found : forall l p t r,
  attr_of_token l p t = Found r -> In r (opt_list (l_attrs l)) /\ a_tok r = t /\ a_page r = p.
Proof.
  intros l p t r H. apply scan_found in H. destruct H as [Hin H].
  apply andb_true_iff in H. destruct H as [H1 H2]. apply N.eqb_eq in H1, H2. auto.
Qed.

Lemma val_of_token_found : forall l p t r,
  val_of_token l p t = Found r -> In r (opt_list (l_vals l)) /\ v_tok r = t /\ v_page r = p.
Proof.
  intros l p t r H. apply scan_found in H. destruct H as [Hin H].
  apply andb_true_iff in H. destruct H as [H1 H2]. apply N.eqb_eq in H1, H2. auto.
Qed.

Lemma ext_of_token_found : forall l v r,
  ext_of_token l v = Found r -> In r (opt_list (l_exts l)) /\ e_tok r = v.
Proof.
  intros l v r H. apply scan_found in H. destruct H as [Hin H]. apply N.eqb_eq in H. auto.
Qed.

(* a current code page that holds no row of this name does not influence the answer *)
Lemma tag_pass1_none : forall rows c name fc,
  existsb (fun e => (t_page e =? c) && streq (t_name e) name) rows = false ->
  tag_pass1 rows c name fc = None.
Proof.
  induction rows as [|e rest IH]; intros c name fc H; cbn in *; [reflexivity|].
  apply orb_false_iff in H. destruct H as [H1 H2].
  destruct (t_page e =? c) eqn:Ep; cbn in H1.
  - rewrite H1. now apply IH.
  - destruct fc; [reflexivity | now apply IH].
Qed.

Lemma tag_pass2_other : forall rows c name,
  existsb (fun e => (t_page e =? c) && streq (t_name e) name) rows = false ->
  tag_pass2 rows (Some c) name = tag_pass2 rows None name.
Proof.
  unfold tag_pass2. induction rows as [|e rest IH]; intros c name H; cbn in *; [reflexivity|].
  apply orb_false_iff in H. destruct H as [H1 H2].
  destruct (t_page e =? c) eqn:Ep; cbn in *.
  - rewrite H1. now apply IH.
  - destruct (streq (t_name e) name); [reflexivity | now apply IH].
Qed.

Lemma tag_from_xml_other_page : forall l c name,
  existsb (fun e => (t_page e =? c) && streq (t_name e) name) (opt_list (l_tags l)) = false ->
  tag_from_xml l (Some c) name = tag_from_xml l None name.
Proof.
  intros l c name H. unfold tag_from_xml. destruct (l_tags l) as [rows|]; [|reflexivity]. cbn in H.
  rewrite (tag_pass1_none _ _ _ false H). now apply tag_pass2_other.
Qed.

Lemma is_global_false : forall t, is_global t = false -> ~ In t global_tokens.
Proof.
  intros t H Hin. unfold is_global in H.
  assert (existsb (N.eqb t) global_tokens = true) as E.
  { apply existsb_exists. exists t. split; [assumption | apply N.eqb_refl]. }
  congruence.
Qed.

(* ------------------------------------------------------------------ (2) Prop forms and soundness *)

Ltac b2p :=
  repeat match goal with
  | H : _ && _ = true |- _ => apply andb_true_iff in H; destruct H
  | H : N.eqb _ _ = true |- _ => apply N.eqb_eq in H
  | H : N.leb _ _ = true |- _ => apply N.leb_le in H
  | H : N.ltb _ _ = true |- _ => apply N.ltb_lt in H
  | H : String.eqb _ _ = true |- _ => apply String.eqb_eq in H
  | H : ostr_eqb _ _ = true |- _ => apply ostr_eqb_eq in H
  | H : on_eqb _ _ = true |- _ => apply on_eqb_eq in H
  | H : negb _ = true |- _ => apply negb_true_iff in H
  end.

Definition tag_range_P (r : tag_row) : Prop :=
  5 <= t_tok r <= 63 /\ N.land (t_tok r) WBXML_TOKEN_MASK = t_tok r /\ ~ In (t_tok r) global_tokens /\ t_page r < 256.
Definition attr_range_P (r : attr_row) : Prop :=
  5 <= a_tok r <= 127 /\ ~ In (a_tok r) global_tokens /\ a_page r < 256.
Definition val_range_P (r : val_row) : Prop :=
  133 <= v_tok r <= 255 /\ ~ In (v_tok r) global_tokens /\ v_page r < 256.

Definition ranges_P (l : lang) : Prop :=
  (forall r, In r (opt_list (l_tags l)) -> tag_range_P r) /\
  (forall r, In r (opt_list (l_attrs l)) -> attr_range_P r) /\
  (forall r, In r (opt_list (l_vals l)) -> val_range_P r) /\
  (forall r, In r (opt_list (l_exts l)) -> e_tok r < 256) /\
  N.of_nat (List.length (opt_list (l_exts l))) < 256.

Lemma ranges_ok_sound : forall l, ranges_ok l = true -> ranges_P l.
Proof.
  unfold ranges_ok, ranges_P. intros l H. b2p.
  split; [|split; [|split; [|split]]]; try assumption.
  - intros r Hin. pose proof (proj1 (forallb_forall _ _) H r Hin) as Hr. unfold tag_row_range in Hr. b2p.
    unfold tag_range_P. replace (N.land (t_tok r) WBXML_TOKEN_MASK) with (t_tok r) in * by congruence.
    repeat split; try assumption. now apply is_global_false.
  - intros r Hin. pose proof (proj1 (forallb_forall _ _) H3 r Hin) as Hr. unfold attr_row_range in Hr. b2p.
    unfold attr_range_P. repeat split; try assumption. now apply is_global_false.
  - intros r Hin. pose proof (proj1 (forallb_forall _ _) H2 r Hin) as Hr. unfold val_row_range in Hr. b2p.
    unfold val_range_P. repeat split; try assumption. now apply is_global_false.
  - intros r Hin. pose proof (proj1 (forallb_forall _ _) H1 r Hin) as Hr. unfold ext_row_range in Hr. now b2p.
Qed.

(* tags *)
Definition tag_dec_enc_P (l : lang) : Prop :=
  forall p t r, tag_of_token l p t = Found r ->
    exists r2, tag_from_xml l (Some p) (t_name r) = Some r2 /\ t_page r2 = p /\ t_tok r2 = t.

Definition tag_enc_dec_P (l : lang) : Prop :=
  forall r, In r (opt_list (l_tags l)) -> forall cur,
    exists r' r'', tag_from_xml l cur (t_name r) = Some r' /\
                   tag_of_token l (t_page r') (t_tok r') = Found r'' /\
                   (t_name r'' = t_name r \/ In (t_page r', t_tok r', t_name r'', t_name r) known_tag_aliases).

Lemma tag_dec_enc_sound : forall l,
  forallb (tag_dec_enc_row l) (opt_list (l_tags l)) = true -> tag_dec_enc_P l.
Proof.
  intros l H p t r Hf. destruct (tag_of_token_found _ _ _ _ Hf) as [Hin [Ht Hp]].
  pose proof (proj1 (forallb_forall _ _) H r Hin) as Hr. unfold tag_dec_enc_row in Hr.
  rewrite Ht, Hp, Hf in Hr.
  destruct (tag_from_xml l (Some p) (t_name r)) as [r2|]; try discriminate. b2p.
  exists r2. auto.
Qed.

Lemma alias_eqb_eq : forall a b, alias_eqb a b = true -> a = b.
Proof.
  intros [[[p t] n] m] [[[p' t'] n'] m'] H. cbn in H. b2p. congruence.
Qed.

Lemma tag_enc_dec_at_sound : forall l r cur, tag_enc_dec_at l r cur = true ->
  exists r' r'', tag_from_xml l cur (t_name r) = Some r' /\
                 tag_of_token l (t_page r') (t_tok r') = Found r'' /\
                 (t_name r'' = t_name r \/ In (t_page r', t_tok r', t_name r'', t_name r) known_tag_aliases).
Proof.
  unfold tag_enc_dec_at. intros l r cur H.
  destruct (tag_from_xml l cur (t_name r)) as [r'|]; try discriminate.
  destruct (tag_of_token l (t_page r') (t_tok r')) as [| |r''] eqn:E; try discriminate.
  exists r', r''. split; [reflexivity|]. split; [exact E|].
  apply orb_true_iff in H. destruct H as [H|H].
  - left. now apply String.eqb_eq.
  - right. apply existsb_exists in H. destruct H as [x [Hin Hx]]. apply alias_eqb_eq in Hx. now subst.
Qed.

Lemma tag_enc_dec_sound : forall l,
  forallb (tag_enc_dec_row l) (opt_list (l_tags l)) = true -> tag_enc_dec_P l.
Proof.
  intros l H r Hin cur.
  pose proof (proj1 (forallb_forall _ _) H r Hin) as Hr. unfold tag_enc_dec_row in Hr.
  apply andb_true_iff in Hr. destruct Hr as [Hnone Hown].
  destruct cur as [c|]; [|now apply tag_enc_dec_at_sound].
  destruct (existsb (fun e => (t_page e =? c) && streq (t_name e) (t_name r)) (opt_list (l_tags l))) eqn:E.
  - apply existsb_exists in E. destruct E as [e [Hine He]]. apply andb_true_iff in He. destruct He as [Hp Hn].
    apply N.eqb_eq in Hp. apply String.eqb_eq in Hn.
    pose proof (proj1 (forallb_forall _ _) H e Hine) as Hr'. unfold tag_enc_dec_row in Hr'.
    apply andb_true_iff in Hr'. destruct Hr' as [_ Hown'].
    apply tag_enc_dec_at_sound in Hown'. rewrite Hp, Hn in Hown'. exact Hown'.
  - rewrite (tag_from_xml_other_page _ _ _ E). now apply tag_enc_dec_at_sound.
Qed.

(* attribute starts *)
Definition attr_dec_enc_P (l : lang) : Prop :=
  forall p t r, attr_of_token l p t = Found r ->
    exists r2 r3, attr_from_xml l (a_name r) (a_value r) = (Some r2, None) /\ a_tok r2 = t /\
                  attr_of_token l (a_page r2) (a_tok r2) = Found r3 /\ a_name r3 = a_name r /\ a_value r3 = a_value r.

Definition attr_enc_dec_P (l : lang) : Prop :=
  forall r, In r (opt_list (l_attrs l)) ->
    exists r' r'', attr_from_xml l (a_name r) (a_value r) = (Some r', None) /\
                   attr_of_token l (a_page r') (a_tok r') = Found r'' /\ a_name r'' = a_name r /\ a_value r'' = a_value r.

Lemma attr_dec_enc_sound : forall l,
  forallb (attr_dec_enc_row l) (opt_list (l_attrs l)) = true -> attr_dec_enc_P l.
Proof.
  intros l H p t r Hf. destruct (attr_of_token_found _ _ _ _ Hf) as [Hin [Ht Hp]].
  pose proof (proj1 (forallb_forall _ _) H r Hin) as Hr. unfold attr_dec_enc_row in Hr.
  rewrite Ht, Hp, Hf in Hr.
  destruct (attr_from_xml l (a_name r) (a_value r)) as [[r2|] [lft|]]; try discriminate.
  apply andb_true_iff in Hr. destruct Hr as [Hr1 Hr2].
  destruct (attr_of_token l (a_page r2) (a_tok r2)) as [| |r3] eqn:E3; try discriminate. b2p.
  exists r2, r3. auto.
Qed.

Lemma attr_enc_dec_sound : forall l,
  forallb (attr_enc_dec_row l) (opt_list (l_attrs l)) = true -> attr_enc_dec_P l.
Proof.
  intros l H r Hin.
  pose proof (proj1 (forallb_forall _ _) H r Hin) as Hr. unfold attr_enc_dec_row in Hr.
  destruct (attr_from_xml l (a_name r) (a_value r)) as [[r'|] [lft|]]; try discriminate.
  destruct (attr_of_token l (a_page r') (a_tok r')) as [| |r''] eqn:E; try discriminate. b2p.
  exists r', r''. auto.
Qed.

(* attribute values *)
Definition val_dec_enc_P (l : lang) : Prop :=
  forall p t r, val_of_token l p t = Found r ->
    exists r2, val_first_in l (v_name r) = Some r2 /\ v_name r2 = v_name r /\ v_tok r2 = t.

Definition val_enc_dec_P (l : lang) : Prop :=
  forall r, In r (opt_list (l_vals l)) ->
    contains_attr_value l (v_name r) = true /\
    exists r' r'', val_first_in l (v_name r) = Some r' /\
                   val_of_token l (v_page r') (v_tok r') = Found r'' /\ v_name r'' = v_name r.

Lemma val_dec_enc_sound : forall l,
  forallb (val_dec_enc_row l) (opt_list (l_vals l)) = true -> val_dec_enc_P l.
Proof.
  intros l H p t r Hf. destruct (val_of_token_found _ _ _ _ Hf) as [Hin [Ht Hp]].
  pose proof (proj1 (forallb_forall _ _) H r Hin) as Hr. unfold val_dec_enc_row in Hr.
  rewrite Ht, Hp, Hf in Hr.
  destruct (val_first_in l (v_name r)) as [r2|]; try discriminate. b2p.
  exists r2. auto.
Qed.

Lemma val_enc_dec_sound : forall l,
  forallb (val_enc_dec_row l) (opt_list (l_vals l)) = true -> val_enc_dec_P l.
Proof.
  intros l H r Hin.
  pose proof (proj1 (forallb_forall _ _) H r Hin) as Hr. unfold val_enc_dec_row in Hr.
  apply andb_true_iff in Hr. destruct Hr as [Hr Hc]. split; [assumption|].
  destruct (val_first_in l (v_name r)) as [r'|]; try discriminate.
  destruct (val_of_token l (v_page r') (v_tok r')) as [| |r''] eqn:E; try discriminate. b2p.
  exists r', r''. auto.
Qed.

(* extension values *)
Definition ext_dec_enc_P (l : lang) : Prop :=
  forall v r, ext_of_token l v = Found r ->
    exists r2, ext_from_xml l (e_name r) = Some r2 /\
               (e_tok r2 = v \/ In (e_name r, e_tok r2, v) known_ext_synonyms).

Definition ext_enc_dec_P (l : lang) : Prop :=
  forall r, In r (opt_list (l_exts l)) ->
    exists r' r'', ext_from_xml l (e_name r) = Some r' /\ ext_of_token l (e_tok r') = Found r'' /\ e_name r'' = e_name r.

Lemma syn_eqb_eq : forall a b, syn_eqb a b = true -> a = b.
Proof.
  intros [[n t] u] [[n' t'] u'] H. cbn in H. b2p. congruence.
Qed.

Lemma ext_dec_enc_sound : forall l,
  forallb (ext_dec_enc_row l) (opt_list (l_exts l)) = true -> ext_dec_enc_P l.
Proof.
  intros l H v r Hf. destruct (ext_of_token_found _ _ _ Hf) as [Hin Ht].
  pose proof (proj1 (forallb_forall _ _) H r Hin) as Hr. unfold ext_dec_enc_row in Hr.
  rewrite Ht, Hf in Hr.
  destruct (ext_from_xml l (e_name r)) as [r2|]; try discriminate.
  exists r2. split; [reflexivity|].
  apply orb_true_iff in Hr. destruct Hr as [Hr|Hr].
  - left. now apply N.eqb_eq.
  - right. apply existsb_exists in Hr. destruct Hr as [x [Hinx Hx]]. apply syn_eqb_eq in Hx. now subst.
Qed.

Lemma ext_enc_dec_sound : forall l,
  forallb (ext_enc_dec_row l) (opt_list (l_exts l)) = true -> ext_enc_dec_P l.
Proof.
  intros l H r Hin.
  pose proof (proj1 (forallb_forall _ _) H r Hin) as Hr. unfold ext_enc_dec_row in Hr.
  destruct (ext_from_xml l (e_name r)) as [r'|]; try discriminate.
  destruct (ext_of_token l (e_tok r')) as [| |r''] eqn:E; try discriminate. b2p.
  exists r', r''. auto.
Qed.

(* namespaces *)
Definition ns_bij_P (l : lang) : Prop :=
  (forall r, In r (opt_list (l_ns l)) ->
     xmlns_of_page l (ns_page r) = Some (ns_name r) /\ page_of_xmlns_opt l (ns_name r) = Some (ns_page r) /\ ns_page r < 256) /\
  (forall p ns, xmlns_of_page l p = Some ns -> page_of_xmlns_opt l ns = Some p) /\
  (forall p ns, page_of_xmlns_opt l ns = Some p -> xmlns_of_page l p = Some ns) /\
  (l_ns l <> None -> forall r, In r (opt_list (l_tags l)) -> exists ns, xmlns_of_page l (t_page r) = Some ns).

Lemma ns_rows_sound : forall l, forallb (ns_row_bij l) (opt_list (l_ns l)) = true ->
  forall r, In r (opt_list (l_ns l)) ->
     xmlns_of_page l (ns_page r) = Some (ns_name r) /\ page_of_xmlns_opt l (ns_name r) = Some (ns_page r) /\ ns_page r < 256.
Proof.
  intros l H r Hin. pose proof (proj1 (forallb_forall _ _) H r Hin) as Hr. unfold ns_row_bij in Hr. b2p. auto.
Qed.

Lemma ns_bij_sound : forall l,
  forallb (ns_row_bij l) (opt_list (l_ns l)) = true -> tag_pages_have_ns l = true -> ns_bij_P l.
Proof.
  intros l H Hp. pose proof (ns_rows_sound l H) as Hrows.
  split; [exact Hrows|]. split; [|split].
  - intros p ns Hx. unfold xmlns_of_page in Hx. destruct (l_ns l) as [rows|] eqn:En; try discriminate.
    destruct (find (fun r => ns_page r =? p) rows) as [r|] eqn:Ef; try discriminate.
    cbn in Hx. injection Hx as <-. destruct (find_some _ _ Ef) as [Hin Hpg]. apply N.eqb_eq in Hpg.
    destruct (Hrows r Hin) as [_ [Hb _]]. now rewrite <- Hpg.
  - intros p ns Hx. unfold page_of_xmlns_opt in Hx. destruct (l_ns l) as [rows|] eqn:En; try discriminate.
    destruct (find (fun r => streq (ns_name r) ns) rows) as [r|] eqn:Ef; try discriminate.
    cbn in Hx. injection Hx as <-. destruct (find_some _ _ Ef) as [Hin Hn]. apply String.eqb_eq in Hn.
    destruct (Hrows r Hin) as [Ha _]. now rewrite <- Hn.
  - intros Hne r Hin. unfold tag_pages_have_ns in Hp. destruct (l_ns l) as [rows|] eqn:En; [|congruence].
    assert (In (t_page r) (tag_pages l)) as Hpg.
    { unfold tag_pages. apply nodup_In. now apply in_map. }
    pose proof (proj1 (forallb_forall _ _) Hp _ Hpg) as Hx. cbn in Hx.
    destruct (xmlns_of_page l (t_page r)) as [ns|] eqn:Ex; try discriminate. now exists ns.
Qed.

Definition self_inverse_P (l : lang) : Prop :=
  tag_dec_enc_P l /\ tag_enc_dec_P l /\ attr_dec_enc_P l /\ attr_enc_dec_P l /\
  val_dec_enc_P l /\ val_enc_dec_P l /\ ext_dec_enc_P l /\ ext_enc_dec_P l /\ ns_bij_P l.

Lemma self_inverse_ok_sound : forall l, self_inverse_ok l = true -> self_inverse_P l.
Proof.
  unfold self_inverse_ok, self_inverse_P. intros l H.
  repeat (apply andb_true_iff in H; destruct H as [H ?]).
  split; [now apply tag_dec_enc_sound|]. split; [now apply tag_enc_dec_sound|].
  split; [now apply attr_dec_enc_sound|]. split; [now apply attr_enc_dec_sound|].
  split; [now apply val_dec_enc_sound|]. split; [now apply val_enc_dec_sound|].
  split; [now apply ext_dec_enc_sound|]. split; [now apply ext_enc_dec_sound|].
  now apply ns_bij_sound.
Qed.

(* ------------------------------------------------------------------ (3) the computation *)

Lemma tables_ok_main : forallb tables_ok main_table = true.
Proof. vm_compute. reflexivity. Qed.

Lemma tables_ok_each : forall l, In l main_table -> tables_ok l = true.
Proof. exact (proj1 (forallb_forall _ _) tables_ok_main). Qed.

Lemma main_ranges : forall l, In l main_table -> ranges_P l.
Proof.
  intros l Hin. pose proof (tables_ok_each l Hin) as H. unfold tables_ok in H.
  apply andb_true_iff in H. destruct H as [H _]. now apply ranges_ok_sound.
Qed.

Lemma main_self_inverse : forall l, In l main_table -> self_inverse_P l.
Proof.
  intros l Hin. pose proof (tables_ok_each l Hin) as H. unfold tables_ok in H.
  apply andb_true_iff in H. destruct H as [_ H]. now apply self_inverse_ok_sound.
Qed.

(* the pinned alias / synonym lists are not larger than needed: each entry is realised *)
Lemma aliases_realised :
  forallb (fun a => let '(p, t, n, m) := a in
     existsb (fun l => match tag_of_token l p t with Found r => String.eqb (t_name r) n | _ => false end &&
                       existsb (fun r => (t_page r =? p) && (t_tok r =? t) && String.eqb (t_name r) m) (opt_list (l_tags l))) main_table)
    known_tag_aliases = true /\
  forallb (fun a => let '(n, t, u) := a in
     existsb (fun l => match ext_of_token l t, ext_of_token l u with
                       | Found r, Found r' => String.eqb (e_name r) n && String.eqb (e_name r') n
                       | _, _ => false end) main_table)
    known_ext_synonyms = true.
Proof. split; vm_compute; reflexivity. Qed.
