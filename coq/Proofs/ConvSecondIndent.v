(* C03 (second iteration, INDENTED generation, encoder keep_ws off) — the white space that indented generation inserts
   between markup is dropped or trimmed by the next XML -> WBXML conversion: the front-end tree of the indented XML and
   the front-end tree of the compact XML have the same normal form (via C07's reading theorem: equal modulo blank text
   between markup, nb), so the second trip reproduces the indented XML byte for byte. *)
From Coq Require Import String Ascii.
From Coq Require Import List NArith ZArith Lia Bool.
From Wbxml Require Import Model.Codec Model.TablesDefs Model.Parser Model.TreeBuild Model.TreeConv Model.Conv Model.ConvConcrete
     Proofs.TreeBuildProofs Proofs.TreeBuildProofs3 Proofs.TreeRoundTrip Proofs.ConvRoundTrip Proofs.ConvSecondIter Proofs.ConvFirstToSecond.
From Wbxml Require Model.EncWbxml Model.TreeNorm Proofs.TreeNormProofs Proofs.EncWbxmlProofs Proofs.EncWbxmlSerialize Proofs.EncWbxmlDenote.
From Wbxml Require Model.EncXml Model.XmlRead Proofs.EncXmlProofs Proofs.EncXmlIndent.
From Wbxml Require Model.XmlFront Model.ConvXml2Wbxml Proofs.FrontSimple.
Import ListNotations.
Local Open Scope N_scope.

(* ---- white space: XML's (is_ws) is part of the C's isspace; padding does not change what norm makes of a text ---- *)
Lemma is_ws_isspace c : XR.is_ws c = true -> E.isspace c = true.
Proof.
  unfold XR.is_ws, E.isspace. intros H. repeat (apply orb_true_iff in H; destruct H as [H|H]); apply N.eqb_eq in H; subst; reflexivity.
Qed.

Lemma allws_only_ws a : XI.allws a = true -> E.only_ws a = true.
Proof.
  unfold XI.allws, E.only_ws. induction a as [|c r IH]; [reflexivity|]. cbn [forallb]. intros H. apply andb_prop in H. destruct H as [H1 H2].
  rewrite (is_ws_isspace c H1), (IH H2). reflexivity.
Qed.

Lemma dropw_decomp s : exists a, s = a ++ XI.dropw s /\ XI.allws a = true.
Proof.
  induction s as [|c r IH]; [exists []; split; reflexivity|]. cbn [XI.dropw]. destruct (XR.is_ws c) eqn:Ec.
  - destruct IH as (a & Ea & Ha). exists (c :: a). split; [cbn [app]; f_equal; exact Ea|]. unfold XI.allws in *. cbn [forallb]. rewrite Ec, Ha. reflexivity.
  - exists []. split; reflexivity.
Qed.

Lemma allws_rev a : XI.allws a = true -> XI.allws (rev a) = true.
Proof. unfold XI.allws. intros H. apply forallb_forall. intros x Hx. apply in_rev in Hx. rewrite forallb_forall in H. apply H. exact Hx. Qed.

Lemma xstrip_decomp t : exists a b, t = a ++ XI.xstrip t ++ b /\ XI.allws a = true /\ XI.allws b = true.
Proof.
  unfold XI.xstrip. destruct (dropw_decomp (rev t)) as (a1 & E1 & H1).
  destruct (dropw_decomp (rev (XI.dropw (rev t)))) as (a2 & E2 & H2).
  exists a2, (rev a1). split; [|split; [exact H2|apply allws_rev; exact H1]].
  rewrite app_assoc, <- E2, <- rev_app_distr, <- E1, rev_involutive. reflexivity.
Qed.

Lemma drop_ws_blank a y : E.only_ws a = true -> E.drop_ws (a ++ y) = E.drop_ws y.
Proof.
  unfold E.only_ws. induction a as [|c r IH]; [reflexivity|]. cbn [forallb app E.drop_ws]. intros H. apply andb_prop in H. destruct H as [H1 H2].
  rewrite H1. exact (IH H2).
Qed.
Lemma drop_ws_all a : E.only_ws a = true -> E.drop_ws a = [].
Proof. intros H. rewrite <- (app_nil_r a). rewrite (drop_ws_blank a [] H). reflexivity. Qed.
Lemma drop_ws_nonblank s b : E.only_ws s = false -> E.drop_ws (s ++ b) = E.drop_ws s ++ b.
Proof.
  unfold E.only_ws. induction s as [|c r IH]; [discriminate|]. cbn [forallb app E.drop_ws]. destruct (E.isspace c); cbn [andb]; [exact IH|reflexivity].
Qed.
Lemma only_ws_rev b : E.only_ws b = true -> E.only_ws (rev b) = true.
Proof. unfold E.only_ws. intros H. apply forallb_forall. intros x Hx. apply in_rev in Hx. rewrite forallb_forall in H. apply H. exact Hx. Qed.

Lemma strip_pad_l a s : E.only_ws a = true -> E.strip_blanks (a ++ s) = E.strip_blanks s.
Proof. intros H. rewrite !TNP.strip_blanks_eq, (drop_ws_blank a s H). reflexivity. Qed.

Lemma strip_pad_r s b : E.only_ws b = true -> E.strip_blanks (s ++ b) = E.strip_blanks s.
Proof.
  intros H. rewrite !TNP.strip_blanks_eq. destruct (E.only_ws s) eqn:Es.
  - rewrite (drop_ws_blank s b Es), (drop_ws_all b H), (drop_ws_all s Es). reflexivity.
  - rewrite (drop_ws_nonblank s b Es), rev_app_distr, (drop_ws_blank (rev b) _ (only_ws_rev b H)). reflexivity.
Qed.

Lemma only_ws_app a b : E.only_ws (a ++ b) = E.only_ws a && E.only_ws b.
Proof. unfold E.only_ws. apply forallb_app. Qed.

Lemma norm_text_pad a m b : E.only_ws a = true -> E.only_ws b = true ->
  TN.norm_text false false (a ++ m ++ b) = TN.norm_text false false m.
Proof.
  intros Ha Hb. unfold TN.norm_text. cbn [orb]. rewrite !only_ws_app, Ha, Hb, andb_true_r. cbn [andb].
  rewrite (strip_pad_l a (m ++ b) Ha), (strip_pad_r m b Hb). reflexivity.
Qed.

Lemma norm_text_xstrip t : TN.norm_text false false (XI.xstrip t) = TN.norm_text false false t.
Proof.
  destruct (xstrip_decomp t) as (a & b & Et & Ha & Hb). rewrite Et at 2.
  rewrite (norm_text_pad a (XI.xstrip t) b (allws_only_ws a Ha) (allws_only_ws b Hb)). reflexivity.
Qed.

(* ---- the tree the front end makes of an item (tags by name), and its normal form ---- *)
Section Items.
Variable L : lang.

Fixpoint etree (it : XR.xitem) : E.node :=
  match it with
  | XR.XE n _ c => E.NElt (fst (XF.resolve_tag L n)) [] (map etree c)
  | XR.XT t => E.NText t
  end.

Definition NN (it : XR.xitem) : list E.node := TN.norm_node false false (etree it).

Lemma NN_xe n a c : NN (XR.XE n a c) = [E.NElt (fst (XF.resolve_tag L n)) [] (flat_map NN c)].
Proof. unfold NN. cbn [etree TN.norm_node]. rewrite flat_map_concat_map, map_map, <- flat_map_concat_map. reflexivity. Qed.

Lemma NN_strip_items l : flat_map NN (XI.strip_items l) = flat_map NN l.
Proof.
  unfold XI.strip_items. induction l as [|x r IH]; [reflexivity|]. cbn [flat_map]. rewrite flat_map_app, IH. f_equal.
  destruct x as [n a c|t]; [cbn [flat_map]; apply app_nil_r|].
  unfold XI.emit. change (NN (XR.XT t)) with (TN.norm_text false false t). rewrite <- norm_text_xstrip.
  destruct (XI.xstrip t) as [|b0 br]; [reflexivity|]. cbn [flat_map]. rewrite app_nil_r. reflexivity.
Qed.

(* (A) the normal form does not see the difference that nb removes *)
Lemma NN_nb : forall it, NN (XI.nb it) = NN it.
Proof.
  fix IH 1. intros it. destruct it as [n a ch|t]; [|reflexivity].
  rewrite XI.nb_xe, !NN_xe. f_equal. f_equal. unfold XI.nb_list.
  assert (Hm : flat_map NN (map XI.nb ch) = flat_map NN ch).
  { induction ch as [|x r IHr]; [reflexivity|]. cbn [map flat_map]. rewrite (IH x), IHr. reflexivity. }
  destruct (existsb XI.is_xe ch); [rewrite NN_strip_items|]; exact Hm.
Qed.
End Items.

(* ---- predicates on item trees that nb does not disturb ---- *)
Section Preds.
Variable L : lang.

(* elements *)
Fixpoint Pall (pe : nat -> E.bytes -> list (E.bytes * E.bytes) -> Prop) (d : nat) (it : XR.xitem) : Prop :=
  match it with
  | XR.XE n a c => pe d n a /\ (fix all (l : list XR.xitem) : Prop := match l with [] => True | x :: r => Pall pe (S d) x /\ all r end) c
  | XR.XT _ => True
  end.
Fixpoint PallL (pe : nat -> E.bytes -> list (E.bytes * E.bytes) -> Prop) (d : nat) (l : list XR.xitem) : Prop :=
  match l with [] => True | x :: r => Pall pe d x /\ PallL pe d r end.

Lemma Pall_xe pe d n a c : Pall pe d (XR.XE n a c) <-> pe d n a /\ PallL pe (S d) c.
Proof. cbn [Pall]. assert (H : forall l, (fix all (l : list XR.xitem) : Prop := match l with [] => True | x :: r => Pall pe (S d) x /\ all r end) l <-> PallL pe (S d) l).
  { induction l as [|x r IH]; [tauto|]. cbn [PallL]. rewrite IH. tauto. } rewrite H. tauto. Qed.

Lemma PallL_app pe d a b : PallL pe d (a ++ b) <-> PallL pe d a /\ PallL pe d b.
Proof. induction a as [|x r IH]; cbn [app PallL]; [tauto|]. rewrite IH. tauto. Qed.

Lemma PallL_strip pe d l : PallL pe d (XI.strip_items l) <-> PallL pe d l.
Proof.
  unfold XI.strip_items. induction l as [|x r IH]; [tauto|]. cbn [flat_map PallL]. rewrite PallL_app, IH.
  destruct x as [n a c|t]; [cbn [PallL]; tauto|]. unfold XI.emit. destruct (XI.xstrip t); cbn [PallL Pall]; tauto.
Qed.

Lemma Pall_nb pe : forall it d, Pall pe d (XI.nb it) <-> Pall pe d it.
Proof.
  fix IH 1. intros it d. destruct it as [n a ch|t]; [|tauto].
  rewrite XI.nb_xe, !Pall_xe. unfold XI.nb_list.
  assert (Hm : PallL pe (S d) (map XI.nb ch) <-> PallL pe (S d) ch).
  { induction ch as [|x r IHr]; [tauto|]. cbn [map PallL]. rewrite (IH x (S d)), IHr. tauto. }
  destruct (existsb XI.is_xe ch); [rewrite PallL_strip|]; rewrite Hm; tauto.
Qed.

(* texts are octets *)
Fixpoint Tlt (it : XR.xitem) : Prop :=
  match it with
  | XR.XE _ _ c => (fix all (l : list XR.xitem) : Prop := match l with [] => True | x :: r => Tlt x /\ all r end) c
  | XR.XT t => D.bytes_lt256 t = true
  end.
Fixpoint TltL (l : list XR.xitem) : Prop := match l with [] => True | x :: r => Tlt x /\ TltL r end.
Lemma Tlt_xe n a c : Tlt (XR.XE n a c) <-> TltL c.
Proof. cbn [Tlt]. induction c as [|x r IH]; [tauto|]. cbn [TltL]. rewrite IH. tauto. Qed.
Lemma TltL_app a b : TltL (a ++ b) <-> TltL a /\ TltL b.
Proof. induction a as [|x r IH]; cbn [app TltL]; [tauto|]. rewrite IH. tauto. Qed.

Lemma allws_lt a : XI.allws a = true -> D.bytes_lt256 a = true.
Proof.
  unfold XI.allws, D.bytes_lt256. induction a as [|c r IH]; [reflexivity|]. cbn [forallb]. intros H. apply andb_prop in H. destruct H as [H1 H2].
  rewrite (IH H2), andb_true_r. unfold XR.is_ws in H1. repeat (apply orb_true_iff in H1; destruct H1 as [H1|H1]); apply N.eqb_eq in H1; subst; reflexivity.
Qed.

Lemma lt_xstrip t : D.bytes_lt256 (XI.xstrip t) = D.bytes_lt256 t.
Proof.
  destruct (xstrip_decomp t) as (a & b & Et & Ha & Hb). rewrite Et at 2. unfold D.bytes_lt256. rewrite !forallb_app.
  fold (D.bytes_lt256 a) (D.bytes_lt256 b). rewrite (allws_lt a Ha), (allws_lt b Hb), andb_true_r. reflexivity.
Qed.

Lemma TltL_strip l : TltL (XI.strip_items l) <-> TltL l.
Proof.
  unfold XI.strip_items. induction l as [|x r IH]; [tauto|]. cbn [flat_map TltL]. rewrite TltL_app, IH.
  destruct x as [n a c|t]; [cbn [TltL]; tauto|]. unfold XI.emit. cbn [Tlt]. rewrite <- (lt_xstrip t).
  destruct (XI.xstrip t) as [|b0 br]; cbn [TltL Tlt]; [|tauto]. change (D.bytes_lt256 []) with true. intuition reflexivity.
Qed.

Lemma Tlt_nb : forall it, Tlt (XI.nb it) <-> Tlt it.
Proof.
  fix IH 1. intros it. destruct it as [n a ch|t]; [|tauto].
  rewrite XI.nb_xe, !Tlt_xe. unfold XI.nb_list.
  assert (Hm : TltL (map XI.nb ch) <-> TltL ch).
  { induction ch as [|x r IHr]; [tauto|]. cbn [map TltL]. rewrite (IH x), IHr. tauto. }
  destruct (existsb XI.is_xe ch); [rewrite TltL_strip|]; rewrite Hm; tauto.
Qed.

(* the element predicate of the fragment, for an element name as the front end resolves it *)
Definition pe (d : nat) (n : E.bytes) (a : list (E.bytes * E.bytes)) : Prop :=
  a = [] /\ exists p t o,
    XF.resolve_tag L n = (E.TagTok p t o n, p) /\ N.land o 1 = 0 /\ (5 <=? t) && (t <? 64) = true /\
    E.beq n XF.s_Data = false /\ XF.is_embedded_name n = false /\ (d < 1000)%nat /\
    (p <? 256) && (N.of_nat d <=? 1000) &&
      match Spec.lookup_tag L p t with
      | Some r => (t_page r =? p) && (t_tok r =? t) && E.beq (Parser.B (t_name r)) n
      | None => false
      end = true.

(* no two adjacent texts, at every level *)
Definition is_xt (it : XR.xitem) : bool := match it with XR.XT _ => true | _ => false end.
Fixpoint xnoadj (l : list XR.xitem) : bool :=
  match l with
  | [] => true
  | x :: r => negb (is_xt x && match r with y :: _ => is_xt y | [] => false end) && xnoadj r
  end.
Fixpoint deepok (it : XR.xitem) : Prop :=
  match it with
  | XR.XE _ _ c => xnoadj c = true /\ (fix all (l : list XR.xitem) : Prop := match l with [] => True | x :: r => deepok x /\ all r end) c
  | XR.XT _ => True
  end.
Fixpoint deepL (l : list XR.xitem) : Prop := match l with [] => True | x :: r => deepok x /\ deepL r end.
Lemma deepok_xe n a c : deepok (XR.XE n a c) <-> xnoadj c = true /\ deepL c.
Proof. cbn [deepok]. assert (H : forall l, (fix all (l : list XR.xitem) : Prop := match l with [] => True | x :: r => deepok x /\ all r end) l <-> deepL l).
  { induction l as [|x r IH]; [tauto|]. cbn [deepL]. rewrite IH. tauto. } rewrite H. tauto. Qed.

Lemma noadj_etree c : xnoadj c = true -> FS.no_adj (map (etree L) c) = true.
Proof.
  induction c as [|x r IH]; [reflexivity|]. cbn [xnoadj map FS.no_adj]. intros H. apply andb_prop in H. destruct H as [H1 H2].
  rewrite (IH H2), andb_true_r.
  assert (Hx : FS.is_text (etree L x) = is_xt x) by (destruct x; reflexivity).
  destruct r as [|y r']; cbn [map]; rewrite Hx; [exact H1|].
  assert (Hy : FS.is_text (etree L y) = is_xt y) by (destruct y; reflexivity). rewrite Hy. exact H1.
Qed.

(* what the predicates give for the tree of the item *)
Lemma good_fgood : forall it d, Pall pe d it -> deepok it -> FS.fgood L d (etree L it).
Proof.
  fix IH 1. intros it d Hp Hd. destruct it as [n a ch|t]; [|exact I].
  apply (proj1 (Pall_xe _ _ _ _ _)) in Hp. destruct Hp as [(Ha & p & t & o & Hres & Hbin & _ & Hdata & Hemb & Hdep & _) Hch].
  apply (proj1 (deepok_xe _ _ _)) in Hd. destruct Hd as [Hna Hdl].
  cbn [etree]. rewrite Hres. cbn [fst FS.fgood]. repeat split; try assumption.
  - apply noadj_etree. exact Hna.
  - clear Hna. induction ch as [|x r IHr]; [exact I|]. destruct Hch as [Hx Hr]. destruct Hdl as [Hdx Hdr]. cbn [map]. split; [exact (IH x (S d) Hx Hdx)|exact (IHr Hr Hdr)].
Qed.

Lemma good_frag : forall it d, Pall pe d it -> SZ.frag_node (etree L it) = true.
Proof.
  fix IH 1. intros it d Hp. destruct it as [n a ch|t]; [|reflexivity].
  apply (proj1 (Pall_xe _ _ _ _ _)) in Hp. destruct Hp as [(Ha & p & t & o & Hres & Hbin & Ht & _) Hch].
  cbn [etree]. rewrite Hres. cbn [fst SZ.frag_node]. rewrite Ht, Hbin. cbn [N.eqb andb].
  induction ch as [|x r IHr]; [reflexivity|]. destruct Hch as [Hx Hr]. cbn [map forallb]. rewrite (IH x (S d) Hx), (IHr Hr). reflexivity.
Qed.

Lemma good_tree_ok : forall it d, Pall pe d it -> Tlt it -> D.tree_ok L (N.of_nat d) (etree L it) = true.
Proof.
  fix IH 1. intros it d Hp Ht. destruct it as [n a ch|t]; [|exact Ht].
  apply (proj1 (Pall_xe _ _ _ _ _)) in Hp. destruct Hp as [(Ha & p & t & o & Hres & _ & _ & _ & _ & _ & Hlk) Hch]. apply (proj1 (Tlt_xe _ _ _)) in Ht.
  cbn [etree]. rewrite Hres. cbn [fst D.tree_ok]. rewrite Hlk. cbn [andb].
  replace (N.of_nat d + 1) with (N.of_nat (S d)) by lia.
  induction ch as [|x r IHr]; [reflexivity|]. destruct Hch as [Hx Hr]. destruct Ht as [Htx Htr]. cbn [map forallb].
  rewrite (IH x (S d) Hx Htx), (IHr Hr Htr). reflexivity.
Qed.

Lemma good_events : forall it d, Pall pe d it -> ev_item it = FS.ev_node (etree L it).
Proof.
  fix IH 1. intros it d Hp. destruct it as [n a ch|t]; [|reflexivity].
  apply (proj1 (Pall_xe _ _ _ _ _)) in Hp. destruct Hp as [(Ha & p & t & o & Hres & _) Hch]. subst a.
  cbn [ev_item etree FS.ev_node]. rewrite Hres. cbn [fst E.tag_xml_name]. f_equal. f_equal.
  induction ch as [|x r IHr]; [reflexivity|]. destruct Hch as [Hx Hr]. cbn [flat_map map]. rewrite (IH x (S d) Hx), (IHr Hr). reflexivity.
Qed.
End Preds.

(* ---- the compact reading: the items of an already normalised tree R ---- *)
Section Compact.
Variable L : lang.

Lemma items_good : forall R d, FS.fgood L d R -> SZ.frag_node R = true -> D.tree_ok L (N.of_nat d) R = true -> nm_ok L R ->
  PallL (pe L) d (item_of L (tnode_of R)) /\ TltL (item_of L (tnode_of R)) /\ map (etree L) (item_of L (tnode_of R)) = [R].
Proof.
  fix IH 1. intros R d Hg Hf Ht Hn. destruct R as [tg a ch|c|ch| |lid roots]; cbn [FS.fgood] in Hg; try contradiction.
  - destruct tg as [p t o nm|nm]; [|contradiction]. destruct a as [|a0 ar]; [|contradiction].
    destruct Hg as (Hres & Hbin & Hdata & Hemb & Hdep & Hna & Hall).
    cbn [nm_ok] in Hn. destruct Hn as [Hnm Hnall].
    cbn [SZ.frag_node] in Hf. rewrite !andb_true_iff in Hf. destruct Hf as [[[Ht1 Ht2] _] Hfch].
    cbn [D.tree_ok] in Ht. rewrite !andb_true_iff in Ht. destruct Ht as [[[Hp256 Hdep2] Hlk] Htch].
    cbn [tnode_of item_of]. rewrite Hnm.
    assert (Hch : PallL (pe L) (S d) (flat_map (item_of L) (map tnode_of ch)) /\ TltL (flat_map (item_of L) (map tnode_of ch))
                  /\ map (etree L) (flat_map (item_of L) (map tnode_of ch)) = ch).
    { clear Hna. induction ch as [|x r IHr]; [repeat split|]. destruct Hall as [Hx Hr]. destruct Hnall as [Hnx Hnr].
      cbn [forallb] in Hfch, Htch. apply andb_prop in Hfch. destruct Hfch as [Hfx Hfr]. apply andb_prop in Htch. destruct Htch as [Htx Htr].
      replace (N.of_nat d + 1) with (N.of_nat (S d)) in Htx by lia.
      destruct (IH x (S d) Hx Hfx Htx Hnx) as (P1 & T1 & E1). destruct (IHr Hr Hfr Htr Hnr) as (P2 & T2 & E2).
      cbn [map flat_map]. rewrite PallL_app, TltL_app, map_app, E1, E2. repeat split; assumption. }
    destruct Hch as (P & T & Ee). cbn [PallL TltL map]. split; [split; [|exact I]|split; [split; [|exact I]|]].
    + apply (proj2 (Pall_xe _ _ _ _ _)). split; [|exact P]. unfold pe. split; [reflexivity|]. exists p, t, o.
      repeat split; try assumption.
      * rewrite Ht1, Ht2. reflexivity.
      * rewrite Hp256, Hdep2, Hlk. reflexivity.
    + apply (proj2 (Tlt_xe _ _ _)). exact T.
    + cbn [etree]. rewrite Hres, Ee. reflexivity.
  - cbn [tnode_of item_of PallL TltL Pall Tlt map etree]. cbn [D.tree_ok] in Ht. repeat split; exact Ht.
Qed.

Lemma norm_fixE : forall R, enormal false R -> TN.norm_node false false R = [R].
Proof.
  fix IH 1. intros R Hn. destruct R as [tg a ch|c|ch| |lid roots]; cbn [enormal] in Hn; try contradiction.
  - destruct tg as [p t o nm|nm]; [|contradiction]. destruct Hn as [_ Hall]. cbn [TN.norm_node]. f_equal. f_equal.
    induction ch as [|x r IHr]; [reflexivity|]. destruct Hall as [Hx Hr]. cbn [flat_map]. rewrite (IH x Hx), (IHr Hr). reflexivity.
  - destruct Hn as (_ & _ & [Hk|[Hw Hs]]); [discriminate|]. cbn [TN.norm_node]. unfold TN.norm_text. cbn [orb]. rewrite Hw, Hs. reflexivity.
Qed.
End Compact.

(* ---- the reading of ANY generated XML has no two adjacent texts, at any level (merge_items) ---- *)
Lemma push_noadj acc it : xnoadj acc = true -> xnoadj (XP.push_item acc it) = true.
Proof.
  intros H. destruct it as [n a c|t]; cbn [XP.push_item].
  - cbn [xnoadj is_xt andb negb]. exact H.
  - unfold XR.push_text. destruct t as [|b0 br]; [exact H|]. destruct acc as [|[n a c|u] r]; [reflexivity| |].
    + cbn [xnoadj is_xt andb negb] in *. exact H.
    + cbn [xnoadj is_xt] in *. exact H.
Qed.

Lemma xnoadj_snoc l x : xnoadj (l ++ [x]) = xnoadj l && negb (is_xt x && match rev l with y :: _ => is_xt y | [] => false end).
Proof.
  induction l as [|a r IH]; [cbn; destruct (is_xt x); reflexivity|].
  cbn [app xnoadj]. rewrite IH. destruct r as [|b r'].
  - cbn [app rev xnoadj]. destruct (is_xt a), (is_xt x); reflexivity.
  - cbn [app]. cbn [rev]. destruct (rev r' ++ [b]) as [|z zs] eqn:Ez; [destruct (rev r'); discriminate|].
    assert (Hz : match (z :: zs) ++ [a] with y :: _ => is_xt y | [] => false end = is_xt z) by reflexivity. rewrite Hz.
    destruct (is_xt a), (is_xt b), (xnoadj (b :: r')), (is_xt x), (is_xt z); reflexivity.
Qed.

Lemma xnoadj_rev l : xnoadj (rev l) = xnoadj l.
Proof.
  induction l as [|a r IH]; [reflexivity|]. cbn [rev]. rewrite xnoadj_snoc, IH, rev_involutive. cbn [xnoadj].
  destruct r as [|b r']; [cbn; destruct (is_xt a); reflexivity|]. destruct (is_xt a), (is_xt b), (xnoadj (b :: r')); reflexivity.
Qed.

Lemma merge_noadj l : xnoadj (XP.merge_items l) = true.
Proof.
  unfold XP.merge_items. rewrite xnoadj_rev.
  assert (G : forall l acc, xnoadj acc = true -> xnoadj (fold_left XP.push_item l acc) = true).
  { induction l0 as [|x r IH]; intros acc H; [exact H|]. cbn [fold_left]. apply IH. apply push_noadj. exact H. }
  apply G. reflexivity.
Qed.

Lemma push_deep acc it : deepL acc -> deepok it -> deepL (XP.push_item acc it).
Proof.
  intros Ha Hi. destruct it as [n a c|t]; cbn [XP.push_item]; [split; assumption|].
  unfold XR.push_text. destruct t as [|b0 br]; [exact Ha|]. destruct acc as [|[n1 a1 c1|u] r]; cbn [deepL deepok] in *; tauto.
Qed.
Lemma deepL_rev l : deepL l -> deepL (rev l).
Proof.
  assert (Ap : forall a b, deepL a -> deepL b -> deepL (a ++ b)) by (induction a as [|x r IH]; intros b Ha Hb; [exact Hb|destruct Ha; split; [assumption|apply IH; assumption]]).
  induction l as [|x r IH]; intros H; [exact I|]. destruct H as [Hx Hr]. cbn [rev]. apply Ap; [exact (IH Hr)|split; [exact Hx|exact I]].
Qed.
Lemma deepL_app a b : deepL (a ++ b) <-> deepL a /\ deepL b.
Proof. induction a as [|x r IH]; cbn [app deepL]; [tauto|]. rewrite IH. tauto. Qed.
Lemma merge_deep l : deepL l -> deepL (XP.merge_items l).
Proof.
  unfold XP.merge_items. intros H. apply deepL_rev.
  assert (G : forall l acc, deepL l -> deepL acc -> deepL (fold_left XP.push_item l acc)).
  { induction l0 as [|x r IH]; intros acc Hl Ha; [exact Ha|]. destruct Hl as [Hx Hr]. cbn [fold_left]. apply IH; [exact Hr|apply push_deep; assumption]. }
  apply G; [exact H|exact I].
Qed.

Lemma info_g_deep l o : forall n parent s its s', simple n = true -> XI.info_g l o parent s n = Some (its, s') -> deepL its.
Proof.
  fix IH 1. intros n parent s its s' Hs. destruct n as [nm attrs ch|c|ch| |sl roots]; cbn [simple] in Hs; try discriminate.
  - cbn [XI.info_g]. destruct ch as [|c0 cr].
    + intros H. injection H as <- _. cbn [deepL deepok xnoadj]. tauto.
    + assert (HL : forall ns st its0 st', forallb simple ns = true ->
                     XI.info_list_g (XI.info_g l o (X.pinfo_below parent nm)) ns st = Some (its0, st') -> deepL its0).
      { induction ns as [|x r IHr]; intros st its0 st' Hsx; cbn [XI.info_list_g].
        - intros H. injection H as <- _. exact I.
        - cbn [forallb] in Hsx. apply andb_prop in Hsx. destruct Hsx as [Hx Hr].
          destruct (XI.info_g l o (X.pinfo_below parent nm) st x) as [[a s1]|] eqn:Ea; [|discriminate].
          destruct (XI.info_list_g _ r (X.reset_cur s1)) as [[b s2]|] eqn:Eb; [|discriminate].
          intros H. injection H as <- _. apply deepL_app. split; [exact (IH x _ _ _ _ Hx Ea)|exact (IHr _ _ _ Hr Eb)]. }
      destruct (XI.info_list_g _ (c0 :: cr) _) as [[its0 s4]|] eqn:El; [|discriminate].
      intros H. injection H as <- _. cbn [deepL]. split; [exact I|]. split; [|cbn; tauto].
      apply (proj2 (deepok_xe _ _ _)). split; [apply merge_noadj|]. apply merge_deep. cbn [deepL deepok]. split; [exact I|].
      apply deepL_app. split; [exact (HL _ _ _ _ Hs El)|cbn; tauto].
  - cbn [XI.info_g]. unfold XI.text_item. destruct (X.text_policy o parent s c); [|intros H; injection H as <- _; exact I].
    destruct (X.tag_is_binary _); [destruct (b64_enc _)|]; intros H; try discriminate; injection H as <- _; cbn; tauto.
Qed.

Lemma tgood_tsimple L xo : forall T, tgood L xo T -> tsimple T = true.
Proof.
  fix IH 1. intros T HT. destruct T as [tag a ch|c|ch|lid cs root]; cbn [tgood] in HT; try contradiction.
  - destruct a as [|a0 ar]; [|contradiction]. destruct HT as (_ & _ & Hall). cbn [tsimple].
    induction ch as [|x r IHr]; [reflexivity|]. destruct Hall as [Hx Hr]. cbn [forallb]. rewrite (IH x Hx), (IHr Hr). reflexivity.
  - destruct HT as (Hne & _). cbn [tsimple]. destruct c; [congruence|reflexivity].
Qed.

(* ---- the second trip on INDENTED XML, encoder keep_ws off ---- *)
Section SecondIndent.
Variables (main TBL : list lang) (btbl : list E.blang) (sub : E.bytes -> XF.xtree + N).

Theorem second_iteration_indent (L : lang) l o o' p t opts nm ch2 x :
  let R2 := E.NElt (E.TagTok p t opts nm) [] ch2 in
  let root' := tnode_of R2 in
  let xl := X.xlang_of L in
  let xoc := X.opts_of_params X.Compact 0 (wo_keep_ws o') in
  (* x is the INDENTED XML of the first trip *)
  gen_of (wo_gen o') = X.Indent ->
  X.enc_xml xl X.Indent (wo_indent o') (wo_keep_ws o') [to_xnode TBL L root'] = X.XOk x ->
  (* the next XML -> WBXML conversion drops ignorable white space *)
  E.o_keep_ws o = false ->
  XP.lang_ok xl = true -> XI.node_ok_g xl xoc X.proot None (to_xnode TBL L root') = true ->
  X.xl_ns xl = None -> X.is_syncml xl = false ->
  tgood L xoc root' -> nm_ok L R2 -> FS.fgood L 0 R2 ->
  LangSelect.search_table main (option_map XF.str (X.xl_pub xl)) (Some (XF.str (X.xl_dtd xl))) None = Some L ->
  enormal false R2 ->
  E.find_lang btbl (l_id L) = Some l ->
  SZ.frag_lang l = true -> E.o_use_strtbl o = false -> Proofs.EncWbxmlProofs.no_pid (E.enc_env l o) = true ->
  SZ.frag_node R2 = true ->
  find (fun y => l_id y =? l_id L) TBL = Some L ->
  lang_choice TBL L (E.header_public_id (E.enc_env l o)) (wo_lang o') -> wo_charset o' = 0 ->
  D.tree_ok L 0 R2 = true ->
  E.o_version o < 4 -> E.header_public_id (E.enc_env l o) < 4294967296 -> E.header_public_id (E.enc_env l o) <> 0 ->
  no_data (flat_map D.events_node [R2]) = true ->
  exists ci d,
    d = XP.doc_of xl [XR.XE nm [] ci] /\
    (forall fuel, (XP.node_fuel (to_xnode TBL L root') + 2 <= fuel)%nat -> XR.read_xml fuel x = XR.ROk d) /\
    (* the front-end tree of the indented XML: R2 with white space between markup; its normal form is R2 *)
    TN.norm false [etree L (XR.XE nm [] ci)] = [R2] /\
    forall doc2, doc2 <> [] ->
      XF.tree_from_xml main sub doc2 (events_of_info d) true = inl (XF.mk_xtree (l_id L) 0 [etree L (XR.XE nm [] ci)]) /\
      exists w2, r_out (ConvXml2Wbxml.xml2wbxml_events main btbl sub (events_of_info d) true o doc2) = Some w2 /\
                 wbxml2xml_model TBL o' w2 = mk_res ST_OK (Some (x ++ [0])) (N.of_nat (length x)).
Proof.
  intros R2 root' xl xoc Hgen Hx Hkeep Hlok Hokc Hns Hsyn Htg Hnm Hfg Hst Hen Hfl HL HU HP HF HFind Hch Hcs HT Hv Hp1 Hp0 Hnd.
  subst xl.
  set (nmx := to_tname L (TagTok p t nm)).
  set (chx := map (to_xnode TBL L) (map tnode_of ch2)).
  assert (Hroot : to_xnode TBL L root' = X.Elt nmx [] chx) by reflexivity.
  assert (Hname : X.tname_bytes nmx = nm) by (unfold R2 in Hnm; cbn [nm_ok] in Hnm; destruct Hnm as [H _]; exact H).
  assert (Hres : XF.resolve_tag L nm = (E.TagTok p t opts nm, p)) by (unfold R2 in Hfg; cbn [FS.fgood] in Hfg; destruct Hfg as [H _]; exact H).
  rewrite Hroot in Hx, Hokc.
  (* the compact XML of the same tree *)
  assert (Hsim : forallb simple [X.Elt nmx [] chx] = true).
  { cbn [forallb]. rewrite andb_true_r. rewrite <- Hroot. apply to_xnode_simple. exact (tgood_tsimple L xoc root' Htg). }
  destruct (enc_xml_simple_ok (X.xlang_of L) X.Compact 0 (wo_keep_ws o') [X.Elt nmx [] chx] Hsim) as [xc Hxc].
  (* both readings *)
  assert (Hoki : XI.node_ok_g (X.xlang_of L) (X.opts_of_params X.Indent (wo_indent o') (wo_keep_ws o')) X.proot None (X.Elt nmx [] chx) = true)
    by (rewrite (XI.node_ok_opts _ (X.xlang_of L) _ xoc); [exact Hokc|reflexivity]).
  destruct (XI.read_enc_g (X.xlang_of L) _ nmx [] chx x Hlok Hoki Hx) as (ci & si & Ii & Ri).
  destruct (XI.read_enc_g (X.xlang_of L) xoc nmx [] chx xc Hlok Hokc Hxc) as (cc & sc & Ic & Rc).
  assert (Hsa : forall oo, XP.spec_attrs (X.xlang_of L) oo X.proot nmx [] = []) by (intros oo; apply spec_attrs_nil; exact Hns).
  rewrite Hsa in Ii, Ri, Ic, Rc. rewrite Hname in Ii, Ri, Ic, Rc.
  (* the compact reading is the tree itself *)
  assert (Hb0 : X.tag_is_binary (X.text_tag (X.est0 0) X.proot) = false) by reflexivity.
  destruct (info_compact TBL L xoc eq_refl Hns Hsyn root' Htg X.proot (X.est0 0) eq_refl Hb0) as (s2 & Hi2 & _).
  rewrite Hroot in Hi2. rewrite Hi2 in Ic. cbn [items_for item_of tnode_of root' R2 app] in Ic. fold nmx in Ic. rewrite Hname in Ic.
  injection Ic as Hcc _.
  (* equal modulo blank text between markup *)
  set (fuel0 := (XP.node_fuel (X.Elt nmx [] chx) + 2)%nat).
  destruct (XI.c07_xml_indent_compact (X.xlang_of L) (wo_indent o') 0 (wo_keep_ws o') nmx [] chx x xc Hlok Hokc Hx Hxc fuel0 (Nat.le_refl _))
    as (ri & rc & Hri & Hrc & Hnb).
  rewrite (Ri fuel0 (Nat.le_refl _)) in Hri. rewrite (Rc fuel0 (Nat.le_refl _)) in Hrc.
  unfold XP.doc_of in Hri, Hrc. injection Hri as Hri. injection Hrc as Hrc. subst ri rc.
  (* the predicates: from the tree to the compact reading, through nb to the indented reading *)
  destruct (items_good L R2 0%nat Hfg HF HT Hnm) as (Pc & Tc & Ec).
  cbn [tnode_of item_of R2] in Pc, Tc, Ec. fold nmx in Pc, Tc, Ec. rewrite Hname in Pc, Tc, Ec. rewrite Hcc in Pc, Tc, Ec.
  cbn [PallL TltL] in Pc, Tc. destruct Pc as [Pc _]. destruct Tc as [Tc _].
  assert (Ec' : etree L (XR.XE nm [] cc) = R2) by (change (map (etree L) [XR.XE nm [] cc]) with [etree L (XR.XE nm [] cc)] in Ec; congruence).
  assert (Pi : Pall (pe L) 0 (XR.XE nm [] ci)).
  { apply (Pall_nb (pe L)). rewrite Hnb. apply (Pall_nb (pe L)). exact Pc. }
  assert (Ti : Tlt (XR.XE nm [] ci)).
  { apply Tlt_nb. rewrite Hnb. apply Tlt_nb. exact Tc. }
  assert (Di : deepok (XR.XE nm [] ci)).
  { pose proof (info_g_deep _ _ (X.Elt nmx [] chx) X.proot (X.est0 0) _ _ (proj1 (andb_prop _ _ Hsim)) Ii) as Hd.
    cbn [deepL] in Hd. tauto. }
  assert (Hnn : NN L (XR.XE nm [] ci) = [R2]).
  { rewrite <- (NN_nb L), Hnb, (NN_nb L). unfold NN. rewrite Ec'. exact (norm_fixE R2 Hen). }
  set (Tind := etree L (XR.XE nm [] ci)) in *.
  assert (Hshape : Tind = E.NElt (E.TagTok p t opts nm) [] (map (etree L) ci)) by (subst Tind; cbn [etree]; rewrite Hres; reflexivity).
  assert (HfgT : FS.fgood L 0 Tind) by exact (good_fgood L _ 0%nat Pi Di).
  assert (HFT : SZ.frag_node Tind = true) by exact (good_frag L _ 0%nat Pi).
  assert (HTT : D.tree_ok L 0 Tind = true) by exact (good_tree_ok L _ 0%nat Pi Ti).
  assert (Hnorm : TN.norm false [Tind] = [R2]) by (unfold TN.norm; cbn [flat_map]; rewrite app_nil_r; exact Hnn).
  exists ci, (XP.doc_of (X.xlang_of L) [XR.XE nm [] ci]). split; [reflexivity|]. split; [rewrite Hroot; exact Ri|]. split; [exact Hnorm|].
  intros doc2 Hd2.
  assert (Hev : events_of_info (XP.doc_of (X.xlang_of L) [XR.XE nm [] ci])
                = FS.doc_events (X.xl_root (X.xlang_of L)) (Some (X.xl_dtd (X.xlang_of L))) (X.xl_pub (X.xlang_of L)) Tind).
  { unfold events_of_info, FS.doc_events, XP.doc_of. cbn [XR.d_root_name XR.d_system XR.d_public XR.d_items flat_map]. rewrite app_nil_r.
    f_equal. exact (good_events L _ 0%nat Pi). }
  rewrite Hev. rewrite Hshape in HfgT, HFT, HTT, Hnorm |- *.
  set (chi := map (etree L) ci) in *.
  pose proof (FS.front_of_simple_tree main sub doc2 L p t opts nm chi (X.xl_root (X.xlang_of L)) (Some (X.xl_dtd (X.xlang_of L))) (X.xl_pub (X.xlang_of L)) Hd2 Hst HfgT) as Hfront.
  split; [change (etree L (XR.XE nm [] ci)) with Tind; rewrite Hshape; exact Hfront|].
  assert (HndT : no_data (flat_map D.events_node (TN.norm (E.o_keep_ws o) [E.NElt (E.TagTok p t opts nm) [] chi])) = true).
  { rewrite Hkeep, Hnorm. exact Hnd. }
  destruct (roundtrip_fragment_choice btbl TBL L l o p t opts nm chi (wo_lang o') HL HU HP HFT HFind Hch HTT Hv Hp1 Hp0 HndT) as (bs & He & Hne & _).
  assert (Hout : r_out (ConvXml2Wbxml.xml2wbxml_events main btbl sub (FS.doc_events (X.xl_root (X.xlang_of L)) (Some (X.xl_dtd (X.xlang_of L))) (X.xl_pub (X.xlang_of L)) (E.NElt (E.TagTok p t opts nm) [] chi)) true o doc2) = Some bs).
  { unfold ConvXml2Wbxml.xml2wbxml_events, conv_run. destruct doc2 as [|d0 dr]; [congruence|]. cbv beta. rewrite Hfront.
    unfold ConvXml2Wbxml.encode_tree. cbn [XF.xt_lang XF.xt_roots]. rewrite Hfl, He. reflexivity. }
  exists bs. split; [exact Hout|].
  destruct (conversion_roundtrip main TBL btbl sub _ true o doc2 bs L l p t opts nm chi o' Hout) as (x2 & Hm2 & Hx2 & _); try assumption.
  { intros t0 Ht0. rewrite Hfront in Ht0. injection Ht0 as <-. cbn [XF.xt_lang XF.xt_roots]. split; [exact Hfl|reflexivity]. }
  cbv zeta in Hx2. rewrite Hkeep in Hx2.
  (* the tree is root' again *)
  assert (Hch2 : flat_map (TN.norm_node false false) chi = ch2).
  { unfold TN.norm in Hnorm. cbn [flat_map TN.norm_node app] in Hnorm. injection Hnorm as Hn. exact Hn. }
  assert (Hr' : TElt (TagTok p t nm) [] (merge_text (flat_map tn ch2)) = root').
  { pose proof (normal_fix false R2 Hen) as Hf. rewrite (norm_fixE R2 Hen) in Hf. cbn [flat_map tn app R2] in Hf. injection Hf as Hf. rewrite Hf. reflexivity. }
  rewrite Hch2, Hr', Hgen, Hroot in Hx2. unfold X.enc_xml in Hx. rewrite Hx in Hx2. injection Hx2 as <-. exact Hm2.
Qed.
End SecondIndent.

(* ---- from the source: first trip with INDENTED generation, encoder keep_ws off, and the second trip ---- *)
Section EndToEndIndent.
Variables (main TBL : list lang) (btbl : list E.blang) (sub : E.bytes -> XF.xtree + N).

Theorem roundtrip_and_idempotence_indent evs expat_ok o doc w (L : lang) l p t opts nm ch o' :
  let root := E.NElt (E.TagTok p t opts nm) [] ch in
  let R2 := E.NElt (E.TagTok p t opts nm) [] (flat_map (TN.norm_node false false) ch) in
  let root' := tnode_of R2 in
  let xl := X.xlang_of L in
  let xoc := X.opts_of_params X.Compact 0 (wo_keep_ws o') in
  r_out (ConvXml2Wbxml.xml2wbxml_events main btbl sub evs expat_ok o doc) = Some w ->
  (forall t0, XF.tree_from_xml main sub doc evs expat_ok = inl t0 ->
     E.find_lang btbl (XF.xt_lang t0) = Some l /\ XF.xt_roots t0 = [root]) ->
  SZ.frag_lang l = true -> E.o_use_strtbl o = false -> Proofs.EncWbxmlProofs.no_pid (E.enc_env l o) = true ->
  SZ.frag_node root = true ->
  find (fun y => l_id y =? l_id L) TBL = Some L ->
  lang_choice TBL L (E.header_public_id (E.enc_env l o)) (wo_lang o') -> wo_charset o' = 0 ->
  D.tree_ok L 0 root = true ->
  E.o_version o < 4 -> E.header_public_id (E.enc_env l o) < 4294967296 -> E.header_public_id (E.enc_env l o) <> 0 ->
  no_data (flat_map D.events_node (TN.norm (E.o_keep_ws o) [root])) = true ->
  src_ok L 0 root -> E.find_lang btbl (l_id L) = Some l ->
  LangSelect.search_table main (option_map XF.str (X.xl_pub xl)) (Some (XF.str (X.xl_dtd xl))) None = Some L ->
  (* indented generation; the encoder drops ignorable white space *)
  gen_of (wo_gen o') = X.Indent -> E.o_keep_ws o = false ->
  X.xl_ns xl = None -> X.is_syncml xl = false ->
  XP.lang_ok xl = true -> XI.node_ok_g xl xoc X.proot None (to_xnode TBL L root') = true ->
  exists x ci d,
    wbxml2xml_model TBL o' w = mk_res ST_OK (Some (x ++ [0])) (N.of_nat (length x)) /\
    X.enc_xml xl X.Indent (wo_indent o') (wo_keep_ws o') [to_xnode TBL L root'] = X.XOk x /\
    d = XP.doc_of xl [XR.XE nm [] ci] /\
    (forall fuel, (XP.node_fuel (to_xnode TBL L root') + 2 <= fuel)%nat -> XR.read_xml fuel x = XR.ROk d) /\
    TN.norm false [etree L (XR.XE nm [] ci)] = [R2] /\
    forall doc2, doc2 <> [] ->
      XF.tree_from_xml main sub doc2 (events_of_info d) true = inl (XF.mk_xtree (l_id L) 0 [etree L (XR.XE nm [] ci)]) /\
      exists w2, r_out (ConvXml2Wbxml.xml2wbxml_events main btbl sub (events_of_info d) true o doc2) = Some w2 /\
                 wbxml2xml_model TBL o' w2 = mk_res ST_OK (Some (x ++ [0])) (N.of_nat (length x)).
Proof.
  intros root R2 root' xl xoc H1 Hfront HL HU HP HF HFind Hch Hcs HT Hv Hp1 Hp0 Hnd Hsrc Hfl Hst Hgen Hkeep Hns Hsyn Hlok Hok.
  rewrite Hkeep in Hnd.
  set (ch2 := flat_map (TN.norm_node false false) ch) in *.
  assert (Hnorm : TN.norm_node false false root = [R2]) by reflexivity.
  assert (Hen : enormal false R2).
  { pose proof (norm_enormal L false root 0%nat Hsrc) as H. rewrite Hnorm in H. inversion H. assumption. }
  assert (Hidem : flat_map (TN.norm_node false false) ch2 = ch2).
  { subst ch2. apply TNP.flat_map_idem. apply Forall_forall. intros y _. apply TNP.norm_node_idem. }
  assert (Hroot' : TElt (TagTok p t nm) [] (merge_text (flat_map tn ch2)) = root').
  { rewrite <- Hidem at 1. exact (normal_fix_root false p t opts nm ch2 Hen). }
  assert (Hnd1 : no_data (flat_map D.events_node (TN.norm_node false false root)) = true).
  { revert Hnd. unfold TN.norm. cbn [flat_map]. rewrite app_nil_r. exact (fun h => h). }
  assert (Hfg : FS.fgood L 0 R2).
  { pose proof (norm_fgood L false root 0%nat Hsrc HF Hnd1) as H. rewrite Hnorm in H. inversion H. assumption. }
  assert (Hnm : nm_ok L R2).
  { pose proof (norm_nm_ok L false root 0 HT) as H. rewrite Hnorm in H. inversion H. assumption. }
  assert (Htg : tgood L xoc root').
  { pose proof (norm_tgood L false xoc (or_intror eq_refl) root 0%nat Hsrc) as H. rewrite Hnorm in H. inversion H. assumption. }
  assert (HF2 : SZ.frag_node R2 = true).
  { pose proof (norm_frag false root HF) as H. rewrite Hnorm in H. cbn [forallb] in H. rewrite andb_true_r in H. exact H. }
  assert (HT2 : D.tree_ok L 0 R2 = true).
  { pose proof (norm_tree_ok L false root 0 HT) as H. rewrite Hnorm in H. cbn [forallb] in H. rewrite andb_true_r in H. exact H. }
  assert (Hnd2 : no_data (flat_map D.events_node [R2]) = true).
  { rewrite <- Hnorm. exact Hnd1. }
  rewrite <- Hkeep in Hnd.
  destruct (conversion_roundtrip main TBL btbl sub evs expat_ok o doc w L l p t opts nm ch o' H1 Hfront HL HU HP HF HFind Hch Hcs HT Hv Hp1 Hp0 Hnd)
    as (x & Hm & Hx & _).
  cbv zeta in Hx. rewrite Hkeep in Hx. fold ch2 in Hx. rewrite Hroot', Hgen in Hx. fold xl in Hx.
  destruct (second_iteration_indent main TBL btbl sub L l o o' p t opts nm ch2 x Hgen Hx Hkeep Hlok Hok Hns Hsyn Htg Hnm Hfg Hst Hen Hfl
              HL HU HP HF2 HFind Hch Hcs HT2 Hv Hp1 Hp0 Hnd2) as (ci & d & Hd & Hread & Hn & Hsecond).
  exists x, ci, d. split; [exact Hm|]. split; [exact Hx|]. split; [exact Hd|]. split; [exact Hread|]. split; [exact Hn|exact Hsecond].
Qed.
End EndToEndIndent.
