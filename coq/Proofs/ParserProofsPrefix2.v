(* C13 — proper prefixes, part 2: value lists, attributes, PIs. *)
From Coq Require Import String Ascii.
From Coq Require Import List NArith ZArith Lia Bool ZifyBool ZifyN.
From Wbxml Require Import Base.Bits Model.Codec Model.TablesDefs Model.Parser Model.Spec
     Proofs.CodecProofs Proofs.ParserProofsBase Proofs.ParserProofsStr Proofs.ParserProofsAttr Proofs.ParserProofsElt
     Proofs.ParserProofsReject Proofs.ParserProofsPrefix Proofs.ParserTotal.
Import ListNotations.
Local Open Scope N_scope.

Lemma is_token_mono P Q t : is_token P t = true -> is_token (P ++ Q) t = true.
Proof. destruct P; [discriminate|exact (fun H => H)]. Qed.

Lemma pfx_nil_inv P : pfx P [] -> P = [].
Proof. intros (Q & E). destruct P; [reflexivity|discriminate]. Qed.

Section Pre2.
Variables (l : lang) (tb : bytes) (ver cs : N).
Hypothesis Hcs : cs_ok cs.
Hypothesis Hdt : typed_datetime_agree.
Let env := penv_of l tb ver cs.
Let denv := mk_denv l tb.

Definition small (r : bytes) : Prop := r = [] \/ tinysw r.

Lemma small_attr_start_err dst r : small r -> isErr (parse_attr_start env (pst dst r)).
Proof.
  intros [->|[->|(p & ->)]]; unfold parse_attr_start, opt_switch_page, parse_switch_page; cbn; eexists; reflexivity.
Qed.

Lemma small_attrs_err f dst r acc : small r -> isErr (attrs_loop (S f) env (pst dst r) acc).
Proof.
  intros H. cbn [attrs_loop]. unfold parse_attribute. destruct (small_attr_start_err dst r H) as [e He].
  unfold env in *. rewrite He. eexists. reflexivity.
Qed.

(* *attrValue on a prefix: an error, or it stops with (almost) nothing left *)
Lemma vals_loop_prefix vs : forall dst o dst' fuel acc P,
  den_vals denv vs dst = Some (o, dst') -> pfx P (flat_map ser_val vs) -> (length P < fuel)%nat ->
  isErr (attr_values_loop fuel env (pst dst P) acc)
  \/ exists acc' st', attr_values_loop fuel env (pst dst P) acc = POk (acc', st') /\ small (s_rest st').
Proof.
  unfold env. induction vs as [|v vs IH]; intros dst o dst' fuel acc P H Hp Hf.
  - apply pfx_nil_inv in Hp. subst P. destruct fuel as [|f]; [lia|]. right. eexists. eexists. split; [reflexivity|left; reflexivity].
  - cbn [den_vals] in H. destruct (den_val denv v dst) as [[b st1]|] eqn:Ev; [|discriminate].
    destruct (den_vals denv vs st1) as [[b' st2]|] eqn:Evs; [|discriminate].
    destruct fuel as [|f]; [lia|]. cbn [flat_map] in Hp. apply pfx_app in Hp. destruct Hp as [Hp|(P' & -> & Hp)].
    + destruct P as [|b0 P0] eqn:EP.
      * right. eexists. eexists. split; [reflexivity|left; reflexivity].
      * rewrite <- EP in *. assert (Hne : P <> []) by (subst P; discriminate).
        cbn [attr_values_loop pst s_rest]. destruct (is_attr_value P) eqn:Eav.
        -- left. destruct (attrval_prefix l tb ver cs v dst b st1 P Ev Hp Hne) as [e He]. rewrite He. eexists. reflexivity.
        -- right. eexists. eexists. split; [reflexivity|]. right. cbn [s_rest pst].
           apply (val_prefix_shape l tb v dst b st1 P Ev Hp Hne Eav).
    + destruct (ser_val_head l tb v dst b st1 P' Ev) as (Hav & _ & Hl).
      cbn [attr_values_loop pst s_rest]. rewrite Hav.
      destruct (attrval_ok l tb ver cs Hcs v dst b st1 P' Ev) as [ro [Hpv Ho]]. rewrite Hpv.
      rewrite app_length in Hf. apply (IH st1 b' st2 f (app_opt acc ro) P' Evs Hp). lia.
Qed.

Lemma astart_prefix a dst name prefix dst1 P :
  den_astart denv a dst = Some (name, prefix, dst1) -> pp P (ser_astart a) -> P <> [] ->
  isErr (parse_attr_start env (pst dst P)).
Proof.
  unfold env. intros H Hp Hne. destruct a as [sw t|i]; cbn [den_astart] in H; cbn [ser_astart] in Hp.
  - destruct sw as [p|]; cbn [ser_sw app] in Hp.
    + apply pp_sw_cases in Hp. destruct Hp as [->|[Ht|(P' & -> & Hp & Hne')]]; [congruence| |].
      * apply small_attr_start_err. right. exact Ht.
      * apply pp_single in Hp. congruence.
    + apply pp_single in Hp. congruence.
  - destruct (u32_okb i) eqn:Ei; [|discriminate].
    apply pp_cons in Hp. destruct Hp as [->|(P' & -> & Hp)]; [congruence|].
    unfold parse_attr_start, parse_literal. cbn [pst s_rest is_token N.eqb Pos.eqb parse_uint8].
    rewrite (mb_prefix_err i P' (u32_okb_lt _ Ei) Hp). eexists. reflexivity.
Qed.

(* what follows an attribute list item is never taken for a value, nor for END, when cut anywhere *)
Lemma after_attr_not_value al dst res dst' P : den_attrs denv al dst = Some (res, dst') ->
  pfx P (flat_map ser_attr al ++ [1]) -> is_attr_value P = false.
Proof.
  intros H (Q & E). destruct (is_attr_value P) eqn:Ev; [|reflexivity]. exfalso.
  apply (iav_mono P Q) in Ev. rewrite <- E in Ev.
  destruct al as [|a al]; cbn [flat_map app] in Ev.
  - rewrite is_attr_value_nz in Ev by reflexivity. discriminate.
  - cbn [den_attrs] in H. destruct (den_attr denv a dst) as [[[n v] st1]|] eqn:Ea; [|discriminate].
    rewrite <- app_assoc in Ev.
    destruct (ser_attr_head l tb a dst n v st1 (flat_map ser_attr al ++ [1]) Ea) as (Hav & _). congruence.
Qed.

Lemma after_attr_not_end a al dst res dst' P : den_attrs denv (a :: al) dst = Some (res, dst') ->
  pfx P (flat_map ser_attr (a :: al) ++ [1]) -> is_token P 1 = false.
Proof.
  intros H (Q & E). destruct (is_token P 1) eqn:Ev; [|reflexivity]. exfalso.
  apply (is_token_mono P Q) in Ev. rewrite <- E in Ev. cbn [flat_map] in Ev.
  cbn [den_attrs] in H. destruct (den_attr denv a dst) as [[[n v] st1]|] eqn:Ea; [|discriminate].
  rewrite <- app_assoc in Ev.
  destruct (ser_attr_head l tb a dst n v st1 (flat_map ser_attr al ++ [1]) Ea) as (_ & H1 & _). congruence.
Qed.

(* 1*attribute END cut anywhere: an error *)
Lemma attrs_loop_prefix al : forall dst res dst' fuel acc P,
  den_attrs denv al dst = Some (res, dst') -> al <> [] ->
  pp P (flat_map ser_attr al ++ [1]) -> (length P < fuel)%nat ->
  isErr (attrs_loop fuel env (pst dst P) acc).
Proof.
  unfold env. induction al as [|a al IH]; intros dst res dst' fuel acc P H Hne Hp Hf; [congruence|].
  pose proof H as Hall.
  cbn [den_attrs] in H. destruct (den_attr denv a dst) as [[[n v] st1]|] eqn:Ea; [|discriminate].
  destruct (den_attrs denv al st1) as [[res' st2]|] eqn:Eal; [|discriminate].
  destruct fuel as [|f]; [lia|].
  destruct P as [|b0 P0] eqn:EP; [apply small_attrs_err; left; reflexivity|]. rewrite <- EP in *.
  assert (HneP : P <> []) by (subst P; discriminate).
  cbn [flat_map] in Hp. rewrite <- app_assoc in Hp.
  (* the attribute a = start ++ values *)
  pose proof Ea as Ea'. unfold den_attr in Ea'.
  destruct (den_attr_raw denv a dst) as [[[n0 v0] st0]|] eqn:Er; [|discriminate].
  destruct (attr_raw_split l tb a dst n0 v0 st0 Er) as (prefix & sta & vs & Hs & Hv & ->).
  unfold ser_attr in Hp. rewrite <- app_assoc in Hp.
  apply pp_app in Hp. destruct Hp as [Hp|(P1 & -> & Hp)].
  - (* inside the attribute start *)
    cbn [attrs_loop]. unfold parse_attribute.
    destruct (astart_prefix (wa_start a) dst n0 prefix sta P Hs Hp HneP) as [e He]. unfold env in He. rewrite He.
    eexists. reflexivity.
  - destruct (astart_ok l tb ver cs Hcs (wa_start a) dst n0 prefix sta P1 Hs) as [start [Hps Ho]].
    destruct (ser_astart_head' l tb (wa_start a) dst n0 prefix sta [] Hs) as (_ & _ & Hl).
    rewrite app_length in Hf.
    apply pp_app in Hp. destruct Hp as [Hp|(P2 & -> & Hp)].
    + (* inside the values *)
      cbn [attrs_loop]. unfold parse_attribute. rewrite Hps.
      destruct (vals_loop_prefix (wa_vals a) sta vs st0 f (opt_bytes start) P1 Hv (pp_pfx _ _ Hp)) as [[e He]|(acc' & st' & He & Hsm)]; [lia| |].
      * unfold env in He. rewrite He. eexists. reflexivity.
      * unfold env in He. rewrite He.
        pose proof (attr_typed_nofuel (penv_of l tb ver cs) n0 acc') as Hnf.
        destruct (attr_typed (penv_of l tb ver cs) n0 acc') as [v'|e|]; [|eexists; reflexivity|contradiction].
        assert (Hnot1 : is_token (s_rest st') 1 = false) by (destruct Hsm as [->|[->|(p & ->)]]; reflexivity).
        rewrite Hnot1.
        destruct f as [|f']; [lia|].
        replace st' with (pst (mk_dstate (s_tagcp st') (s_attrcp st') (s_cur st')) (s_rest st')) by (destruct st'; reflexivity).
        apply small_attrs_err. exact Hsm.
    + (* the whole attribute, then a prefix of what follows *)
      assert (Hnv : is_attr_value P2 = false) by (apply (after_attr_not_value al st1 res' st2 P2 Eal (pp_pfx _ _ Hp))).
      pose proof (attr_ok l tb ver cs Hcs Hdt a dst n v st1 f P2 Ea Hnv) as Hpa.
      unfold ser_attr in Hpa. rewrite <- app_assoc in Hpa.
      cbn [attrs_loop]. rewrite Hpa by (rewrite app_length in *; lia).
      cbn [pst s_rest].
      destruct al as [|a2 al'].
      * cbn [flat_map app] in Hp. apply pp_single in Hp. subst P2. cbn [is_token].
        destruct f as [|f']; [rewrite !app_length in Hf; lia|]. apply small_attrs_err. left. reflexivity.
      * rewrite (after_attr_not_end a2 al' st1 res' st2 P2 Eal (pp_pfx _ _ Hp)).
        apply (IH st1 res' st2 f (acc ++ [(n, v)]) P2 Eal); [discriminate|exact Hp|rewrite !app_length in Hf; lia].
Qed.

(* PI attrStart *attrValue END cut anywhere (after the PI token): an error *)
Lemma pi_vals_prefix vs : forall dst o dst' fuel acc P,
  den_vals denv vs dst = Some (o, dst') -> pp P (flat_map ser_val vs ++ [1]) -> (length P < fuel)%nat ->
  isErr (pi_values_loop fuel env (pst dst P) acc).
Proof.
  unfold env. induction vs as [|v vs IH]; intros dst o dst' fuel acc P H Hp Hf.
  - cbn [flat_map app] in Hp. apply pp_single in Hp. subst P. destruct fuel as [|f]; [lia|].
    rewrite eob_pi_values by reflexivity. eexists. reflexivity.
  - cbn [den_vals] in H. destruct (den_val denv v dst) as [[b st1]|] eqn:Ev; [|discriminate].
    destruct (den_vals denv vs st1) as [[b' st2]|] eqn:Evs; [|discriminate].
    destruct fuel as [|f]; [lia|]. cbn [flat_map] in Hp. rewrite <- app_assoc in Hp.
    apply pp_app in Hp. destruct Hp as [Hp|(P' & -> & Hp)].
    + destruct P as [|b0 P0] eqn:EP; [rewrite eob_pi_values by reflexivity; eexists; reflexivity|]. rewrite <- EP in *.
      assert (Hne : P <> []) by (subst P; discriminate).
      assert (H1 : is_token P 1 = false).
      { destruct (is_token P 1) eqn:E1; [|reflexivity]. exfalso. destruct Hp as (Q & _ & EQ).
        apply (is_token_mono P Q) in E1. rewrite <- EQ in E1.
        destruct (ser_val_head l tb v dst b st1 [] Ev) as (_ & Hn1 & _). rewrite app_nil_r in Hn1. congruence. }
      cbn [pi_values_loop pst s_rest]. rewrite H1.
      destruct (attrval_prefix l tb ver cs v dst b st1 P Ev Hp Hne) as [e He]. rewrite He. eexists. reflexivity.
    + destruct (ser_val_head l tb v dst b st1 P' Ev) as (_ & H1 & Hl).
      cbn [pi_values_loop pst s_rest]. rewrite H1.
      destruct (attrval_ok l tb ver cs Hcs v dst b st1 P' Ev) as [ro [Hpv Ho]]. rewrite Hpv.
      rewrite app_length in Hf. apply (IH st1 b' st2 f (app_opt acc ro) P' Evs Hp). lia.
Qed.

Lemma pi_prefix p dst evs dst' fuel P :
  den_pi denv p dst = Some (evs, dst') -> pp P (ser_pi p) -> P <> [] -> (length P <= fuel)%nat ->
  isErr (parse_pi fuel env (pst dst P)).
Proof.
  unfold env. intros H Hp Hne Hf. unfold den_pi in H.
  destruct (den_attr_raw denv p dst) as [[[n v0] st']|] eqn:Er; [|discriminate].
  destruct (attr_raw_split l tb p dst n v0 st' Er) as (prefix & st1 & vs & Hs & Hv & ->).
  unfold ser_pi in Hp. apply pp_cons in Hp. destruct Hp as [->|(P' & -> & Hp)]; [congruence|].
  unfold parse_pi. cbn [pst s_rest tl]. change (mk_pstate (67 :: P') (ds_tagcp dst) (ds_attrcp dst) (ds_cur dst)) with (pst dst (67 :: P')).
  rewrite set_rest_pst.
  unfold ser_attr in Hp. rewrite <- app_assoc in Hp. cbn [length] in Hf.
  destruct P' as [|b0 P0] eqn:EP.
  { destruct (small_attr_start_err dst [] (or_introl eq_refl)) as [e He]. unfold env in He. rewrite He. eexists. reflexivity. }
  rewrite <- EP in *. assert (HneP : P' <> []) by (subst P'; discriminate).
  apply pp_app in Hp. destruct Hp as [Hp|(P1 & -> & Hp)].
  - destruct (astart_prefix (wa_start p) dst n prefix st1 P' Hs Hp HneP) as [e He]. unfold env in He. rewrite He. eexists. reflexivity.
  - destruct (astart_ok l tb ver cs Hcs (wa_start p) dst n prefix st1 P1 Hs) as [start [Hps Ho]]. rewrite Hps.
    destruct (ser_astart_head' l tb (wa_start p) dst n prefix st1 [] Hs) as (_ & _ & Hl).
    rewrite app_length in Hf.
    destruct (pi_vals_prefix (wa_vals p) st1 vs st' fuel (opt_bytes start) P1 Hv Hp) as [e He]; [lia|].
    unfold env in He. rewrite He. eexists. reflexivity.
Qed.

End Pre2.
