(* C06 — from the generic tree induction (Proofs/EncWbxmlDenote6.v) to the document-level statement, ONCE for any class of
   languages: a class provides its attribute / text lemmas (for every final table), where CDATA sections and embedded trees
   may stand, and that its trees hold octets only; the theorem is the whole C06 statement for the class. *)
From Coq Require Import List NArith Lia Bool.
From Wbxml Require Import Base.Bits Model.Codec Model.TablesDefs Model.EncWbxml Model.TreeNorm Model.EncWbxmlEvents
     Proofs.EncWbxmlProofs Proofs.TreeNormProofs Proofs.EncWbxmlAbs Proofs.EncWbxmlStrict2 Proofs.EncWbxmlDenote2
     Proofs.EncWbxmlMerge Proofs.EncWbxmlTblOk Proofs.EncWbxmlDenote3 Proofs.EncWbxmlAbs4 Proofs.EncWbxmlDenote4 Proofs.EncWbxmlAbs5
     Proofs.EncWbxmlDenote5 Proofs.EncWbxmlDenote6.
From Wbxml Require Model.Parser Model.Spec Proofs.EncWbxmlDenote Proofs.ParserProofsStrict3.
Import ListNotations.
Local Open Scope N_scope.

(* ---- the table keeps octets < 256 on trees with CDATA sections and embedded trees ---------------------------------------------- *)
Section Lt6.
  Variable tbl : list blang.
  Variable L : lang.
  Variable e : env.
  Variable aok : tagname -> list attr -> attr -> bool.
  Variable tok : bool -> option tagname -> bytes -> bool.
  Variable cok : bool -> option tagname -> bool.
  Variable eok : bool -> option tagname -> N -> list node -> bool.
  Variable sy : bool.
  Hypothesis Haok : forall tg na a, aok tg na a = true -> attr_ok3 L a = true.
  Hypothesis Htok : forall f p c, tok f p c = true -> allc S.is_byte c = true.

  Lemma cdata_piece_lt c : allc S.is_byte (cdata_piece sy (NText c)) = true -> allc S.is_byte c = true.
  Proof.
    cbn [cdata_piece]. destruct (sy && beq c [10]) eqn:B; [|auto]. intros _.
    apply andb_true_iff in B as [_ B]. apply beq_eq in B. subst c. reflexivity.
  Qed.

  Lemma cdata_kids_lt l ch : forallb is_textb ch = true -> S.bytes_okb (cdata_of sy ch) = true ->
    forallb (allc S.is_byte) (flat_map (collect_node l) ch) = true.
  Proof.
    induction ch as [|x r IH]; [reflexivity|]. cbn [forallb]. intros Ht Hb. apply andb_true_iff in Ht as [Hx Hr].
    destruct x as [| c | | |]; try discriminate. unfold cdata_of in Hb. cbn [flat_map] in Hb. unfold S.bytes_okb in Hb. rewrite forallb_app in Hb.
    apply andb_true_iff in Hb as [H1 H2]. cbn [flat_map]. rewrite forallb_app, (IH Hr H2), andb_true_r.
    cbn [collect_node]. destruct (only_ws c); [reflexivity|]. destruct (3 <? len c); [|reflexivity]. cbn [forallb]. rewrite andb_true_r.
    exact (cdata_piece_lt c H1).
  Qed.

  Lemma collect_node_lt6 l : forall n d f p, tree_ok6 L aok tok cok eok sy d f p n = true -> forallb (allc S.is_byte) (collect_node l n) = true.
  Proof.
    induction n as [tag attrs ch IH|c|ch IH| |lid roots IH] using node_ind'; intros d f p H; cbn [tree_ok6] in H; try discriminate.
    - apply andb_true_iff in H as [H Hch]. apply andb_true_iff in H as [_ Hat]. fold (kids_ok6 L aok tok cok eok sy (d + 1) (Some tag)) in Hch.
      cbn [collect_node]. rewrite forallb_app. apply andb_true_iff. split.
      + apply (aoks_ok3 L (aok tag attrs) (Haok tag attrs)) in Hat. clear -Hat. induction attrs as [|a r IHa]; [reflexivity|]. cbn [forallb flat_map] in *.
        apply andb_true_iff in Hat as [H1 H2]. now rewrite forallb_app, (collect_attr_lt l L a H1), IHa.
      + assert (K : forall f0, kids_ok6 L aok tok cok eok sy (d + 1) (Some tag) f0 ch = true -> forallb (allc S.is_byte) (flat_map (collect_node l) ch) = true).
        { clear Hch. induction IH as [|x r Hx _ IHr]; intros f0 Hch; [reflexivity|]. cbn [kids_ok6 forallb flat_map] in *.
          apply andb_true_iff in Hch as [H1 H2]. now rewrite forallb_app, (Hx _ _ _ H1), (IHr _ H2). }
        exact (K true Hch).
    - cbn [collect_node]. destruct (only_ws c); [reflexivity|]. destruct (3 <? len c); [|reflexivity]. cbn [forallb]. rewrite andb_true_r.
      exact (Htok _ _ _ H).
    - apply andb_true_iff in H as [H _]. apply andb_true_iff in H as [H Hb]. apply andb_true_iff in H as [_ Hall].
      cbn [collect_node]. exact (cdata_kids_lt l ch Hall Hb).
    - reflexivity.
  Qed.

  Lemma start_state_lt6 root d : tree_ok6 L aok tok cok eok sy d true None root = true -> tbl_lt (strtbl (start_state e [root])) = true.
  Proof.
    intros H. unfold start_state. destruct (e_use_strtbl e); [|reflexivity].
    destruct (strtbl_initialize (e_lang e) [root]) as [t n] eqn:I. cbn.
    apply (strtbl_initialize_all S.is_byte (e_lang e) [root] t n); [|exact I].
    unfold collect_nodes. cbn [flat_map]. rewrite app_nil_r. exact (collect_node_lt6 _ root d true None H).
  Qed.

  Lemma text_seq_same ch : forallb is_textb ch = true -> forall s its0 s1,
    abs_seq (abs_node5 tbl e) None ch s = Some (its0, s1) -> strtbl s1 = strtbl s.
  Proof.
    induction ch as [|y r IHr]; intros Hall s its0 s1; cbn [abs_seq]; [intros E; now injection E as _ <-|].
    cbn [forallb] in Hall. apply andb_true_iff in Hall as [Hy Hr]. destruct y as [| c0 | | |]; try discriminate.
    cbn [abs_node5]. destruct (abs_text5 e s None c0) as [[i1 s2]|] eqn:AT; [|discriminate].
    destruct (abs_seq (abs_node5 tbl e) None r (set_cur_tag s2 None)) as [[b sb]|] eqn:B; [|discriminate]. intros E; injection E as _ <-.
    rewrite (IHr Hr _ _ _ B). cbn. destruct (abs_text5_facts _ _ _ _ _ _ AT) as [[S1 _] _]. exact S1.
  Qed.

  Lemma abs_node6_lt : forall n par f d st items st', tree_ok6 L aok tok cok eok sy d f par n = true -> tbl_lt (strtbl st) = true ->
    abs_node5 tbl e par n st = Some (items, st') -> tbl_lt (strtbl st') = true.
  Proof.
    induction n as [tag attrs ch IH|c|ch IH| |lid roots IH] using node_ind'; intros par f d st items st' HT Ht; cbn [tree_ok6] in HT; try discriminate.
    - cbn [abs_node5]. apply andb_true_iff in HT as [HT Hch]. apply andb_true_iff in HT as [HT Hat]. apply andb_true_iff in HT as [_ Htag].
      fold (kids_ok6 L aok tok cok eok sy (d + 1) (Some tag)) in Hch.
      destruct (abs_tag e st tag _ _) as [[[sw wtag] st1]|] eqn:AT; [|discriminate].
      destruct (if has_attr_table e then abs_attrs5 e st1 attrs attrs else Some ([], st1)) as [[ws st2]|] eqn:AA; [|discriminate].
      destruct (abs_seq (abs_node5 tbl e) (Some tag) ch st2) as [[its st3]|] eqn:AS; [|discriminate].
      intros E; injection E as _ <-. cbn [strtbl set_cur_tag].
      assert (T1 : tbl_lt (strtbl st1) = true).
      { refine (abs_tag_all S.is_byte okb_lt _ _ _ _ _ _ _ _ _ Ht AT). unfold tag_cond in Htag. destruct tag as [p t o nm|nm].
        - repeat (apply andb_true_iff in Htag; destruct Htag as [Htag ?]). apply N.eqb_neq. apply N.leb_le in Htag. lia.
        - now apply andb_true_iff in Htag as [Htag _]. }
      assert (T2 : tbl_lt (strtbl st2) = true).
      { destruct (has_attr_table e); [exact (abs_attrs5_lt L e _ _ _ _ _ (aoks_ok3 L (aok tag attrs) (Haok tag attrs) _ Hat) T1 AA)|now injection AA as _ <-]. }
      assert (K : forall f0 st2 its st3, tbl_lt (strtbl st2) = true -> abs_seq (abs_node5 tbl e) (Some tag) ch st2 = Some (its, st3) ->
                  kids_ok6 L aok tok cok eok sy (d + 1) (Some tag) f0 ch = true -> tbl_lt (strtbl st3) = true).
      { clear AT AA AS Hch T2. induction IH as [|x r Hx _ IHr]; intros f0 s2 its0 s3 T2; cbn [abs_seq].
        - intros E _; injection E as _ <-. exact T2.
        - cbn [kids_ok6]. destruct (abs_node5 tbl e (Some tag) x s2) as [[a sa]|] eqn:A; [|discriminate].
          destruct (abs_seq (abs_node5 tbl e) (Some tag) r sa) as [[b sb]|] eqn:B; [|discriminate]. intros E Hk; injection E as _ <-.
          apply andb_true_iff in Hk as [H1 H2].
          exact (IHr false _ _ _ (Hx _ _ _ _ _ _ H1 T2 A) B H2). }
      exact (K true _ _ _ T2 AS Hch).
    - cbn [abs_node5]. destruct (abs_text5 e st par c) as [[its st1]|] eqn:AT; [|discriminate]. intros E; injection E as _ <-.
      destruct (abs_text5_facts _ _ _ _ _ _ AT) as [[S1 _] _]. cbn. unfold tbl_lt in *. now rewrite S1.
    - (* CDATA: the table is not touched *)
      cbn [abs_node5]. destruct (cdata st); [discriminate|].
      destruct (abs_seq (abs_node5 tbl e) None ch (set_cdata st true (Some []))) as [[its st1]|] eqn:AS; [|discriminate].
      apply andb_true_iff in HT as [HT _]. apply andb_true_iff in HT as [HT _]. apply andb_true_iff in HT as [_ Hall].
      destruct (cdata st1); [|discriminate]. intros E; injection E as _ <-. cbn [strtbl set_cur_tag set_cdata].
      rewrite (text_seq_same ch Hall _ _ _ AS). exact Ht.
    - (* embedded tree: the outer table is not touched *)
      cbn [abs_node5]. destruct (find_lang tbl lid); [|discriminate]. cbv zeta.
      destruct (parse_nodes tbl _ None roots _) as [[body st0]|c]; [|discriminate]. intros E; injection E as _ <-. exact Ht.
  Qed.
End Lt6.

Lemma tree_ok6_frag5 L aok tok cok eok sy : forall n d f p, tree_ok6 L aok tok cok eok sy d f p n = true -> frag5_node n = true.
Proof.
  induction n as [tag attrs ch IH|c|ch IH| |lid roots IH] using node_ind'; intros d f p H; cbn [tree_ok6] in H; try discriminate; try reflexivity.
  - apply andb_true_iff in H as [H Hch]. apply andb_true_iff in H as [H _]. apply andb_true_iff in H as [_ Htag].
    fold (kids_ok6 L aok tok cok eok sy (d + 1) (Some tag)) in Hch. cbn [frag5_node]. apply andb_true_iff. split.
    + unfold tag_cond in Htag. destruct tag as [p0 t o nm|nm]; [|reflexivity].
      apply andb_true_iff in Htag as [Htag _]. apply andb_true_iff in Htag as [Htag _]. unfold tok_ok. rewrite Htag. apply orb_true_r.
    + assert (K : forall f0, kids_ok6 L aok tok cok eok sy (d + 1) (Some tag) f0 ch = true -> forallb frag5_node ch = true).
      { clear Hch. induction IH as [|x r Hx _ IHr]; intros f0 Hch; [reflexivity|]. cbn [kids_ok6 forallb] in *.
        apply andb_true_iff in Hch as [H1 H2]. now rewrite (Hx _ _ _ H1), (IHr _ H2). }
      exact (K true Hch).
  - apply andb_true_iff in H as [H _]. apply andb_true_iff in H as [H _]. apply andb_true_iff in H as [_ Hall].
    cbn [frag5_node]. clear -Hall. induction ch as [|x r IHr]; [reflexivity|]. cbn [forallb] in *.
    apply andb_true_iff in Hall as [Hx Hr]. destruct x; try discriminate. cbn [frag5_node]. exact (IHr Hr).
Qed.

(* ---- the document-level theorem, for any class ------------------------------------------------------------------------------------ *)
Definition doc_events6 (tbl : list blang) (L : lang) (e : env) (acan : tagname -> list attr -> attr -> bytes)
           (tev : bool -> option tagname -> bytes -> list P.event) (root : node) : list P.event :=
  P.EvStartDoc 106 (l_id L)
    :: events6 acan tev (is_syncml (e_lang e)) (emb_doc tbl e) (has_attr_table e) true None root ++ [P.EvEndDoc].

Theorem decode_class6 tblb TBL L o tag attrs ch bs
        (aok : tagname -> list attr -> attr -> bool) (acan : tagname -> list attr -> attr -> bytes) (tok : bool -> option tagname -> bytes -> bool)
        (tev : bool -> option tagname -> bytes -> list P.event) (cok : bool -> option tagname -> bool)
        (eok : bool -> option tagname -> N -> list node -> bool) :
  let e := enc_env (to_blang L) o in
  (* the class *)
  (forall tg na a, aok tg na a = true -> attr_ok3 L a = true) ->
  (forall f p c, tok f p c = true -> allc S.is_byte c = true) ->
  (forall TF tb, (forall x, In x TF -> okb (s_str x) = true -> S.str_at tb (s_off x) = Some (s_str x)) ->
                 (forall x, In x TF -> S.u32_okb (s_off x) = true) -> (forall x, In x TF -> ref_str TF (s_off x) = s_str x) ->
     forall tg l st na ws st' (dst : S.dstate),
       sub TF st' -> forallb (aok tg na) l = true -> cur_tag st = ctag_of (Some tg) -> in_cdata st = false -> S.ds_attrcp dst = attrcp st ->
       abs_attrs5 e st na l = Some (ws, st') ->
       exists dst', S.den_attrs (S.mk_denv L tb) ws dst = Some (map (attr_event5 (acan tg na)) l, dst') /\
                    S.ds_attrcp dst' = attrcp st' /\ S.ds_tagcp dst' = S.ds_tagcp dst /\ S.ds_cur dst' = S.ds_cur dst /\
                    tagcp st' = tagcp st /\ cur_tag st' = cur_tag st /\ in_cdata st' = false) ->
  (forall TF tb, (forall x, In x TF -> okb (s_str x) = true -> S.str_at tb (s_off x) = Some (s_str x)) ->
                 (forall x, In x TF -> S.u32_okb (s_off x) = true) -> (forall x, In x TF -> ref_str TF (s_off x) = s_str x) ->
     forall (first : bool) st par c items st' d me (dst : S.dstate),
       sub TF st' -> in_cdata st = false -> cur_tag st = (if first then ctag_of par else None) -> dcur_ok first par dst me ->
       tok first par c = true -> abs_text5 e st par c = Some (items, st') ->
       exists evs, D1.den_items (S.mk_denv L tb) d me items dst = Some (evs, dst) /\
                   merge_chars evs = merge_chars (tev first par c) /\
                   tagcp st' = tagcp st /\ attrcp st' = attrcp st /\ in_cdata st' = false) ->
  (forall first par, cok first par = true -> plain_parent L par) ->
  (forall first par lid roots, eok first par lid roots = true ->
     plain_parent L par /\ S.bytes_okb (emb_doc tblb e lid roots) = true /\ len (emb_doc tblb e lid roots) < 4294967296) ->
  (* the document *)
  tag_tbl_ok e = true ->
  tree_ok6 L aok tok cok eok (is_syncml (e_lang e)) 0 true None (NElt tag attrs ch) = true ->
  find (fun x => l_id x =? l_id L) TBL = Some L ->
  o_version o < 4 -> header_public_id e < 4294967296 -> header_public_id e <> 0 ->
  (match header_pid e with Some p => okb p = true | None => True end) ->
  len bs < 4294967296 ->
  enc_wbxml tblb (to_blang L) o [NElt tag attrs ch] = EOk bs ->
  exists d evs, bs = S.serialize d /\ S.strict_doc d = true /\
            S.denote_with TBL (Some L) d = Some evs /\ S.decode_lang TBL (l_id L) bs = Some evs /\
            merge_chars evs = merge_chars (doc_events6 tblb L e acan tev (NElt tag attrs ch)).
Proof.
  cbv zeta. intros Haok Htok PA PT HCK HEK HTB HT HFind Hv Hp1 Hp0 Hpid Hlen E. set (e := enc_env (to_blang L) o) in *.
  assert (HE : e_lang e = to_blang L) by reflexivity.
  pose proof (tree_ok6_frag5 L aok tok cok eok _ _ _ _ _ HT) as HF.
  destruct (enc_wbxml_full tblb (to_blang L) o tag attrs ch bs HTB HF E Hlen) as (body & st' & root & EB & AN & HS & Hstrict).
  fold e in AN, HS, Hstrict.
  assert (Hsz : if e_use_strtbl e then tbl_size (final_tbl e st') < 4294967296
                else match header_pid e with Some p => len p + 1 < 4294967296 | None => True end).
  { rewrite enc_wbxml_form_local, EB in E. injection E as <-. rewrite len_app in Hlen.
    pose proof (fill_header_len e st') as HL. fold e in Hlen.
    destruct (e_use_strtbl e); [lia|]. destruct (header_pid e); [lia|exact I]. }
  destruct (abs_node5_facts tblb e _ _ _ _ _ AN) as (_ & _ & Hsame).
  assert (NOTBL : e_use_strtbl e = false -> strtbl st' = [] /\ strtbl_len st' = 0).
  { intros HU. destruct (Hsame HU) as [S1 S2]. unfold start_state in S1, S2. rewrite HU in S1, S2. cbn in S1, S2. auto. }
  assert (TLT : tbl_lt (strtbl st') = true)
    by (exact (abs_node6_lt tblb L e aok tok cok eok _ Haok Htok _ None true 0 _ _ _ HT (start_state_lt6 L e aok tok cok eok _ Haok Htok _ 0 HT) AN)).
  destruct (final_facts_gen tblb (to_blang L) o _ _ st' EB TLT NOTBL Hpid Hsz) as (G1 & G2 & G3 & G4 & G5 & G6 & G7 & G8 & G9).
  assert (Hst0 : tagcp (start_state e [NElt tag attrs ch]) = 0 /\ attrcp (start_state e [NElt tag attrs ch]) = 0 /\
                 cur_tag (start_state e [NElt tag attrs ch]) = None /\ in_cdata (start_state e [NElt tag attrs ch]) = false).
  { unfold start_state. destruct (e_use_strtbl e); [destruct (strtbl_initialize _ _)|]; cbn; auto. }
  destruct Hst0 as (Z2 & Z3 & Z4 & Z5).
  assert (Hdc : dcur6 true None (S.mk_dstate 0 0 None) None) by (intros p t o0 nm Ep; discriminate).
  destruct (all_node_den6 tblb L e HE (final_tbl e st') (doc_strtbl e st') G1 G2 aok acan tok tev cok eok
              (PA _ _ G1 G2 G3) (PT _ _ G1 G2 G3) HCK HEK
              (NElt tag attrs ch) true None 0 None _ [root] st' (S.mk_dstate 0 0 None) HT G4 Z5 Z4 Hdc (eq_sym Z2) (eq_sym Z3) AN)
    as (evs & dst' & DN & MG & _).
  assert (Hden : exists evs', S.denote_with TBL (Some L) (abs_doc2 e st' root) = Some evs' /\
                              merge_chars evs' = merge_chars (doc_events6 tblb L e acan tev (NElt tag attrs ch))).
  { cbn [abs_node5] in AN.
    destruct (abs_tag e _ tag _ _) as [[[sw wtag] st2]|]; [|discriminate].
    destruct (if has_attr_table e then abs_attrs5 e st2 attrs attrs else Some ([], st2)) as [[ws st3]|]; [|discriminate].
    destruct (abs_seq (abs_node5 tblb e) (Some tag) ch st3) as [[its st4]|]; [|discriminate]. injection AN as <- <-.
    eexists. split; [eapply doc_wrap; [exact DN|exact Hv|exact Hp1|exact Hp0|exact G5|exact G6|exact G7]|].
    unfold doc_events6. cbn [merge_chars]. f_equal.
    apply merge_app_congr; [|reflexivity]. exact MG. }
  destruct Hden as (evs' & Hden & MG').
  exists (abs_doc2 e st' root), evs'. split; [exact HS|]. split; [exact Hstrict|]. split; [exact Hden|]. split; [|exact MG'].
  rewrite HS. apply Proofs.ParserProofsStrict3.decode_lang_serialize; [|exact Hstrict]. rewrite HFind. exact Hden.
Qed.
