(* C03 (tree builder) — (B) the shape of the parser's events and the depth of the tree built from them. *)
From Coq Require Import String Ascii.
From Coq Require Import List NArith ZArith Lia Bool.
From Wbxml Require Import Model.Codec Model.TablesDefs Model.Parser Model.TreeBuild
     Proofs.ParserTotal Proofs.ParserDepth Proofs.TreeBuildProofs.
Import ListNotations.
Local Open Scope N_scope.

(* ---- the events of a successful parse: StartDoc, PIs, one root element, PIs, EndDoc ---- *)
Definition is_pi (e : event) : bool := match e with EvPi _ _ => true | _ => false end.
Definition all_pi (l : list event) : bool := forallb is_pi l.

Lemma parse_pi_is_pi fuel env st evs st' : parse_pi fuel env st = POk (evs, st') -> all_pi evs = true.
Proof.
  unfold parse_pi. destruct (parse_attr_start env _) as [[[n s] st1]|e|]; try discriminate.
  destruct (pi_values_loop fuel env st1 _) as [[v st2]|e|]; try discriminate.
  intros H. injection H as <- _. reflexivity.
Qed.

Lemma body_pi_loop_all_pi fuel : forall env st evs st', body_pi_loop fuel env st = POk (evs, st') -> all_pi evs = true.
Proof.
  induction fuel as [|f IH]; intros env st evs st'; cbn [body_pi_loop]; [discriminate|].
  destruct (is_token (s_rest st) 67); [|intros H; injection H as <- _; reflexivity].
  destruct (parse_pi f env st) as [[e1 st1]|e|] eqn:E1; try discriminate.
  destruct (body_pi_loop f env st1) as [[e2 st2]|e|] eqn:E2; try discriminate.
  intros H. injection H as <- _. pose proof (parse_pi_is_pi _ _ _ _ _ E1) as H1. pose proof (IH _ _ _ _ E2) as H2.
  unfold all_pi in *. rewrite forallb_app, H1, H2. reflexivity.
Qed.

Lemma element_with_shape d fuel env cloop st evs st' :
  (forall s e s', cloop s = POk (e, s') -> bal d e) ->
  parse_element_with fuel env cloop st = POk (evs, st') ->
  exists t a inner, evs = EvStartElt t a :: inner ++ [EvEndElt t] /\ bal d inner.
Proof.
  intros Hc. unfold parse_element_with.
  destruct (opt_switch_page TagSpace st) as [st0|e|]; try discriminate.
  destruct (parse_stag env st0) as [[[tag elt] r]|e|]; try discriminate. cbn zeta.
  destruct (if N.land tag 128 =? 128 then _ else _) as [[attrs st2]|e|]; try discriminate.
  destruct (N.land tag 64 =? 64).
  - destruct (cloop st2) as [[e s3]|e|] eqn:Ec; try discriminate. intros H. injection H as <- _.
    exists elt, attrs, e. split; [reflexivity|apply (Hc _ _ _ Ec)].
  - intros H. injection H as <- _. exists elt, attrs, []. split; [reflexivity|constructor].
Qed.

Definition doc_shape (evs : list event) : Prop :=
  exists cs lid p1 t a inner p2,
    evs = EvStartDoc cs lid :: (p1 ++ (EvStartElt t a :: inner ++ [EvEndElt t]) ++ p2) ++ [EvEndDoc]
    /\ all_pi p1 = true /\ all_pi p2 = true /\ bal 1000 inner.

Theorem parse_doc_shape tbl forced meta fuel bs evs : parse_with tbl forced meta fuel bs = POk evs -> doc_shape evs.
Proof.
  unfold parse_with. destruct bs as [|b0 bs0]; [discriminate|].
  destruct (parse_uint8 _) as [[version r0]|e|]; try discriminate.
  destruct (parse_publicid r0) as [[[pubid pubidx] r1]|e|]; try discriminate.
  destruct (if version =? 0 then _ else _) as [[charset r2]|e|]; try discriminate.
  destruct (parse_strtbl r2) as [[[strtbl strtbl_len] r3]|e|]; try discriminate.
  destruct (check_public_id _ _ _ _ _ _ _) as [l|]; try discriminate.
  destruct (parse_body _ _ _) as [[body st']|e|] eqn:Eb; try discriminate.
  intros H. injection H as <-.
  revert Eb. unfold parse_body.
  destruct (body_pi_loop _ _ _) as [[e1 st1]|e|] eqn:E1; try discriminate.
  destruct (parse_element _ _ st1) as [[e2 st2]|e|] eqn:E2; try discriminate.
  destruct (body_pi_loop _ _ st2) as [[e3 st3]|e|] eqn:E3; try discriminate.
  intros H. injection H as <- _.
  unfold parse_element in E2.
  destruct (element_with_shape 1000 _ _ _ _ _ _ (fun s e s' Hc => content_loop_bal _ _ 0 s e s' ltac:(lia) Hc) E2) as (t & a & inner & -> & Hb).
  unfold doc_shape. eexists. eexists. exists e1, t, a, inner, e3. split; [reflexivity|].
  repeat split; [apply (body_pi_loop_all_pi _ _ _ _ _ E1)|apply (body_pi_loop_all_pi _ _ _ _ _ E3)|exact Hb].
Qed.

(* ---- depth ---- *)
Fixpoint ndepth (n : tnode) : nat :=
  match n with
  | TElt _ _ ch => S (fold_right (fun c m => Nat.max (ndepth c) m) 0%nat ch)
  | TCData ch => fold_right (fun c m => Nat.max (ndepth c) m) 0%nat ch
  | _ => 0%nat
  end.
Definition ldepth (l : list tnode) : nat := fold_right (fun c m => Nat.max (ndepth c) m) 0%nat l.
Definition fdepth (f : frame) : nat := Nat.max (ldepth (f_done f)) (match f_cdata f with Some c => ldepth c | None => 0%nat end).
Definition tdepth (t : wtree) : nat := match wt_root t with Some r => ndepth r | None => 0%nat end.

Lemma ldepth_app a b : ldepth (a ++ b) = Nat.max (ldepth a) (ldepth b).
Proof. unfold ldepth. induction a as [|x a IH]; cbn [app fold_right]; [reflexivity|]. rewrite IH. lia. Qed.

Lemma ldepth_add_node l n : (ldepth (add_node l n) <= Nat.max (ldepth l) (ndepth n))%nat.
Proof.
  induction l as [|x r IH]; [unfold ldepth; cbn [add_node fold_right]; lia|]. destruct r as [|y r'].
  - cbn [add_node]. destruct x, n; unfold ldepth; cbn [fold_right]; cbn [ndepth]; lia.
  - change (add_node (x :: y :: r') n) with (x :: add_node (y :: r') n).
    change (ldepth (x :: add_node (y :: r') n)) with (Nat.max (ndepth x) (ldepth (add_node (y :: r') n))).
    change (ldepth (x :: y :: r')) with (Nat.max (ndepth x) (ldepth (y :: r'))). lia.
Qed.

Lemma frame_node_depth f : ndepth (frame_node f []) = S (fdepth f).
Proof.
  unfold frame_node, frame_children, fdepth, cdata_nodes. cbn [ndepth]. fold (ldepth (f_done f ++ match f_cdata f with Some c => [TCData c] | None => [] end ++ [])).
  rewrite app_nil_r, ldepth_app. destruct (f_cdata f) as [c|]; cbn [ldepth fold_right ndepth]; [fold (ldepth c)|]; lia.
Qed.

(* sequencing *)
Lemma build_from_app tbl ef a : forall b st,
  build_from tbl ef (a ++ b) st =
  match build_from tbl ef a st with BOk st1 => build_from tbl ef b st1 | BErr e => BErr e | BFuel => BFuel end.
Proof.
  induction a as [|e r IH]; intros b st; [rewrite (build_from_eq tbl ef [] st); reflexivity|].
  cbn [app]. rewrite (build_from_eq tbl ef (e :: r ++ b) st), (build_from_eq tbl ef (e :: r) st). unfold bnext.
  destruct e as [cs lid|t attrs|ch|tg dt|t|]; try apply IH.
  - destruct (cb_start_element t attrs st); try reflexivity. apply IH.
  - destruct (syncml_data_type (b_stack st)).
    + destruct (add_to_current st (TText ch)); try reflexivity. apply IH.
    + destruct ef as [|lv].
      * destruct (add_to_current st (TText ch)); try reflexivity. apply IH.
      * destruct (parse_with tbl 0 (b_charset st) (S (length ch)) ch) as [evs'| |]; try reflexivity.
        -- destruct (build_from tbl lv evs' st_init); try reflexivity.
           ++ cbv zeta. destruct (add_to_current st _); try reflexivity. apply IH.
           ++ destruct (add_to_current st (TText ch)); try reflexivity. apply IH.
        -- destruct (add_to_current st (TText ch)); try reflexivity. apply IH.
    + destruct (add_to_current (open_cdata st) (TText ch)); try reflexivity. apply IH.
  - destruct (cb_end_element st); try reflexivity. apply IH.
Qed.

Lemma build_from_nil tbl ef st : build_from tbl ef [] st = BOk st.
Proof. rewrite build_from_eq. reflexivity. Qed.
Lemma build_from_start tbl ef t a st : build_from tbl ef [EvStartElt t a] st = cb_start_element t a st.
Proof. rewrite build_from_eq. unfold bnext. destruct (cb_start_element t a st); try reflexivity. apply build_from_nil. Qed.
Lemma build_from_end tbl ef t st : build_from tbl ef [EvEndElt t] st = cb_end_element st.
Proof. rewrite build_from_eq. unfold bnext. destruct (cb_end_element st); try reflexivity. apply build_from_nil. Qed.
Lemma build_from_startdoc tbl ef cs lid st : build_from tbl ef [EvStartDoc cs lid] st = BOk (mk_bstate lid cs (b_stack st) (b_root st)).
Proof. rewrite build_from_eq. apply build_from_nil. Qed.
Lemma build_from_enddoc tbl ef st : build_from tbl ef [EvEndDoc] st = BOk st.
Proof. rewrite build_from_eq. apply build_from_nil. Qed.

Lemma build_from_pis tbl ef p st : all_pi p = true -> build_from tbl ef p st = BOk st.
Proof.
  revert st. induction p as [|e r IH]; intros st H; [apply build_from_nil|]. cbn [all_pi forallb] in H. apply andb_prop in H. destruct H as [He Hr].
  destruct e; try discriminate. rewrite build_from_eq. apply IH. exact Hr.
Qed.

(* a balanced run under an open element: the element stays open, its new children are at most d deep *)
Lemma run_bal tbl ef d evs : bal d evs -> forall st f up st',
  b_stack st = f :: up -> build_from tbl ef evs st = BOk st' ->
  exists f', b_stack st' = f' :: up /\ f_tag f' = f_tag f /\ f_attrs f' = f_attrs f
             /\ (fdepth f' <= Nat.max (fdepth f) d)%nat /\ b_root st' = b_root st.
Proof.
  induction 1 as [d|d e r Hf Hr IH|d t a inner r Hi IHi Hr IHr]; intros st f up st' Hs H.
  - rewrite build_from_nil in H. injection H as <-. exists f. repeat split; [exact Hs|lia].
  - assert (Hadd : forall s0 f0 n, b_stack s0 = f0 :: up -> f_tag f0 = f_tag f -> f_attrs f0 = f_attrs f ->
                     (fdepth f0 <= Nat.max (fdepth f) d)%nat -> b_root s0 = b_root st -> ndepth n = 0%nat ->
                     forall s1, add_to_current s0 n = BOk s1 -> build_from tbl ef r s1 = BOk st' ->
                     exists f', b_stack st' = f' :: up /\ f_tag f' = f_tag f /\ f_attrs f' = f_attrs f
                                /\ (fdepth f' <= Nat.max (fdepth f) d)%nat /\ b_root st' = b_root st).
    { intros s0 f0 n H0 Ht Ha Hd Hro Hn s1 Ea Hb. unfold add_to_current in Ea. rewrite H0 in Ea.
      set (fn := match f_cdata f0 with
                 | Some c => mk_frame (f_tag f0) (f_attrs f0) (f_done f0) (Some (add_node c n))
                 | None => mk_frame (f_tag f0) (f_attrs f0) (add_node (f_done f0) n) None end) in *.
      injection Ea as <-.
      destruct (IH (mk_bstate (b_lang s0) (b_charset s0) (fn :: up) (b_root s0)) fn up st' eq_refl Hb) as (f' & E1 & E2 & E3 & E4 & E5).
      cbn [b_root] in E5.
      assert (Hfn : f_tag fn = f_tag f0 /\ f_attrs fn = f_attrs f0 /\ (fdepth fn <= fdepth f0)%nat).
      { subst fn. unfold fdepth. destruct (f_cdata f0) as [c|]; cbn [f_tag f_attrs f_done f_cdata]; repeat split.
        - pose proof (ldepth_add_node c n). lia.
        - pose proof (ldepth_add_node (f_done f0) n). lia. }
      destruct Hfn as (T1 & T2 & T3).
      exists f'. repeat split; try congruence. lia. }
    destruct e as [cs lid|t attrs|ch|tg dt|t|]; cbn [flat] in Hf; try contradiction; rewrite build_from_eq in H; unfold bnext in H.
    + destruct (IH (mk_bstate lid cs (b_stack st) (b_root st)) f up st' Hs H) as (f' & E). exists f'. exact E.
    + destruct (syncml_data_type (b_stack st)).
      * destruct (add_to_current st (TText ch)) as [s1|er1|] eqn:Ea; try discriminate.
        apply (Hadd st f (TText ch) Hs eq_refl eq_refl ltac:(lia) eq_refl eq_refl s1 Ea H).
      * destruct ef as [|lv].
        { destruct (add_to_current st (TText ch)) as [s1|er1|] eqn:Ea; try discriminate.
          apply (Hadd st f (TText ch) Hs eq_refl eq_refl ltac:(lia) eq_refl eq_refl s1 Ea H). }
        destruct (parse_with tbl 0 (b_charset st) (S (length ch)) ch) as [evs'|er2|]; try discriminate.
        -- destruct (build_from tbl lv evs' st_init) as [st2|er3|]; try discriminate.
           ++ cbv zeta in H. destruct (add_to_current st _) as [s1|er1|] eqn:Ea; try discriminate.
              apply (Hadd st f (TSub (wt_lang (tree_of_state st2)) (wt_charset (tree_of_state st2)) (wt_root (tree_of_state st2))) Hs eq_refl eq_refl ltac:(lia) eq_refl eq_refl s1 Ea H).
           ++ destruct (add_to_current st (TText ch)) as [s1|er1|] eqn:Ea; try discriminate.
              apply (Hadd st f (TText ch) Hs eq_refl eq_refl ltac:(lia) eq_refl eq_refl s1 Ea H).
        -- destruct (add_to_current st (TText ch)) as [s1|er1|] eqn:Ea; try discriminate.
           apply (Hadd st f (TText ch) Hs eq_refl eq_refl ltac:(lia) eq_refl eq_refl s1 Ea H).
      * destruct (add_to_current (open_cdata st) (TText ch)) as [s1|er1|] eqn:Ea; try discriminate.
        unfold open_cdata in Ea. rewrite Hs in Ea.
        destruct (f_cdata f) as [c|] eqn:Ec.
        -- apply (Hadd st f (TText ch) Hs eq_refl eq_refl ltac:(lia) eq_refl eq_refl s1 Ea H).
        -- apply (Hadd (mk_bstate (b_lang st) (b_charset st) (mk_frame (f_tag f) (f_attrs f) (f_done f) (Some []) :: up) (b_root st))
                       (mk_frame (f_tag f) (f_attrs f) (f_done f) (Some [])) (TText ch) eq_refl eq_refl eq_refl
                    ltac:(unfold fdepth; cbn [f_done f_cdata]; rewrite Ec; unfold ldepth; cbn [fold_right]; lia) eq_refl eq_refl s1 Ea H).
    + destruct (IH st f up st' Hs H) as (f' & E). exists f'. exact E.
    + destruct (IH st f up st' Hs H) as (f' & E). exists f'. exact E.
  - (* an element *)
    change (EvStartElt t a :: inner ++ EvEndElt t :: r) with ([EvStartElt t a] ++ inner ++ [EvEndElt t] ++ r) in H.
    rewrite build_from_app in H.
    rewrite build_from_start in H. unfold cb_start_element in H. rewrite Hs in H.
    set (st1 := mk_bstate (b_lang st) (b_charset st) (mk_frame t a [] None :: leave_cdata f :: up) (b_root st)) in H.
    rewrite build_from_app in H.
    destruct (build_from tbl ef inner st1) as [st2|er|] eqn:E2; try discriminate.
    rewrite build_from_app in H.
    destruct (IHi st1 (mk_frame t a [] None) (leave_cdata f :: up) st2 eq_refl E2) as (g' & G1 & G2 & G3 & G4 & G5).
    rewrite build_from_end in H. unfold cb_end_element in H. rewrite G1 in H.
    set (p := leave_cdata f) in *.
    set (st3 := mk_bstate (b_lang st2) (b_charset st2)
                          (mk_frame (f_tag p) (f_attrs p) (f_done p ++ cdata_nodes p ++ [frame_node g' []]) None :: up) (b_root st2)) in H.
    destruct (IHr st3 _ up st' eq_refl H) as (f' & F1 & F2 & F3 & F4 & F5).
    exists f'. cbn [f_tag f_attrs b_root] in *.
    assert (Hp : f_tag p = f_tag f /\ f_attrs p = f_attrs f /\ fdepth p = fdepth f /\ f_cdata p = None).
    { subst p. unfold leave_cdata. destruct (f_cdata f) as [c|] eqn:Ec; [|repeat split; try reflexivity; exact Ec].
      repeat split. unfold fdepth. cbn [f_done f_cdata]. rewrite Ec, ldepth_app. cbn [ldepth fold_right ndepth]. fold (ldepth c). lia. }
    destruct Hp as (P1 & P2 & P3 & P4).
    subst st1 st3. cbn [b_root f_tag f_attrs] in *.
    split; [exact F1|]. split; [congruence|]. split; [congruence|]. split; [|congruence].
    assert (Hd3 : (fdepth (mk_frame (f_tag p) (f_attrs p) (f_done p ++ cdata_nodes p ++ [frame_node g' []]) None) <= Nat.max (fdepth f) (S d))%nat).
    { unfold fdepth at 1. cbn [f_done f_cdata]. unfold cdata_nodes. rewrite P4. cbn [app]. rewrite ldepth_app.
      change (ldepth [frame_node g' []]) with (Nat.max (ndepth (frame_node g' [])) 0). rewrite frame_node_depth.
      assert (ldepth (f_done p) <= fdepth p)%nat by (unfold fdepth; lia).
      change (fdepth (mk_frame t a [] None)) with 0%nat in G4. lia. }
    lia.
Qed.

(* (B) the tree built from the events of a successful parse is at most 1001 elements deep
       (CDATA sections and embedded documents do not count as levels; an embedded document has its own bound) *)
Theorem build_depth tbl forced meta fuel bs evs ef t :
  parse_with tbl forced meta fuel bs = POk evs -> build tbl ef evs = BOk t -> (tdepth t <= 1001)%nat.
Proof.
  intros Hp Hb. destruct (parse_doc_shape _ _ _ _ _ _ Hp) as (cs & lid & p1 & tg & a & inner & p2 & -> & H1 & H2 & Hbal).
  unfold build in Hb.
  destruct (build_from tbl ef _ st_init) as [st|e|] eqn:E; try discriminate. injection Hb as <-.
  change (EvStartDoc cs lid :: (p1 ++ (EvStartElt tg a :: inner ++ [EvEndElt tg]) ++ p2) ++ [EvEndDoc])
    with ([EvStartDoc cs lid] ++ (p1 ++ ([EvStartElt tg a] ++ inner ++ [EvEndElt tg]) ++ p2) ++ [EvEndDoc]) in E.
  rewrite build_from_app in E. rewrite build_from_startdoc in E. change (mk_bstate lid cs (b_stack st_init) (b_root st_init)) with (mk_bstate lid cs [] None) in E.
  cbv beta iota in E. rewrite build_from_app in E. rewrite build_from_app in E.
  rewrite (build_from_pis tbl ef p1 _ H1) in E. cbv beta iota in E.
  rewrite build_from_app in E. rewrite build_from_app in E.
  rewrite build_from_start in E. change (cb_start_element tg a (mk_bstate lid cs [] None)) with (BOk (mk_bstate lid cs [mk_frame tg a [] None] None)) in E.
  cbv beta iota in E. rewrite build_from_app in E.
  destruct (build_from tbl ef inner (mk_bstate lid cs [mk_frame tg a [] None] None)) as [st2|er|] eqn:E2; try discriminate.
  destruct (run_bal tbl ef 1000 inner Hbal (mk_bstate lid cs [mk_frame tg a [] None] None) (mk_frame tg a [] None) [] st2 eq_refl E2) as (g & G1 & _ & _ & G4 & G5).
  change (fdepth (mk_frame tg a [] None)) with 0%nat in G4. cbn [b_root] in G5.
  cbv beta iota in E. rewrite build_from_end in E. unfold cb_end_element in E. rewrite G1 in E.
  assert (Hfin : forall s3, tdepth (tree_of_state s3) = S (fdepth g) ->
            match build_from tbl ef p2 s3 with BOk st1 => build_from tbl ef [EvEndDoc] st1 | BErr e => BErr e | BFuel => BFuel end = BOk st ->
            (tdepth (tree_of_state st) <= 1001)%nat).
  { intros s3 Hd Hx. rewrite (build_from_pis tbl ef p2 s3 H2) in Hx. rewrite build_from_enddoc in Hx. injection Hx as <-. lia. }
  destruct (f_cdata g) eqn:Ec.
  - apply (Hfin (mk_bstate (b_lang st2) (b_charset st2) [] (Some (frame_node g [])))); [|exact E].
    unfold tdepth, tree_of_state. cbn [b_stack b_root wt_root]. apply frame_node_depth.
  - apply (Hfin st2); [|exact E]. unfold tdepth, tree_of_state. rewrite G1. cbn [wt_root view hd_error]. apply frame_node_depth.
Qed.
